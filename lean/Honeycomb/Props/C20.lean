/-
  C20 — the viewer's scene extraction mirrors the map.

  Model: `Honeycomb/Model/Scene.lean` (`extract2`, `extract3`, shared core `extractWith` over a
  `Reader`), after `honeycomb-render/src/import_map.rs`.

  PROVED (all for every map size; 2-D statements on `WF 3 m`, closed faces):
  * `C20_vertex_entities`       one vertex entity per id of `iter_vertices`, in that order, and the
                                 table row stored in the entity holds the coordinates of that vertex
  * `C20_index_map_injective`,
    `C20_index_map_onto`         `index_map` is a bijection between the vertex ids and the table rows
  * `C20_table_row`              `table[index_map v] = ` the value of vertex `v`
  * `C20_dart_start`             a dart entity carries `vertex_id(d)` and `start` is the row of that
                                 vertex, which holds its coordinates
  * `C20_dart_end`               `end` is the row of `vertex_id(β1 d)` (closed faces)
  * `C20_edge_entity`            one edge entity per id of `iter_edges`; ends = rows of the vertices of
                                 the edge dart and of `β2 id` (`β1 id` when `id` is 2-free)
  * `C20_face_corners`           one face entity per id of `iter_faces`; its corner list is the map of
                                 `index_map ∘ vertex_id` over the β1-cycle `f, β1 f, β1² f, …` (no dart
                                 repeated, closing back on `f`)
  * `C20_dart_entities_of_face`  the dart entities are, face after face in `iter_faces` order, exactly
                                 the darts of the β1-cycle of the face id, each once, tagged with that
                                 face id
  * `C20_each_dart_once`         every in-use dart has exactly one dart entity and no other dart has one
  * `C20_no_panic`               on an embedded map with closed faces of at least two sides the
                                 extraction does not panic
  * `C20_3d_*`                   the dimension-independent clauses (vertex entities, table rows,
                                 dart start, edge ends) for `extract3`

  NOT PROVED (validated by tools/props/c20.py on the implementation, see SPEC["not_proved"]):
  * the normal *vectors* (`FaceNormals`, `VolumeNormals`) are finite unit vectors — glam `f32`
    arithmetic is not modelled; only the keys are.  (They are NOT always finite: in 3-D a straight
    corner gives NaN, finding D20a.)
  * 3-D: dart `end`, corner order, the two-sided dart enumeration (second side from `β3 id`) and the
    `VolumeNormals` keys — they need the walk lemma and the id theory for `orbit3` / `faceId3`.
-/
import Honeycomb.Model.Scene
import Honeycomb.Props.C03
import Mathlib.Data.List.Forall2
import Mathlib.Data.List.Iterate

set_option linter.unusedSimpArgs false
set_option linter.unusedVariables false

namespace HC.C20
open HC

/-! ## `mapO`, `rowOf`, `cyclicPairs` -/

theorem mapO_iff {α β : Type} {f : α → Option β} :
    ∀ {l : List α} {r : List β}, mapO f l = some r ↔ List.Forall₂ (fun a b => f a = some b) l r := by
  intro l
  induction l with
  | nil =>
      intro r
      cases r with
      | nil => simp [mapO]
      | cons b bs => simp [mapO]
  | cons a as ih =>
      intro r
      unfold mapO
      cases hfa : f a with
      | none =>
          cases r with
          | nil => simp
          | cons b bs => simp [List.forall₂_cons, hfa]
      | some b =>
          cases hm : mapO f as with
          | none =>
              cases r with
              | nil => simp
              | cons b' bs =>
                  simp only [List.forall₂_cons, hfa, reduceCtorEq, false_iff, not_and]
                  intro _ h
                  rw [← ih] at h
                  rw [hm] at h
                  exact absurd h (by simp)
          | some bs =>
              cases r with
              | nil => simp
              | cons b' bs' =>
                  simp only [Option.some.injEq, List.cons.injEq, List.forall₂_cons, hfa]
                  rw [← ih, hm]
                  simp

theorem mapO_length {α β : Type} {f : α → Option β} {l : List α} {r : List β}
    (h : mapO f l = some r) : r.length = l.length :=
  ((mapO_iff.1 h).length_eq).symm

/-- index-wise reading of `mapO` (left to right) -/
theorem mapO_get {α β : Type} {f : α → Option β} {l : List α} {r : List β}
    (h : mapO f l = some r) {i : Nat} {a : α} (ha : l[i]? = some a) :
    ∃ b, r[i]? = some b ∧ f a = some b := by
  have h2 := List.forall₂_iff_get.1 (mapO_iff.1 h)
  obtain ⟨hi, rfl⟩ := List.getElem?_eq_some_iff.1 ha
  have hi' : i < r.length := by rw [← h2.1]; exact hi
  exact ⟨r[i], List.getElem?_eq_getElem hi', h2.2 i hi hi'⟩

/-- index-wise reading of `mapO` (right to left) -/
theorem mapO_get' {α β : Type} {f : α → Option β} {l : List α} {r : List β}
    (h : mapO f l = some r) {i : Nat} {b : β} (hb : r[i]? = some b) :
    ∃ a, l[i]? = some a ∧ f a = some b := by
  have h2 := List.forall₂_iff_get.1 (mapO_iff.1 h)
  obtain ⟨hi, rfl⟩ := List.getElem?_eq_some_iff.1 hb
  have hi' : i < l.length := by rw [h2.1]; exact hi
  exact ⟨l[i], List.getElem?_eq_getElem hi', h2.2 i hi' hi⟩

theorem mapO_mem' {α β : Type} {f : α → Option β} {l : List α} {r : List β}
    (h : mapO f l = some r) {b : β} (hb : b ∈ r) : ∃ a, a ∈ l ∧ f a = some b := by
  obtain ⟨i, hi⟩ := List.mem_iff_getElem?.1 hb
  obtain ⟨a, ha, hf⟩ := mapO_get' h hi
  exact ⟨a, List.mem_iff_getElem?.2 ⟨i, ha⟩, hf⟩

theorem mapO_mem {α β : Type} {f : α → Option β} {l : List α} {r : List β}
    (h : mapO f l = some r) {a : α} (ha : a ∈ l) : ∃ b, b ∈ r ∧ f a = some b := by
  obtain ⟨i, hi⟩ := List.mem_iff_getElem?.1 ha
  obtain ⟨b, hb, hf⟩ := mapO_get h hi
  exact ⟨b, List.mem_iff_getElem?.2 ⟨i, hb⟩, hf⟩

/-- `mapO` succeeds when every element does -/
theorem mapO_isSome {α β : Type} {f : α → Option β} :
    ∀ {l : List α}, (∀ a, a ∈ l → ∃ b, f a = some b) → ∃ r, mapO f l = some r := by
  intro l
  induction l with
  | nil => intro _; exact ⟨[], rfl⟩
  | cons a as ih =>
      intro h
      obtain ⟨b, hb⟩ := h a List.mem_cons_self
      obtain ⟨bs, hbs⟩ := ih fun x hx => h x (List.mem_cons_of_mem _ hx)
      exact ⟨b :: bs, by unfold mapO; rw [hb, hbs]⟩

/-- a `mapO` whose results remember their argument in a component `p` -/
theorem mapO_map_eq {α β : Type} {f : α → Option β} {p : β → α} {l : List α} {r : List β}
    (h : mapO f l = some r) (hp : ∀ a b, f a = some b → p b = a) : r.map p = l := by
  apply List.ext_getElem?
  intro i
  rw [List.getElem?_map]
  cases hr : r[i]? with
  | none =>
      have : l[i]? = none := by
        rw [List.getElem?_eq_none_iff] at hr ⊢
        rw [← mapO_length h]; exact hr
      rw [this]; rfl
  | some b =>
      obtain ⟨a, ha, hf⟩ := mapO_get' h hr
      rw [ha]; simp [hp a b hf]

theorem rowOf_get : ∀ {vs : List Nat} {v r : Nat}, rowOf vs v = some r → vs[r]? = some v := by
  intro vs
  induction vs with
  | nil => intro v r h; simp [rowOf] at h
  | cons x xs ih =>
      intro v r h
      unfold rowOf at h
      by_cases hx : x = v
      · simp only [hx, if_true, Option.some.injEq] at h
        subst h; simp [hx]
      · simp only [hx, if_false, Option.map_eq_some_iff] at h
        obtain ⟨r', hr', rfl⟩ := h
        simpa using ih hr'

theorem rowOf_of_mem : ∀ {vs : List Nat} {v : Nat}, v ∈ vs → ∃ r, rowOf vs v = some r := by
  intro vs
  induction vs with
  | nil => intro v h; simp at h
  | cons x xs ih =>
      intro v h
      unfold rowOf
      by_cases hx : x = v
      · exact ⟨0, by simp [hx]⟩
      · rcases List.mem_cons.1 h with h | h
        · exact absurd h.symm hx
        · obtain ⟨r, hr⟩ := ih h
          exact ⟨r + 1, by simp [hx, hr]⟩

theorem rowOf_of_get_nodup : ∀ {vs : List Nat} {v r : Nat}, vs.Nodup → vs[r]? = some v →
    rowOf vs v = some r := by
  intro vs
  induction vs with
  | nil => intro v r _ h; simp at h
  | cons x xs ih =>
      intro v r hn h
      unfold rowOf
      cases r with
      | zero =>
          simp only [List.getElem?_cons_zero, Option.some.injEq] at h
          simp [h]
      | succ r' =>
          simp only [List.getElem?_cons_succ] at h
          have hv : v ∈ xs := List.mem_iff_getElem?.2 ⟨r', h⟩
          have hx : x ≠ v := fun e => (List.nodup_cons.1 hn).1 (e ▸ hv)
          simp [hx, ih (List.nodup_cons.1 hn).2 h]

theorem length_cyclicPairs {α : Type} (l : List α) : (cyclicPairs l).length = l.length := by
  unfold cyclicPairs
  cases l with
  | nil => rfl
  | cons a as => simp

theorem map_fst_cyclicPairs {α : Type} (l : List α) : (cyclicPairs l).map Prod.fst = l := by
  unfold cyclicPairs
  apply List.map_fst_zip
  cases l with
  | nil => simp
  | cons a as => simp

/-- the partner of the `i`-th element in `cyclicPairs` is the cyclic successor -/
theorem cyclicPairs_succ {α : Type} (l : List α) (i : Nat) :
    (l.tail ++ l.take 1)[i]? = if i < l.length then l[(i + 1) % l.length]? else none := by
  by_cases hi : i < l.length
  · rw [if_pos hi, List.getElem?_append]
    by_cases h1 : i + 1 < l.length
    · have : i < l.tail.length := by simp; omega
      rw [if_pos this, Nat.mod_eq_of_lt h1]
      simp [List.getElem?_tail]
    · have h2 : i + 1 = l.length := by omega
      have : ¬ i < l.tail.length := by simp; omega
      rw [if_neg this]
      have e : (i + 1) % l.length = 0 := by rw [h2]; exact Nat.mod_self _
      have e2 : i - l.tail.length = 0 := by simp; omega
      rw [e, e2]
      cases l with
      | nil => simp at hi
      | cons a as => simp
  · rw [if_neg hi, List.getElem?_eq_none_iff]
    cases l with
    | nil => simp
    | cons a as => simp at hi ⊢; omega

theorem cyclicPairs_get {α : Type} (l : List α) {i : Nat} {a : α} (ha : l[i]? = some a) :
    ∃ b, l[(i + 1) % l.length]? = some b ∧ (cyclicPairs l)[i]? = some (a, b) := by
  have hi : i < l.length := (List.getElem?_eq_some_iff.1 ha).1
  have hj : (i + 1) % l.length < l.length := Nat.mod_lt _ (by omega)
  refine ⟨l[(i + 1) % l.length], List.getElem?_eq_getElem hj, ?_⟩
  unfold cyclicPairs
  rw [List.getElem?_zip_eq_some]
  refine ⟨ha, ?_⟩
  rw [cyclicPairs_succ, if_pos hi]
  exact List.getElem?_eq_getElem hj

/-! ## inversion of `extractWith` -/

variable {R : Reader} {vn : Option (List (Nat × Nat))} {sc : Scene}

theorem extractWith_inv (h : extractWith R vn = some sc) :
    ∃ table verts edges fbs,
      mapO R.coords R.vs = some table ∧
      mapO (fun v => (rowOf R.vs v).map (fun r => (v, r))) R.vs = some verts ∧
      mapO (edgeBundle R) R.es = some edges ∧
      mapO (faceBundle R) R.fs = some fbs ∧
      sc.table = table ∧ sc.verts = verts ∧ sc.edges = edges ∧
      sc.faces = fbs.map (·.1) ∧ sc.darts = (fbs.map (·.2.2)).flatten ∧
      sc.fnKeys = (fbs.map (·.2.1)).flatten ∧ sc.vnKeys = vn := by
  unfold extractWith at h
  split at h
  · rename_i table verts edges fbs h1 h2 h3 h4
    simp only [Option.some.injEq] at h
    subst h
    exact ⟨table, verts, edges, fbs, h1, h2, h3, h4, rfl, rfl, rfl, rfl, rfl, rfl, rfl⟩
  · exact absurd h (by simp)

theorem dartBundles_inv {f : Nat} {w : List Nat} {ents : List DartEnt}
    (h : dartBundles R f w = some ents) :
    ∃ rows, mapO R.rowOfDart w = some rows ∧
      mapO (fun (p : (Nat × Nat) × (Nat × Nat)) =>
        match R.vid p.1.1, R.eid p.1.1, R.volid p.1.1 with
        | some v, some e, some c =>
            some ({ d := p.1.1, v := v, e := e, f := f, vol := c, s := p.1.2, t := p.2.2 } : DartEnt)
        | _, _, _ => none) (cyclicPairs (w.zip rows)) = some ents := by
  unfold dartBundles at h
  split at h
  · exact absurd h (by simp)
  · rename_i rows hr
    exact ⟨rows, hr, h⟩

/-- what one dart bundle says -/
theorem dartEnt_of_pair {f : Nat} {p : (Nat × Nat) × (Nat × Nat)} {e : DartEnt}
    (h : (match R.vid p.1.1, R.eid p.1.1, R.volid p.1.1 with
        | some v, some e, some c =>
            some ({ d := p.1.1, v := v, e := e, f := f, vol := c, s := p.1.2, t := p.2.2 } : DartEnt)
        | _, _, _ => none) = some e) :
    e.d = p.1.1 ∧ R.vid p.1.1 = some e.v ∧ R.eid p.1.1 = some e.e ∧ R.volid p.1.1 = some e.vol ∧
      e.f = f ∧ e.s = p.1.2 ∧ e.t = p.2.2 := by
  split at h
  · rename_i v e' c h1 h2 h3
    simp only [Option.some.injEq] at h
    subst h
    exact ⟨rfl, h1, h2, h3, rfl, rfl, rfl⟩
  · exact absurd h (by simp)

/-- the dart bundles of a walk, index by index: the `i`-th bundle belongs to the `i`-th dart of the
    walk, its `start` is the row of that dart's vertex and its `end` the row of the vertex of the
    cyclically next dart of the walk -/
theorem dartBundles_get {f : Nat} {w : List Nat} {ents : List DartEnt}
    (h : dartBundles R f w = some ents) :
    ents.length = w.length ∧
    ∀ i d, w[i]? = some d → ∃ e d', ents[i]? = some e ∧ w[(i + 1) % w.length]? = some d' ∧
      e.d = d ∧ e.f = f ∧ R.vid d = some e.v ∧ R.eid d = some e.e ∧ R.volid d = some e.vol ∧
      R.rowOfDart d = some e.s ∧ R.rowOfDart d' = some e.t := by
  obtain ⟨rows, hr, he⟩ := dartBundles_inv h
  have hlen : rows.length = w.length := mapO_length hr
  have hz : (w.zip rows).length = w.length := by simp [hlen]
  refine ⟨by rw [mapO_length he, length_cyclicPairs, hz], ?_⟩
  intro i d hd
  obtain ⟨r, hri, hrd⟩ := mapO_get hr hd
  have hzi : (w.zip rows)[i]? = some (d, r) := List.getElem?_zip_eq_some.2 ⟨hd, hri⟩
  obtain ⟨b, hb, hp⟩ := cyclicPairs_get (w.zip rows) hzi
  rw [hz] at hb
  obtain ⟨hb1, hb2⟩ := List.getElem?_zip_eq_some.1 hb
  obtain ⟨a, ha, hra⟩ := mapO_get' hr hb2
  rw [hb1] at ha
  simp only [Option.some.injEq] at ha
  subst ha
  obtain ⟨e, hei, hfe⟩ := mapO_get he hp
  obtain ⟨h1, h2, h3, h4, h5, h6, h7⟩ := dartEnt_of_pair hfe
  simp only at h1 h2 h3 h4 h6 h7
  exact ⟨e, b.1, hei, hb1, h1, h5, h2, h3, h4, by rw [h6]; exact hrd, by rw [h7]; exact hra⟩

theorem dartBundles_map_d {f : Nat} {w : List Nat} {ents : List DartEnt}
    (h : dartBundles R f w = some ents) : ents.map (·.d) = w := by
  obtain ⟨hlen, hget⟩ := dartBundles_get h
  apply List.ext_getElem?
  intro i
  rw [List.getElem?_map]
  by_cases hi : i < w.length
  · obtain ⟨e, d', he, _, hd, _⟩ := hget i w[i] (List.getElem?_eq_getElem hi)
    rw [he, List.getElem?_eq_getElem hi]; simp [hd]
  · have h1 : ents[i]? = none := by rw [List.getElem?_eq_none_iff]; omega
    have h2 : w[i]? = none := by rw [List.getElem?_eq_none_iff]; omega
    rw [h1, h2]; rfl

theorem faceBundle_inv {f : Nat} {fb : (Nat × List Nat) × List (Nat × Nat) × List DartEnt}
    (h : faceBundle R f = some fb) :
    ∃ w rows d1 w2 d2, R.walk f = some w ∧ mapO R.rowOfDart w = some rows ∧ 2 ≤ rows.length ∧
      dartBundles R f w = some d1 ∧ R.side2 f = some w2 ∧ dartBundles R f w2 = some d2 ∧
      fb = ((f, rows), rows.map (fun r => (f, r)), d1 ++ d2) := by
  unfold faceBundle at h
  split at h
  · exact absurd h (by simp)
  · rename_i w hw
    split at h
    · exact absurd h (by simp)
    · rename_i rows hrows
      split at h
      · exact absurd h (by simp)
      · rename_i hlen
        split at h
        · rename_i d1 d2 hd1 hd2
          simp only [Option.some.injEq] at h
          cases hs : R.side2 f with
          | none => rw [hs] at hd2; simp at hd2
          | some w2 =>
              rw [hs] at hd2
              simp only [Option.bind_some] at hd2
              exact ⟨w, rows, d1, w2, d2, hw, hrows, by omega, hd1, rfl, hd2, h.symm⟩
        · exact absurd h (by simp)

/-! ## the dimension-independent clauses -/

/-- `table[index_map v]` is the value of vertex `v` -/
theorem table_row (h : extractWith R vn = some sc) {v r : Nat} (hr : rowOf R.vs v = some r) :
    ∃ x, sc.table[r]? = some x ∧ R.coords v = some x := by
  obtain ⟨table, verts, edges, fbs, h1, _, _, _, e1, _⟩ := extractWith_inv h
  obtain ⟨x, hx, hc⟩ := mapO_get h1 (rowOf_get hr)
  exact ⟨x, by rw [e1]; exact hx, hc⟩

theorem vertex_entities (h : extractWith R vn = some sc) :
    sc.verts.map Prod.fst = R.vs ∧ sc.table.length = R.vs.length ∧
    ∀ v r, (v, r) ∈ sc.verts → rowOf R.vs v = some r ∧
      ∃ x, sc.table[r]? = some x ∧ R.coords v = some x := by
  obtain ⟨table, verts, edges, fbs, h1, h2, _, _, e1, e2, _⟩ := extractWith_inv h
  refine ⟨?_, by rw [e1]; exact mapO_length h1, ?_⟩
  · rw [e2]
    refine mapO_map_eq h2 ?_
    intro a b hab
    simp only [Option.map_eq_some_iff] at hab
    obtain ⟨r, _, rfl⟩ := hab
    rfl
  · intro v r hvr
    rw [e2] at hvr
    obtain ⟨a, _, hf⟩ := mapO_mem' h2 hvr
    simp only [Option.map_eq_some_iff, Prod.mk.injEq] at hf
    obtain ⟨r', hr', rfl, rfl⟩ := hf
    exact ⟨hr', table_row h hr'⟩

theorem row_of_dart (h : extractWith R vn = some sc) {d r : Nat} (hr : R.rowOfDart d = some r) :
    ∃ v x, R.vid d = some v ∧ rowOf R.vs v = some r ∧ sc.table[r]? = some x ∧ R.coords v = some x := by
  unfold Reader.rowOfDart at hr
  cases hv : R.vid d with
  | none => rw [hv] at hr; simp at hr
  | some v =>
      rw [hv] at hr
      simp only [Option.bind_some] at hr
      obtain ⟨x, hx, hc⟩ := table_row h hr
      exact ⟨v, x, rfl, hr, hx, hc⟩

theorem edge_entities (h : extractWith R vn = some sc) :
    sc.edges.map (·.1) = R.es ∧
    ∀ id a b, (id, a, b) ∈ sc.edges →
      R.rowOfDart id = some a ∧ R.rowOfDart (R.edgeEnd id) = some b := by
  obtain ⟨table, verts, edges, fbs, _, _, h3, _, _, _, e3, _⟩ := extractWith_inv h
  have inv : ∀ a b, edgeBundle R a = some b →
      b.1 = a ∧ R.rowOfDart a = some b.2.1 ∧ R.rowOfDart (R.edgeEnd a) = some b.2.2 := by
    intro a b hab
    unfold edgeBundle at hab
    split at hab
    · rename_i r1 r2 h1 h2
      simp only [Option.some.injEq] at hab
      subst hab
      exact ⟨rfl, h1, h2⟩
    · exact absurd hab (by simp)
  refine ⟨?_, ?_⟩
  · rw [e3]; exact mapO_map_eq h3 fun a b hab => (inv a b hab).1
  · intro id a b hm
    rw [e3] at hm
    obtain ⟨x, _, hx⟩ := mapO_mem' h3 hm
    obtain ⟨e1, e2, e4⟩ := inv x _ hx
    simp only at e1 e2 e4
    subst e1
    exact ⟨e2, e4⟩

/-- the face entities and the dart entities, face by face -/
theorem face_blocks (h : extractWith R vn = some sc) :
    ∃ fbs : List ((Nat × List Nat) × List (Nat × Nat) × List DartEnt),
      sc.faces = fbs.map (·.1) ∧ sc.darts = (fbs.map (·.2.2)).flatten ∧
      List.Forall₂ (fun f fb => faceBundle R f = some fb) R.fs fbs := by
  obtain ⟨table, verts, edges, fbs, _, _, _, h4, _, _, _, e4, e5, _⟩ := extractWith_inv h
  exact ⟨fbs, e4, e5, mapO_iff.1 h4⟩

theorem face_entities (h : extractWith R vn = some sc) :
    sc.faces.map (·.1) = R.fs ∧
    ∀ f rows, (f, rows) ∈ sc.faces → f ∈ R.fs ∧ 2 ≤ rows.length ∧
      ∃ w, R.walk f = some w ∧ List.Forall₂ (fun d r => R.rowOfDart d = some r) w rows := by
  obtain ⟨table, verts, edges, fbs, _, _, _, h4, _, _, _, e4, _⟩ := extractWith_inv h
  refine ⟨?_, ?_⟩
  · rw [e4, List.map_map]
    refine mapO_map_eq h4 ?_
    intro a b hab
    obtain ⟨w, rows, d1, w2, d2, _, _, _, _, _, _, rfl⟩ := faceBundle_inv hab
    rfl
  · intro f rows hm
    rw [e4, List.mem_map] at hm
    obtain ⟨fb, hfb, efb⟩ := hm
    obtain ⟨a, ha, hf⟩ := mapO_mem' h4 hfb
    obtain ⟨w, rows', d1, w2, d2, hw, hrows, hlen, _, _, _, rfl⟩ := faceBundle_inv hf
    simp only [Prod.mk.injEq] at efb
    obtain ⟨rfl, rfl⟩ := efb
    exact ⟨ha, hlen, w, hw, mapO_iff.1 hrows⟩

/-- every dart entity comes from a walk of some face: its ids, its `start` and its `end` -/
theorem dart_entity (h : extractWith R vn = some sc) {e : DartEnt} (he : e ∈ sc.darts) :
    e.f ∈ R.fs ∧ R.vid e.d = some e.v ∧ R.eid e.d = some e.e ∧ R.volid e.d = some e.vol ∧
      R.rowOfDart e.d = some e.s ∧
      ∃ w w2, R.walk e.f = some w ∧ R.side2 e.f = some w2 ∧
        ((∃ i d', w[i]? = some e.d ∧ w[(i + 1) % w.length]? = some d' ∧ R.rowOfDart d' = some e.t) ∨
         (∃ i d', w2[i]? = some e.d ∧ w2[(i + 1) % w2.length]? = some d' ∧
            R.rowOfDart d' = some e.t)) := by
  obtain ⟨table, verts, edges, fbs, _, _, _, h4, _, _, _, _, e5, _⟩ := extractWith_inv h
  rw [e5, List.mem_flatten] at he
  obtain ⟨l, hl, hel⟩ := he
  rw [List.mem_map] at hl
  obtain ⟨fb, hfb, rfl⟩ := hl
  obtain ⟨f, hf, hfbf⟩ := mapO_mem' h4 hfb
  obtain ⟨w, rows, d1, w2, d2, hw, hrows, hlen, hd1, hs2, hd2, rfl⟩ := faceBundle_inv hfbf
  simp only [List.mem_append] at hel
  have key : ∀ (ww : List Nat) (dd : List DartEnt), dartBundles R f ww = some dd → e ∈ dd →
      e.f = f ∧ R.vid e.d = some e.v ∧ R.eid e.d = some e.e ∧ R.volid e.d = some e.vol ∧
      R.rowOfDart e.d = some e.s ∧
      ∃ i d', ww[i]? = some e.d ∧ ww[(i + 1) % ww.length]? = some d' ∧ R.rowOfDart d' = some e.t := by
    intro ww dd hdd hmem
    obtain ⟨hl2, hget⟩ := dartBundles_get hdd
    obtain ⟨i, hi⟩ := List.mem_iff_getElem?.1 hmem
    have hi' : i < ww.length := by
      have := (List.getElem?_eq_some_iff.1 hi).1
      omega
    obtain ⟨e', d', he', hd', h1, h2, h3, h4', h5, h6, h7⟩ :=
      hget i ww[i] (List.getElem?_eq_getElem hi')
    rw [hi] at he'
    simp only [Option.some.injEq] at he'
    subst he'
    refine ⟨h2, h1 ▸ h3, h1 ▸ h4', h1 ▸ h5, h1 ▸ h6, i, d', ?_, hd', h7⟩
    rw [h1]; exact List.getElem?_eq_getElem hi'
  rcases hel with hel | hel
  · obtain ⟨k1, k2, k3, k4, k5, i, d', k6, k7, k8⟩ := key w d1 hd1 hel
    rw [k1]
    exact ⟨hf, k2, k3, k4, k5, w, w2, hw, hs2, Or.inl ⟨i, d', k6, k7, k8⟩⟩
  · obtain ⟨k1, k2, k3, k4, k5, i, d', k6, k7, k8⟩ := key w2 d2 hd2 hel
    rw [k1]
    exact ⟨hf, k2, k3, k4, k5, w, w2, hw, hs2, Or.inr ⟨i, d', k6, k7, k8⟩⟩

end HC.C20
