/-
  C04, cell level (2-unsew): the identifiers computed by `two_unsew` ARE the cells.

  On a well-formed 2-map, a successful `two_unsew l` (with `r = β2 l`):
    * has the topology of the 2-unlink (`unlink2 m l`), which is again well-formed;
    * the OLD vertex partition is the NEW one in which the cells of `l` and `β1 r` are united (when
      `r` has a successor) and the cells of `r` and `β1 l` are united (when `l` has a successor) —
      the cell calculus A4 read backwards: re-linking what was unlinked gives back the map;
    * every identifier the code computes is the minimum of the corresponding cell: the old edge id
      is `min l r`, the old vertex ids are the minima of the old cells, the new vertex ids are the
      minima of the new cells (C03 on the unlinked map);
    * the data (C04): the edge storages split `min l r` into `(l, r)`; the vertex storages split the
      old vertex of `l` into the new vertices of `l` and `β1 r`, then the old vertex of `r` into
      the new vertices of `β1 l` and `r`.
-/
import Honeycomb.Props.C04Cells

set_option linter.unusedSimpArgs false
set_option linter.unusedVariables false

namespace HC.C04
open HC HC.C03 HC.CellCalc
variable {X : Type}

/-- the map after `two_unlink_core l` -/
def unlink2 (m : Map X) (l : Nat) : Map X := (m.setβ 2 l 0).setβ 2 (m.β 2 l) 0

theorem unlink2_β {m : Map X} (h : WF 3 m) {l : Nat} (hl : l < m.n) (j e : Nat) :
    (unlink2 m l).β j e =
      if 2 = j ∧ m.β 2 l = e then 0 else if 2 = j ∧ l = e then 0 else m.β j e := by
  unfold unlink2
  have hrn : m.β 2 l < m.n := h.range 2 (by omega) l hl
  have s1 : Sized 3 (m.setβ 2 l 0) := h.toSized.setβ _ _ _
  rw [s1.β_setβ (by omega) (by simpa [Map.n_setβ] using hrn), h.toSized.β_setβ (by omega) hl]

/-- re-linking what was unlinked gives back the same β functions -/
theorem link2_unlink2_β {m : Map X} (h : WF 3 m) {l : Nat} (hl : l < m.n) (hne : m.β 2 l ≠ 0) (j e : Nat) :
    (link2 (unlink2 m l) l (m.β 2 l)).β j e = m.β j e := by
  have hwf1 : WF 3 (unlink2 m l) := h.unlinkI (by omega) (by omega) hl hne
  have hrn : m.β 2 l < m.n := h.range 2 (by omega) l hl
  rw [link2_β hwf1 (m := unlink2 m l) hl hrn, unlink2_β h hl]
  by_cases c0 : 2 = j ∧ m.β 2 l = e
  · obtain ⟨rfl, rfl⟩ := c0
    simp [(h.invol 2 (by omega) (by omega) l hl hne).1]
  · by_cases c1 : 2 = j ∧ l = e
    · obtain ⟨rfl, rfl⟩ := c1
      simp
      intro hh; exact hh.symm
    · simp [c0, c1]

/-- cells and identifiers only depend on the topology -/
theorem cellId_sameTopo {m m' : Map X} (st : SameTopo m m') (pol : Policy) (d : Nat) :
    cellId m' pol d = cellId m pol d := by
  have hg : g2 m' pol = g2 m pol := funext (g2_congr (fun j e => st.β j e) pol)
  unfold cellId orb
  rw [hg, st.n]

/-- the identifier computed on a map with the topology of `mu` is the cell identifier of `mu` -/
theorem vid_on_sameTopo {mu me : Map X} (hwf : WF 3 mu) (st : SameTopo mu me) {n d a : Nat} (hn : n = mu.n)
    (hd0 : d ≠ 0) (hd : d < mu.n) (h : run (vertexId2 (X := X) n d) me = (.ok a, me)) :
    a = cellId mu .vertex d := by
  have hwfe : WF 3 me := hwf.sameTopo st
  have hd' : d < me.n := by rw [st.n]; exact hd
  have hn' : n = me.n := by rw [st.n]; exact hn
  subst hn'
  rw [← cellId_sameTopo st]
  exact run_ok_inj h (C03_vertexId2_min hwfe hd0 hd').1

/-- **C04, 2-unsew at cell level**.  `r = β2 l`; `mu = unlink2 m l` is the map after the call as far
    as topology is concerned. -/
theorem C04_twoUnsew2_cells (cfg : Cfg X) (m m' : Map X) (l : Nat) (u : Unit)
    (hwf : WF 3 m) (hl : C01.InUse m l) (hfc : m.fc = 0)
    (h : run (twoUnsew2 cfg m.n l) m = (.ok u, m')) :
    m.β 2 l ≠ 0 ∧ WF 3 (unlink2 m l) ∧ SameTopo (unlink2 m l) m' ∧
    -- the OLD vertex partition, from the new one: unite cell(l) ∪ cell(β1 r), then cell(r) ∪ cell(β1 l)
    (∃ R : Nat → Nat → Prop,
      (∀ d e, R d e ↔ if m.β 1 (m.β 2 l) = 0 then SameCell (g2 (unlink2 m l) .vertex) m.n d e
                       else United (g2 (unlink2 m l) .vertex) m.n l (m.β 1 (m.β 2 l)) d e) ∧
      (∀ d e, SameCell (g2 m .vertex) m.n d e ↔
        if m.β 1 l = 0 then R d e else UnitedR R (m.β 2 l) (m.β 1 l) d e)) ∧
    -- the data, with every identifier expressed as the minimum of a cell
    (∃ me, SplitIn cfg (eStores cfg) l (m.β 2 l) (min (m.β 2 l) l) (unlink2 m l) me ∧
      ((m.β 1 l = 0 ∧ m.β 1 (m.β 2 l) = 0 ∧ m' = me) ∨
       (m.β 1 l = 0 ∧ m.β 1 (m.β 2 l) ≠ 0 ∧
          SplitIn cfg (vStores cfg) (cellId (unlink2 m l) .vertex l)
            (cellId (unlink2 m l) .vertex (m.β 1 (m.β 2 l))) (cellId m .vertex l) me m') ∨
       (m.β 1 l ≠ 0 ∧ m.β 1 (m.β 2 l) = 0 ∧
          SplitIn cfg (vStores cfg) (cellId (unlink2 m l) .vertex (m.β 1 l))
            (cellId (unlink2 m l) .vertex (m.β 2 l)) (cellId m .vertex (m.β 2 l)) me m') ∨
       (m.β 1 l ≠ 0 ∧ m.β 1 (m.β 2 l) ≠ 0 ∧ ∃ mv,
          SplitIn cfg (vStores cfg) (cellId (unlink2 m l) .vertex l)
            (cellId (unlink2 m l) .vertex (m.β 1 (m.β 2 l))) (cellId m .vertex l) me mv ∧
          SplitIn cfg (vStores cfg) (cellId (unlink2 m l) .vertex (m.β 1 l))
            (cellId (unlink2 m l) .vertex (m.β 2 l)) (cellId m .vertex (m.β 2 l)) mv m'))) := by
  obtain ⟨hl0, hln, _⟩ := hl
  obtain ⟨eold, m1, me, he, hunl, hE, htopo, hcase⟩ := C04_twoUnsew2_effect cfg m.n l m m' u hfc h
  obtain ⟨_, _, hne, hm1⟩ := iUnlinkCore_ok hunl
  have hm1' : m1 = unlink2 m l := hm1
  subst hm1'
  have hrn : m.β 2 l < m.n := hwf.range 2 (by omega) l hln
  have hwf1 : WF 3 (unlink2 m l) := hwf.unlinkI (by omega) (by omega) hln hne
  have hinv := hwf.invol 2 (by omega) (by omega) l hln hne
  have hlr : l ≠ m.β 2 l := fun hh => hinv.2 hh.symm
  -- the old edge id
  have e0 : eold = min (m.β 2 l) l := by
    have := (C03_edgeId2_min hwf hl0 hln)
    have e := run_ok_inj he this.1
    rw [e, this.2.2.2, if_neg hne]
  subst e0
  -- β values of the unlinked map
  have hb := unlink2_β hwf hln
  have hn1 : (unlink2 m l).n = m.n := rfl
  have h2l' : (unlink2 m l).β 2 l = 0 := by rw [hb]; simp
  have h2r' : (unlink2 m l).β 2 (m.β 2 l) = 0 := by rw [hb]; simp
  have h1 : ∀ e, (unlink2 m l).β 1 e = m.β 1 e := by intro e; rw [hb]; simp
  -- the partition
  obtain ⟨R, hR, hcells⟩ := vertex_cells_link2 hwf1 (m := unlink2 m l) hl0 hne hlr hln hrn h2l' h2r'
  have hpart : ∃ R : Nat → Nat → Prop,
      (∀ d e, R d e ↔ if m.β 1 (m.β 2 l) = 0 then SameCell (g2 (unlink2 m l) .vertex) m.n d e
                       else United (g2 (unlink2 m l) .vertex) m.n l (m.β 1 (m.β 2 l)) d e) ∧
      (∀ d e, SameCell (g2 m .vertex) m.n d e ↔
        if m.β 1 l = 0 then R d e else UnitedR R (m.β 2 l) (m.β 1 l) d e) := by
    refine ⟨R, ?_, ?_⟩
    · intro d e
      have := hR d e
      rw [h1] at this
      exact this
    · intro d e
      rw [← sameCell_of_beta_eq (link2_unlink2_β hwf hln hne) m.n d e]
      have := hcells d e
      rw [h1] at this
      exact this
  refine ⟨hne, hwf1, htopo, hpart, me, hE, ?_⟩
  have ste : SameTopo (unlink2 m l) me := hE.topo
  rcases hcase with ⟨c1, c2, rfl⟩ | ⟨c1, c2, lvold, a, b, hlv, ha, hb2, hV⟩ |
      ⟨c1, c2, rvold, a, b, hrv, ha, hb2, hV⟩ |
      ⟨c1, c2, lvold, rvold, a, b, c, d, mv, hlv, hrv, ha, hb2, hc, hd, hV1, hV2⟩
  · exact Or.inl ⟨c1, c2, rfl⟩
  · have hb1r : m.β 1 (m.β 2 l) < m.n := hwf.range 1 (by omega) _ hrn
    have e1 : lvold = cellId m .vertex l := run_ok_inj hlv (C03_vertexId2_min hwf hl0 hln).1
    have e2 := vid_on_sameTopo hwf1 ste hn1.symm hl0 hln ha
    have e3 := vid_on_sameTopo hwf1 ste hn1.symm c2 hb1r hb2
    subst e1 e2 e3
    exact Or.inr (Or.inl ⟨c1, c2, hV⟩)
  · have hb1l : m.β 1 l < m.n := hwf.range 1 (by omega) _ hln
    have e1 : rvold = cellId m .vertex (m.β 2 l) := run_ok_inj hrv (C03_vertexId2_min hwf hne hrn).1
    have e2 := vid_on_sameTopo hwf1 ste hn1.symm c1 hb1l ha
    have e3 := vid_on_sameTopo hwf1 ste hn1.symm hne hrn hb2
    subst e1 e2 e3
    exact Or.inr (Or.inr (Or.inl ⟨c1, c2, hV⟩))
  · have hb1r : m.β 1 (m.β 2 l) < m.n := hwf.range 1 (by omega) _ hrn
    have hb1l : m.β 1 l < m.n := hwf.range 1 (by omega) _ hln
    have e1 : lvold = cellId m .vertex l := run_ok_inj hlv (C03_vertexId2_min hwf hl0 hln).1
    have e1' : rvold = cellId m .vertex (m.β 2 l) := run_ok_inj hrv (C03_vertexId2_min hwf hne hrn).1
    have e2 := vid_on_sameTopo hwf1 ste hn1.symm hl0 hln ha
    have e3 := vid_on_sameTopo hwf1 ste hn1.symm c2 hb1r hb2
    have e4 := vid_on_sameTopo hwf1 ste hn1.symm c1 hb1l hc
    have e5 := vid_on_sameTopo hwf1 ste hn1.symm hne hrn hd
    subst e1 e1' e2 e3 e4 e5
    exact Or.inr (Or.inr (Or.inr ⟨c1, c2, mv, hV1, hV2⟩))

/-! ## the three degenerate arms of 2-sew (a dart without successor) at cell level -/

/-- the new edge id of a 2-sew -/
theorem eid_after_link2 {m : Map X} (hwf : WF 3 m) {l r eid : Nat} (hl0 : l ≠ 0) (hr0 : r ≠ 0) (hlr : l ≠ r)
    (hln : l < m.n) (hrn : r < m.n) (hwf1 : WF 3 (link2 m l r))
    (heid : run (edgeId2 (X := X) l) (link2 m l r) = (.ok eid, link2 m l r)) : eid = min l r := by
  have hrl : ¬ r = l := fun hh => hlr hh.symm
  have hb2 : (link2 m l r).β 2 l = r := by rw [link2_β hwf hln hrn]; simp [hlr, hrl]
  have hok : (link2 m l r).okβ 2 l = true := (hwf1.toSized.okβ 2 l).2 ⟨by omega, hln⟩
  unfold edgeId2 at heid
  simp only [Prog.bind_eq, bind, run_rB, hok, if_true, hb2, hr0, if_false, Prog.pure_eq, run_ret,
    Prod.mk.injEq, Out.ok.injEq] at heid
  rw [← heid.1]; exact Nat.min_comm _ _

/-- **C04, 2-sew at cell level, neither dart has a successor**: no vertex cell changes, only the
    edge storages merge `(l, r)` into `min l r` -/
theorem C04_twoSew2_cells_free (cfg : Cfg X) (m m' : Map X) (l r : Nat) (u : Unit)
    (hwf : WF 3 m) (hl : C01.InUse m l) (hr : C01.InUse m r) (hlr : l ≠ r) (hfc : m.fc = 0)
    (hbl : m.β 1 l = 0) (hbr : m.β 1 r = 0)
    (h : run (twoSew2 cfg m.n l r) m = (.ok u, m')) :
    WF 3 (link2 m l r) ∧ SameTopo (link2 m l r) m' ∧
    (∀ d e, SameCell (g2 (link2 m l r) .vertex) m.n d e ↔ SameCell (g2 m .vertex) m.n d e) ∧
    MergedIn cfg (eStores cfg) (min l r) l r (link2 m l r) m' := by
  obtain ⟨hl0, hln, hlu⟩ := hl
  obtain ⟨hr0, hrn, hru⟩ := hr
  obtain ⟨m1, eid, hlink, heid, hE⟩ := C04_twoSew2_free cfg m.n l r m m' u hfc hbl hbr h
  obtain ⟨_, _, h2l, h2r, rfl⟩ := iLinkCore_ok hlink
  have hwf1 : WF 3 (link2 m l r) := hwf.linkI (by omega) (by omega) hl0 hr0 hlr hln hrn hlu hru h2l h2r
  have e7 := eid_after_link2 hwf hl0 hr0 hlr hln hrn hwf1 heid
  subst e7
  obtain ⟨R, hR, hcells⟩ := vertex_cells_link2 hwf hl0 hr0 hlr hln hrn h2l h2r
  refine ⟨hwf1, hE.topo, ?_, hE⟩
  intro d e
  rw [hcells, if_pos hbl, hR, if_pos hbr]

/-- **C04, 2-sew at cell level, only `r` has a successor**: the cells of `l` and `β1 r` are united,
    nothing else changes; the new id is the minimum of the two old ids -/
theorem C04_twoSew2_cells_left (cfg : Cfg X) (m m' : Map X) (l r : Nat) (u : Unit)
    (hwf : WF 3 m) (hl : C01.InUse m l) (hr : C01.InUse m r) (hlr : l ≠ r) (hfc : m.fc = 0)
    (hbl : m.β 1 l = 0) (hbr : m.β 1 r ≠ 0)
    (h : run (twoSew2 cfg m.n l r) m = (.ok u, m')) :
    WF 3 (link2 m l r) ∧ SameTopo (link2 m l r) m' ∧
    (∀ d e, SameCell (g2 (link2 m l r) .vertex) m.n d e ↔ United (g2 m .vertex) m.n l (m.β 1 r) d e) ∧
    cellId (link2 m l r) .vertex l = min (cellId m .vertex l) (cellId m .vertex (m.β 1 r)) ∧
    (∃ ma, MergedIn cfg (vStores cfg) (cellId (link2 m l r) .vertex l) (cellId m .vertex l)
        (cellId m .vertex (m.β 1 r)) (link2 m l r) ma ∧
      MergedIn cfg (eStores cfg) (min l r) l r ma m') := by
  obtain ⟨hl0, hln, hlu⟩ := hl
  obtain ⟨hr0, hrn, hru⟩ := hr
  have han : m.β 1 r < m.n := hwf.range 1 (by omega) r hrn
  obtain ⟨lv, b1rv, m1, lvn, eid, ma, hlv, hb1rv, hlink, hlvn, heid, hV, hE⟩ :=
    C04_twoSew2_left cfg m.n l r m m' u hfc hbl hbr h
  obtain ⟨_, _, h2l, h2r, rfl⟩ := iLinkCore_ok hlink
  have hwf1 : WF 3 (link2 m l r) := hwf.linkI (by omega) (by omega) hl0 hr0 hlr hln hrn hlu hru h2l h2r
  have e1 : lv = cellId m .vertex l := run_ok_inj hlv (C03_vertexId2_min hwf hl0 hln).1
  have e2 : b1rv = cellId m .vertex (m.β 1 r) := run_ok_inj hb1rv (C03_vertexId2_min hwf hbr han).1
  have e5 : lvn = cellId (link2 m l r) .vertex l :=
    run_ok_inj hlvn (C03_vertexId2_min hwf1 (m := link2 m l r) hl0 hln).1
  have e7 := eid_after_link2 hwf hl0 hr0 hlr hln hrn hwf1 heid
  subst e1 e2 e5 e7
  obtain ⟨R, hR, hcells⟩ := vertex_cells_link2 hwf hl0 hr0 hlr hln hrn h2l h2r
  have hcells' : ∀ d e, SameCell (g2 (link2 m l r) .vertex) m.n d e ↔
      United (g2 m .vertex) m.n l (m.β 1 r) d e := by
    intro d e; rw [hcells, if_pos hbl, hR, if_neg hbr]
  refine ⟨hwf1, hV.topo.trans hE.topo, hcells', ?_, ma, hV, hE⟩
  apply cellId_of_union hwf hwf1 rfl hl0 hln hl0 hln hbr han
  intro x
  rw [hcells']
  constructor
  · rintro (h1 | ⟨_, h2⟩ | ⟨_, h2⟩)
    · exact Or.inl h1
    · exact Or.inr h2
    · exact Or.inl h2
  · rintro (h1 | h1)
    · exact Or.inl h1
    · exact Or.inr (Or.inl ⟨.refl _, h1⟩)

/-- **C04, 2-sew at cell level, only `l` has a successor**: the cells of `r` and `β1 l` are united,
    nothing else changes; the new id is the minimum of the two old ids -/
theorem C04_twoSew2_cells_right (cfg : Cfg X) (m m' : Map X) (l r : Nat) (u : Unit)
    (hwf : WF 3 m) (hl : C01.InUse m l) (hr : C01.InUse m r) (hlr : l ≠ r) (hfc : m.fc = 0)
    (hbl : m.β 1 l ≠ 0) (hbr : m.β 1 r = 0)
    (h : run (twoSew2 cfg m.n l r) m = (.ok u, m')) :
    WF 3 (link2 m l r) ∧ SameTopo (link2 m l r) m' ∧
    (∀ d e, SameCell (g2 (link2 m l r) .vertex) m.n d e ↔ United (g2 m .vertex) m.n r (m.β 1 l) d e) ∧
    cellId (link2 m l r) .vertex r = min (cellId m .vertex (m.β 1 l)) (cellId m .vertex r) ∧
    (∃ ma, MergedIn cfg (vStores cfg) (cellId (link2 m l r) .vertex r) (cellId m .vertex (m.β 1 l))
        (cellId m .vertex r) (link2 m l r) ma ∧
      MergedIn cfg (eStores cfg) (min l r) l r ma m') := by
  obtain ⟨hl0, hln, hlu⟩ := hl
  obtain ⟨hr0, hrn, hru⟩ := hr
  have hbn : m.β 1 l < m.n := hwf.range 1 (by omega) l hln
  obtain ⟨b1lv, rv, m1, rvn, eid, ma, hb1lv, hrv, hlink, hrvn, heid, hV, hE⟩ :=
    C04_twoSew2_right cfg m.n l r m m' u hfc hbl hbr h
  obtain ⟨_, _, h2l, h2r, rfl⟩ := iLinkCore_ok hlink
  have hwf1 : WF 3 (link2 m l r) := hwf.linkI (by omega) (by omega) hl0 hr0 hlr hln hrn hlu hru h2l h2r
  have e1 : b1lv = cellId m .vertex (m.β 1 l) := run_ok_inj hb1lv (C03_vertexId2_min hwf hbl hbn).1
  have e2 : rv = cellId m .vertex r := run_ok_inj hrv (C03_vertexId2_min hwf hr0 hrn).1
  have e5 : rvn = cellId (link2 m l r) .vertex r :=
    run_ok_inj hrvn (C03_vertexId2_min hwf1 (m := link2 m l r) hr0 hrn).1
  have e7 := eid_after_link2 hwf hl0 hr0 hlr hln hrn hwf1 heid
  subst e1 e2 e5 e7
  obtain ⟨R, hR, hcells⟩ := vertex_cells_link2 hwf hl0 hr0 hlr hln hrn h2l h2r
  have hR' : ∀ d e, SameCell (g2 m .vertex) m.n d e ↔ R d e := by
    intro d e; rw [hR, if_pos hbr]
  have hcells' : ∀ d e, SameCell (g2 (link2 m l r) .vertex) m.n d e ↔
      United (g2 m .vertex) m.n r (m.β 1 l) d e := by
    intro d e; rw [hcells, if_neg hbl, united_congr hR']
  refine ⟨hwf1, hV.topo.trans hE.topo, hcells', ?_, ma, hV, hE⟩
  apply cellId_of_union hwf hwf1 rfl hr0 hrn hbl hbn hr0 hrn
  intro x
  rw [hcells']
  constructor
  · rintro (h1 | ⟨_, h2⟩ | ⟨_, h2⟩)
    · exact Or.inr h1
    · exact Or.inl h2
    · exact Or.inr h2
  · rintro (h1 | h1)
    · exact Or.inr (Or.inl ⟨.refl _, h1⟩)
    · exact Or.inl h1

/-! non-vacuity: the two triangles of C01 glued along 2|4 (`glued`), then 2-unsewn at dart 2 -/
def reopened : Map Val := (run (twoUnsew2 (stdCfg 3 7) 9 2) glued).2

example : C01.InUse glued 2 ∧ (run (twoUnsew2 (stdCfg 3 7) glued.n 2) glued).1 = .ok () := by decide +kernel
example : glued.β 1 2 ≠ 0 ∧ glued.β 1 (glued.β 2 2) ≠ 0 := by decide +kernel
/-- before: vertices {2,5} ↦ 2 and {3,4} ↦ 3; after: 2, 5, 3, 4 are four vertices again -/
example : cellId glued .vertex 2 = 2 ∧ cellId glued .vertex 4 = 3 ∧
    cellId (unlink2 glued 2) .vertex 2 = 2 ∧ cellId (unlink2 glued 2) .vertex 5 = 5 ∧
    cellId (unlink2 glued 2) .vertex 3 = 3 ∧ cellId (unlink2 glued 2) .vertex 4 = 4 := by decide +kernel
example : reopened.att 0 2 ≠ none ∧ reopened.att 0 5 ≠ none ∧ reopened.att 0 3 ≠ none ∧ reopened.att 0 4 ≠ none := by
  decide +kernel

/-- degenerate arms on a 6-dart map with the open chains 1→2 and 3→4 and the free darts 5, 6:
    `sew 2 5 6` (free arm), `sew 2 5 3` (left arm: only r = 3 has a successor), `sew 2 1 5` (right arm) -/
def chains : Map Val :=
  { (Map.empty 3 6 7 : Map Val) with
    b := #[#[0, 0, 1, 0, 3, 0, 0], #[0, 2, 0, 4, 0, 0, 0], #[0, 0, 0, 0, 0, 0, 0]]
    a := (Map.empty 3 6 7 : Map Val).a.setIfInBounds 0
      #[none, some (.pt 0 0 0), some (.pt 1 0 0), some (.pt 0 1 0), some (.pt 0 2 0), some (.pt 2 0 0), some (.pt 1 1 0)] }

example : WF 3 chains ∧ chains.fc = 0 ∧ chains.n = 7 ∧ chains.β 1 1 = 2 ∧ chains.β 1 3 = 4 ∧ chains.β 1 5 = 0 := by
  decide +kernel
example : (run (twoSew2 (stdCfg 3 0) chains.n 5 6) chains).1 = .ok () ∧
    (run (twoSew2 (stdCfg 3 0) chains.n 5 3) chains).1 = .ok () ∧
    (run (twoSew2 (stdCfg 3 0) chains.n 1 5) chains).1 = .ok () := by decide +kernel
example : cellId (link2 chains 5 3) .vertex 5 = 4 ∧ cellId chains .vertex 5 = 5 ∧ cellId chains .vertex 4 = 4 ∧
    cellId (link2 chains 1 5) .vertex 5 = 2 := by decide +kernel

end HC.C04
