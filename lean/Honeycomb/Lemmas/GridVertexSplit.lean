/-
  (adapted copy of `GridVertex.lean` for the 6-row table)
  Vertices of the split 2-D grid (`build_2d_splitgrid`): which darts share a vertex, what `vertex_id`
  returns, and which coordinates the placement loops leave under it.

  `pt nx d` is the lattice point at the origin of dart `d` (local darts 0,1,2,3 of cell (a,b) start
  at (a,b), (a+1,b), (a+1,b+1), (a,b+1)).
  * `sq_closed`    the images examined by `vertex_id` keep the lattice point;
  * `sq_descent`   a dart that is not the canonical dart of its point has a smaller image;
  * `vid_spec`     hence `vertex_id d` is the canonical dart of `pt d` (BFS lemma of `GridBfs.lean`);
  * `grid2_att`    after the four placement blocks, the slot `vertex_id d` of **every** dart `d` holds
                   `origin + (i·lx, j·ly)` for `(i, j) = pt d`.
-/
import Honeycomb.Lemmas.GridLink
import Honeycomb.Lemmas.GridBfs
import Honeycomb.Lemmas.WFLink

namespace HC.GridVertexSplit
open HC HC.Gen HC.GridBfs

/-- the β part of `build_2d_grid` -/
abbrev G2 (nx ny : Nat) : Map Val := gridMap 3 (trisK * nx * ny) (trisβ nx ny)

theorem G2_wf {nx ny : Nat} (hnx : 0 < nx) (hny : 0 < ny) : WF 3 (G2 nx ny) := by
  have h := absWF trisShape trisShape_ok (nz := 1) hnx hny
  rw [← trisMap_eq hnx hny] at h
  exact h

theorem G2_n (nx ny : Nat) : (G2 nx ny).n = 6 * nx * ny + 1 := rfl

section
variable {nx ny : Nat} {m : Map Val}

/-- local dart `k` of cell `(a, b)` -/
abbrev D (nx ny a b k : Nat) : Nat := dartOf 6 nx ny a b 0 k

theorem D_lt {a b k : Nat} (ha : a < nx) (hb : b < ny) (hk : k < 6) : D nx ny a b k < 6 * nx * ny + 1 := by
  have h1 := dartOf_le (K := 6) (nz := 1) ha hb (Nat.lt_succ_self 0) hk
  have e : 6 * (nx * ny * 1) = 6 * nx * ny := by rw [Nat.mul_one, Nat.mul_assoc]
  unfold D; omega

theorem D_pos {a b k : Nat} : 1 ≤ D nx ny a b k := dartOf_pos

theorem β_D (st : SameTopo (G2 nx ny) m) {a b o i : Nat} (ha : a < nx) (hb : b < ny)
    (ho : o < 6) (hi : i < 3) :
    m.β i (D nx ny a b o) = absEntry 6 nx ny 1 a b 0 (trisShape.at o i).1 (trisShape.at o i).2 := by
  rw [st.β, gridMap_β]
  have h1 := D_lt ha hb ho
  have h2 := D_pos (nx := nx) (ny := ny) (a := a) (b := b) (k := o)
  have e : trisK * nx * ny = 6 * nx * ny := rfl
  have h3 : D nx ny a b o ≠ 0 := by omega
  have h4 : D nx ny a b o ≤ trisK * nx * ny := by omega
  simp only [hi, h4, h3, ne_eq, not_false_eq_true, and_self, if_true]
  exact (trisβ_dartOf ha hb ho i).trans (tris_link ha hb ho hi)

theorem β1_D (st : SameTopo (G2 nx ny) m) {a b k : Nat} (ha : a < nx) (hb : b < ny) (hk : k < 6) :
    m.β 1 (D nx ny a b k) = D nx ny a b (3 * (k / 3) + (k + 1) % 3) := by
  rw [β_D st ha hb hk (by decide : 1 < 3)]
  have k6 : k = 0 ∨ k = 1 ∨ k = 2 ∨ k = 3 ∨ k = 4 ∨ k = 5 := by omega
  rcases k6 with rfl | rfl | rfl | rfl | rfl | rfl <;> rfl

theorem β0_D (st : SameTopo (G2 nx ny) m) {a b k : Nat} (ha : a < nx) (hb : b < ny) (hk : k < 6) :
    m.β 0 (D nx ny a b k) = D nx ny a b (3 * (k / 3) + (k + 2) % 3) := by
  rw [β_D st ha hb hk (by decide : 0 < 3)]
  have k6 : k = 0 ∨ k = 1 ∨ k = 2 ∨ k = 3 ∨ k = 4 ∨ k = 5 := by omega
  rcases k6 with rfl | rfl | rfl | rfl | rfl | rfl <;> rfl

theorem β2_D0 (st : SameTopo (G2 nx ny) m) {a b : Nat} (ha : a < nx) (hb : b < ny) :
    m.β 2 (D nx ny a b 0) = if b = 0 then 0 else D nx ny a (b - 1) 5 :=
  β_D st ha hb (by decide : 0 < 6) (by decide : 2 < 3)
theorem β2_D1 (st : SameTopo (G2 nx ny) m) {a b : Nat} (ha : a < nx) (hb : b < ny) :
    m.β 2 (D nx ny a b 1) = D nx ny a b 3 :=
  β_D st ha hb (by decide : 1 < 6) (by decide : 2 < 3)
theorem β2_D2 (st : SameTopo (G2 nx ny) m) {a b : Nat} (ha : a < nx) (hb : b < ny) :
    m.β 2 (D nx ny a b 2) = if a = 0 then 0 else D nx ny (a - 1) b 4 :=
  β_D st ha hb (by decide : 2 < 6) (by decide : 2 < 3)
theorem β2_D3 (st : SameTopo (G2 nx ny) m) {a b : Nat} (ha : a < nx) (hb : b < ny) :
    m.β 2 (D nx ny a b 3) = D nx ny a b 1 :=
  β_D st ha hb (by decide : 3 < 6) (by decide : 2 < 3)
theorem β2_D4 (st : SameTopo (G2 nx ny) m) {a b : Nat} (ha : a < nx) (hb : b < ny) :
    m.β 2 (D nx ny a b 4) = if a + 1 = nx then 0 else D nx ny (a + 1) b 2 :=
  β_D st ha hb (by decide : 4 < 6) (by decide : 2 < 3)
theorem β2_D5 (st : SameTopo (G2 nx ny) m) {a b : Nat} (ha : a < nx) (hb : b < ny) :
    m.β 2 (D nx ny a b 5) = if b + 1 = ny then 0 else D nx ny a (b + 1) 0 :=
  β_D st ha hb (by decide : 5 < 6) (by decide : 2 < 3)

/-! ## lattice points -/

def cdx : Nat → Nat
  | 1 => 1
  | 4 => 1
  | 5 => 1
  | _ => 0

def cdy : Nat → Nat
  | 2 => 1
  | 3 => 1
  | 5 => 1
  | _ => 0

/-- lattice point at the origin of dart `d` -/
def pt (nx d : Nat) : Nat × Nat :=
  ((d - 1) / 6 % nx + cdx ((d - 1) % 6), (d - 1) / 6 / nx + cdy ((d - 1) % 6))

theorem pt_D {a b k : Nat} (ha : a < nx) (hk : k < 6) : pt nx (D nx ny a b k) = (a + cdx k, b + cdy k) := by
  unfold pt D
  rw [dartOf_cell hk, dartOf_local hk, cellIdx_x ha, cellIdx_div ha]
  simp

/-- a dart of the grid: local dart `k` of an existing cell -/
def IsDart (nx ny d : Nat) : Prop := ∃ a b k, a < nx ∧ b < ny ∧ k < 6 ∧ d = D nx ny a b k

theorem isDart_of_range (hnx : 0 < nx) (hny : 0 < ny) {d : Nat} (h1 : 1 ≤ d) (h2 : d ≤ 6 * nx * ny) :
    IsDart nx ny d := by
  have h2' : d ≤ 6 * (nx * ny * 1) := by rw [Nat.mul_one, ← Nat.mul_assoc]; exact h2
  obtain ⟨ix, iy, iz, o, hx, hy, hz, ho, e⟩ := decode (K := 6) (by decide) hnx hny h1 h2'
  have hz0 : iz = 0 := by omega
  subst hz0
  exact ⟨ix, iy, o, hx, hy, ho, e⟩

/-- canonical dart of a lattice point: the one `vertex_id` returns -/
def Canon (a b k : Nat) : Prop := k = 5 ∨ (k = 2 ∧ a = 0) ∨ (k = 1 ∧ b = 0) ∨ (k = 0 ∧ a = 0 ∧ b = 0)

theorem D_lt_of_cell {a b k a' b' k' : Nat} (hk : k < 6)
    (h : cellIdx nx ny a b 0 < cellIdx nx ny a' b' 0) : D nx ny a b k < D nx ny a' b' k' := by
  unfold D dartOf; omega

theorem D_lt_local {a b k k' : Nat} (h : k < k') : D nx ny a b k < D nx ny a b k' := by
  unfold D dartOf; omega

/-- the images examined by `vertex_id` are null or darts with the same lattice point -/
theorem sq_closed (st : SameTopo (G2 nx ny) m) (wf : WF 3 m) {a b k : Nat} (ha : a < nx) (hb : b < ny)
    (hk : k < 6) : ∀ y, y ∈ gv2 m (D nx ny a b k) → y = 0 ∨
      ∃ a' b' k', a' < nx ∧ b' < ny ∧ k' < 6 ∧ y = D nx ny a' b' k' ∧
        (a' + cdx k', b' + cdy k') = (a + cdx k, b + cdy k) := by
  have n1 : m.β 1 0 = 0 := wf.null 1 (by decide)
  have n2 : m.β 2 0 = 0 := wf.null 2 (by decide)
  intro y hy
  simp only [gv2, List.mem_cons, List.not_mem_nil, or_false] at hy
  have k6 : k = 0 ∨ k = 1 ∨ k = 2 ∨ k = 3 ∨ k = 4 ∨ k = 5 := by omega
  rcases k6 with rfl | rfl | rfl | rfl | rfl | rfl
  · rcases hy with rfl | rfl
    · rw [β2_D0 st ha hb]
      by_cases h : b = 0
      · simp [h, n1]
      · right
        simp only [h, if_false]
        rw [β1_D st ha (by omega) (by decide)]
        exact ⟨a, b - 1, 3, ha, by omega, by decide, rfl, by simp [cdx, cdy]; omega⟩
    · rw [β0_D st ha hb (by decide), β2_D2 st ha hb]
      by_cases h : a = 0
      · simp [h]
      · right
        simp only [h, if_false]
        exact ⟨a - 1, b, 4, by omega, hb, by decide, rfl, by simp [cdx, cdy]; omega⟩
  · rcases hy with rfl | rfl
    · rw [β2_D1 st ha hb, β1_D st ha hb (by decide)]
      right
      exact ⟨a, b, 4, ha, hb, by decide, rfl, by simp [cdx, cdy]⟩
    · rw [β0_D st ha hb (by decide), β2_D0 st ha hb]
      by_cases h : b = 0
      · simp [h]
      · right
        simp only [h, if_false]
        exact ⟨a, b - 1, 5, ha, by omega, by decide, rfl, by simp [cdx, cdy]; omega⟩
  · rcases hy with rfl | rfl
    · rw [β2_D2 st ha hb]
      by_cases h : a = 0
      · simp [h, n1]
      · right
        simp only [h, if_false]
        rw [β1_D st (by omega) hb (by decide)]
        exact ⟨a - 1, b, 5, by omega, hb, by decide, rfl, by simp [cdx, cdy]; omega⟩
    · rw [β0_D st ha hb (by decide), β2_D1 st ha hb]
      right
      exact ⟨a, b, 3, ha, hb, by decide, rfl, by simp [cdx, cdy]⟩
  · rcases hy with rfl | rfl
    · rw [β2_D3 st ha hb, β1_D st ha hb (by decide)]
      right
      exact ⟨a, b, 2, ha, hb, by decide, rfl, by simp [cdx, cdy]⟩
    · rw [β0_D st ha hb (by decide), β2_D5 st ha hb]
      by_cases h : b + 1 = ny
      · simp [h]
      · right
        simp only [h, if_false]
        exact ⟨a, b + 1, 0, ha, by omega, by decide, rfl, by simp [cdx, cdy]⟩
  · rcases hy with rfl | rfl
    · rw [β2_D4 st ha hb]
      by_cases h : a + 1 = nx
      · simp [h, n1]
      · right
        simp only [h, if_false]
        rw [β1_D st (by omega) hb (by decide)]
        exact ⟨a + 1, b, 0, by omega, hb, by decide, rfl, by simp [cdx, cdy]⟩
    · rw [β0_D st ha hb (by decide), β2_D3 st ha hb]
      right
      exact ⟨a, b, 1, ha, hb, by decide, rfl, by simp [cdx, cdy]⟩
  · rcases hy with rfl | rfl
    · rw [β2_D5 st ha hb]
      by_cases h : b + 1 = ny
      · simp [h, n1]
      · right
        simp only [h, if_false]
        rw [β1_D st ha (by omega) (by decide)]
        exact ⟨a, b + 1, 1, ha, by omega, by decide, rfl, by simp [cdx, cdy]⟩
    · rw [β0_D st ha hb (by decide), β2_D4 st ha hb]
      by_cases h : a + 1 = nx
      · simp [h]
      · right
        simp only [h, if_false]
        exact ⟨a + 1, b, 2, by omega, hb, by decide, rfl, by simp [cdx, cdy]⟩

/-- a non-canonical dart has a smaller non-null image -/
theorem sq_descent (st : SameTopo (G2 nx ny) m) {a b k : Nat} (ha : a < nx) (hb : b < ny)
    (hk : k < 6) (hc : ¬ Canon a b k) :
    ∃ y, y ∈ gv2 m (D nx ny a b k) ∧ y ≠ 0 ∧ y < D nx ny a b k := by
  have fxm := cellIdx_xm nx ny a b 0
  have fym := cellIdx_ym nx ny a b 0
  have k6 : k = 0 ∨ k = 1 ∨ k = 2 ∨ k = 3 ∨ k = 4 ∨ k = 5 := by omega
  unfold Canon at hc
  rcases k6 with rfl | rfl | rfl | rfl | rfl | rfl
  · by_cases h : b = 0
    · have ha0 : a ≠ 0 := by intro h'; exact hc (Or.inr (Or.inr (Or.inr ⟨rfl, h', h⟩)))
      refine ⟨D nx ny (a - 1) b 4, ?_, by have := D_pos (nx := nx) (ny := ny) (a := a - 1) (b := b) (k := 4); omega,
        D_lt_of_cell (by decide) (by omega)⟩
      simp only [gv2, List.mem_cons, List.not_mem_nil, or_false]
      right
      rw [β0_D st ha hb (by decide), β2_D2 st ha hb]
      simp [ha0]
    · refine ⟨D nx ny a (b - 1) 3, ?_, by have := D_pos (nx := nx) (ny := ny) (a := a) (b := b - 1) (k := 3); omega,
        D_lt_of_cell (by decide) (by omega)⟩
      simp only [gv2, List.mem_cons, List.not_mem_nil, or_false]
      left
      rw [β2_D0 st ha hb]
      simp only [h, if_false]
      rw [β1_D st ha (by omega) (by decide)]
  · have hb0 : b ≠ 0 := by intro h'; exact hc (Or.inr (Or.inr (Or.inl ⟨rfl, h'⟩)))
    refine ⟨D nx ny a (b - 1) 5, ?_, by have := D_pos (nx := nx) (ny := ny) (a := a) (b := b - 1) (k := 5); omega,
      D_lt_of_cell (by decide) (by omega)⟩
    simp only [gv2, List.mem_cons, List.not_mem_nil, or_false]
    right
    rw [β0_D st ha hb (by decide), β2_D0 st ha hb]
    simp [hb0]
  · have ha0 : a ≠ 0 := by intro h'; exact hc (Or.inr (Or.inl ⟨rfl, h'⟩))
    refine ⟨D nx ny (a - 1) b 5, ?_, by have := D_pos (nx := nx) (ny := ny) (a := a - 1) (b := b) (k := 5); omega,
      D_lt_of_cell (by decide) (by omega)⟩
    simp only [gv2, List.mem_cons, List.not_mem_nil, or_false]
    left
    rw [β2_D2 st ha hb]
    simp only [ha0, if_false]
    rw [β1_D st (by omega) hb (by decide)]
  · refine ⟨D nx ny a b 2, ?_, by have := D_pos (nx := nx) (ny := ny) (a := a) (b := b) (k := 2); omega,
      D_lt_local (by decide)⟩
    simp only [gv2, List.mem_cons, List.not_mem_nil, or_false]
    left
    rw [β2_D3 st ha hb, β1_D st ha hb (by decide)]
  · refine ⟨D nx ny a b 1, ?_, by have := D_pos (nx := nx) (ny := ny) (a := a) (b := b) (k := 1); omega,
      D_lt_local (by decide)⟩
    simp only [gv2, List.mem_cons, List.not_mem_nil, or_false]
    right
    rw [β0_D st ha hb (by decide), β2_D3 st ha hb]
  · exact absurd (Or.inl rfl) hc

/-- canonical darts are determined by their lattice point -/
theorem canon_unique {a b k a' b' k' : Nat} (hk : k < 6) (hk' : k' < 6) (hc : Canon a b k)
    (hc' : Canon a' b' k') (hp : (a + cdx k, b + cdy k) = (a' + cdx k', b' + cdy k')) :
    a = a' ∧ b = b' ∧ k = k' := by
  have k6 : k = 0 ∨ k = 1 ∨ k = 2 ∨ k = 3 ∨ k = 4 ∨ k = 5 := by omega
  have k6' : k' = 0 ∨ k' = 1 ∨ k' = 2 ∨ k' = 3 ∨ k' = 4 ∨ k' = 5 := by omega
  unfold Canon at hc hc'
  simp only [Prod.mk.injEq] at hp
  obtain ⟨hp1, hp2⟩ := hp
  rcases k6 with rfl | rfl | rfl | rfl | rfl | rfl <;> rcases k6' with rfl | rfl | rfl | rfl | rfl | rfl <;>
    simp [cdx, cdy] at hp1 hp2 hc hc' <;> omega

/-! ## `vertex_id` -/

/-- the darts with a given lattice point, as a list (bounded by the number of darts) -/
def cls (nx ny : Nat) (p : Nat × Nat) : List Nat :=
  (List.range (6 * nx * ny + 1)).filter (fun x => decide (x ≠ 0 ∧ pt nx x = p))

theorem mem_cls {p : Nat × Nat} {x : Nat} : x ∈ cls nx ny p ↔ x < 6 * nx * ny + 1 ∧ x ≠ 0 ∧ pt nx x = p := by
  simp [cls]

theorem vid2_eq (wf : WF 3 m) {d : Nat} (hd : d < m.n) :
    vid2 m d = listMin (pbfs (gv2 m) (m.n + 1) [d] [0, d] []) d := by
  unfold vid2
  rw [run_vertexId2 wf hd]
  rfl

/-- `vertex_id d` is the canonical dart of the lattice point of `d` -/
theorem vid_spec (hnx : 0 < nx) (hny : 0 < ny) (st : SameTopo (G2 nx ny) m) {d : Nat}
    (hd : IsDart nx ny d) :
    ∃ a b k, a < nx ∧ b < ny ∧ k < 6 ∧ vid2 m d = D nx ny a b k ∧ Canon a b k ∧
      (a + cdx k, b + cdy k) = pt nx d := by
  have wf : WF 3 m := (G2_wf hnx hny).sameTopo st
  have hn : m.n = 6 * nx * ny + 1 := st.n
  obtain ⟨a0, b0, k0, ha0, hb0, hk0, rfl⟩ := hd
  have hdn : D nx ny a0 b0 k0 < m.n := by rw [hn]; exact D_lt ha0 hb0 hk0
  have hd0 : D nx ny a0 b0 k0 ≠ 0 := by have := D_pos (nx := nx) (ny := ny) (a := a0) (b := b0) (k := k0); omega
  -- the class of the lattice point is closed
  have hclosed : ∀ x, x ∈ cls nx ny (pt nx (D nx ny a0 b0 k0)) → ∀ y, y ∈ gv2 m x →
      y = 0 ∨ y ∈ cls nx ny (pt nx (D nx ny a0 b0 k0)) := by
    intro x hx y hy
    obtain ⟨hx1, hx2, hx3⟩ := mem_cls.mp hx
    obtain ⟨a, b, k, ha, hb, hk, rfl⟩ := isDart_of_range (d := x) hnx hny (by omega) (by omega)
    rcases sq_closed st wf ha hb hk y hy with h | ⟨a', b', k', ha', hb', hk', rfl, hp⟩
    · exact Or.inl h
    · right
      refine mem_cls.mpr ⟨D_lt ha' hb' hk', ?_, ?_⟩
      · have := D_pos (nx := nx) (ny := ny) (a := a') (b := b') (k := k'); omega
      · rw [pt_D ha' hk', hp, ← pt_D (ny := ny) ha hk, hx3]
  have hstart : D nx ny a0 b0 k0 ∈ cls nx ny (pt nx (D nx ny a0 b0 k0)) :=
    mem_cls.mpr ⟨D_lt ha0 hb0 hk0, hd0, rfl⟩
  have hlen : (cls nx ny (pt nx (D nx ny a0 b0 k0))).length ≤ m.n := by
    unfold cls
    refine Nat.le_trans (List.length_filter_le _ _) ?_
    rw [List.length_range, hn]
    exact Nat.le_refl _
  obtain ⟨hsound, hmem, hcl⟩ := pbfs_spec (gv2 m) _ (D nx ny a0 b0 k0) m.n hstart hclosed hlen
  rw [vid2_eq wf hdn]
  -- the minimum
  have hmin_le := foldl_min_le (pbfs (gv2 m) (m.n + 1) [D nx ny a0 b0 k0] [0, D nx ny a0 b0 k0] [])
    (D nx ny a0 b0 k0)
  have hmin_mem : listMin (pbfs (gv2 m) (m.n + 1) [D nx ny a0 b0 k0] [0, D nx ny a0 b0 k0] [])
      (D nx ny a0 b0 k0) ∈ pbfs (gv2 m) (m.n + 1) [D nx ny a0 b0 k0] [0, D nx ny a0 b0 k0] [] := by
    rcases foldl_min_mem (pbfs (gv2 m) (m.n + 1) [D nx ny a0 b0 k0] [0, D nx ny a0 b0 k0] [])
      (D nx ny a0 b0 k0) with h | h
    · unfold listMin; rw [h]; exact hmem
    · exact h
  obtain ⟨hv1, hv2, hv3⟩ := mem_cls.mp (hsound _ hmin_mem)
  obtain ⟨a, b, k, ha, hb, hk, hv⟩ := isDart_of_range
    (d := listMin (pbfs (gv2 m) (m.n + 1) [D nx ny a0 b0 k0] [0, D nx ny a0 b0 k0] []) (D nx ny a0 b0 k0))
    hnx hny (by omega) (by omega)
  refine ⟨a, b, k, ha, hb, hk, hv, ?_, ?_⟩
  · -- canonical: otherwise a smaller image would be in the output
    apply Classical.byContradiction
    intro hc
    obtain ⟨y, hy1, hy2, hy3⟩ := sq_descent st ha hb hk hc
    rw [← hv] at hy1 hy3
    rcases hcl _ hmin_mem y hy1 with h | h
    · exact hy2 h
    · have := hmin_le.2 y h
      unfold listMin at hy3
      omega
  · rw [← pt_D (ny := ny) ha hk, ← hv, hv3]

/-- darts with the same lattice point have the same `vertex_id` (on any two maps with the grid's
    topology), and `vertex_id` keeps the lattice point -/
theorem vid_same (hnx : 0 < nx) (hny : 0 < ny) {m m' : Map Val} (st : SameTopo (G2 nx ny) m)
    (st' : SameTopo (G2 nx ny) m') {d e : Nat} (hd : IsDart nx ny d) (he : IsDart nx ny e)
    (hp : pt nx d = pt nx e) : vid2 m d = vid2 m' e := by
  obtain ⟨a, b, k, ha, hb, hk, h1, c1, p1⟩ := vid_spec hnx hny st hd
  obtain ⟨a', b', k', ha', hb', hk', h2, c2, p2⟩ := vid_spec hnx hny st' he
  obtain ⟨e1, e2, e3⟩ := canon_unique hk hk' c1 c2 (by rw [p1, p2, hp])
  rw [h1, h2, e1, e2, e3]

theorem vid_pt (hnx : 0 < nx) (hny : 0 < ny) (st : SameTopo (G2 nx ny) m) {d : Nat}
    (hd : IsDart nx ny d) : pt nx (vid2 m d) = pt nx d ∧ vid2 m d < 6 * nx * ny + 1 := by
  obtain ⟨a, b, k, ha, hb, hk, h1, _, p1⟩ := vid_spec hnx hny st hd
  rw [h1, pt_D ha hk, p1]
  exact ⟨rfl, D_lt ha hb hk⟩

end

/-! ## placement -/

section Place
variable (ox oy lx ly : Rat) (nx ny : Nat)

/-- coordinates of a lattice point -/
def coord (p : Nat × Nat) : Val := .pt (ox + (p.1 : Rat) * lx) (oy + (p.2 : Rat) * ly) 0

/-- invariant of the placement loops: grid topology, and a slot is empty or holds the coordinates
    of its own lattice point -/
structure PInv (m : Map Val) : Prop where
  st : SameTopo (G2 nx ny) m
  val : ∀ s, m.att 0 s = none ∨ m.att 0 s = some (coord ox oy lx ly (pt nx s))

/-- values once written stay -/
def Mono (m m' : Map Val) : Prop := ∀ s v, m.att 0 s = some v → m'.att 0 s = some v

/-- a block of `Gen.trisPlace` whose coordinate offsets are those of its local dart -/
def GoodBlk (blk : Nat × Nat × Nat × Nat × Nat) : Prop :=
  blk.2.2.1 = 6 ∧ 1 ≤ blk.2.1 ∧ blk.2.1 ≤ 6 ∧ blk.2.2.2.1 = cdx (blk.2.1 - 1) ∧ blk.2.2.2.2 = cdy (blk.2.1 - 1)

theorem place_dart {k0 x y : Nat} (h : 1 ≤ k0) : k0 + x * 6 + y * 6 * nx = D nx ny x y (k0 - 1) := by
  unfold D dartOf cellIdx
  rw [Nat.mul_zero, Nat.add_zero, Nat.mul_add, Nat.mul_right_comm y 6 nx, Nat.mul_comm (y * nx) 6,
    Nat.mul_comm y nx]
  omega

theorem okA0 {m : Map Val} (st : SameTopo (G2 nx ny) m) {s : Nat} (hs : s < 6 * nx * ny + 1) :
    m.okA 0 s = true := by
  have sz := (gridMap_sized 3 (trisK * nx * ny) (trisβ nx ny)).sameTopo st
  have h6 : m.a.size = 6 := by
    rw [st.asz]
    show (Map.empty 3 6 (trisK * nx * ny + 1) : Map Val).a.size = 6
    simp [Map.empty]
  have h1 := sz.asz 0 (by omega)
  have hn : m.n = 6 * nx * ny + 1 := st.n
  unfold Map.okA
  simp only [h6, Bool.and_eq_true, decide_eq_true_eq]
  omega

/-- the per-cell goal of a block: the slot `vertex_id` of the placed dart holds the coordinates of
    its lattice point (stated with the topology-only `vertex_id` on `G2`) -/
def Done (blk : Nat × Nat × Nat × Nat × Nat) (c : Nat × Nat) (m : Map Val) : Prop :=
  m.att 0 (vid2 (G2 nx ny) (D nx ny c.1 c.2 (blk.2.1 - 1))) =
    some (coord ox oy lx ly (pt nx (D nx ny c.1 c.2 (blk.2.1 - 1))))

instance (blk : Nat × Nat × Nat × Nat × Nat) : Decidable (GoodBlk blk) := by
  unfold GoodBlk; exact inferInstance

variable {nx ny}

theorem placeOne_step (hnx : 0 < nx) (hny : 0 < ny) {blk : Nat × Nat × Nat × Nat × Nat} (hb : GoodBlk blk)
    {m : Map Val} (inv : PInv ox oy lx ly nx ny m) {c : Nat × Nat} (hc1 : c.1 < nx) (hc2 : c.2 < ny) :
    PInv ox oy lx ly nx ny (placeOne ox oy lx ly nx blk m c) ∧ Mono m (placeOne ox oy lx ly nx blk m c) ∧
    (placeOne ox oy lx ly nx blk m c).att 0 (vid2 m (D nx ny c.1 c.2 (blk.2.1 - 1))) =
      some (coord ox oy lx ly (pt nx (D nx ny c.1 c.2 (blk.2.1 - 1)))) := by
  obtain ⟨loop, k0, s, dx, dy⟩ := blk
  obtain ⟨hs, hk1, hk4, hdx, hdy⟩ := hb
  simp only at hs hk1 hk4 hdx hdy
  subst hs hdx hdy
  have hd : IsDart nx ny (D nx ny c.1 c.2 (k0 - 1)) := ⟨c.1, c.2, k0 - 1, hc1, hc2, by omega, rfl⟩
  obtain ⟨hpt, hlt⟩ := vid_pt hnx hny inv.st hd
  have hok := okA0 nx ny inv.st hlt
  have hval : (Val.pt (ox + ((c.1 + cdx (k0 - 1) : Nat) : Rat) * lx) (oy + ((c.2 + cdy (k0 - 1) : Nat) : Rat) * ly) 0) =
      coord ox oy lx ly (pt nx (vid2 m (D nx ny c.1 c.2 (k0 - 1)))) := by
    rw [hpt, pt_D hc1 (by omega)]
    rfl
  have e : placeOne ox oy lx ly nx (loop, k0, 6, cdx (k0 - 1), cdy (k0 - 1)) m c =
      m.setA 0 (vid2 m (D nx ny c.1 c.2 (k0 - 1)))
        (some (coord ox oy lx ly (pt nx (vid2 m (D nx ny c.1 c.2 (k0 - 1)))))) := by
    unfold placeOne writeVertex
    simp only
    rw [place_dart nx ny hk1, hval]
  rw [e]
  refine ⟨⟨inv.st.trans (SameTopo.setA _ _ _ _), ?_⟩, ?_, ?_⟩
  · intro s
    rw [Map.att_setA]
    by_cases hs : vid2 m (D nx ny c.1 c.2 (k0 - 1)) = s
    · right; subst hs; simp [hok]
    · simp only [hs, false_and, and_false, if_false]; exact inv.val s
  · intro s v hv
    rw [Map.att_setA]
    by_cases hs : vid2 m (D nx ny c.1 c.2 (k0 - 1)) = s
    · subst hs
      simp only [hok, and_self, if_true]
      rcases inv.val (vid2 m (D nx ny c.1 c.2 (k0 - 1))) with h | h
      · rw [h] at hv; exact absurd hv (by simp)
      · rw [h] at hv; exact hv
    · simp only [hs, false_and, and_false, if_false]; exact hv
  · rw [Map.att_setA]
    simp only [hok, and_self, if_true]
    rw [hpt]

/-- generic fold with an invariant, a monotone relation and per-item goals -/
theorem fold_inv {α : Type} (step : Map Val → α → Map Val) (I : Map Val → Prop)
    (Dn : α → Map Val → Prop) (good : α → Prop)
    (DnR : ∀ a m m', I m → Dn a m → I m' → Mono m m' → Dn a m')
    (hstep : ∀ m a, good a → I m → I (step m a) ∧ Mono m (step m a) ∧ Dn a (step m a)) :
    ∀ (l : List α) (m : Map Val), (∀ a, a ∈ l → good a) → I m →
      I (l.foldl step m) ∧ Mono m (l.foldl step m) ∧ ∀ a, a ∈ l → Dn a (l.foldl step m) := by
  intro l
  induction l with
  | nil => intro m _ hI; exact ⟨hI, fun _ _ h => h, fun a ha => by simp at ha⟩
  | cons x xs ih =>
      intro m hg hI
      obtain ⟨i1, r1, d1⟩ := hstep m x (hg x List.mem_cons_self) hI
      obtain ⟨i2, r2, d2⟩ := ih (step m x) (fun a ha => hg a (List.mem_cons_of_mem _ ha)) i1
      refine ⟨i2, fun s v h => r2 s v (r1 s v h), ?_⟩
      intro a ha
      rcases List.mem_cons.mp ha with rfl | ha
      · exact DnR a _ _ i1 d1 i2 r2
      · exact d2 a ha

theorem placeCells_valid (hnx : 0 < nx) (hny : 0 < ny) (loop : Nat) :
    ∀ c, c ∈ placeCells nx ny loop → c.1 < nx ∧ c.2 < ny := by
  intro c hc
  unfold placeCells at hc
  split at hc
  · simp only [List.mem_flatMap, List.mem_map, List.mem_range] at hc
    obtain ⟨y, hy, x, hx, rfl⟩ := hc
    exact ⟨hx, hy⟩
  · simp only [List.mem_map, List.mem_range] at hc
    obtain ⟨x, hx, rfl⟩ := hc
    exact ⟨hx, by simp; omega⟩
  · simp only [List.mem_map, List.mem_range] at hc
    obtain ⟨y, hy, rfl⟩ := hc
    exact ⟨by simp; omega, hy⟩
  · simp only [List.mem_singleton] at hc
    subst hc
    exact ⟨by simp; omega, by simp; omega⟩

theorem placeBlock_step (hnx : 0 < nx) (hny : 0 < ny) {blk : Nat × Nat × Nat × Nat × Nat}
    (hb : GoodBlk blk) {m : Map Val} (inv : PInv ox oy lx ly nx ny m) :
    PInv ox oy lx ly nx ny (placeBlock ox oy lx ly nx ny m blk) ∧
    Mono m (placeBlock ox oy lx ly nx ny m blk) ∧
    ∀ c, c ∈ placeCells nx ny blk.1 → Done ox oy lx ly nx ny blk c (placeBlock ox oy lx ly nx ny m blk) := by
  unfold placeBlock
  apply fold_inv (placeOne ox oy lx ly nx blk) (PInv ox oy lx ly nx ny) (Done ox oy lx ly nx ny blk)
    (fun c => c.1 < nx ∧ c.2 < ny)
  · intro c m m' _ hd _ hm
    unfold Done at hd ⊢
    exact hm _ _ hd
  · intro m c hc hI
    obtain ⟨h1, h2, h3⟩ := placeOne_step ox oy lx ly hnx hny hb hI hc.1 hc.2
    refine ⟨h1, h2, ?_⟩
    unfold Done
    have hd : IsDart nx ny (D nx ny c.1 c.2 (blk.2.1 - 1)) :=
      ⟨c.1, c.2, blk.2.1 - 1, hc.1, hc.2, by have := hb.2.2.1; omega, rfl⟩
    rw [vid_same hnx hny (SameTopo.refl _) hI.st hd hd rfl]
    exact h3
  · exact placeCells_valid hnx hny blk.1
  · exact inv

theorem squarePlace_good : ∀ blk, blk ∈ trisPlace → GoodBlk blk := by decide

/-- every lattice point is the origin of a dart placed by one of the four blocks -/
theorem squarePlace_covers (hnx : 0 < nx) (hny : 0 < ny) {i j : Nat} (hi : i ≤ nx) (hj : j ≤ ny) :
    ∃ blk, blk ∈ trisPlace ∧ ∃ c, c ∈ placeCells nx ny blk.1 ∧ c.1 < nx ∧ c.2 < ny ∧
      pt nx (D nx ny c.1 c.2 (blk.2.1 - 1)) = (i, j) := by
  by_cases h1 : i < nx
  · by_cases h2 : j < ny
    · refine ⟨(0, 1, 6, 0, 0), by decide, (i, j), ?_, h1, h2, ?_⟩
      · simp only [placeCells, List.mem_flatMap, List.mem_map, List.mem_range]
        exact ⟨j, h2, i, h1, rfl⟩
      · rw [pt_D h1 (by decide)]; rfl
    · have hj' : j = ny := by omega
      refine ⟨(1, 4, 6, 0, 1), by decide, (i, ny - 1), ?_, h1, by simp; omega, ?_⟩
      · simp only [placeCells, List.mem_map, List.mem_range]
        exact ⟨i, h1, rfl⟩
      · rw [pt_D h1 (by decide)]
        simp [cdx, cdy]; omega
  · have hi' : i = nx := by omega
    by_cases h2 : j < ny
    · refine ⟨(2, 2, 6, 1, 0), by decide, (nx - 1, j), ?_, by simp; omega, h2, ?_⟩
      · simp only [placeCells, List.mem_map, List.mem_range]
        exact ⟨j, h2, rfl⟩
      · rw [pt_D (by simp; omega) (by decide)]
        simp [cdx, cdy]; omega
    · have hj' : j = ny := by omega
      refine ⟨(3, 6, 6, 1, 1), by decide, (nx - 1, ny - 1), ?_, by simp; omega, by simp; omega, ?_⟩
      · simp [placeCells]
      · rw [pt_D (by simp; omega) (by decide)]
        simp [cdx, cdy]; omega

theorem G2_pinv : PInv ox oy lx ly nx ny (G2 nx ny) := by
  refine ⟨SameTopo.refl _, ?_⟩
  intro s
  left
  show rd (rd (Map.empty 3 6 (trisK * nx * ny + 1) : Map Val).a 0) s = none
  unfold Map.empty
  simp only
  have : (Array.replicate 6 (Array.replicate (trisK * nx * ny + 1 + 1) (none : Option Val))).setIfInBounds 0
      (Array.replicate (trisK * nx * ny + 1) none) = wr (Array.replicate 6 (Array.replicate (trisK * nx * ny + 1 + 1) none)) 0
      (Array.replicate (trisK * nx * ny + 1) none) := rfl
  rw [this, rd_wr]
  simp only [Array.size_replicate, true_and, Nat.lt_add_one, if_true, Nat.zero_lt_succ]
  by_cases h : s < trisK * nx * ny + 1
  · exact rd_replicate _ _ _ h
  · exact rd_oob _ _ (by simp; omega)

/-- **vertex positions**: in the map returned by `build_2d_grid`, the slot `vertex_id d` of every
    dart `d` holds exactly `origin + (i·lx, j·ly)` where `(i, j)` is the lattice point of `d` -/
theorem grid2_att (hnx : 0 < nx) (hny : 0 < ny) {d : Nat} (hd : IsDart nx ny d) :
    (buildSplit2 ox oy nx ny lx ly).att 0 (vid2 (buildSplit2 ox oy nx ny lx ly) d) =
      some (coord ox oy lx ly (pt nx d)) := by
  have key := fold_inv (placeBlock ox oy lx ly nx ny) (PInv ox oy lx ly nx ny)
    (fun blk m => ∀ c, c ∈ placeCells nx ny blk.1 → Done ox oy lx ly nx ny blk c m) GoodBlk
    (by
      intro blk m m' _ hdn _ hm c hc
      have := hdn c hc
      unfold Done at this ⊢
      exact hm _ _ this)
    (by
      intro m blk hb hI
      exact placeBlock_step ox oy lx ly hnx hny hb hI)
    trisPlace (G2 nx ny) squarePlace_good (G2_pinv ox oy lx ly)
  obtain ⟨hI, _, hdone⟩ := key
  have hfin : trisPlace.foldl (placeBlock ox oy lx ly nx ny) (G2 nx ny) = buildSplit2 ox oy nx ny lx ly := rfl
  rw [hfin] at hI hdone
  -- the lattice point of `d` is covered by a placed dart
  obtain ⟨a, b, k, ha, hb, hk, rfl⟩ := hd
  have hp : pt nx (D nx ny a b k) = (a + cdx k, b + cdy k) := pt_D ha hk
  have hi : a + cdx k ≤ nx := by
    have : cdx k ≤ 1 := by unfold cdx; split <;> omega
    omega
  have hj : b + cdy k ≤ ny := by
    have : cdy k ≤ 1 := by unfold cdy; split <;> omega
    omega
  obtain ⟨blk, hblk, c, hc, hc1, hc2, hpc⟩ := squarePlace_covers hnx hny hi hj
  have hdn := hdone blk hblk c hc
  unfold Done at hdn
  have hd1 : IsDart nx ny (D nx ny a b k) := ⟨a, b, k, ha, hb, hk, rfl⟩
  have hd2 : IsDart nx ny (D nx ny c.1 c.2 (blk.2.1 - 1)) :=
    ⟨c.1, c.2, blk.2.1 - 1, hc1, hc2, by have := (squarePlace_good blk hblk).2.2.1; omega, rfl⟩
  rw [vid_same hnx hny hI.st (SameTopo.refl _) hd1 hd2 (by rw [hp, hpc]), hdn, hpc, hp]

end Place

end HC.GridVertexSplit
