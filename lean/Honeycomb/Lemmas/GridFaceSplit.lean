/-
  Faces of the split 2-D grid as computed by the code: `face_id` of a dart is the first dart of its
  triangle, `iter_faces` yields `2·nx·ny` identifiers (the `debug_assert_eq!` of
  `build_2d_splitgrid` holds for every size).
-/
import Honeycomb.Lemmas.GridFace
import Honeycomb.Lemmas.GridVertexSplit
import Honeycomb.Lemmas.GridCount

namespace HC.GridFaceSplit
open HC HC.Gen HC.GridBfs HC.GridVertexSplit HC.GridFace HC.GridCount

variable {nx ny : Nat} {m : Map Val}

/-- `face_id` of local dart `k` of cell `(a, b)` is the first dart `3·(k/3)` of its triangle -/
theorem fid_spec (hnx : 0 < nx) (hny : 0 < ny) (st : SameTopo (G2 nx ny) m) {a b k : Nat}
    (ha : a < nx) (hb : b < ny) (hk : k < 6) :
    okVal (run (faceId2 m.n (D nx ny a b k)) m) 0 = D nx ny a b (3 * (k / 3)) := by
  have wf : WF 3 m := (G2_wf hnx hny).sameTopo st
  have hn : m.n = 6 * nx * ny + 1 := st.n
  have hdn : D nx ny a b k < m.n := by rw [hn]; exact D_lt ha hb hk
  rw [run_faceId2 wf hdn]
  show listMin _ _ = _
  have t3 : 3 * (k / 3) + 2 < 6 := by omega
  let S := [D nx ny a b (3 * (k / 3)), D nx ny a b (3 * (k / 3) + 1), D nx ny a b (3 * (k / 3) + 2)]
  have hkc : k = 3 * (k / 3) ∨ k = 3 * (k / 3) + 1 ∨ k = 3 * (k / 3) + 2 := by omega
  have hstart : D nx ny a b k ∈ S := by
    simp only [S, List.mem_cons, List.not_mem_nil, or_false]
    rcases hkc with h | h | h
    · left; rw [← h]
    · right; left; rw [← h]
    · right; right; rw [← h]
  have b1 : ∀ j, j < 3 → m.β 1 (D nx ny a b (3 * (k / 3) + j)) = D nx ny a b (3 * (k / 3) + (j + 1) % 3) := by
    intro j hj
    rw [β1_D st ha hb (by omega)]
    congr 1; omega
  have b0 : ∀ j, j < 3 → m.β 0 (D nx ny a b (3 * (k / 3) + j)) = D nx ny a b (3 * (k / 3) + (j + 2) % 3) := by
    intro j hj
    rw [β0_D st ha hb (by omega)]
    congr 1; omega
  have hclosed : ∀ x, x ∈ S → ∀ y, y ∈ gf2 m x → y = 0 ∨ y ∈ S := by
    intro x hx y hy
    right
    simp only [S, List.mem_cons, List.not_mem_nil, or_false] at hx
    simp only [gf2, List.mem_cons, List.not_mem_nil, or_false] at hy
    rcases hx with rfl | rfl | rfl <;> rcases hy with rfl | rfl
    · have := b1 0 (by decide); simp only [Nat.add_zero] at this; rw [this]; simp [S]
    · have := b0 0 (by decide); simp only [Nat.add_zero] at this; rw [this]; simp [S]
    · rw [b1 1 (by decide)]; simp [S]
    · rw [b0 1 (by decide)]; simp [S]
    · rw [b1 2 (by decide)]; simp [S]
    · rw [b0 2 (by decide)]; simp [S]
  have hlen : S.length ≤ m.n := by
    simp only [S, List.length_cons, List.length_nil]
    have h3 := D_lt ha hb (show 3 * (k / 3) + 2 < 6 by omega)
    have : D nx ny a b (3 * (k / 3) + 2) = D nx ny a b (3 * (k / 3)) + 2 := by unfold D dartOf; omega
    have := D_pos (nx := nx) (ny := ny) (a := a) (b := b) (k := 3 * (k / 3))
    omega
  obtain ⟨hsound, hmem, hcl⟩ := pbfs_spec (gf2 m) S (D nx ny a b k) m.n hstart hclosed hlen
  have hne : ∀ j, D nx ny a b j ≠ 0 := by
    intro j; have := D_pos (nx := nx) (ny := ny) (a := a) (b := b) (k := j); omega
  have hreach : D nx ny a b (3 * (k / 3)) = D nx ny a b k ∨
      D nx ny a b (3 * (k / 3)) ∈ pbfs (gf2 m) (m.n + 1) [D nx ny a b k] [0, D nx ny a b k] [] := by
    rcases hkc with h | h | h
    · left; rw [← h]
    · right
      have := hcl _ hmem (m.β 0 (D nx ny a b k)) (by simp [gf2])
      rw [h, b0 1 (by decide)] at this
      simp only [Nat.zero_mod, Nat.add_zero, Nat.reduceAdd, Nat.mod_self] at this
      rcases this with e | e
      · exact absurd e (hne _)
      · rw [← h] at e; exact e
    · right
      have := hcl _ hmem (m.β 1 (D nx ny a b k)) (by simp [gf2])
      rw [h, b1 2 (by decide)] at this
      simp only [Nat.reduceAdd, Nat.mod_self, Nat.add_zero] at this
      rcases this with e | e
      · exact absurd e (hne _)
      · rw [← h] at e; exact e
  apply listMin_eq _ _ _ hreach
  · unfold D dartOf; omega
  · intro x hx
    have := hsound x hx
    simp only [S, List.mem_cons, List.not_mem_nil, or_false] at this
    rcases this with rfl | rfl | rfl <;> unfold D dartOf <;> omega

/-- `iter_faces` yields two identifiers per cell -/
theorem iterFaces_length (hnx : 0 < nx) (hny : 0 < ny) (st : SameTopo (G2 nx ny) m) :
    (iterFaces2 m).length = 2 * nx * ny := by
  have hn : m.n = 6 * nx * ny + 1 := st.n
  unfold iterFaces2 iterCells
  have hcongr : (List.range m.n).filter (fun d => decide (d ≠ 0 ∧ (!m.unused d) = true ∧
        okVal (run (faceId2 m.n d) m) 0 = d)) =
      (List.range m.n).filter (fun d => decide (d ≠ 0 ∧ (d - 1) % 3 = 0)) := by
    apply List.filter_congr
    intro d hd
    have hd' : d < 6 * nx * ny + 1 := by rw [← hn]; exact List.mem_range.mp hd
    by_cases h0 : d = 0
    · simp [h0]
    · obtain ⟨a, b, k, ha, hb, hk, rfl⟩ := isDart_of_range (d := d) hnx hny (by omega) (by omega)
      rw [fid_spec hnx hny st ha hb hk]
      have hu : m.unused (D nx ny a b k) = false := by rw [st.unused]; exact gridMap_unused _ _ _ _
      have e1 : (D nx ny a b k - 1) % 3 = k % 3 := by unfold D dartOf; omega
      have e2 : D nx ny a b (3 * (k / 3)) = D nx ny a b k ↔ k % 3 = 0 := by unfold D dartOf; omega
      rw [decide_eq_decide]
      simp only [hu, e1, e2, h0, ne_eq, not_false_eq_true, Bool.not_false, true_and]
  rw [hcongr, hn]
  have e : 6 * nx * ny = 3 * (2 * nx * ny) := by
    rw [Nat.mul_assoc 2, ← Nat.mul_assoc 3, Nat.mul_assoc 6]
  rw [e]
  exact countK 3 (2 * nx * ny) (by decide)

end HC.GridFaceSplit
