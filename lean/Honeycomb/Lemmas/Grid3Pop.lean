/-
  TOTAL correctness of the "mark on pop" traversal `popLoop` of `Ops3.lean` (`vertex_id_transac`,
  `volume_id_transac` of `CMap3`), as far as the grid theorems (C12) need it.  Self-contained, in
  its own namespace `HC.Grid3Pop` (the partial-correctness orbit theory of C05 is `Lemmas/Cell3.lean`).

  * `ppop`          the traversal over a pure generator `g`; `none` = fuel exhausted (the model panics);
  * `ppop_spec`     if a list `S` contains the start dart and is closed under the non-null images
                    of `g`, every `g x` has at most `w` entries and the fuel exceeds `w·|S| + 1`, the
                    traversal terminates with `some v` where `v` is the minimum of a set `M ⊆ S`
                    that contains the start and is closed under the non-null images of `g`;
  * `run_popLoop`   on a map where the monadic generator reads in range and returns `g`, the monadic
                    `popLoop` returns what `ppop` returns (and `panic` for `none`), map unchanged;
  * `run_vertexId3` / `run_volumeId3`  the two identifiers on a well-formed 3-map.
-/
import Honeycomb.Model.Ops3
import Honeycomb.Model.WF
import Honeycomb.Lemmas.Run
import Batteries.Data.List.Perm

namespace HC.Grid3Pop
open HC
variable {X : Type}

/-- `popLoop` over a pure generator; also returns the final marked list -/
def ppop (g : Nat → List Nat) : Nat → List Nat → List Nat → Nat → Option (Nat × List Nat)
  | 0, _, _, _ => none
  | _ + 1, [], marked, mn => some (mn, marked)
  | f + 1, d :: rest, marked, mn =>
      if marked.contains d then ppop g f rest marked mn
      else ppop g f (rest ++ g d) (marked ++ [d]) (min mn d)

/-- loop invariant -/
structure PI (g : Nat → List Nat) (S : List Nat) (d : Nat) (pend marked : List Nat) (mn : Nat) : Prop where
  m0 : 0 ∈ marked
  nodup : marked.Nodup
  msub : ∀ x, x ∈ marked → x = 0 ∨ x ∈ S
  psub : ∀ x, x ∈ pend → x = 0 ∨ x ∈ S
  closed : ∀ x, x ∈ marked → x ≠ 0 → ∀ y, y ∈ g x → y ∈ marked ∨ y ∈ pend
  dmem : d ∈ marked ∨ d ∈ pend
  mnle : mn ≤ d ∧ ∀ x, x ∈ marked → x ≠ 0 → mn ≤ x
  mnmem : mn = d ∨ (mn ∈ marked ∧ mn ≠ 0)

/-- what the traversal returns -/
def Res (g : Nat → List Nat) (S : List Nat) (d v : Nat) (M : List Nat) : Prop :=
  (∀ x, x ∈ M → x = 0 ∨ x ∈ S) ∧ d ∈ M ∧ (∀ x, x ∈ M → x ≠ 0 → ∀ y, y ∈ g x → y ∈ M) ∧
  v ≤ d ∧ (∀ x, x ∈ M → x ≠ 0 → v ≤ x) ∧ (v = d ∨ (v ∈ M ∧ v ≠ 0))

theorem ppop_inv (g : Nat → List Nat) (S : List Nat) (d w : Nat) (_h0S : 0 ∉ S)
    (hS : ∀ x, x ∈ S → ∀ y, y ∈ g x → y = 0 ∨ y ∈ S) (hw : ∀ x, (g x).length ≤ w) :
    ∀ (f : Nat) (pend marked : List Nat) (mn : Nat), PI g S d pend marked mn →
      pend.length + w * (S.length + 1 - marked.length) < f →
      ∃ v M, ppop g f pend marked mn = some (v, M) ∧ Res g S d v M := by
  intro f
  induction f with
  | zero => intro pend marked mn _ h; omega
  | succ f ih =>
      intro pend marked mn inv hf
      cases pend with
      | nil =>
          refine ⟨mn, marked, rfl, inv.msub, ?_, ?_, inv.mnle.1, inv.mnle.2, inv.mnmem⟩
          · rcases inv.dmem with h | h
            · exact h
            · simp at h
          · intro x hx hx0 y hy
            rcases inv.closed x hx hx0 y hy with h | h
            · exact h
            · simp at h
      | cons x rest =>
          by_cases hc : marked.contains x = true
          · have hx : x ∈ marked := by simpa using hc
            have : ppop g (f + 1) (x :: rest) marked mn = ppop g f rest marked mn := by
              simp only [ppop, hc, if_true]
            rw [this]
            apply ih
            · refine ⟨inv.m0, inv.nodup, inv.msub, fun y hy => inv.psub y (List.mem_cons_of_mem _ hy), ?_, ?_,
                inv.mnle, inv.mnmem⟩
              · intro a ha ha0 y hy
                rcases inv.closed a ha ha0 y hy with h | h
                · exact Or.inl h
                · rcases List.mem_cons.mp h with h | h
                  · subst h; exact Or.inl hx
                  · exact Or.inr h
              · rcases inv.dmem with h | h
                · exact Or.inl h
                · rcases List.mem_cons.mp h with h | h
                  · subst h; exact Or.inl hx
                  · exact Or.inr h
            · simp only [List.length_cons] at hf; omega
          · have hx : x ∉ marked := by simpa using hc
            have hx0 : x ≠ 0 := by intro h; subst h; exact hx inv.m0
            have hxS : x ∈ S := by
              rcases inv.psub x List.mem_cons_self with h | h
              · exact absurd h hx0
              · exact h
            have : ppop g (f + 1) (x :: rest) marked mn =
                ppop g f (rest ++ g x) (marked ++ [x]) (min mn x) := by
              simp only [ppop, hc]
              rfl
            rw [this]
            -- pigeonhole: the non-null marked darts plus `x` are distinct members of `S`
            have hcount : marked.length + 1 ≤ S.length + 1 := by
              have nd : (x :: marked.erase 0).Nodup := by
                refine List.nodup_cons.mpr ⟨?_, inv.nodup.erase 0⟩
                intro h; exact hx (List.mem_of_mem_erase h)
              have sub : (x :: marked.erase 0) ⊆ S := by
                intro y hy
                rcases List.mem_cons.mp hy with h | h
                · subst h; exact hxS
                · have hym := List.mem_of_mem_erase h
                  rcases inv.msub y hym with h' | h'
                  · subst h'
                    exact absurd h (List.Nodup.not_mem_erase inv.nodup)
                  · exact h'
              have hl := (List.subperm_of_subset nd sub).length_le
              have he : (marked.erase 0).length = marked.length - 1 := List.length_erase_of_mem inv.m0
              have hp : 0 < marked.length := List.length_pos_of_mem inv.m0
              simp only [List.length_cons] at hl
              omega
            apply ih
            · refine ⟨List.mem_append_left _ inv.m0, ?_, ?_, ?_, ?_, ?_, ?_, ?_⟩
              · refine List.nodup_append.mpr ⟨inv.nodup, by simp, ?_⟩
                intro a ha b hb hab
                simp at hb; subst hb; subst hab; exact hx ha
              · intro y hy
                rcases List.mem_append.mp hy with h | h
                · exact inv.msub y h
                · simp at h; subst h; exact Or.inr hxS
              · intro y hy
                rcases List.mem_append.mp hy with h | h
                · exact inv.psub y (List.mem_cons_of_mem _ h)
                · exact hS x hxS y h
              · intro a ha ha0 y hy
                rcases List.mem_append.mp ha with h | h
                · rcases inv.closed a h ha0 y hy with h' | h'
                  · exact Or.inl (List.mem_append_left _ h')
                  · rcases List.mem_cons.mp h' with h'' | h''
                    · subst h''; exact Or.inl (by simp)
                    · exact Or.inr (List.mem_append_left _ h'')
                · simp at h; subst h
                  exact Or.inr (List.mem_append_right _ hy)
              · rcases inv.dmem with h | h
                · exact Or.inl (List.mem_append_left _ h)
                · rcases List.mem_cons.mp h with h | h
                  · subst h; exact Or.inl (by simp)
                  · exact Or.inr (List.mem_append_left _ h)
              · refine ⟨by have := inv.mnle.1; omega, ?_⟩
                intro a ha ha0
                rcases List.mem_append.mp ha with h | h
                · have := inv.mnle.2 a h ha0; omega
                · simp at h; subst h; omega
              · by_cases hle : mn ≤ x
                · have e : min mn x = mn := by omega
                  rw [e]
                  rcases inv.mnmem with h | ⟨h, h'⟩
                  · exact Or.inl h
                  · exact Or.inr ⟨List.mem_append_left _ h, h'⟩
                · have e : min mn x = x := by omega
                  rw [e]
                  exact Or.inr ⟨by simp, hx0⟩
            · have hgl := hw x
              simp only [List.length_cons, List.length_append, List.length_nil, Nat.zero_add] at hf ⊢
              have h1 : S.length + 1 - marked.length = (S.length + 1 - (marked.length + 1)) + 1 := by omega
              rw [h1, Nat.mul_succ] at hf
              omega

/-- specification of `popLoop gen f [d] [0] d` -/
theorem ppop_spec (g : Nat → List Nat) (S : List Nat) (d w f : Nat) (hd : d ∈ S) (h0S : 0 ∉ S)
    (hS : ∀ x, x ∈ S → ∀ y, y ∈ g x → y = 0 ∨ y ∈ S) (hw : ∀ x, (g x).length ≤ w)
    (hf : w * S.length + 1 < f) :
    ∃ v M, ppop g f [d] [0] d = some (v, M) ∧ Res g S d v M := by
  apply ppop_inv g S d w h0S hS hw
  · refine ⟨by simp, by simp, by simp, ?_, ?_, Or.inr (by simp), ⟨Nat.le_refl _, ?_⟩, Or.inl rfl⟩
    · intro x hx; simp at hx; subst hx; exact Or.inr hd
    · intro x hx hx0; simp at hx; exact absurd hx hx0
    · intro x hx hx0; simp at hx; exact absurd hx hx0
  · simp only [List.length_singleton]
    have : S.length + 1 - 1 = S.length := by omega
    rw [this]; omega

/-- the result is the minimum of `M` (which contains the start) -/
theorem Res.min {g : Nat → List Nat} {S : List Nat} {d v : Nat} {M : List Nat} (h : Res g S d v M)
    (hd0 : d ≠ 0) : v ∈ M ∧ v ≠ 0 ∧ ∀ x, x ∈ M → x ≠ 0 → v ≤ x := by
  obtain ⟨_, hd, _, _, hmin, hmem⟩ := h
  rcases hmem with rfl | ⟨h1, h2⟩
  · exact ⟨hd, hd0, hmin⟩
  · exact ⟨h1, h2, hmin⟩

/-! ## monadic traversal = pure traversal -/

theorem run_popLoop (m : Map X) (gen : Nat → P X (List Nat)) (g : Nat → List Nat) (n : Nat)
    (hg : ∀ d, d < n → run (gen d) m = (.ok (g d), m)) (hr : ∀ d, d < n → ∀ y, y ∈ g d → y < n) :
    ∀ (f : Nat) (pend marked : List Nat) (mn : Nat), (∀ x, x ∈ pend → x < n) →
      run (popLoop gen f pend marked mn) m =
        (match ppop g f pend marked mn with
          | some r => (.ok r.1, m)
          | none => (.panic, m)) := by
  intro f
  induction f with
  | zero => intro pend marked mn _; simp [popLoop, ppop]
  | succ f ih =>
      intro pend marked mn hp
      cases pend with
      | nil => simp [popLoop, ppop]
      | cons x rest =>
          have hx : x < n := hp x List.mem_cons_self
          by_cases hc : marked.contains x = true
          · simp only [popLoop, ppop, hc, if_true]
            exact ih _ _ _ (fun y hy => hp y (List.mem_cons_of_mem _ hy))
          · have hc' : marked.contains x = false := by simpa using hc
            simp only [popLoop, ppop, hc', Bool.false_eq_true, if_false, Prog.bind_eq]
            rw [run_bind, hg x hx]
            simp only
            apply ih
            intro z hz
            rcases List.mem_append.mp hz with hz | hz
            · exact hp z (List.mem_cons_of_mem _ hz)
            · exact hr x hx z hz

/-- the six images `vertex_id_transac` pushes (same list as `Cell3.g3v`) -/
def g3 (m : Map X) (x : Nat) : List Nat :=
  [m.β 1 (m.β 3 x), m.β 3 (m.β 2 x), m.β 1 (m.β 2 x), m.β 3 (m.β 0 x), m.β 2 (m.β 0 x), m.β 2 (m.β 3 x)]

theorem okβ4 {m : Map X} (wf : WF 4 m) {i d : Nat} (hi : i < 4) (hd : d < m.n) : m.okβ i d = true := by
  unfold Map.okβ
  rw [wf.rows, wf.row i hi]
  simp [hi, hd]

theorem run_genVid3 {m : Map X} (wf : WF 4 m) {d : Nat} (hd : d < m.n) :
    run (genVid3 (X := X) d) m = (.ok (g3 m d), m) := by
  have h0 := wf.range 0 (by decide) d hd
  have h2 := wf.range 2 (by decide) d hd
  have h3 := wf.range 3 (by decide) d hd
  simp only [genVid3, Prog.bind_eq, Prog.pure_eq, run_rB, okβ4 wf (by decide : 0 < 4) hd,
    okβ4 wf (by decide : 2 < 4) hd, okβ4 wf (by decide : 3 < 4) hd, okβ4 wf (by decide : 1 < 4) h3,
    okβ4 wf (by decide : 3 < 4) h2, okβ4 wf (by decide : 1 < 4) h2, okβ4 wf (by decide : 3 < 4) h0,
    okβ4 wf (by decide : 2 < 4) h0, okβ4 wf (by decide : 2 < 4) h3, if_true, run_ret, g3]

theorem g3_range {m : Map X} (wf : WF 4 m) {d : Nat} (hd : d < m.n) : ∀ y, y ∈ g3 m d → y < m.n := by
  intro y hy
  have r := fun i (hi : i < 4) e (he : e < m.n) => wf.range i hi e he
  simp only [g3, List.mem_cons, List.not_mem_nil, or_false] at hy
  rcases hy with rfl | rfl | rfl | rfl | rfl | rfl
  · exact r 1 (by decide) _ (r 3 (by decide) d hd)
  · exact r 3 (by decide) _ (r 2 (by decide) d hd)
  · exact r 1 (by decide) _ (r 2 (by decide) d hd)
  · exact r 3 (by decide) _ (r 0 (by decide) d hd)
  · exact r 2 (by decide) _ (r 0 (by decide) d hd)
  · exact r 2 (by decide) _ (r 3 (by decide) d hd)

/-- `vertex_id(d)` on a well-formed 3-map, through the pure traversal -/
theorem run_vertexId3 {m : Map X} (wf : WF 4 m) {d : Nat} (hd : d < m.n) (n' : Nat) :
    run (vertexId3 (X := X) n' d) m =
      (match ppop (g3 m) (8 * n' + 8) [d] [0] d with
        | some r => (.ok r.1, m)
        | none => (.panic, m)) := by
  unfold vertexId3
  exact run_popLoop m genVid3 (g3 m) m.n (fun d hd => run_genVid3 wf hd) (fun d hd => g3_range wf hd)
    _ _ _ _ (by intro x hx; simp at hx; subst hx; exact hd)

/-- the three images `volume_id_transac` pushes -/
def gvol (m : Map X) (x : Nat) : List Nat := [m.β 1 x, m.β 0 x, m.β 2 x]

theorem run_volumeId3 {m : Map X} (wf : WF 4 m) {d : Nat} (hd : d < m.n) (n' : Nat) :
    run (volumeId3 (X := X) n' d) m =
      (match ppop (gvol m) (8 * n' + 8) [d] [0] d with
        | some r => (.ok r.1, m)
        | none => (.panic, m)) := by
  unfold volumeId3
  refine run_popLoop m _ (gvol m) m.n ?_ ?_ _ _ _ _ (by intro x hx; simp at hx; subst hx; exact hd)
  · intro e he
    simp only [Prog.bind_eq, Prog.pure_eq, run_rB, okβ4 wf (by decide : 1 < 4) he,
      okβ4 wf (by decide : 0 < 4) he, okβ4 wf (by decide : 2 < 4) he, if_true, run_ret, gvol]
  · intro e he y hy
    simp only [gvol, List.mem_cons, List.not_mem_nil, or_false] at hy
    rcases hy with rfl | rfl | rfl
    · exact wf.range 1 (by decide) e he
    · exact wf.range 0 (by decide) e he
    · exact wf.range 2 (by decide) e he

end HC.Grid3Pop
