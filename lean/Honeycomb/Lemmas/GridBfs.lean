/-
  The generic BFS of `Ops.lean` (DESIGN.md Appendix A2), as far as the grid theorems (C12) need it
  (self-contained and in its own namespace `HC.GridBfs`; the full orbit theory of C03 lives in
  `Lemmas/Bfs.lean`):

  * `pbfs`           the BFS over a pure generator `g : Nat → List Nat`;
  * `run_bfs`        on a map where the monadic generator reads in range and returns `g`, the
                     monadic `bfs` returns `pbfs` and leaves the map unchanged;
  * `pbfs_spec`      if a duplicate-free list `S` contains the start dart and is closed under the
                     non-null images of `g`, and the fuel exceeds `|S|`, then the output is
                     contained in `S`, contains the start dart and is itself closed under the
                     non-null images of `g` (hence contains everything reachable);
  * `listMin_eq`     the minimum accumulated by `vertex_id` & co.
  * `run_vertexId2`  `vertex_id` of a well-formed 2-map as a pure expression.
-/
import Honeycomb.Model.Ops2
import Honeycomb.Model.WF
import Honeycomb.Lemmas.Run
import Batteries.Data.List.Perm

namespace HC.GridBfs
open HC
variable {X : Type}

/-- BFS over a pure generator (same control structure as `bfs`) -/
def pbfs (g : Nat → List Nat) : Nat → List Nat → List Nat → List Nat → List Nat
  | 0, _, _, out => out
  | _ + 1, [], _, out => out
  | f + 1, d :: rest, marked, out =>
      pbfs g f ((g d).foldl bfsCheck (rest, marked)).1 ((g d).foldl bfsCheck (rest, marked)).2 (out ++ [d])

/-- effect of examining the images of one dart -/
theorem foldl_check (ims : List Nat) : ∀ (p mk : List Nat),
    ∃ new, ims.foldl bfsCheck (p, mk) = (p ++ new, mk ++ new) ∧ new.Nodup ∧
      (∀ y, y ∈ new → y ∈ ims ∧ y ∉ mk) ∧ (∀ y, y ∈ ims → y ∈ mk ∨ y ∈ new) := by
  induction ims with
  | nil => intro p mk; exact ⟨[], by simp, List.nodup_nil, by simp, by simp⟩
  | cons y ys ih =>
      intro p mk
      by_cases hy : mk.contains y = true
      · obtain ⟨new, e, nd, h1, h2⟩ := ih p mk
        refine ⟨new, ?_, nd, ?_, ?_⟩
        · simp only [List.foldl_cons, bfsCheck, hy, if_true]; exact e
        · intro z hz; exact ⟨List.mem_cons_of_mem _ (h1 z hz).1, (h1 z hz).2⟩
        · intro z hz
          rcases List.mem_cons.mp hz with rfl | hz
          · left; simpa using hy
          · exact h2 z hz
      · obtain ⟨new, e, nd, h1, h2⟩ := ih (p ++ [y]) (mk ++ [y])
        have hy' : y ∉ mk := by simpa using hy
        refine ⟨y :: new, ?_, ?_, ?_, ?_⟩
        · simp only [List.foldl_cons, bfsCheck, hy]
          rw [show (if false = true then (p, mk) else ((p, mk).1 ++ [y], (p, mk).2 ++ [y])) =
            (p ++ [y], mk ++ [y]) from rfl, e]
          simp
        · refine List.nodup_cons.mpr ⟨?_, nd⟩
          intro hin
          exact (h1 y hin).2 (by simp)
        · intro z hz
          rcases List.mem_cons.mp hz with rfl | hz
          · exact ⟨List.mem_cons_self, hy'⟩
          · refine ⟨List.mem_cons_of_mem _ (h1 z hz).1, ?_⟩
            intro hm; exact (h1 z hz).2 (by simp [hm])
        · intro z hz
          rcases List.mem_cons.mp hz with rfl | hz
          · right; exact List.mem_cons_self
          · rcases h2 z hz with h | h
            · rcases List.mem_append.mp h with h | h
              · left; exact h
              · right; simp at h; subst h; exact List.mem_cons_self
            · right; exact List.mem_cons_of_mem _ h

/-- the loop invariant of A2 -/
structure BInv (g : Nat → List Nat) (S : List Nat) (d : Nat) (pend marked out : List Nat) : Prop where
  mkd : ∀ x, x ∈ marked ↔ x = 0 ∨ x ∈ out ∨ x ∈ pend
  closed : ∀ x, x ∈ out → ∀ y, y ∈ g x → y ∈ marked
  sound : ∀ x, x ∈ out ∨ x ∈ pend → x ∈ S
  nodup : (out ++ pend).Nodup
  start : d ∈ out ∨ d ∈ pend

theorem pbfs_inv (g : Nat → List Nat) (S : List Nat) (d : Nat)
    (hS : ∀ x, x ∈ S → ∀ y, y ∈ g x → y = 0 ∨ y ∈ S) :
    ∀ (f : Nat) (pend marked out : List Nat), BInv g S d pend marked out → S.length < f + out.length →
      (∀ x, x ∈ pbfs g f pend marked out → x ∈ S) ∧ d ∈ pbfs g f pend marked out ∧
      (∀ x, x ∈ pbfs g f pend marked out → ∀ y, y ∈ g x → y = 0 ∨ y ∈ pbfs g f pend marked out) := by
  intro f
  induction f with
  | zero =>
      intro pend marked out inv hlen
      exfalso
      have nd : out.Nodup := (List.nodup_append.mp inv.nodup).1
      have sub : out ⊆ S := fun x hx => inv.sound x (Or.inl hx)
      have := (List.subperm_of_subset nd sub).length_le
      omega
  | succ f ih =>
      intro pend marked out inv hlen
      cases pend with
      | nil =>
          simp only [pbfs]
          refine ⟨fun x hx => inv.sound x (Or.inl hx), ?_, ?_⟩
          · rcases inv.start with h | h
            · exact h
            · simp at h
          · intro x hx y hy
            have := (inv.mkd y).mp (inv.closed x hx y hy)
            rcases this with h | h | h
            · exact Or.inl h
            · exact Or.inr h
            · simp at h
      | cons x rest =>
          simp only [pbfs]
          obtain ⟨new, e, nd, h1, h2⟩ := foldl_check (g x) rest marked
          rw [e]
          simp only
          have hxS : x ∈ S := inv.sound x (Or.inr List.mem_cons_self)
          have h0 : (0 : Nat) ∈ marked := (inv.mkd 0).mpr (Or.inl rfl)
          apply ih
          · refine ⟨?_, ?_, ?_, ?_, ?_⟩
            · intro z
              simp only [List.mem_append, List.mem_singleton]
              rw [inv.mkd z]
              simp only [List.mem_cons]
              constructor
              · rintro ((h | h | h | h) | h)
                · exact Or.inl h
                · exact Or.inr (Or.inl (Or.inl h))
                · exact Or.inr (Or.inl (Or.inr h))
                · exact Or.inr (Or.inr (Or.inl h))
                · exact Or.inr (Or.inr (Or.inr h))
              · rintro (h | (h | h) | (h | h))
                · exact Or.inl (Or.inl h)
                · exact Or.inl (Or.inr (Or.inl h))
                · exact Or.inl (Or.inr (Or.inr (Or.inl h)))
                · exact Or.inl (Or.inr (Or.inr (Or.inr h)))
                · exact Or.inr h
            · intro z hz y hy
              rcases List.mem_append.mp hz with hz | hz
              · exact List.mem_append_left _ (inv.closed z hz y hy)
              · simp at hz; subst hz
                rcases h2 y hy with h | h
                · exact List.mem_append_left _ h
                · exact List.mem_append_right _ h
            · intro z hz
              rcases hz with hz | hz
              · rcases List.mem_append.mp hz with hz | hz
                · exact inv.sound z (Or.inl hz)
                · simp at hz; subst hz; exact hxS
              · rcases List.mem_append.mp hz with hz | hz
                · exact inv.sound z (Or.inr (List.mem_cons_of_mem _ hz))
                · obtain ⟨hz1, hz2⟩ := h1 z hz
                  rcases hS x hxS z hz1 with h | h
                  · subst h; exact absurd h0 hz2
                  · exact h
            · have e2 : out ++ [x] ++ (rest ++ new) = (out ++ x :: rest) ++ new := by simp
              rw [e2]
              refine List.nodup_append.mpr ⟨inv.nodup, nd, ?_⟩
              intro a ha b hb hab
              subst hab
              have : a ∈ marked := by
                rw [inv.mkd a]
                rcases List.mem_append.mp ha with h | h
                · exact Or.inr (Or.inl h)
                · exact Or.inr (Or.inr h)
              exact (h1 a hb).2 this
            · rcases inv.start with h | h
              · exact Or.inl (List.mem_append_left _ h)
              · rcases List.mem_cons.mp h with h | h
                · left; simp [h]
                · right; exact List.mem_append_left _ h
          · simp only [List.length_append, List.length_singleton]
            omega

/-- specification of the orbit computation `orbitWith n gen d = bfs gen (n+1) [d] [0,d] []` -/
theorem pbfs_spec (g : Nat → List Nat) (S : List Nat) (d n : Nat) (hd : d ∈ S)
    (hS : ∀ x, x ∈ S → ∀ y, y ∈ g x → y = 0 ∨ y ∈ S) (hlen : S.length ≤ n) :
    (∀ x, x ∈ pbfs g (n + 1) [d] [0, d] [] → x ∈ S) ∧ d ∈ pbfs g (n + 1) [d] [0, d] [] ∧
    (∀ x, x ∈ pbfs g (n + 1) [d] [0, d] [] → ∀ y, y ∈ g x → y = 0 ∨ y ∈ pbfs g (n + 1) [d] [0, d] []) := by
  apply pbfs_inv g S d hS
  · refine ⟨?_, ?_, ?_, ?_, ?_⟩
    · intro x; simp
    · intro x hx; simp at hx
    · intro x hx
      rcases hx with hx | hx
      · simp at hx
      · simp at hx; subst hx; exact hd
    · simp
    · right; simp
  · simp only [List.length_nil]; omega

/-! ## minimum -/

theorem foldl_min_le (l : List Nat) : ∀ a, l.foldl min a ≤ a ∧ ∀ x, x ∈ l → l.foldl min a ≤ x := by
  induction l with
  | nil => intro a; simp
  | cons y ys ih =>
      intro a
      obtain ⟨h1, h2⟩ := ih (min a y)
      simp only [List.foldl_cons]
      refine ⟨by omega, ?_⟩
      intro x hx
      rcases List.mem_cons.mp hx with rfl | hx
      · omega
      · exact h2 x hx

theorem foldl_min_mem (l : List Nat) : ∀ a, l.foldl min a = a ∨ l.foldl min a ∈ l := by
  induction l with
  | nil => intro a; simp
  | cons y ys ih =>
      intro a
      simp only [List.foldl_cons]
      rcases ih (min a y) with h | h
      · rw [h]
        by_cases hay : a ≤ y
        · left; omega
        · right; have : min a y = y := by omega
          rw [this]; exact List.mem_cons_self
      · right; exact List.mem_cons_of_mem _ h

/-- the minimum is `v` when `v` occurs and bounds everything from below -/
theorem listMin_eq (l : List Nat) (d v : Nat) (hv : v = d ∨ v ∈ l) (hd : v ≤ d)
    (hl : ∀ x, x ∈ l → v ≤ x) : listMin l d = v := by
  unfold listMin
  obtain ⟨h1, h2⟩ := foldl_min_le l d
  have lower : v ≤ l.foldl min d := by
    rcases foldl_min_mem l d with h | h
    · rw [h]; exact hd
    · exact hl _ h
  have upper : l.foldl min d ≤ v := by
    rcases hv with rfl | hv
    · exact h1
    · exact h2 v hv
  omega

/-! ## monadic BFS = pure BFS on maps where the generator reads in range -/

theorem run_bfs (m : Map X) (gen : Nat → P X (List Nat)) (g : Nat → List Nat) (n : Nat)
    (hg : ∀ d, d < n → run (gen d) m = (.ok (g d), m)) (hr : ∀ d, d < n → ∀ y, y ∈ g d → y < n) :
    ∀ (f : Nat) (pend marked out : List Nat), (∀ x, x ∈ pend → x < n) →
      run (bfs gen f pend marked out) m = (.ok (pbfs g f pend marked out), m) := by
  intro f
  induction f with
  | zero => intro pend marked out _; simp [bfs, pbfs]
  | succ f ih =>
      intro pend marked out hp
      cases pend with
      | nil => simp [bfs, pbfs]
      | cons x rest =>
          have hx : x < n := hp x List.mem_cons_self
          simp only [bfs, pbfs, Prog.bind_eq]
          rw [run_bind, hg x hx]
          simp only
          apply ih
          obtain ⟨new, e, _, h1, _⟩ := foldl_check (g x) rest marked
          rw [e]
          intro z hz
          rcases List.mem_append.mp hz with hz | hz
          · exact hp z (List.mem_cons_of_mem _ hz)
          · exact hr x hx z (h1 z hz).1

/-- the images `vertex_id` (2-D) examines, as a pure function of the map -/
def gv2 (m : Map X) (d : Nat) : List Nat := [m.β 1 (m.β 2 d), m.β 2 (m.β 0 d)]

theorem okβ_of_wf {m : Map X} (wf : WF 3 m) {i d : Nat} (hi : i < 3) (hd : d < m.n) : m.okβ i d = true := by
  unfold Map.okβ
  rw [wf.rows, wf.row i hi]
  simp [hi, hd]

theorem run_gen2_vertex {m : Map X} (wf : WF 3 m) {d : Nat} (hd : d < m.n) :
    run (gen2 (X := X) .vertex d) m = (.ok (gv2 m d), m) := by
  have h2 := wf.range 2 (by decide) d hd
  have h0 := wf.range 0 (by decide) d hd
  simp only [gen2, Prog.bind_eq, Prog.pure_eq, run_rB, okβ_of_wf wf (by decide : 2 < 3) hd,
    okβ_of_wf wf (by decide : 0 < 3) hd, okβ_of_wf wf (by decide : 1 < 3) h2,
    okβ_of_wf wf (by decide : 2 < 3) h0, if_true, run_ret, gv2]

theorem gv2_range {m : Map X} (wf : WF 3 m) {d : Nat} (hd : d < m.n) : ∀ y, y ∈ gv2 m d → y < m.n := by
  intro y hy
  simp only [gv2, List.mem_cons, List.not_mem_nil, or_false] at hy
  rcases hy with rfl | rfl
  · exact wf.range 1 (by decide) _ (wf.range 2 (by decide) d hd)
  · exact wf.range 2 (by decide) _ (wf.range 0 (by decide) d hd)

/-- `vertex_id(d)` on a well-formed 2-map -/
theorem run_vertexId2 {m : Map X} (wf : WF 3 m) {d : Nat} (hd : d < m.n) :
    run (vertexId2 (X := X) m.n d) m = (.ok (listMin (pbfs (gv2 m) (m.n + 1) [d] [0, d] []) d), m) := by
  simp only [vertexId2, orbitWith, Prog.bind_eq, Prog.pure_eq]
  rw [run_bind, run_bfs m (gen2 .vertex) (gv2 m) m.n (fun d hd => run_gen2_vertex wf hd)
    (fun d hd => gv2_range wf hd) _ _ _ _ (by intro x hx; simp at hx; subst hx; exact hd)]
  simp

end HC.GridBfs
