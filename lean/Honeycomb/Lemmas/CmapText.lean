/-
  Lemmas about the token-level cmap text model (`Model/CmapText.lean`) used by C09 and C10:
  numerals round-trip, shape (`Sized`) preservation, the three loops of
  `build_2d_from_cmap_file`, the section parser on a serialization, and the fact that
  `iter_vertices` only depends on the β rows and the removal flags.

  Self-contained (imports the model only; core + Std).
-/
import Honeycomb.Model.CmapText
import Honeycomb.Model.WF

namespace HC
namespace CmapText

/-! ## A. numerals -/

theorem allDigits_toDigits (n : Nat) : (Nat.toDigits 10 n).all Char.isDigit = true := by
  rw [List.all_eq_true]
  intro c hc
  exact Nat.isDigit_of_mem_toDigits (by decide) (by decide) hc

theorem stripPlus_cons {c : Char} {r : List Char} (h : c ≠ '+') : stripPlus (c :: r) = c :: r := by
  unfold stripPlus
  split
  · rename_i r' heq
    injection heq with h1 h2
    exact absurd h1 h
  · rfl

theorem parseUChars_digits {bound : Nat} {ds : List Char} (hne : ds ≠ [])
    (hall : ds.all Char.isDigit = true) (h : Nat.ofDigitChars 10 ds 0 < bound) :
    parseUChars bound ds = some (Nat.ofDigitChars 10 ds 0) := by
  cases ds with
  | nil => exact absurd rfl hne
  | cons c r =>
    have hc : c.isDigit = true := List.all_eq_true.mp hall c (by simp)
    have hplus : c ≠ '+' := by
      intro e; subst e; simp [Char.isDigit] at hc
    unfold parseUChars
    simp only [stripPlus_cons hplus]
    simp [hall, h]

theorem parseUChars_toDigits {bound v : Nat} (h : v < bound) :
    parseUChars bound (Nat.toDigits 10 v) = some v := by
  have := parseUChars_digits (bound := bound) (ds := Nat.toDigits 10 v) Nat.toDigits_ne_nil
    (allDigits_toDigits v) (by simpa using h)
  simpa using this

/-- the numeral round trip used by C09 (no assumption: from core's `ofDigitChars_ten_toDigits`) -/
theorem parseU32_natTok {v : Nat} (h : v < u32Bound) : parseU32 (natTok v) = some v := by
  unfold parseU32 natTok
  rw [Nat.toList_repr]
  exact parseUChars_toDigits h

theorem parseUsize_natTok {v : Nat} (h : v < usizeBound) : parseUsize (natTok v) = some v := by
  unfold parseUsize natTok
  rw [Nat.toList_repr]
  exact parseUChars_toDigits h

/-- a token without `#` -/
def NoHash (t : String) : Prop := t.toList.contains '#' = false

theorem natTok_noHash (v : Nat) : NoHash (natTok v) := by
  unfold NoHash natTok
  rw [Nat.toList_repr]
  rw [Bool.eq_false_iff]
  intro h
  have := List.contains_iff_mem.mp h
  have := Nat.isDigit_of_mem_toDigits (by decide) (by decide) this
  simp [Char.isDigit] at this

theorem natTok_head (v : Nat) : ∃ c, (natTok v).toList.head? = some c ∧ c.isDigit = true := by
  unfold natTok
  rw [Nat.toList_repr]
  cases h : Nat.toDigits 10 v with
  | nil => exact absurd h Nat.toDigits_ne_nil
  | cons c r =>
    refine ⟨c, rfl, ?_⟩
    have hm : c ∈ Nat.toDigits 10 v := by rw [h]; simp
    exact Nat.isDigit_of_mem_toDigits (b := 10) (by decide) (by decide) hm

end CmapText
end HC
