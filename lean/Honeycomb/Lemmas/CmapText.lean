/-
  Lemmas about the token-level cmap text model (`Model/CmapText.lean`) used by C09 and C10:
  numerals round-trip, shape (`Sized`) preservation, the three loops of
  `build_2d_from_cmap_file`, the section parser on a serialization, and the fact that
  `iter_vertices` only depends on the β rows and the removal flags.

  Self-contained (imports the model only; core + Std).
-/
import Honeycomb.Model.CmapText
import Honeycomb.Model.WF

namespace HC
namespace CmapText

/-! ## A. numerals -/

theorem allDigits_toDigits (n : Nat) : (Nat.toDigits 10 n).all Char.isDigit = true := by
  rw [List.all_eq_true]
  intro c hc
  exact Nat.isDigit_of_mem_toDigits (by decide) (by decide) hc

theorem stripPlus_cons {c : Char} {r : List Char} (h : c ≠ '+') : stripPlus (c :: r) = c :: r := by
  unfold stripPlus
  split
  · rename_i r' heq
    injection heq with h1 h2
    exact absurd h1 h
  · rfl

theorem parseUChars_digits {bound : Nat} {ds : List Char} (hne : ds ≠ [])
    (hall : ds.all Char.isDigit = true) (h : Nat.ofDigitChars 10 ds 0 < bound) :
    parseUChars bound ds = some (Nat.ofDigitChars 10 ds 0) := by
  cases ds with
  | nil => exact absurd rfl hne
  | cons c r =>
    have hc : c.isDigit = true := List.all_eq_true.mp hall c (by simp)
    have hplus : c ≠ '+' := by
      intro e; subst e; simp [Char.isDigit] at hc
    unfold parseUChars
    simp only [stripPlus_cons hplus]
    simp [hall, h]

theorem parseUChars_toDigits {bound v : Nat} (h : v < bound) :
    parseUChars bound (Nat.toDigits 10 v) = some v := by
  have := parseUChars_digits (bound := bound) (ds := Nat.toDigits 10 v) Nat.toDigits_ne_nil
    (allDigits_toDigits v) (by simpa using h)
  simpa using this

/-- the numeral round trip used by C09 (no assumption: from core's `ofDigitChars_ten_toDigits`) -/
theorem parseU32_natTok {v : Nat} (h : v < u32Bound) : parseU32 (natTok v) = some v := by
  unfold parseU32 natTok
  rw [Nat.toList_repr]
  exact parseUChars_toDigits h

theorem parseUsize_natTok {v : Nat} (h : v < usizeBound) : parseUsize (natTok v) = some v := by
  unfold parseUsize natTok
  rw [Nat.toList_repr]
  exact parseUChars_toDigits h

/-- a token without `#` -/
abbrev NoHash (t : String) : Prop := t.toList.contains '#' = false

theorem natTok_noHash (v : Nat) : NoHash (natTok v) := by
  unfold NoHash natTok
  rw [Nat.toList_repr]
  rw [Bool.eq_false_iff]
  intro h
  have := List.contains_iff_mem.mp h
  have := Nat.isDigit_of_mem_toDigits (by decide) (by decide) this
  simp [Char.isDigit] at this

theorem natTok_head (v : Nat) : ∃ c, (natTok v).toList.head? = some c ∧ c.isDigit = true := by
  unfold natTok
  rw [Nat.toList_repr]
  cases h : Nat.toDigits 10 v with
  | nil => exact absurd h Nat.toDigits_ne_nil
  | cons c r =>
    refine ⟨c, rfl, ?_⟩
    have hm : c ∈ Nat.toDigits 10 v := by rw [h]; simp
    exact Nat.isDigit_of_mem_toDigits (b := 10) (by decide) (by decide) hm

/-! ## B. shape preservation -/

theorem sized_setβ {nb : Nat} {m : Map Val} (h : Sized nb m) (i d v : Nat) :
    Sized nb (m.setβ i d v) := by
  refine ⟨h.npos, ?_, ?_, h.usz, h.asz⟩
  · show (wr m.b i (wr (rd m.b i) d v)).size = nb
    rw [size_wr]; exact h.rows
  · intro j hj
    show (rd (wr m.b i (wr (rd m.b i) d v)) j).size = m.n
    rw [rd_wr]
    split
    · rename_i hc
      rw [size_wr, hc.1]; exact h.row j hj
    · exact h.row j hj

theorem sized_setU {nb : Nat} {m : Map Val} (h : Sized nb m) (d : Nat) (v : Bool) :
    Sized nb (m.setU d v) := by
  refine ⟨h.npos, h.rows, h.row, ?_, h.asz⟩
  show (wr m.u d v).size = m.n
  rw [size_wr]; exact h.usz

theorem sized_setA {nb : Nat} {m : Map Val} (h : Sized nb m) (s d : Nat) (v : Option Val) :
    Sized nb (m.setA s d v) := by
  refine ⟨h.npos, h.rows, h.row, h.usz, ?_⟩
  intro t ht
  have ht' : t < m.a.size := by
    have : (m.setA s d v).a.size = m.a.size := by
      show (wr m.a s (wr (rd m.a s) d v)).size = m.a.size
      rw [size_wr]
    omega
  show m.n ≤ (rd (wr m.a s (wr (rd m.a s) d v)) t).size
  rw [rd_wr]
  split
  · rename_i hc
    rw [size_wr, hc.1]; exact h.asz t ht'
  · exact h.asz t ht'

theorem rd_replicate {α : Type} [Inhabited α] (k : Nat) (x : α) (i : Nat) (h : i < k) :
    rd (Array.replicate k x) i = x := by
  unfold rd
  simp [Array.getD_eq_getD_getElem?, h]

theorem sized_empty (ns n : Nat) (hn : 0 < n) : Sized 3 (Map.empty 3 ns n : Map Val) := by
  refine ⟨hn, ?_, ?_, ?_, ?_⟩
  · simp [Map.empty]
  · intro i hi
    show (rd (Array.replicate 3 (Array.replicate n 0)) i).size = n
    rw [rd_replicate _ _ _ hi]; simp
  · simp [Map.empty]
  · intro s hs
    have hs' : s < ns := by simpa [Map.empty] using hs
    show n ≤ (rd ((Array.replicate ns (Array.replicate (n + 1) none)).setIfInBounds 0
      (Array.replicate n none)) s).size
    have := rd_wr (Array.replicate ns (Array.replicate (n + 1) (none : Option Val))) 0 s
      (Array.replicate n none)
    unfold wr at this
    rw [this]
    split
    · simp
    · rw [rd_replicate _ _ _ hs']; simp

theorem okβ_of_sized {nb : Nat} {m : Map Val} (h : Sized nb m) {i d : Nat} (hi : i < nb) (hd : d < m.n) :
    m.okβ i d = true := by
  unfold Map.okβ
  simp [h.rows, hi, h.row i hi, hd]

theorem okU_of_sized {nb : Nat} {m : Map Val} (h : Sized nb m) {d : Nat} (hd : d < m.n) :
    m.okU d = true := by
  unfold Map.okU
  simp [h.usz, hd]

theorem okU_iff_of_sized {nb : Nat} {m : Map Val} (h : Sized nb m) (d : Nat) :
    m.okU d = decide (d < m.n) := by
  unfold Map.okU
  simp [h.usz]

theorem β_empty (ns n i d : Nat) : (Map.empty 3 ns n : Map Val).β i d = 0 := by
  unfold Map.β
  show rd (rd (Array.replicate 3 (Array.replicate n 0)) i) d = 0
  by_cases hi : i < 3
  · rw [rd_replicate _ _ _ hi]
    by_cases hd : d < n
    · rw [rd_replicate _ _ _ hd]
    · rw [rd_oob]; rfl
      simp; omega
  · rw [rd_oob (Array.replicate 3 (Array.replicate n 0)) i (by simp; omega)]
    rw [rd_oob]; rfl
    show (#[] : Array Nat).size ≤ d
    simp

theorem unused_empty (ns n d : Nat) : (Map.empty 3 ns n : Map Val).unused d = false := by
  unfold Map.unused
  show rd (Array.replicate n false) d = false
  by_cases hd : d < n
  · rw [rd_replicate _ _ _ hd]
  · rw [rd_oob]; rfl
    simp; omega

/-! ## C. the loops of `build_2d_from_cmap_file` -/

theorem atomically_setBetas {m : Map Val} (h : Sized 3 m) {d : Nat} (hd : d < m.n) (b0 b1 b2 : Nat) :
    atomically (setBetas d b0 b1 b2) m =
      (.ok (), ((m.setβ 0 d b0).setβ 1 d b1).setβ 2 d b2) := by
  have h0 : m.okβ 0 d = true := okβ_of_sized h (by omega) hd
  have h1 : m.okβ 1 d = true := okβ_of_sized h (by omega) hd
  have h2 : m.okβ 2 d = true := okβ_of_sized h (by omega) hd
  unfold atomically setBetas
  simp [h0, h1, h2, Map.okβ_setβ]

theorem β_setBetas {m : Map Val} (h : Sized 3 m) {d : Nat} (hd : d < m.n) (f : Nat → Nat) (i e : Nat) :
    (((m.setβ 0 d (f 0)).setβ 1 d (f 1)).setβ 2 d (f 2)).β i e =
      if i < 3 ∧ e = d then f i else m.β i e := by
  have h0 : m.okβ 0 d = true := okβ_of_sized h (by omega) hd
  have h1 : m.okβ 1 d = true := okβ_of_sized h (by omega) hd
  have h2 : m.okβ 2 d = true := okβ_of_sized h (by omega) hd
  simp only [Map.β_setβ, Map.okβ_setβ, h0, h1, h2, and_true]
  by_cases he : d = e
  · subst he
    by_cases e0 : i = 0
    · subst e0; simp
    · by_cases e1 : i = 1
      · subst e1; simp
      · by_cases e2 : i = 2
        · subst e2; simp
        · have : ¬ i < 3 := by omega
          simp [this, Ne.symm e0, Ne.symm e1, Ne.symm e2]
  · have : ¬ e = d := fun x => he x.symm
    simp [he, this]

/-- the parsing loop on numerals `g i e` denoting `f i e` -/
theorem parseRows_ok (g : Nat → Nat → String) (f : Nat → Nat → Nat) :
    ∀ (k d : Nat), (∀ i, i < 3 → ∀ e, d ≤ e → e < d + k → parseU32 (g i e) = some (f i e)) →
      parseRows ((List.range' d k).map (g 0)) ((List.range' d k).map (g 1))
          ((List.range' d k).map (g 2)) =
        .ok ((List.range' d k).map (f 0), (List.range' d k).map (f 1), (List.range' d k).map (f 2)) := by
  intro k
  induction k with
  | zero => intro d _; simp [parseRows]
  | succ k ih =>
    intro d hp
    have p0 := hp 0 (by omega) d (Nat.le_refl _) (by omega)
    have p1 := hp 1 (by omega) d (Nat.le_refl _) (by omega)
    have p2 := hp 2 (by omega) d (Nat.le_refl _) (by omega)
    have := ih (d + 1) (fun i hi e he1 he2 => hp i hi e (by omega) (by omega))
    rw [List.range'_succ]
    simp only [List.map_cons, parseRows, p0, p1, p2, this]

/-- what a successful parse says about the tokens -/
theorem parseRows_inv : ∀ (l0 l1 l2 : List String) (rows : List Nat × List Nat × List Nat),
    parseRows l0 l1 l2 = .ok rows → l0.length = l1.length → l1.length = l2.length →
    ∀ e, e < l0.length →
      parseU32 (l0.getD e "") = some (rows.1.getD e 0) ∧
      parseU32 (l1.getD e "") = some (rows.2.1.getD e 0) ∧
      parseU32 (l2.getD e "") = some (rows.2.2.getD e 0) := by
  intro l0
  induction l0 with
  | nil => intro _ _ _ _ _ _ e he; cases he
  | cons t0 r0 ih =>
    intro l1 l2 rows h h01 h12 e he
    match l1, l2, h01, h12 with
    | t1 :: r1, t2 :: r2, h01, h12 =>
      simp only [parseRows] at h
      cases p0 : parseU32 t0 with
      | none => simp [p0] at h
      | some b0 =>
        cases p1 : parseU32 t1 with
        | none => simp [p0, p1] at h
        | some b1 =>
          cases p2 : parseU32 t2 with
          | none => simp [p0, p1, p2] at h
          | some b2 =>
            cases pr : parseRows r0 r1 r2 with
            | error err => simp [p0, p1, p2, pr] at h
            | ok rows' =>
              simp only [p0, p1, p2, pr] at h
              injection h with h
              subst h
              cases e with
              | zero => simp [p0, p1, p2]
              | succ e =>
                have := ih r1 r2 rows' pr (by simpa using h01) (by simpa using h12) e (by simpa using he)
                simpa using this

theorem setLoop_ok (T : Nat → Nat → Nat) :
    ∀ (k d : Nat) (m : Map Val), Sized 3 m → d + k ≤ m.n →
      ∃ m', setLoop T (List.range' d k) m = .ok m' ∧
        Sized 3 m' ∧ m'.n = m.n ∧ m'.u = m.u ∧ m'.a = m.a ∧
        (∀ i e, m'.β i e = if i < 3 ∧ d ≤ e ∧ e < d + k then T i e else m.β i e) := by
  intro k
  induction k with
  | zero =>
    intro d m hs _
    refine ⟨m, by simp [setLoop], hs, rfl, rfl, rfl, ?_⟩
    intro i e
    have : ¬ (i < 3 ∧ d ≤ e ∧ e < d + 0) := by omega
    rw [if_neg this]
  | succ k ih =>
    intro d m hs hk
    have hd : d < m.n := by omega
    let m1 := ((m.setβ 0 d (T 0 d)).setβ 1 d (T 1 d)).setβ 2 d (T 2 d)
    have hs1 : Sized 3 m1 := sized_setβ (sized_setβ (sized_setβ hs _ _ _) _ _ _) _ _ _
    have hn1 : m1.n = m.n := rfl
    obtain ⟨m', hrun, hs', hn', hu', ha', hβ'⟩ := ih (d + 1) m1 hs1 (by rw [hn1]; omega)
    refine ⟨m', ?_, hs', hn'.trans hn1, hu'.trans rfl, ha'.trans rfl, ?_⟩
    · rw [List.range'_succ]
      simp only [setLoop, atomically_setBetas hs hd]
      exact hrun
    · intro i e
      rw [hβ' i e]
      have hm1 : m1.β i e = if i < 3 ∧ e = d then T i d else m.β i e :=
        β_setBetas hs hd (fun i => T i d) i e
      by_cases hi : i < 3
      · by_cases c1 : d + 1 ≤ e ∧ e < d + 1 + k
        · have c2 : d ≤ e ∧ e < d + (k + 1) := by omega
          simp [hi, c1, c2]
        · by_cases c3 : e = d
          · subst c3
            have c2 : e ≤ e ∧ e < e + (k + 1) := by omega
            simp [hi, c1, c2, hm1]
          · have c2 : ¬ (d ≤ e ∧ e < d + (k + 1)) := by omega
            simp [hi, c1, c2, hm1, c3]
      · simp [hi, hm1]

theorem isFree3 (m : Map Val) (d : Nat) :
    m.isFree 3 d = (decide (m.β 0 d = 0) && decide (m.β 1 d = 0) && decide (m.β 2 d = 0)) := by
  unfold Map.isFree
  have : List.range 3 = [0, 1, 2] := by decide
  rw [this]
  simp [List.all, Bool.and_assoc]

theorem removeFreeDart_ok {m : Map Val} (h : Sized 3 m) {d : Nat} (hd : d < m.n)
    (hf : m.isFree 3 d = true) (hu : m.unused d = false) :
    m.removeFreeDart 3 d = (.ok (), m.setU d true) := by
  have hok : m.okU d = true := okU_of_sized h hd
  unfold Map.removeFreeDart atomically removeFreeDartTx
  simp [hd, hf, hok, hu]

/-- `toks` are numerals denoting `ids` -/
inductive Parsed : List String → List Nat → Prop
  | nil : Parsed [] []
  | cons {t : String} {d : Nat} {ts : List String} {ds : List Nat} :
      parseU32 t = some d → Parsed ts ds → Parsed (t :: ts) (d :: ds)

theorem parsed_natTok : ∀ (ids : List Nat), (∀ d ∈ ids, d < u32Bound) → Parsed (ids.map natTok) ids
  | [], _ => .nil
  | d :: ds, h => .cons (parseU32_natTok (h d (by simp)))
      (parsed_natTok ds (fun e he => h e (by simp [he])))

/-- one iteration of the `[UNUSED]` loop: an error, or the flag is set on a free, existing,
    non-null, not yet removed dart.  Never a panic. -/
theorem unusedStep_cases {m : Map Val} (hs : Sized 3 m) (t : String) (ts : List String) :
    (∃ e, unusedLoop (t :: ts) m = .err e) ∨
    (∃ d, parseU32 t = some d ∧ d ≠ 0 ∧ d < m.n ∧ m.isFree 3 d = true ∧ m.unused d = false ∧
      unusedLoop (t :: ts) m = unusedLoop ts (m.setU d true)) := by
  simp only [unusedLoop]
  cases hp : parseU32 t with
  | none => exact .inl ⟨_, rfl⟩
  | some d =>
    simp only
    by_cases hg : (d = 0 || decide (m.n ≤ d) || !m.isFree 3 d || m.unused d) = true
    · rw [if_pos hg]; exact .inl ⟨_, rfl⟩
    · rw [if_neg hg]
      simp only [Bool.or_eq_true, decide_eq_true_eq, Bool.not_eq_true', not_or, Bool.not_eq_false,
        Bool.not_eq_true, Nat.not_le] at hg
      obtain ⟨⟨⟨h0, hn⟩, hf⟩, hu⟩ := hg
      refine .inr ⟨d, rfl, h0, hn, hf, hu, ?_⟩
      rw [removeFreeDart_ok hs hn hf hu]

/-- the `[UNUSED]` loop never panics; on success the flags are those of the named ids, each a
    free, existing, non-null dart -/
theorem unusedLoop_total : ∀ (toks : List String) (m : Map Val), Sized 3 m →
    (∃ e, unusedLoop toks m = .err e) ∨
    (∃ m', unusedLoop toks m = .ok m' ∧ Sized 3 m' ∧ m'.n = m.n ∧ m'.b = m.b ∧ m'.a = m.a ∧
      (∀ e, m'.unused e = (m.unused e || decide (e ∈ toks.map fun t => (parseU32 t).getD 0))) ∧
      (∀ e, m'.unused e = true → m.unused e = true ∨ (e ≠ 0 ∧ e < m.n ∧ m.isFree 3 e = true)) ∧
      (∀ t ∈ toks, (parseU32 t).isSome = true)) := by
  intro toks
  induction toks with
  | nil =>
    intro m hs
    exact .inr ⟨m, by simp [unusedLoop], hs, rfl, rfl, rfl, by simp, fun e he => .inl he, by simp⟩
  | cons t ts ih =>
    intro m hs
    rcases unusedStep_cases hs t ts with h | ⟨d, hp, h0, hn, hf, hu, hstep⟩
    · exact .inl h
    · rw [hstep]
      rcases ih (m.setU d true) (sized_setU hs d true) with h | ⟨m', hrun, hs', hn', hb', ha', hfl, hfr, hnum⟩
      · exact .inl h
      · refine .inr ⟨m', hrun, hs', hn'.trans rfl, hb'.trans rfl, ha'.trans rfl, ?_, ?_, ?_⟩
        · intro e
          rw [hfl e, Map.unused_setU]
          have hok : m.okU d = true := okU_of_sized hs hn
          simp only [List.map_cons, hp, Option.getD_some, List.mem_cons]
          by_cases he : d = e
          · subst he; simp [hok]
          · have : ¬ e = d := fun x => he x.symm
            simp [he, this]
        · intro e he
          rcases hfr e he with h1 | h1
          · rw [Map.unused_setU] at h1
            by_cases hde : d = e
            · subst hde; exact .inr ⟨h0, hn, hf⟩
            · simp [hde] at h1; exact .inl h1
          · exact .inr h1
        · intro t' ht'
          simp only [List.mem_cons] at ht'
          rcases ht' with rfl | ht'
          · rw [hp]; rfl
          · exact hnum t' ht'

/-- success form (C09): numerals of distinct, non-null, free, existing, not yet removed darts -/
theorem unusedLoop_ok : ∀ (toks : List String) (ids : List Nat) (m : Map Val),
    Parsed toks ids → ids.Nodup → Sized 3 m →
    (∀ d ∈ ids, d ≠ 0 ∧ d < m.n ∧ m.isFree 3 d = true ∧ m.unused d = false) →
    ∃ m', unusedLoop toks m = .ok m' ∧ Sized 3 m' ∧ m'.n = m.n ∧ m'.b = m.b ∧ m'.a = m.a ∧
      (∀ e, m'.unused e = (m.unused e || decide (e ∈ ids))) := by
  intro toks ids m hf
  induction hf generalizing m with
  | nil =>
    intro _ hs _
    exact ⟨m, by simp [unusedLoop], hs, rfl, rfl, rfl, by simp⟩
  | @cons t d ts ds htd _ ih =>
    intro hnd hs hall
    obtain ⟨hd0, hdn, hdf, hdu⟩ := hall d (by simp)
    have hnd' := List.nodup_cons.mp hnd
    let m1 := m.setU d true
    have hs1 : Sized 3 m1 := sized_setU hs d true
    have hall1 : ∀ d' ∈ ds, d' ≠ 0 ∧ d' < m1.n ∧ m1.isFree 3 d' = true ∧ m1.unused d' = false := by
      intro d' hd'
      obtain ⟨z, a, b, c⟩ := hall d' (by simp [hd'])
      refine ⟨z, a, b, ?_⟩
      show (m.setU d true).unused d' = false
      rw [Map.unused_setU]
      have : d ≠ d' := fun e => hnd'.1 (e ▸ hd')
      simp [this, c]
    obtain ⟨m', hrun, hs', hn', hb', ha', hu'⟩ := ih m1 hnd'.2 hs1 hall1
    refine ⟨m', ?_, hs', hn'.trans rfl, hb'.trans rfl, ha'.trans rfl, ?_⟩
    · have hg : (d = 0 || decide (m.n ≤ d) || !m.isFree 3 d || m.unused d) = false := by
        simp [hd0, hdf, hdu]; omega
      simp only [unusedLoop, htd, hg, removeFreeDart_ok hs hdn hdf hdu]
      exact hrun
    · intro e
      rw [hu' e]
      show ((m.setU d true).unused e || decide (e ∈ ds)) = (m.unused e || decide (e ∈ d :: ds))
      rw [Map.unused_setU]
      have hok : m.okU d = true := okU_of_sized hs hdn
      by_cases he : d = e
      · subst he; simp [hok]
      · have : ¬ e = d := fun x => he x.symm
        simp [he, this]

theorem okA0_of_sized {m : Map Val} (h : Sized 3 m) (h0 : 0 < m.a.size) {d : Nat} (hd : d < m.n) :
    m.okA 0 d = true := by
  unfold Map.okA
  have := h.asz 0 h0
  simp [h0]; omega

theorem atomically_forceWriteVertex {m : Map Val} (h : Sized 3 m) (h0 : 0 < m.a.size) {d : Nat}
    (hd : d < m.n) (v : Val) :
    atomically (forceWriteVertex d v) m = (.ok (m.att 0 d), m.setA 0 d (some v)) := by
  have hok : m.okA 0 d = true := okA0_of_sized h h0 hd
  unfold atomically forceWriteVertex
  simp [hok]

theorem size_a_setA (m : Map Val) (s d : Nat) (v : Option Val) : (m.setA s d v).a.size = m.a.size := by
  show (wr m.a s (wr (rd m.a s) d v)).size = m.a.size
  rw [size_wr]

theorem writeVertex_ok {m : Map Val} (h : Sized 3 m) (h0 : 0 < m.a.size) {d : Nat} (hd : d < m.n)
    (v : Val) : writeVertex d v m = .ok (m.setA 0 d (some v)) := by
  unfold writeVertex
  rw [atomically_forceWriteVertex h h0 hd]

/-- one `[VERTICES]` line: an error, or the value is written at the id of an existing, non-null,
    not removed dart.  Never a panic. -/
theorem vertexStep_cases {m : Map Val} (hs : Sized 3 m) (h0 : 0 < m.a.size) (l : Line) :
    (∃ e, vertexStep l m = .err e) ∨
    (∃ v, parseVertexLine l = .ok v ∧ v.1 ≠ 0 ∧ v.1 < m.n ∧ m.unused v.1 = false ∧
      vertexStep l m = .ok (m.setA 0 v.1 (some (.pt v.2.1 v.2.2 0)))) := by
  unfold vertexStep
  cases hp : parseVertexLine l with
  | error e => exact .inl ⟨_, rfl⟩
  | ok v =>
    simp only
    by_cases hg : (v.1 = 0 || decide (m.n ≤ v.1) || m.unused v.1) = true
    · rw [if_pos hg]; exact .inl ⟨_, rfl⟩
    · rw [if_neg hg]
      simp only [Bool.or_eq_true, decide_eq_true_eq, not_or, Bool.not_eq_true, Nat.not_le] at hg
      obtain ⟨⟨h1, h2⟩, h3⟩ := hg
      exact .inr ⟨v, rfl, h1, h2, h3, writeVertex_ok hs h0 h2 _⟩

/-- the slot function denoted by a list of vertex lines: the last line naming an id wins -/
def applyLine (l : Line) (F : Nat → Option Val) : Nat → Option Val :=
  match parseVertexLine l with
  | .ok v => fun e => if e = v.1 then some (.pt v.2.1 v.2.2 0) else F e
  | .error _ => F

def applyLines : List Line → (Nat → Option Val) → Nat → Option Val
  | [], F => F
  | l :: ls, F => applyLines ls (applyLine l F)

/-- the `[VERTICES]` loop never panics; on success the vertex storage is the text's (last line
    wins), nothing else changes -/
theorem verticesLoop_total : ∀ (ls : List Line) (m : Map Val), Sized 3 m → 0 < m.a.size →
    (∃ e, verticesLoop ls m = .err e) ∨
    (∃ m', verticesLoop ls m = .ok m' ∧ Sized 3 m' ∧ 0 < m'.a.size ∧ m'.n = m.n ∧ m'.b = m.b ∧
      m'.u = m.u ∧ (∀ e, m'.att 0 e = applyLines ls (m.att 0) e) ∧
      (∀ s e, s ≠ 0 → m'.att s e = m.att s e) ∧
      (∀ l ∈ ls, ∃ v, parseVertexLine l = .ok v ∧ v.1 ≠ 0 ∧ v.1 < m.n ∧ m.unused v.1 = false)) := by
  intro ls
  induction ls with
  | nil =>
    intro m hs h0
    exact .inr ⟨m, by simp [verticesLoop], hs, h0, rfl, rfl, rfl, fun _ => rfl, fun _ _ _ => rfl,
      by simp⟩
  | cons l ls ih =>
    intro m hs h0
    rcases vertexStep_cases hs h0 l with ⟨e, he⟩ | ⟨v, hp, h1, h2, h3, hstep⟩
    · exact .inl ⟨e, by simp only [verticesLoop, he]⟩
    · let m1 := m.setA 0 v.1 (some (.pt v.2.1 v.2.2 0))
      have hs1 : Sized 3 m1 := sized_setA hs _ _ _
      have h01 : 0 < m1.a.size := by rw [size_a_setA]; exact h0
      have hok : m.okA 0 v.1 = true := okA0_of_sized hs h0 h2
      rcases ih m1 hs1 h01 with ⟨e, he⟩ | ⟨m', hrun, hs', h0', hn', hb', hu', hatt, hoth, hall⟩
      · exact .inl ⟨e, by simp only [verticesLoop, hstep]; exact he⟩
      · refine .inr ⟨m', by simp only [verticesLoop, hstep]; exact hrun, hs', h0', hn'.trans rfl,
          hb'.trans rfl, hu'.trans rfl, ?_, ?_, ?_⟩
        · intro e
          rw [hatt e]
          show applyLines ls (m1.att 0) e = applyLines ls (applyLine l (m.att 0)) e
          have : m1.att 0 = applyLine l (m.att 0) := by
            funext x
            show (m.setA 0 v.1 (some (.pt v.2.1 v.2.2 0))).att 0 x = _
            rw [Map.att_setA]
            unfold applyLine
            rw [hp]
            by_cases hx : x = v.1
            · subst hx; simp [hok]
            · have : ¬ v.1 = x := fun h => hx h.symm
              simp [hx, this]
          rw [this]
        · intro s e hs0
          rw [hoth s e hs0]
          show (m.setA 0 v.1 _).att s e = m.att s e
          rw [Map.att_setA]
          have : ¬ 0 = s := fun h => hs0 h.symm
          simp [this]
        · intro l' hl'
          simp only [List.mem_cons] at hl'
          rcases hl' with rfl | hl'
          · exact ⟨v, hp, h1, h2, h3⟩
          · exact hall l' hl'

theorem parseVertexLine_ok {tid tx ty : String} {d : Nat} {x y : Rat} (p1 : parseU32 tid = some d)
    (p2 : parseCoord tx = some x) (p3 : parseCoord ty = some y) :
    parseVertexLine [tid, tx, ty] = .ok (d, x, y) := by
  simp [parseVertexLine, p1, p2, p3]

theorem vertexStep_ok {m : Map Val} (h : Sized 3 m) (h0 : 0 < m.a.size) {tid tx ty : String}
    {d : Nat} {x y : Rat} (hd0 : d ≠ 0) (hd : d < m.n) (hu : m.unused d = false)
    (p1 : parseU32 tid = some d) (p2 : parseCoord tx = some x) (p3 : parseCoord ty = some y) :
    vertexStep [tid, tx, ty] m = .ok (m.setA 0 d (some (.pt x y 0))) := by
  unfold vertexStep
  rw [parseVertexLine_ok p1 p2 p3]
  have hg : (d = 0 || decide (m.n ≤ d) || m.unused d) = false := by simp [hd0, hu]; omega
  simp only [hg]
  exact writeVertex_ok h h0 hd _

/-- success form (C09) -/
theorem verticesLoop_ok (gid gx gy : Nat → String) (fx fy : Nat → Rat) :
    ∀ (vs : List Nat) (m : Map Val), Sized 3 m → 0 < m.a.size → vs.Nodup →
      (∀ v ∈ vs, v ≠ 0 ∧ v < m.n ∧ m.unused v = false ∧ parseU32 (gid v) = some v ∧
        parseCoord (gx v) = some (fx v) ∧ parseCoord (gy v) = some (fy v)) →
      ∃ m', verticesLoop (vs.map fun v => [gid v, gx v, gy v]) m = .ok m' ∧ Sized 3 m' ∧
        0 < m'.a.size ∧ m'.n = m.n ∧ m'.b = m.b ∧ m'.u = m.u ∧
        (∀ s e, m'.att s e = if s = 0 ∧ e ∈ vs then some (.pt (fx e) (fy e) 0) else m.att s e) := by
  intro vs
  induction vs with
  | nil =>
    intro m hs h0 _ _
    exact ⟨m, by simp [verticesLoop], hs, h0, rfl, rfl, rfl, by simp⟩
  | cons v vs ih =>
    intro m hs h0 hnd hall
    obtain ⟨hv0, hv, hvu, p1, p2, p3⟩ := hall v (by simp)
    have hnd' := List.nodup_cons.mp hnd
    let m1 := m.setA 0 v (some (.pt (fx v) (fy v) 0))
    have hs1 : Sized 3 m1 := sized_setA hs _ _ _
    have h01 : 0 < m1.a.size := by rw [size_a_setA]; exact h0
    obtain ⟨m', hrun, hs', h0', hn', hb', hu', ha'⟩ := ih m1 hs1 h01 hnd'.2
      (fun w hw => hall w (by simp [hw]))
    refine ⟨m', ?_, hs', h0', hn'.trans rfl, hb'.trans rfl, hu'.trans rfl, ?_⟩
    · simp only [List.map_cons, verticesLoop, vertexStep_ok hs h0 hv0 hv hvu p1 p2 p3]
      exact hrun
    · intro s e
      rw [ha' s e]
      have hok : m.okA 0 v = true := okA0_of_sized hs h0 hv
      show (if s = 0 ∧ e ∈ vs then some (Val.pt (fx e) (fy e) 0)
        else (m.setA 0 v (some (.pt (fx v) (fy v) 0))).att s e) = _
      rw [Map.att_setA]
      by_cases hs0 : s = 0
      · subst hs0
        by_cases he : e ∈ vs
        · simp [he]
        · by_cases hev : v = e
          · subst hev; simp [he, hok]
          · have : ¬ e = v := fun x => hev x.symm
            simp [he, hev, this]
      · have : ¬ 0 = s := fun x => hs0 x.symm
        simp [hs0, this]

/-! ## D. the section parser on a serialization -/

/-- a content line as the serializer writes them: non-empty, no `#` anywhere, not starting
    with `[` -/
structure DataLine (l : Line) : Prop where
  ne : l ≠ []
  noHash : ∀ t ∈ l, NoHash t
  noBracket : (l.head?.bind fun t => t.toList.head?) ≠ some '['

theorem stripComment_noHash : ∀ (l : Line), (∀ t ∈ l, NoHash t) → stripComment l = l
  | [], _ => rfl
  | t :: ts, h => by
    have ht : t.toList.contains '#' = false := h t (by simp)
    simp only [stripComment, ht]
    rw [stripComment_noHash ts (fun e he => h e (by simp [he]))]
    simp

theorem head_ne_hash_of_noHash {t : String} (h : NoHash t) : (t.toList.head? = some '#') = False := by
  apply eq_false
  intro hh
  unfold NoHash at h
  cases hl : t.toList with
  | nil => rw [hl] at hh; simp at hh
  | cons c r =>
    rw [hl] at hh h
    simp at hh
    subst hh
    simp at h

theorem isHeader_false_of_dataLine {l : Line} (h : DataLine l) : isHeader l = false := by
  cases l with
  | nil => rfl
  | cons t ts =>
    have := h.noBracket
    simp only [List.head?_cons, Option.bind_some] at this
    simp [isHeader, this]

theorem stepLine_data {l : Line} (h : DataLine l) (secs : Secs) (s : Sec) :
    stepLine (secs, some s) l = .ok (secs.put s ((secs.sel s).getD [] ++ [l]), some s) := by
  cases l with
  | nil => exact absurd rfl h.ne
  | cons t ts =>
    have h1 := head_ne_hash_of_noHash (h.noHash t (by simp))
    have h2 := isHeader_false_of_dataLine h
    have h3 := stripComment_noHash (t :: ts) h.noHash
    simp only [stepLine, h1, h2, h3]
    simp

theorem parseLines_cons_ok {l : Line} {ls : List Line} {st st' : Secs × Option Sec}
    (h : stepLine st l = .ok st') : parseLines (l :: ls) st = parseLines ls st' := by
  simp only [parseLines, h]

theorem put_sel_self (secs : Secs) (s : Sec) (old : List Line) (h : secs.sel s = some old) :
    secs.put s old = secs := by
  cases s <;> cases secs <;> simp_all [Secs.put, Secs.sel]

theorem sel_put_same (secs : Secs) (s : Sec) (v : List Line) : (secs.put s v).sel s = some v := by
  cases s <;> rfl

theorem put_put (secs : Secs) (s : Sec) (v w : List Line) : (secs.put s v).put s w = secs.put s w := by
  cases s <;> rfl

theorem parseLines_data : ∀ (ls : List Line) (secs : Secs) (s : Sec) (old : List Line),
    (∀ l ∈ ls, DataLine l) → secs.sel s = some old →
    parseLines ls (secs, some s) = .ok (secs.put s (old ++ ls))
  | [], secs, s, old, _, h => by
    simp only [parseLines, List.append_nil]
    rw [put_sel_self secs s old h]
  | l :: ls, secs, s, old, hd, h => by
    rw [parseLines_cons_ok (stepLine_data (hd l (by simp)) secs s)]
    rw [parseLines_data ls _ s (old ++ [l]) (fun e he => hd e (by simp [he])) (by rw [h]; exact sel_put_same _ _ _)]
    rw [h, put_put]
    simp

theorem dataLine_betaLine (m : Map Val) (i : Nat) (hn : 0 < m.n) : DataLine (betaLine m i) := by
  have hr : List.range m.n = 0 :: (List.range' 1 (m.n - 1)) := by
    rw [List.range_eq_range']
    have : m.n = (m.n - 1) + 1 := by omega
    rw (occs := [1]) [this, List.range'_succ]
  refine ⟨?_, ?_, ?_⟩
  · unfold betaLine; rw [hr]; simp
  · intro t ht
    unfold betaLine at ht
    obtain ⟨d, _, rfl⟩ := List.mem_map.mp ht
    exact natTok_noHash _
  · unfold betaLine; rw [hr]
    simp only [List.map_cons, List.head?_cons, Option.bind_some]
    obtain ⟨c, hc, hd⟩ := natTok_head (m.β i 0)
    rw [hc]
    intro e
    injection e with e
    subst e
    simp [Char.isDigit] at hd

theorem dataLine_numerals (ids : List Nat) (h : ids ≠ []) : DataLine (ids.map natTok) := by
  cases ids with
  | nil => exact absurd rfl h
  | cons d ds =>
    refine ⟨by simp, ?_, ?_⟩
    · intro t ht
      obtain ⟨e, _, rfl⟩ := List.mem_map.mp ht
      exact natTok_noHash _
    · simp only [List.map_cons, List.head?_cons, Option.bind_some]
      obtain ⟨c, hc, hd⟩ := natTok_head d
      rw [hc]
      intro e
      injection e with e
      subst e
      simp [Char.isDigit] at hd

/-- version token: no `#`, does not start with `[` -/
structure PlainVer (ver : String) : Prop where
  noHash : NoHash ver
  noBracket : ver.toList.head? ≠ some '['

theorem dataLine_meta {ver : String} (hv : PlainVer ver) (k : Nat) : DataLine [ver, "2", natTok k] := by
  refine ⟨by simp, ?_, ?_⟩
  · intro t ht
    simp only [List.mem_cons, List.not_mem_nil, or_false] at ht
    rcases ht with rfl | rfl | rfl
    · exact hv.noHash
    · show ("2".toList.contains '#') = false
      decide
    · exact natTok_noHash _
  · simpa using hv.noBracket

theorem stepLine_blank (st : Secs × Option Sec) : stepLine st [] = .ok st := rfl

theorem stepLine_header {t : String} {s : Sec} (h1 : (t.toList.head? = some '#') = False)
    (h2 : isHeader [t] = true) (h3 : secOfName (sectionName [t]) = some s) (secs : Secs)
    (cur : Option Sec) (h4 : secs.sel s = none) :
    stepLine (secs, cur) [t] = .ok (secs.put s [], some s) := by
  simp only [stepLine, h1, h2, h3, h4]
  simp

/-- `CMapFile::try_from` on the lines `serialize` writes (any data lines `V` in the last section) -/
theorem parseFile_serialize {ver : String} (hv : PlainVer ver) (m : Map Val) (hn : 0 < m.n)
    (hnd : m.n - 1 < usizeBound) (V : List Line) (hV : ∀ l ∈ V, DataLine l) :
    parseFile ([["[META]"], [ver, "2", natTok (m.n - 1)], [], ["[BETAS]"], betaLine m 0,
        betaLine m 1, betaLine m 2, [], ["[UNUSED]"], unusedLine m, [], ["[VERTICES]"]] ++ V) =
      .ok { version := ver, dim := 2, nd := m.n - 1,
            betas := [betaLine m 0, betaLine m 1, betaLine m 2],
            unused := some (if unusedLine m = [] then [] else [unusedLine m]),
            vertices := some V } := by
  -- the twelve fixed lines, one step each
  let s0 : Secs := {}
  have e1 : stepLine (s0, none) ["[META]"] = .ok (s0.put .smeta [], some .smeta) :=
    stepLine_header (by decide) (by decide) (by decide) _ _ rfl
  let s1 := s0.put .smeta []
  have e2 := stepLine_data (dataLine_meta hv (m.n - 1)) s1 .smeta
  let s2 := s1.put .smeta ((s1.sel .smeta).getD [] ++ [[ver, "2", natTok (m.n - 1)]])
  have e3 : stepLine (s2, some .smeta) ["[BETAS]"] = .ok (s2.put .sbetas [], some .sbetas) :=
    stepLine_header (by decide) (by decide) (by decide) _ _ rfl
  let s3 := s2.put .sbetas []
  have e4 := stepLine_data (dataLine_betaLine m 0 hn) s3 .sbetas
  let s4 := s3.put .sbetas ((s3.sel .sbetas).getD [] ++ [betaLine m 0])
  have e5 := stepLine_data (dataLine_betaLine m 1 hn) s4 .sbetas
  let s5 := s4.put .sbetas ((s4.sel .sbetas).getD [] ++ [betaLine m 1])
  have e6 := stepLine_data (dataLine_betaLine m 2 hn) s5 .sbetas
  let s6 := s5.put .sbetas ((s5.sel .sbetas).getD [] ++ [betaLine m 2])
  have e7 : stepLine (s6, some .sbetas) ["[UNUSED]"] = .ok (s6.put .sunused [], some .sunused) :=
    stepLine_header (by decide) (by decide) (by decide) _ _ rfl
  let s7 := s6.put .sunused []
  let s8 : Secs := if unusedLine m = [] then s7 else s7.put .sunused [unusedLine m]
  have e8 : stepLine (s7, some .sunused) (unusedLine m) = .ok (s8, some .sunused) := by
    by_cases hU : unusedLine m = []
    · simp only [s8, hU, if_true]; rfl
    · simp only [s8, hU, if_false]
      have hd : DataLine (unusedLine m) := by
        unfold unusedLine at hU ⊢
        exact dataLine_numerals _ (by intro e; rw [e] at hU; exact hU rfl)
      rw [stepLine_data hd s7 .sunused]
      rfl
  have e9 : stepLine (s8, some .sunused) ["[VERTICES]"] = .ok (s8.put .sverts [], some .sverts) := by
    refine stepLine_header (by decide) (by decide) (by decide) _ _ ?_
    simp only [s8]
    split <;> rfl
  let s9 := s8.put .sverts []
  have e10 : parseLines V (s9, some .sverts) = .ok (s9.put .sverts ([] ++ V)) :=
    parseLines_data V s9 .sverts [] hV (sel_put_same _ _ _)
  unfold parseFile
  simp only [List.cons_append, List.nil_append]
  rw [parseLines_cons_ok e1, parseLines_cons_ok e2, parseLines_cons_ok (stepLine_blank _),
    parseLines_cons_ok e3, parseLines_cons_ok e4, parseLines_cons_ok e5, parseLines_cons_ok e6,
    parseLines_cons_ok (stepLine_blank _), parseLines_cons_ok e7, parseLines_cons_ok e8,
    parseLines_cons_ok (stepLine_blank _), parseLines_cons_ok e9, e10]
  have hm : parseUsize (natTok (m.n - 1)) = some (m.n - 1) := parseUsize_natTok hnd
  have h2 : parseUsize "2" = some 2 := by decide
  by_cases hU : unusedLine m = []
  · simp [s9, s8, s7, s6, s5, s4, s3, s2, s1, s0, hU, Secs.put, Secs.sel, parseMeta, hm, h2]
  · simp [s9, s8, s7, s6, s5, s4, s3, s2, s1, s0, hU, Secs.put, Secs.sel, parseMeta, hm, h2]

/-! ## E. `iter_vertices` depends on the β rows and the removal flags only -/

/-- programs that only read β variables -/
inductive ReadsB {α : Type} : P Val α → Prop
  | ret (a : α) : ReadsB (.ret a)
  | read (i d : Nat) (k : MVal Val → P Val α) : (∀ x, ReadsB (k x)) → ReadsB (.read (.b i d) k)
  | panic : ReadsB .panic

theorem ReadsB.bind {α β : Type} {p : P Val α} {f : α → P Val β} (hp : ReadsB p)
    (hf : ∀ a, ReadsB (f a)) : ReadsB (p.bind f) := by
  induction hp with
  | ret a => exact hf a
  | read i d k _ ih => exact .read i d _ ih
  | panic => exact .panic

theorem readsB_rB (i d : Nat) : ReadsB (rB i d : P Val Nat) := .read i d _ (fun _ => .ret _)

/-- same β images and same index ranges -/
structure SameB (m m' : Map Val) : Prop where
  β : ∀ i d, m.β i d = m'.β i d
  ok : ∀ i d, m.okβ i d = m'.okβ i d

theorem run_readsB {α : Type} {p : P Val α} (hp : ReadsB p) {m m' : Map Val} (h : SameB m m') :
    (run p m).1 = (run p m').1 := by
  induction hp with
  | ret a => rfl
  | read i d k _ ih =>
    show (if m.okβ i d then run (k (.n (m.β i d))) m else (Out.panic, m)).1 =
      (if m'.okβ i d then run (k (.n (m'.β i d))) m' else (Out.panic, m')).1
    rw [h.β i d, h.ok i d]
    split
    · exact ih _
    · rfl
  | panic => rfl

theorem readsB_gen2_vertex (d : Nat) : ReadsB (gen2 .vertex d : P Val (List Nat)) := by
  unfold gen2
  simp only [Prog.bind_eq, Prog.pure_eq]
  refine .bind (readsB_rB _ _) fun _ => .bind (readsB_rB _ _) fun _ => .bind (readsB_rB _ _) fun _ =>
    .bind (readsB_rB _ _) fun _ => .ret _

theorem readsB_bfs {gen : Nat → P Val (List Nat)} (hg : ∀ d, ReadsB (gen d)) :
    ∀ (fuel : Nat) (pending marked out : List Nat), ReadsB (bfs gen fuel pending marked out)
  | 0, _, _, _ => by unfold bfs; exact .ret _
  | _ + 1, [], _, _ => by unfold bfs; exact .ret _
  | f + 1, d :: rest, marked, out => by
    unfold bfs
    simp only [Prog.bind_eq]
    exact .bind (hg d) fun _ => readsB_bfs hg f _ _ _

theorem readsB_vertexId2 (n d : Nat) : ReadsB (vertexId2 n d : P Val Nat) := by
  unfold vertexId2 orbitWith
  simp only [Prog.bind_eq, Prog.pure_eq]
  exact .bind (readsB_bfs readsB_gen2_vertex _ _ _ _) fun _ => .ret _

theorem iterVertices2_congr {m m' : Map Val} (hn : m'.n = m.n) (hb : SameB m m')
    (hu : ∀ d, m'.unused d = m.unused d) : iterVertices2 m' = iterVertices2 m := by
  unfold iterVertices2 iterCells
  rw [hn]
  apply List.filter_congr
  intro d _
  rw [hu d]
  have := run_readsB (readsB_vertexId2 m.n d) hb
  unfold okVal
  rw [this]

/-! ## F. auxiliary facts for the round trip -/

theorem okβ_sized {m : Map Val} (h : Sized 3 m) (i d : Nat) :
    m.okβ i d = decide (i < 3 ∧ d < m.n) := by
  unfold Map.okβ
  by_cases hi : i < 3
  · simp [h.rows, hi, h.row i hi]
  · simp [h.rows, hi]

theorem β_oob {m : Map Val} (h : Sized 3 m) {i d : Nat} (ho : ¬ (i < 3 ∧ d < m.n)) : m.β i d = 0 := by
  unfold Map.β
  by_cases hi : i < 3
  · have hd : ¬ d < m.n := fun x => ho ⟨hi, x⟩
    rw [rd_oob (rd m.b i) d (by rw [h.row i hi]; omega)]; rfl
  · rw [rd_oob m.b i (by rw [h.rows]; omega)]
    rw [rd_oob]; rfl
    show (#[] : Array Nat).size ≤ d
    simp

theorem unused_oob {m : Map Val} (h : Sized 3 m) {d : Nat} (ho : ¬ d < m.n) : m.unused d = false := by
  unfold Map.unused
  rw [rd_oob m.u d (by rw [h.usz]; omega)]; rfl

theorem sameB_of_sized {m m' : Map Val} (h : Sized 3 m) (h' : Sized 3 m') (hn : m'.n = m.n)
    (hβ : ∀ i, i < 3 → ∀ d, d < m.n → m'.β i d = m.β i d) : SameB m m' := by
  constructor
  · intro i d
    by_cases hc : i < 3 ∧ d < m.n
    · exact (hβ i hc.1 d hc.2).symm
    · rw [β_oob h hc, β_oob h' (by rw [hn]; exact hc)]
  · intro i d
    rw [okβ_sized h, okβ_sized h', hn]

theorem att_empty (ns n s d : Nat) : (Map.empty 3 ns n : Map Val).att s d = none := by
  unfold Map.att
  show rd (rd ((Array.replicate ns (Array.replicate (n + 1) none)).setIfInBounds 0
      (Array.replicate n none)) s) d = none
  have := rd_wr (Array.replicate ns (Array.replicate (n + 1) (none : Option Val))) 0 s
      (Array.replicate n none)
  unfold wr at this
  rw [this]
  split
  · by_cases hd : d < n
    · rw [rd_replicate _ _ _ hd]
    · rw [rd_oob]; rfl
      simp; omega
  · by_cases hs : s < ns
    · rw [rd_replicate _ _ _ hs]
      by_cases hd : d < n + 1
      · rw [rd_replicate _ _ _ hd]
      · rw [rd_oob]; rfl
        simp; omega
    · rw [rd_oob (Array.replicate ns (Array.replicate (n + 1) (none : Option Val))) s (by simp; omega)]
      rw [rd_oob]; rfl
      show (#[] : Array (Option Val)).size ≤ d
      simp

theorem size_a_empty (ns n : Nat) : (Map.empty 3 ns n : Map Val).a.size = ns := by
  simp [Map.empty]

theorem length_betaLine (m : Map Val) (i : Nat) : (betaLine m i).length = m.n := by
  simp [betaLine]

theorem drop_betaLine (m : Map Val) (i : Nat) :
    (betaLine m i).drop 1 = (List.range' 1 (m.n - 1)).map (fun d => natTok (m.β i d)) := by
  unfold betaLine
  rw [← List.map_drop, List.range_eq_range', List.drop_range']

theorem mem_iterVertices2_lt {m : Map Val} {v : Nat} (h : v ∈ iterVertices2 m) : v < m.n := by
  unfold iterVertices2 iterCells at h
  exact List.mem_range.mp (List.mem_filter.mp h).1

theorem nodup_iterVertices2 (m : Map Val) : (iterVertices2 m).Nodup := by
  unfold iterVertices2 iterCells
  exact List.Nodup.sublist List.filter_sublist List.nodup_range

theorem filterMap_congr' {α β : Type} {f g : α → Option β} : ∀ (l : List α),
    (∀ a ∈ l, f a = g a) → l.filterMap f = l.filterMap g
  | [], _ => rfl
  | a :: l, h => by
    rw [List.filterMap_cons, List.filterMap_cons, h a (by simp),
      filterMap_congr' l (fun b hb => h b (by simp [hb]))]

/-- `build` from the results of its stages -/
theorem build_of_stages {ns : Nat} {cf : CFile} {l0 l1 l2 : Line}
    {rows : List Nat × List Nat × List Nat} {m1 m2 m3 : Map Val}
    (hd : cf.dim = 2) (hb : cf.betas = [l0, l1, l2]) (h0 : l0.length = cf.nd + 1)
    (h1 : l1.length = cf.nd + 1) (h2 : l2.length = cf.nd + 1)
    (hr : parseRows l0 l1 l2 = .ok rows) (hnull : nullOK (tbl rows) = true)
    (hrange : rangeOK (tbl rows) (cf.nd + 1) = true)
    (hchk : (List.range' 1 cf.nd).findSome? (dartCheck (tbl rows)) = none)
    (r1 : setLoop (tbl rows) (List.range' 1 cf.nd) (Map.empty 3 ns (cf.nd + 1)) = .ok m1)
    (r2 : unusedLoop ((cf.unused.getD []).flatten) m1 = .ok m2)
    (r3 : verticesLoop (cf.vertices.getD []) m2 = .ok m3) : build ns cf = .ok m3 := by
  unfold build
  rw [if_neg (by rw [hd]; exact fun h => h rfl)]
  simp only [hb]
  rw [if_neg (by rw [h0]; exact fun h => h rfl), if_neg (by rw [h1]; exact fun h => h rfl),
    if_neg (by rw [h2]; exact fun h => h rfl)]
  simp only [hr, buildRows, buildMap, hnull, hrange, hchk, r1, r2, r3, Bool.not_true,
    Bool.false_eq_true, if_false]

/-! ## G. facts used by the validator soundness (C10) -/

theorem drop1_eq_map (l : List String) :
    l.drop 1 = (List.range' 1 (l.length - 1)).map (fun e => l.getD e "") := by
  apply List.ext_getElem
  · simp
  · intro k h1 h2
    simp only [List.getElem_drop, List.getElem_map, List.getElem_range']
    have hk : 1 + k < l.length := by simp at h1; omega
    simp [List.getD_eq_getElem?_getD, hk]

/-! ## H. the exact-rational coordinate text reads back as the same rational -/

/-- characters of `toString (i : Int)` -/
def intChars : Int → List Char
  | .ofNat m => Nat.toDigits 10 m
  | .negSucc m => '-' :: Nat.toDigits 10 (m + 1)

theorem toList_toString_int (i : Int) : (toString i).toList = intChars i := by
  cases i with
  | ofNat m => show (Nat.repr m).toList = _; rw [Nat.toList_repr]; rfl
  | negSucc m =>
    show ("-" ++ Nat.repr (m + 1)).toList = _
    rw [String.toList_append, Nat.toList_repr]; rfl

theorem toList_ratStr (q : Rat) : (ratStr q).toList =
    if q.den = 1 then intChars q.num else intChars q.num ++ '/' :: Nat.toDigits 10 q.den := by
  unfold ratStr
  split
  · exact toList_toString_int _
  · show (toString q.num ++ toString "/" ++ toString q.den).toList = _
    rw [String.toList_append, String.toList_append, toList_toString_int]
    show intChars q.num ++ "/".toList ++ (Nat.repr q.den).toList = _
    rw [Nat.toList_repr]
    simp

theorem digit_of_mem_toDigits {c : Char} {n : Nat} (h : c ∈ Nat.toDigits 10 n) : c.isDigit = true :=
  Nat.isDigit_of_mem_toDigits (b := 10) (by decide) (by decide) h

theorem splitAt1_none {p : Char → Bool} : ∀ (l : List Char), (∀ c ∈ l, p c = false) →
    splitAt1 p l = (l, none)
  | [], _ => rfl
  | c :: l, h => by
    simp only [splitAt1, h c (by simp)]
    rw [splitAt1_none l (fun d hd => h d (by simp [hd]))]
    simp

theorem splitAt1_append {p : Char → Bool} {x : Char} (hx : p x = true) : ∀ (l r : List Char),
    (∀ c ∈ l, p c = false) → splitAt1 p (l ++ x :: r) = (l, some r)
  | [], r, _ => by simp [splitAt1, hx]
  | c :: l, r, h => by
    simp only [List.cons_append, splitAt1, h c (by simp)]
    rw [splitAt1_append hx l r (fun d hd => h d (by simp [hd]))]
    simp


theorem splitSign_digit {c : Char} {r : List Char} (h : c.isDigit = true) :
    splitSign (c :: r) = (false, c :: r) := by
  have h1 : c ≠ '+' := by intro e; subst e; simp [Char.isDigit] at h
  have h2 : c ≠ '-' := by intro e; subst e; simp [Char.isDigit] at h
  unfold splitSign
  split
  · rename_i heq; injection heq with a b; exact absurd a h1
  · rename_i heq; injection heq with a b; exact absurd a h2
  · rfl

theorem splitMinus_digit {c : Char} {r : List Char} (h : c.isDigit = true) :
    splitMinus (c :: r) = (false, c :: r) := by
  have h2 : c ≠ '-' := by intro e; subst e; simp [Char.isDigit] at h
  unfold splitMinus
  split
  · rename_i heq; injection heq with a b; exact absurd a h2
  · rfl

/-- digit strings: non-empty, all digits -/
structure Digits (ds : List Char) : Prop where
  ne : ds ≠ []
  all : ∀ c ∈ ds, c.isDigit = true

theorem digits_toDigits (n : Nat) : Digits (Nat.toDigits 10 n) :=
  ⟨Nat.toDigits_ne_nil, fun _ h => digit_of_mem_toDigits h⟩

theorem Digits.allDigits {ds : List Char} (h : Digits ds) : allDigits ds = true := by
  unfold CmapText.allDigits
  rw [List.all_eq_true]
  exact h.all

theorem Digits.splitSign {ds : List Char} (h : Digits ds) : splitSign ds = (false, ds) := by
  cases ds with
  | nil => exact absurd rfl h.ne
  | cons c r => exact splitSign_digit (h.all c (by simp))

theorem Digits.splitMinus {ds : List Char} (h : Digits ds) : splitMinus ds = (false, ds) := by
  cases ds with
  | nil => exact absurd rfl h.ne
  | cons c r => exact splitMinus_digit (h.all c (by simp))

theorem Digits.not_p {ds : List Char} (h : Digits ds) (p : Char → Bool)
    (hp : ∀ c, c.isDigit = true → p c = false) : ∀ c ∈ ds, p c = false :=
  fun c hc => hp c (h.all c hc)

theorem isDigit_not_e (c : Char) (h : c.isDigit = true) : (decide (c = 'e') || decide (c = 'E')) = false := by
  have h1 : c ≠ 'e' := by intro e; subst e; simp [Char.isDigit] at h
  have h2 : c ≠ 'E' := by intro e; subst e; simp [Char.isDigit] at h
  simp [h1, h2]

theorem isDigit_not_dot (c : Char) (h : c.isDigit = true) : decide (c = '.') = false := by
  have h1 : c ≠ '.' := by intro e; subst e; simp [Char.isDigit] at h
  simp [h1]

theorem isDigit_not_slash (c : Char) (h : c.isDigit = true) : decide (c = '/') = false := by
  have h1 : c ≠ '/' := by intro e; subst e; simp [Char.isDigit] at h
  simp [h1]

/-- an integer numeral (`-`? digits) is read by the decimal grammar as that integer -/
theorem parseDecimal_digits {ds : List Char} (h : Digits ds) (neg : Bool)
    (cs : List Char) (hcs : splitSign cs = (neg, ds)) :
    parseDecimal cs = some (mkRat (if neg then -(digitsVal ds : Int) else (digitsVal ds : Int)) 1) := by
  unfold parseDecimal
  simp only [hcs]
  rw [splitAt1_none ds (h.not_p _ isDigit_not_e)]
  simp only
  rw [splitAt1_none ds (h.not_p _ isDigit_not_dot)]
  have hne : ds.isEmpty = false := by cases ds with | nil => exact absurd rfl h.ne | cons _ _ => rfl
  simp [hne, CmapText.allDigits]
  exact h.all


theorem digitsVal_toDigits (n : Nat) : digitsVal (Nat.toDigits 10 n) = n := by
  unfold digitsVal; exact Nat.ofDigitChars_ten_toDigits

theorem splitSign_intChars (i : Int) :
    splitSign (intChars i) = (decide (i < 0), Nat.toDigits 10 i.natAbs) := by
  cases i with
  | ofNat m =>
    show splitSign (Nat.toDigits 10 m) = _
    rw [(digits_toDigits m).splitSign]
    simp
  | negSucc m =>
    show splitSign ('-' :: Nat.toDigits 10 (m + 1)) = _
    simp [splitSign, Int.negSucc_lt_zero]

theorem splitMinus_intChars (i : Int) :
    splitMinus (intChars i) = (decide (i < 0), Nat.toDigits 10 i.natAbs) := by
  cases i with
  | ofNat m =>
    show splitMinus (Nat.toDigits 10 m) = _
    rw [(digits_toDigits m).splitMinus]
    simp
  | negSucc m =>
    show splitMinus ('-' :: Nat.toDigits 10 (m + 1)) = _
    simp [splitMinus, Int.negSucc_lt_zero]

theorem signed_natAbs (i : Int) : (if decide (i < 0) = true then -(i.natAbs : Int) else (i.natAbs : Int)) = i := by
  by_cases h : i < 0
  · simp [h]; omega
  · simp [h]; omega

theorem slash_not_mem_intChars (i : Int) : ∀ c ∈ intChars i, decide (c = '/') = false := by
  intro c hc
  cases i with
  | ofNat m => exact isDigit_not_slash c (digit_of_mem_toDigits hc)
  | negSucc m =>
    simp only [intChars, List.mem_cons] at hc
    rcases hc with rfl | hc
    · decide
    · exact isDigit_not_slash c (digit_of_mem_toDigits hc)

theorem length_toDigits_le18 {n : Nat} (h : n < 10 ^ 18) : (Nat.toDigits 10 n).length ≤ 18 :=
  (Nat.length_toDigits_le_iff (by decide) (by decide)).mpr h

/-- **coordinate round trip**: the exact-rational text of `q` is read back as `q`, for every
    rational whose numerator and denominator have at most 18 digits -/
theorem parseCoord_ratStr (q : Rat) (hn : q.num.natAbs < 10 ^ 18) (hd : q.den < 10 ^ 18) :
    parseCoord (ratStr q) = some q := by
  unfold parseCoord
  rw [toList_ratStr]
  by_cases h1 : q.den = 1
  · simp only [h1, if_true]
    have hc : (intChars q.num).contains '/' = false := by
      rw [Bool.eq_false_iff]
      intro h
      have := slash_not_mem_intChars q.num '/' (List.contains_iff_mem.mp h)
      simp at this
    simp only [hc]
    rw [parseDecimal_digits (digits_toDigits q.num.natAbs) _ _ (splitSign_intChars q.num)]
    rw [digitsVal_toDigits, signed_natAbs]
    have := Rat.mkRat_self q
    rw [h1] at this
    simp [this]
  · simp only [h1, if_false]
    have hc : (intChars q.num ++ '/' :: Nat.toDigits 10 q.den).contains '/' = true := by
      apply List.contains_iff_mem.mpr; simp
    simp only [hc, if_true]
    unfold parseRatio
    rw [splitAt1_append (by decide) _ _ (slash_not_mem_intChars q.num)]
    simp only [splitMinus_intChars]
    have da := digits_toDigits q.num.natAbs
    have db := digits_toDigits q.den
    have ea : (Nat.toDigits 10 q.num.natAbs).isEmpty = false := by
      cases h : Nat.toDigits 10 q.num.natAbs with
      | nil => exact absurd h da.ne
      | cons _ _ => rfl
    have eb : (Nat.toDigits 10 q.den).isEmpty = false := by
      cases h : Nat.toDigits 10 q.den with
      | nil => exact absurd h db.ne
      | cons _ _ => rfl
    have la : ¬ 18 < (Nat.toDigits 10 q.num.natAbs).length := by have := length_toDigits_le18 hn; omega
    have lb : ¬ 18 < (Nat.toDigits 10 q.den).length := by have := length_toDigits_le18 hd; omega
    simp only [ea, eb, da.allDigits, db.allDigits, la, lb, digitsVal_toDigits, q.den_nz, signed_natAbs,
      Bool.not_true, Bool.or_false, decide_false, Bool.false_eq_true, if_false, Rat.mkRat_self]

theorem noHash_ratStr (q : Rat) : NoHash (ratStr q) := by
  unfold NoHash
  rw [toList_ratStr, Bool.eq_false_iff]
  intro h
  have hm : ∀ c ∈ intChars q.num, c ≠ '#' := by
    intro c hc e
    subst e
    cases hq : q.num with
    | ofNat m => rw [hq] at hc; have := digit_of_mem_toDigits hc; simp [Char.isDigit] at this
    | negSucc m =>
      rw [hq] at hc
      simp only [intChars, List.mem_cons] at hc
      rcases hc with hc | hc
      · cases hc
      · have := digit_of_mem_toDigits hc; simp [Char.isDigit] at this
  split at h
  · exact hm _ (List.contains_iff_mem.mp h) rfl
  · have := List.contains_iff_mem.mp h
    simp only [List.mem_append, List.mem_cons] at this
    rcases this with h1 | h1 | h1
    · exact hm _ h1 rfl
    · cases h1
    · have := digit_of_mem_toDigits h1; simp [Char.isDigit] at this


end CmapText
end HC
