/-
  Lemmas about the character-level cmap model (`Model/CmapChars.lean`): blanks, tokens and
  lines; the characters written by `serializeChars` tokenise to the token lines of `serializeF`;
  the character-level section parser `parseFileC` is `parseFile ∘ tokenise`.

  Self-contained (imports the models and `Lemmas/CmapText.lean`; core + Std).
-/
import Honeycomb.Model.CmapChars
import Honeycomb.Lemmas.CmapText

namespace HC
namespace CmapText

/-! ## 1. `split_whitespace` -/

/-- the list starts with a non-blank character -/
def startsTok : List Char → Bool
  | [] => false
  | c :: _ => !isWs c

/-- a token: non-empty, blank-free -/
structure TokChars (t : List Char) : Prop where
  ne : t ≠ []
  noWs : ∀ c ∈ t, isWs c = false

theorem splitGo_cons (c : Char) (cs : List Char) :
    splitGo (c :: cs) =
      if isWs c then ((splitGo cs).1, false)
      else if (splitGo cs).2 then (pushChar c (splitGo cs).1, true)
      else ([c] :: (splitGo cs).1, true) := by
  rw [splitGo]

theorem linesOf_cons (c : Char) (cs : List Char) :
    linesOf (c :: cs) =
      if c = '\n' then [] :: linesOf cs else pushChar c (linesOf cs) := by
  rw [linesOf]

theorem splitGo_snd : ∀ (cs : List Char), (splitGo cs).2 = startsTok cs
  | [] => rfl
  | c :: cs => by
    rw [splitGo_cons]
    unfold startsTok
    by_cases h : isWs c = true
    · simp [h]
    · have h' : isWs c = false := by simpa using h
      simp only [h', Bool.false_eq_true, if_false, Bool.not_false]
      split <;> rfl

theorem splitWs_nil : splitWs [] = [] := rfl

theorem splitWs_ws_cons {c : Char} (h : isWs c = true) (cs : List Char) :
    splitWs (c :: cs) = splitWs cs := by
  unfold splitWs
  rw [splitGo_cons]
  simp [h]

theorem splitWs_ws_append : ∀ (ws cs : List Char), (∀ c ∈ ws, isWs c = true) →
    splitWs (ws ++ cs) = splitWs cs
  | [], _, _ => rfl
  | w :: ws, cs, h => by
    rw [List.cons_append, splitWs_ws_cons (h w (by simp)),
      splitWs_ws_append ws cs (fun c hc => h c (by simp [hc]))]

/-- a token followed by a blank or the end -/
theorem splitGo_tok : ∀ (t rest : List Char), TokChars t → startsTok rest = false →
    splitGo (t ++ rest) = (t :: splitWs rest, true)
  | [], _, h, _ => absurd rfl h.ne
  | [c], rest, h, hr => by
    have hc : isWs c = false := h.noWs c (by simp)
    have h2 : (splitGo rest).2 = false := by rw [splitGo_snd]; exact hr
    show splitGo (c :: rest) = _
    rw [splitGo_cons]
    simp [hc, h2, splitWs]
  | c :: c' :: t, rest, h, hr => by
    have hc : isWs c = false := h.noWs c (by simp)
    have ih := splitGo_tok (c' :: t) rest ⟨by simp, fun x hx => h.noWs x (by simp [hx])⟩ hr
    show splitGo (c :: ((c' :: t) ++ rest)) = _
    rw [splitGo_cons, ih]
    simp [hc, pushChar]

theorem splitWs_tok (t rest : List Char) (h : TokChars t) (hr : startsTok rest = false) :
    splitWs (t ++ rest) = t :: splitWs rest := by
  show (splitGo (t ++ rest)).1 = _
  rw [splitGo_tok t rest h hr]

theorem splitGo_allWs : ∀ (ws : List Char), (∀ c ∈ ws, isWs c = true) → splitGo ws = ([], false)
  | [], _ => rfl
  | w :: ws, h => by
    rw [splitGo_cons]
    simp [h w (by simp), splitGo_allWs ws (fun c hc => h c (by simp [hc]))]

/-- trailing blanks do not matter -/
theorem splitGo_append_ws (ws : List Char) (h : ∀ c ∈ ws, isWs c = true) :
    ∀ (cs : List Char), splitGo (cs ++ ws) = splitGo cs
  | [] => by rw [List.nil_append, splitGo_allWs ws h]; rfl
  | c :: cs => by
    show splitGo (c :: (cs ++ ws)) = splitGo (c :: cs)
    rw [splitGo_cons, splitGo_cons, splitGo_append_ws ws h cs]

theorem splitWs_dropWhile : ∀ (cs : List Char), splitWs (cs.dropWhile isWs) = splitWs cs
  | [] => rfl
  | c :: cs => by
    rw [List.dropWhile_cons]
    by_cases h : isWs c = true
    · simp only [h, if_true]; rw [splitWs_dropWhile cs, splitWs_ws_cons h]
    · simp [h]

theorem mem_takeWhile_sat {α : Type} (p : α → Bool) : ∀ (l : List α) {a : α},
    a ∈ l.takeWhile p → p a = true
  | [], _, h => by simp at h
  | b :: l, a, h => by
    rw [List.takeWhile_cons] at h
    by_cases hb : p b = true
    · simp only [hb, if_true, List.mem_cons] at h
      rcases h with rfl | h
      · exact hb
      · exact mem_takeWhile_sat p l h
    · simp [hb] at h

/-- `x = trimR x ++ blanks` -/
theorem trimR_decomp (x : List Char) :
    ∃ ws, (∀ c ∈ ws, isWs c = true) ∧ x = (x.reverse.dropWhile isWs).reverse ++ ws := by
  refine ⟨(x.reverse.takeWhile isWs).reverse, ?_, ?_⟩
  · intro c hc
    have hm : c ∈ x.reverse.takeWhile isWs := List.mem_reverse.mp hc
    exact mem_takeWhile_sat _ _ hm
  · have := List.takeWhile_append_dropWhile (p := isWs) (l := x.reverse)
    have h2 := congrArg List.reverse this
    rw [List.reverse_append, List.reverse_reverse] at h2
    exact h2.symm

theorem splitWs_trimWs (cs : List Char) : splitWs (trimWs cs) = splitWs cs := by
  obtain ⟨ws, hws, hx⟩ := trimR_decomp (cs.dropWhile isWs)
  have : splitWs (cs.dropWhile isWs) = splitWs (trimWs cs) := by
    unfold splitWs
    rw [hx, splitGo_append_ws ws hws]
    rfl
  rw [← this, splitWs_dropWhile]

/-! ## 2. `lines` -/

theorem linesOf_line : ∀ (l rest : List Char), (∀ c ∈ l, c ≠ '\n') →
    linesOf (l ++ '\n' :: rest) = l :: linesOf rest
  | [], rest, _ => by simp [linesOf]
  | c :: l, rest, h => by
    have hc : c ≠ '\n' := h c (by simp)
    show linesOf (c :: (l ++ '\n' :: rest)) = _
    rw [linesOf_cons, if_neg hc, linesOf_line l rest (fun x hx => h x (by simp [hx]))]
    rfl

theorem tokenise_line (l rest : List Char) (h : ∀ c ∈ l, c ≠ '\n') :
    tokenise (l ++ '\n' :: rest) = lineToks l :: tokenise rest := by
  unfold tokenise
  rw [linesOf_line l rest h]
  rfl

theorem noNl_of_noWs {t : List Char} (h : ∀ c ∈ t, isWs c = false) : ∀ c ∈ t, c ≠ '\n' := by
  intro c hc e
  subst e
  have := h _ hc
  simp [isWs] at this

/-! ## 3. the characters of `serializeChars` tokenise to the token lines of `serializeF` -/

theorem isWs_of_isDigit {c : Char} (h : c.isDigit = true) : isWs c = false := by
  have h1 : 48 ≤ c.toNat ∧ c.toNat ≤ 57 := by
    simp only [Char.isDigit, Bool.and_eq_true, decide_eq_true_eq] at h
    have a := h.1
    have b := h.2
    simp only [ge_iff_le, UInt32.le_iff_toNat_le] at a b
    exact ⟨by simpa using a, by simpa using b⟩
  unfold isWs
  simp only [Bool.or_eq_false_iff, Bool.and_eq_false_iff, decide_eq_false_iff_not]
  omega

theorem tok_digits (n : Nat) : TokChars (digits n) :=
  ⟨Nat.toDigits_ne_nil, fun _ hc => isWs_of_isDigit (digit_of_mem_toDigits hc)⟩

theorem ofList_digits (n : Nat) : String.ofList (digits n) = natTok n := rfl

theorem toList_natTok (n : Nat) : (natTok n).toList = digits n := by
  unfold natTok digits; rw [Nat.toList_repr]

theorem startsTok_space (cs : List Char) : startsTok (' ' :: cs) = false := by
  simp [startsTok, isWs]

theorem isWs_space : isWs ' ' = true := by decide

/-- blank-padded, blank-terminated fields -/
theorem splitWs_fields {α : Type} (pre tok : α → List Char) : ∀ (l : List α),
    (∀ d ∈ l, TokChars (tok d) ∧ ∀ c ∈ pre d, isWs c = true) →
    splitWs ((l.map fun d => pre d ++ tok d ++ [' ']).flatten) = l.map tok
  | [], _ => rfl
  | d :: l, h => by
    obtain ⟨ht, hp⟩ := h d (by simp)
    rw [List.map_cons, List.flatten_cons, List.append_assoc, List.append_assoc,
      splitWs_ws_append _ _ hp, List.singleton_append,
      splitWs_tok _ _ ht (startsTok_space _), splitWs_ws_cons isWs_space,
      splitWs_fields pre tok l (fun e he => h e (by simp [he]))]
    rfl

theorem splitWs_single {t : List Char} (h : TokChars t) : splitWs t = [t] := by
  have := splitWs_tok t [] h rfl
  rw [List.append_nil] at this
  rw [this]; rfl

theorem splitWs_three {a b c : List Char} (ha : TokChars a) (hb : TokChars b) (hc : TokChars c) :
    splitWs (a ++ ' ' :: (b ++ ' ' :: c)) = [a, b, c] := by
  rw [splitWs_tok _ _ ha (startsTok_space _), splitWs_ws_cons isWs_space,
    splitWs_tok _ _ hb (startsTok_space _), splitWs_ws_cons isWs_space, splitWs_single hc]

theorem mem_replicate_ws {k : Nat} {c : Char} (h : c ∈ List.replicate k ' ') : isWs c = true := by
  rw [List.mem_replicate] at h
  rw [h.2]; exact isWs_space

/-- a β line -/
theorem lineToks_betaBuf (m : Map Val) (i : Nat) : lineToks (trimWs (betaBuf m i)) = betaLine m i := by
  unfold lineToks
  rw [splitWs_trimWs]
  unfold betaBuf padLeft
  rw [splitWs_fields (fun d => List.replicate ((digits m.n).length - (digits (m.β i d)).length) ' ')
    (fun d => digits (m.β i d)) (List.range m.n)
    (fun d _ => ⟨tok_digits _, fun c hc => mem_replicate_ws hc⟩)]
  unfold betaLine
  rw [List.map_map]
  rfl

theorem lineToks_unusedBuf (m : Map Val) : lineToks (unusedBuf m) = unusedLine m := by
  unfold lineToks unusedBuf
  have := splitWs_fields (fun _ : Nat => []) (fun d => digits d)
    ((List.range m.u.size).filter fun d => m.unused d)
    (fun d _ => ⟨tok_digits _, fun c hc => by simp at hc⟩)
  simp only [List.nil_append] at this
  rw [this]
  unfold unusedLine
  rw [List.map_map]
  rfl

theorem tok_toList_of {s : String} (h : TokChars s.toList) : String.ofList s.toList = s :=
  String.ofList_toList

/-- the META line -/
theorem lineToks_meta {ver : String} (hv : TokChars ver.toList) (k : Nat) :
    lineToks (ver.toList ++ [' '] ++ ['2'] ++ [' '] ++ digits k) = [ver, "2", natTok k] := by
  have h2 : TokChars ['2'] := ⟨by simp, fun c hc => by simp at hc; subst hc; decide⟩
  have : ver.toList ++ [' '] ++ ['2'] ++ [' '] ++ digits k
      = ver.toList ++ ' ' :: (['2'] ++ ' ' :: digits k) := by simp
  unfold lineToks
  rw [this, splitWs_three hv h2 (tok_digits k)]
  simp only [List.map_cons, List.map_nil, String.ofList_toList, ofList_digits]

/-- the characters of the lines after the `[VERTICES]` header -/
theorem tokenise_vertices (fmt : Rat → String) (hf : ∀ q, TokChars (fmt q).toList) (m : Map Val) :
    ∀ (vs : List Nat), tokenise ((vs.map (vertexChars fmt m)).flatten) = vs.filterMap (vertexLineF fmt m)
  | [] => rfl
  | v :: vs => by
    have ih := tokenise_vertices fmt hf m vs
    have hq : TokChars ['?'] := ⟨by simp, fun c hc => by simp at hc; subst hc; decide⟩
    rw [List.map_cons, List.flatten_cons, List.filterMap_cons]
    cases hv : m.att 0 v with
    | none =>
      have a : vertexChars fmt m v = [] := by unfold vertexChars; rw [hv]
      have b : vertexLineF fmt m v = none := by unfold vertexLineF; rw [hv]
      rw [a, b]
      simpa using ih
    | some val =>
      cases val with
      | pt x y z =>
        have a : vertexChars fmt m v =
            digits v ++ [' '] ++ (fmt x).toList ++ [' '] ++ (fmt y).toList ++ ['\n'] := by
          unfold vertexChars; rw [hv]
        have b : vertexLineF fmt m v = some [natTok v, fmt x, fmt y] := by
          unfold vertexLineF; rw [hv]
        have e : digits v ++ [' '] ++ (fmt x).toList ++ [' '] ++ (fmt y).toList ++ ['\n'] ++
            (vs.map (vertexChars fmt m)).flatten =
            (digits v ++ ' ' :: ((fmt x).toList ++ ' ' :: (fmt y).toList)) ++ '\n' ::
              (vs.map (vertexChars fmt m)).flatten := by simp
        have hnl : ∀ c ∈ digits v ++ ' ' :: ((fmt x).toList ++ ' ' :: (fmt y).toList), c ≠ '\n' := by
          intro c hc
          simp only [List.mem_append, List.mem_cons] at hc
          rcases hc with h | rfl | h | rfl | h
          · exact noNl_of_noWs (tok_digits v).noWs c h
          · decide
          · exact noNl_of_noWs (hf x).noWs c h
          · decide
          · exact noNl_of_noWs (hf y).noWs c h
        rw [a, b, e, tokenise_line _ _ hnl, ih]
        unfold lineToks
        rw [splitWs_three (tok_digits v) (hf x) (hf y)]
        simp only [List.map_cons, List.map_nil, String.ofList_toList, ofList_digits]
      | tm t =>
        have a : vertexChars fmt m v = digits v ++ [' ', '?', ' ', '?', '\n'] := by
          unfold vertexChars; rw [hv]
        have b : vertexLineF fmt m v = some [natTok v, "?", "?"] := by
          unfold vertexLineF; rw [hv]
        have e : digits v ++ [' ', '?', ' ', '?', '\n'] ++ (vs.map (vertexChars fmt m)).flatten =
            (digits v ++ ' ' :: (['?'] ++ ' ' :: ['?'])) ++ '\n' ::
              (vs.map (vertexChars fmt m)).flatten := by simp
        have hnl : ∀ c ∈ digits v ++ ' ' :: (['?'] ++ ' ' :: ['?']), c ≠ '\n' := by
          intro c hc
          simp only [List.mem_append, List.mem_cons, List.not_mem_nil, or_false] at hc
          rcases hc with h | rfl | rfl | rfl | rfl
          · exact noNl_of_noWs (tok_digits v).noWs c h
          all_goals decide
        rw [a, b, e, tokenise_line _ _ hnl, ih]
        unfold lineToks
        rw [splitWs_three (tok_digits v) hq hq]
        simp only [List.map_cons, List.map_nil, ofList_digits]

theorem mem_trimWs {c : Char} {x : List Char} (h : c ∈ trimWs x) : c ∈ x := by
  unfold trimWs at h
  have h1 := List.mem_reverse.mp h
  have h2 := (List.dropWhile_sublist isWs).mem h1
  have h3 := List.mem_reverse.mp h2
  exact (List.dropWhile_sublist isWs).mem h3

theorem digit_ne_nl {c : Char} (h : c.isDigit = true) : c ≠ '\n' := by
  intro e; subst e; simp [Char.isDigit] at h

theorem noNl_betaBuf (m : Map Val) (i : Nat) : ∀ c ∈ trimWs (betaBuf m i), c ≠ '\n' := by
  intro c hc
  have := mem_trimWs hc
  unfold betaBuf padLeft at this
  simp only [List.mem_flatten, List.mem_map, List.mem_range] at this
  obtain ⟨l, ⟨d, _, rfl⟩, hcl⟩ := this
  simp only [List.mem_append, List.mem_replicate, List.mem_singleton] at hcl
  rcases hcl with (⟨_, rfl⟩ | h) | rfl
  · decide
  · exact digit_ne_nl (digit_of_mem_toDigits h)
  · decide

theorem noNl_unusedBuf (m : Map Val) : ∀ c ∈ unusedBuf m, c ≠ '\n' := by
  intro c hc
  unfold unusedBuf at hc
  simp only [List.mem_flatten, List.mem_map] at hc
  obtain ⟨l, ⟨d, _, rfl⟩, hcl⟩ := hc
  simp only [List.mem_append, List.mem_singleton] at hcl
  rcases hcl with h | rfl
  · exact digit_ne_nl (digit_of_mem_toDigits h)
  · decide

/-- the text of `serializeChars`, line by line -/
theorem serializeChars_lines (ver : String) (fmt : Rat → String) (m : Map Val) :
    serializeChars ver fmt m =
      "[META]".toList ++ '\n' ::
      ((ver.toList ++ [' '] ++ ['2'] ++ [' '] ++ digits (m.n - 1)) ++ '\n' ::
      ([] ++ '\n' ::
      ("[BETAS]".toList ++ '\n' ::
      (trimWs (betaBuf m 0) ++ '\n' ::
      (trimWs (betaBuf m 1) ++ '\n' ::
      (trimWs (betaBuf m 2) ++ '\n' ::
      ([] ++ '\n' ::
      ("[UNUSED]".toList ++ '\n' ::
      (unusedBuf m ++ '\n' ::
      ([] ++ '\n' ::
      ("[VERTICES]".toList ++ '\n' ::
      ((iterVertices2 m).map (vertexChars fmt m)).flatten))))))))))) := by
  unfold serializeChars
  simp only [List.append_assoc, List.nil_append, List.cons_append]

/-- **C09b, tokenisation**: for EVERY map (any size, well formed or not), any version token and
    any coordinate formatter producing non-empty blank-free strings, the reader's tokenisation
    (`lines`, `split_whitespace`) of the characters written by `serialize` is exactly the list of
    token lines of the token-level serializer. -/
theorem tokenise_serializeChars (ver : String) (hv : TokChars ver.toList) (fmt : Rat → String)
    (hf : ∀ q, TokChars (fmt q).toList) (m : Map Val) :
    tokenise (serializeChars ver fmt m) = serializeF ver fmt m := by
  have hmeta : ∀ c ∈ ver.toList ++ [' '] ++ ['2'] ++ [' '] ++ digits (m.n - 1), c ≠ '\n' := by
    intro c hc
    simp only [List.mem_append, List.mem_singleton] at hc
    rcases hc with (((h | rfl) | rfl) | rfl) | h
    · exact noNl_of_noWs hv.noWs c h
    · decide
    · decide
    · decide
    · exact digit_ne_nl (digit_of_mem_toDigits h)
  rw [serializeChars_lines,
    tokenise_line _ _ (by decide), tokenise_line _ _ hmeta, tokenise_line _ _ (by simp),
    tokenise_line _ _ (by decide), tokenise_line _ _ (noNl_betaBuf m 0),
    tokenise_line _ _ (noNl_betaBuf m 1), tokenise_line _ _ (noNl_betaBuf m 2),
    tokenise_line _ _ (by simp), tokenise_line _ _ (by decide), tokenise_line _ _ (noNl_unusedBuf m),
    tokenise_line _ _ (by simp), tokenise_line _ _ (by decide),
    tokenise_vertices fmt hf m, lineToks_meta hv, lineToks_betaBuf, lineToks_betaBuf,
    lineToks_betaBuf, lineToks_unusedBuf]
  have h1 : lineToks "[META]".toList = ["[META]"] := by decide
  have h2 : lineToks "[BETAS]".toList = ["[BETAS]"] := by decide
  have h3 : lineToks "[UNUSED]".toList = ["[UNUSED]"] := by decide
  have h4 : lineToks "[VERTICES]".toList = ["[VERTICES]"] := by decide
  have h5 : lineToks [] = [] := rfl
  rw [h1, h2, h3, h4, h5]
  rfl

theorem serializeF_ratStr (ver : String) (m : Map Val) : serializeF ver ratStr m = serialize ver m := by
  have : vertexLineF ratStr m = vertexLine m := by
    funext v
    unfold vertexLineF vertexLine
    rfl
  unfold serializeF serialize
  rw [this]

/-! ## 4. the characters are determined by the token lines -/

theorem betaBuf_of_line (m : Map Val) (i : Nat) :
    betaBuf m i =
      ((betaLine m i).map fun t => padLeft (digits m.n).length t.toList ++ [' ']).flatten := by
  unfold betaBuf betaLine
  rw [List.map_map]
  congr 1
  apply List.map_congr_left
  intro d _
  simp only [Function.comp, toList_natTok]

theorem unusedBuf_of_line (m : Map Val) :
    unusedBuf m = ((unusedLine m).map fun t => t.toList ++ [' ']).flatten := by
  unfold unusedBuf unusedLine
  rw [List.map_map]
  congr 1
  apply List.map_congr_left
  intro d _
  simp only [Function.comp, toList_natTok]

/-- the characters of a vertex line from its three tokens -/
def renderV (l : Line) : List Char :=
  (l.getD 0 "").toList ++ [' '] ++ (l.getD 1 "").toList ++ [' '] ++ (l.getD 2 "").toList ++ ['\n']

theorem vertexPart_of_lines (fmt : Rat → String) (m : Map Val) : ∀ (vs : List Nat),
    (vs.map (vertexChars fmt m)).flatten = ((vs.filterMap (vertexLineF fmt m)).map renderV).flatten
  | [] => rfl
  | v :: vs => by
    rw [List.map_cons, List.flatten_cons, List.filterMap_cons, vertexPart_of_lines fmt m vs]
    cases hv : m.att 0 v with
    | none =>
      have a : vertexChars fmt m v = [] := by unfold vertexChars; rw [hv]
      have b : vertexLineF fmt m v = none := by unfold vertexLineF; rw [hv]
      rw [a, b]; rfl
    | some val =>
      cases val with
      | pt x y z =>
        have a : vertexChars fmt m v =
            digits v ++ [' '] ++ (fmt x).toList ++ [' '] ++ (fmt y).toList ++ ['\n'] := by
          unfold vertexChars; rw [hv]
        have b : vertexLineF fmt m v = some [natTok v, fmt x, fmt y] := by
          unfold vertexLineF; rw [hv]
        rw [a, b]
        simp [renderV, toList_natTok]
      | tm t =>
        have a : vertexChars fmt m v = digits v ++ [' ', '?', ' ', '?', '\n'] := by
          unfold vertexChars; rw [hv]
        have b : vertexLineF fmt m v = some [natTok v, "?", "?"] := by
          unfold vertexLineF; rw [hv]
        rw [a, b]
        simp [renderV, toList_natTok]

/-- two maps with the same token lines are written with the same characters -/
theorem serializeChars_congr (ver : String) (fmt : Rat → String) {m m' : Map Val}
    (h : serializeF ver fmt m' = serializeF ver fmt m) (hn : m'.n = m.n) :
    serializeChars ver fmt m' = serializeChars ver fmt m := by
  unfold serializeF at h
  simp only [List.cons_append, List.nil_append, List.cons.injEq, true_and] at h
  obtain ⟨_, h0, h1, h2, hu, hv⟩ := h
  unfold serializeChars
  rw [betaBuf_of_line m' 0, betaBuf_of_line m' 1, betaBuf_of_line m' 2, betaBuf_of_line m 0,
    betaBuf_of_line m 1, betaBuf_of_line m 2, unusedBuf_of_line m', unusedBuf_of_line m,
    vertexPart_of_lines fmt m', vertexPart_of_lines fmt m, hn, h0, h1, h2, hu, hv]

/-! ## 5. the character-level section parser is the token-level one after tokenisation -/

theorem mem_pushChar {x c : Char} (X : List (List Char)) :
    (∃ t ∈ pushChar c X, x ∈ t) ↔ (x = c ∨ ∃ t ∈ X, x ∈ t) := by
  cases X with
  | nil => simp [pushChar]
  | cons t r =>
    simp only [pushChar, List.mem_cons, exists_eq_or_imp]
    constructor
    · rintro (h | h)
      · rcases h with h | h
        · exact .inl h
        · exact .inr (.inl h)
      · exact .inr (.inr h)
    · rintro (h | h | h)
      · exact .inl (.inl h)
      · exact .inl (.inr h)
      · exact .inr h

/-- the characters of the tokens are the non-blank characters -/
theorem mem_splitWs {x : Char} : ∀ (s : List Char),
    (∃ t ∈ splitWs s, x ∈ t) ↔ (x ∈ s ∧ isWs x = false)
  | [] => by simp [splitWs, splitGo]
  | c :: cs => by
    have ih := mem_splitWs (x := x) cs
    by_cases hc : isWs c = true
    · rw [splitWs_ws_cons hc, ih]
      constructor
      · rintro ⟨a, b⟩; exact ⟨by simp [a], b⟩
      · rintro ⟨a, b⟩
        simp only [List.mem_cons] at a
        rcases a with rfl | a
        · rw [hc] at b; cases b
        · exact ⟨a, b⟩
    · have hc' : isWs c = false := by simpa using hc
      have key : (∃ t ∈ splitWs (c :: cs), x ∈ t) ↔ (x = c ∨ ∃ t ∈ splitWs cs, x ∈ t) := by
        show (∃ t ∈ (splitGo (c :: cs)).1, x ∈ t) ↔ _
        rw [splitGo_cons]
        simp only [hc', Bool.false_eq_true, if_false]
        split
        · exact mem_pushChar _
        · simp [splitWs]
      rw [key, ih]
      constructor
      · rintro (rfl | ⟨a, b⟩)
        · exact ⟨by simp, hc'⟩
        · exact ⟨by simp [a], b⟩
      · rintro ⟨a, b⟩
        simp only [List.mem_cons] at a
        rcases a with rfl | a
        · exact .inl rfl
        · exact .inr ⟨a, b⟩

theorem splitWs_eq_nil_iff (s : List Char) : splitWs s = [] ↔ ∀ c ∈ s, isWs c = true := by
  constructor
  · intro h c hc
    by_cases hw : isWs c = true
    · exact hw
    · have := (mem_splitWs (x := c) s).mpr ⟨hc, by simpa using hw⟩
      rw [h] at this
      obtain ⟨t, ht, _⟩ := this
      cases ht
  · intro h
    show (splitGo s).1 = []
    rw [splitGo_allWs s h]

/-- no token is empty -/
theorem splitWs_ne_nil : ∀ (s : List Char), ∀ t ∈ splitWs s, t ≠ []
  | [], t, h => by simp [splitWs, splitGo] at h
  | c :: cs, t, h => by
    have ih := splitWs_ne_nil cs
    by_cases hc : isWs c = true
    · rw [splitWs_ws_cons hc] at h; exact ih t h
    · have hc' : isWs c = false := by simpa using hc
      have : t ∈ (splitGo (c :: cs)).1 := h
      rw [splitGo_cons] at this
      simp only [hc', Bool.false_eq_true, if_false] at this
      split at this
      · cases hX : (splitGo cs).1 with
        | nil => rw [hX] at this; simp [pushChar] at this; rw [this]; simp
        | cons t' r =>
          rw [hX] at this
          simp only [pushChar, List.mem_cons] at this
          rcases this with rfl | h'
          · simp
          · exact ih t (by show t ∈ (splitGo cs).1; rw [hX]; simp [h'])
      · simp only [List.mem_cons] at this
        rcases this with rfl | h'
        · simp
        · exact ih t h'

/-- the first token starts with the first character of a text that starts with a non-blank -/
theorem splitWs_head {c : Char} (cs : List Char) (hc : isWs c = false) :
    ∃ t r, splitWs (c :: cs) = (c :: t) :: r := by
  show ∃ t r, (splitGo (c :: cs)).1 = (c :: t) :: r
  rw [splitGo_cons]
  simp only [hc, Bool.false_eq_true, if_false]
  split
  · cases (splitGo cs).1 with
    | nil => exact ⟨[], [], rfl⟩
    | cons t r => exact ⟨t, r, rfl⟩
  · exact ⟨[], _, rfl⟩

theorem dropWhile_head_not {α : Type} (p : α → Bool) : ∀ (l : List α) {a : α} {r : List α},
    l.dropWhile p = a :: r → p a = false
  | [], _, _, h => by simp at h
  | b :: l, a, r, h => by
    rw [List.dropWhile_cons] at h
    by_cases hb : p b = true
    · simp only [hb, if_true] at h; exact dropWhile_head_not p l h
    · simp only [hb, if_false] at h
      injection h with h1 _
      subst h1; simpa using hb

/-- `trimR x` never ends with a blank -/
theorem trimR_no_trailing (x y ws : List Char) (hne : ws ≠ []) (hws : ∀ c ∈ ws, isWs c = true)
    (h : (x.reverse.dropWhile isWs).reverse = y ++ ws) : False := by
  have h2 := congrArg List.reverse h
  rw [List.reverse_reverse, List.reverse_append] at h2
  cases hr : ws.reverse with
  | nil => exact hne (by simpa using hr)
  | cons w r =>
    rw [hr, List.cons_append] at h2
    have := dropWhile_head_not isWs _ h2
    have hw : w ∈ ws := by
      have : w ∈ ws.reverse := by rw [hr]; simp
      exact List.mem_reverse.mp this
    rw [hws w hw] at this
    cases this

/-- shape of a trimmed line against its tokens: both empty, or the line starts with the first
    character of the first token -/
theorem trimWs_shape (line : List Char) :
    (trimWs line = [] ∧ splitWs line = []) ∨
    (∃ c y t r, isWs c = false ∧ trimWs line = c :: y ∧ splitWs line = (c :: t) :: r) := by
  cases hd : line.dropWhile isWs with
  | nil =>
    left
    refine ⟨by unfold trimWs; rw [hd]; rfl, ?_⟩
    rw [← splitWs_dropWhile, hd]; rfl
  | cons c s =>
    right
    have hc : isWs c = false := dropWhile_head_not isWs line hd
    obtain ⟨ws, hws, hx⟩ := trimR_decomp (c :: s)
    obtain ⟨t, r, hsp⟩ := splitWs_head s hc
    have htrim : trimWs line = ((c :: s).reverse.dropWhile isWs).reverse := by
      unfold trimWs; rw [hd]
    cases hz : ((c :: s).reverse.dropWhile isWs).reverse with
    | nil =>
      rw [hz, List.nil_append] at hx
      have := hws c (by rw [← hx]; simp)
      rw [hc] at this; cases this
    | cons c' y =>
      rw [hz, List.cons_append] at hx
      injection hx with h1 _
      subst h1
      exact ⟨c, y, t, r, hc, by rw [htrim, hz], by rw [← splitWs_dropWhile, hd]; exact hsp⟩

theorem mem_trimWs_iff {x : Char} (hx : isWs x = false) (line : List Char) :
    x ∈ trimWs line ↔ x ∈ line := by
  have a := mem_splitWs (x := x) (trimWs line)
  have b := mem_splitWs (x := x) line
  rw [splitWs_trimWs] at a
  constructor
  · intro h; exact (b.mp (a.mpr ⟨h, hx⟩)).1
  · intro h; exact (a.mp (b.mpr ⟨h, hx⟩)).1

/-- a blank-free text is at most one token -/
theorem splitWs_noWs (s : List Char) (h : ∀ c ∈ s, isWs c = false) :
    splitWs s = if s = [] then [] else [s] := by
  by_cases hs : s = []
  · subst hs; rfl
  · rw [if_neg hs]; exact splitWs_single ⟨hs, h⟩

/-- token / rest decomposition of a text starting with a non-blank -/
theorem tok_decomp (s : List Char) (hs : startsTok s = true) :
    ∃ tok rest, s = tok ++ rest ∧ TokChars tok ∧ startsTok rest = false := by
  refine ⟨s.takeWhile (fun c => !isWs c), s.dropWhile (fun c => !isWs c),
    (List.takeWhile_append_dropWhile).symm, ⟨?_, ?_⟩, ?_⟩
  · cases s with
    | nil => cases hs
    | cons c cs =>
      have : isWs c = false := by simpa [startsTok] using hs
      rw [List.takeWhile_cons]; simp [this]
  · intro c hc
    have := mem_takeWhile_sat _ _ hc
    simpa using this
  · cases hd : s.dropWhile (fun c => !isWs c) with
    | nil => rfl
    | cons a r =>
      have := dropWhile_head_not _ s hd
      simp only [Bool.not_eq_false'] at this
      simp [startsTok, this]

/-- a trimmed line with exactly one token is that token -/
theorem trimWs_single {line t : List Char} (h : splitWs line = [t]) : trimWs line = t := by
  rcases trimWs_shape line with ⟨_, h0⟩ | ⟨c, y, t', r, hc, hT, hW⟩
  · rw [h0] at h; cases h
  · have hst : startsTok (trimWs line) = true := by rw [hT]; simp [startsTok, hc]
    obtain ⟨tok, rest, hdec, htok, hrest⟩ := tok_decomp _ hst
    have hsp : splitWs (trimWs line) = tok :: splitWs rest := by
      rw [hdec]; exact splitWs_tok tok rest htok hrest
    rw [splitWs_trimWs, h] at hsp
    injection hsp with h1 h2
    have hrws := (splitWs_eq_nil_iff rest).mp h2.symm
    by_cases hr : rest = []
    · rw [hdec, hr, List.append_nil, h1]
    · exfalso
      unfold trimWs at hdec
      exact trimR_no_trailing _ tok rest hr hrws hdec

/-- a trimmed line with at least two tokens contains a blank -/
theorem trimWs_two {line a b : List Char} {r : List (List Char)} (h : splitWs line = a :: b :: r) :
    ∃ w ∈ trimWs line, isWs w = true := by
  apply Classical.byContradiction
  intro hn
  have hall : ∀ c ∈ trimWs line, isWs c = false := by
    intro c hc
    cases hw : isWs c with
    | false => rfl
    | true => exact absurd ⟨c, hc, hw⟩ hn
  have := splitWs_noWs _ hall
  rw [splitWs_trimWs, h] at this
  split at this <;> simp at this

theorem mem_dropWhile_of_not {α : Type} (p : α → Bool) {w : α} (hw : p w = false) :
    ∀ (s : List α), w ∈ s → w ∈ s.dropWhile p
  | [], h => by cases h
  | b :: s, h => by
    rw [List.dropWhile_cons]
    by_cases hb : p b = true
    · simp only [hb, if_true]
      simp only [List.mem_cons] at h
      rcases h with rfl | h
      · rw [hw] at hb; cases hb
      · exact mem_dropWhile_of_not p hw s h
    · simp only [hb, if_false]; exact h

theorem isBracket_of_isWs {w : Char} (h : isWs w = true) : isBracket w = false := by
  unfold isBracket
  by_cases h1 : w = '['
  · subst h1; revert h; decide
  · by_cases h2 : w = ']'
    · subst h2; revert h; decide
    · simp [h1, h2]

theorem mem_trimBrackets_of_ws {w : Char} {s : List Char} (hw : isWs w = true) (h : w ∈ s) :
    w ∈ trimBrackets s := by
  unfold trimBrackets
  have hb := isBracket_of_isWs hw
  apply List.mem_reverse.mpr
  apply mem_dropWhile_of_not _ hb
  apply List.mem_reverse.mpr
  exact mem_dropWhile_of_not _ hb _ h

theorem toLower_of_isWs {w : Char} (h : isWs w = true) : Char.toLower w = w := by
  unfold Char.toLower
  split
  · rename_i hc
    exfalso
    have h1 : 65 ≤ w.toNat ∧ w.toNat ≤ 90 := by
      obtain ⟨a, b⟩ := hc
      simp only [ge_iff_le, UInt32.le_iff_toNat_le] at a b
      exact ⟨by simpa using a, by simpa using b⟩
    unfold isWs at h
    simp only [Bool.or_eq_true, Bool.and_eq_true, decide_eq_true_eq] at h
    omega
  · rfl

/-- a name containing a blank is not a section name -/
theorem secOfName_of_ws {l : List Char} {w : Char} (hw : isWs w = true) (h : w ∈ l) :
    secOfName (String.ofList l) = none := by
  have key : ∀ s : String, (∀ c ∈ s.toList, isWs c = false) → String.ofList l ≠ s := by
    intro s hs e
    have : l = s.toList := by rw [← e, String.toList_ofList]
    rw [this] at h
    rw [hs w h] at hw; cases hw
  unfold secOfName
  rw [if_neg (key "meta" (by decide)), if_neg (key "betas" (by decide)),
    if_neg (key "unused" (by decide)), if_neg (key "vertices" (by decide))]

/-- the section name computed on the trimmed characters and on the tokens designate the same
    section (the names differ only by the blanks between tokens, and then neither is a section) -/
theorem secOfName_line (line : List Char) :
    secOfName (String.ofList ((trimBrackets (trimWs line)).map Char.toLower)) =
      secOfName (sectionName (lineToks line)) := by
  have hj : (" ".intercalate (lineToks line)).toList = [' '].intercalate (splitWs line) := by
    rw [String.toList_intercalate]
    unfold lineToks
    rw [List.map_map]
    have : (String.toList ∘ String.ofList) = (id : List Char → List Char) := by
      funext t; simp
    rw [this, List.map_id]
    rfl
  unfold sectionName
  rw [hj]
  match hW : splitWs line with
  | [] =>
    rcases trimWs_shape line with ⟨hT, _⟩ | ⟨c, y, t, r, _, _, hW'⟩
    · rw [hT]; rfl
    · rw [hW] at hW'; cases hW'
  | [t] =>
    rw [trimWs_single hW]
    simp [List.intercalate]
  | a :: b :: r =>
    obtain ⟨w, hw, hws⟩ := trimWs_two hW
    have h1 : w ∈ (trimBrackets (trimWs line)).map Char.toLower := by
      rw [List.mem_map]
      exact ⟨w, mem_trimBrackets_of_ws hws hw, toLower_of_isWs hws⟩
    have h2 : ' ' ∈ (trimBrackets ([' '].intercalate (a :: b :: r))).map Char.toLower := by
      rw [List.mem_map]
      refine ⟨' ', mem_trimBrackets_of_ws isWs_space ?_, toLower_of_isWs isWs_space⟩
      simp [List.intercalate]
    rw [secOfName_of_ws hws h1, secOfName_of_ws isWs_space h2]

/-! ### comment stripping -/

def isHash (c : Char) : Bool := decide (c = '#')

/-- `stripComment` on character tokens -/
def stripC : List (List Char) → List (List Char)
  | [] => []
  | t :: ts =>
    if t.contains '#' then
      (if (splitAt1 (· = '#') t).1.isEmpty then [] else [(splitAt1 (· = '#') t).1])
    else t :: stripC ts

theorem splitAt1_append_left {p : Char → Bool} : ∀ (a b : List Char), (∀ c ∈ a, p c = false) →
    (splitAt1 p (a ++ b)).1 = a ++ (splitAt1 p b).1
  | [], _, _ => rfl
  | c :: a, b, h => by
    simp only [List.cons_append, splitAt1, h c (by simp)]
    rw [← splitAt1_append_left a b (fun d hd => h d (by simp [hd]))]
    simp

theorem hash_not_ws {c : Char} (h : isWs c = true) : decide (c = '#') = false := by
  by_cases e : c = '#'
  · subst e; revert h; decide
  · simp [e]

theorem startsTok_false_iff (s : List Char) :
    startsTok s = false ↔ s = [] ∨ ∃ w r, s = w :: r ∧ isWs w = true := by
  cases s with
  | nil => simp [startsTok]
  | cons c r => simp [startsTok]

theorem ws_decomp (s : List Char) : ∃ pre s', s = pre ++ s' ∧ (∀ c ∈ pre, isWs c = true) ∧
    (s' = [] ∨ startsTok s' = true) := by
  refine ⟨s.takeWhile isWs, s.dropWhile isWs, (List.takeWhile_append_dropWhile).symm,
    fun c hc => mem_takeWhile_sat _ _ hc, ?_⟩
  cases hd : s.dropWhile isWs with
  | nil => exact .inl rfl
  | cons c r =>
    right
    have := dropWhile_head_not isWs s hd
    simp [startsTok, this]

/-- first `#` of a token -/
theorem hash_decomp (tok : List Char) (h : '#' ∈ tok) :
    ∃ p q, tok = p ++ '#' :: q ∧ ∀ c ∈ p, decide (c = '#') = false := by
  have hdt : tok = tok.takeWhile (fun c => !decide (c = '#')) ++ tok.dropWhile (fun c => !decide (c = '#')) :=
    (List.takeWhile_append_dropWhile).symm
  have hp : ∀ c ∈ tok.takeWhile (fun c => !decide (c = '#')), decide (c = '#') = false := by
    intro c hc
    have := mem_takeWhile_sat _ _ hc
    simpa using this
  cases hq : tok.dropWhile (fun c => !decide (c = '#')) with
  | nil =>
    exfalso
    rw [hq, List.append_nil] at hdt
    have := hp '#' (by rw [← hdt]; exact h)
    simp at this
  | cons x q =>
    have hx : x = '#' := by
      have := dropWhile_head_not _ tok hq
      simpa using this
    subst hx
    exact ⟨_, q, by rw [← hq]; exact hdt, hp⟩

theorem splitWs_prefix_aux : ∀ (n : Nat) (s : List Char), s.length ≤ n →
    splitWs (splitAt1 (· = '#') s).1 = stripC (splitWs s) := by
  intro n
  induction n with
  | zero =>
    intro s hs
    have : s = [] := List.length_eq_zero_iff.mp (by omega)
    subst this; rfl
  | succ n ih =>
    intro s hs
    obtain ⟨pre, s', rfl, hpre, hs'⟩ := ws_decomp s
    have hpreH : ∀ c ∈ pre, decide (c = '#') = false := fun c hc => hash_not_ws (hpre c hc)
    rcases hs' with rfl | hst
    · -- only blanks
      rw [List.append_nil]
      have h1 : splitWs pre = [] := (splitWs_eq_nil_iff pre).mpr hpre
      have h2 : (splitAt1 (· = '#') pre).1 = pre := by rw [splitAt1_none pre hpreH]
      rw [h1, h2, h1]; rfl
    · obtain ⟨tok, rest, rfl, htok, hrest⟩ := tok_decomp s' hst
      have hW : splitWs (pre ++ (tok ++ rest)) = tok :: splitWs rest := by
        rw [splitWs_ws_append _ _ hpre]; exact splitWs_tok tok rest htok hrest
      have hlen : rest.length ≤ n := by
        have h2 : 0 < tok.length := List.length_pos_iff.mpr htok.ne
        simp only [List.length_append] at hs
        omega
      rw [hW]
      by_cases hh : tok.contains '#' = true
      · -- the comment starts inside this token
        obtain ⟨p, q, rfl, hp⟩ := hash_decomp tok (List.contains_iff_mem.mp hh)
        have hpt : (splitAt1 (· = '#') (p ++ '#' :: q)).1 = p := by
          rw [splitAt1_append (by decide) p q hp]
        have hsp : (splitAt1 (· = '#') (pre ++ ((p ++ '#' :: q) ++ rest))).1 = pre ++ p := by
          have : pre ++ ((p ++ '#' :: q) ++ rest) = (pre ++ p) ++ '#' :: (q ++ rest) := by simp
          rw [this, splitAt1_append (by decide) _ _ (by
            intro c hc
            simp only [List.mem_append] at hc
            rcases hc with h | h
            · exact hpreH c h
            · exact hp c h)]
        have hpnw : ∀ c ∈ p, isWs c = false := by
          intro c hc
          exact htok.noWs c (by simp [hc])
        rw [hsp, splitWs_ws_append _ _ hpre, splitWs_noWs p hpnw]
        show _ = (if (p ++ '#' :: q).contains '#' = true then _ else _)
        rw [if_pos hh, hpt]
        cases p with
        | nil => simp
        | cons a b => simp
      · -- no comment in this token
        have hnh : ∀ c ∈ tok, decide (c = '#') = false := by
          intro c hc
          by_cases e : c = '#'
          · subst e; exact absurd (List.contains_iff_mem.mpr hc) hh
          · simp [e]
        have hsp : (splitAt1 (· = '#') (pre ++ (tok ++ rest))).1 =
            pre ++ (tok ++ (splitAt1 (· = '#') rest).1) := by
          rw [splitAt1_append_left _ _ hpreH, splitAt1_append_left _ _ hnh]
        have hst' : startsTok (splitAt1 (· = '#') rest).1 = false := by
          rcases (startsTok_false_iff rest).mp hrest with h | ⟨w, r, h, hw⟩
          · rw [h]; rfl
          · rw [h]
            have : decide (w = '#') = false := hash_not_ws hw
            simp only [splitAt1, this]
            simp [startsTok, hw]
        rw [hsp, splitWs_ws_append _ _ hpre, splitWs_tok tok _ htok hst', ih rest hlen]
        show _ = (if tok.contains '#' = true then _ else _)
        rw [if_neg hh]

theorem splitWs_prefix (s : List Char) :
    splitWs (splitAt1 (· = '#') s).1 = stripC (splitWs s) :=
  splitWs_prefix_aux s.length s (Nat.le_refl _)

/-- the token-level `stripComment` is `stripC` on the characters of the tokens -/
theorem stripComment_map : ∀ (W : List (List Char)),
    stripComment (W.map String.ofList) = (stripC W).map String.ofList
  | [] => rfl
  | t :: W => by
    rw [List.map_cons]
    unfold stripComment stripC
    simp only [String.toList_ofList]
    by_cases hh : t.contains '#' = true
    · simp only [hh, if_true]
      cases hp : (splitAt1 (fun x => decide (x = '#')) t).1 with
      | nil => simp
      | cons a b => simp
    · simp only [hh, Bool.false_eq_true, if_false]
      rw [List.map_cons, stripComment_map W]

/-! ### one line, all lines, the file -/

/-- the token-level section map of a character-level one -/
def toSecs (sc : SecsC) : Secs :=
  { smeta := (sc .smeta).map (·.map lineToks), sbetas := (sc .sbetas).map (·.map lineToks),
    sunused := (sc .sunused).map (·.map lineToks), sverts := (sc .sverts).map (·.map lineToks) }

theorem toSecs_sel (sc : SecsC) (k : Sec) : (toSecs sc).sel k = (sc k).map (·.map lineToks) := by
  cases k <;> rfl

theorem toSecs_put (sc : SecsC) (k : Sec) (v : List (List Char)) :
    toSecs (sc.put k v) = (toSecs sc).put k (v.map lineToks) := by
  cases k <;> simp [toSecs, SecsC.put, Secs.put]

theorem contains_trimWs_eq_any {x : Char} (hx : isWs x = false) (line : List Char) :
    (trimWs line).contains x = (lineToks line).any (fun t => t.toList.contains x) := by
  rw [Bool.eq_iff_iff]
  simp only [List.contains_iff_mem, List.any_eq_true]
  rw [mem_trimWs_iff hx]
  constructor
  · intro h
    obtain ⟨t, ht, hxt⟩ := (mem_splitWs line).mpr ⟨h, hx⟩
    exact ⟨String.ofList t, List.mem_map.mpr ⟨t, ht, rfl⟩, by simpa using hxt⟩
  · rintro ⟨s, hs, hxs⟩
    obtain ⟨t, ht, rfl⟩ := List.mem_map.mp hs
    exact ((mem_splitWs line).mp ⟨t, ht, by simpa using hxs⟩).1

theorem isEmpty_trimWs_iff (s : List Char) : (trimWs s).isEmpty = (splitWs s).isEmpty := by
  rcases trimWs_shape s with ⟨a, b⟩ | ⟨c, y, t, r, _, a, b⟩
  · rw [a, b]; rfl
  · rw [a, b]; rfl

/-- the content of a regular line -/
theorem lineToks_content (line : List Char) :
    lineToks (trimWs (splitAt1 (· = '#') (trimWs line)).1) = stripComment (lineToks line) := by
  unfold lineToks
  rw [splitWs_trimWs, splitWs_prefix, splitWs_trimWs, stripComment_map]

def liftSt (p : SecsC × Option Sec) : Secs × Option Sec := (toSecs p.1, p.2)

def mapOk {α β : Type} (f : α → β) : Except Err α → Except Err β
  | .ok a => .ok (f a)
  | .error e => .error e

/-- one iteration of the reading loop: characters and tokens agree -/
theorem stepLine_lineToks (sc : SecsC) (cur : Option Sec) (line : List Char) :
    stepLine (toSecs sc, cur) (lineToks line) = mapOk liftSt (stepLineC (sc, cur) line) := by
  rcases trimWs_shape line with ⟨hT, hW⟩ | ⟨c, y, t, r, hc, hT, hW⟩
  · have hl : lineToks line = [] := by unfold lineToks; rw [hW]; rfl
    unfold stepLineC
    rw [hl, hT]
    rfl
  · have hl : lineToks line = String.ofList (c :: t) :: r.map String.ofList := by
      unfold lineToks; rw [hW]; rfl
    have hbr : (trimWs line).contains ']' = (lineToks line).any (fun t => t.toList.contains ']') :=
      contains_trimWs_eq_any (by decide) line
    have hname := secOfName_line line
    have hcont := lineToks_content line
    have hemp : (trimWs (splitAt1 (· = '#') (trimWs line)).1).isEmpty =
        (stripComment (lineToks line)).isEmpty := by
      rw [← hcont]
      unfold lineToks
      rw [isEmpty_trimWs_iff, splitWs_trimWs]
      cases splitWs (splitAt1 (fun x => decide (x = '#')) (trimWs line)).1 <;> rfl
    unfold stepLineC stepLine
    simp only
    rw [← hname, ← hemp, ← hcont]
    rw [hl] at hbr ⊢
    simp only [isHeader, ← hbr, String.toList_ofList, List.head?_cons]
    rw [hT]
    simp only [List.isEmpty_cons, Bool.false_or, List.head?_cons, Option.some.injEq, decide_eq_true_eq]
    by_cases h1 : c = '#'
    · simp [h1, mapOk, liftSt]
    · simp only [h1, if_false]
      by_cases h2 : (c = '[' ∧ (c :: y).contains ']' = true)
      · have h2' : (decide (c = '[') && (c :: y).contains ']') = true := by
          rw [Bool.and_eq_true]; exact ⟨decide_eq_true h2.1, h2.2⟩
        simp only [h2', if_true]
        cases secOfName (String.ofList ((trimBrackets (c :: y)).map Char.toLower)) with
        | none => rfl
        | some s =>
          simp only [toSecs_sel, Option.isSome_map]
          by_cases h3 : (sc s).isSome = true
          · simp [h3, mapOk]
          · simp only [h3, Bool.false_eq_true, if_false, mapOk, liftSt, toSecs_put]
            rfl
      · have h2' : (decide (c = '[') && (c :: y).contains ']') = false := by
          rw [Bool.eq_false_iff]
          intro h
          simp only [Bool.and_eq_true, decide_eq_true_eq] at h
          exact h2 h
        simp only [h2', Bool.false_eq_true, if_false]
        cases cur with
        | none => rfl
        | some s =>
          simp only
          by_cases h3 : (trimWs (splitAt1 (fun x => decide (x = '#')) (c :: y)).1).isEmpty = true
          · simp [h3, mapOk, liftSt]
          · simp only [h3, Bool.false_eq_true, if_false, mapOk, liftSt, toSecs_put, toSecs_sel]
            congr 2
            cases sc s <;> simp

theorem parseLines_tokenise : ∀ (ls : List (List Char)) (sc : SecsC) (cur : Option Sec),
    parseLines (ls.map lineToks) (toSecs sc, cur) = mapOk toSecs (parseLinesC ls (sc, cur))
  | [], _, _ => rfl
  | l :: ls, sc, cur => by
    rw [List.map_cons, parseLines, parseLinesC, stepLine_lineToks]
    cases stepLineC (sc, cur) l with
    | error e => rfl
    | ok st' =>
      simp only [mapOk, liftSt]
      exact parseLines_tokenise ls st'.1 st'.2

/-- **the character-level section parser is the token-level one after tokenisation** -/
theorem parseFileC_eq (cs : List Char) : parseFileC cs = parseFile (tokenise cs) := by
  unfold parseFileC parseFile tokenise
  have h0 : (({} : Secs), (none : Option Sec)) = (toSecs (fun _ => none), none) := rfl
  rw [h0, parseLines_tokenise]
  cases parseLinesC (linesOf cs) (fun _ => none, none) with
  | error e => rfl
  | ok secs =>
    simp only [mapOk, toSecs]
    cases secs .smeta with
    | none => rfl
    | some mt =>
      simp only [Option.map_some]
      cases secs .sbetas with
      | none => rfl
      | some bs =>
        simp only [Option.map_some]
        cases parseMeta (mt.map lineToks) with
        | error e => rfl
        | ok v => rfl

theorem loadChars_eq (ns : Nat) (cs : List Char) : loadChars ns cs = load ns (tokenise cs) := by
  unfold loadChars load
  rw [parseFileC_eq]
  cases parseFile (tokenise cs) <;> rfl

end CmapText
end HC
