/-
  Well-formedness is preserved by the link / unlink cores (`components/betas.rs`), for any number
  of β rows (`nb = 3` for CMap2, `nb = 4` for CMap3).
-/
import Honeycomb.Model.WF
import Honeycomb.Lemmas.Run

set_option linter.unusedSimpArgs false

namespace HC
variable {X : Type}

/-! ## sizes -/

theorem Sized.okβ {nb : Nat} {m : Map X} (h : Sized nb m) (i d : Nat) :
    m.okβ i d = true ↔ i < nb ∧ d < m.n := by
  unfold Map.okβ
  simp only [Bool.and_eq_true, decide_eq_true_eq, h.rows]
  constructor
  · intro ⟨h1, h2⟩; rw [h.row i h1] at h2; exact ⟨h1, h2⟩
  · intro ⟨h1, h2⟩; rw [h.row i h1]; exact ⟨h1, h2⟩

theorem Sized.okU {nb : Nat} {m : Map X} (h : Sized nb m) (d : Nat) :
    m.okU d = true ↔ d < m.n := by
  unfold Map.okU; simp [h.usz]

theorem Sized.setβ {nb : Nat} {m : Map X} (h : Sized nb m) (i d v : Nat) : Sized nb (m.setβ i d v) := by
  refine ⟨h.npos, ?_, ?_, h.usz, h.asz⟩
  · simp [Map.setβ, size_wr, h.rows]
  · intro j hj
    simp only [Map.setβ, rd_wr]
    split
    · rename_i hh; rw [size_wr, hh.1]; exact h.row j hj
    · exact h.row j hj

theorem Sized.setU {nb : Nat} {m : Map X} (h : Sized nb m) (d : Nat) (v : Bool) : Sized nb (m.setU d v) := by
  refine ⟨h.npos, h.rows, h.row, ?_, h.asz⟩
  simp [Map.setU, size_wr, h.usz]

theorem Sized.sameTopo {nb : Nat} {m m' : Map X} (h : Sized nb m) (st : SameTopo m m') : Sized nb m' := by
  refine ⟨by rw [st.n]; exact h.npos, by rw [st.b]; exact h.rows, ?_, by rw [st.u, st.n]; exact h.usz, ?_⟩
  · intro i hi; rw [st.b, st.n]; exact h.row i hi
  · intro s hs; rw [st.n, st.rsz]; rw [st.asz] at hs; exact h.asz s hs

theorem SameTopo.β {m m' : Map X} (st : SameTopo m m') (i d : Nat) : m'.β i d = m.β i d := by
  unfold Map.β; rw [st.b]

theorem SameTopo.unused {m m' : Map X} (st : SameTopo m m') (d : Nat) : m'.unused d = m.unused d := by
  unfold Map.unused; rw [st.u]

theorem WFβ.sameTopo {nb : Nat} {m m' : Map X} (h : WFβ nb m) (st : SameTopo m m') : WFβ nb m' := by
  have hb : ∀ i d, m'.β i d = m.β i d := st.β
  have hu : ∀ d, m'.unused d = m.unused d := st.unused
  constructor
  · intro i hi; rw [hb]; exact h.null i hi
  · intro i hi d hd; rw [hb, st.n]; rw [st.n] at hd; exact h.range i hi d hd
  · intro d hd; simp only [hb]; rw [st.n] at hd; exact h.inv01 d hd
  · intro d hd; simp only [hb]; rw [st.n] at hd; exact h.inv10 d hd
  · intro i hi h2 d hd; simp only [hb]; rw [st.n] at hd; exact h.invol i hi h2 d hd
  · intro d hd; simp only [hb, hu]; rw [st.n] at hd; exact h.unusedFree d hd

theorem WF.sameTopo {nb : Nat} {m m' : Map X} (h : WF nb m) (st : SameTopo m m') : WF nb m' :=
  ⟨h.toSized.sameTopo st, h.toWFβ.sameTopo st⟩

/-- simplified lens law on sized maps -/
theorem Sized.β_setβ {nb : Nat} {m : Map X} (h : Sized nb m) {i d : Nat} (hi : i < nb) (hd : d < m.n)
    (v j e : Nat) : (m.setβ i d v).β j e = if i = j ∧ d = e then v else m.β j e := by
  rw [Map.β_setβ]
  have : m.okβ i d = true := (h.okβ i d).2 ⟨hi, hd⟩
  simp [this]

/-! ## what a successful core call did -/

theorem oneLinkCore_ok {l r : Nat} {m m' : Map X} {u : Unit}
    (h : run (oneLinkCore (X := X) l r) m = (.ok u, m')) :
    m.okβ 1 l = true ∧ m.okβ 0 r = true ∧ m.β 1 l = 0 ∧ m.β 0 r = 0 ∧
      m' = (m.setβ 1 l r).setβ 0 r l := by
  unfold oneLinkCore at h
  simp only [Prog.bind_eq, bind, run_rB] at h
  by_cases h1 : m.okβ 1 l = true
  · simp only [h1, if_true] at h
    by_cases h2 : m.β 1 l = 0
    · simp only [h2, ne_eq, not_true_eq_false, if_false, run_rB] at h
      by_cases h3 : m.okβ 0 r = true
      · simp only [h3, if_true] at h
        by_cases h4 : m.β 0 r = 0
        · simp only [h4, ne_eq, not_true_eq_false, if_false, run_wB, h1, if_true, run_wB',
            Map.okβ_setβ, h3] at h
          simp only [Prod.mk.injEq] at h
          exact ⟨h1, h3, h2, h4, h.2.symm⟩
        · simp [h4] at h
      · simp [h3] at h
    · simp [h2] at h
  · simp [h1] at h

theorem iLinkCore_ok {i l r : Nat} {m m' : Map X} {u : Unit}
    (h : run (iLinkCore (X := X) i l r) m = (.ok u, m')) :
    m.okβ i l = true ∧ m.okβ i r = true ∧ m.β i l = 0 ∧ m.β i r = 0 ∧
      m' = (m.setβ i l r).setβ i r l := by
  unfold iLinkCore at h
  simp only [Prog.bind_eq, bind, run_rB] at h
  by_cases h1 : m.okβ i l = true
  · simp only [h1, if_true] at h
    by_cases h2 : m.β i l = 0
    · simp only [h2, ne_eq, not_true_eq_false, if_false, run_rB] at h
      by_cases h3 : m.okβ i r = true
      · simp only [h3, if_true] at h
        by_cases h4 : m.β i r = 0
        · simp only [h4, ne_eq, not_true_eq_false, if_false, run_wB, h1, if_true, run_wB',
            Map.okβ_setβ, h3] at h
          simp only [Prod.mk.injEq] at h
          exact ⟨h1, h3, h2, h4, h.2.symm⟩
        · simp [h4] at h
      · simp [h3] at h
    · simp [h2] at h
  · simp [h1] at h

theorem oneUnlinkCore_ok {l : Nat} {m m' : Map X} {u : Unit}
    (h : run (oneUnlinkCore (X := X) l) m = (.ok u, m')) :
    m.okβ 1 l = true ∧ m.okβ 0 (m.β 1 l) = true ∧ m.β 1 l ≠ 0 ∧
      m' = (m.setβ 1 l 0).setβ 0 (m.β 1 l) 0 := by
  unfold oneUnlinkCore at h
  simp only [Prog.bind_eq, bind, run_rB] at h
  by_cases h1 : m.okβ 1 l = true
  · simp only [h1, if_true, run_wB] at h
    by_cases h2 : m.β 1 l = 0
    · simp [h2] at h
    · simp only [h2, if_false, run_wB', Map.okβ_setβ] at h
      by_cases h3 : m.okβ 0 (m.β 1 l) = true
      · simp only [h3, if_true, Prod.mk.injEq] at h
        exact ⟨h1, h3, h2, h.2.symm⟩
      · simp [h3] at h
  · simp [h1] at h

theorem iUnlinkCore_ok {i l : Nat} {m m' : Map X} {u : Unit}
    (h : run (iUnlinkCore (X := X) i l) m = (.ok u, m')) :
    m.okβ i l = true ∧ m.okβ i (m.β i l) = true ∧ m.β i l ≠ 0 ∧
      m' = (m.setβ i l 0).setβ i (m.β i l) 0 := by
  unfold iUnlinkCore at h
  simp only [Prog.bind_eq, bind, run_rB] at h
  by_cases h1 : m.okβ i l = true
  · simp only [h1, if_true, run_wB] at h
    by_cases h2 : m.β i l = 0
    · simp [h2] at h
    · simp only [h2, if_false, run_wB', Map.okβ_setβ] at h
      by_cases h3 : m.okβ i (m.β i l) = true
      · simp only [h3, if_true, Prod.mk.injEq] at h
        exact ⟨h1, h3, h2, h.2.symm⟩
      · simp [h3] at h
  · simp [h1] at h

/-! ## the four write patterns preserve WF -/

/-- β1 l := r ; β0 r := l  on a 1-free `l` and a 0-free `r` -/
theorem WF.link1 {nb : Nat} {m : Map X} (h : WF nb m) (hnb : 2 ≤ nb) {l r : Nat}
    (hl : l ≠ 0) (hr : r ≠ 0) (hln : l < m.n) (hrn : r < m.n)
    (hul : m.unused l = false) (hur : m.unused r = false)
    (h1 : m.β 1 l = 0) (h0 : m.β 0 r = 0) : WF nb ((m.setβ 1 l r).setβ 0 r l) := by
  have s1 : Sized nb (m.setβ 1 l r) := h.toSized.setβ _ _ _
  have e : ∀ j e, ((m.setβ 1 l r).setβ 0 r l).β j e =
      if 0 = j ∧ r = e then l else if 1 = j ∧ l = e then r else m.β j e := by
    intro j e
    rw [s1.β_setβ (by omega) (by simpa [Map.n_setβ] using hrn), h.toSized.β_setβ (by omega) hln]
  refine ⟨s1.setβ _ _ _, ?_⟩
  have hn : ((m.setβ 1 l r).setβ 0 r l).n = m.n := rfl
  have hu : ∀ d, ((m.setβ 1 l r).setβ 0 r l).unused d = m.unused d := fun _ => rfl
  constructor
  · intro i hi
    rw [e]
    have : ¬ (0 = i ∧ r = 0) := fun hh => hr hh.2
    have : ¬ (1 = i ∧ l = 0) := fun hh => hl hh.2
    simp [*]; exact h.null i hi
  · intro i hi d hd
    rw [e, hn]; rw [hn] at hd
    split
    · exact hln
    · split
      · exact hrn
      · exact h.range i hi d hd
  · intro d hd
    rw [hn] at hd
    simp only [e]
    simp only [show ¬ (0 = 1) by omega, false_and, if_false, true_and]
    by_cases hdl : l = d
    · subst hdl; simp
    · simp only [hdl, if_false]
      intro hne
      have hinv := h.inv01 d hd hne
      have : r ≠ m.β 1 d := by
        intro hh; rw [← hh, h0] at hinv
        rw [← hinv] at hne; exact hne (h.null 1 (by omega))
      simp [this, hinv]
  · intro d hd
    rw [hn] at hd
    simp only [e]
    simp only [show ¬ (1 = 0) by omega, false_and, if_false, true_and]
    by_cases hdr : r = d
    · subst hdr; simp
    · simp only [hdr, if_false]
      intro hne
      have hinv := h.inv10 d hd hne
      have : l ≠ m.β 0 d := by
        intro hh; rw [← hh, h1] at hinv
        rw [← hinv] at hne; exact hne (h.null 0 (by omega))
      simp [this, hinv]
  · intro i hi h2 d hd
    rw [hn] at hd
    simp only [e]
    have a0 : ∀ x, ¬ (0 = i ∧ x) := fun x hh => by omega
    have a1 : ∀ x, ¬ (1 = i ∧ x) := fun x hh => by omega
    simp only [a0, a1, if_false]
    exact h.invol i hi h2 d hd
  · intro d hd hud i hi
    rw [hn] at hd; rw [hu] at hud
    rw [e]
    have : r ≠ d := fun hh => by subst hh; simp [hur] at hud
    have : l ≠ d := fun hh => by subst hh; simp [hul] at hud
    simp [*]
    exact h.unusedFree d hd hud i hi

/-- βi l := r ; βi r := l  (i ≥ 2) on two distinct i-free darts -/
theorem WF.linkI {nb : Nat} {m : Map X} (h : WF nb m) {i : Nat} (hi2 : 2 ≤ i) (hinb : i < nb) {l r : Nat}
    (hl : l ≠ 0) (hr : r ≠ 0) (hlr : l ≠ r) (hln : l < m.n) (hrn : r < m.n)
    (hul : m.unused l = false) (hur : m.unused r = false)
    (h1 : m.β i l = 0) (h0 : m.β i r = 0) : WF nb ((m.setβ i l r).setβ i r l) := by
  have s1 : Sized nb (m.setβ i l r) := h.toSized.setβ _ _ _
  have e : ∀ j e, ((m.setβ i l r).setβ i r l).β j e =
      if i = j ∧ r = e then l else if i = j ∧ l = e then r else m.β j e := by
    intro j e
    rw [s1.β_setβ hinb (by simpa [Map.n_setβ] using hrn), h.toSized.β_setβ hinb hln]
  refine ⟨s1.setβ _ _ _, ?_⟩
  have hn : ((m.setβ i l r).setβ i r l).n = m.n := rfl
  have hu : ∀ d, ((m.setβ i l r).setβ i r l).unused d = m.unused d := fun _ => rfl
  constructor
  · intro j hj
    rw [e]
    have : ¬ (i = j ∧ r = 0) := fun hh => hr hh.2
    have : ¬ (i = j ∧ l = 0) := fun hh => hl hh.2
    simp [*]; exact h.null j hj
  · intro j hj d hd
    rw [e, hn]; rw [hn] at hd
    split
    · exact hln
    · split
      · exact hrn
      · exact h.range j hj d hd
  · intro d hd
    rw [hn] at hd
    simp only [e]
    have a0 : ∀ x, ¬ (i = 0 ∧ x) := fun x hh => by omega
    have a1 : ∀ x, ¬ (i = 1 ∧ x) := fun x hh => by omega
    simp only [a0, a1, if_false]
    exact h.inv01 d hd
  · intro d hd
    rw [hn] at hd
    simp only [e]
    have a0 : ∀ x, ¬ (i = 0 ∧ x) := fun x hh => by omega
    have a1 : ∀ x, ¬ (i = 1 ∧ x) := fun x hh => by omega
    simp only [a0, a1, if_false]
    exact h.inv10 d hd
  · intro j hj h2 d hd
    rw [hn] at hd
    simp only [e]
    by_cases hij : i = j
    · subst hij
      simp only [true_and]
      by_cases hdr : r = d
      · subst hdr
        have : ¬ r = l := fun hh => hlr hh.symm
        simp [hlr, this]
      · simp only [hdr, if_false]
        by_cases hdl : l = d
        · subst hdl
          have : ¬ r = l := fun hh => hlr hh.symm
          simp [hlr, this]
        · simp only [hdl, if_false]
          intro hne
          have hinv := h.invol i hj h2 d hd hne
          have n1 : r ≠ m.β i d := by
            intro hh; rw [← hh, h0] at hinv
            have := hinv.1; rw [← this] at hne; exact hne (h.null i hj)
          have n2 : l ≠ m.β i d := by
            intro hh; rw [← hh, h1] at hinv
            have := hinv.1; rw [← this] at hne; exact hne (h.null i hj)
          simp [n1, n2, hinv]
    · simp only [hij, false_and, if_false]
      exact h.invol j hj h2 d hd
  · intro d hd hud j hj
    rw [hn] at hd; rw [hu] at hud
    rw [e]
    have : r ≠ d := fun hh => by subst hh; simp [hur] at hud
    have : l ≠ d := fun hh => by subst hh; simp [hul] at hud
    simp [*]
    exact h.unusedFree d hd hud j hj

/-- β1 l := 0 ; β0 (β1 l) := 0 -/
theorem WF.unlink1 {nb : Nat} {m : Map X} (h : WF nb m) (hnb : 2 ≤ nb) {l : Nat}
    (hln : l < m.n) (hne : m.β 1 l ≠ 0) : WF nb ((m.setβ 1 l 0).setβ 0 (m.β 1 l) 0) := by
  have hrn : m.β 1 l < m.n := h.range 1 (by omega) l hln
  have hback : m.β 0 (m.β 1 l) = l := h.inv01 l hln hne
  have s1 : Sized nb (m.setβ 1 l 0) := h.toSized.setβ _ _ _
  have e : ∀ j e, ((m.setβ 1 l 0).setβ 0 (m.β 1 l) 0).β j e =
      if 0 = j ∧ m.β 1 l = e then 0 else if 1 = j ∧ l = e then 0 else m.β j e := by
    intro j e
    rw [s1.β_setβ (by omega) (by simpa [Map.n_setβ] using hrn), h.toSized.β_setβ (by omega) hln]
  refine ⟨s1.setβ _ _ _, ?_⟩
  have hn : ((m.setβ 1 l 0).setβ 0 (m.β 1 l) 0).n = m.n := rfl
  have hu : ∀ d, ((m.setβ 1 l 0).setβ 0 (m.β 1 l) 0).unused d = m.unused d := fun _ => rfl
  constructor
  · intro i hi
    rw [e]; split
    · rfl
    · split
      · rfl
      · exact h.null i hi
  · intro i hi d hd
    rw [e, hn]; rw [hn] at hd
    split
    · exact h.npos
    · split
      · exact h.npos
      · exact h.range i hi d hd
  · intro d hd
    rw [hn] at hd
    simp only [e]
    simp only [show ¬ (0 = 1) by omega, false_and, if_false, true_and]
    by_cases hdl : l = d
    · subst hdl; simp
    · simp only [hdl, if_false]
      intro hne'
      have hinv := h.inv01 d hd hne'
      have : m.β 1 l ≠ m.β 1 d := by
        intro hh; rw [← hh, hback] at hinv; exact hdl hinv
      simp [this, hinv]
  · intro d hd
    rw [hn] at hd
    simp only [e]
    simp only [show ¬ (1 = 0) by omega, false_and, if_false, true_and]
    by_cases hdr : m.β 1 l = d
    · simp [hdr]
    · simp only [hdr, if_false]
      intro hne'
      have hinv := h.inv10 d hd hne'
      have : l ≠ m.β 0 d := by
        intro hh; rw [← hh] at hinv; exact hdr hinv
      simp [this, hinv]
  · intro i hi h2 d hd
    rw [hn] at hd
    simp only [e]
    have a0 : ∀ x, ¬ (0 = i ∧ x) := fun x hh => by omega
    have a1 : ∀ x, ¬ (1 = i ∧ x) := fun x hh => by omega
    simp only [a0, a1, if_false]
    exact h.invol i hi h2 d hd
  · intro d hd hud i hi
    rw [hn] at hd; rw [hu] at hud
    rw [e]; split
    · rfl
    · split
      · rfl
      · exact h.unusedFree d hd hud i hi

/-- βi l := 0 ; βi (βi l) := 0  (i ≥ 2) -/
theorem WF.unlinkI {nb : Nat} {m : Map X} (h : WF nb m) {i : Nat} (hi2 : 2 ≤ i) (hinb : i < nb) {l : Nat}
    (hln : l < m.n) (hne : m.β i l ≠ 0) : WF nb ((m.setβ i l 0).setβ i (m.β i l) 0) := by
  have hrn : m.β i l < m.n := h.range i hinb l hln
  have hback := h.invol i hinb hi2 l hln hne
  have s1 : Sized nb (m.setβ i l 0) := h.toSized.setβ _ _ _
  have e : ∀ j e, ((m.setβ i l 0).setβ i (m.β i l) 0).β j e =
      if i = j ∧ m.β i l = e then 0 else if i = j ∧ l = e then 0 else m.β j e := by
    intro j e
    rw [s1.β_setβ hinb (by simpa [Map.n_setβ] using hrn), h.toSized.β_setβ hinb hln]
  refine ⟨s1.setβ _ _ _, ?_⟩
  have hn : ((m.setβ i l 0).setβ i (m.β i l) 0).n = m.n := rfl
  have hu : ∀ d, ((m.setβ i l 0).setβ i (m.β i l) 0).unused d = m.unused d := fun _ => rfl
  constructor
  · intro j hj
    rw [e]; split
    · rfl
    · split
      · rfl
      · exact h.null j hj
  · intro j hj d hd
    rw [e, hn]; rw [hn] at hd
    split
    · exact h.npos
    · split
      · exact h.npos
      · exact h.range j hj d hd
  · intro d hd
    rw [hn] at hd
    simp only [e]
    have a0 : ∀ x, ¬ (i = 0 ∧ x) := fun x hh => by omega
    have a1 : ∀ x, ¬ (i = 1 ∧ x) := fun x hh => by omega
    simp only [a0, a1, if_false]
    exact h.inv01 d hd
  · intro d hd
    rw [hn] at hd
    simp only [e]
    have a0 : ∀ x, ¬ (i = 0 ∧ x) := fun x hh => by omega
    have a1 : ∀ x, ¬ (i = 1 ∧ x) := fun x hh => by omega
    simp only [a0, a1, if_false]
    exact h.inv10 d hd
  · intro j hj h2 d hd
    rw [hn] at hd
    simp only [e]
    by_cases hij : i = j
    · subst hij
      simp only [true_and]
      by_cases hdr : m.β i l = d
      · simp [hdr]
      · simp only [hdr, if_false]
        by_cases hdl : l = d
        · simp [hdl]
        · simp only [hdl, if_false]
          intro hne'
          have hinv := h.invol i hj h2 d hd hne'
          have n1 : m.β i l ≠ m.β i d := by
            intro hh; rw [← hh, hback.1] at hinv; exact hdl hinv.1
          have n2 : l ≠ m.β i d := by
            intro hh; rw [← hh] at hinv; exact hdr hinv.1
          simp [n1, n2, hinv]
    · simp only [hij, false_and, if_false]
      exact h.invol j hj h2 d hd
  · intro d hd hud j hj
    rw [hn] at hd; rw [hu] at hud
    rw [e]; split
    · rfl
    · split
      · rfl
      · exact h.unusedFree d hd hud j hj

end HC
