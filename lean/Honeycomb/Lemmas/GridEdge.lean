/-
  Edges of the plain 2-D grid as computed by the code (`edge_id`, `iter_edges`): a dart is an edge
  identifier iff it is the right or top side of its cell, or the left side of a cell of the first
  column, or the bottom side of a cell of the first row; `iter_edges` yields
  `2·nx·ny + nx + ny = nx·(ny+1) + ny·(nx+1)` identifiers for every size.
-/
import Honeycomb.Lemmas.GridVertex
import Honeycomb.Lemmas.GridCount

namespace HC.GridEdge
open HC HC.Gen HC.GridBfs HC.GridVertex HC.GridCount

variable {nx ny : Nat} {m : Map Val}

/-- non-transactional `edge_id` -/
def eid2 (m : Map Val) (d : Nat) : Nat := okVal (run (edgeId2 d) m) 0

theorem eid2_eq (wf : WF 3 m) {d : Nat} (hd : d < m.n) :
    eid2 m d = if m.β 2 d = 0 then d else min (m.β 2 d) d := by
  unfold eid2 edgeId2
  simp only [Prog.bind_eq, run_rB, okβ_of_wf wf (by decide : 2 < 3) hd, if_true]
  split <;> rfl

/-- which darts are edge identifiers -/
theorem eid_iff (hnx : 0 < nx) (hny : 0 < ny) (st : SameTopo (G2 nx ny) m) {a b k : Nat}
    (ha : a < nx) (hb : b < ny) (hk : k < 4) :
    eid2 m (D nx ny a b k) = D nx ny a b k ↔ (k = 1 ∨ k = 2 ∨ (k = 3 ∧ a = 0) ∨ (k = 0 ∧ b = 0)) := by
  have wf : WF 3 m := (G2_wf hnx hny).sameTopo st
  have hdn : D nx ny a b k < m.n := by rw [st.n]; exact D_lt ha hb hk
  rw [eid2_eq wf hdn]
  have fxp := cellIdx_xp nx ny a b 0
  have fyp := cellIdx_yp nx ny a b 0
  have fxm := cellIdx_xm nx ny a b 0
  have fym := cellIdx_ym nx ny a b 0
  have k4 : k = 0 ∨ k = 1 ∨ k = 2 ∨ k = 3 := by omega
  rcases k4 with rfl | rfl | rfl | rfl
  · rw [β2_D0 st ha hb]
    by_cases h : b = 0
    · simp [h]
    · have hlt : D nx ny a (b - 1) 2 < D nx ny a b 0 := D_lt_of_cell (by decide) (by omega)
      have h2 : D nx ny a (b - 1) 2 ≠ 0 := by
        have := D_pos (nx := nx) (ny := ny) (a := a) (b := b - 1) (k := 2); omega
      rw [if_neg h, if_neg h2]
      constructor
      · intro e; omega
      · intro e
        rcases e with e | e | ⟨e, _⟩ | ⟨_, e⟩ <;> omega
  · rw [β2_D1 st ha hb]
    by_cases h : a + 1 = nx
    · simp [h]
    · have hlt : D nx ny a b 1 < D nx ny (a + 1) b 3 := D_lt_of_cell (by decide) (by omega)
      have h2 : D nx ny (a + 1) b 3 ≠ 0 := by omega
      rw [if_neg h, if_neg h2]
      constructor
      · intro _; exact Or.inl rfl
      · intro _; omega
  · rw [β2_D2 st ha hb]
    by_cases h : b + 1 = ny
    · simp [h]
    · have hlt : D nx ny a b 2 < D nx ny a (b + 1) 0 := D_lt_of_cell (by decide) (by omega)
      have h2 : D nx ny a (b + 1) 0 ≠ 0 := by omega
      rw [if_neg h, if_neg h2]
      constructor
      · intro _; exact Or.inr (Or.inl rfl)
      · intro _; omega
  · rw [β2_D3 st ha hb]
    by_cases h : a = 0
    · simp [h]
    · have hlt : D nx ny (a - 1) b 1 < D nx ny a b 3 := D_lt_of_cell (by decide) (by omega)
      have h2 : D nx ny (a - 1) b 1 ≠ 0 := by
        have := D_pos (nx := nx) (ny := ny) (a := a - 1) (b := b) (k := 1); omega
      rw [if_neg h, if_neg h2]
      constructor
      · intro e; omega
      · intro e
        rcases e with e | e | ⟨_, e⟩ | ⟨e, _⟩ <;> omega

/-- coding of the edge identifiers by `0 .. 2·nx·ny + ny + nx − 1` -/
def ecode (nx ny d : Nat) : Nat :=
  let c := (d - 1) / 4
  let k := (d - 1) % 4
  if k = 1 then 2 * c else if k = 2 then 2 * c + 1
  else if k = 3 then 2 * (nx * ny) + c / nx else 2 * (nx * ny) + ny + c % nx

theorem ecode_D {a b k : Nat} (ha : a < nx) (hk : k < 4) :
    ecode nx ny (D nx ny a b k) =
      if k = 1 then 2 * (a + nx * b) else if k = 2 then 2 * (a + nx * b) + 1
      else if k = 3 then 2 * (nx * ny) + b else 2 * (nx * ny) + ny + a := by
  unfold ecode D
  simp only [dartOf_cell hk, dartOf_local hk, cellIdx_x ha, cellIdx_div ha]
  simp [cellIdx]

/-- `iter_edges` yields `2·nx·ny + ny + nx` identifiers -/
theorem iterEdges_length (hnx : 0 < nx) (hny : 0 < ny) (st : SameTopo (G2 nx ny) m) :
    (iterEdges2 m).length = 2 * (nx * ny) + ny + nx := by
  have hn : m.n = 4 * nx * ny + 1 := st.n
  unfold iterEdges2 iterCells
  have hcongr : (List.range m.n).filter (fun d => decide (d ≠ 0 ∧ (!m.unused d) = true ∧
        okVal (run (edgeId2 d) m) 0 = d)) =
      (List.range m.n).filter (fun d => decide (d ≠ 0 ∧ eid2 m d = d)) := by
    apply List.filter_congr
    intro d hd
    have hu : m.unused d = false := by rw [st.unused]; exact gridMap_unused _ _ _ _
    rw [decide_eq_decide]
    simp [hu, eid2]
  rw [hcongr]
  have hN : (4 * nx * ny) = 4 * (nx * ny) := Nat.mul_assoc 4 nx ny
  apply length_filter_bij m.n _ _ (ecode nx ny)
  · intro x hx px y hy py h
    simp only [ne_eq, decide_eq_true_eq] at px py
    obtain ⟨a, b, k, ha, hb, hk, rfl⟩ := isDart_of_range (d := x) hnx hny (by omega) (by omega)
    obtain ⟨a', b', k', ha', hb', hk', rfl⟩ := isDart_of_range (d := y) hnx hny (by omega) (by omega)
    have ix := (eid_iff hnx hny st ha hb hk).mp px.2
    have iy := (eid_iff hnx hny st ha' hb' hk').mp py.2
    rw [ecode_D ha hk, ecode_D ha' hk'] at h
    have c1 := cellIdx_lt (nz := 1) ha hb (Nat.lt_succ_self 0)
    have c2 := cellIdx_lt (nz := 1) ha' hb' (Nat.lt_succ_self 0)
    simp only [cellIdx, Nat.mul_zero, Nat.add_zero, Nat.mul_one] at c1 c2
    have m1 := add_mul_mod (n := nx) b ha
    have m2 := add_mul_mod (n := nx) b' ha'
    have d1 := add_mul_div (n := nx) b ha
    have d2 := add_mul_div (n := nx) b' ha'
    have key : a + nx * b = a' + nx * b' → a = a' ∧ b = b' := by
      intro e; rw [e] at m1 d1; exact ⟨m1.symm.trans m2, d1.symm.trans d2⟩
    have fin : a = a' ∧ b = b' ∧ k = k' := by
      rcases ix with rfl | rfl | ⟨rfl, rfl⟩ | ⟨rfl, rfl⟩ <;>
        rcases iy with rfl | rfl | ⟨rfl, rfl⟩ | ⟨rfl, rfl⟩ <;>
        (try simp at h) <;> omega
    obtain ⟨rfl, rfl, rfl⟩ := fin
    rfl
  · intro x hx px
    simp only [ne_eq, decide_eq_true_eq] at px
    obtain ⟨a, b, k, ha, hb, hk, rfl⟩ := isDart_of_range (d := x) hnx hny (by omega) (by omega)
    have ix := (eid_iff hnx hny st ha hb hk).mp px.2
    rw [ecode_D ha hk]
    have c1 := cellIdx_lt (nz := 1) ha hb (Nat.lt_succ_self 0)
    simp only [cellIdx, Nat.mul_zero, Nat.add_zero, Nat.mul_one] at c1
    rcases ix with rfl | rfl | ⟨rfl, rfl⟩ | ⟨rfl, rfl⟩ <;> simp <;> omega
  · intro t ht
    by_cases h1 : t < 2 * (nx * ny)
    · -- right / top side of cell `t / 2`
      have hc : t / 2 < nx * ny := by omega
      have hd1 : 1 ≤ 1 + 4 * (t / 2) + (1 + t % 2) := by omega
      have hd2 : 1 + 4 * (t / 2) + (1 + t % 2) ≤ 4 * nx * ny := by omega
      obtain ⟨a, b, k, ha, hb, hk, e⟩ := isDart_of_range hnx hny hd1 hd2
      have ec : (1 + 4 * (t / 2) + (1 + t % 2) - 1) / 4 = t / 2 := by omega
      have ek : (1 + 4 * (t / 2) + (1 + t % 2) - 1) % 4 = 1 + t % 2 := by omega
      have ec' : (D nx ny a b k - 1) / 4 = cellIdx nx ny a b 0 := dartOf_cell hk
      have ek' : (D nx ny a b k - 1) % 4 = k := dartOf_local hk
      rw [← e] at ec' ek'
      have hk2 : k = 1 + t % 2 := by omega
      have hcell : a + nx * b = t / 2 := by
        have : cellIdx nx ny a b 0 = t / 2 := by omega
        simpa [cellIdx] using this
      refine ⟨1 + 4 * (t / 2) + (1 + t % 2), by omega, ?_, ?_⟩
      · simp only [ne_eq, decide_eq_true_eq]
        refine ⟨by omega, ?_⟩
        rw [e]
        exact (eid_iff hnx hny st ha hb hk).mpr (by omega)
      · rw [e, ecode_D ha hk, hcell]
        have : t % 2 = 0 ∨ t % 2 = 1 := by omega
        rcases this with h | h <;> simp [hk2, h] <;> omega
    · by_cases h2 : t < 2 * (nx * ny) + ny
      · -- left side of cell (0, b)
        have hb : t - 2 * (nx * ny) < ny := by omega
        refine ⟨D nx ny 0 (t - 2 * (nx * ny)) 3, by rw [hn]; exact D_lt hnx hb (by decide), ?_, ?_⟩
        · simp only [ne_eq, decide_eq_true_eq]
          refine ⟨?_, (eid_iff hnx hny st hnx hb (by decide)).mpr (by omega)⟩
          have := D_pos (nx := nx) (ny := ny) (a := 0) (b := t - 2 * (nx * ny)) (k := 3); omega
        · rw [ecode_D hnx (by decide)]; simp; omega
      · -- bottom side of cell (a, 0)
        have ha : t - (2 * (nx * ny) + ny) < nx := by omega
        refine ⟨D nx ny (t - (2 * (nx * ny) + ny)) 0 0, by rw [hn]; exact D_lt ha hny (by decide), ?_, ?_⟩
        · simp only [ne_eq, decide_eq_true_eq]
          refine ⟨?_, (eid_iff hnx hny st ha hny (by decide)).mpr (by omega)⟩
          have := D_pos (nx := nx) (ny := ny) (a := t - (2 * (nx * ny) + ny)) (b := 0) (k := 0); omega
        · rw [ecode_D ha (by decide)]; simp; omega

end HC.GridEdge
