/-
  Lemmas for `Props/C16Cross.lean` (step 1 of grisubal, `crossingsOf`): `Rat.floor`, integer ranges,
  the stable insertion sort, affine parametrisations, and the intersection macros in normalised
  coordinates (cell units from the grid origin).
-/
import Mathlib.Algebra.Order.Field.Rat
import Mathlib.Tactic.Linarith
import Mathlib.Tactic.Ring
import Mathlib.Tactic.FieldSimp
import Mathlib.Data.List.Nodup
import Mathlib.Algebra.Order.Ring.Abs
import Honeycomb.Model.Grisubal

set_option linter.unusedSimpArgs false
set_option linter.unusedVariables false

namespace HC.Cross
open HC

/-! ## `Rat.floor` -/

theorem floor_le (q : Rat) : ((q.floor : Int) : Rat) ≤ q := Rat.floor_le q

theorem lt_floor_succ (q : Rat) : q < ((q.floor : Int) : Rat) + 1 := by
  have := Rat.lt_floor_add_one q; push_cast at this; exact this

theorem le_floor {z : Int} {q : Rat} (h : (z : Rat) ≤ q) : z ≤ q.floor := by
  by_contra hc
  have h1 : q.floor + 1 ≤ z := by omega
  have h2 : ((q.floor + 1 : Int) : Rat) ≤ (z : Rat) := Int.cast_le.2 h1
  have := lt_floor_succ q
  push_cast at h2
  linarith

theorem floor_lt {z : Int} {q : Rat} (h : q < (z : Rat)) : q.floor < z := by
  have h1 := floor_le q
  have : ((q.floor : Int) : Rat) < (z : Rat) := lt_of_le_of_lt h1 h
  exact Int.cast_lt.1 this

theorem floor_mono {q r : Rat} (h : q ≤ r) : q.floor ≤ r.floor := le_floor (le_trans (floor_le q) h)

theorem floor_eq {z : Int} {q : Rat} (h1 : (z : Rat) ≤ q) (h2 : q < (z : Rat) + 1) : q.floor = z := by
  have a := le_floor h1
  have b : q.floor < z + 1 := floor_lt (by push_cast; exact h2)
  omega

/-- not an integer -/
def NonInt (q : Rat) : Prop := ∀ z : Int, q ≠ (z : Rat)

theorem NonInt.floor_lt {q : Rat} (h : NonInt q) : ((q.floor : Int) : Rat) < q :=
  lt_of_le_of_ne (Cross.floor_le q) (fun e => h _ e.symm)

/-! ## integer ranges -/

theorem mem_irange {lo hi x : Int} : x ∈ irange lo hi ↔ lo ≤ x ∧ x < hi := by
  unfold irange
  simp only [List.mem_map, List.mem_range]
  constructor
  · rintro ⟨k, hk, rfl⟩; omega
  · rintro ⟨h1, h2⟩; exact ⟨(x - lo).toNat, by omega, by omega⟩

theorem irange_pairwise (lo hi : Int) : (irange lo hi).Pairwise (· < ·) := by
  unfold irange
  rw [List.pairwise_map]
  exact List.Pairwise.imp (fun h => by omega) List.pairwise_lt_range

theorem irange_single (lo : Int) : irange lo (lo + 1) = [lo] := by
  have : (lo + 1 - lo).toNat = 1 := by omega
  simp [irange, this]

theorem irange_length (lo hi : Int) : (irange lo hi).length = (hi - lo).toNat := by
  simp [irange]

/-! ## the stable insertion sort by `s` -/

theorem mem_insertByS (c d : Cross) (l : List Cross) : d ∈ insertByS c l ↔ d = c ∨ d ∈ l := by
  induction l with
  | nil => simp [insertByS]
  | cons e es ih =>
      unfold insertByS
      split
      · simp
      · simp only [List.mem_cons, ih]
        constructor
        · rintro (h | h | h)
          · exact Or.inr (Or.inl h)
          · exact Or.inl h
          · exact Or.inr (Or.inr h)
        · rintro (h | h | h)
          · exact Or.inr (Or.inl h)
          · exact Or.inl h
          · exact Or.inr (Or.inr h)

theorem insertByS_perm (c : Cross) (l : List Cross) : (insertByS c l).Perm (c :: l) := by
  induction l with
  | nil => simp [insertByS]
  | cons e es ih =>
      unfold insertByS
      split
      · exact List.Perm.refl _
      · exact (List.Perm.cons e ih).trans (List.Perm.swap c e es)

theorem sorted_insertByS (c : Cross) (l : List Cross) (h : l.Pairwise (fun a b => a.s ≤ b.s)) :
    (insertByS c l).Pairwise (fun a b => a.s ≤ b.s) := by
  induction l with
  | nil => simp [insertByS]
  | cons e es ih =>
      unfold insertByS
      rw [List.pairwise_cons] at h
      split
      · rename_i hlt
        rw [List.pairwise_cons]
        refine ⟨?_, List.pairwise_cons.2 h⟩
        intro a ha
        rcases List.mem_cons.1 ha with rfl | ha
        · exact le_of_lt hlt
        · exact le_trans (le_of_lt hlt) (h.1 a ha)
      · rename_i hlt
        rw [List.pairwise_cons]
        refine ⟨?_, ih h.2⟩
        intro a ha
        rcases (mem_insertByS c a es).1 ha with rfl | ha
        · exact not_lt.1 hlt
        · exact h.1 a ha

theorem sortByS_aux_perm (l acc : List Cross) :
    (l.foldl (fun acc c => insertByS c acc) acc).Perm (l ++ acc) := by
  induction l generalizing acc with
  | nil => simp
  | cons c cs ih =>
      simp only [List.foldl_cons]
      refine (ih _).trans ?_
      refine (List.Perm.append_left cs (insertByS_perm c acc)).trans ?_
      simp only [List.cons_append]
      exact List.perm_middle

theorem sortByS_perm (l : List Cross) : (sortByS l).Perm l := by
  have := sortByS_aux_perm l []
  simpa [sortByS] using this

theorem mem_sortByS (l : List Cross) (c : Cross) : c ∈ sortByS l ↔ c ∈ l := (sortByS_perm l).mem_iff

theorem sortByS_aux_sorted (l acc : List Cross) (h : acc.Pairwise (fun a b => a.s ≤ b.s)) :
    (l.foldl (fun acc c => insertByS c acc) acc).Pairwise (fun a b => a.s ≤ b.s) := by
  induction l generalizing acc with
  | nil => simpa
  | cons c cs ih => simp only [List.foldl_cons]; exact ih _ (sorted_insertByS c acc h)

theorem sortByS_sorted (l : List Cross) : (sortByS l).Pairwise (fun a b => a.s ≤ b.s) :=
  sortByS_aux_sorted l [] List.Pairwise.nil

/-- sorted and pairwise distinct keys: strictly sorted -/
theorem strict_of_sorted_nodup {l : List Cross} (h : l.Pairwise (fun a b => a.s ≤ b.s))
    (hn : l.Pairwise (fun a b => a.s ≠ b.s)) : l.Pairwise (fun a b => a.s < b.s) := by
  induction l with
  | nil => exact List.Pairwise.nil
  | cons c cs ih =>
      rw [List.pairwise_cons] at h hn ⊢
      exact ⟨fun a ha => lt_of_le_of_ne (h.1 a ha) (hn.1 a ha), ih h.2 hn.2⟩

theorem sortByS_strict {l : List Cross} (hn : l.Pairwise (fun a b => a.s ≠ b.s)) :
    (sortByS l).Pairwise (fun a b => a.s < b.s) := by
  apply strict_of_sorted_nodup (sortByS_sorted l)
  have h1 : (l.map (·.s)).Nodup := by
    rw [List.Nodup, List.pairwise_map]; exact hn
  have h2 : ((sortByS l).map (·.s)).Nodup := ((sortByS_perm l).map _).nodup_iff.2 h1
  rw [List.Nodup, List.pairwise_map] at h2
  exact h2

/-! ## affine parametrisation of one coordinate -/

/-- the coordinate at parameter `s` -/
def lin (q0 q1 s : Rat) : Rat := q0 + s * (q1 - q0)

/-- the parameter at which the coordinate `p0 → p1` equals `K` -/
def sK (p0 p1 K : Rat) : Rat := (K - p0) / (p1 - p0)

theorem lin_sK {p0 p1 : Rat} (h : p0 ≠ p1) (K : Rat) : lin p0 p1 (sK p0 p1 K) = K := by
  have : p1 - p0 ≠ 0 := sub_ne_zero.2 (Ne.symm h)
  unfold lin sK; field_simp; ring

theorem sK_unique {p0 p1 s K : Rat} (h : p0 ≠ p1) (e : lin p0 p1 s = K) : s = sK p0 p1 K := by
  have : p1 - p0 ≠ 0 := sub_ne_zero.2 (Ne.symm h)
  unfold lin at e; unfold sK; field_simp; linarith

theorem sK_lt_iff_up {p0 p1 K K' : Rat} (h : p0 < p1) : sK p0 p1 K < sK p0 p1 K' ↔ K < K' := by
  unfold sK
  rw [div_lt_div_iff_of_pos_right (by linarith)]
  constructor <;> intro <;> linarith

theorem sK_lt_iff_down {p0 p1 K K' : Rat} (h : p1 < p0) : sK p0 p1 K < sK p0 p1 K' ↔ K' < K := by
  unfold sK
  have e : ∀ K : Rat, (K - p0) / (p1 - p0) = (p0 - K) / (p0 - p1) := by
    intro K; rw [← neg_sub p0 K, ← neg_sub p0 p1, neg_div_neg_eq]
  rw [e K, e K', div_lt_div_iff_of_pos_right (by linarith)]
  constructor <;> intro <;> linarith

theorem sK_zero (p0 p1 : Rat) : sK p0 p1 p0 = 0 := by simp [sK]

theorem sK_one {p0 p1 : Rat} (h : p0 ≠ p1) : sK p0 p1 p1 = 1 := by
  have : p1 - p0 ≠ 0 := sub_ne_zero.2 (Ne.symm h)
  unfold sK; field_simp

/-- `K` strictly between the end values: the parameter is strictly between 0 and 1 -/
theorem sK_mem {p0 p1 K : Rat} (h : (p0 < K ∧ K < p1) ∨ (p1 < K ∧ K < p0)) :
    0 < sK p0 p1 K ∧ sK p0 p1 K < 1 := by
  rcases h with ⟨h1, h2⟩ | ⟨h1, h2⟩
  · have hlt : p0 < p1 := lt_trans h1 h2
    have a := (sK_lt_iff_up (K := p0) (K' := K) hlt).2 h1
    have b := (sK_lt_iff_up (K := K) (K' := p1) hlt).2 h2
    rw [sK_zero] at a; rw [sK_one (ne_of_lt hlt)] at b; exact ⟨a, b⟩
  · have hlt : p1 < p0 := lt_trans h1 h2
    have a := (sK_lt_iff_down (K := p0) (K' := K) hlt).2 h2
    have b := (sK_lt_iff_down (K := K) (K' := p1) hlt).2 h1
    rw [sK_zero] at a; rw [sK_one (ne_of_gt hlt)] at b; exact ⟨a, b⟩

/-- conversely: a parameter strictly inside gives a value strictly between the end values -/
theorem lin_between {p0 p1 s : Rat} (h0 : 0 < s) (h1 : s < 1) (h : p0 ≠ p1) :
    (p0 < lin p0 p1 s ∧ lin p0 p1 s < p1) ∨ (p1 < lin p0 p1 s ∧ lin p0 p1 s < p0) := by
  unfold lin
  rcases lt_or_gt_of_ne h with hlt | hlt
  · left; constructor <;> nlinarith
  · right; constructor <;> nlinarith

theorem lin_gt {q0 q1 s m : Rat} (h0 : 0 ≤ s) (h1 : s ≤ 1) (a : m < q0) (b : m < q1) : m < lin q0 q1 s := by
  have e : lin q0 q1 s - m = (1 - s) * (q0 - m) + s * (q1 - m) := by unfold lin; ring
  rcases le_or_gt s (1 / 2) with h | h
  · have x := mul_pos (by linarith : 0 < 1 - s) (sub_pos.2 a)
    have y := mul_nonneg h0 (le_of_lt (sub_pos.2 b))
    linarith
  · have x := mul_nonneg (by linarith : 0 ≤ 1 - s) (le_of_lt (sub_pos.2 a))
    have y := mul_pos (by linarith : 0 < s) (sub_pos.2 b)
    linarith

theorem lin_lt {q0 q1 s m : Rat} (h0 : 0 ≤ s) (h1 : s ≤ 1) (a : q0 < m) (b : q1 < m) : lin q0 q1 s < m := by
  have e : m - lin q0 q1 s = (1 - s) * (m - q0) + s * (m - q1) := by unfold lin; ring
  rcases le_or_gt s (1 / 2) with h | h
  · have x := mul_pos (by linarith : 0 < 1 - s) (sub_pos.2 a)
    have y := mul_nonneg h0 (le_of_lt (sub_pos.2 b))
    linarith
  · have x := mul_nonneg (by linarith : 0 ≤ 1 - s) (le_of_lt (sub_pos.2 a))
    have y := mul_pos (by linarith : 0 < s) (sub_pos.2 b)
    linarith

theorem lin_sub (q0 q1 s s' : Rat) : lin q0 q1 s - lin q0 q1 s' = (s - s') * (q1 - q0) := by
  unfold lin; ring

/-! ## normalised coordinates and the four macros -/

def nU (g : GGrid) (p : Pt) : Rat := (p.1 - g.ox) / g.cx
def nV (g : GGrid) (p : Pt) : Rat := (p.2 - g.oy) / g.cy

theorem nU_segPoint (g : GGrid) (a b : Pt) (s : Rat) (hcx : 0 < g.cx) :
    nU g (segPoint a b s) = lin (nU g a) (nU g b) s := by
  have h1 : g.cx ≠ 0 := ne_of_gt hcx
  unfold nU segPoint lin; field_simp; ring

theorem nV_segPoint (g : GGrid) (a b : Pt) (s : Rat) (hcy : 0 < g.cy) :
    nV g (segPoint a b s) = lin (nV g a) (nV g b) s := by
  have h1 : g.cy ≠ 0 := ne_of_gt hcy
  unfold nV segPoint lin; field_simp; ring

theorem nU_ne {g : GGrid} {a b : Pt} (hcx : 0 < g.cx) (h : a.1 ≠ b.1) : nU g a ≠ nU g b := by
  have h1 : g.cx ≠ 0 := ne_of_gt hcx
  intro e; apply h
  unfold nU at e
  field_simp at e
  linarith

theorem nV_ne {g : GGrid} {a b : Pt} (hcy : 0 < g.cy) (h : a.2 ≠ b.2) : nV g a ≠ nV g b := by
  have h1 : g.cy ≠ 0 := ne_of_gt hcy
  intro e; apply h
  unfold nV at e
  field_simp at e
  linarith

/-- index of the grid line a directed side lies on: the far side if `pos` -/
def fwd (pos : Bool) (x : Int) : Rat := (x : Rat) + (if pos then 1 else 0)

theorem vCross_s (g : GGrid) (a b : Pt) (pos : Bool) (x y : Int) (hcx : 0 < g.cx) (hd : a.1 ≠ b.1) :
    (vCross g a b pos x y).s = sK (nU g a) (nU g b) (fwd pos x) := by
  have h1 : g.cx ≠ 0 := ne_of_gt hcx
  have h2 : b.1 - a.1 ≠ 0 := sub_ne_zero.2 (Ne.symm hd)
  have h3 : (b.1 - g.ox) / g.cx - (a.1 - g.ox) / g.cx = (b.1 - a.1) / g.cx := by field_simp; ring
  cases pos <;>
    simp only [vCross, leftI, rightI, cornerOf, nU, sK, fwd, if_true, if_false, Bool.false_eq_true] <;>
    (rw [h3]; field_simp; ring)

theorem vCross_t (g : GGrid) (a b : Pt) (pos : Bool) (x y : Int) (hcy : 0 < g.cy) :
    (vCross g a b pos x y).t =
      if pos then lin (nV g a) (nV g b) (vCross g a b pos x y).s - y
      else (y : Rat) + 1 - lin (nV g a) (nV g b) (vCross g a b pos x y).s := by
  have h1 : g.cy ≠ 0 := ne_of_gt hcy
  cases pos <;>
    simp only [vCross, leftI, rightI, cornerOf, nV, lin, if_true, if_false, Bool.false_eq_true] <;>
    (field_simp; ring)

theorem hCross_s (g : GGrid) (a b : Pt) (pos : Bool) (x y : Int) (hcy : 0 < g.cy) (hd : a.2 ≠ b.2) :
    (hCross g a b pos x y).s = sK (nV g a) (nV g b) (fwd pos y) := by
  have h1 : g.cy ≠ 0 := ne_of_gt hcy
  have h2 : b.2 - a.2 ≠ 0 := sub_ne_zero.2 (Ne.symm hd)
  have h3 : (b.2 - g.oy) / g.cy - (a.2 - g.oy) / g.cy = (b.2 - a.2) / g.cy := by field_simp; ring
  cases pos <;>
    simp only [hCross, upI, downI, cornerOf, nV, sK, fwd, if_true, if_false, Bool.false_eq_true] <;>
    (rw [h3]; field_simp; ring)

theorem hCross_t (g : GGrid) (a b : Pt) (pos : Bool) (x y : Int) (hcx : 0 < g.cx) :
    (hCross g a b pos x y).t =
      if pos then (x : Rat) + 1 - lin (nU g a) (nU g b) (hCross g a b pos x y).s
      else lin (nU g a) (nU g b) (hCross g a b pos x y).s - x := by
  have h1 : g.cx ≠ 0 := ne_of_gt hcx
  cases pos <;>
    simp only [hCross, upI, downI, cornerOf, nU, lin, if_true, if_false, Bool.false_eq_true] <;>
    (field_simp; ring)

end HC.Cross
