/-
  L0 theorems (generic in the store):
  * `run_bind_gen`       sequencing of the direct semantics
  * `T1 execLog_sound`   the log semantics of `Transaction::read/write` computes exactly what the
                         direct in-place semantics computes on the store with the log applied
                         (read-your-writes), and `atomicallyLog = atomically`
  * `T2 atomically_err`  a closure that does not return `Ok` publishes nothing
  * composition (C08)    running a list of closures in one atomic block, when each succeeds,
                         equals running them one after the other, each in its own block
-/
import Honeycomb.Model.Stm

namespace HC
open Store

section
variable {S Var Val ε α β : Type} [Store S Var Val]

theorem run_bind_gen (p : Prog Var Val ε α) (f : α → Prog Var Val ε β) (s : S) :
    run (p.bind f) s =
      match run p s with
      | (.ok a, s') => run (f a) s'
      | (.err e, s') => (.err e, s')
      | (.retry, s') => (.retry, s')
      | (.panic, s') => (.panic, s') := by
  induction p generalizing s with
  | ret a => simp [run]
  | read v k ih =>
      simp only [Prog.read_bind, run]
      split
      · exact ih _ s
      · rfl
  | write v x k ih =>
      simp only [Prog.write_bind, run]
      split
      · exact ih _
      · rfl
  | abort e => simp [run]
  | retry => simp [run]
  | panic => simp [run]

/-- **T2**: whatever does not end in `Ok` leaves the store exactly as it was -/
theorem atomically_not_ok (p : Prog Var Val ε α) (s : S)
    (h : ∀ a, (atomically p s).1 ≠ .ok a) : (atomically p s).2 = s := by
  unfold atomically at h ⊢
  match hr : run p s with
  | (.ok a, s') => simp only [hr] at h; exact absurd rfl (h a)
  | (.err e, s') => rfl
  | (.retry, s') => rfl
  | (.panic, s') => rfl

theorem atomically_err (p : Prog Var Val ε α) (s s' : S) (e : ε)
    (h : atomically p s = (.err e, s')) : s' = s := by
  have := atomically_not_ok p s (by intro a; rw [h]; simp)
  rw [h] at this; exact this

theorem atomically_ok {p : Prog Var Val ε α} {s s' : S} {a : α}
    (h : run p s = (.ok a, s')) : atomically p s = (.ok a, s') := by
  unfold atomically; rw [h]

theorem atomically_ok_inv {p : Prog Var Val ε α} {s s' : S} {a : α}
    (h : atomically p s = (.ok a, s')) : run p s = (.ok a, s') := by
  unfold atomically at h
  match hr : run p s with
  | (.ok a', s'') => rw [hr] at h; simpa using h
  | (.err e, s'') => rw [hr] at h; simp at h
  | (.retry, s'') => rw [hr] at h; simp at h
  | (.panic, s'') => rw [hr] at h; simp at h

/-! ## composition -/

/-- run the closures one after the other inside ONE transaction, collecting the results -/
def seqAll : List (Prog Var Val ε α) → Prog Var Val ε (List α)
  | [] => .ret []
  | p :: ps => p.bind fun a => (seqAll ps).bind fun as => .ret (a :: as)

/-- run each closure in its OWN transaction; `none` as soon as one of them does not succeed -/
def runEach : List (Prog Var Val ε α) → S → Option (List α × S)
  | [], s => some ([], s)
  | p :: ps, s =>
      match atomically p s with
      | (.ok a, s') =>
          match runEach ps s' with
          | some (as, s'') => some (a :: as, s'')
          | none => none
      | _ => none

/-- **C08 (model level)**: if every operation succeeds when the operations are run in sequence,
    each in its own transaction, then the single atomic block returns the same results and
    produces exactly the same store -/
theorem compose_eq_sequence (ps : List (Prog Var Val ε α)) :
    ∀ (s s' : S) (rs : List α), runEach ps s = some (rs, s') →
      atomically (seqAll ps) s = (.ok rs, s') := by
  induction ps with
  | nil =>
      intro s s' rs h
      simp [runEach] at h
      simp [seqAll, atomically, run, h.1, h.2]
  | cons p ps ih =>
      intro s s' rs h
      simp only [runEach] at h
      match hp : atomically p s with
      | (.ok a, s1) =>
          simp only [hp] at h
          match hps : runEach ps s1 with
          | some (as, s2) =>
              simp only [hps] at h
              simp at h
              have h1 := atomically_ok_inv hp
              have h2 := atomically_ok_inv (ih s1 s2 as hps)
              apply atomically_ok
              simp only [seqAll]
              rw [run_bind_gen, h1]
              simp only
              rw [run_bind_gen, h2]
              simp [run, h.1, h.2]
          | none => simp only [hps] at h; simp at h
      | (.err e, s1) => simp only [hp] at h; simp at h
      | (.retry, s1) => simp only [hp] at h; simp at h
      | (.panic, s1) => simp only [hp] at h; simp at h

/-- converse direction: a successful atomic block means every operation succeeded in sequence -/
theorem sequence_of_compose (ps : List (Prog Var Val ε α)) :
    ∀ (s s' : S) (rs : List α), atomically (seqAll ps) s = (.ok rs, s') →
      runEach ps s = some (rs, s') := by
  induction ps with
  | nil =>
      intro s s' rs h
      have := atomically_ok_inv h
      simp [seqAll, run] at this
      simp [runEach, this.1, this.2]
  | cons p ps ih =>
      intro s s' rs h
      have h0 := atomically_ok_inv h
      simp only [seqAll] at h0
      rw [run_bind_gen] at h0
      match hp : run p s with
      | (.ok a, s1) =>
          rw [hp] at h0
          simp only at h0
          rw [run_bind_gen] at h0
          match hps : run (seqAll ps) s1 with
          | (.ok as, s2) =>
              rw [hps] at h0
              simp [run] at h0
              simp only [runEach, atomically_ok hp, ih s1 s2 as (atomically_ok hps)]
              simp [h0.1, h0.2]
          | (.err e, s2) => rw [hps] at h0; simp at h0
          | (.retry, s2) => rw [hps] at h0; simp at h0
          | (.panic, s2) => rw [hps] at h0; simp at h0
      | (.err e, s1) => rw [hp] at h0; simp at h0
      | (.retry, s1) => rw [hp] at h0; simp at h0
      | (.panic, s1) => rw [hp] at h0; simp at h0

end

/-! ## T1: the log semantics -/

section
variable {S Var Val ε α : Type} [DecidableEq Var] [Store S Var Val] [LawfulStore S Var Val]

/-- every logged write was valid and well-typed when it was made -/
def Log.WritesOK (ℓ : Log Var Val) (s : S) : Prop :=
  ∀ p ∈ ℓ.writes, svalid s p.1 = true ∧ styped s p.1 p.2 = true

/-- every logged read recorded the value of the (unchanged) store -/
def Log.ReadsOK (ℓ : Log Var Val) (s : S) : Prop :=
  ∀ p ∈ ℓ.reads, p.2 = sget s p.1

theorem svalid_foldr (ws : List (Var × Val)) (s : S) (v : Var) :
    svalid (ws.foldr (fun p s => sset s p.1 p.2) s) v = svalid s v := by
  induction ws with
  | nil => rfl
  | cons p ps ih => simp only [List.foldr]; rw [LawfulStore.svalid_sset, ih]

theorem styped_foldr (ws : List (Var × Val)) (s : S) (v : Var) (x : Val) :
    styped (ws.foldr (fun p s => sset s p.1 p.2) s) v x = styped s v x := by
  induction ws with
  | nil => rfl
  | cons p ps ih => simp only [List.foldr]; rw [LawfulStore.styped_sset, ih]

theorem svalid_apply (ℓ : Log Var Val) (s : S) (v : Var) : svalid (ℓ.apply s) v = svalid s v :=
  svalid_foldr _ _ _

theorem styped_apply (ℓ : Log Var Val) (s : S) (v : Var) (x : Val) :
    styped (ℓ.apply s) v x = styped s v x := styped_foldr _ _ _ _

/-- reading the store with the log applied = reading through the log -/
theorem sget_apply (ℓ : Log Var Val) (s : S) (hw : ℓ.WritesOK s) (v : Var) :
    sget (ℓ.apply s) v = (ℓ.lastWrite v).getD (sget s v) := by
  obtain ⟨rs, ws⟩ := ℓ
  unfold Log.apply Log.lastWrite
  simp only
  unfold Log.WritesOK at hw
  simp only at hw
  induction ws with
  | nil => rfl
  | cons p ps ih =>
      have hp := hw p (by simp)
      have ih' := ih (fun q hq => hw q (by simp [hq]))
      simp only [List.foldr]
      rw [LawfulStore.sget_sset _ _ _ _ (by rw [svalid_foldr]; exact hp.1)
        (by rw [styped_foldr]; exact hp.2)]
      by_cases h : p.1 = v
      · simp [h, List.find?]
      · simp [h, List.find?, ih']

theorem T1_execLog_sound (p : Prog Var Val ε α) :
    ∀ (s : S) (ℓ : Log Var Val), ℓ.WritesOK s → ℓ.ReadsOK s →
      run p (ℓ.apply s) = ((execLog p s ℓ).1, (execLog p s ℓ).2.apply s) ∧
      (execLog p s ℓ).2.WritesOK s ∧ (execLog p s ℓ).2.ReadsOK s := by
  induction p with
  | ret a => intro s ℓ hw hr; exact ⟨rfl, hw, hr⟩
  | abort e => intro s ℓ hw hr; exact ⟨rfl, hw, hr⟩
  | retry => intro s ℓ hw hr; exact ⟨rfl, hw, hr⟩
  | panic => intro s ℓ hw hr; exact ⟨rfl, hw, hr⟩
  | read v k ih =>
      intro s ℓ hw hr
      simp only [run, execLog, svalid_apply]
      by_cases hv : svalid s v = true
      · simp only [hv, if_true]
        have hg := sget_apply ℓ s hw v
        unfold Log.read
        match hlw : ℓ.lastWrite v with
        | some x =>
            simp only [hlw, Option.getD_some] at hg ⊢
            rw [hg]; exact ih x s ℓ hw hr
        | none =>
            simp only [hlw, Option.getD_none] at hg ⊢
            match hfr : ℓ.firstRead v with
            | some x =>
                simp only
                have : x = sget s v := by
                  unfold Log.firstRead at hfr
                  match hf : ℓ.reads.find? (fun p => p.1 = v) with
                  | some q =>
                      rw [hf] at hfr; simp at hfr
                      have hm := List.mem_of_find?_eq_some hf
                      have hq := List.find?_some hf
                      simp at hq
                      rw [← hfr, hr q hm, hq]
                  | none => rw [hf] at hfr; simp at hfr
                rw [hg, ← this]; exact ih x s ℓ hw hr
            | none =>
                simp only
                rw [hg]
                have hw' : ({ ℓ with reads := (v, sget s v) :: ℓ.reads } : Log Var Val).WritesOK s := hw
                have hr' : ({ ℓ with reads := (v, sget s v) :: ℓ.reads } : Log Var Val).ReadsOK s := by
                  intro q hq
                  simp at hq
                  rcases hq with rfl | hq
                  · rfl
                  · exact hr q hq
                exact ih (sget s v) s _ hw' hr'
      · simp only [hv]
        exact ⟨rfl, hw, hr⟩
  | write v x k ih =>
      intro s ℓ hw hr
      simp only [run, execLog, svalid_apply, styped_apply]
      by_cases hv : (svalid s v && styped s v x) = true
      · simp only [hv, if_true]
        have hv' : svalid s v = true ∧ styped s v x = true := by simpa using hv
        have hw' : (ℓ.write v x).WritesOK s := by
          intro q hq
          simp [Log.write] at hq
          rcases hq with rfl | hq
          · exact hv'
          · exact hw q hq
        have := ih s (ℓ.write v x) hw' hr
        exact this
      · simp only [hv]
        exact ⟨rfl, hw, hr⟩

/-- **T1**: `atomically_with_err` through the transaction log is the sequential semantics -/
theorem T1_atomicallyLog_eq (p : Prog Var Val ε α) (s : S) : atomicallyLog p s = atomically p s := by
  have h := (T1_execLog_sound p s {} (by intro q hq; simp at hq) (by intro q hq; simp at hq)).1
  have e : ({} : Log Var Val).apply s = s := rfl
  rw [e] at h
  unfold atomicallyLog atomically
  rw [h]
  match execLog p s {} with
  | (.ok a, ℓ) => rfl
  | (.err e, ℓ) => rfl
  | (.retry, ℓ) => rfl
  | (.panic, ℓ) => rfl

end

end HC
