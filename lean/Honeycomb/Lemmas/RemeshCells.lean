/-
  Cells after a local edit, from C03's orbit theorems: (1) a cell that is a known finite closed set has the
  smallest element of that set as identifier; (2) the identifier of a dart whose cell avoids the edited darts
  is unchanged.  Used by C15b to turn the β-level theorems on swap / cuts into statements on face and vertex
  identifiers and on `iter_faces`.
-/
import Honeycomb.Props.C03

set_option linter.unusedSimpArgs false
set_option linter.unusedVariables false

namespace HC
open HC.C03
variable {X : Type}

/-- reachability stays inside a set closed under the generator -/
theorem reach_closed {g : Nat → List Nat} {S : Nat → Prop} (hS : ∀ y, S y → ∀ x, x ∈ g y → S x)
    {d x : Nat} (hd : S d) (h : Reach g d x) : S x := by
  induction h with
  | refl => exact hd
  | tail _ hc ih => exact hS _ ih _ hc

/-- a cell given as a finite list: every listed dart is reachable, the list (with the null dart) is closed -/
theorem cell_of_list {m : Map X} (h : WF 3 m) {pol : Policy} (hp : PolOK pol) {d : Nat} (hd0 : d ≠ 0) (hd : d < m.n)
    (L : List Nat) (hne : ∀ y, y ∈ L → y ≠ 0) (hreach : ∀ y, y ∈ L → Reach (g2 m pol) d y) (hdL : d ∈ L)
    (hcl : ∀ y, y ∈ L → ∀ x, x ∈ g2 m pol y → x = 0 ∨ x ∈ L) :
    (∀ x, x ∈ orb m pol d ↔ x ∈ L) ∧ cellId m pol d ∈ L ∧ ∀ x, x ∈ L → cellId m pol d ≤ x := by
  have mem : ∀ x, x ∈ orb m pol d ↔ x ∈ L := by
    intro x
    rw [mem_orb h hp hd0 hd]
    constructor
    · intro ⟨hx0, hr⟩
      have : x = 0 ∨ x ∈ L := by
        refine reach_closed (S := fun z => z = 0 ∨ z ∈ L) ?_ (Or.inr hdL) hr
        intro y hy x hx
        rcases hy with rfl | hy
        · exact Or.inl (g2_null h pol hp x hx)
        · exact hcl y hy x hx
      rcases this with h0 | hL
      · exact absurd h0 hx0
      · exact hL
    · intro hx; exact ⟨hne x hx, hreach x hx⟩
  have sp := cellId_spec h hp hd0 hd
  exact ⟨mem, (mem _).1 sp.1, fun x hx => sp.2 x ((mem x).2 hx)⟩

/-- the identifier of a two-element cell -/
theorem cellId_pair {m : Map X} (h : WF 3 m) {pol : Policy} (hp : PolOK pol) {d e : Nat} (hd0 : d ≠ 0) (hd : d < m.n)
    (he0 : e ≠ 0) (hr : Reach (g2 m pol) d e)
    (hcl : ∀ y, y ∈ [d, e] → ∀ x, x ∈ g2 m pol y → x = 0 ∨ x ∈ [d, e]) :
    cellId m pol d = min d e := by
  obtain ⟨_, hin, hle⟩ := cell_of_list h hp hd0 hd [d, e] (by simp [hd0, he0])
    (by intro y hy; simp at hy; rcases hy with rfl | rfl; exact .refl _; exact hr) (by simp) hcl
  simp at hin
  have h1 := hle d (by simp)
  have h2 := hle e (by simp)
  omega

/-- the identifier of a three-element cell -/
theorem cellId_triple {m : Map X} (h : WF 3 m) {pol : Policy} (hp : PolOK pol) {d e k : Nat} (hd0 : d ≠ 0) (hd : d < m.n)
    (he0 : e ≠ 0) (hk0 : k ≠ 0) (hre : Reach (g2 m pol) d e) (hrk : Reach (g2 m pol) d k)
    (hcl : ∀ y, y ∈ [d, e, k] → ∀ x, x ∈ g2 m pol y → x = 0 ∨ x ∈ [d, e, k]) :
    cellId m pol d = min d (min e k) := by
  obtain ⟨_, hin, hle⟩ := cell_of_list h hp hd0 hd [d, e, k] (by simp [hd0, he0, hk0])
    (by intro y hy; simp at hy; rcases hy with rfl | rfl | rfl; exact .refl _; exact hre; exact hrk) (by simp) hcl
  simp at hin
  have h1 := hle d (by simp)
  have h2 := hle e (by simp)
  have h3 := hle k (by simp)
  omega

/-- a closed β1-triangle `x → y → z → x` is a face: its identifier is the smallest of the three darts -/
theorem faceId_triangle {m : Map X} (h : WF 3 m) {x y z : Nat} (hx0 : x ≠ 0) (hx : x < m.n) (hy0 : y ≠ 0) (hz0 : z ≠ 0)
    (h1 : m.β 1 x = y) (h2 : m.β 1 y = z) (h3 : m.β 1 z = x) : cellId m .face x = min x (min y z) := by
  have hy : y < m.n := by rw [← h1]; exact h.range 1 (by omega) x hx
  have hz : z < m.n := by rw [← h2]; exact h.range 1 (by omega) y hy
  have i1 : m.β 0 y = x := by rw [← h1]; exact h.inv01 x hx (by rw [h1]; exact hy0)
  have i2 : m.β 0 z = y := by rw [← h2]; exact h.inv01 y hy (by rw [h2]; exact hz0)
  have i3 : m.β 0 x = z := by rw [← h3]; exact h.inv01 z hz (by rw [h3]; exact hx0)
  refine cellId_triple h (pol := .face) trivial hx0 hx hy0 hz0 (Reach.single (by simp [g2, h1]))
    (Reach.single (by simp [g2, i3])) ?_
  intro w hw v hv
  simp only [List.mem_cons, List.mem_nil_iff, or_false] at hw
  rcases hw with rfl | rfl | rfl <;> simp only [g2, List.mem_cons, List.mem_nil_iff, or_false] at hv <;>
    rcases hv with rfl | rfl <;> simp [h1, h2, h3, i1, i2, i3]

/-- **frame for identifiers**: `M` lists the darts touched by an edit.  If outside `M` the two maps have the same
    generator images, and in both maps the cells of the darts of `M` stay inside `M`, then every dart outside `M` has the
    same cell and the same identifier in both maps. -/
theorem cellId_frame {m m' : Map X} (h : WF 3 m) (h' : WF 3 m') (hn : m'.n = m.n) {pol : Policy} (hs : Sym pol)
    (M : List Nat)
    (hg : ∀ y, y ∉ M → g2 m' pol y = g2 m pol y)
    (hcl : ∀ y, y ∈ M → ∀ x, x ∈ g2 m pol y → x = 0 ∨ x ∈ M)
    (hcl' : ∀ y, y ∈ M → ∀ x, x ∈ g2 m' pol y → x = 0 ∨ x ∈ M)
    {d : Nat} (hd0 : d ≠ 0) (hd : d < m.n) (hdM : d ∉ M) :
    (∀ x, x ∈ orb m' pol d ↔ x ∈ orb m pol d) ∧ cellId m' pol d = cellId m pol d := by
  have hd' : d < m'.n := by rw [hn]; exact hd
  -- the cell of `d` avoids `M` in either map
  have avoid : ∀ (mm : Map X) (hw : WF 3 mm) (hdd : d < mm.n),
      (∀ y, y ∈ M → ∀ x, x ∈ g2 mm pol y → x = 0 ∨ x ∈ M) → ∀ x, x ≠ 0 → Reach (g2 mm pol) d x → x ∉ M := by
    intro mm hw hdd hc x hx0 hr hxM
    have back := Reach.symm_of_invClosed (g2_null hw pol hs.ok) (g2_range hw pol hs.ok)
      (C03_images_inverse_closed hw hs) hdd hx0 hr
    have : d = 0 ∨ d ∈ M := by
      refine reach_closed (S := fun z => z = 0 ∨ z ∈ M) ?_ (Or.inr hxM) back
      intro y hy v hv
      rcases hy with rfl | hy
      · exact Or.inl (g2_null hw pol hs.ok v hv)
      · exact hc y hy v hv
    rcases this with h0 | hM
    · exact hd0 h0
    · exact hdM hM
  have fwd : ∀ x, Reach (g2 m pol) d x → Reach (g2 m' pol) d x := by
    intro x hr
    induction hr with
    | refl => exact .refl _
    | tail hab hc ih =>
        rename_i b c
        by_cases hb0 : b = 0
        · subst hb0
          have := g2_null h pol hs.ok c hc; subst this
          exact ih
        · have hbM := avoid m h hd hcl b hb0 hab
          exact .tail ih (by rw [hg b hbM]; exact hc)
  have bwd : ∀ x, Reach (g2 m' pol) d x → Reach (g2 m pol) d x := by
    intro x hr
    induction hr with
    | refl => exact .refl _
    | tail hab hc ih =>
        rename_i b c
        by_cases hb0 : b = 0
        · subst hb0
          have := g2_null h' pol hs.ok c hc; subst this
          exact ih
        · have hbM := avoid m' h' hd' hcl' b hb0 hab
          exact .tail ih (by rw [← hg b hbM]; exact hc)
  have mem : ∀ x, x ∈ orb m' pol d ↔ x ∈ orb m pol d := by
    intro x
    rw [mem_orb h' hs.ok hd0 hd', mem_orb h hs.ok hd0 hd]
    exact ⟨fun ⟨a, b⟩ => ⟨a, bwd x b⟩, fun ⟨a, b⟩ => ⟨a, fwd x b⟩⟩
  exact ⟨mem, min_unique (cellId_spec h' hs.ok hd0 hd') (cellId_spec h hs.ok hd0 hd) mem⟩

end HC
