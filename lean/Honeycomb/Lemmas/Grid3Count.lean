/-
  Counts of the 3-D hex grid as computed by the code: `volume_id` of a dart is the first dart of its
  cell and `iter_volumes` yields `nx·ny·nz` identifiers (the `debug_assert_eq!` of `build_3d_grid`);
  `iter_vertices` yields `(nx+1)·(ny+1)·(nz+1)` identifiers — for every size.
-/
import Honeycomb.Lemmas.Grid3Vertex
import Honeycomb.Lemmas.GridCount

namespace HC.Grid3Count
open HC HC.Gen HC.Grid3Pop HC.Grid3Vertex HC.GridCount

variable {nx ny nz : Nat} {m : Map Val}

set_option maxRecDepth 100000 in
/-- inside a cell every local dart but the first has a smaller β0 or β2 image -/
theorem hexDescent : ∀ o, o < 24 → o ≠ 0 → pp 0 o < o ∨ pp 2 o < o := by decide

/-- `volume_id` of a dart of cell `(a, b, c)` is local dart 0 of the cell (total correctness) -/
theorem volid_spec (hnx : 0 < nx) (hny : 0 < ny) (st : SameTopo (H3 nx ny nz) m) {a b c o : Nat}
    (ha : a < nx) (hb : b < ny) (hc : c < nz) (ho : o < 24) :
    okVal (run (volumeId3 m.n (D3 nx ny a b c o)) m) 0 = D3 nx ny a b c 0 := by
  have wf : WF 4 m := (H3_wf nz hnx hny).sameTopo st
  have hn : m.n = 24 * nx * ny * nz + 1 := st.n
  have hdn : D3 nx ny a b c o < m.n := by rw [hn]; exact D3_lt ha hb hc ho
  have hne : ∀ j, D3 nx ny a b c j ≠ 0 := by
    intro j; have := D3_pos (nx := nx) (ny := ny) (a := a) (b := b) (c := c) (o := j); omega
  let S := (List.range 24).map (D3 nx ny a b c)
  have memS : ∀ x, x ∈ S ↔ ∃ j, j < 24 ∧ x = D3 nx ny a b c j := by
    intro x
    simp only [S, List.mem_map, List.mem_range]
    constructor
    · rintro ⟨j, hj, rfl⟩; exact ⟨j, hj, rfl⟩
    · rintro ⟨j, hj, rfl⟩; exact ⟨j, hj, rfl⟩
  have hstart : D3 nx ny a b c o ∈ S := (memS _).mpr ⟨o, ho, rfl⟩
  have h0S : 0 ∉ S := by
    intro h; obtain ⟨j, _, e⟩ := (memS _).mp h; exact hne j e.symm
  have hclosed : ∀ x, x ∈ S → ∀ y, y ∈ gvol m x → y = 0 ∨ y ∈ S := by
    intro x hx y hy
    obtain ⟨j, hj, rfl⟩ := (memS _).mp hx
    obtain ⟨_, _, _, q0, q1, q2, _⟩ := hexFacts j hj
    right
    simp only [gvol, List.mem_cons, List.not_mem_nil, or_false] at hy
    rcases hy with rfl | rfl | rfl
    · rw [βw st ha hb hc hj (by decide)]; exact (memS _).mpr ⟨_, q1, rfl⟩
    · rw [βw st ha hb hc hj (by decide)]; exact (memS _).mpr ⟨_, q0, rfl⟩
    · rw [βw st ha hb hc hj (by decide)]; exact (memS _).mpr ⟨_, q2, rfl⟩
  have hlenS : S.length = 24 := by simp [S]
  obtain ⟨v, M, hrun, hres⟩ := ppop_spec (gvol m) S (D3 nx ny a b c o) 3 (8 * m.n + 8) hstart h0S hclosed
    (by intro x; simp [gvol]) (by
      have hN : 1 ≤ nx * ny * nz := Nat.mul_pos (Nat.mul_pos hnx hny) (by omega)
      have e : 24 * nx * ny * nz = 24 * (nx * ny * nz) := by rw [Nat.mul_assoc 24, Nat.mul_assoc 24]
      rw [hlenS, hn, e]; omega)
  rw [run_volumeId3 wf hdn m.n, hrun]
  show v = _
  obtain ⟨hvM, hv0, hvmin⟩ := hres.min (hne o)
  obtain ⟨hsub, hdM, hMcl, _⟩ := hres
  -- local dart 0 is reached: descent inside the cell
  have hdesc : ∀ j, j < 24 → D3 nx ny a b c j ∈ M → D3 nx ny a b c 0 ∈ M := by
    intro j
    induction j using Nat.strong_induction_on with
    | _ j ih =>
      intro hj hjM
      by_cases h0 : j = 0
      · subst h0; exact hjM
      · obtain ⟨_, _, _, q0, _, q2, _⟩ := hexFacts j hj
        rcases hexDescent j hj h0 with h | h
        · refine ih _ h q0 ?_
          have := hMcl _ hjM (hne j) (m.β 0 (D3 nx ny a b c j)) (by simp [gvol])
          rwa [βw st ha hb hc hj (by decide)] at this
        · refine ih _ h q2 ?_
          have := hMcl _ hjM (hne j) (m.β 2 (D3 nx ny a b c j)) (by simp [gvol])
          rwa [βw st ha hb hc hj (by decide)] at this
  have h0M := hdesc o ho hdM
  have le1 := hvmin _ h0M (hne 0)
  have le2 : D3 nx ny a b c 0 ≤ v := by
    rcases hsub v hvM with h | h
    · exact absurd h hv0
    · obtain ⟨j, _, e⟩ := (memS _).mp h
      rw [e]; unfold D3 dartOf; omega
  omega

/-- `iter_volumes` yields one identifier per cell -/
theorem iterVolumes_length (hnx : 0 < nx) (hny : 0 < ny) (st : SameTopo (H3 nx ny nz) m) :
    (iterVolumes3 m).length = nx * ny * nz := by
  have hn : m.n = 24 * nx * ny * nz + 1 := st.n
  unfold iterVolumes3 iterCells
  have hcongr : (List.range m.n).filter (fun d => decide (d ≠ 0 ∧ (!m.unused d) = true ∧
        okVal (run (volumeId3 m.n d) m) 0 = d)) =
      (List.range m.n).filter (fun d => decide (d ≠ 0 ∧ (d - 1) % 24 = 0)) := by
    apply List.filter_congr
    intro d hd
    have hd' : d < 24 * nx * ny * nz + 1 := by rw [← hn]; exact List.mem_range.mp hd
    by_cases h0 : d = 0
    · simp [h0]
    · obtain ⟨a, b, c, o, ha, hb, hc, ho, rfl⟩ := isD3_of_range (d := d) (nz := nz) hnx hny (by omega) (by omega)
      rw [volid_spec hnx hny st ha hb hc ho]
      have hu : m.unused (D3 nx ny a b c o) = false := by rw [st.unused]; exact gridMap_unused _ _ _ _
      have e1 : (D3 nx ny a b c o - 1) % 24 = o := dartOf_local ho
      have e2 : D3 nx ny a b c 0 = D3 nx ny a b c o ↔ o = 0 := by unfold D3 dartOf; omega
      rw [decide_eq_decide]
      simp only [hu, e1, e2, h0, ne_eq, not_false_eq_true, Bool.not_false, true_and]
  rw [hcongr, hn]
  have e : 24 * nx * ny * nz = 24 * (nx * ny * nz) := by rw [Nat.mul_assoc 24, Nat.mul_assoc 24]
  rw [e]
  exact countK 24 (nx * ny * nz) (by decide)

theorem pt3_le {d : Nat} (hd : IsD3 nx ny nz d) :
    (pt3 nx ny d).1 ≤ nx ∧ (pt3 nx ny d).2.1 ≤ ny ∧ (pt3 nx ny d).2.2 ≤ nz := by
  obtain ⟨a, b, c, o, ha, hb, hc, ho, rfl⟩ := hd
  rw [pt3_D ha hb ho]
  obtain ⟨_, _, _, _, _, _, _, _, _, k1, k2, k3, _⟩ := hexFacts o ho
  unfold P3
  exact ⟨by simp; omega, by simp; omega, by simp; omega⟩

/-- every lattice point is the origin of some dart -/
theorem pt3_surj (hnx : 0 < nx) (hny : 0 < ny) (hnz : 0 < nz) {i j k : Nat} (hi : i ≤ nx) (hj : j ≤ ny)
    (hk : k ≤ nz) : ∃ d, IsD3 nx ny nz d ∧ pt3 nx ny d = (i, j, k) := by
  have key : ∀ n x, 0 < n → x ≤ n → ∃ a κ, a < n ∧ κ < 2 ∧ a + κ = x := by
    intro n x hn hx
    by_cases h : x < n
    · exact ⟨x, 0, h, by decide, rfl⟩
    · exact ⟨n - 1, 1, by omega, by decide, by omega⟩
  obtain ⟨a, κx, ha, hκx, ex⟩ := key nx i hnx hi
  obtain ⟨b, κy, hb, hκy, ey⟩ := key ny j hny hj
  obtain ⟨c, κz, hc, hκz, ez⟩ := key nz k hnz hk
  have := hexMisc.1 κx hκx κy hκy κz hκz
  rw [List.any_eq_true] at this
  obtain ⟨o, ho, h⟩ := this
  have ho' := List.mem_range.mp ho
  have hk' : kap o = (κx, κy, κz) := by simpa using h
  refine ⟨D3 nx ny a b c o, ⟨a, b, c, o, ha, hb, hc, ho', rfl⟩, ?_⟩
  rw [pt3_D ha hb ho']
  unfold P3
  rw [hk', ← ex, ← ey, ← ez]

/-- `iter_vertices` yields one identifier per lattice point -/
theorem iterVertices_length (hnx : 0 < nx) (hny : 0 < ny) (hnz : 0 < nz) (st : SameTopo (H3 nx ny nz) m) :
    (iterVertices3 m).length = (nx + 1) * (ny + 1) * (nz + 1) := by
  have hn : m.n = 24 * nx * ny * nz + 1 := st.n
  unfold iterVertices3 iterCells
  have hcongr : (List.range m.n).filter (fun d => decide (d ≠ 0 ∧ (!m.unused d) = true ∧
        okVal (run (vertexId3 m.n d) m) 0 = d)) =
      (List.range m.n).filter (fun d => decide (d ≠ 0 ∧ vid3 m d = d)) := by
    apply List.filter_congr
    intro d hd
    have hu : m.unused d = false := by rw [st.unused]; exact gridMap_unused _ _ _ _
    rw [decide_eq_decide]
    simp [hu, vid3]
  rw [hcongr]
  apply length_filter_bij m.n _ _ (fun d => code3 nx ny (pt3 nx ny d))
  · intro x hx px y hy py h
    simp only [ne_eq, decide_eq_true_eq] at px py
    have dx : IsD3 nx ny nz x := isD3_of_range hnx hny (by omega) (by omega)
    have dy : IsD3 nx ny nz y := isD3_of_range hnx hny (by omega) (by omega)
    have hp := code3_inj (pt3_le dx).1 (pt3_le dx).2.1 (pt3_le dy).1 (pt3_le dy).2.1 h
    have := vid3_same hnx hny st st dx dy hp
    rw [px.2, py.2] at this
    exact this
  · intro x hx px
    simp only [ne_eq, decide_eq_true_eq] at px
    have dx : IsD3 nx ny nz x := isD3_of_range hnx hny (by omega) (by omega)
    exact code3_lt (pt3_le dx).1 (pt3_le dx).2.1 (pt3_le dx).2.2
  · intro t ht
    obtain ⟨i, j, k, hi, hj, hk, rfl⟩ := code3_surj ht
    obtain ⟨d, hd, hp⟩ := pt3_surj hnx hny hnz hi hj hk
    obtain ⟨hpt, hv⟩ := vid3_pt hnx hny st hd
    obtain ⟨a, b, c, o, ha, hb, hc, ho, e⟩ := hv
    refine ⟨vid3 m d, ?_, ?_, ?_⟩
    · rw [e, hn]; exact D3_lt ha hb hc ho
    · simp only [ne_eq, decide_eq_true_eq]
      refine ⟨?_, vid3_idem hnx hny st hd⟩
      rw [e]
      have := D3_pos (nx := nx) (ny := ny) (a := a) (b := b) (c := c) (o := o)
      omega
    · show code3 nx ny (pt3 nx ny (vid3 m d)) = code3 nx ny (i, j, k)
      rw [hpt, hp]

end HC.Grid3Count
