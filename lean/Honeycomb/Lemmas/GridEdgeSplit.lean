/-
  Edges of the split 2-D grid as computed by the code (`edge_id`, `iter_edges`): a dart is an edge
  identifier iff it is the diagonal dart of the lower triangle, the right or top side of its cell,
  the left side of a cell of the first column, or the bottom side of a cell of the first row;
  `iter_edges` yields `3·nx·ny + nx + ny` identifiers for every size.
-/
import Honeycomb.Lemmas.GridVertexSplit
import Honeycomb.Lemmas.GridEdge
import Honeycomb.Lemmas.GridCount

namespace HC.GridEdgeSplit
open HC HC.Gen HC.GridBfs HC.GridVertexSplit HC.GridCount
open HC.GridEdge (eid2 eid2_eq)

variable {nx ny : Nat} {m : Map Val}

theorem eid_iff (hnx : 0 < nx) (hny : 0 < ny) (st : SameTopo (G2 nx ny) m) {a b k : Nat}
    (ha : a < nx) (hb : b < ny) (hk : k < 6) :
    eid2 m (D nx ny a b k) = D nx ny a b k ↔
      (k = 1 ∨ k = 4 ∨ k = 5 ∨ (k = 2 ∧ a = 0) ∨ (k = 0 ∧ b = 0)) := by
  have wf : WF 3 m := (G2_wf hnx hny).sameTopo st
  have hdn : D nx ny a b k < m.n := by rw [st.n]; exact D_lt ha hb hk
  rw [eid2_eq wf hdn]
  have fxp := cellIdx_xp nx ny a b 0
  have fyp := cellIdx_yp nx ny a b 0
  have fxm := cellIdx_xm nx ny a b 0
  have fym := cellIdx_ym nx ny a b 0
  have pos : ∀ a' b' k', D nx ny a' b' k' ≠ 0 := by
    intro a' b' k'
    have := D_pos (nx := nx) (ny := ny) (a := a') (b := b') (k := k'); omega
  have k6 : k = 0 ∨ k = 1 ∨ k = 2 ∨ k = 3 ∨ k = 4 ∨ k = 5 := by omega
  rcases k6 with rfl | rfl | rfl | rfl | rfl | rfl
  · rw [β2_D0 st ha hb]
    by_cases h : b = 0
    · simp [h]
    · have hlt : D nx ny a (b - 1) 5 < D nx ny a b 0 := D_lt_of_cell (by decide) (by omega)
      rw [if_neg h, if_neg (pos _ _ _)]
      constructor
      · intro e; omega
      · intro e
        rcases e with e | e | e | ⟨e, _⟩ | ⟨_, e⟩ <;> omega
  · rw [β2_D1 st ha hb, if_neg (pos _ _ _)]
    have hlt : D nx ny a b 1 < D nx ny a b 3 := D_lt_local (by decide)
    constructor
    · intro _; exact Or.inl rfl
    · intro _; omega
  · rw [β2_D2 st ha hb]
    by_cases h : a = 0
    · simp [h]
    · have hlt : D nx ny (a - 1) b 4 < D nx ny a b 2 := D_lt_of_cell (by decide) (by omega)
      rw [if_neg h, if_neg (pos _ _ _)]
      constructor
      · intro e; omega
      · intro e
        rcases e with e | e | e | ⟨_, e⟩ | ⟨e, _⟩ <;> omega
  · rw [β2_D3 st ha hb, if_neg (pos _ _ _)]
    have hlt : D nx ny a b 1 < D nx ny a b 3 := D_lt_local (by decide)
    constructor
    · intro e; omega
    · intro e
      rcases e with e | e | e | ⟨e, _⟩ | ⟨e, _⟩ <;> omega
  · rw [β2_D4 st ha hb]
    by_cases h : a + 1 = nx
    · simp [h]
    · have hlt : D nx ny a b 4 < D nx ny (a + 1) b 2 := D_lt_of_cell (by decide) (by omega)
      rw [if_neg h, if_neg (pos _ _ _)]
      constructor
      · intro _; exact Or.inr (Or.inl rfl)
      · intro _; omega
  · rw [β2_D5 st ha hb]
    by_cases h : b + 1 = ny
    · simp [h]
    · have hlt : D nx ny a b 5 < D nx ny a (b + 1) 0 := D_lt_of_cell (by decide) (by omega)
      rw [if_neg h, if_neg (pos _ _ _)]
      constructor
      · intro _; exact Or.inr (Or.inr (Or.inl rfl))
      · intro _; omega

/-- coding of the edge identifiers by `0 .. 3·nx·ny + ny + nx − 1` -/
def ecode (nx ny d : Nat) : Nat :=
  let c := (d - 1) / 6
  let k := (d - 1) % 6
  if k = 1 then 3 * c else if k = 4 then 3 * c + 1 else if k = 5 then 3 * c + 2
  else if k = 2 then 3 * (nx * ny) + c / nx else 3 * (nx * ny) + ny + c % nx

theorem ecode_D {a b k : Nat} (ha : a < nx) (hk : k < 6) :
    ecode nx ny (D nx ny a b k) =
      if k = 1 then 3 * (a + nx * b) else if k = 4 then 3 * (a + nx * b) + 1
      else if k = 5 then 3 * (a + nx * b) + 2
      else if k = 2 then 3 * (nx * ny) + b else 3 * (nx * ny) + ny + a := by
  unfold ecode D
  simp only [dartOf_cell hk, dartOf_local hk, cellIdx_x ha, cellIdx_div ha]
  simp [cellIdx]

/-- `iter_edges` yields `3·nx·ny + ny + nx` identifiers -/
theorem iterEdges_length (hnx : 0 < nx) (hny : 0 < ny) (st : SameTopo (G2 nx ny) m) :
    (iterEdges2 m).length = 3 * (nx * ny) + ny + nx := by
  have hn : m.n = 6 * nx * ny + 1 := st.n
  unfold iterEdges2 iterCells
  have hcongr : (List.range m.n).filter (fun d => decide (d ≠ 0 ∧ (!m.unused d) = true ∧
        okVal (run (edgeId2 d) m) 0 = d)) =
      (List.range m.n).filter (fun d => decide (d ≠ 0 ∧ eid2 m d = d)) := by
    apply List.filter_congr
    intro d hd
    have hu : m.unused d = false := by rw [st.unused]; exact gridMap_unused _ _ _ _
    rw [decide_eq_decide]
    simp [hu, eid2]
  rw [hcongr]
  have hN : (6 * nx * ny) = 6 * (nx * ny) := Nat.mul_assoc 6 nx ny
  apply length_filter_bij m.n _ _ (ecode nx ny)
  · intro x hx px y hy py h
    simp only [ne_eq, decide_eq_true_eq] at px py
    obtain ⟨a, b, k, ha, hb, hk, rfl⟩ := isDart_of_range (d := x) hnx hny (by omega) (by omega)
    obtain ⟨a', b', k', ha', hb', hk', rfl⟩ := isDart_of_range (d := y) hnx hny (by omega) (by omega)
    have ix := (eid_iff hnx hny st ha hb hk).mp px.2
    have iy := (eid_iff hnx hny st ha' hb' hk').mp py.2
    rw [ecode_D ha hk, ecode_D ha' hk'] at h
    have c1 := cellIdx_lt (nz := 1) ha hb (Nat.lt_succ_self 0)
    have c2 := cellIdx_lt (nz := 1) ha' hb' (Nat.lt_succ_self 0)
    simp only [cellIdx, Nat.mul_zero, Nat.add_zero, Nat.mul_one] at c1 c2
    have m1 := add_mul_mod (n := nx) b ha
    have m2 := add_mul_mod (n := nx) b' ha'
    have d1 := add_mul_div (n := nx) b ha
    have d2 := add_mul_div (n := nx) b' ha'
    have key : a + nx * b = a' + nx * b' → a = a' ∧ b = b' := by
      intro e; rw [e] at m1 d1; exact ⟨m1.symm.trans m2, d1.symm.trans d2⟩
    have fin : a = a' ∧ b = b' ∧ k = k' := by
      rcases ix with rfl | rfl | rfl | ⟨rfl, rfl⟩ | ⟨rfl, rfl⟩ <;>
        rcases iy with rfl | rfl | rfl | ⟨rfl, rfl⟩ | ⟨rfl, rfl⟩ <;>
        (try simp at h) <;> omega
    obtain ⟨rfl, rfl, rfl⟩ := fin
    rfl
  · intro x hx px
    simp only [ne_eq, decide_eq_true_eq] at px
    obtain ⟨a, b, k, ha, hb, hk, rfl⟩ := isDart_of_range (d := x) hnx hny (by omega) (by omega)
    have ix := (eid_iff hnx hny st ha hb hk).mp px.2
    rw [ecode_D ha hk]
    have c1 := cellIdx_lt (nz := 1) ha hb (Nat.lt_succ_self 0)
    simp only [cellIdx, Nat.mul_zero, Nat.add_zero, Nat.mul_one] at c1
    rcases ix with rfl | rfl | rfl | ⟨rfl, rfl⟩ | ⟨rfl, rfl⟩ <;> simp <;> omega
  · intro t ht
    by_cases h1 : t < 3 * (nx * ny)
    · -- diagonal / right / top dart of cell `t / 3`
      have hc : t / 3 < nx * ny := by omega
      have hkk : ∃ kk, kk < 6 ∧ (kk = 1 ∨ kk = 4 ∨ kk = 5) ∧
          (t % 3 = 0 → kk = 1) ∧ (t % 3 = 1 → kk = 4) ∧ (t % 3 = 2 → kk = 5) := by
        have : t % 3 = 0 ∨ t % 3 = 1 ∨ t % 3 = 2 := by omega
        rcases this with h | h | h
        · exact ⟨1, by decide, Or.inl rfl, fun _ => rfl, by omega, by omega⟩
        · exact ⟨4, by decide, Or.inr (Or.inl rfl), by omega, fun _ => rfl, by omega⟩
        · exact ⟨5, by decide, Or.inr (Or.inr rfl), by omega, by omega, fun _ => rfl⟩
      obtain ⟨kk, hkk6, hkk1, hk0, hk1, hk2⟩ := hkk
      have hd1 : 1 ≤ 1 + 6 * (t / 3) + kk := by omega
      have hd2 : 1 + 6 * (t / 3) + kk ≤ 6 * nx * ny := by omega
      obtain ⟨a, b, k, ha, hb, hk, e⟩ := isDart_of_range hnx hny hd1 hd2
      have ec : (1 + 6 * (t / 3) + kk - 1) / 6 = t / 3 := by omega
      have ek : (1 + 6 * (t / 3) + kk - 1) % 6 = kk := by omega
      have ec' : (D nx ny a b k - 1) / 6 = cellIdx nx ny a b 0 := dartOf_cell hk
      have ek' : (D nx ny a b k - 1) % 6 = k := dartOf_local hk
      rw [← e] at ec' ek'
      have hk2' : k = kk := by omega
      have hcell : a + nx * b = t / 3 := by
        have : cellIdx nx ny a b 0 = t / 3 := by omega
        simpa [cellIdx] using this
      refine ⟨1 + 6 * (t / 3) + kk, by omega, ?_, ?_⟩
      · simp only [ne_eq, decide_eq_true_eq]
        refine ⟨by omega, ?_⟩
        rw [e]
        exact (eid_iff hnx hny st ha hb hk).mpr (by omega)
      · rw [e, ecode_D ha hk, hcell, hk2']
        rcases hkk1 with h | h | h <;> subst h <;> simp <;> omega
    · by_cases h2 : t < 3 * (nx * ny) + ny
      · have hb : t - 3 * (nx * ny) < ny := by omega
        refine ⟨D nx ny 0 (t - 3 * (nx * ny)) 2, by rw [hn]; exact D_lt hnx hb (by decide), ?_, ?_⟩
        · simp only [ne_eq, decide_eq_true_eq]
          refine ⟨?_, (eid_iff hnx hny st hnx hb (by decide)).mpr (by omega)⟩
          have := D_pos (nx := nx) (ny := ny) (a := 0) (b := t - 3 * (nx * ny)) (k := 2); omega
        · rw [ecode_D hnx (by decide)]; simp; omega
      · have ha : t - (3 * (nx * ny) + ny) < nx := by omega
        refine ⟨D nx ny (t - (3 * (nx * ny) + ny)) 0 0, by rw [hn]; exact D_lt ha hny (by decide), ?_, ?_⟩
        · simp only [ne_eq, decide_eq_true_eq]
          refine ⟨?_, (eid_iff hnx hny st ha hny (by decide)).mpr (by omega)⟩
          have := D_pos (nx := nx) (ny := ny) (a := t - (3 * (nx * ny) + ny)) (b := 0) (k := 0); omega
        · rw [ecode_D ha (by decide)]; simp; omega

end HC.GridEdgeSplit
