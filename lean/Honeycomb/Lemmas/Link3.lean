/-
  3-D links (`dim3/links/{one,three}.rs`): what the lock-step walks of `three_link` /
  `three_unlink` and the β3 side effect of the 3-D `one_link` / `one_unlink` do to a well-formed
  map.  Shared by Props/C02 (integrity, mirror, refusal) and Props/C05 (sews).

  * read-only / attribute-only classification of the 3-D identifier computations;
  * state formulas of the four write patterns (`Map.link1`, `Map.linkI`, `Map.unlink1`,
    `Map.unlinkI`);
  * `linkWalk_ok`: ONE induction on the fuel of `threeLinkWalk`, generic in the direction
    `(i, j) ∈ {(1, 0), (0, 1)}`, carrying at the same time well-formedness, the mirror condition
    away from the frontier of the walk, the frame (`Grow3`) and the trace of the walk as iterates
    of the *initial* map (for the refusal theorem);
  * `unlinkWalk_ok`: the same for `threeUnlinkWalk` (`Shrink3`).
-/
import Honeycomb.Model.Ops3
import Honeycomb.Lemmas.WFLink
import Honeycomb.Lemmas.WFAlloc

set_option linter.unusedSimpArgs false
set_option linter.unusedVariables false

namespace HC
variable {X : Type}

/-! ## peeling helpers -/

theorem run_ro_bind_ok {α β : Type} {p : P X α} {f : α → P X β} (hp : ReadOnly p) {m m' : Map X} {b : β}
    (h : run (p.bind f) m = (.ok b, m')) : ∃ a, run p m = (.ok a, m) ∧ run (f a) m = (.ok b, m') := by
  obtain ⟨a, m1, h1, h2⟩ := run_bind_ok h
  have := hp.run_ok h1; subst this
  exact ⟨a, h1, h2⟩

theorem run_rB_ok {i d x : Nat} {m m' : Map X} (h : run (rB i d : P X Nat) m = (.ok x, m')) :
    x = m.β i d ∧ m' = m ∧ m.okβ i d = true := by
  rw [run_rB'] at h
  split at h
  · rename_i hok
    simp only [Prod.mk.injEq, Out.ok.injEq] at h; exact ⟨h.1.symm, h.2.symm, hok⟩
  · simp at h

theorem run_pure_ok {α : Type} {a b : α} {m m' : Map X} (h : run (pure a : P X α) m = (.ok b, m')) :
    b = a ∧ m' = m := by
  simp only [Prog.pure_eq, run_ret, Prod.mk.injEq, Out.ok.injEq] at h
  exact ⟨h.1.symm, h.2.symm⟩

theorem run_ite_abort_ok {α : Type} {c : Prop} [Decidable c] {e : Err} {p : P X α} {m m' : Map X} {a : α}
    (h : run (if c then (abort e : P X α) else p) m = (.ok a, m')) : ¬ c ∧ run p m = (.ok a, m') := by
  by_cases hc : c
  · rw [if_pos hc] at h; simp at h
  · rw [if_neg hc] at h; exact ⟨hc, h⟩

/-! ## 3-D identifiers and face walks are read-only -/

theorem readOnly_popLoop (gen : Nat → P X (List Nat)) (hg : ∀ d, ReadOnly (gen d)) :
    ∀ fuel pending marked mn, ReadOnly (popLoop gen fuel pending marked mn) := by
  intro fuel
  induction fuel with
  | zero => intro p mk mn; unfold popLoop; exact ReadOnly.panic
  | succ f ih =>
      intro p mk mn
      cases p with
      | nil => unfold popLoop; exact ReadOnly.pure _
      | cons d rest =>
          unfold popLoop
          split
          · exact ih _ _ _
          · exact ReadOnly.bind (hg d) (fun ims => ih _ _ _)

theorem readOnly_genVid3 (d : Nat) : ReadOnly (genVid3 (X := X) d) := by
  unfold genVid3
  exact ReadOnly.bind (ReadOnly.rB _ _) fun _ => ReadOnly.bind (ReadOnly.rB _ _) fun _ =>
    ReadOnly.bind (ReadOnly.rB _ _) fun _ => ReadOnly.bind (ReadOnly.rB _ _) fun _ =>
    ReadOnly.bind (ReadOnly.rB _ _) fun _ => ReadOnly.bind (ReadOnly.rB _ _) fun _ =>
    ReadOnly.bind (ReadOnly.rB _ _) fun _ => ReadOnly.bind (ReadOnly.rB _ _) fun _ =>
    ReadOnly.bind (ReadOnly.rB _ _) fun _ => ReadOnly.pure _

theorem readOnly_vertexId3 (n d : Nat) : ReadOnly (vertexId3 (X := X) n d) :=
  readOnly_popLoop _ readOnly_genVid3 _ _ _ _

theorem readOnly_edgeId3 (n d : Nat) : ReadOnly (edgeId3 (X := X) n d) :=
  readOnly_popLoop _ (fun _ => ReadOnly.bind (ReadOnly.rB _ _) fun _ =>
    ReadOnly.bind (ReadOnly.rB _ _) fun _ => ReadOnly.pure _) _ _ _ _

theorem readOnly_volumeId3 (n d : Nat) : ReadOnly (volumeId3 (X := X) n d) :=
  readOnly_popLoop _ (fun _ => ReadOnly.bind (ReadOnly.rB _ _) fun _ =>
    ReadOnly.bind (ReadOnly.rB _ _) fun _ => ReadOnly.bind (ReadOnly.rB _ _) fun _ => ReadOnly.pure _) _ _ _ _

theorem readOnly_gen3_custom_go (d : Nat) : ∀ bs acc, ReadOnly (gen3.go (X := X) d bs acc) := by
  intro bs
  induction bs with
  | nil => intro acc; exact ReadOnly.pure _
  | cons i is ih =>
      intro acc
      unfold gen3.go
      split
      · exact ReadOnly.bind (ReadOnly.rB _ _) (fun im => ih _)
      · exact ReadOnly.panic

theorem readOnly_gen3_custom (bs : List Nat) (d : Nat) : ReadOnly (gen3 (X := X) (.custom bs) d) := by
  unfold gen3
  exact readOnly_gen3_custom_go d _ _

theorem readOnly_faceOrbits3 (n ld rd : Nat) : ReadOnly (faceOrbits3 (X := X) n ld rd) := by
  unfold faceOrbits3
  exact ReadOnly.bind (readOnly_bfs _ (readOnly_gen3_custom _) _ _ _ _) fun _ =>
    ReadOnly.bind (readOnly_bfs _ (readOnly_gen3_custom _) _ _ _ _) fun _ => ReadOnly.pure _

theorem readOnly_threeSewCollect (n : Nat) :
    ∀ ps es vs, ReadOnly (threeSewCollect (X := X) n ps es vs) := by
  intro ps
  induction ps with
  | nil => intro es vs; exact ReadOnly.pure _
  | cons p rest ih =>
      intro es vs
      obtain ⟨l, r⟩ := p
      unfold threeSewCollect
      refine ReadOnly.bind (readOnly_edgeId3 _ _) fun _ => ?_
      refine ReadOnly.bind (readOnly_edgeId3 _ _) fun _ => ?_
      refine ReadOnly.bind (ReadOnly.rB _ _) fun _ => ?_
      refine ReadOnly.bind (ReadOnly.rB _ _) fun _ => ?_
      refine ReadOnly.bind (readOnly_vertexId3 _ _) fun _ => ?_
      refine ReadOnly.bind (readOnly_vertexId3 _ _) fun _ => ?_
      refine ReadOnly.bind (ReadOnly.rB _ _) fun _ => ?_
      refine ReadOnly.ite ?_ (ih _ _)
      refine ReadOnly.bind (ReadOnly.rB _ _) fun _ => ?_
      refine ReadOnly.bind (ReadOnly.rB _ _) fun _ => ?_
      refine ReadOnly.bind (readOnly_vertexId3 _ _) fun _ => ?_
      exact ReadOnly.bind (readOnly_vertexId3 _ _) fun _ => ih _ _

theorem ao_vid3 (n d : Nat) : AttrOnly (vertexId3 (X := X) n d) := AttrOnly.of_readOnly (readOnly_vertexId3 n d)
theorem ao_eid3 (n d : Nat) : AttrOnly (edgeId3 (X := X) n d) := AttrOnly.of_readOnly (readOnly_edgeId3 n d)

theorem AttrOnly.run_ok' {α : Type} {p : P X α} (hp : AttrOnly p) {m m' : Map X} {a : α}
    (h : run p m = (.ok a, m')) : SameTopo m m' := by
  have := hp m; rw [h] at this; exact this


/-! ## the four write patterns as state functions -/

def Map.link1 (m : Map X) (l r : Nat) : Map X := (m.setβ 1 l r).setβ 0 r l
def Map.linkI (m : Map X) (i l r : Nat) : Map X := (m.setβ i l r).setβ i r l
def Map.unlink1 (m : Map X) (l : Nat) : Map X := (m.setβ 1 l 0).setβ 0 (m.β 1 l) 0
def Map.unlinkI (m : Map X) (i l : Nat) : Map X := (m.setβ i l 0).setβ i (m.β i l) 0

theorem Sized.β_link1 {nb : Nat} {m : Map X} (h : Sized nb m) (hnb : 2 ≤ nb) {l r : Nat}
    (hl : l < m.n) (hr : r < m.n) (j e : Nat) :
    (m.link1 l r).β j e = if 0 = j ∧ r = e then l else if 1 = j ∧ l = e then r else m.β j e := by
  unfold Map.link1
  rw [(h.setβ 1 l r).β_setβ (by omega) (by simpa [Map.n_setβ] using hr), h.β_setβ (by omega) hl]

theorem Sized.β_linkI {nb : Nat} {m : Map X} (h : Sized nb m) {i l r : Nat} (hi : i < nb)
    (hl : l < m.n) (hr : r < m.n) (j e : Nat) :
    (m.linkI i l r).β j e = if i = j ∧ r = e then l else if i = j ∧ l = e then r else m.β j e := by
  unfold Map.linkI
  rw [(h.setβ i l r).β_setβ hi (by simpa [Map.n_setβ] using hr), h.β_setβ hi hl]

theorem Sized.β_unlink1 {nb : Nat} {m : Map X} (h : Sized nb m) (hnb : 2 ≤ nb) {l : Nat}
    (hl : l < m.n) (hr : m.β 1 l < m.n) (j e : Nat) :
    (m.unlink1 l).β j e = if 0 = j ∧ m.β 1 l = e then 0 else if 1 = j ∧ l = e then 0 else m.β j e := by
  unfold Map.unlink1
  rw [(h.setβ 1 l 0).β_setβ (by omega) (by simpa [Map.n_setβ] using hr), h.β_setβ (by omega) hl]

theorem Sized.β_unlinkI {nb : Nat} {m : Map X} (h : Sized nb m) {i l : Nat} (hi : i < nb)
    (hl : l < m.n) (hr : m.β i l < m.n) (j e : Nat) :
    (m.unlinkI i l).β j e = if i = j ∧ m.β i l = e then 0 else if i = j ∧ l = e then 0 else m.β j e := by
  unfold Map.unlinkI
  rw [(h.setβ i l 0).β_setβ hi (by simpa [Map.n_setβ] using hr), h.β_setβ hi hl]

/-- removed darts are nobody's image on a well-formed 3-map (`C01_unused_is_nobodys_image`
    for `nb = 4`) -/
theorem WF.noImageOfUnused4 {m : Map X} (h : WF 4 m) : NoImageOfUnused 4 m := by
  intro i hi e he hu
  by_cases h0 : m.β i e = 0
  · exact h0
  · exfalso
    have hr := h.range i hi e he
    have hfree := h.unusedFree _ hr hu
    have : i = 0 ∨ i = 1 ∨ i = 2 ∨ i = 3 := by omega
    rcases this with rfl | rfl | rfl | rfl
    · have := h.inv10 e he h0
      rw [hfree 1 (by omega)] at this
      subst this
      exact h0 (h.null 0 (by omega))
    · have := h.inv01 e he h0
      rw [hfree 0 (by omega)] at this
      subst this
      exact h0 (h.null 1 (by omega))
    · have := (h.invol 2 (by omega) (by omega) e he h0).1
      rw [hfree 2 (by omega)] at this
      subst this
      exact h0 (h.null 2 (by omega))
    · have := (h.invol 3 (by omega) (by omega) e he h0).1
      rw [hfree 3 (by omega)] at this
      subst this
      exact h0 (h.null 3 (by omega))

/-- a non-null image is an in-use dart -/
theorem WF.image_inUse {m : Map X} (h : WF 4 m) {i e : Nat} (hi : i < 4) (he : e < m.n) (hne : m.β i e ≠ 0) :
    m.β i e < m.n ∧ m.unused (m.β i e) = false := by
  refine ⟨h.range i hi e he, ?_⟩
  cases hu : m.unused (m.β i e) with
  | false => rfl
  | true => exact absurd (h.noImageOfUnused4 i hi e he hu) hne

theorem WF.okβ4 {m : Map X} (h : WF 4 m) {i d : Nat} (hi : i < 4) (hd : d < m.n) : m.okβ i d = true :=
  (h.toSized.okβ i d).2 ⟨hi, hd⟩

theorem WF.lt_of_okβ {m : Map X} (h : WF 4 m) {i d : Nat} (hok : m.okβ i d = true) : d < m.n :=
  ((h.toSized.okβ i d).1 hok).2

/-! ## directions of a face walk -/

/-- `(i, j)` = β followed on the left / right side: `(1, 0)` forward, `(0, 1)` backward -/
def Dir (i j : Nat) : Prop := (i = 1 ∧ j = 0) ∨ (i = 0 ∧ j = 1)

theorem Dir.symm {i j : Nat} (d : Dir i j) : Dir j i := by
  rcases d with ⟨rfl, rfl⟩ | ⟨rfl, rfl⟩
  · exact Or.inr ⟨rfl, rfl⟩
  · exact Or.inl ⟨rfl, rfl⟩

theorem Dir.ilt {i j : Nat} (d : Dir i j) : i < 2 := by rcases d with ⟨rfl, rfl⟩ | ⟨rfl, rfl⟩ <;> omega
theorem Dir.jlt {i j : Nat} (d : Dir i j) : j < 2 := by rcases d with ⟨rfl, rfl⟩ | ⟨rfl, rfl⟩ <;> omega

theorem WF.inv_ij {m : Map X} (h : WF 4 m) {i j : Nat} (dir : Dir i j) {d : Nat} (hd : d < m.n)
    (hne : m.β i d ≠ 0) : m.β j (m.β i d) = d := by
  rcases dir with ⟨rfl, rfl⟩ | ⟨rfl, rfl⟩
  · exact h.inv01 d hd hne
  · exact h.inv10 d hd hne

/-- iterates of `β i` on the pure map -/
def it (m : Map X) (i : Nat) : Nat → Nat → Nat
  | 0, d => d
  | k + 1, d => it m i k (m.β i d)

@[simp] theorem it_zero (m : Map X) (i d : Nat) : it m i 0 d = d := rfl
theorem it_succ (m : Map X) (i k d : Nat) : it m i (k + 1) d = it m i k (m.β i d) := rfl

theorem it_succ' (m : Map X) (i : Nat) : ∀ k d, it m i (k + 1) d = m.β i (it m i k d) := by
  intro k
  induction k with
  | zero => intro d; rfl
  | succ k ih => intro d; rw [it_succ, ih]; rfl

theorem it_add (m : Map X) (i : Nat) : ∀ a b d, it m i (a + b) d = it m i b (it m i a d) := by
  intro a
  induction a with
  | zero => intro b d; simp
  | succ a ih => intro b d; rw [show a + 1 + b = (a + b) + 1 by omega, it_succ, ih]; rfl

theorem it_null {m : Map X} {i : Nat} (h : m.β i 0 = 0) : ∀ k, it m i k 0 = 0 := by
  intro k
  induction k with
  | zero => rfl
  | succ k ih => rw [it_succ, h, ih]

theorem it_congr {m m' : Map X} {i : Nat} (h : ∀ d, m'.β i d = m.β i d) : ∀ k d, it m' i k d = it m i k d := by
  intro k
  induction k with
  | zero => intro d; rfl
  | succ k ih => intro d; rw [it_succ, it_succ, h, ih]

theorem it_lt {m : Map X} (h : WF 4 m) {i : Nat} (hi : i < 4) : ∀ k d, d < m.n → it m i k d < m.n := by
  intro k
  induction k with
  | zero => intro d hd; exact hd
  | succ k ih => intro d hd; rw [it_succ]; exact ih _ (h.range i hi d hd)

/-! ## frames of the 3-(un)link walks -/

/-- only null β3 entries have been written (3-links) -/
structure Grow3 (m m' : Map X) : Prop where
  n : m'.n = m.n
  u : m'.u = m.u
  a : m'.a = m.a
  fc : m'.fc = m.fc
  β : ∀ e d, e ≠ 3 → m'.β e d = m.β e d
  keep : ∀ d, m.β 3 d ≠ 0 → m'.β 3 d = m.β 3 d

theorem Grow3.refl (m : Map X) : Grow3 m m := ⟨rfl, rfl, rfl, rfl, fun _ _ _ => rfl, fun _ _ => rfl⟩

theorem Grow3.trans {m m' m'' : Map X} (h1 : Grow3 m m') (h2 : Grow3 m' m'') : Grow3 m m'' := by
  refine ⟨h2.n.trans h1.n, h2.u.trans h1.u, h2.a.trans h1.a, h2.fc.trans h1.fc, ?_, ?_⟩
  · intro e d he; rw [h2.β e d he, h1.β e d he]
  · intro d hd
    have := h1.keep d hd
    rw [h2.keep d (by rw [this]; exact hd), this]

theorem Grow3.unused {m m' : Map X} (h : Grow3 m m') (d : Nat) : m'.unused d = m.unused d := by
  unfold Map.unused; rw [h.u]

theorem Grow3.free {m m' : Map X} (h : Grow3 m m') {d : Nat} (hd : m'.β 3 d = 0) : m.β 3 d = 0 := by
  by_cases h0 : m.β 3 d = 0
  · exact h0
  · rw [h.keep d h0] at hd; exact absurd hd h0

theorem Grow3.linkI {m : Map X} (h : WF 4 m) {l r : Nat} (hl : l < m.n) (hr : r < m.n)
    (h1 : m.β 3 l = 0) (h2 : m.β 3 r = 0) : Grow3 m (m.linkI 3 l r) := by
  refine ⟨rfl, rfl, rfl, rfl, ?_, ?_⟩
  · intro e d he
    rw [h.toSized.β_linkI (by omega) hl hr]
    have : ¬ (3 = e) := fun hh => he hh.symm
    simp [this]
  · intro d hd
    rw [h.toSized.β_linkI (by omega) hl hr]
    have a1 : r ≠ d := fun hh => hd (hh ▸ h2)
    have a2 : l ≠ d := fun hh => hd (hh ▸ h1)
    simp [a1, a2]

/-- β3 entries have only been cleared (3-unlinks) -/
structure Shrink3 (m m' : Map X) : Prop where
  n : m'.n = m.n
  u : m'.u = m.u
  a : m'.a = m.a
  fc : m'.fc = m.fc
  β : ∀ e d, e ≠ 3 → m'.β e d = m.β e d
  sub : ∀ d, m'.β 3 d = m.β 3 d ∨ m'.β 3 d = 0

theorem Shrink3.refl (m : Map X) : Shrink3 m m := ⟨rfl, rfl, rfl, rfl, fun _ _ _ => rfl, fun _ => Or.inl rfl⟩

theorem Shrink3.trans {m m' m'' : Map X} (h1 : Shrink3 m m') (h2 : Shrink3 m' m'') : Shrink3 m m'' := by
  refine ⟨h2.n.trans h1.n, h2.u.trans h1.u, h2.a.trans h1.a, h2.fc.trans h1.fc, ?_, ?_⟩
  · intro e d he; rw [h2.β e d he, h1.β e d he]
  · intro d
    rcases h2.sub d with h | h
    · rw [h]; exact h1.sub d
    · exact Or.inr h

theorem Shrink3.unlinkI {m : Map X} (h : WF 4 m) {l : Nat} (hl : l < m.n) : Shrink3 m (m.unlinkI 3 l) := by
  have hr : m.β 3 l < m.n := h.range 3 (by omega) l hl
  refine ⟨rfl, rfl, rfl, rfl, ?_, ?_⟩
  · intro e d he
    rw [h.toSized.β_unlinkI (by omega) hl hr]
    have : ¬ (3 = e) := fun hh => he hh.symm
    simp [this]
  · intro d
    rw [h.toSized.β_unlinkI (by omega) hl hr]
    split
    · exact Or.inr rfl
    · split
      · exact Or.inr rfl
      · exact Or.inl rfl


/-! ## the lock-step walk of `three_link` -/

/-- the mirror condition at one dart, in direction `i` (`Mirror m ↔ ∀ d < n, MAtG m 1 d`) -/
def MAtG (m : Map X) (i d : Nat) : Prop :=
  m.β i d ≠ 0 → m.β 3 d ≠ 0 → m.β 3 (m.β i d) ≠ 0 → m.β i (m.β 3 (m.β i d)) = m.β 3 d

/-- loop invariant of `threeLinkWalk` at the loop head: `(pl, pr)` is the pair linked last,
    `(ls, rs)` the current pair; the mirror condition holds except at the frontier `pl`, `rs` and
    at the fixed exceptions `E` -/
structure LInv (m : Map X) (i j stop pl pr ls rs : Nat) (E : Nat → Prop) : Prop where
  wf : WF 4 m
  pln : pl < m.n
  prn : pr < m.n
  pl0 : pl ≠ 0
  pr0 : pr ≠ 0
  b3 : m.β 3 pl = pr
  bi : m.β i pl = ls
  bj : m.β j pr = rs
  prs : pr ≠ stop
  st3 : stop ≠ 0 → m.β 3 stop ≠ 0
  mir : ∀ d, d < m.n → d ≠ pl → d ≠ rs → ¬ E d → MAtG m i d

/-- what a successful walk returns -/
structure WalkOut (m m' : Map X) (i j stop ls rs a b : Nat) (E : Nat → Prop) : Prop where
  inv : ∃ pl' pr', LInv m' i j stop pl' pr' a b E
  stopd : a = stop ∨ a = 0
  grow : Grow3 m m'
  trace : ∃ k, a = it m i k ls ∧ b = it m j k rs ∧
    ∀ t, t < k → it m i t ls ≠ stop ∧ it m i t ls ≠ 0 ∧ it m j t rs ≠ 0 ∧
      m.β 3 (it m i t ls) = 0 ∧ m.β 3 (it m j t rs) = 0

theorem linkWalk_ok {ld rd stop i j : Nat} (dir : Dir i j) (E : Nat → Prop) :
    ∀ (f ls rs pl pr : Nat) (m m' : Map X) (a b : Nat),
      LInv m i j stop pl pr ls rs E →
      run (threeLinkWalk (X := X) ld rd stop i j f ls rs) m = (.ok (a, b), m') →
      WalkOut m m' i j stop ls rs a b E := by
  intro f
  induction f with
  | zero =>
      intro ls rs pl pr m m' a b _ h
      unfold threeLinkWalk at h; simp at h
  | succ f ih =>
      intro ls rs pl pr m m' a b I h
      unfold threeLinkWalk at h
      by_cases hc : ls ≠ stop ∧ ls ≠ 0
      · rw [if_pos hc] at h
        by_cases hrs : rs = 0
        · rw [if_pos hrs] at h; simp at h
        · rw [if_neg hrs] at h
          obtain ⟨_, m1, hl, h⟩ := run_bind_ok h
          obtain ⟨ok1, ok2, f1, f2, rfl⟩ := iLinkCore_ok hl
          obtain ⟨ls', hb, h⟩ := run_ro_bind_ok (ReadOnly.rB _ _) h
          obtain ⟨rfl, _, _⟩ := run_rB_ok hb
          obtain ⟨rs', hb', h⟩ := run_ro_bind_ok (ReadOnly.rB _ _) h
          obtain ⟨rfl, _, _⟩ := run_rB_ok hb'
          have em : ∀ l r, (m.setβ 3 l r).setβ 3 r l = m.linkI 3 l r := fun _ _ => rfl
          simp only [em] at h
          have hw := I.wf
          have hi4 : i < 4 := by have := dir.ilt; omega
          have hj4 : j < 4 := by have := dir.jlt; omega
          have hi3 : i ≠ 3 := by have := dir.ilt; omega
          have hj3 : j ≠ 3 := by have := dir.jlt; omega
          have n3i : ¬ (3 = i) := fun hh => hi3 hh.symm
          have n3j : ¬ (3 = j) := fun hh => hj3 hh.symm
          have hlsn : ls < m.n := by rw [← I.bi]; exact hw.range i hi4 pl I.pln
          have hrsn : rs < m.n := by rw [← I.bj]; exact hw.range j hj4 pr I.prn
          have hjls : m.β j ls = pl := by
            have := hw.inv_ij dir I.pln (by rw [I.bi]; exact hc.2); rwa [I.bi] at this
          have hirs : m.β i rs = pr := by
            have := hw.inv_ij dir.symm I.prn (by rw [I.bj]; exact hrs); rwa [I.bj] at this
          have hpr3 : m.β 3 pr = pl := by
            have := (hw.invol 3 (by omega) (by omega) pl I.pln (by rw [I.b3]; exact I.pr0)).1
            rwa [I.b3] at this
          have huls : m.unused ls = false := by
            have := hw.image_inUse hi4 I.pln (by rw [I.bi]; exact hc.2); rw [I.bi] at this; exact this.2
          have hurs : m.unused rs = false := by
            have := hw.image_inUse hj4 I.prn (by rw [I.bj]; exact hrs); rw [I.bj] at this; exact this.2
          have hprls : pr ≠ ls := fun hh => I.pl0 (by rw [← hpr3, hh, f1])
          have hprrs : pr ≠ rs := fun hh => I.pl0 (by rw [← hpr3, hh, f2])
          have hplls : pl ≠ ls := fun hh => I.pr0 (by rw [← I.b3, hh, f1])
          have hplrs : pl ≠ rs := fun hh => I.pr0 (by rw [← I.b3, hh, f2])
          by_cases hlr : ls = rs
          · -- the core was handed the same dart twice: a β3 fixed point is created, and the
            -- next round is necessarily refused (its left dart is the previous right dart)
            exfalso
            subst hlr
            have eβ := hw.toSized.β_linkI (i := 3) (by omega) hlsn hlsn
            have e1 : (m.linkI 3 ls ls).β i ls = pr := by
              rw [eβ]; simp only [n3i, false_and, if_false]; exact hirs
            have e2 : (m.linkI 3 ls ls).β j ls = pl := by
              rw [eβ]; simp only [n3j, false_and, if_false]; exact hjls
            rw [e1, e2] at h
            cases f with
            | zero => unfold threeLinkWalk at h; simp at h
            | succ f' =>
                unfold threeLinkWalk at h
                rw [if_pos ⟨I.prs, I.pr0⟩, if_neg I.pl0] at h
                obtain ⟨_, m2, hl2, _⟩ := run_bind_ok h
                obtain ⟨_, _, g1, _, _⟩ := iLinkCore_ok hl2
                rw [eβ] at g1
                have : ¬ (ls = pr) := fun hh => hprls hh.symm
                simp only [this, and_false, if_false] at g1
                exact I.pl0 (by rw [← hpr3, g1])
          · have hw1 : WF 4 (m.linkI 3 ls rs) :=
              hw.linkI (by omega) (by omega) hc.2 hrs hlr hlsn hrsn huls hurs f1 f2
            have hg : Grow3 m (m.linkI 3 ls rs) := Grow3.linkI hw hlsn hrsn f1 f2
            have eβ := hw.toSized.β_linkI (i := 3) (by omega) hlsn hrsn
            have hβi : ∀ x, (m.linkI 3 ls rs).β i x = m.β i x := fun x => hg.β i x hi3
            have hβj : ∀ x, (m.linkI 3 ls rs).β j x = m.β j x := fun x => hg.β j x hj3
            have nrl : ¬ (rs = ls) := fun hh => hlr hh.symm
            have e_ls : (m.linkI 3 ls rs).β 3 ls = rs := by rw [eβ]; simp [nrl]
            have e_rs : (m.linkI 3 ls rs).β 3 rs = ls := by rw [eβ]; simp
            have e_oth : ∀ x, x ≠ ls → x ≠ rs → (m.linkI 3 ls rs).β 3 x = m.β 3 x := by
              intro x h1 h2
              rw [eβ]
              have a1 : ¬ (rs = x) := fun hh => h2 hh.symm
              have a2 : ¬ (ls = x) := fun hh => h1 hh.symm
              simp [a1, a2]
            have I1 : LInv (m.linkI 3 ls rs) i j stop ls rs ((m.linkI 3 ls rs).β i ls)
                ((m.linkI 3 ls rs).β j rs) E := by
              refine ⟨hw1, hlsn, hrsn, hc.2, hrs, e_ls, rfl, rfl, ?_, ?_, ?_⟩
              · intro hh
                by_cases hs0 : stop = 0
                · exact hrs (hh.trans hs0)
                · exact I.st3 hs0 (hh ▸ f2)
              · intro hs0; rw [hg.keep stop (I.st3 hs0)]; exact I.st3 hs0
              · intro d hd hdls hdrs' hE
                have hd' : d < m.n := hd
                rw [hβj] at hdrs'
                unfold MAtG
                simp only [hβi]
                by_cases hdpl : d = pl
                · rw [hdpl, I.bi, e_ls, e_oth pl hplls hplrs, I.b3]
                  intro _ _ _; exact hirs
                · by_cases hdrs : d = rs
                  · rw [hdrs, hirs, e_rs, e_oth pr hprls hprrs, hpr3]
                    intro _ _ _; exact I.bi
                  · intro h1 h2 h3
                    have hc1 : m.β i d ≠ ls := by
                      intro hh
                      have := hw.inv_ij dir hd' h1
                      rw [hh, hjls] at this
                      exact hdpl this.symm
                    have hc2 : m.β i d ≠ rs := by
                      intro hh
                      have := hw.inv_ij dir hd' h1
                      rw [hh] at this
                      exact hdrs' this.symm
                    rw [e_oth d hdls hdrs] at h2 ⊢
                    rw [e_oth _ hc1 hc2] at h3 ⊢
                    exact I.mir d hd' hdpl hdrs hE h1 h2 h3
            have R := ih _ _ ls rs (m.linkI 3 ls rs) m' a b I1 h
            refine ⟨R.inv, R.stopd, hg.trans R.grow, ?_⟩
            obtain ⟨k, ha, hb2, ht⟩ := R.trace
            have ei : ∀ t x, it (m.linkI 3 ls rs) i t x = it m i t x := it_congr hβi
            have ej : ∀ t x, it (m.linkI 3 ls rs) j t x = it m j t x := it_congr hβj
            have e1 : ∀ t, it (m.linkI 3 ls rs) i t ((m.linkI 3 ls rs).β i ls) = it m i (t + 1) ls := by
              intro t
              show _ = it m i t (m.β i ls)
              rw [ei, hβi ls]
            have e2 : ∀ t, it (m.linkI 3 ls rs) j t ((m.linkI 3 ls rs).β j rs) = it m j (t + 1) rs := by
              intro t
              show _ = it m j t (m.β j rs)
              rw [ej, hβj rs]
            refine ⟨k + 1, by rw [ha, e1], by rw [hb2, e2], ?_⟩
            intro t ht'
            cases t with
            | zero => exact ⟨hc.1, hc.2, hrs, f1, f2⟩
            | succ t =>
                obtain ⟨q1, q2, q3, q4, q5⟩ := ht t (by omega)
                have q4' := hg.free q4
                have q5' := hg.free q5
                rw [e1] at q1 q2 q4'
                rw [e2] at q3 q5'
                exact ⟨q1, q2, q3, q4', q5'⟩
      · rw [if_neg hc] at h
        obtain ⟨hab, rfl⟩ := run_pure_ok h
        simp only [Prod.mk.injEq] at hab
        obtain ⟨rfl, rfl⟩ := hab
        refine ⟨⟨pl, pr, I⟩, by omega, Grow3.refl _, 0, rfl, rfl, ?_⟩
        intro t ht; omega


/-! ## the walk of `three_unlink` -/

theorem unlinkWalk_ok {ld rd stop i j : Nat} {again : Bool} (hi : i < 4) (hj : j < 4) :
    ∀ (f ls rs : Nat) (m m' : Map X) (o : Nat × Nat),
      WF 4 m → ls < m.n → rs < m.n →
      run (threeUnlinkWalk (X := X) ld rd stop i j again f ls rs) m = (.ok o, m') →
      WF 4 m' ∧ Shrink3 m m' := by
  intro f
  induction f with
  | zero =>
      intro ls rs m m' o _ _ _ h
      unfold threeUnlinkWalk at h; simp at h
  | succ f ih =>
      intro ls rs m m' o hw hlsn hrsn h
      unfold threeUnlinkWalk at h
      by_cases hc : ls ≠ stop ∧ ls ≠ 0
      · rw [if_pos hc] at h
        obtain ⟨x, hx, h⟩ := run_ro_bind_ok (ReadOnly.rB _ _) h
        by_cases hlx : ls ≠ x
        · rw [if_pos hlx] at h; simp at h
        · rw [if_neg hlx] at h
          have hy : ∃ y, run ((fun y => if ls ≠ y then (Prog.panic : P X (Nat × Nat)) else do
              iUnlinkCore 3 ls
              let ls' ← rB i ls
              let rs' ← rB j rs
              threeUnlinkWalk ld rd stop i j again f ls' rs') y) m = (.ok o, m') := by
            cases again with
            | false =>
                simp only [Bool.false_eq_true, if_false] at h
                obtain ⟨y, _, h⟩ := run_ro_bind_ok (ReadOnly.pure _) h
                exact ⟨y, h⟩
            | true =>
                simp only [if_true] at h
                obtain ⟨y, _, h⟩ := run_ro_bind_ok (ReadOnly.rB _ _) h
                exact ⟨y, h⟩
          clear h
          obtain ⟨y, h⟩ := hy
          simp only [] at h
          by_cases hly : ls ≠ y
          · rw [if_pos hly] at h; simp at h
          · rw [if_neg hly] at h
            obtain ⟨_, m1, hl, h⟩ := run_bind_ok h
            obtain ⟨_, _, hne, rfl⟩ := iUnlinkCore_ok hl
            have em : (m.setβ 3 ls 0).setβ 3 (m.β 3 ls) 0 = m.unlinkI 3 ls := rfl
            rw [em] at h
            obtain ⟨ls', hb, h⟩ := run_ro_bind_ok (ReadOnly.rB _ _) h
            obtain ⟨rfl, _, _⟩ := run_rB_ok hb
            obtain ⟨rs', hb', h⟩ := run_ro_bind_ok (ReadOnly.rB _ _) h
            obtain ⟨rfl, _, _⟩ := run_rB_ok hb'
            have hw1 : WF 4 (m.unlinkI 3 ls) := hw.unlinkI (by omega) (by omega) hlsn hne
            have hs : Shrink3 m (m.unlinkI 3 ls) := Shrink3.unlinkI hw hlsn
            have R := ih _ _ (m.unlinkI 3 ls) m' o hw1 (hw1.range i hi ls hlsn) (hw1.range j hj rs hrsn) h
            exact ⟨R.1, hs.trans R.2⟩
      · rw [if_neg hc] at h
        obtain ⟨_, rfl⟩ := run_pure_ok h
        exact ⟨hw, Shrink3.refl _⟩

/-! ## mirror condition: frame and symmetry -/

/-- a 3-link of `(l, r)` does not disturb the mirror condition away from `l`, `r` and their
    predecessors -/
theorem MAtG_linkI_frame {m : Map X} (hw : WF 4 m) {i j : Nat} (dir : Dir i j) {l r d : Nat}
    (hl : l < m.n) (hr : r < m.n) (hd : d < m.n)
    (h1 : d ≠ l) (h2 : d ≠ r) (h3 : d ≠ m.β j l) (h4 : d ≠ m.β j r)
    (hM : MAtG m i d) : MAtG (m.linkI 3 l r) i d := by
  have hi3 : i ≠ 3 := by have := dir.ilt; omega
  have eβ := hw.toSized.β_linkI (i := 3) (by omega) hl hr
  have n3i : ¬ (3 = i) := fun hh => hi3 hh.symm
  have hβi : ∀ x, (m.linkI 3 l r).β i x = m.β i x := by
    intro x; rw [eβ]; simp only [n3i, false_and, if_false]
  have e_oth : ∀ x, x ≠ l → x ≠ r → (m.linkI 3 l r).β 3 x = m.β 3 x := by
    intro x a1 a2
    rw [eβ]
    have b1 : ¬ (r = x) := fun hh => a2 hh.symm
    have b2 : ¬ (l = x) := fun hh => a1 hh.symm
    simp [b1, b2]
  unfold MAtG
  simp only [hβi]
  intro g1 g2 g3
  have hc1 : m.β i d ≠ l := by
    intro hh
    have := hw.inv_ij dir hd g1
    rw [hh] at this
    exact h3 this.symm
  have hc2 : m.β i d ≠ r := by
    intro hh
    have := hw.inv_ij dir hd g1
    rw [hh] at this
    exact h4 this.symm
  rw [e_oth d h1 h2] at g2 ⊢
  rw [e_oth _ hc1 hc2] at g3 ⊢
  exact hM g1 g2 g3

/-- the mirror condition read along `β i` at `d` is the mirror condition read along `β j` at
    `β i d` -/
theorem MAtG_flip {m : Map X} (hw : WF 4 m) {i j : Nat} (dir : Dir i j) {d : Nat} (hd : d < m.n)
    (hM : MAtG m j (m.β i d)) : MAtG m i d := by
  have hi4 : i < 4 := by have := dir.ilt; omega
  intro h1 h2 h3
  have hcn : m.β i d < m.n := hw.range i hi4 d hd
  have hback : m.β j (m.β i d) = d := hw.inv_ij dir hd h1
  have hd0 : d ≠ 0 := fun hh => h1 (by rw [hh]; exact hw.null i hi4)
  have key := hM (by rw [hback]; exact hd0) h3 (by rw [hback]; exact h2)
  rw [hback] at key
  -- key : β j (β3 d) = β3 (β i d)
  have hxn : m.β 3 d < m.n := hw.range 3 (by omega) d hd
  have := hw.inv_ij dir.symm hxn (by rw [key]; exact h3)
  rw [key] at this
  exact this

theorem mirror_iff (m : Map X) : Mirror m ↔ ∀ d, d < m.n → MAtG m 1 d := Iff.rfl

/-! ## `three_link` -/

/-- what a successful `three_link` has verified about the two faces: both closed with the same
    number of darts, or both open with the same number of darts ahead of and behind the two
    argument darts (iterates of the map BEFORE the call) -/
def SameShape (m : Map X) (ld rd : Nat) : Prop :=
  (∃ L, 0 < L ∧ it m 1 L ld = ld ∧ it m 0 L rd = rd ∧
      ∀ t, 0 < t → t < L → it m 1 t ld ≠ ld ∧ it m 1 t ld ≠ 0 ∧ it m 0 t rd ≠ rd ∧ it m 0 t rd ≠ 0) ∨
  (∃ F B, it m 1 F ld = 0 ∧ it m 0 F rd = 0 ∧ it m 0 B ld = 0 ∧ it m 1 B rd = 0 ∧
      (∀ t, t < F → it m 1 t ld ≠ 0 ∧ it m 0 t rd ≠ 0) ∧ (∀ t, t < B → it m 0 t ld ≠ 0 ∧ it m 1 t rd ≠ 0))

theorem threeLink3_ok {n ld rd : Nat} {m m' : Map X} {u : Unit} (hw : WF 4 m)
    (hl0 : ld ≠ 0) (hr0 : rd ≠ 0) (hln : ld < m.n) (hrn : rd < m.n)
    (hul : m.unused ld = false) (hur : m.unused rd = false) (hne : ld ≠ rd)
    (h : run (threeLink3 (X := X) n ld rd) m = (.ok u, m')) :
    WF 4 m' ∧ Grow3 m m' ∧ (Mirror m → Mirror m') ∧ SameShape m ld rd := by
  unfold threeLink3 at h
  obtain ⟨_, m0, hl, h⟩ := run_bind_ok h
  obtain ⟨_, _, f1, f2, rfl⟩ := iLinkCore_ok hl
  have em : (m.setβ 3 ld rd).setβ 3 rd ld = m.linkI 3 ld rd := rfl
  rw [em] at h
  obtain ⟨ls0, hb, h⟩ := run_ro_bind_ok (ReadOnly.rB _ _) h
  obtain ⟨rfl, _, _⟩ := run_rB_ok hb
  obtain ⟨rs0, hb', h⟩ := run_ro_bind_ok (ReadOnly.rB _ _) h
  obtain ⟨rfl, _, _⟩ := run_rB_ok hb'
  obtain ⟨⟨a, b⟩, m1, hwalk, h⟩ := run_bind_ok h
  simp only [] at h
  have d10 : Dir 1 0 := Or.inl ⟨rfl, rfl⟩
  have d01 : Dir 0 1 := Or.inr ⟨rfl, rfl⟩
  have hw0 : WF 4 (m.linkI 3 ld rd) := hw.linkI (by omega) (by omega) hl0 hr0 hne hln hrn hul hur f1 f2
  have hg0 : Grow3 m (m.linkI 3 ld rd) := Grow3.linkI hw hln hrn f1 f2
  have eβ := hw.toSized.β_linkI (i := 3) (by omega) hln hrn
  have nrl : ¬ (rd = ld) := fun hh => hne hh.symm
  have e_ld : (m.linkI 3 ld rd).β 3 ld = rd := by rw [eβ]; simp [nrl]
  have e_rd : (m.linkI 3 ld rd).β 3 rd = ld := by rw [eβ]; simp
  let E : Nat → Prop := fun d => ¬ Mirror m ∨ d = m.β 0 ld ∨ d = rd
  have I0 : LInv (m.linkI 3 ld rd) 1 0 ld ld rd ((m.linkI 3 ld rd).β 1 ld) ((m.linkI 3 ld rd).β 0 rd) E := by
    refine ⟨hw0, hln, hrn, hl0, hr0, e_ld, rfl, rfl, nrl, fun _ => by rw [e_ld]; exact hr0, ?_⟩
    intro d hd hdl hdr hE
    have hM : Mirror m := Classical.not_not.1 fun hh => hE (Or.inl hh)
    have hd1 : d ≠ m.β 0 ld := fun hh => hE (Or.inr (Or.inl hh))
    have hd2 : d ≠ rd := fun hh => hE (Or.inr (Or.inr hh))
    rw [hg0.β 0 rd (by omega)] at hdr
    exact MAtG_linkI_frame hw d10 hln hrn hd hdl hd2 hd1 hdr (hM d hd)
  have R := linkWalk_ok d10 E (n + 1) _ _ ld rd _ m1 a b I0 hwalk
  obtain ⟨pl', pr', I1⟩ := R.inv
  have hw1 := I1.wf
  have hg1 : Grow3 m m1 := hg0.trans R.grow
  have hn1 : m1.n = m.n := hg1.n
  have hβ1 : ∀ x, m1.β 1 x = m.β 1 x := fun x => hg1.β 1 x (by omega)
  have hβ0 : ∀ x, m1.β 0 x = m.β 0 x := fun x => hg1.β 0 x (by omega)
  have hβ1' : ∀ x, (m.linkI 3 ld rd).β 1 x = m.β 1 x := fun x => hg0.β 1 x (by omega)
  have hβ0' : ∀ x, (m.linkI 3 ld rd).β 0 x = m.β 0 x := fun x => hg0.β 0 x (by omega)
  have e3ld : m1.β 3 ld = rd := by rw [R.grow.keep ld (by rw [e_ld]; exact hr0), e_ld]
  have e3rd : m1.β 3 rd = ld := by rw [R.grow.keep rd (by rw [e_rd]; exact hl0), e_rd]
  -- the trace of the forward walk, on the initial map
  obtain ⟨k, hka, hkb, hkt⟩ := R.trace
  have t1 : ∀ t, it (m.linkI 3 ld rd) 1 t ((m.linkI 3 ld rd).β 1 ld) = it m 1 (t + 1) ld := by
    intro t
    show _ = it m 1 t (m.β 1 ld)
    rw [it_congr hβ1', hβ1']
  have t0 : ∀ t, it (m.linkI 3 ld rd) 0 t ((m.linkI 3 ld rd).β 0 rd) = it m 0 (t + 1) rd := by
    intro t
    show _ = it m 0 t (m.β 0 rd)
    rw [it_congr hβ0', hβ0']
  rw [t1] at hka
  rw [t0] at hkb
  by_cases ha : a = 0
  · -- open left face: the backward walk
    rw [if_pos ha] at h
    by_cases hb0 : b ≠ 0
    · rw [if_pos hb0] at h; simp at h
    · rw [if_neg hb0] at h
      have hb0' : b = 0 := by omega
      obtain ⟨ls1, hc, h⟩ := run_ro_bind_ok (ReadOnly.rB _ _) h
      obtain ⟨rfl, _, _⟩ := run_rB_ok hc
      obtain ⟨rs1, hc', h⟩ := run_ro_bind_ok (ReadOnly.rB _ _) h
      obtain ⟨rfl, _, _⟩ := run_rB_ok hc'
      obtain ⟨⟨a', b'⟩, m2, hwalk2, h⟩ := run_bind_ok h
      simp only [] at h
      by_cases hb2 : b' ≠ 0
      · rw [if_pos hb2] at h; simp at h
      · rw [if_neg hb2] at h
        obtain ⟨_, hm'⟩ := run_pure_ok h
        rw [hm']
        have hb2' : b' = 0 := by omega
        let E2 : Nat → Prop := fun _ => ¬ Mirror m
        have I2 : LInv m1 0 1 0 ld rd (m1.β 0 ld) (m1.β 1 rd) E2 := by
          refine ⟨hw1, by rw [hn1]; exact hln, by rw [hn1]; exact hrn, hl0, hr0, e3ld, rfl, rfl, hr0,
            fun hh => absurd rfl hh, ?_⟩
          intro d hd hdl hdr hE
          have hM : Mirror m := Classical.not_not.1 hE
          apply MAtG_flip hw1 d01 hd
          intro g1
          -- c = β0 d
          have hd0 : d ≠ 0 := by
            intro hh
            have := hw1.inv_ij d10 (d := 0) hw1.npos
            rw [hh] at g1
            exact g1 (by rw [hw1.null 0 (by omega)]; exact hw1.null 1 (by omega))
          by_cases hc0 : m1.β 0 d = 0
          · rw [hc0] at g1; exact absurd (hw1.null 1 (by omega)) g1
          · have hcn : m1.β 0 d < m1.n := hw1.range 0 (by omega) d hd
            have hback : m1.β 1 (m1.β 0 d) = d := hw1.inv_ij d01 hd hc0
            have hcpl : m1.β 0 d ≠ pl' := by
              intro hh
              have := I1.bi
              rw [← hh, hback, ha] at this
              exact hd0 this
            have hE1 : ¬ E (m1.β 0 d) := by
              intro hh
              rcases hh with hh | hh | hh
              · exact hh hM
              · rw [← hβ0 ld] at hh
                have h0ld : m1.β 0 ld ≠ 0 := by rw [← hh]; exact hc0
                have := hw1.inv_ij d01 (by rw [hn1]; exact hln) h0ld
                rw [← hh, hback] at this
                exact hdl this
              · rw [hh] at hback
                exact hdr hback.symm
            exact I1.mir _ hcn hcpl (by rw [hb0']; exact hc0) hE1 g1
        have R2 := linkWalk_ok d01 E2 (n + 1) _ _ ld rd m1 m2 a' b' I2 hwalk2
        obtain ⟨pl2, pr2, I3⟩ := R2.inv
        have ha' : a' = 0 := by rcases R2.stopd with hh | hh <;> exact hh
        refine ⟨I3.wf, hg1.trans R2.grow, ?_, ?_⟩
        · intro hM d hd
          have hw2 := I3.wf
          have all0 : ∀ e, e < m2.n → MAtG m2 0 e := by
            intro e he
            by_cases h1 : e = pl2
            · intro g1; rw [h1, I3.bi] at g1; exact absurd ha' g1
            · by_cases h2 : e = b'
              · intro g1; rw [h2, hb2', hw2.null 0 (by omega)] at g1; exact absurd rfl g1
              · exact I3.mir e he h1 h2 (fun hh => hh hM)
          exact MAtG_flip hw2 d10 hd (all0 _ (hw2.range 1 (by omega) d hd))
        · right
          obtain ⟨k', hka', hkb', hkt'⟩ := R2.trace
          have s0 : ∀ t, it m1 0 t (m1.β 0 ld) = it m 0 (t + 1) ld := by
            intro t
            show _ = it m 0 t (m.β 0 ld)
            rw [it_congr hβ0, hβ0]
          have s1 : ∀ t, it m1 1 t (m1.β 1 rd) = it m 1 (t + 1) rd := by
            intro t
            show _ = it m 1 t (m.β 1 rd)
            rw [it_congr hβ1, hβ1]
          rw [s0] at hka'
          rw [s1] at hkb'
          refine ⟨k + 1, k' + 1, by rw [← hka]; exact ha, by rw [← hkb]; exact hb0',
            by rw [← hka']; exact ha', by rw [← hkb']; exact hb2', ?_, ?_⟩
          · intro t ht
            cases t with
            | zero => exact ⟨hl0, hr0⟩
            | succ t =>
                obtain ⟨_, q2, q3, _, _⟩ := hkt t (by omega)
                rw [t1] at q2
                rw [t0] at q3
                exact ⟨q2, q3⟩
          · intro t ht
            cases t with
            | zero => exact ⟨hl0, hr0⟩
            | succ t =>
                obtain ⟨_, q2, q3, _, _⟩ := hkt' t (by omega)
                rw [s0] at q2
                rw [s1] at q3
                exact ⟨q2, q3⟩
  · -- closed left face: the right one must close at the same step
    rw [if_neg ha] at h
    have hald : a = ld := by rcases R.stopd with hh | hh; exact hh; exact absurd hh ha
    by_cases hbrd : b ≠ rd
    · rw [if_pos hbrd] at h; simp at h
    · rw [if_neg hbrd] at h
      obtain ⟨_, hm'⟩ := run_pure_ok h
      rw [hm']
      have hbrd' : b = rd := by omega
      refine ⟨hw1, hg1, ?_, ?_⟩
      · intro hM d hd
        have hbi : m1.β 1 pl' = ld := by rw [I1.bi, hald]
        have hbj : m1.β 0 pr' = rd := by rw [I1.bj, hbrd']
        have h0ld : m1.β 0 ld = pl' := by
          have := hw1.inv_ij d10 I1.pln (by rw [hbi]; exact hl0); rwa [hbi] at this
        have h1rd : m1.β 1 rd = pr' := by
          have := hw1.inv_ij d01 I1.prn (by rw [hbj]; exact hr0); rwa [hbj] at this
        have h3pr : m1.β 3 pr' = pl' := by
          have := (hw1.invol 3 (by omega) (by omega) pl' I1.pln (by rw [I1.b3]; exact I1.pr0)).1
          rwa [I1.b3] at this
        by_cases h1 : d = pl'
        · rw [h1]; intro _ _ _
          rw [hbi, e3ld, h1rd, I1.b3]
        · by_cases h2 : d = rd
          · rw [h2]; intro _ _ _
            rw [h1rd, h3pr, hbi, e3rd]
          · refine I1.mir d hd h1 (by rw [hbrd']; exact h2) ?_
            intro hh
            rcases hh with hh | hh | hh
            · exact hh hM
            · rw [← hβ0 ld, h0ld] at hh; exact h1 hh
            · exact h2 hh
      · left
        refine ⟨k + 1, by omega, by rw [← hka]; exact hald, by rw [← hkb]; exact hbrd', ?_⟩
        intro t ht0 ht
        cases t with
        | zero => omega
        | succ t =>
            obtain ⟨q1, q2, q3, _, q5⟩ := hkt t (by omega)
            rw [t1] at q1 q2
            rw [t0] at q3 q5
            refine ⟨q1, q2, ?_, q3⟩
            intro hh
            rw [hh, e_rd] at q5
            exact hl0 q5


/-! ## `three_unlink` -/

theorem Shrink3.mirror {m m' : Map X} (h : Shrink3 m m') (hM : Mirror m) : Mirror m' := by
  intro d hd g1 g2 g3
  have e1 : ∀ x, m'.β 1 x = m.β 1 x := fun x => h.β 1 x (by omega)
  rw [e1] at g1 g3
  rw [e1 d]
  have a2 : m'.β 3 d = m.β 3 d := by
    rcases h.sub d with hh | hh
    · exact hh
    · exact absurd hh g2
  have a3 : m'.β 3 (m.β 1 d) = m.β 3 (m.β 1 d) := by
    rcases h.sub (m.β 1 d) with hh | hh
    · exact hh
    · exact absurd hh g3
  rw [a2] at g2 ⊢
  rw [a3] at g3 ⊢
  rw [e1]
  exact hM d (by rw [← h.n]; exact hd) g1 g2 g3

theorem threeUnlink3_ok {n ld : Nat} {m m' : Map X} {u : Unit} (hw : WF 4 m) (hln : ld < m.n)
    (h : run (threeUnlink3 (X := X) n ld) m = (.ok u, m')) :
    WF 4 m' ∧ Shrink3 m m' := by
  unfold threeUnlink3 at h
  obtain ⟨rd, hb0, h⟩ := run_ro_bind_ok (ReadOnly.rB _ _) h
  obtain ⟨rfl, _, _⟩ := run_rB_ok hb0
  obtain ⟨_, m0, hl, h⟩ := run_bind_ok h
  obtain ⟨_, _, hne, rfl⟩ := iUnlinkCore_ok hl
  have em : (m.setβ 3 ld 0).setβ 3 (m.β 3 ld) 0 = m.unlinkI 3 ld := rfl
  rw [em] at h
  obtain ⟨ls0, hb, h⟩ := run_ro_bind_ok (ReadOnly.rB _ _) h
  obtain ⟨rfl, _, _⟩ := run_rB_ok hb
  obtain ⟨rs0, hb', h⟩ := run_ro_bind_ok (ReadOnly.rB _ _) h
  obtain ⟨rfl, _, _⟩ := run_rB_ok hb'
  obtain ⟨⟨a, b⟩, m1, hwalk, h⟩ := run_bind_ok h
  simp only [] at h
  have hw0 : WF 4 (m.unlinkI 3 ld) := hw.unlinkI (by omega) (by omega) hln hne
  have hs0 : Shrink3 m (m.unlinkI 3 ld) := Shrink3.unlinkI hw hln
  have hrn : m.β 3 ld < (m.unlinkI 3 ld).n := hw.range 3 (by omega) ld hln
  have R := unlinkWalk_ok (by omega) (by omega) (n + 1) _ _ _ m1 (a, b) hw0
    (hw0.range 1 (by omega) ld hln) (hw0.range 0 (by omega) _ hrn) hwalk
  by_cases ha : a = 0
  · rw [if_pos ha] at h
    by_cases hb0 : b ≠ 0
    · rw [if_pos hb0] at h; simp at h
    · rw [if_neg hb0] at h
      obtain ⟨ls1, hc, h⟩ := run_ro_bind_ok (ReadOnly.rB _ _) h
      obtain ⟨rfl, _, _⟩ := run_rB_ok hc
      obtain ⟨rs1, hc', h⟩ := run_ro_bind_ok (ReadOnly.rB _ _) h
      obtain ⟨rfl, _, _⟩ := run_rB_ok hc'
      obtain ⟨o2, m2, hwalk2, h⟩ := run_bind_ok h
      obtain ⟨_, hm'⟩ := run_pure_ok h
      rw [hm']
      have hn1 : m1.n = m.n := (hs0.trans R.2).n
      have R2 := unlinkWalk_ok (by omega) (by omega) (n + 1) _ _ m1 m2 o2 R.1
        (R.1.range 0 (by omega) ld (by rw [hn1]; exact hln))
        (R.1.range 1 (by omega) _ (by rw [hn1]; exact hw.range 3 (by omega) ld hln)) hwalk2
      exact ⟨R2.1, (hs0.trans R.2).trans R2.2⟩
  · rw [if_neg ha] at h
    obtain ⟨_, hm'⟩ := run_pure_ok h
    rw [hm']
    exact ⟨R.1, hs0.trans R.2⟩

/-! ## the 3-D `one_link` / `one_unlink` -/

/-- only β0 / β1 have been written -/
structure Only01 (m m' : Map X) : Prop where
  n : m'.n = m.n
  u : m'.u = m.u
  a : m'.a = m.a
  fc : m'.fc = m.fc
  β : ∀ e d, 2 ≤ e → m'.β e d = m.β e d

theorem Only01.refl (m : Map X) : Only01 m m := ⟨rfl, rfl, rfl, rfl, fun _ _ _ => rfl⟩

theorem Only01.trans {m m' m'' : Map X} (h1 : Only01 m m') (h2 : Only01 m' m'') : Only01 m m'' :=
  ⟨h2.n.trans h1.n, h2.u.trans h1.u, h2.a.trans h1.a, h2.fc.trans h1.fc,
    fun e d he => by rw [h2.β e d he, h1.β e d he]⟩

theorem Only01.unused {m m' : Map X} (h : Only01 m m') (d : Nat) : m'.unused d = m.unused d := by
  unfold Map.unused; rw [h.u]

theorem Only01.link1 {m : Map X} (h : WF 4 m) {l r : Nat} (hl : l < m.n) (hr : r < m.n) :
    Only01 m (m.link1 l r) := by
  refine ⟨rfl, rfl, rfl, rfl, ?_⟩
  intro e d he
  rw [h.toSized.β_link1 (by omega) hl hr]
  have a0 : ¬ (0 = e) := by omega
  have a1 : ¬ (1 = e) := by omega
  simp [a0, a1]

theorem Only01.unlink1 {m : Map X} (h : WF 4 m) {l : Nat} (hl : l < m.n) : Only01 m (m.unlink1 l) := by
  refine ⟨rfl, rfl, rfl, rfl, ?_⟩
  intro e d he
  rw [h.toSized.β_unlink1 (by omega) hl (h.range 1 (by omega) l hl)]
  have a0 : ¬ (0 = e) := by omega
  have a1 : ¬ (1 = e) := by omega
  simp [a0, a1]

/-- a 1-link at a 1-free dart `l` does not disturb the mirror condition away from `l` -/
theorem MAt_link1_frame {m : Map X} (hw : WF 4 m) {l r d : Nat} (hl : l < m.n) (hr : r < m.n)
    (h1l : m.β 1 l = 0) (hd : d ≠ l) (hM : MAtG m 1 d) : MAtG (m.link1 l r) 1 d := by
  have eβ := hw.toSized.β_link1 (by omega) hl hr
  have e3 : ∀ x, (m.link1 l r).β 3 x = m.β 3 x := fun x => (Only01.link1 hw hl hr).β 3 x (by omega)
  have e1 : ∀ x, (m.link1 l r).β 1 x = if l = x then r else m.β 1 x := by
    intro x; rw [eβ]; simp
  unfold MAtG
  simp only [e3]
  have nd : ¬ (l = d) := fun hh => hd hh.symm
  rw [e1 d]
  simp only [nd, if_false]
  intro g1 g2 g3
  rw [e1]
  by_cases hy : l = m.β 3 (m.β 1 d)
  · exfalso
    have := hM g1 g2 g3
    rw [← hy, h1l] at this
    exact g2 this.symm
  · simp only [hy, if_false]
    exact hM g1 g2 g3

theorem oneLink3_ok {l r : Nat} {m m' : Map X} {u : Unit} (hw : WF 4 m)
    (hl0 : l ≠ 0) (hr0 : r ≠ 0) (hln : l < m.n) (hrn : r < m.n)
    (hul : m.unused l = false) (hur : m.unused r = false)
    (h : run (oneLink3 (X := X) l r) m = (.ok u, m')) :
    WF 4 m' ∧ Only01 m m' ∧ (Mirror m → Mirror m') := by
  unfold oneLink3 at h
  obtain ⟨_, m1, hl, h⟩ := run_bind_ok h
  obtain ⟨_, _, f1, f0, rfl⟩ := oneLinkCore_ok hl
  have em : (m.setβ 1 l r).setβ 0 r l = m.link1 l r := rfl
  rw [em] at h
  obtain ⟨b3l, hb, h⟩ := run_ro_bind_ok (ReadOnly.rB _ _) h
  obtain ⟨rfl, _, _⟩ := run_rB_ok hb
  obtain ⟨b3r, hb', h⟩ := run_ro_bind_ok (ReadOnly.rB _ _) h
  obtain ⟨rfl, _, _⟩ := run_rB_ok hb'
  have hw1 : WF 4 (m.link1 l r) := hw.link1 (by omega) hl0 hr0 hln hrn hul hur f1 f0
  have ho1 : Only01 m (m.link1 l r) := Only01.link1 hw hln hrn
  have e3 : ∀ x, (m.link1 l r).β 3 x = m.β 3 x := fun x => ho1.β 3 x (by omega)
  have eβ := hw.toSized.β_link1 (by omega) hln hrn
  have e1 : ∀ x, (m.link1 l r).β 1 x = if l = x then r else m.β 1 x := by
    intro x; rw [eβ]; simp
  rw [e3, e3] at h
  have hM1 : Mirror m → ∀ d, d < m.n → d ≠ l → MAtG (m.link1 l r) 1 d :=
    fun hM d hd hdl => MAt_link1_frame hw hln hrn f1 hdl (hM d hd)
  by_cases hc : m.β 3 l ≠ 0 ∧ m.β 3 r ≠ 0
  · rw [if_pos hc] at h
    obtain ⟨_, _, g1, g0, hm'⟩ := oneLinkCore_ok h
    have em2 : ((m.link1 l r).setβ 1 (m.β 3 r) (m.β 3 l)).setβ 0 (m.β 3 l) (m.β 3 r) =
        (m.link1 l r).link1 (m.β 3 r) (m.β 3 l) := rfl
    rw [em2] at hm'
    rw [hm']
    have il := hw.image_inUse (i := 3) (by omega) hln hc.1
    have ir := hw.image_inUse (i := 3) (by omega) hrn hc.2
    have hw2 : WF 4 ((m.link1 l r).link1 (m.β 3 r) (m.β 3 l)) :=
      hw1.link1 (by omega) hc.2 hc.1 ir.1 il.1 (by rw [ho1.unused]; exact ir.2)
        (by rw [ho1.unused]; exact il.2) g1 g0
    have ho2 : Only01 (m.link1 l r) ((m.link1 l r).link1 (m.β 3 r) (m.β 3 l)) :=
      Only01.link1 hw1 ir.1 il.1
    refine ⟨hw2, ho1.trans ho2, ?_⟩
    intro hM d hd
    have hd' : d < m.n := hd
    have eβ2 := hw1.toSized.β_link1 (by omega) (l := m.β 3 r) (r := m.β 3 l) ir.1 il.1
    have e1' : ∀ x, ((m.link1 l r).link1 (m.β 3 r) (m.β 3 l)).β 1 x =
        if m.β 3 r = x then m.β 3 l else if l = x then r else m.β 1 x := by
      intro x; rw [eβ2]; simp; rw [e1]
    have e3' : ∀ x, ((m.link1 l r).link1 (m.β 3 r) (m.β 3 l)).β 3 x = m.β 3 x :=
      fun x => (ho1.trans ho2).β 3 x (by omega)
    have hlb : m.β 3 r ≠ l := by
      intro hh
      rw [hh, e1] at g1
      simp at g1
      exact hr0 g1
    have h33r : m.β 3 (m.β 3 r) = r := (hw.invol 3 (by omega) (by omega) r hrn hc.2).1
    have h33l : m.β 3 (m.β 3 l) = l := (hw.invol 3 (by omega) (by omega) l hln hc.1).1
    by_cases hdl : d = l
    · rw [hdl]
      simp only [e3']
      have : ¬ (m.β 3 r = l) := hlb
      rw [e1' l]
      simp only [this, if_false, if_true]
      intro _ _ _
      rw [e1']
      simp
    · by_cases hdb : d = m.β 3 r
      · rw [hdb]
        simp only [e3']
        rw [e1' (m.β 3 r)]
        simp only [if_true]
        intro _ _ _
        rw [h33l, h33r, e1']
        have : ¬ (m.β 3 r = l) := hlb
        simp [this]
      · exact MAt_link1_frame hw1 ir.1 il.1 g1 hdb (hM1 hM d hd' hdl)
  · rw [if_neg hc] at h
    obtain ⟨_, hm'⟩ := run_pure_ok h
    rw [hm']
    refine ⟨hw1, ho1, ?_⟩
    intro hM d hd
    by_cases hdl : d = l
    · rw [hdl]
      simp only [e3]
      rw [e1 l]
      simp only [if_true]
      intro _ g2 g3
      exact absurd ⟨g2, g3⟩ hc
    · exact hM1 hM d hd hdl

theorem oneUnlink3_ok {l : Nat} {m m' : Map X} {u : Unit} (hw : WF 4 m) (hln : l < m.n)
    (h : run (oneUnlink3 (X := X) l) m = (.ok u, m')) :
    WF 4 m' ∧ Only01 m m' ∧ (Mirror m → Mirror m') := by
  unfold oneUnlink3 at h
  obtain ⟨r, hb0, h⟩ := run_ro_bind_ok (ReadOnly.rB _ _) h
  obtain ⟨rfl, _, _⟩ := run_rB_ok hb0
  obtain ⟨_, m1, hl, h⟩ := run_bind_ok h
  obtain ⟨_, _, hne, rfl⟩ := oneUnlinkCore_ok hl
  have em : (m.setβ 1 l 0).setβ 0 (m.β 1 l) 0 = m.unlink1 l := rfl
  rw [em] at h
  obtain ⟨b3l, hb, h⟩ := run_ro_bind_ok (ReadOnly.rB _ _) h
  obtain ⟨rfl, _, _⟩ := run_rB_ok hb
  obtain ⟨b3r, hb', h⟩ := run_ro_bind_ok (ReadOnly.rB _ _) h
  obtain ⟨rfl, _, _⟩ := run_rB_ok hb'
  have hrn : m.β 1 l < m.n := hw.range 1 (by omega) l hln
  have hw1 : WF 4 (m.unlink1 l) := hw.unlink1 (by omega) hln hne
  have ho1 : Only01 m (m.unlink1 l) := Only01.unlink1 hw hln
  have e3 : ∀ x, (m.unlink1 l).β 3 x = m.β 3 x := fun x => ho1.β 3 x (by omega)
  have eβ := hw.toSized.β_unlink1 (by omega) hln hrn
  have e1 : ∀ x, (m.unlink1 l).β 1 x = if l = x then 0 else m.β 1 x := by
    intro x; rw [eβ]; simp
  rw [e3, e3] at h
  by_cases hc : m.β 3 l ≠ 0 ∧ m.β 3 (m.β 1 l) ≠ 0
  · rw [if_pos hc] at h
    obtain ⟨x, hx, h⟩ := run_ro_bind_ok (ReadOnly.rB _ _) h
    obtain ⟨rfl, _, _⟩ := run_rB_ok hx
    by_cases hxx : (m.unlink1 l).β 1 (m.β 3 (m.β 1 l)) ≠ m.β 3 l
    · rw [if_pos hxx] at h; simp at h
    · rw [if_neg hxx] at h
      obtain ⟨_, _, hne2, hm'⟩ := oneUnlinkCore_ok h
      have em2 : ((m.unlink1 l).setβ 1 (m.β 3 (m.β 1 l)) 0).setβ 0
          ((m.unlink1 l).β 1 (m.β 3 (m.β 1 l))) 0 = (m.unlink1 l).unlink1 (m.β 3 (m.β 1 l)) := rfl
      rw [em2] at hm'
      rw [hm']
      have hbn : m.β 3 (m.β 1 l) < (m.unlink1 l).n := hw.range 3 (by omega) _ hrn
      have hw2 := hw1.unlink1 (by omega) hbn hne2
      have ho2 := Only01.unlink1 hw1 hbn
      refine ⟨hw2, ho1.trans ho2, ?_⟩
      intro hM d hd
      have hd' : d < m.n := hd
      have eβ2 := hw1.toSized.β_unlink1 (by omega) hbn (hw1.range 1 (by omega) _ hbn)
      have e1' : ∀ x, ((m.unlink1 l).unlink1 (m.β 3 (m.β 1 l))).β 1 x =
          if m.β 3 (m.β 1 l) = x then 0 else if l = x then 0 else m.β 1 x := by
        intro x; rw [eβ2]; simp; rw [e1]
      have e3' : ∀ x, ((m.unlink1 l).unlink1 (m.β 3 (m.β 1 l))).β 3 x = m.β 3 x :=
        fun x => (ho1.trans ho2).β 3 x (by omega)
      simp only [e3']
      rw [e1' d]
      by_cases hdb : m.β 3 (m.β 1 l) = d
      · simp [hdb]
      · by_cases hdl : l = d
        · simp [hdb, hdl]
        · simp only [hdb, hdl, if_false]
          intro g1 g2 g3
          have key := hM d hd' g1 g2 g3
          have hcn : m.β 1 d < m.n := hw.range 1 (by omega) d hd'
          rw [e1']
          have hy1 : ¬ (m.β 3 (m.β 1 l) = m.β 3 (m.β 1 d)) := by
            intro hh
            have a1 := (hw.invol 3 (by omega) (by omega) _ hcn g3).1
            have a2 := (hw.invol 3 (by omega) (by omega) _ hrn hc.2).1
            rw [← hh, a2] at a1
            -- a1 : β1 l = β1 d
            have b1 := hw.inv01 d hd' g1
            have b2 := hw.inv01 l hln hne
            rw [← a1, b2] at b1
            exact hdl b1
          have hy2 : ¬ (l = m.β 3 (m.β 1 d)) := by
            intro hh
            rw [← hh] at key
            -- key : β1 l = β3 d
            have a1 := (hw.invol 3 (by omega) (by omega) d hd' g2).1
            rw [← key] at a1
            exact hdb a1
          simp only [hy1, hy2, if_false]
          exact key
  · rw [if_neg hc] at h
    obtain ⟨_, hm'⟩ := run_pure_ok h
    rw [hm']
    refine ⟨hw1, ho1, ?_⟩
    intro hM d hd
    have hd' : d < m.n := hd
    simp only [e3]
    rw [e1 d]
    by_cases hdl : l = d
    · simp [hdl]
    · simp only [hdl, if_false]
      intro g1 g2 g3
      have key := hM d hd' g1 g2 g3
      have hcn : m.β 1 d < m.n := hw.range 1 (by omega) d hd'
      rw [e1]
      have hy : ¬ (l = m.β 3 (m.β 1 d)) := by
        intro hh
        apply hc
        have a1 := (hw.invol 3 (by omega) (by omega) _ hcn g3).1
        rw [← hh] at a1 key
        -- a1 : β3 l = β1 d ; key : β1 l = β3 d
        have a2 := (hw.invol 3 (by omega) (by omega) d hd' g2).1
        rw [← key] at a2
        have hd0 : d ≠ 0 := fun h0 => g1 (by rw [h0]; exact hw.null 1 (by omega))
        exact ⟨by rw [a1]; exact g1, by rw [a2]; exact hd0⟩
      simp only [hy, if_false]
      exact key

/-- operations that leave β1 and β3 alone keep the mirror condition -/
theorem mirror_of_β13 {m m' : Map X} (hn : m'.n = m.n) (h1 : ∀ d, m'.β 1 d = m.β 1 d)
    (h3 : ∀ d, m'.β 3 d = m.β 3 d) (hM : Mirror m) : Mirror m' := by
  intro d hd
  simp only [h1, h3]
  exact hM d (by rw [← hn]; exact hd)

theorem SameTopo.mirror {m m' : Map X} (st : SameTopo m m') (hM : Mirror m) : Mirror m' :=
  mirror_of_β13 st.n (st.β 1) (st.β 3) hM

end HC
