/-
  3-D links (`dim3/links/{one,three}.rs`): what the lock-step walks of `three_link` /
  `three_unlink` and the β3 side effect of the 3-D `one_link` / `one_unlink` do to a well-formed
  map.  Shared by Props/C02 (integrity, mirror, refusal) and Props/C05 (sews).

  * read-only / attribute-only classification of the 3-D identifier computations;
  * state formulas of the four write patterns (`Map.link1`, `Map.linkI`, `Map.unlink1`,
    `Map.unlinkI`);
  * `linkWalk_ok`: ONE induction on the fuel of `threeLinkWalk`, generic in the direction
    `(i, j) ∈ {(1, 0), (0, 1)}`, carrying at the same time well-formedness, the mirror condition
    away from the frontier of the walk, the frame (`Grow3`) and the trace of the walk as iterates
    of the *initial* map (for the refusal theorem);
  * `unlinkWalk_ok`: the same for `threeUnlinkWalk` (`Shrink3`).
-/
import Honeycomb.Model.Ops3
import Honeycomb.Lemmas.WFLink
import Honeycomb.Lemmas.WFAlloc

set_option linter.unusedSimpArgs false
set_option linter.unusedVariables false

namespace HC
variable {X : Type}

/-! ## peeling helpers -/

theorem run_ro_bind_ok {α β : Type} {p : P X α} {f : α → P X β} (hp : ReadOnly p) {m m' : Map X} {b : β}
    (h : run (p.bind f) m = (.ok b, m')) : ∃ a, run p m = (.ok a, m) ∧ run (f a) m = (.ok b, m') := by
  obtain ⟨a, m1, h1, h2⟩ := run_bind_ok h
  have := hp.run_ok h1; subst this
  exact ⟨a, h1, h2⟩

theorem run_rB_ok {i d x : Nat} {m m' : Map X} (h : run (rB i d : P X Nat) m = (.ok x, m')) :
    x = m.β i d ∧ m' = m ∧ m.okβ i d = true := by
  rw [run_rB'] at h
  split at h
  · rename_i hok
    simp only [Prod.mk.injEq, Out.ok.injEq] at h; exact ⟨h.1.symm, h.2.symm, hok⟩
  · simp at h

theorem run_pure_ok {α : Type} {a b : α} {m m' : Map X} (h : run (pure a : P X α) m = (.ok b, m')) :
    b = a ∧ m' = m := by
  simp only [Prog.pure_eq, run_ret, Prod.mk.injEq, Out.ok.injEq] at h
  exact ⟨h.1.symm, h.2.symm⟩

/-! ## 3-D identifiers and face walks are read-only -/

theorem readOnly_popLoop (gen : Nat → P X (List Nat)) (hg : ∀ d, ReadOnly (gen d)) :
    ∀ fuel pending marked mn, ReadOnly (popLoop gen fuel pending marked mn) := by
  intro fuel
  induction fuel with
  | zero => intro p mk mn; unfold popLoop; exact ReadOnly.panic
  | succ f ih =>
      intro p mk mn
      cases p with
      | nil => unfold popLoop; exact ReadOnly.pure _
      | cons d rest =>
          unfold popLoop
          split
          · exact ih _ _ _
          · exact ReadOnly.bind (hg d) (fun ims => ih _ _ _)

theorem readOnly_genVid3 (d : Nat) : ReadOnly (genVid3 (X := X) d) := by
  unfold genVid3
  exact ReadOnly.bind (ReadOnly.rB _ _) fun _ => ReadOnly.bind (ReadOnly.rB _ _) fun _ =>
    ReadOnly.bind (ReadOnly.rB _ _) fun _ => ReadOnly.bind (ReadOnly.rB _ _) fun _ =>
    ReadOnly.bind (ReadOnly.rB _ _) fun _ => ReadOnly.bind (ReadOnly.rB _ _) fun _ =>
    ReadOnly.bind (ReadOnly.rB _ _) fun _ => ReadOnly.bind (ReadOnly.rB _ _) fun _ => ReadOnly.pure _

theorem readOnly_vertexId3 (n d : Nat) : ReadOnly (vertexId3 (X := X) n d) :=
  readOnly_popLoop _ readOnly_genVid3 _ _ _ _

theorem readOnly_edgeId3 (n d : Nat) : ReadOnly (edgeId3 (X := X) n d) :=
  readOnly_popLoop _ (fun _ => ReadOnly.bind (ReadOnly.rB _ _) fun _ =>
    ReadOnly.bind (ReadOnly.rB _ _) fun _ => ReadOnly.pure _) _ _ _ _

theorem readOnly_volumeId3 (n d : Nat) : ReadOnly (volumeId3 (X := X) n d) :=
  readOnly_popLoop _ (fun _ => ReadOnly.bind (ReadOnly.rB _ _) fun _ =>
    ReadOnly.bind (ReadOnly.rB _ _) fun _ => ReadOnly.bind (ReadOnly.rB _ _) fun _ => ReadOnly.pure _) _ _ _ _

theorem readOnly_gen3_custom_go (d : Nat) : ∀ bs acc, ReadOnly (gen3.go (X := X) d bs acc) := by
  intro bs
  induction bs with
  | nil => intro acc; exact ReadOnly.pure _
  | cons i is ih =>
      intro acc
      unfold gen3.go
      split
      · exact ReadOnly.bind (ReadOnly.rB _ _) (fun im => ih _)
      · exact ReadOnly.panic

theorem readOnly_gen3_custom (bs : List Nat) (d : Nat) : ReadOnly (gen3 (X := X) (.custom bs) d) := by
  unfold gen3
  exact readOnly_gen3_custom_go d _ _

theorem readOnly_faceOrbits3 (n ld rd : Nat) : ReadOnly (faceOrbits3 (X := X) n ld rd) := by
  unfold faceOrbits3
  exact ReadOnly.bind (readOnly_bfs _ (readOnly_gen3_custom _) _ _ _ _) fun _ =>
    ReadOnly.bind (readOnly_bfs _ (readOnly_gen3_custom _) _ _ _ _) fun _ => ReadOnly.pure _

theorem readOnly_threeSewCollect (n : Nat) :
    ∀ ps es vs, ReadOnly (threeSewCollect (X := X) n ps es vs) := by
  intro ps
  induction ps with
  | nil => intro es vs; exact ReadOnly.pure _
  | cons p rest ih =>
      intro es vs
      obtain ⟨l, r⟩ := p
      unfold threeSewCollect
      refine ReadOnly.bind (readOnly_edgeId3 _ _) fun _ => ?_
      refine ReadOnly.bind (readOnly_edgeId3 _ _) fun _ => ?_
      refine ReadOnly.bind (ReadOnly.rB _ _) fun _ => ?_
      refine ReadOnly.bind (ReadOnly.rB _ _) fun _ => ?_
      refine ReadOnly.bind (readOnly_vertexId3 _ _) fun _ => ?_
      refine ReadOnly.bind (readOnly_vertexId3 _ _) fun _ => ?_
      refine ReadOnly.bind (ReadOnly.rB _ _) fun _ => ?_
      refine ReadOnly.ite ?_ (ih _ _)
      refine ReadOnly.bind (ReadOnly.rB _ _) fun _ => ?_
      refine ReadOnly.bind (ReadOnly.rB _ _) fun _ => ?_
      refine ReadOnly.bind (readOnly_vertexId3 _ _) fun _ => ?_
      exact ReadOnly.bind (readOnly_vertexId3 _ _) fun _ => ih _ _

theorem ao_vid3 (n d : Nat) : AttrOnly (vertexId3 (X := X) n d) := AttrOnly.of_readOnly (readOnly_vertexId3 n d)
theorem ao_eid3 (n d : Nat) : AttrOnly (edgeId3 (X := X) n d) := AttrOnly.of_readOnly (readOnly_edgeId3 n d)

theorem AttrOnly.run_ok' {α : Type} {p : P X α} (hp : AttrOnly p) {m m' : Map X} {a : α}
    (h : run p m = (.ok a, m')) : SameTopo m m' := by
  have := hp m; rw [h] at this; exact this


/-! ## the four write patterns as state functions -/

def Map.link1 (m : Map X) (l r : Nat) : Map X := (m.setβ 1 l r).setβ 0 r l
def Map.linkI (m : Map X) (i l r : Nat) : Map X := (m.setβ i l r).setβ i r l
def Map.unlink1 (m : Map X) (l : Nat) : Map X := (m.setβ 1 l 0).setβ 0 (m.β 1 l) 0
def Map.unlinkI (m : Map X) (i l : Nat) : Map X := (m.setβ i l 0).setβ i (m.β i l) 0

theorem Sized.β_link1 {nb : Nat} {m : Map X} (h : Sized nb m) (hnb : 2 ≤ nb) {l r : Nat}
    (hl : l < m.n) (hr : r < m.n) (j e : Nat) :
    (m.link1 l r).β j e = if 0 = j ∧ r = e then l else if 1 = j ∧ l = e then r else m.β j e := by
  unfold Map.link1
  rw [(h.setβ 1 l r).β_setβ (by omega) (by simpa [Map.n_setβ] using hr), h.β_setβ (by omega) hl]

theorem Sized.β_linkI {nb : Nat} {m : Map X} (h : Sized nb m) {i l r : Nat} (hi : i < nb)
    (hl : l < m.n) (hr : r < m.n) (j e : Nat) :
    (m.linkI i l r).β j e = if i = j ∧ r = e then l else if i = j ∧ l = e then r else m.β j e := by
  unfold Map.linkI
  rw [(h.setβ i l r).β_setβ hi (by simpa [Map.n_setβ] using hr), h.β_setβ hi hl]

theorem Sized.β_unlink1 {nb : Nat} {m : Map X} (h : Sized nb m) (hnb : 2 ≤ nb) {l : Nat}
    (hl : l < m.n) (hr : m.β 1 l < m.n) (j e : Nat) :
    (m.unlink1 l).β j e = if 0 = j ∧ m.β 1 l = e then 0 else if 1 = j ∧ l = e then 0 else m.β j e := by
  unfold Map.unlink1
  rw [(h.setβ 1 l 0).β_setβ (by omega) (by simpa [Map.n_setβ] using hr), h.β_setβ (by omega) hl]

theorem Sized.β_unlinkI {nb : Nat} {m : Map X} (h : Sized nb m) {i l : Nat} (hi : i < nb)
    (hl : l < m.n) (hr : m.β i l < m.n) (j e : Nat) :
    (m.unlinkI i l).β j e = if i = j ∧ m.β i l = e then 0 else if i = j ∧ l = e then 0 else m.β j e := by
  unfold Map.unlinkI
  rw [(h.setβ i l 0).β_setβ hi (by simpa [Map.n_setβ] using hr), h.β_setβ hi hl]

/-- removed darts are nobody's image on a well-formed 3-map (`C01_unused_is_nobodys_image`
    for `nb = 4`) -/
theorem WF.noImageOfUnused4 {m : Map X} (h : WF 4 m) : NoImageOfUnused 4 m := by
  intro i hi e he hu
  by_cases h0 : m.β i e = 0
  · exact h0
  · exfalso
    have hr := h.range i hi e he
    have hfree := h.unusedFree _ hr hu
    have : i = 0 ∨ i = 1 ∨ i = 2 ∨ i = 3 := by omega
    rcases this with rfl | rfl | rfl | rfl
    · have := h.inv10 e he h0
      rw [hfree 1 (by omega)] at this
      subst this
      exact h0 (h.null 0 (by omega))
    · have := h.inv01 e he h0
      rw [hfree 0 (by omega)] at this
      subst this
      exact h0 (h.null 1 (by omega))
    · have := (h.invol 2 (by omega) (by omega) e he h0).1
      rw [hfree 2 (by omega)] at this
      subst this
      exact h0 (h.null 2 (by omega))
    · have := (h.invol 3 (by omega) (by omega) e he h0).1
      rw [hfree 3 (by omega)] at this
      subst this
      exact h0 (h.null 3 (by omega))

/-- a non-null image is an in-use dart -/
theorem WF.image_inUse {m : Map X} (h : WF 4 m) {i e : Nat} (hi : i < 4) (he : e < m.n) (hne : m.β i e ≠ 0) :
    m.β i e < m.n ∧ m.unused (m.β i e) = false := by
  refine ⟨h.range i hi e he, ?_⟩
  cases hu : m.unused (m.β i e) with
  | false => rfl
  | true => exact absurd (h.noImageOfUnused4 i hi e he hu) hne

theorem WF.okβ4 {m : Map X} (h : WF 4 m) {i d : Nat} (hi : i < 4) (hd : d < m.n) : m.okβ i d = true :=
  (h.toSized.okβ i d).2 ⟨hi, hd⟩

theorem WF.lt_of_okβ {m : Map X} (h : WF 4 m) {i d : Nat} (hok : m.okβ i d = true) : d < m.n :=
  ((h.toSized.okβ i d).1 hok).2

/-! ## directions of a face walk -/

/-- `(i, j)` = β followed on the left / right side: `(1, 0)` forward, `(0, 1)` backward -/
def Dir (i j : Nat) : Prop := (i = 1 ∧ j = 0) ∨ (i = 0 ∧ j = 1)

theorem Dir.symm {i j : Nat} (d : Dir i j) : Dir j i := by
  rcases d with ⟨rfl, rfl⟩ | ⟨rfl, rfl⟩
  · exact Or.inr ⟨rfl, rfl⟩
  · exact Or.inl ⟨rfl, rfl⟩

theorem Dir.ilt {i j : Nat} (d : Dir i j) : i < 2 := by rcases d with ⟨rfl, rfl⟩ | ⟨rfl, rfl⟩ <;> omega
theorem Dir.jlt {i j : Nat} (d : Dir i j) : j < 2 := by rcases d with ⟨rfl, rfl⟩ | ⟨rfl, rfl⟩ <;> omega

theorem WF.inv_ij {m : Map X} (h : WF 4 m) {i j : Nat} (dir : Dir i j) {d : Nat} (hd : d < m.n)
    (hne : m.β i d ≠ 0) : m.β j (m.β i d) = d := by
  rcases dir with ⟨rfl, rfl⟩ | ⟨rfl, rfl⟩
  · exact h.inv01 d hd hne
  · exact h.inv10 d hd hne

/-- iterates of `β i` on the pure map -/
def it (m : Map X) (i : Nat) : Nat → Nat → Nat
  | 0, d => d
  | k + 1, d => it m i k (m.β i d)

@[simp] theorem it_zero (m : Map X) (i d : Nat) : it m i 0 d = d := rfl
theorem it_succ (m : Map X) (i k d : Nat) : it m i (k + 1) d = it m i k (m.β i d) := rfl

theorem it_succ' (m : Map X) (i : Nat) : ∀ k d, it m i (k + 1) d = m.β i (it m i k d) := by
  intro k
  induction k with
  | zero => intro d; rfl
  | succ k ih => intro d; rw [it_succ, ih]; rfl

theorem it_add (m : Map X) (i : Nat) : ∀ a b d, it m i (a + b) d = it m i b (it m i a d) := by
  intro a
  induction a with
  | zero => intro b d; simp
  | succ a ih => intro b d; rw [show a + 1 + b = (a + b) + 1 by omega, it_succ, ih]; rfl

theorem it_null {m : Map X} {i : Nat} (h : m.β i 0 = 0) : ∀ k, it m i k 0 = 0 := by
  intro k
  induction k with
  | zero => rfl
  | succ k ih => rw [it_succ, h, ih]

theorem it_congr {m m' : Map X} {i : Nat} (h : ∀ d, m'.β i d = m.β i d) : ∀ k d, it m' i k d = it m i k d := by
  intro k
  induction k with
  | zero => intro d; rfl
  | succ k ih => intro d; rw [it_succ, it_succ, h, ih]

theorem it_lt {m : Map X} (h : WF 4 m) {i : Nat} (hi : i < 4) : ∀ k d, d < m.n → it m i k d < m.n := by
  intro k
  induction k with
  | zero => intro d hd; exact hd
  | succ k ih => intro d hd; rw [it_succ]; exact ih _ (h.range i hi d hd)

/-! ## frames of the 3-(un)link walks -/

/-- only null β3 entries have been written (3-links) -/
structure Grow3 (m m' : Map X) : Prop where
  n : m'.n = m.n
  u : m'.u = m.u
  a : m'.a = m.a
  fc : m'.fc = m.fc
  β : ∀ e d, e ≠ 3 → m'.β e d = m.β e d
  keep : ∀ d, m.β 3 d ≠ 0 → m'.β 3 d = m.β 3 d

theorem Grow3.refl (m : Map X) : Grow3 m m := ⟨rfl, rfl, rfl, rfl, fun _ _ _ => rfl, fun _ _ => rfl⟩

theorem Grow3.trans {m m' m'' : Map X} (h1 : Grow3 m m') (h2 : Grow3 m' m'') : Grow3 m m'' := by
  refine ⟨h2.n.trans h1.n, h2.u.trans h1.u, h2.a.trans h1.a, h2.fc.trans h1.fc, ?_, ?_⟩
  · intro e d he; rw [h2.β e d he, h1.β e d he]
  · intro d hd
    have := h1.keep d hd
    rw [h2.keep d (by rw [this]; exact hd), this]

theorem Grow3.unused {m m' : Map X} (h : Grow3 m m') (d : Nat) : m'.unused d = m.unused d := by
  unfold Map.unused; rw [h.u]

theorem Grow3.free {m m' : Map X} (h : Grow3 m m') {d : Nat} (hd : m'.β 3 d = 0) : m.β 3 d = 0 := by
  by_cases h0 : m.β 3 d = 0
  · exact h0
  · rw [h.keep d h0] at hd; exact absurd hd h0

theorem Grow3.linkI {m : Map X} (h : WF 4 m) {l r : Nat} (hl : l < m.n) (hr : r < m.n)
    (h1 : m.β 3 l = 0) (h2 : m.β 3 r = 0) : Grow3 m (m.linkI 3 l r) := by
  refine ⟨rfl, rfl, rfl, rfl, ?_, ?_⟩
  · intro e d he
    rw [h.toSized.β_linkI (by omega) hl hr]
    have : ¬ (3 = e) := fun hh => he hh.symm
    simp [this]
  · intro d hd
    rw [h.toSized.β_linkI (by omega) hl hr]
    have a1 : r ≠ d := fun hh => hd (hh ▸ h2)
    have a2 : l ≠ d := fun hh => hd (hh ▸ h1)
    simp [a1, a2]

/-- β3 entries have only been cleared (3-unlinks) -/
structure Shrink3 (m m' : Map X) : Prop where
  n : m'.n = m.n
  u : m'.u = m.u
  a : m'.a = m.a
  fc : m'.fc = m.fc
  β : ∀ e d, e ≠ 3 → m'.β e d = m.β e d
  sub : ∀ d, m'.β 3 d = m.β 3 d ∨ m'.β 3 d = 0

theorem Shrink3.refl (m : Map X) : Shrink3 m m := ⟨rfl, rfl, rfl, rfl, fun _ _ _ => rfl, fun _ => Or.inl rfl⟩

theorem Shrink3.trans {m m' m'' : Map X} (h1 : Shrink3 m m') (h2 : Shrink3 m' m'') : Shrink3 m m'' := by
  refine ⟨h2.n.trans h1.n, h2.u.trans h1.u, h2.a.trans h1.a, h2.fc.trans h1.fc, ?_, ?_⟩
  · intro e d he; rw [h2.β e d he, h1.β e d he]
  · intro d
    rcases h2.sub d with h | h
    · rw [h]; exact h1.sub d
    · exact Or.inr h

theorem Shrink3.unlinkI {m : Map X} (h : WF 4 m) {l : Nat} (hl : l < m.n) : Shrink3 m (m.unlinkI 3 l) := by
  have hr : m.β 3 l < m.n := h.range 3 (by omega) l hl
  refine ⟨rfl, rfl, rfl, rfl, ?_, ?_⟩
  · intro e d he
    rw [h.toSized.β_unlinkI (by omega) hl hr]
    have : ¬ (3 = e) := fun hh => he hh.symm
    simp [this]
  · intro d
    rw [h.toSized.β_unlinkI (by omega) hl hr]
    split
    · exact Or.inr rfl
    · split
      · exact Or.inr rfl
      · exact Or.inl rfl


/-! ## the lock-step walk of `three_link` -/

/-- the mirror condition at one dart, in direction `i` (`Mirror m ↔ ∀ d < n, MAtG m 1 d`) -/
def MAtG (m : Map X) (i d : Nat) : Prop :=
  m.β i d ≠ 0 → m.β 3 d ≠ 0 → m.β 3 (m.β i d) ≠ 0 → m.β i (m.β 3 (m.β i d)) = m.β 3 d

/-- loop invariant of `threeLinkWalk` at the loop head: `(pl, pr)` is the pair linked last,
    `(ls, rs)` the current pair; the mirror condition holds except at the frontier `pl`, `rs` and
    at the fixed exceptions `E` -/
structure LInv (m : Map X) (i j stop pl pr ls rs : Nat) (E : Nat → Prop) : Prop where
  wf : WF 4 m
  pln : pl < m.n
  prn : pr < m.n
  pl0 : pl ≠ 0
  pr0 : pr ≠ 0
  b3 : m.β 3 pl = pr
  bi : m.β i pl = ls
  bj : m.β j pr = rs
  prs : pr ≠ stop
  st3 : stop ≠ 0 → m.β 3 stop ≠ 0
  mir : ∀ d, d < m.n → d ≠ pl → d ≠ rs → ¬ E d → MAtG m i d

/-- what a successful walk returns -/
structure WalkOut (m m' : Map X) (i j stop ls rs a b : Nat) (E : Nat → Prop) : Prop where
  inv : ∃ pl' pr', LInv m' i j stop pl' pr' a b E
  stopd : a = stop ∨ a = 0
  grow : Grow3 m m'
  trace : ∃ k, a = it m i k ls ∧ b = it m j k rs ∧
    ∀ t, t < k → it m i t ls ≠ stop ∧ it m i t ls ≠ 0 ∧ it m j t rs ≠ 0 ∧
      m.β 3 (it m i t ls) = 0 ∧ m.β 3 (it m j t rs) = 0

theorem linkWalk_ok {ld rd stop i j : Nat} (dir : Dir i j) (E : Nat → Prop) :
    ∀ (f ls rs pl pr : Nat) (m m' : Map X) (a b : Nat),
      LInv m i j stop pl pr ls rs E →
      run (threeLinkWalk (X := X) ld rd stop i j f ls rs) m = (.ok (a, b), m') →
      WalkOut m m' i j stop ls rs a b E := by
  intro f
  induction f with
  | zero =>
      intro ls rs pl pr m m' a b _ h
      unfold threeLinkWalk at h; simp at h
  | succ f ih =>
      intro ls rs pl pr m m' a b I h
      unfold threeLinkWalk at h
      by_cases hc : ls ≠ stop ∧ ls ≠ 0
      · rw [if_pos hc] at h
        by_cases hrs : rs = 0
        · rw [if_pos hrs] at h; simp at h
        · rw [if_neg hrs] at h
          obtain ⟨_, m1, hl, h⟩ := run_bind_ok h
          obtain ⟨ok1, ok2, f1, f2, rfl⟩ := iLinkCore_ok hl
          obtain ⟨ls', hb, h⟩ := run_ro_bind_ok (ReadOnly.rB _ _) h
          obtain ⟨rfl, _, _⟩ := run_rB_ok hb
          obtain ⟨rs', hb', h⟩ := run_ro_bind_ok (ReadOnly.rB _ _) h
          obtain ⟨rfl, _, _⟩ := run_rB_ok hb'
          have em : ∀ l r, (m.setβ 3 l r).setβ 3 r l = m.linkI 3 l r := fun _ _ => rfl
          simp only [em] at h
          have hw := I.wf
          have hi4 : i < 4 := by have := dir.ilt; omega
          have hj4 : j < 4 := by have := dir.jlt; omega
          have hi3 : i ≠ 3 := by have := dir.ilt; omega
          have hj3 : j ≠ 3 := by have := dir.jlt; omega
          have n3i : ¬ (3 = i) := fun hh => hi3 hh.symm
          have n3j : ¬ (3 = j) := fun hh => hj3 hh.symm
          have hlsn : ls < m.n := by rw [← I.bi]; exact hw.range i hi4 pl I.pln
          have hrsn : rs < m.n := by rw [← I.bj]; exact hw.range j hj4 pr I.prn
          have hjls : m.β j ls = pl := by
            have := hw.inv_ij dir I.pln (by rw [I.bi]; exact hc.2); rwa [I.bi] at this
          have hirs : m.β i rs = pr := by
            have := hw.inv_ij dir.symm I.prn (by rw [I.bj]; exact hrs); rwa [I.bj] at this
          have hpr3 : m.β 3 pr = pl := by
            have := (hw.invol 3 (by omega) (by omega) pl I.pln (by rw [I.b3]; exact I.pr0)).1
            rwa [I.b3] at this
          have huls : m.unused ls = false := by
            have := hw.image_inUse hi4 I.pln (by rw [I.bi]; exact hc.2); rw [I.bi] at this; exact this.2
          have hurs : m.unused rs = false := by
            have := hw.image_inUse hj4 I.prn (by rw [I.bj]; exact hrs); rw [I.bj] at this; exact this.2
          have hprls : pr ≠ ls := fun hh => I.pl0 (by rw [← hpr3, hh, f1])
          have hprrs : pr ≠ rs := fun hh => I.pl0 (by rw [← hpr3, hh, f2])
          have hplls : pl ≠ ls := fun hh => I.pr0 (by rw [← I.b3, hh, f1])
          have hplrs : pl ≠ rs := fun hh => I.pr0 (by rw [← I.b3, hh, f2])
          by_cases hlr : ls = rs
          · -- the core was handed the same dart twice: a β3 fixed point is created, and the
            -- next round is necessarily refused (its left dart is the previous right dart)
            exfalso
            subst hlr
            have eβ := hw.toSized.β_linkI (i := 3) (by omega) hlsn hlsn
            have e1 : (m.linkI 3 ls ls).β i ls = pr := by
              rw [eβ]; simp only [n3i, false_and, if_false]; exact hirs
            have e2 : (m.linkI 3 ls ls).β j ls = pl := by
              rw [eβ]; simp only [n3j, false_and, if_false]; exact hjls
            rw [e1, e2] at h
            cases f with
            | zero => unfold threeLinkWalk at h; simp at h
            | succ f' =>
                unfold threeLinkWalk at h
                rw [if_pos ⟨I.prs, I.pr0⟩, if_neg I.pl0] at h
                obtain ⟨_, m2, hl2, _⟩ := run_bind_ok h
                obtain ⟨_, _, g1, _, _⟩ := iLinkCore_ok hl2
                rw [eβ] at g1
                have : ¬ (ls = pr) := fun hh => hprls hh.symm
                simp only [this, and_false, if_false] at g1
                exact I.pl0 (by rw [← hpr3, g1])
          · have hw1 : WF 4 (m.linkI 3 ls rs) :=
              hw.linkI (by omega) (by omega) hc.2 hrs hlr hlsn hrsn huls hurs f1 f2
            have hg : Grow3 m (m.linkI 3 ls rs) := Grow3.linkI hw hlsn hrsn f1 f2
            have eβ := hw.toSized.β_linkI (i := 3) (by omega) hlsn hrsn
            have hβi : ∀ x, (m.linkI 3 ls rs).β i x = m.β i x := fun x => hg.β i x hi3
            have hβj : ∀ x, (m.linkI 3 ls rs).β j x = m.β j x := fun x => hg.β j x hj3
            have nrl : ¬ (rs = ls) := fun hh => hlr hh.symm
            have e_ls : (m.linkI 3 ls rs).β 3 ls = rs := by rw [eβ]; simp [nrl]
            have e_rs : (m.linkI 3 ls rs).β 3 rs = ls := by rw [eβ]; simp
            have e_oth : ∀ x, x ≠ ls → x ≠ rs → (m.linkI 3 ls rs).β 3 x = m.β 3 x := by
              intro x h1 h2
              rw [eβ]
              have a1 : ¬ (rs = x) := fun hh => h2 hh.symm
              have a2 : ¬ (ls = x) := fun hh => h1 hh.symm
              simp [a1, a2]
            have I1 : LInv (m.linkI 3 ls rs) i j stop ls rs ((m.linkI 3 ls rs).β i ls)
                ((m.linkI 3 ls rs).β j rs) E := by
              refine ⟨hw1, hlsn, hrsn, hc.2, hrs, e_ls, rfl, rfl, ?_, ?_, ?_⟩
              · intro hh
                by_cases hs0 : stop = 0
                · exact hrs (hh.trans hs0)
                · exact I.st3 hs0 (hh ▸ f2)
              · intro hs0; rw [hg.keep stop (I.st3 hs0)]; exact I.st3 hs0
              · intro d hd hdls hdrs' hE
                have hd' : d < m.n := hd
                rw [hβj] at hdrs'
                unfold MAtG
                simp only [hβi]
                by_cases hdpl : d = pl
                · rw [hdpl, I.bi, e_ls, e_oth pl hplls hplrs, I.b3]
                  intro _ _ _; exact hirs
                · by_cases hdrs : d = rs
                  · rw [hdrs, hirs, e_rs, e_oth pr hprls hprrs, hpr3]
                    intro _ _ _; exact I.bi
                  · intro h1 h2 h3
                    have hc1 : m.β i d ≠ ls := by
                      intro hh
                      have := hw.inv_ij dir hd' h1
                      rw [hh, hjls] at this
                      exact hdpl this.symm
                    have hc2 : m.β i d ≠ rs := by
                      intro hh
                      have := hw.inv_ij dir hd' h1
                      rw [hh] at this
                      exact hdrs' this.symm
                    rw [e_oth d hdls hdrs] at h2 ⊢
                    rw [e_oth _ hc1 hc2] at h3 ⊢
                    exact I.mir d hd' hdpl hdrs hE h1 h2 h3
            have R := ih _ _ ls rs (m.linkI 3 ls rs) m' a b I1 h
            refine ⟨R.inv, R.stopd, hg.trans R.grow, ?_⟩
            obtain ⟨k, ha, hb2, ht⟩ := R.trace
            have ei : ∀ t x, it (m.linkI 3 ls rs) i t x = it m i t x := it_congr hβi
            have ej : ∀ t x, it (m.linkI 3 ls rs) j t x = it m j t x := it_congr hβj
            have e1 : ∀ t, it (m.linkI 3 ls rs) i t ((m.linkI 3 ls rs).β i ls) = it m i (t + 1) ls := by
              intro t
              show _ = it m i t (m.β i ls)
              rw [ei, hβi ls]
            have e2 : ∀ t, it (m.linkI 3 ls rs) j t ((m.linkI 3 ls rs).β j rs) = it m j (t + 1) rs := by
              intro t
              show _ = it m j t (m.β j rs)
              rw [ej, hβj rs]
            refine ⟨k + 1, by rw [ha, e1], by rw [hb2, e2], ?_⟩
            intro t ht'
            cases t with
            | zero => exact ⟨hc.1, hc.2, hrs, f1, f2⟩
            | succ t =>
                obtain ⟨q1, q2, q3, q4, q5⟩ := ht t (by omega)
                have q4' := hg.free q4
                have q5' := hg.free q5
                rw [e1] at q1 q2 q4'
                rw [e2] at q3 q5'
                exact ⟨q1, q2, q3, q4', q5'⟩
      · rw [if_neg hc] at h
        obtain ⟨hab, rfl⟩ := run_pure_ok h
        simp only [Prod.mk.injEq] at hab
        obtain ⟨rfl, rfl⟩ := hab
        refine ⟨⟨pl, pr, I⟩, by omega, Grow3.refl _, 0, rfl, rfl, ?_⟩
        intro t ht; omega

end HC
