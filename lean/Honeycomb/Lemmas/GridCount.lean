/-
  Counting the cells the iterators yield (C12): a generic "count by bijection" lemma and the
  arithmetic coding of lattice points.
-/
import Mathlib.Data.List.Nodup
import Batteries.Data.List.Perm
import Honeycomb.Lemmas.GridGeneric

namespace HC.GridCount
open HC

/-- the elements of `range n` selected by `p` are as many as `N` when `φ` maps them bijectively
    onto `range N` -/
theorem length_filter_bij (n N : Nat) (p : Nat → Bool) (φ : Nat → Nat)
    (inj : ∀ x, x < n → p x = true → ∀ y, y < n → p y = true → φ x = φ y → x = y)
    (into : ∀ x, x < n → p x = true → φ x < N)
    (surj : ∀ t, t < N → ∃ x, x < n ∧ p x = true ∧ φ x = t) :
    ((List.range n).filter p).length = N := by
  have nd : ((List.range n).filter p).Nodup := List.nodup_range.filter _
  have ndF : (((List.range n).filter p).map φ).Nodup := by
    apply List.Nodup.map_on _ nd
    intro x hx y hy h
    obtain ⟨hx1, hx2⟩ := List.mem_filter.mp hx
    obtain ⟨hy1, hy2⟩ := List.mem_filter.mp hy
    exact inj x (List.mem_range.mp hx1) hx2 y (List.mem_range.mp hy1) hy2 h
  have s1 : ((List.range n).filter p).map φ ⊆ List.range N := by
    intro t ht
    obtain ⟨x, hx, rfl⟩ := List.mem_map.mp ht
    obtain ⟨hx1, hx2⟩ := List.mem_filter.mp hx
    exact List.mem_range.mpr (into x (List.mem_range.mp hx1) hx2)
  have s2 : List.range N ⊆ ((List.range n).filter p).map φ := by
    intro t ht
    obtain ⟨x, hx, hp, rfl⟩ := surj t (List.mem_range.mp ht)
    exact List.mem_map.mpr ⟨x, List.mem_filter.mpr ⟨List.mem_range.mpr hx, hp⟩, rfl⟩
  have l1 := (List.subperm_of_subset ndF s1).length_le
  have l2 := (List.subperm_of_subset List.nodup_range s2).length_le
  simp only [List.length_map, List.length_range] at l1 l2
  omega

/-- the darts `1, K+1, 2K+1, …` among `0 .. K·N` are `N` -/
theorem countK (K N : Nat) (hK : 0 < K) :
    ((List.range (K * N + 1)).filter (fun d => decide (d ≠ 0 ∧ (d - 1) % K = 0))).length = N := by
  apply length_filter_bij (K * N + 1) N _ (fun d => (d - 1) / K)
  · intro x _ hx y _ hy h
    simp only [ne_eq, decide_eq_true_eq] at hx hy
    have ex := Nat.div_add_mod (x - 1) K
    have ey := Nat.div_add_mod (y - 1) K
    have h' : (x - 1) / K = (y - 1) / K := h
    rw [h'] at ex
    omega
  · intro x hx hp
    simp only [ne_eq, decide_eq_true_eq] at hp
    show (x - 1) / K < N
    rw [Nat.div_lt_iff_lt_mul hK]
    have := Nat.mul_comm K N
    omega
  · intro t ht
    refine ⟨K * t + 1, ?_, ?_, ?_⟩
    · have : K * (t + 1) ≤ K * N := Nat.mul_le_mul_left K ht
      rw [Nat.mul_succ] at this
      omega
    · simp
    · simp only [Nat.add_sub_cancel]
      exact Nat.mul_div_cancel_left t hK

/-! ## coding lattice points by one number -/

/-- `(i, j)` with `i ≤ nx` ↦ `i + (nx+1)·j` -/
def code2 (nx : Nat) (p : Nat × Nat) : Nat := p.1 + (nx + 1) * p.2

theorem code2_lt {nx ny : Nat} {p : Nat × Nat} (h1 : p.1 ≤ nx) (h2 : p.2 ≤ ny) :
    code2 nx p < (nx + 1) * (ny + 1) := add_mul_lt (by omega) (by omega)

theorem code2_inj {nx : Nat} {p q : Nat × Nat} (hp : p.1 ≤ nx) (hq : q.1 ≤ nx)
    (h : code2 nx p = code2 nx q) : p = q := by
  unfold code2 at h
  have a1 := add_mul_mod (n := nx + 1) p.2 (a := p.1) (by omega)
  have a2 := add_mul_mod (n := nx + 1) q.2 (a := q.1) (by omega)
  have b1 := add_mul_div (n := nx + 1) p.2 (a := p.1) (by omega)
  have b2 := add_mul_div (n := nx + 1) q.2 (a := q.1) (by omega)
  rw [h] at a1 b1
  exact Prod.ext (a1.symm.trans a2) (b1.symm.trans b2)

theorem code2_surj {nx ny t : Nat} (ht : t < (nx + 1) * (ny + 1)) :
    ∃ i j, i ≤ nx ∧ j ≤ ny ∧ code2 nx (i, j) = t := by
  refine ⟨t % (nx + 1), t / (nx + 1), ?_, ?_, Nat.mod_add_div t (nx + 1)⟩
  · have := Nat.mod_lt t (show 0 < nx + 1 by omega); omega
  · have : t / (nx + 1) < ny + 1 := by
      rw [Nat.div_lt_iff_lt_mul (show 0 < nx + 1 by omega), Nat.mul_comm]; exact ht
    omega

/-- `(i, j, k)` with `i ≤ nx`, `j ≤ ny` ↦ `i + (nx+1)·(j + (ny+1)·k)` -/
def code3 (nx ny : Nat) (p : Nat × Nat × Nat) : Nat := cellIdx (nx + 1) (ny + 1) p.1 p.2.1 p.2.2

theorem code3_lt {nx ny nz : Nat} {p : Nat × Nat × Nat} (h1 : p.1 ≤ nx) (h2 : p.2.1 ≤ ny) (h3 : p.2.2 ≤ nz) :
    code3 nx ny p < (nx + 1) * (ny + 1) * (nz + 1) :=
  cellIdx_lt (by omega) (by omega) (by omega)

theorem code3_inj {nx ny : Nat} {p q : Nat × Nat × Nat} (hp1 : p.1 ≤ nx) (hp2 : p.2.1 ≤ ny)
    (hq1 : q.1 ≤ nx) (hq2 : q.2.1 ≤ ny) (h : code3 nx ny p = code3 nx ny q) : p = q := by
  unfold code3 at h
  have x1 := cellIdx_x (nx := nx + 1) (ny := ny + 1) (ix := p.1) (iy := p.2.1) (iz := p.2.2) (by omega)
  have x2 := cellIdx_x (nx := nx + 1) (ny := ny + 1) (ix := q.1) (iy := q.2.1) (iz := q.2.2) (by omega)
  have y1 := cellIdx_y (nx := nx + 1) (ny := ny + 1) (ix := p.1) (iy := p.2.1) (iz := p.2.2) (by omega) (by omega)
  have y2 := cellIdx_y (nx := nx + 1) (ny := ny + 1) (ix := q.1) (iy := q.2.1) (iz := q.2.2) (by omega) (by omega)
  have z1 := cellIdx_z (nx := nx + 1) (ny := ny + 1) (ix := p.1) (iy := p.2.1) (iz := p.2.2) (by omega) (by omega)
  have z2 := cellIdx_z (nx := nx + 1) (ny := ny + 1) (ix := q.1) (iy := q.2.1) (iz := q.2.2) (by omega) (by omega)
  rw [h] at x1 y1 z1
  obtain ⟨p1, p2, p3⟩ := p
  obtain ⟨q1, q2, q3⟩ := q
  simp only at x1 x2 y1 y2 z1 z2
  simp only [Prod.mk.injEq]
  exact ⟨x1.symm.trans x2, y1.symm.trans y2, z1.symm.trans z2⟩

theorem code3_surj {nx ny nz t : Nat} (ht : t < (nx + 1) * (ny + 1) * (nz + 1)) :
    ∃ i j k, i ≤ nx ∧ j ≤ ny ∧ k ≤ nz ∧ code3 nx ny (i, j, k) = t := by
  have h1 : 1 ≤ t + 1 := by omega
  have h2 : t + 1 ≤ 1 * ((nx + 1) * (ny + 1) * (nz + 1)) := by omega
  obtain ⟨i, j, k, o, hi, hj, hk, ho, e⟩ := decode (K := 1) (nx := nx + 1) (ny := ny + 1) (by decide)
    (by omega) (by omega) h1 h2
  refine ⟨i, j, k, by omega, by omega, by omega, ?_⟩
  unfold dartOf at e
  unfold code3
  simp only
  omega

end HC.GridCount
