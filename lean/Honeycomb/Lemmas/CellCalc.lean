/-
  Cell calculus (DESIGN Appendix A3/A4): what a link does to the vertex cells of a 2-map.

  * `sameCell_add_pair` (A3): adding one symmetric generator pair `p — q` to a generator relation
    unites the cells of `p` and `q` and changes nothing else.
  * `vertex_gstep_link1` (A4): on a WF map, after `β1 l := r ; β0 r := l` the vertex generator
    steps are the old ones plus the pair `β2 l — r` (nothing when `β2 l` is null).
-/
import Honeycomb.Props.C03
import Honeycomb.Lemmas.WFLink

set_option linter.unusedSimpArgs false
set_option linter.unusedVariables false

namespace HC.CellCalc
open HC HC.C03

/-! ## A3 -/

section A3
variable {g g' : Nat → List Nat} {n p q : Nat}

theorem SameCell.symm' {g : Nat → List Nat} {n a b : Nat} (h : SameCell g n a b) : SameCell g n b a := .symm h

/-- the relation obtained by uniting the cells of `p` and `q` -/
def United (g : Nat → List Nat) (n p q d e : Nat) : Prop :=
  SameCell g n d e ∨ (SameCell g n d p ∧ SameCell g n q e) ∨ (SameCell g n d q ∧ SameCell g n p e)

theorem United.refl (d : Nat) : United g n p q d d := Or.inl (.refl d)

theorem United.symm {d e : Nat} (h : United g n p q d e) : United g n p q e d := by
  rcases h with h | ⟨h1, h2⟩ | ⟨h1, h2⟩
  · exact Or.inl (.symm h)
  · exact Or.inr (Or.inr ⟨.symm h2, .symm h1⟩)
  · exact Or.inr (Or.inl ⟨.symm h2, .symm h1⟩)

theorem United.trans {d b e : Nat} (h1 : United g n p q d b) (h2 : United g n p q b e) :
    United g n p q d e := by
  rcases h1 with a | ⟨a1, a2⟩ | ⟨a1, a2⟩ <;> rcases h2 with c | ⟨c1, c2⟩ | ⟨c1, c2⟩
  · exact Or.inl (.trans a c)
  · exact Or.inr (Or.inl ⟨.trans a c1, c2⟩)
  · exact Or.inr (Or.inr ⟨.trans a c1, c2⟩)
  · exact Or.inr (Or.inl ⟨a1, .trans a2 c⟩)
  · -- d~p, q~b, b~p, q~e : p and q were already in the same cell
    exact Or.inl (.trans a1 (.trans (.symm (.trans a2 c1)) c2))
  · -- d~p, q~b, b~q, p~e
    exact Or.inl (.trans a1 c2)
  · exact Or.inr (Or.inr ⟨a1, .trans a2 c⟩)
  · -- d~q, p~b, b~p, q~e
    exact Or.inl (.trans a1 c2)
  · -- d~q, p~b, b~q, p~e
    exact Or.inl (.trans a1 (.trans (.symm (.trans a2 c1)) c2))

/-- **A3**: if the generator steps of `g'` are those of `g` plus the symmetric pair `p — q`, the
    cells of `g'` are those of `g` with the cells of `p` and `q` united -/
theorem sameCell_add_pair
    (hstep : ∀ a b, GStep g' n a b ↔ (GStep g n a b ∨ (a = p ∧ b = q) ∨ (a = q ∧ b = p)))
    (d e : Nat) : SameCell g' n d e ↔ United g n p q d e := by
  constructor
  · intro h
    induction h with
    | refl a => exact United.refl a
    | step hs =>
        rcases (hstep _ _).1 hs with h | ⟨rfl, rfl⟩ | ⟨rfl, rfl⟩
        · exact Or.inl (.step h)
        · exact Or.inr (Or.inl ⟨.refl _, .refl _⟩)
        · exact Or.inr (Or.inr ⟨.refl _, .refl _⟩)
    | symm _ ih => exact ih.symm
    | trans _ _ ih1 ih2 => exact ih1.trans ih2
  · have mono : ∀ a b, SameCell g n a b → SameCell g' n a b := by
      intro a b h
      induction h with
      | refl a => exact .refl a
      | step hs => exact .step ((hstep _ _).2 (Or.inl hs))
      | symm _ ih => exact .symm ih
      | trans _ _ ih1 ih2 => exact .trans ih1 ih2
    have hpq : p = q ∨ GStep g' n p q := by
      by_cases h : p = q
      · exact Or.inl h
      · exact Or.inr ((hstep p q).2 (Or.inr (Or.inl ⟨rfl, rfl⟩)))
    have pq : SameCell g' n p q := by
      rcases hpq with h | h
      · subst h; exact .refl _
      · exact .step h
    intro h
    rcases h with h | ⟨h1, h2⟩ | ⟨h1, h2⟩
    · exact mono _ _ h
    · exact .trans (mono _ _ h1) (.trans pq (mono _ _ h2))
    · exact .trans (mono _ _ h1) (.trans (.symm pq) (mono _ _ h2))

/-- same generator steps, same cells -/
theorem sameCell_congr (hstep : ∀ a b, GStep g' n a b ↔ GStep g n a b) (d e : Nat) :
    SameCell g' n d e ↔ SameCell g n d e := by
  constructor <;> intro h
  · induction h with
    | refl a => exact .refl a
    | step hs => exact .step ((hstep _ _).1 hs)
    | symm _ ih => exact .symm ih
    | trans _ _ ih1 ih2 => exact .trans ih1 ih2
  · induction h with
    | refl a => exact .refl a
    | step hs => exact .step ((hstep _ _).2 hs)
    | symm _ ih => exact .symm ih
    | trans _ _ ih1 ih2 => exact .trans ih1 ih2

end A3

/-! ## A4: the vertex generator steps after a 1-link -/

variable {X : Type}

/-- the map after `one_link_core l r` -/
def link1 (m : Map X) (l r : Nat) : Map X := (m.setβ 1 l r).setβ 0 r l

theorem link1_β {m : Map X} (h : WF 3 m) {l r : Nat} (hl : l < m.n) (hr : r < m.n) (j e : Nat) :
    (link1 m l r).β j e = if 0 = j ∧ r = e then l else if 1 = j ∧ l = e then r else m.β j e := by
  unfold link1
  have s1 : Sized 3 (m.setβ 1 l r) := h.toSized.setβ _ _ _
  rw [s1.β_setβ (by omega) (by simpa [Map.n_setβ] using hr), h.toSized.β_setβ (by omega) hl]

theorem link1_n (m : Map X) (l r : Nat) : (link1 m l r).n = m.n := rfl

/-- **A4 (1-link)**: the vertex generator steps of the linked map are the old ones plus the pair
    `β2 l — r` -/
theorem vertex_gstep_link1 {m : Map X} (h : WF 3 m) {l r : Nat}
    (hl0 : l ≠ 0) (hr0 : r ≠ 0) (hl : l < m.n) (hr : r < m.n)
    (h1 : m.β 1 l = 0) (h0 : m.β 0 r = 0) (hx : m.β 2 l ≠ 0) (a b : Nat) :
    GStep (g2 (link1 m l r) .vertex) m.n a b ↔
      (GStep (g2 m .vertex) m.n a b ∨ (a = m.β 2 l ∧ b = r) ∨ (a = r ∧ b = m.β 2 l)) := by
  have e := link1_β h hl hr
  have hxl : m.β 2 (m.β 2 l) = l := (h.invol 2 (by omega) (by omega) l hl hx).1
  have hxn : m.β 2 l < m.n := h.range 2 (by omega) l hl
  have n1 := h.null 1 (by omega)
  have n2 := h.null 2 (by omega)
  have n0 := h.null 0 (by omega)
  -- first image
  have im1 : ∀ a, a ≠ 0 → a < m.n →
      (link1 m l r).β 1 ((link1 m l r).β 2 a) = if a = m.β 2 l then r else m.β 1 (m.β 2 a) := by
    intro a ha0 ha
    rw [e 2 a, e 1]
    simp only [show ¬ (0 = 2) by omega, show ¬ (1 = 2) by omega, false_and, if_false,
      show ¬ (0 = 1) by omega, true_and]
    by_cases hc : l = m.β 2 a
    · have : a = m.β 2 l := by
        have hne : m.β 2 a ≠ 0 := by rw [← hc]; exact hl0
        have := (h.invol 2 (by omega) (by omega) a ha hne).1
        rw [← hc] at this; exact this.symm
      rw [if_pos hc, if_pos this]
    · have : ¬ a = m.β 2 l := by
        intro ha'; apply hc; rw [ha', hxl]
      rw [if_neg hc, if_neg this]
  -- second image
  have im2 : ∀ a, (link1 m l r).β 2 ((link1 m l r).β 0 a) = if a = r then m.β 2 l else m.β 2 (m.β 0 a) := by
    intro a
    rw [e 0 a, e 2]
    simp only [show ¬ (0 = 2) by omega, show ¬ (1 = 2) by omega, false_and, if_false,
      show ¬ (1 = 0) by omega, true_and]
    by_cases hc : r = a
    · subst hc; simp
    · have : ¬ a = r := fun hh => hc hh.symm
      simp [hc, this]
  unfold GStep g2
  simp only [List.mem_cons, List.mem_singleton, List.not_mem_nil, or_false]
  constructor
  · rintro ⟨ha0, ha, hb0, hb⟩
    rw [im1 a ha0 ha, im2 a] at hb
    rcases hb with hb | hb
    · by_cases hc : a = m.β 2 l
      · simp only [hc, if_true] at hb
        exact Or.inr (Or.inl ⟨hc, hb⟩)
      · simp only [hc, if_false] at hb
        exact Or.inl ⟨ha0, ha, hb0, Or.inl hb⟩
    · by_cases hc : a = r
      · simp only [hc, if_true] at hb
        exact Or.inr (Or.inr ⟨hc, hb⟩)
      · simp only [hc, if_false] at hb
        exact Or.inl ⟨ha0, ha, hb0, Or.inr hb⟩
  · rintro (⟨ha0, ha, hb0, hb⟩ | ⟨rfl, rfl⟩ | ⟨rfl, rfl⟩)
    · refine ⟨ha0, ha, hb0, ?_⟩
      rw [im1 a ha0 ha, im2 a]
      rcases hb with hb | hb
      · by_cases hc : a = m.β 2 l
        · exfalso
          rw [hc, hxl, h1] at hb; exact hb0 hb
        · left; simp [hc, hb]
      · by_cases hc : a = r
        · exfalso
          rw [hc, h0, n2] at hb; exact hb0 hb
        · right; simp [hc, hb]
    · refine ⟨hx, hxn, hr0, ?_⟩
      rw [im1 _ hx hxn]; left; simp
    · refine ⟨hr0, hr, hx, ?_⟩
      rw [im2]; right; simp

/-- **A4 (1-link, `β2 l` null)**: the vertex generator steps do not change -/
theorem vertex_gstep_link1_free {m : Map X} (h : WF 3 m) {l r : Nat}
    (hl0 : l ≠ 0) (hr0 : r ≠ 0) (hl : l < m.n) (hr : r < m.n)
    (h1 : m.β 1 l = 0) (h0 : m.β 0 r = 0) (hx : m.β 2 l = 0) (a b : Nat) :
    GStep (g2 (link1 m l r) .vertex) m.n a b ↔ GStep (g2 m .vertex) m.n a b := by
  have e := link1_β h hl hr
  have n2 := h.null 2 (by omega)
  have im1 : ∀ a, a ≠ 0 → a < m.n → (link1 m l r).β 1 ((link1 m l r).β 2 a) = m.β 1 (m.β 2 a) := by
    intro a ha0 ha
    rw [e 2 a, e 1]
    simp only [show ¬ (0 = 2) by omega, show ¬ (1 = 2) by omega, false_and, if_false,
      show ¬ (0 = 1) by omega, true_and]
    have : ¬ l = m.β 2 a := by
      intro hc
      have hne : m.β 2 a ≠ 0 := by rw [← hc]; exact hl0
      have := (h.invol 2 (by omega) (by omega) a ha hne).1
      rw [← hc, hx] at this; exact ha0 this.symm
    simp [this]
  have im2 : ∀ a, (link1 m l r).β 2 ((link1 m l r).β 0 a) = m.β 2 (m.β 0 a) := by
    intro a
    rw [e 0 a, e 2]
    simp only [show ¬ (0 = 2) by omega, show ¬ (1 = 2) by omega, false_and, if_false,
      show ¬ (1 = 0) by omega, true_and]
    by_cases hc : r = a
    · subst hc; simp [hx, h0, n2]
    · simp [hc]
  unfold GStep g2
  simp only [List.mem_cons, List.mem_singleton, List.not_mem_nil, or_false]
  constructor
  · rintro ⟨ha0, ha, hb0, hb⟩
    rw [im1 a ha0 ha, im2 a] at hb
    exact ⟨ha0, ha, hb0, hb⟩
  · rintro ⟨ha0, ha, hb0, hb⟩
    refine ⟨ha0, ha, hb0, ?_⟩
    rw [im1 a ha0 ha, im2 a]; exact hb

/-- **cell calculus of a 1-link**: on a WF map, after linking a 1-free `l` to a 0-free `r`, the
    vertex cells are the old ones with the cells of `β2 l` and `r` united (unchanged if `β2 l` is
    null) -/
theorem vertex_cells_link1 {m : Map X} (h : WF 3 m) {l r : Nat}
    (hl0 : l ≠ 0) (hr0 : r ≠ 0) (hl : l < m.n) (hr : r < m.n)
    (h1 : m.β 1 l = 0) (h0 : m.β 0 r = 0) (d e : Nat) :
    SameCell (g2 (link1 m l r) .vertex) m.n d e ↔
      if m.β 2 l = 0 then SameCell (g2 m .vertex) m.n d e
      else United (g2 m .vertex) m.n (m.β 2 l) r d e := by
  split
  · rename_i hx
    exact sameCell_congr (vertex_gstep_link1_free h hl0 hr0 hl hr h1 h0 hx) d e
  · rename_i hx
    exact sameCell_add_pair (vertex_gstep_link1 h hl0 hr0 hl hr h1 h0 hx) d e

/-! ## A4: the vertex generator steps after a 2-link -/

/-- the map after `two_link_core l r` -/
def link2 (m : Map X) (l r : Nat) : Map X := (m.setβ 2 l r).setβ 2 r l

theorem link2_β {m : Map X} (h : WF 3 m) {l r : Nat} (hl : l < m.n) (hr : r < m.n) (j e : Nat) :
    (link2 m l r).β j e = if 2 = j ∧ r = e then l else if 2 = j ∧ l = e then r else m.β j e := by
  unfold link2
  have s1 : Sized 3 (m.setβ 2 l r) := h.toSized.setβ _ _ _
  rw [s1.β_setβ (by omega) (by simpa [Map.n_setβ] using hr), h.toSized.β_setβ (by omega) hl]

/-- a symmetric pair of generator steps between two non-null darts (dropped when `q` is null) -/
def Pair (p q a b : Nat) : Prop := q ≠ 0 ∧ ((a = p ∧ b = q) ∨ (a = q ∧ b = p))

/-- **A4 (2-link)**: the vertex generator steps of the 2-linked map are the old ones plus the pairs
    `l — β1 r` and `r — β1 l` (a pair is dropped when its second component is null) -/
theorem vertex_gstep_link2 {m : Map X} (h : WF 3 m) {l r : Nat}
    (hl0 : l ≠ 0) (hr0 : r ≠ 0) (hlr : l ≠ r) (hl : l < m.n) (hr : r < m.n)
    (h2l : m.β 2 l = 0) (h2r : m.β 2 r = 0) (a b : Nat) :
    GStep (g2 (link2 m l r) .vertex) m.n a b ↔
      (GStep (g2 m .vertex) m.n a b ∨ Pair l (m.β 1 r) a b ∨ Pair r (m.β 1 l) a b) := by
  have e := link2_β h hl hr
  have n1 := h.null 1 (by omega)
  have n2 := h.null 2 (by omega)
  have n0 := h.null 0 (by omega)
  have hrl : ¬ r = l := fun hh => hlr hh.symm
  -- β2 of the linked map
  have b2 : ∀ x, (link2 m l r).β 2 x = if x = r then l else if x = l then r else m.β 2 x := by
    intro x
    rw [e 2 x]
    by_cases c1 : r = x
    · subst c1; simp
    · have c1' : ¬ x = r := fun hh => c1 hh.symm
      by_cases c2 : l = x
      · subst c2; simp [c1, c1']
      · have c2' : ¬ x = l := fun hh => c2 hh.symm
        simp [c1, c1', c2, c2']
  have b1 : ∀ x, (link2 m l r).β 1 x = m.β 1 x := by
    intro x; rw [e 1 x]; simp
  have b0 : ∀ x, (link2 m l r).β 0 x = m.β 0 x := by
    intro x; rw [e 0 x]; simp
  -- first image: β1 (β2' x)
  have im1 : ∀ x, (link2 m l r).β 1 ((link2 m l r).β 2 x) =
      if x = r then m.β 1 l else if x = l then m.β 1 r else m.β 1 (m.β 2 x) := by
    intro x; rw [b1, b2]
    by_cases c1 : x = r
    · subst c1; simp
    · by_cases c2 : x = l
      · subst c2; simp [hlr]
      · simp [c1, c2]
  -- second image: β2' (β0 x); β0 x = l iff x = β1 l, β0 x = r iff x = β1 r  (x non-null, in range)
  have im2 : ∀ x, x ≠ 0 → x < m.n → (link2 m l r).β 2 ((link2 m l r).β 0 x) =
      if m.β 0 x = r then l else if m.β 0 x = l then r else m.β 2 (m.β 0 x) := by
    intro x _ _; rw [b0, b2]
  have back_l : ∀ x, x ≠ 0 → x < m.n → (m.β 0 x = l ↔ (x = m.β 1 l ∧ m.β 1 l ≠ 0)) := by
    intro x hx0 hx
    constructor
    · intro hh
      have hne : m.β 0 x ≠ 0 := by rw [hh]; exact hl0
      have := h.inv10 x hx hne
      rw [hh] at this
      exact ⟨this.symm, by rw [this]; exact hx0⟩
    · rintro ⟨rfl, hne⟩
      exact h.inv01 l hl hne
  have back_r : ∀ x, x ≠ 0 → x < m.n → (m.β 0 x = r ↔ (x = m.β 1 r ∧ m.β 1 r ≠ 0)) := by
    intro x hx0 hx
    constructor
    · intro hh
      have hne : m.β 0 x ≠ 0 := by rw [hh]; exact hr0
      have := h.inv10 x hx hne
      rw [hh] at this
      exact ⟨this.symm, by rw [this]; exact hx0⟩
    · rintro ⟨rfl, hne⟩
      exact h.inv01 r hr hne
  unfold GStep g2 Pair
  simp only [List.mem_cons, List.mem_singleton, List.not_mem_nil, or_false]
  constructor
  · rintro ⟨ha0, ha, hb0, hb⟩
    rw [im1 a, im2 a ha0 ha] at hb
    rcases hb with hb | hb
    · by_cases c1 : a = r
      · simp only [c1, if_true] at hb
        subst c1
        exact Or.inr (Or.inr ⟨by rw [← hb]; exact hb0, Or.inl ⟨rfl, hb⟩⟩)
      · simp only [c1, if_false] at hb
        by_cases c2 : a = l
        · simp only [c2, if_true] at hb
          subst c2
          exact Or.inr (Or.inl ⟨by rw [← hb]; exact hb0, Or.inl ⟨rfl, hb⟩⟩)
        · simp only [c2, if_false] at hb
          exact Or.inl ⟨ha0, ha, hb0, Or.inl hb⟩
    · by_cases c1 : m.β 0 a = r
      · simp only [c1, if_true] at hb
        obtain ⟨ha', hne⟩ := (back_r a ha0 ha).1 c1
        exact Or.inr (Or.inl ⟨hne, Or.inr ⟨ha', hb⟩⟩)
      · simp only [c1, if_false] at hb
        by_cases c2 : m.β 0 a = l
        · simp only [c2, if_true] at hb
          obtain ⟨ha', hne⟩ := (back_l a ha0 ha).1 c2
          exact Or.inr (Or.inr ⟨hne, Or.inr ⟨ha', hb⟩⟩)
        · simp only [c2, if_false] at hb
          exact Or.inl ⟨ha0, ha, hb0, Or.inr hb⟩
  · rintro (⟨ha0, ha, hb0, hb⟩ | ⟨hq, hp⟩ | ⟨hq, hp⟩)
    · refine ⟨ha0, ha, hb0, ?_⟩
      rw [im1 a, im2 a ha0 ha]
      rcases hb with hb | hb
      · -- old first image: a ∉ {l, r} because β2 l = β2 r = 0 gives a null image
        have c1 : ¬ a = r := by intro hh; rw [hh, h2r, n1] at hb; exact hb0 hb
        have c2 : ¬ a = l := by intro hh; rw [hh, h2l, n1] at hb; exact hb0 hb
        left; simp [c1, c2, hb]
      · have c1 : ¬ m.β 0 a = r := by intro hh; rw [hh, h2r] at hb; exact hb0 hb
        have c2 : ¬ m.β 0 a = l := by intro hh; rw [hh, h2l] at hb; exact hb0 hb
        right; simp [c1, c2, hb]
    · -- pair l — β1 r
      have hqn : m.β 1 r < m.n := h.range 1 (by omega) r hr
      rcases hp with ⟨rfl, rfl⟩ | ⟨rfl, rfl⟩
      · refine ⟨hl0, hl, hq, ?_⟩
        rw [im1]; left; simp [hlr]
      · refine ⟨hq, hqn, hl0, ?_⟩
        rw [im2 _ hq hqn]
        have : m.β 0 (m.β 1 r) = r := h.inv01 r hr hq
        right; simp [this]
    · -- pair r — β1 l
      have hqn : m.β 1 l < m.n := h.range 1 (by omega) l hl
      rcases hp with ⟨rfl, rfl⟩ | ⟨rfl, rfl⟩
      · refine ⟨hr0, hr, hq, ?_⟩
        rw [im1]; left; simp
      · refine ⟨hq, hqn, hr0, ?_⟩
        rw [im2 _ hq hqn]
        have : m.β 0 (m.β 1 l) = l := h.inv01 l hl hq
        right; simp [this, hlr]

/-- adding a `Pair` to a generator relation: the cells of `p` and `q` are united (nothing happens
    when `q` is null).  Stated for an arbitrary relation `R` playing the role of `SameCell g n`
    through its generator-step characterisation. -/
theorem sameCell_add_Pair {g g' : Nat → List Nat} {n p q : Nat}
    (hstep : ∀ a b, GStep g' n a b ↔ (GStep g n a b ∨ Pair p q a b)) (d e : Nat) :
    SameCell g' n d e ↔ if q = 0 then SameCell g n d e else United g n p q d e := by
  split
  · rename_i hq
    apply sameCell_congr
    intro a b
    rw [hstep]
    constructor
    · rintro (h | ⟨hne, _⟩)
      · exact h
      · exact absurd hq hne
    · exact Or.inl
  · rename_i hq
    apply sameCell_add_pair
    intro a b
    rw [hstep]
    unfold Pair
    constructor
    · rintro (h | ⟨_, h⟩)
      · exact Or.inl h
      · exact Or.inr h
    · rintro (h | h)
      · exact Or.inl h
      · exact Or.inr ⟨hq, h⟩

/-! ## two pairs at once (2-link) -/

/-- `g` plus the symmetric pair `p — q` (nothing when `q` is null) -/
def addPair (g : Nat → List Nat) (p q : Nat) : Nat → List Nat := fun x =>
  g x ++ (if q ≠ 0 ∧ x = p then [q] else []) ++ (if q ≠ 0 ∧ x = q then [p] else [])

theorem gstep_addPair {g : Nat → List Nat} {n p q : Nat} (hp0 : p ≠ 0) (hp : p < n) (hq : q ≠ 0 → q < n)
    (a b : Nat) : GStep (addPair g p q) n a b ↔ (GStep g n a b ∨ Pair p q a b) := by
  unfold GStep addPair Pair
  simp only [List.mem_append]
  constructor
  · rintro ⟨ha0, ha, hb0, hb⟩
    rcases hb with (hb | hb) | hb
    · exact Or.inl ⟨ha0, ha, hb0, hb⟩
    · split at hb
      · rename_i hc
        simp only [List.mem_singleton] at hb
        exact Or.inr ⟨hc.1, Or.inl ⟨hc.2, hb⟩⟩
      · simp at hb
    · split at hb
      · rename_i hc
        simp only [List.mem_singleton] at hb
        exact Or.inr ⟨hc.1, Or.inr ⟨hc.2, hb⟩⟩
      · simp at hb
  · rintro (⟨ha0, ha, hb0, hb⟩ | ⟨hq0, (⟨rfl, rfl⟩ | ⟨rfl, rfl⟩)⟩)
    · exact ⟨ha0, ha, hb0, Or.inl (Or.inl hb)⟩
    · refine ⟨hp0, hp, hq0, Or.inl (Or.inr ?_)⟩
      simp [hq0]
    · refine ⟨hq0, hq hq0, hp0, Or.inr ?_⟩
      simp [hq0]

/-- uniting the classes of `p` and `q` in an arbitrary relation -/
def UnitedR (R : Nat → Nat → Prop) (p q d e : Nat) : Prop :=
  R d e ∨ (R d p ∧ R q e) ∨ (R d q ∧ R p e)

theorem united_congr {g1 : Nat → List Nat} {n : Nat} {R : Nat → Nat → Prop}
    (hR : ∀ d e, SameCell g1 n d e ↔ R d e) (p q d e : Nat) :
    United g1 n p q d e ↔ UnitedR R p q d e := by
  unfold United UnitedR
  simp only [hR]

/-- **cell calculus of a 2-link**: on a WF map, after 2-linking two distinct 2-free darts `l`, `r`,
    the vertex cells are the old ones with (1) the cells of `l` and `β1 r` united, then (2) the
    cells of `r` and `β1 l` united; a union is skipped when the β1 image is null; every other cell
    is unchanged -/
theorem vertex_cells_link2 {m : Map X} (h : WF 3 m) {l r : Nat}
    (hl0 : l ≠ 0) (hr0 : r ≠ 0) (hlr : l ≠ r) (hl : l < m.n) (hr : r < m.n)
    (h2l : m.β 2 l = 0) (h2r : m.β 2 r = 0) :
    ∃ R : Nat → Nat → Prop,
      (∀ d e, R d e ↔ if m.β 1 r = 0 then SameCell (g2 m .vertex) m.n d e
                       else United (g2 m .vertex) m.n l (m.β 1 r) d e) ∧
      (∀ d e, SameCell (g2 (link2 m l r) .vertex) m.n d e ↔
        if m.β 1 l = 0 then R d e else UnitedR R r (m.β 1 l) d e) := by
  let g1 := addPair (g2 m .vertex) l (m.β 1 r)
  have hqa : m.β 1 r ≠ 0 → m.β 1 r < m.n := fun _ => h.range 1 (by omega) r hr
  have step1 : ∀ a b, GStep g1 m.n a b ↔ (GStep (g2 m .vertex) m.n a b ∨ Pair l (m.β 1 r) a b) :=
    gstep_addPair hl0 hl hqa
  have step2 : ∀ a b, GStep (g2 (link2 m l r) .vertex) m.n a b ↔
      (GStep g1 m.n a b ∨ Pair r (m.β 1 l) a b) := by
    intro a b
    rw [vertex_gstep_link2 h hl0 hr0 hlr hl hr h2l h2r, step1]
    constructor
    · rintro (h1 | h1 | h1)
      · exact Or.inl (Or.inl h1)
      · exact Or.inl (Or.inr h1)
      · exact Or.inr h1
    · rintro ((h1 | h1) | h1)
      · exact Or.inl h1
      · exact Or.inr (Or.inl h1)
      · exact Or.inr (Or.inr h1)
  refine ⟨SameCell g1 m.n, fun d e => sameCell_add_Pair step1 d e, ?_⟩
  intro d e
  have := sameCell_add_Pair step2 d e
  rw [this]
  split
  · rfl
  · exact united_congr (fun _ _ => Iff.rfl) _ _ _ _

end HC.CellCalc
