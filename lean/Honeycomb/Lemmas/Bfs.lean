/-
  Generic BFS correctness (DESIGN.md Appendix A2), used by C03 (orbits, cell ids, iterators).

  * `bfsPure g`   : the recursion of `HC.bfs` (Model/Ops.lean) over a pure generator `g : Nat → List Nat`
  * `Reach g a b` : reflexive-transitive closure of `fun x y => y ∈ g x`
  * `bfsPure_spec`: with fuel `n + 1`, from a non-null start `d < n`, images `< n`, inert null dart,
                    the result starts with `d`, has no duplicates, omits 0, contains exactly the
                    reachable non-null darts, all `< n`
  * `run_bfs_inv`, `run_orbitWith` : the monadic `bfs gen` computes `bfsPure g` and leaves the map
                    unchanged whenever `gen x` returns `g x` on every dart `x < n`
  * symmetric generators (`InvClosed`): reachability between non-null darts is an equivalence and
    coincides with the equivalence closure `SameCell` of the generator steps
  * one-directional generators on closed cells (`linear_reach_iff`)
  * `listMin` is the minimum

  Core Lean only.  All names are top-level in `HC` (agentgrid's independent development for C12 lives in
  `HC.GridBfs`, Lemmas/GridBfs.lean).
-/
import Honeycomb.Lemmas.Run

namespace HC

/-! ## the pure BFS and reachability -/

/-- `HC.bfs` with a pure generator: same `bfsCheck` fold, same fuel discipline -/
def bfsPure (g : Nat → List Nat) : Nat → List Nat → List Nat → List Nat → List Nat
  | 0, _, _, out => out
  | _ + 1, [], _, out => out
  | f + 1, d :: rest, marked, out =>
      bfsPure g f ((g d).foldl bfsCheck (rest, marked)).1 ((g d).foldl bfsCheck (rest, marked)).2
        (out ++ [d])

/-- reflexive-transitive closure of "is a generator image of" -/
inductive Reach (g : Nat → List Nat) : Nat → Nat → Prop where
  | refl (a : Nat) : Reach g a a
  | tail {a b c : Nat} : Reach g a b → c ∈ g b → Reach g a c

namespace Reach
variable {g : Nat → List Nat}

theorem single {a b : Nat} (h : b ∈ g a) : Reach g a b := .tail (.refl a) h

theorem trans {a b c : Nat} (h1 : Reach g a b) (h2 : Reach g b c) : Reach g a c := by
  induction h2 with
  | refl => exact h1
  | tail _ hc ih => exact .tail ih hc

theorem head {a b c : Nat} (h : b ∈ g a) (h2 : Reach g b c) : Reach g a c := (single h).trans h2

/-- a path either is empty or ends with a generator step -/
theorem cases_tail {a c : Nat} (h : Reach g a c) : c = a ∨ ∃ b, Reach g a b ∧ c ∈ g b := by
  cases h with
  | refl => exact Or.inl rfl
  | tail h1 h2 => exact Or.inr ⟨_, h1, h2⟩

/-- images stay below the bound -/
theorem lt {n a b : Nat} (hr : ∀ x, x < n → ∀ y, y ∈ g x → y < n) (h : Reach g a b) (ha : a < n) :
    b < n := by
  induction h with
  | refl => exact ha
  | tail _ hc ih => exact hr _ ih _ hc

/-- the null dart is inert: nothing but 0 is reachable from 0 -/
theorem of_zero {b : Nat} (h0 : ∀ y, y ∈ g 0 → y = 0) (h : Reach g 0 b) : b = 0 := by
  induction h with
  | refl => rfl
  | tail _ hc ih => subst ih; exact h0 _ hc

/-- a path to a non-null dart never visits the null dart -/
theorem pred_ne_zero {b c : Nat} (h0 : ∀ y, y ∈ g 0 → y = 0) (hc : c ∈ g b) (hc0 : c ≠ 0) : b ≠ 0 := by
  intro hb; subst hb; exact hc0 (h0 _ hc)

/-- monotone in the generator -/
theorem mono {g' : Nat → List Nat} (hsub : ∀ x y, y ∈ g x → y ∈ g' x) {a b : Nat} (h : Reach g a b) :
    Reach g' a b := by
  induction h with
  | refl => exact .refl _
  | tail _ hc ih => exact .tail ih (hsub _ _ hc)

end Reach

/-! ## one expansion step -/

theorem bfsCheck_fold (ims : List Nat) : ∀ (p mk : List Nat),
    ∃ new, ims.foldl bfsCheck (p, mk) = (p ++ new, mk ++ new) ∧ new.Nodup ∧
      (∀ x, x ∈ new → x ∈ ims ∧ x ∉ mk) ∧ (∀ x, x ∈ ims → x ∈ mk ∨ x ∈ new) := by
  induction ims with
  | nil => intro p mk; exact ⟨[], by simp, List.nodup_nil, by simp, by simp⟩
  | cons i is ih =>
      intro p mk
      rw [List.foldl_cons]
      by_cases hc : mk.contains i = true
      · have hm : i ∈ mk := List.contains_iff_mem.1 hc
        obtain ⟨new, h1, h2, h3, h4⟩ := ih p mk
        refine ⟨new, ?_, h2, ?_, ?_⟩
        · have : bfsCheck (p, mk) i = (p, mk) := by simp only [bfsCheck, hc, if_true]
          rw [this]; exact h1
        · intro x hx; exact ⟨List.mem_cons_of_mem _ (h3 x hx).1, (h3 x hx).2⟩
        · intro x hx
          rcases List.mem_cons.1 hx with rfl | hx
          · exact Or.inl hm
          · exact h4 x hx
      · have hm : i ∉ mk := fun h => hc (List.contains_iff_mem.2 h)
        obtain ⟨new, h1, h2, h3, h4⟩ := ih (p ++ [i]) (mk ++ [i])
        refine ⟨i :: new, ?_, ?_, ?_, ?_⟩
        · have : bfsCheck (p, mk) i = (p ++ [i], mk ++ [i]) := by
            simp only [bfsCheck, hc, if_false, Bool.false_eq_true]
          rw [this, h1, List.append_assoc, List.append_assoc]; rfl
        · refine List.nodup_cons.2 ⟨?_, h2⟩
          intro hi
          exact (h3 i hi).2 (List.mem_append_right _ (List.mem_singleton.2 rfl))
        · intro x hx
          rcases List.mem_cons.1 hx with rfl | hx
          · exact ⟨List.mem_cons_self, hm⟩
          · exact ⟨List.mem_cons_of_mem _ (h3 x hx).1,
              fun hmk => (h3 x hx).2 (List.mem_append_left _ hmk)⟩
        · intro x hx
          rcases List.mem_cons.1 hx with rfl | hx
          · exact Or.inr List.mem_cons_self
          · rcases h4 x hx with h | h
            · rcases List.mem_append.1 h with h | h
              · exact Or.inl h
              · exact Or.inr (by rw [List.mem_singleton.1 h]; exact List.mem_cons_self)
            · exact Or.inr (List.mem_cons_of_mem _ h)

/-! ## the invariant -/

/-- the loop invariant of Appendix A2 -/
structure BfsInv (g : Nat → List Nat) (n d : Nat) (pending marked out : List Nat) : Prop where
  mkd : ∀ x, x ∈ marked ↔ x = 0 ∨ x ∈ out ++ pending
  nodup : (out ++ pending).Nodup
  nz : ∀ x, x ∈ out ++ pending → x ≠ 0
  reach : ∀ x, x ∈ out ++ pending → Reach g d x
  lt : ∀ x, x ∈ out ++ pending → x < n
  closed : ∀ x, x ∈ out → ∀ y, y ∈ g x → y ∈ marked
  head : (out ++ pending).head? = some d

theorem BfsInv.init (g : Nat → List Nat) {n d : Nat} (hd0 : d ≠ 0) (hd : d < n) :
    BfsInv g n d [d] [0, d] [] where
  mkd := by intro x; simp
  nodup := by simp
  nz := by intro x hx; simp at hx; omega
  reach := by intro x hx; simp at hx; subst hx; exact .refl _
  lt := by intro x hx; simp at hx; omega
  closed := by intro x hx; simp at hx
  head := by simp

theorem BfsInv.step {g : Nat → List Nat} {n d x : Nat} {rest mk out : List Nat}
    (hr : ∀ a, a < n → ∀ y, y ∈ g a → y < n) (h : BfsInv g n d (x :: rest) mk out) :
    BfsInv g n d ((g x).foldl bfsCheck (rest, mk)).1 ((g x).foldl bfsCheck (rest, mk)).2
      (out ++ [x]) := by
  obtain ⟨new, e, nd, hnew, hall⟩ := bfsCheck_fold (g x) rest mk
  rw [e]
  have eq : (out ++ [x]) ++ (rest ++ new) = (out ++ x :: rest) ++ new := by simp
  have hx : x ∈ out ++ x :: rest := List.mem_append_right _ List.mem_cons_self
  have old_mk : ∀ y, y ∈ out ++ x :: rest → y ∈ mk := fun y hy => (h.mkd y).2 (Or.inr hy)
  have hzero : (0 : Nat) ∈ mk := (h.mkd 0).2 (Or.inl rfl)
  refine ⟨?_, ?_, ?_, ?_, ?_, ?_, ?_⟩
  · intro y
    show y ∈ mk ++ new ↔ y = 0 ∨ y ∈ (out ++ [x]) ++ (rest ++ new)
    rw [eq, List.mem_append, List.mem_append, h.mkd y]
    constructor
    · rintro (h1 | h1)
      · rcases h1 with h1 | h1
        · exact Or.inl h1
        · exact Or.inr (Or.inl h1)
      · exact Or.inr (Or.inr h1)
    · rintro (h1 | h1 | h1)
      · exact Or.inl (Or.inl h1)
      · exact Or.inl (Or.inr h1)
      · exact Or.inr h1
  · show ((out ++ [x]) ++ (rest ++ new)).Nodup
    rw [eq]
    refine List.nodup_append.2 ⟨h.nodup, nd, ?_⟩
    intro a ha b hb hab
    subst hab
    exact (hnew a hb).2 (old_mk a ha)
  · intro y hy
    change y ∈ (out ++ [x]) ++ (rest ++ new) at hy
    rw [eq] at hy
    rcases List.mem_append.1 hy with hy | hy
    · exact h.nz y hy
    · intro h0; subst h0; exact (hnew 0 hy).2 hzero
  · intro y hy
    change y ∈ (out ++ [x]) ++ (rest ++ new) at hy
    rw [eq] at hy
    rcases List.mem_append.1 hy with hy | hy
    · exact h.reach y hy
    · exact .tail (h.reach x hx) (hnew y hy).1
  · intro y hy
    change y ∈ (out ++ [x]) ++ (rest ++ new) at hy
    rw [eq] at hy
    rcases List.mem_append.1 hy with hy | hy
    · exact h.lt y hy
    · exact hr x (h.lt x hx) y (hnew y hy).1
  · intro a ha y hy
    show y ∈ mk ++ new
    rcases List.mem_append.1 ha with ha | ha
    · exact List.mem_append_left _ (h.closed a ha y hy)
    · rw [List.mem_singleton.1 ha] at hy
      exact List.mem_append.2 (hall y hy)
  · show ((out ++ [x]) ++ (rest ++ new)).head? = some d
    rw [eq, List.head?_append, h.head]; rfl

/-- a duplicate-free list of non-null numbers below `n` has at most `n - 1` elements -/
theorem length_lt_of_nodup {l : List Nat} {n : Nat} (hpos : 0 < n) (hn : l.Nodup)
    (h0 : ∀ x, x ∈ l → x ≠ 0) (hlt : ∀ x, x ∈ l → x < n) : l.length < n := by
  have h1 : (0 :: l).Nodup := List.nodup_cons.2 ⟨fun h => h0 0 h rfl, hn⟩
  have h2 : (0 :: l) ⊆ List.range n := by
    intro x hx
    rcases List.mem_cons.1 hx with rfl | hx
    · exact List.mem_range.2 hpos
    · exact List.mem_range.2 (hlt x hx)
  have := h1.length_le_of_subset h2
  simp at this
  omega

/-! ## the loop terminates with the fuel it is given, and the invariant holds at exit -/

theorem bfsPure_inv {g : Nat → List Nat} {n d : Nat}
    (hr : ∀ a, a < n → ∀ y, y ∈ g a → y < n) (hpos : 0 < n) :
    ∀ (fuel : Nat) (p mk out : List Nat), BfsInv g n d p mk out → n ≤ fuel + out.length →
      ∃ mk', BfsInv g n d [] mk' (bfsPure g fuel p mk out) := by
  intro fuel
  induction fuel with
  | zero =>
      intro p mk out h hf
      exfalso
      have h1 := length_lt_of_nodup hpos h.nodup h.nz h.lt
      rw [List.length_append] at h1
      omega
  | succ f ih =>
      intro p mk out h hf
      cases p with
      | nil => exact ⟨mk, h⟩
      | cons x rest =>
          unfold bfsPure
          refine ih _ _ _ (h.step hr) ?_
          rw [List.length_append, List.length_singleton]
          omega

/-- what the invariant says once nothing is pending -/
theorem BfsInv.final {g : Nat → List Nat} {n d : Nat} {mk out : List Nat}
    (h0 : ∀ y, y ∈ g 0 → y = 0) (h : BfsInv g n d [] mk out) :
    out.head? = some d ∧ out.Nodup ∧ 0 ∉ out ∧ (∀ x, x ∈ out ↔ (x ≠ 0 ∧ Reach g d x)) ∧
      ∀ x, x ∈ out → x < n := by
  have e : out ++ [] = out := List.append_nil _
  have hhead := h.head; rw [e] at hhead
  have hnd := h.nodup; rw [e] at hnd
  have hnz := h.nz; rw [e] at hnz
  have hre := h.reach; rw [e] at hre
  have hlt := h.lt; rw [e] at hlt
  have hmk : ∀ x, x ∈ mk ↔ x = 0 ∨ x ∈ out := by intro x; rw [h.mkd x, e]
  have hd : d ∈ out := List.mem_of_mem_head? hhead
  refine ⟨hhead, hnd, fun h0' => hnz 0 h0' rfl, ?_, hlt⟩
  intro x
  constructor
  · intro hx; exact ⟨hnz x hx, hre x hx⟩
  · rintro ⟨hx0, hx⟩
    induction hx with
    | refl => exact hd
    | tail hab hc ih =>
        rename_i b c
        have hb0 : b ≠ 0 := Reach.pred_ne_zero h0 hc hx0
        have hb := ih hb0
        rcases (hmk c).1 (h.closed b hb c hc) with h1 | h1
        · exact absurd h1 hx0
        · exact h1

/-- **generic BFS lemma** (pure form): with fuel `n + 1` the BFS from a non-null dart `d < n` returns
    `d` first, then exactly the non-null darts reachable from `d`, each once -/
theorem bfsPure_spec {g : Nat → List Nat} {n d : Nat}
    (h0 : ∀ y, y ∈ g 0 → y = 0) (hr : ∀ a, a < n → ∀ y, y ∈ g a → y < n)
    (hd0 : d ≠ 0) (hd : d < n) :
    (bfsPure g (n + 1) [d] [0, d] []).head? = some d ∧
    (bfsPure g (n + 1) [d] [0, d] []).Nodup ∧
    0 ∉ bfsPure g (n + 1) [d] [0, d] [] ∧
    (∀ x, x ∈ bfsPure g (n + 1) [d] [0, d] [] ↔ (x ≠ 0 ∧ Reach g d x)) ∧
    ∀ x, x ∈ bfsPure g (n + 1) [d] [0, d] [] → x < n := by
  obtain ⟨mk', h⟩ := bfsPure_inv hr (by omega) (n + 1) [d] [0, d] [] (BfsInv.init g hd0 hd)
    (by simp)
  exact h.final h0

/-! ## the monadic BFS computes the pure one -/

theorem run_bfs_inv {X : Type} {g : Nat → List Nat} {n d : Nat} {gen : Nat → P X (List Nat)}
    {m : Map X} (hgen : ∀ x, x < n → run (gen x) m = (.ok (g x), m))
    (hr : ∀ a, a < n → ∀ y, y ∈ g a → y < n) :
    ∀ (fuel : Nat) (p mk out : List Nat), BfsInv g n d p mk out →
      run (bfs gen fuel p mk out) m = (.ok (bfsPure g fuel p mk out), m) := by
  intro fuel
  induction fuel with
  | zero => intro p mk out _; rfl
  | succ f ih =>
      intro p mk out h
      cases p with
      | nil => rfl
      | cons x rest =>
          have hx : x < n := h.lt x (List.mem_append_right _ List.mem_cons_self)
          unfold bfs bfsPure
          show run ((gen x).bind _) m = _
          rw [run_bind, hgen x hx]
          exact ih _ _ _ (h.step hr)

/-- **generic BFS lemma** (monadic form): `orbitWith n gen d` succeeds, leaves the map unchanged and
    returns the pure BFS list -/
theorem run_orbitWith {X : Type} {g : Nat → List Nat} {n d : Nat} {gen : Nat → P X (List Nat)}
    {m : Map X} (hgen : ∀ x, x < n → run (gen x) m = (.ok (g x), m))
    (hr : ∀ a, a < n → ∀ y, y ∈ g a → y < n) (hd0 : d ≠ 0) (hd : d < n) :
    run (orbitWith n gen d) m = (.ok (bfsPure g (n + 1) [d] [0, d] []), m) :=
  run_bfs_inv hgen hr _ _ _ _ (BfsInv.init g hd0 hd)

/-! ## generators closed under inverse: reachability is an equivalence on non-null darts -/

/-- every non-null image of a dart below the bound has that dart among its own images -/
def InvClosed (g : Nat → List Nat) (n : Nat) : Prop :=
  ∀ x, x < n → ∀ y, y ∈ g x → y ≠ 0 → x ∈ g y

theorem Reach.symm_of_invClosed {g : Nat → List Nat} {n : Nat}
    (h0 : ∀ y, y ∈ g 0 → y = 0) (hr : ∀ a, a < n → ∀ y, y ∈ g a → y < n) (hi : InvClosed g n)
    {d x : Nat} (hd : d < n) (hx0 : x ≠ 0) (h : Reach g d x) : Reach g x d := by
  induction h with
  | refl => exact .refl _
  | tail hab hc ih =>
      rename_i b c
      have hb0 : b ≠ 0 := Reach.pred_ne_zero h0 hc hx0
      have hb : b < n := hab.lt hr hd
      exact Reach.head (hi b hb c hc hx0) (ih hb0)

/-- one generator step between non-null darts (pairs with a null component are dropped) -/
def GStep (g : Nat → List Nat) (n : Nat) (a b : Nat) : Prop := a ≠ 0 ∧ a < n ∧ b ≠ 0 ∧ b ∈ g a

/-- the cell relation of the property: equivalence closure of the generator steps
    ("reachable through the images and their inverses") -/
inductive SameCell (g : Nat → List Nat) (n : Nat) : Nat → Nat → Prop where
  | refl (a : Nat) : SameCell g n a a
  | step {a b : Nat} : GStep g n a b → SameCell g n a b
  | symm {a b : Nat} : SameCell g n a b → SameCell g n b a
  | trans {a b c : Nat} : SameCell g n a b → SameCell g n b c → SameCell g n a c

theorem SameCell.of_reach {g : Nat → List Nat} {n : Nat}
    (h0 : ∀ y, y ∈ g 0 → y = 0) (hr : ∀ a, a < n → ∀ y, y ∈ g a → y < n)
    {d x : Nat} (hd : d < n) (hx0 : x ≠ 0) (h : Reach g d x) : SameCell g n d x := by
  induction h with
  | refl => exact .refl _
  | tail hab hc ih =>
      rename_i b c
      have hb0 : b ≠ 0 := Reach.pred_ne_zero h0 hc hx0
      have hb : b < n := hab.lt hr hd
      exact .trans (ih hb0) (.step ⟨hb0, hb, hx0, hc⟩)

theorem SameCell.reach_aux {g : Nat → List Nat} {n : Nat}
    (hr : ∀ a, a < n → ∀ y, y ∈ g a → y < n) (hi : InvClosed g n)
    {a b : Nat} (h : SameCell g n a b) :
    a = b ∨ (a ≠ 0 ∧ a < n ∧ b ≠ 0 ∧ b < n ∧ Reach g a b ∧ Reach g b a) := by
  induction h with
  | refl => exact Or.inl rfl
  | step hs =>
      obtain ⟨ha0, ha, hb0, hb⟩ := hs
      exact Or.inr ⟨ha0, ha, hb0, hr _ ha _ hb, Reach.single hb, Reach.single (hi _ ha _ hb hb0)⟩
  | symm _ ih =>
      rcases ih with ih | ⟨h1, h2, h3, h4, h5, h6⟩
      · exact Or.inl ih.symm
      · exact Or.inr ⟨h3, h4, h1, h2, h6, h5⟩
  | trans _ _ ih1 ih2 =>
      rcases ih1 with ih1 | ⟨h1, h2, h3, h4, h5, h6⟩
      · subst ih1; exact ih2
      · rcases ih2 with ih2 | ⟨k1, k2, k3, k4, k5, k6⟩
        · subst ih2; exact Or.inr ⟨h1, h2, h3, h4, h5, h6⟩
        · exact Or.inr ⟨h1, h2, k3, k4, h5.trans k5, k6.trans h6⟩

/-- for generators closed under inverse, the cell of a non-null dart is its forward-reachable set -/
theorem sameCell_iff_reach {g : Nat → List Nat} {n : Nat}
    (h0 : ∀ y, y ∈ g 0 → y = 0) (hr : ∀ a, a < n → ∀ y, y ∈ g a → y < n) (hi : InvClosed g n)
    {d : Nat} (hd0 : d ≠ 0) (hd : d < n) (x : Nat) :
    SameCell g n d x ↔ (x ≠ 0 ∧ Reach g d x) := by
  constructor
  · intro h
    rcases h.reach_aux hr hi with h1 | ⟨_, _, h3, _, h5, _⟩
    · subst h1; exact ⟨hd0, .refl _⟩
    · exact ⟨h3, h5⟩
  · rintro ⟨hx0, h⟩
    exact SameCell.of_reach h0 hr hd hx0 h

/-! ## one-directional generators on closed cells -/

/-- a duplicate-free list mapped into itself by a function that is injective on it is mapped onto
    itself -/
theorem surj_of_inj_on_list {l : List Nat} {f : Nat → Nat} (hn : l.Nodup)
    (hmap : ∀ x, x ∈ l → f x ∈ l) (hinj : ∀ a b, a ∈ l → b ∈ l → f a = f b → a = b) :
    ∀ b, b ∈ l → ∃ y, y ∈ l ∧ f y = b := by
  intro b hb
  have hnd : (l.map f).Nodup := by
    unfold List.Nodup
    rw [List.pairwise_map]
    exact List.Pairwise.imp_of_mem (fun ha hb' hab hf => hab (hinj _ _ ha hb' hf)) hn
  by_cases hmem : b ∈ l.map f
  · obtain ⟨y, hy, e⟩ := List.mem_map.1 hmem
    exact ⟨y, hy, e⟩
  · exfalso
    have h1 : (b :: l.map f).Nodup := List.nodup_cons.2 ⟨hmem, hnd⟩
    have h2 : (b :: l.map f) ⊆ l := by
      intro x hx
      rcases List.mem_cons.1 hx with rfl | hx
      · exact hb
      · obtain ⟨y, hy, e⟩ := List.mem_map.1 hx
        subst e; exact hmap y hy
    have := h1.length_le_of_subset h2
    simp at this
    omega

/-- **linear policies on closed cells**: if `f'` inverts `f` and `f` has no null image on the
    two-directional cell of `d`, then forward reachability through `f` alone already gives that cell
    (finite injective self-maps are surjective: every `f`-path closes up into a cycle) -/
theorem linear_reach_iff {f f' : Nat → Nat} {n d : Nat}
    (hf0 : f 0 = 0) (hf'0 : f' 0 = 0) (hfr : ∀ x, x < n → f x < n)
    (hinv : ∀ x, x < n → f x ≠ 0 → f' (f x) = x)
    (hd0 : d ≠ 0) (hd : d < n)
    (hclosed : ∀ x, x ≠ 0 → Reach (fun x => [f x, f' x]) d x → f x ≠ 0)
    (x : Nat) (hx0 : x ≠ 0) :
    Reach (fun x => [f x, f' x]) d x ↔ Reach (fun x => [f x]) d x := by
  have hsub : ∀ a b, b ∈ (fun x => [f x]) a → b ∈ (fun x => [f x, f' x]) a := by
    intro a b hb
    simp only [List.mem_singleton] at hb
    simp only [List.mem_cons, List.not_mem_nil, or_false]
    exact Or.inl hb
  constructor
  · intro h
    have h0l : ∀ y, y ∈ (fun x => [f x]) 0 → y = 0 := by
      intro y hy; simp only [List.mem_singleton] at hy; rw [hy, hf0]
    have hrl : ∀ a, a < n → ∀ y, y ∈ (fun x => [f x]) a → y < n := by
      intro a ha y hy; simp only [List.mem_singleton] at hy; rw [hy]; exact hfr a ha
    obtain ⟨_, hnd, _, hmem, hlt⟩ := bfsPure_spec h0l hrl hd0 hd
    generalize bfsPure (fun x => [f x]) (n + 1) [d] [0, d] [] = L at hnd hmem hlt
    have hcl : ∀ y, y ∈ L → f y ≠ 0 := fun y hy =>
      hclosed y ((hmem y).1 hy).1 (((hmem y).1 hy).2.mono hsub)
    have hmap : ∀ y, y ∈ L → f y ∈ L := fun y hy =>
      (hmem (f y)).2 ⟨hcl y hy, .tail ((hmem y).1 hy).2 (List.mem_singleton.2 rfl)⟩
    have hinj : ∀ a b, a ∈ L → b ∈ L → f a = f b → a = b := by
      intro a b ha hb e
      have h1 := hinv a (hlt a ha) (hcl a ha)
      have h2 := hinv b (hlt b hb) (hcl b hb)
      rw [← h1, ← h2, e]
    have hsurj := surj_of_inj_on_list hnd hmap hinj
    induction h with
    | refl => exact .refl _
    | tail hab hc ih =>
        rename_i b c
        have h0f : ∀ y, y ∈ (fun x => [f x, f' x]) 0 → y = 0 := by
          intro y hy
          simp only [List.mem_cons, List.not_mem_nil, or_false] at hy
          rcases hy with hy | hy
          · rw [hy, hf0]
          · rw [hy, hf'0]
        have hb0 : b ≠ 0 := Reach.pred_ne_zero (g := fun x => [f x, f' x]) h0f hc hx0
        have hb := ih hb0
        simp only [List.mem_cons, List.not_mem_nil, or_false] at hc
        rcases hc with hc | hc
        · exact .tail hb (List.mem_singleton.2 hc)
        · have hbL : b ∈ L := (hmem b).2 ⟨hb0, hb⟩
          obtain ⟨y, hy, e⟩ := hsurj b hbL
          have : c = y := by
            rw [hc, ← e]; exact hinv y (hlt y hy) (by rw [e]; exact hb0)
          rw [this]; exact ((hmem y).1 hy).2
  · intro h; exact h.mono hsub

/-! ## `listMin` is the minimum -/

theorem listMin_le (l : List Nat) : ∀ d, listMin l d ≤ d ∧ ∀ x, x ∈ l → listMin l d ≤ x := by
  induction l with
  | nil => intro d; exact ⟨Nat.le_refl _, by simp⟩
  | cons a t ih =>
      intro d
      have h := ih (min d a)
      have e : listMin (a :: t) d = listMin t (min d a) := rfl
      rw [e]
      refine ⟨Nat.le_trans h.1 (Nat.min_le_left _ _), ?_⟩
      intro x hx
      rcases List.mem_cons.1 hx with rfl | hx
      · exact Nat.le_trans h.1 (Nat.min_le_right _ _)
      · exact h.2 x hx

theorem listMin_mem (l : List Nat) : ∀ d, listMin l d = d ∨ listMin l d ∈ l := by
  induction l with
  | nil => intro d; exact Or.inl rfl
  | cons a t ih =>
      intro d
      have e : listMin (a :: t) d = listMin t (min d a) := rfl
      rw [e]
      rcases ih (min d a) with h | h
      · rw [h]
        rcases Nat.le_total d a with hle | hle
        · rw [Nat.min_eq_left hle]; exact Or.inl rfl
        · rw [Nat.min_eq_right hle]; exact Or.inr List.mem_cons_self
      · exact Or.inr (List.mem_cons_of_mem _ h)

/-- the minimum of a list that contains its seed -/
theorem listMin_spec {l : List Nat} {d : Nat} (hd : d ∈ l) :
    listMin l d ∈ l ∧ ∀ x, x ∈ l → listMin l d ≤ x := by
  refine ⟨?_, (listMin_le l d).2⟩
  rcases listMin_mem l d with h | h
  · rw [h]; exact hd
  · exact h

/-- two lists with the same elements have the same minimum -/
theorem min_unique {l l' : List Nat} {k k' : Nat} (hk : k ∈ l ∧ ∀ x, x ∈ l → k ≤ x)
    (hk' : k' ∈ l' ∧ ∀ x, x ∈ l' → k' ≤ x) (hsame : ∀ x, x ∈ l ↔ x ∈ l') : k = k' :=
  Nat.le_antisymm (hk.2 k' ((hsame k').2 hk'.1)) (hk'.2 k ((hsame k).1 hk.1))

end HC
