/-
  Cell calculus for several simultaneous pairs (2-sews and 3-sews of a 3-map), continuing
  Lemmas/Cell3.lean.

  * `Glue R ps` — the equivalence closure of a cell relation `R` and a list of pairs `ps`;
    `sameCell_glue`: if the generator steps of `g'` are those of `g` plus new steps each of which
    joins the old cells of some pair of `ps`, the cells of `g'` are `Glue (SameCell g) ps`;
  * `glue_sep`: under the property's proviso — no old cell takes part in two pairs
    (`ps.Pairwise (Far R)`) — `Glue` is the old relation plus, for each pair, the union of its two
    cells; `isCellMin_glue`: the smallest dart of such a union is the smaller of the two old ones;
  * edge cells `g3e` (`⟨β2, β3⟩`) and `edgeId3_spec`; face walks `g10` (`⟨β1, β0⟩`);
  * `vertex_cells_link2`, `edge_cells_link2` — what a 2-link does to the vertex / edge cells of a
    3-map; `relink2_β` — re-linking what a 2-unlink removed gives back β.
-/
import Honeycomb.Lemmas.Cell3

set_option linter.unusedSimpArgs false
set_option linter.unusedVariables false

namespace HC.Cell3
open HC HC.CellCalc
variable {X : Type}

/-! ## gluing a list of pairs -/

/-- equivalence closure of `R` and the pairs of `ps` -/
inductive Glue (R : Nat → Nat → Prop) (ps : List (Nat × Nat)) : Nat → Nat → Prop where
  | base {a b : Nat} : R a b → Glue R ps a b
  | pair {p q : Nat} : (p, q) ∈ ps → Glue R ps p q
  | symm {a b : Nat} : Glue R ps a b → Glue R ps b a
  | trans {a b c : Nat} : Glue R ps a b → Glue R ps b c → Glue R ps a c

theorem Glue.mono {R : Nat → Nat → Prop} {ps qs : List (Nat × Nat)} (hsub : ∀ x, x ∈ ps → x ∈ qs)
    {a b : Nat} (h : Glue R ps a b) : Glue R qs a b := by
  induction h with
  | base h => exact .base h
  | pair h => exact .pair (hsub _ h)
  | symm _ ih => exact .symm ih
  | trans _ _ ih1 ih2 => exact .trans ih1 ih2

theorem glue_nil {R : Nat → Nat → Prop} (hR : Equivalence R) (d e : Nat) : Glue R [] d e ↔ R d e := by
  constructor
  · intro h
    induction h with
    | base h => exact h
    | pair h => simp at h
    | symm _ ih => exact hR.symm ih
    | trans _ _ ih1 ih2 => exact hR.trans ih1 ih2
  · exact .base

theorem sameCell_equiv (g : Nat → List Nat) (n : Nat) : Equivalence (SameCell g n) :=
  ⟨.refl, .symm, .trans⟩

/-- **Appendix A3 for a list of pairs**: new generator steps each of which joins the old cells of
    some pair of the list -/
theorem sameCell_glue {g g' : Nat → List Nat} {n : Nat} {ps : List (Nat × Nat)} {N : Nat → Nat → Prop}
    (hstep : ∀ a b, GStep g' n a b ↔ (GStep g n a b ∨ N a b ∨ N b a))
    (hN : ∀ a b, N a b → ∃ pq, pq ∈ ps ∧ ((SameCell g n a pq.1 ∧ SameCell g n b pq.2) ∨
      (SameCell g n a pq.2 ∧ SameCell g n b pq.1)))
    (hps : ∀ pq, pq ∈ ps → SameCell g' n pq.1 pq.2) (d e : Nat) :
    SameCell g' n d e ↔ Glue (SameCell g n) ps d e := by
  have key : ∀ a b, N a b → Glue (SameCell g n) ps a b := by
    intro a b hn
    obtain ⟨⟨p, q⟩, hmem, hc⟩ := hN a b hn
    rcases hc with ⟨k1, k2⟩ | ⟨k1, k2⟩
    · exact .trans (.base k1) (.trans (.pair hmem) (.base (.symm k2)))
    · exact .trans (.base k1) (.trans (.symm (.pair hmem)) (.base (.symm k2)))
  constructor
  · intro h
    induction h with
    | refl a => exact .base (.refl a)
    | step hs =>
        rcases (hstep _ _).1 hs with h | h | h
        · exact .base (.step h)
        · exact key _ _ h
        · exact .symm (key _ _ h)
    | symm _ ih => exact .symm ih
    | trans _ _ ih1 ih2 => exact .trans ih1 ih2
  · have mono : ∀ a b, SameCell g n a b → SameCell g' n a b := by
      intro a b h
      induction h with
      | refl a => exact .refl a
      | step hs => exact .step ((hstep _ _).2 (Or.inl hs))
      | symm _ ih => exact .symm ih
      | trans _ _ ih1 ih2 => exact .trans ih1 ih2
    intro h
    induction h with
    | base h => exact mono _ _ h
    | pair h => exact hps _ h
    | symm _ ih => exact .symm ih
    | trans _ _ ih1 ih2 => exact .trans ih1 ih2

/-! ## the proviso: no old cell takes part in two pairs -/

/-- no endpoint of `x` is `R`-related to an endpoint of `y` -/
def Far (R : Nat → Nat → Prop) (x y : Nat × Nat) : Prop :=
  ¬ R x.1 y.1 ∧ ¬ R x.1 y.2 ∧ ¬ R x.2 y.1 ∧ ¬ R x.2 y.2

theorem Far.symm {R : Nat → Nat → Prop} (hR : Equivalence R) {x y : Nat × Nat} (h : Far R x y) : Far R y x :=
  ⟨fun k => h.1 (hR.symm k), fun k => h.2.2.1 (hR.symm k), fun k => h.2.1 (hR.symm k),
    fun k => h.2.2.2 (hR.symm k)⟩

theorem pairwise_mem {α : Type} {P : α → α → Prop} {l : List α} (h : l.Pairwise P) {x y : α}
    (hx : x ∈ l) (hy : y ∈ l) : x = y ∨ P x y ∨ P y x := by
  induction l with
  | nil => simp at hx
  | cons a t ih =>
      have hc := List.pairwise_cons.1 h
      rcases List.mem_cons.1 hx with rfl | hx' <;> rcases List.mem_cons.1 hy with rfl | hy'
      · exact Or.inl rfl
      · exact Or.inr (Or.inl (hc.1 _ hy'))
      · exact Or.inr (Or.inr (hc.1 _ hx'))
      · exact ih hc.2 hx' hy'

/-- the relation `Glue` reduces to under the proviso -/
def Sep (R : Nat → Nat → Prop) (ps : List (Nat × Nat)) (d e : Nat) : Prop :=
  R d e ∨ ∃ pq, pq ∈ ps ∧ ((R d pq.1 ∧ R pq.2 e) ∨ (R d pq.2 ∧ R pq.1 e))

/-- two pairs of a separated list that touch the same old cell are the same pair -/
theorem sep_same {R : Nat → Nat → Prop} (hR : Equivalence R) {ps : List (Nat × Nat)}
    (hsep : ps.Pairwise (Far R)) {x y : Nat × Nat} (hx : x ∈ ps) (hy : y ∈ ps) {a b : Nat}
    (ha : a = x.1 ∨ a = x.2) (hb : b = y.1 ∨ b = y.2) (hab : R a b) : x = y := by
  rcases pairwise_mem hsep hx hy with h | h | h
  · exact h
  · exfalso
    rcases ha with rfl | rfl <;> rcases hb with rfl | rfl
    · exact h.1 hab
    · exact h.2.1 hab
    · exact h.2.2.1 hab
    · exact h.2.2.2 hab
  · exfalso
    have h' := h.symm hR
    rcases ha with rfl | rfl <;> rcases hb with rfl | rfl
    · exact h'.1 hab
    · exact h'.2.1 hab
    · exact h'.2.2.1 hab
    · exact h'.2.2.2 hab

theorem glue_sep {R : Nat → Nat → Prop} (hR : Equivalence R) {ps : List (Nat × Nat)}
    (hsep : ps.Pairwise (Far R)) (d e : Nat) : Glue R ps d e ↔ Sep R ps d e := by
  have sy : ∀ a b, Sep R ps a b → Sep R ps b a := by
    rintro a b (h | ⟨pq, hm, ⟨h1, h2⟩ | ⟨h1, h2⟩⟩)
    · exact Or.inl (hR.symm h)
    · exact Or.inr ⟨pq, hm, Or.inr ⟨hR.symm h2, hR.symm h1⟩⟩
    · exact Or.inr ⟨pq, hm, Or.inl ⟨hR.symm h2, hR.symm h1⟩⟩
  have tr : ∀ a b c, Sep R ps a b → Sep R ps b c → Sep R ps a c := by
    rintro a b c (h | ⟨x, hx, hxc⟩) (k | ⟨y, hy, hyc⟩)
    · exact Or.inl (hR.trans h k)
    · rcases hyc with ⟨k1, k2⟩ | ⟨k1, k2⟩
      · exact Or.inr ⟨y, hy, Or.inl ⟨hR.trans h k1, k2⟩⟩
      · exact Or.inr ⟨y, hy, Or.inr ⟨hR.trans h k1, k2⟩⟩
    · rcases hxc with ⟨h1, h2⟩ | ⟨h1, h2⟩
      · exact Or.inr ⟨x, hx, Or.inl ⟨h1, hR.trans h2 k⟩⟩
      · exact Or.inr ⟨x, hx, Or.inr ⟨h1, hR.trans h2 k⟩⟩
    · -- both through a pair: the two pairs touch the old cell of `b`, hence coincide
      rcases hxc with ⟨h1, h2⟩ | ⟨h1, h2⟩ <;> rcases hyc with ⟨k1, k2⟩ | ⟨k1, k2⟩
      · -- a~x1, x2~b, b~y1, y2~c
        have := sep_same hR hsep hx hy (Or.inr rfl) (Or.inl rfl) (hR.trans h2 k1)
        subst this
        -- x1 ~ x2: the pair is inside one cell
        exact Or.inr ⟨x, hx, Or.inl ⟨h1, k2⟩⟩
      · -- a~x1, x2~b, b~y2, y1~c
        have := sep_same hR hsep hx hy (Or.inr rfl) (Or.inr rfl) (hR.trans h2 k1)
        subst this
        exact Or.inl (hR.trans h1 k2)
      · -- a~x2, x1~b, b~y1, y2~c
        have := sep_same hR hsep hx hy (Or.inl rfl) (Or.inl rfl) (hR.trans h2 k1)
        subst this
        exact Or.inl (hR.trans h1 k2)
      · -- a~x2, x1~b, b~y2, y1~c
        have := sep_same hR hsep hx hy (Or.inl rfl) (Or.inr rfl) (hR.trans h2 k1)
        subst this
        exact Or.inr ⟨x, hx, Or.inr ⟨h1, k2⟩⟩
  constructor
  · intro h
    induction h with
    | base h => exact Or.inl h
    | pair h => exact Or.inr ⟨_, h, Or.inl ⟨hR.refl _, hR.refl _⟩⟩
    | symm _ ih => exact sy _ _ ih
    | trans _ _ ih1 ih2 => exact tr _ _ _ ih1 ih2
  · rintro (h | ⟨⟨p, q⟩, hm, ⟨h1, h2⟩ | ⟨h1, h2⟩⟩)
    · exact .base h
    · exact .trans (.base h1) (.trans (.pair hm) (.base h2))
    · exact .trans (.base h1) (.trans (.symm (.pair hm)) (.base h2))

/-- under the proviso, the new cell of a dart of a pair is the union of the two old cells -/
theorem glue_sep_pair {R : Nat → Nat → Prop} (hR : Equivalence R) {ps : List (Nat × Nat)}
    (hsep : ps.Pairwise (Far R)) {pq : Nat × Nat} (hm : pq ∈ ps) (e : Nat) :
    Glue R ps pq.1 e ↔ (R pq.1 e ∨ R pq.2 e) := by
  rw [glue_sep hR hsep]
  constructor
  · rintro (h | ⟨y, hy, ⟨k1, k2⟩ | ⟨k1, k2⟩⟩)
    · exact Or.inl h
    · have := sep_same hR hsep hm hy (Or.inl rfl) (Or.inl rfl) k1
      subst this; exact Or.inr k2
    · have := sep_same hR hsep hm hy (Or.inl rfl) (Or.inr rfl) k1
      subst this; exact Or.inl k2
  · rintro (h | h)
    · exact Or.inl h
    · exact Or.inr ⟨pq, hm, Or.inl ⟨hR.refl _, h⟩⟩

/-- … and the cell of a dart whose old cell is in no pair does not change -/
theorem glue_sep_other {R : Nat → Nat → Prop} (hR : Equivalence R) {ps : List (Nat × Nat)}
    (hsep : ps.Pairwise (Far R)) {d : Nat} (hd : ∀ pq, pq ∈ ps → ¬ R d pq.1 ∧ ¬ R d pq.2) (e : Nat) :
    Glue R ps d e ↔ R d e := by
  rw [glue_sep hR hsep]
  constructor
  · rintro (h | ⟨y, hy, ⟨k1, _⟩ | ⟨k1, _⟩⟩)
    · exact h
    · exact absurd k1 (hd y hy).1
    · exact absurd k1 (hd y hy).2
  · exact Or.inl

/-- `v` is the smallest dart of the class of `d` -/
def IsMinOf (R : Nat → Nat → Prop) (d v : Nat) : Prop := R d v ∧ ∀ e, R d e → e ≠ 0 → v ≤ e

theorem isVid3_iff (m : Map X) (d v : Nat) : IsVid3 m d v ↔ IsMinOf (SameCell (g3v m) m.n) d v := Iff.rfl

theorem IsMinOf.congr {R : Nat → Nat → Prop} (hR : Equivalence R) {d d' v : Nat} (hv : IsMinOf R d v)
    (hs : R d d') : IsMinOf R d' v :=
  ⟨hR.trans (hR.symm hs) hv.1, fun e he he0 => hv.2 e (hR.trans hs he) he0⟩

theorem IsMinOf.unique {R : Nat → Nat → Prop} {d v w : Nat} (hv : IsMinOf R d v) (hw : IsMinOf R d w)
    (hv0 : v ≠ 0) (hw0 : w ≠ 0) : v = w := by
  have a := hv.2 w hw.1 hw0
  have b := hw.2 v hv.1 hv0
  omega

/-- the smallest dart of the union of two classes -/
theorem isMinOf_union {R G : Nat → Nat → Prop} {p q vp vq : Nat}
    (hG : ∀ e, G p e ↔ (R p e ∨ R q e)) (hp : IsMinOf R p vp) (hq : IsMinOf R q vq) :
    IsMinOf G p (min vp vq) := by
  constructor
  · by_cases hle : vp ≤ vq
    · rw [Nat.min_eq_left hle]; exact (hG _).2 (Or.inl hp.1)
    · rw [Nat.min_eq_right (by omega)]; exact (hG _).2 (Or.inr hq.1)
  · intro e he he0
    rcases (hG e).1 he with k | k
    · have := hp.2 e k he0; omega
    · have := hq.2 e k he0; omega


/-! ## edge cells `⟨β2, β3⟩` and `edge_id_transac` -/

/-- the two images pushed by `edge_id_transac` -/
def g3e (m : Map X) (x : Nat) : List Nat := [m.β 2 x, m.β 3 x]

theorem g3e_range {m : Map X} (h : WF 4 m) : ∀ a, a < m.n → ∀ y, y ∈ g3e m a → y < m.n := by
  intro a ha y hy
  simp only [g3e, List.mem_cons, List.not_mem_nil, or_false] at hy
  rcases hy with rfl | rfl
  · exact h.range 2 (by omega) a ha
  · exact h.range 3 (by omega) a ha

theorem g3e_null {m : Map X} (h : WF 4 m) : ∀ y, y ∈ g3e m 0 → y = 0 := by
  intro y hy
  simp only [g3e, List.mem_cons, List.not_mem_nil, or_false, h.null 2 (by omega), h.null 3 (by omega),
    or_self] at hy
  exact hy

theorem gstep3e_iff (m : Map X) (a b : Nat) :
    GStep (g3e m) m.n a b ↔ a ≠ 0 ∧ a < m.n ∧ b ≠ 0 ∧ (b = m.β 2 a ∨ b = m.β 3 a) := by
  unfold GStep g3e
  simp only [List.mem_cons, List.not_mem_nil, or_false]

theorem g3e_invClosed {m : Map X} (h : WF 4 m) : InvClosed (g3e m) m.n := by
  intro x hx y hy hy0
  simp only [g3e, List.mem_cons, List.not_mem_nil, or_false] at hy ⊢
  rcases hy with rfl | rfl
  · exact Or.inl (invol_back h (by omega) (by omega) hx hy0).symm
  · exact Or.inr (invol_back h (by omega) (by omega) hx hy0).symm

/-- `v` is the smallest dart of the edge cell of `d` -/
def IsEid3 (m : Map X) (d v : Nat) : Prop := IsMinOf (SameCell (g3e m) m.n) d v

/-- **what `edge_id_transac` returns**: the smallest dart of the `⟨β2, β3⟩` cell -/
theorem edgeId3_spec {m m' : Map X} (h : WF 4 m) {n' d v : Nat} (hd0 : d ≠ 0) (hd : d < m.n)
    (hr : run (edgeId3 (X := X) n' d) m = (.ok v, m')) : m' = m ∧ IsEid3 m d v := by
  unfold edgeId3 at hr
  have hgen : ∀ x ims m1, run ((fun e => do
      let i1 ← rB 2 e
      let i2 ← rB 3 e
      pure [i1, i2] : Nat → P X (List Nat)) x) m = (.ok ims, m1) → m1 = m ∧ ims = g3e m x := by
    intro x ims m1 hg
    obtain ⟨i1, k1, hg⟩ := run_ro_bind_ok (ReadOnly.rB _ _) hg
    obtain ⟨rfl, _, _⟩ := run_rB_ok k1
    obtain ⟨i2, k2, hg⟩ := run_ro_bind_ok (ReadOnly.rB _ _) hg
    obtain ⟨rfl, _, _⟩ := run_rB_ok k2
    obtain ⟨e, hm⟩ := run_pure_ok hg
    exact ⟨hm, e⟩
  have I : PInv (g3e m) d [d] [0] d :=
    ⟨by simp, fun x hx hx0 => absurd (by simpa using hx) hx0, fun x hx _ => by
      have : x = d := by simpa using hx
      subst this; exact .refl _,
     fun x hx hx0 => absurd (by simpa using hx) hx0, Or.inr (by simp), ⟨Nat.le_refl _, fun x hx hx0 =>
      absurd (by simpa using hx) hx0⟩, Or.inl rfl⟩
  obtain ⟨hm, hle, hmin, hmem⟩ := popLoop_spec (g := g3e m) hgen (g3e_null h) _ _ _ _ v m' I hr
  have iff := sameCell_iff_reach (g3e_null h) (g3e_range h) (g3e_invClosed h) hd0 hd
  refine ⟨hm, ?_, ?_⟩
  · rcases hmem with rfl | ⟨hv, hv0⟩
    · exact .refl _
    · exact (iff v).2 ⟨hv0, hv⟩
  · intro e he he0
    exact hmin e ((iff e).1 he).2 he0

theorem sameCellE_ne_zero {m : Map X} (h : WF 4 m) {d v : Nat} (hd0 : d ≠ 0) (hd : d < m.n)
    (hs : SameCell (g3e m) m.n d v) : v ≠ 0 :=
  ((sameCell_iff_reach (g3e_null h) (g3e_range h) (g3e_invClosed h) hd0 hd v).1 hs).1

theorem g3e_congr {m m' : Map X} (hβ : ∀ j e, m'.β j e = m.β j e) : g3e m' = g3e m := by
  funext x; unfold g3e; simp only [hβ]

/-! ## what a 2-link does to the cells of a 3-map -/

/-- the dart through which `two_sew` reads the vertex at the head of `x`: `β1 x`, else `β3 x` (same
    old vertex cell when both exist) -/
def headV (m : Map X) (x : Nat) : Nat := if m.β 1 x ≠ 0 then m.β 1 x else m.β 3 x

/-- the vertex pairs united by a 2-link of `l` and `r`: `l` with the head of `r`, `r` with the head
    of `l` (a pair is dropped when the head is null: open 3-free face) -/
def pairsV2 (m : Map X) (l r : Nat) : List (Nat × Nat) :=
  (if headV m r ≠ 0 then [(l, headV m r)] else []) ++ (if headV m l ≠ 0 then [(r, headV m l)] else [])

/-- the β3 image and the β1 image of a dart start at the same vertex (the head of the dart) -/
theorem head31_same {m : Map X} (h : WF 4 m) {x : Nat} (hx : x < m.n) (h3 : m.β 3 x ≠ 0) (h1 : m.β 1 x ≠ 0) :
    SameCell (g3v m) m.n (m.β 3 x) (m.β 1 x) := by
  refine .step ((gstep3_iff h _ _).2 ⟨h3, h.range 3 (by omega) x hx, h1, h.range 1 (by omega) x hx,
    Or.inl (Or.inr (Or.inl ?_))⟩)
  rw [invol_back h (by omega) (by omega) hx h3]

theorem edge_cells_link2 {m : Map X} (h : WF 4 m) {l r : Nat}
    (hl0 : l ≠ 0) (hr0 : r ≠ 0) (hlr : l ≠ r) (hl : l < m.n) (hr : r < m.n)
    (h2l : m.β 2 l = 0) (h2r : m.β 2 r = 0) (d e : Nat) :
    SameCell (g3e (m.linkI 2 l r)) m.n d e ↔ Glue (SameCell (g3e m) m.n) [(l, r)] d e := by
  have eβ := h.toSized.β_linkI (i := 2) (by omega) hl hr
  have e2 : ∀ x, (m.linkI 2 l r).β 2 x = if r = x then l else if l = x then r else m.β 2 x := by
    intro x; rw [eβ]; simp
  have e3 : ∀ x, (m.linkI 2 l r).β 3 x = m.β 3 x := by intro x; rw [eβ]; simp
  have hn : (m.linkI 2 l r).n = m.n := rfl
  refine sameCell_glue (N := fun a b => a = l ∧ b = r) (fun a b => ?_) (fun a b k => ?_) (fun pq hm => ?_) d e
  · have g1 := gstep3e_iff (m.linkI 2 l r) a b
    rw [hn] at g1
    rw [g1, gstep3e_iff m a b, e2, e3]
    constructor
    · rintro ⟨ha0, ha, hb0, k | k⟩
      · by_cases c1 : r = a
        · rw [if_pos c1] at k; exact Or.inr (Or.inr ⟨k, c1.symm⟩)
        · rw [if_neg c1] at k
          by_cases c2 : l = a
          · rw [if_pos c2] at k; exact Or.inr (Or.inl ⟨c2.symm, k⟩)
          · rw [if_neg c2] at k; exact Or.inl ⟨ha0, ha, hb0, Or.inl k⟩
      · exact Or.inl ⟨ha0, ha, hb0, Or.inr k⟩
    · rintro (⟨ha0, ha, hb0, k | k⟩ | ⟨rfl, rfl⟩ | ⟨rfl, rfl⟩)
      · refine ⟨ha0, ha, hb0, Or.inl ?_⟩
        have c1 : ¬ r = a := fun hh => hb0 (by rw [k, ← hh, h2r])
        have c2 : ¬ l = a := fun hh => hb0 (by rw [k, ← hh, h2l])
        rw [if_neg c1, if_neg c2]; exact k
      · exact ⟨ha0, ha, hb0, Or.inr k⟩
      · exact ⟨hl0, hl, hr0, Or.inl (by rw [if_neg (fun hh => hlr hh.symm), if_pos rfl])⟩
      · exact ⟨hr0, hr, hl0, Or.inl (by rw [if_pos rfl])⟩
  · obtain ⟨rfl, rfl⟩ := k
    exact ⟨(a, b), by simp, Or.inl ⟨.refl _, .refl _⟩⟩
  · have : pq = (l, r) := by simpa using hm
    subst this
    refine .step ?_
    have g1 := gstep3e_iff (m.linkI 2 l r) l r
    rw [hn] at g1
    rw [g1, e2]
    exact ⟨hl0, hl, hr0, Or.inl (by rw [if_neg (fun hh => hlr hh.symm), if_pos rfl])⟩

theorem vertex_cells_link2 {m : Map X} (h : WF 4 m) {l r : Nat}
    (hl0 : l ≠ 0) (hr0 : r ≠ 0) (hlr : l ≠ r) (hl : l < m.n) (hr : r < m.n)
    (hul : m.unused l = false) (hur : m.unused r = false)
    (h2l : m.β 2 l = 0) (h2r : m.β 2 r = 0) (d e : Nat) :
    SameCell (g3v (m.linkI 2 l r)) m.n d e ↔ Glue (SameCell (g3v m) m.n) (pairsV2 m l r) d e := by
  have hw1 : WF 4 (m.linkI 2 l r) := h.linkI (by omega) (by omega) hl0 hr0 hlr hl hr hul hur h2l h2r
  have eβ := h.toSized.β_linkI (i := 2) (by omega) hl hr
  have e2 : ∀ x, (m.linkI 2 l r).β 2 x = if r = x then l else if l = x then r else m.β 2 x := by
    intro x; rw [eβ]; simp
  have e3 : ∀ x, (m.linkI 2 l r).β 3 x = m.β 3 x := by intro x; rw [eβ]; simp
  have e1 : ∀ x, (m.linkI 2 l r).β 1 x = m.β 1 x := by intro x; rw [eβ]; simp
  have n1 := h.null 1 (by omega)
  have n3 := h.null 3 (by omega)
  have hn : (m.linkI 2 l r).n = m.n := rfl
  have hrl : ¬ r = l := fun hh => hlr hh.symm
  -- new forward images
  have hF : ∀ a b, b ≠ 0 → (F (m.linkI 2 l r) a b ↔ (F m a b ∨
      (a = r ∧ (b = m.β 3 l ∨ b = m.β 1 l)) ∨ (a = l ∧ (b = m.β 3 r ∨ b = m.β 1 r)))) := by
    intro a b hb0
    unfold F
    simp only [e1, e2, e3]
    by_cases c1 : r = a
    · subst c1
      simp only [if_true, h2r, n3, n1]
      constructor
      · rintro (k | k | k)
        · exact Or.inr (Or.inl ⟨trivial, Or.inl k⟩)
        · exact Or.inl (Or.inr (Or.inl k))
        · exact Or.inr (Or.inl ⟨trivial, Or.inr k⟩)
      · rintro ((k | k | k) | ⟨_, k | k⟩ | ⟨k', _⟩)
        · exact absurd k hb0
        · exact Or.inr (Or.inl k)
        · exact absurd k hb0
        · exact Or.inl k
        · exact Or.inr (Or.inr k)
        · exact absurd k'.symm hlr
    · rw [if_neg c1]
      by_cases c2 : l = a
      · subst c2
        simp only [if_true, h2l, n3, n1]
        constructor
        · rintro (k | k | k)
          · exact Or.inr (Or.inr ⟨trivial, Or.inl k⟩)
          · exact Or.inl (Or.inr (Or.inl k))
          · exact Or.inr (Or.inr ⟨trivial, Or.inr k⟩)
        · rintro ((k | k | k) | ⟨k', _⟩ | ⟨_, k | k⟩)
          · exact absurd k hb0
          · exact Or.inr (Or.inl k)
          · exact absurd k hb0
          · exact absurd k' hlr
          · exact Or.inl k
          · exact Or.inr (Or.inr k)
      · rw [if_neg c2]
        constructor
        · exact Or.inl
        · rintro (k | ⟨k', _⟩ | ⟨k', _⟩)
          · exact k
          · exact absurd k'.symm c1
          · exact absurd k'.symm c2
  let N : Nat → Nat → Prop := fun a b => b ≠ 0 ∧ b < m.n ∧
    ((a = r ∧ (b = m.β 3 l ∨ b = m.β 1 l)) ∨ (a = l ∧ (b = m.β 3 r ∨ b = m.β 1 r)))
  have hstep : ∀ a b, GStep (g3v (m.linkI 2 l r)) m.n a b ↔ (GStep (g3v m) m.n a b ∨ N a b ∨ N b a) := by
    intro a b
    have g1 := gstep3_iff hw1 a b
    rw [hn] at g1
    rw [g1, gstep3_iff h a b]
    constructor
    · rintro ⟨ha0, ha, hb0, hb, k | k⟩
      · rcases (hF a b hb0).1 k with k | k
        · exact Or.inl ⟨ha0, ha, hb0, hb, Or.inl k⟩
        · exact Or.inr (Or.inl ⟨hb0, hb, k⟩)
      · rcases (hF b a ha0).1 k with k | k
        · exact Or.inl ⟨ha0, ha, hb0, hb, Or.inr k⟩
        · exact Or.inr (Or.inr ⟨ha0, ha, k⟩)
    · rintro (⟨ha0, ha, hb0, hb, k | k⟩ | ⟨hb0, hb, k⟩ | ⟨ha0, ha, k⟩)
      · exact ⟨ha0, ha, hb0, hb, Or.inl ((hF a b hb0).2 (Or.inl k))⟩
      · exact ⟨ha0, ha, hb0, hb, Or.inr ((hF b a ha0).2 (Or.inl k))⟩
      · have hav : a ≠ 0 ∧ a < m.n := by
          rcases k with ⟨rfl, _⟩ | ⟨rfl, _⟩
          · exact ⟨hr0, hr⟩
          · exact ⟨hl0, hl⟩
        exact ⟨hav.1, hav.2, hb0, hb, Or.inl ((hF a b hb0).2 (Or.inr k))⟩
      · have hbv : b ≠ 0 ∧ b < m.n := by
          rcases k with ⟨rfl, _⟩ | ⟨rfl, _⟩
          · exact ⟨hr0, hr⟩
          · exact ⟨hl0, hl⟩
        exact ⟨ha0, ha, hbv.1, hbv.2, Or.inr ((hF b a ha0).2 (Or.inr k))⟩
  -- a non-null `β3 x` / `β1 x` lies in the old cell of `headV m x`
  have hhead : ∀ x, x < m.n → ∀ b, b ≠ 0 → (b = m.β 3 x ∨ b = m.β 1 x) →
      headV m x ≠ 0 ∧ SameCell (g3v m) m.n b (headV m x) := by
    intro x hx b hb0 hb
    unfold headV
    rcases hb with rfl | rfl
    · by_cases c : m.β 1 x ≠ 0
      · rw [if_pos c]; exact ⟨c, head31_same h hx hb0 c⟩
      · rw [if_neg c]; exact ⟨hb0, .refl _⟩
    · rw [if_pos hb0]; exact ⟨hb0, .refl _⟩
  have hheadN : ∀ x, headV m x ≠ 0 → headV m x < m.n ∧ (headV m x = m.β 3 x ∨ headV m x = m.β 1 x) := by
    intro x hx
    unfold headV at hx ⊢
    by_cases c : m.β 1 x ≠ 0
    · rw [if_pos c]; exact ⟨by
        by_cases hxn : x < m.n
        · exact h.range 1 (by omega) x hxn
        · exfalso; apply c; unfold Map.β; rw [rd_oob]; rfl; rw [h.row 1 (by omega)]; omega, Or.inr rfl⟩
    · rw [if_neg c] at hx ⊢
      exact ⟨by
        by_cases hxn : x < m.n
        · exact h.range 3 (by omega) x hxn
        · exfalso; apply hx; unfold Map.β; rw [rd_oob]; rfl; rw [h.row 3 (by omega)]; omega, Or.inl rfl⟩
  refine sameCell_glue (N := N) hstep (fun a b k => ?_) (fun pq hm => ?_) d e
  · obtain ⟨hb0, hb, k⟩ := k
    unfold pairsV2
    rcases k with ⟨rfl, k⟩ | ⟨rfl, k⟩
    · obtain ⟨hh, hs⟩ := hhead l hl b hb0 k
      exact ⟨(a, headV m l), by simp [hh], Or.inl ⟨.refl _, hs⟩⟩
    · obtain ⟨hh, hs⟩ := hhead r hr b hb0 k
      exact ⟨(a, headV m r), by simp [hh], Or.inl ⟨.refl _, hs⟩⟩
  · unfold pairsV2 at hm
    rcases List.mem_append.1 hm with hm | hm
    · by_cases c : headV m r ≠ 0
      · rw [if_pos c] at hm
        have : pq = (l, headV m r) := by simpa using hm
        subst this
        obtain ⟨hlt, hor⟩ := hheadN r c
        exact .step ((hstep _ _).2 (Or.inr (Or.inl ⟨c, hlt, Or.inr ⟨rfl, hor⟩⟩)))
      · rw [if_neg c] at hm; simp at hm
    · by_cases c : headV m l ≠ 0
      · rw [if_pos c] at hm
        have : pq = (r, headV m l) := by simpa using hm
        subst this
        obtain ⟨hlt, hor⟩ := hheadN l c
        exact .step ((hstep _ _).2 (Or.inr (Or.inl ⟨c, hlt, Or.inl ⟨rfl, hor⟩⟩)))
      · rw [if_neg c] at hm; simp at hm

/-- re-linking what `two_unlink_core` unlinked restores every image -/
theorem relink2_β {m : Map X} (h : WF 4 m) {l : Nat} (hl : l < m.n) (hne : m.β 2 l ≠ 0) (j e : Nat) :
    ((m.unlinkI 2 l).linkI 2 l (m.β 2 l)).β j e = m.β j e := by
  have hr : m.β 2 l < m.n := h.range 2 (by omega) l hl
  have hw1 : WF 4 (m.unlinkI 2 l) := h.unlinkI (by omega) (by omega) hl hne
  rw [hw1.toSized.β_linkI (by omega) hl hr, h.toSized.β_unlinkI (by omega) hl hr]
  have back : m.β 2 (m.β 2 l) = l := invol_back h (by omega) (by omega) hl hne
  by_cases c0 : 2 = j ∧ m.β 2 l = e
  · rw [if_pos c0]; obtain ⟨rfl, rfl⟩ := c0; exact back.symm
  · rw [if_neg c0]
    by_cases c1 : 2 = j ∧ l = e
    · rw [if_pos c1]; obtain ⟨rfl, rfl⟩ := c1; rfl
    · rw [if_neg c1, if_neg c0, if_neg c1]


/-! ## the exact β3 written by `three_link` -/

/-- the pairs visited by a lock-step walk of `k` rounds: `(βi^t ls, βj^t rs)`, `t < k` -/
def walkPairs (m : Map X) (i j : Nat) : Nat → Nat → Nat → List (Nat × Nat)
  | 0, _, _ => []
  | k + 1, ls, rs => (ls, rs) :: walkPairs m i j k (m.β i ls) (m.β j rs)

theorem mem_walkPairs {m : Map X} {i j : Nat} : ∀ (k ls rs : Nat) (pq : Nat × Nat),
    pq ∈ walkPairs m i j k ls rs ↔ ∃ t, t < k ∧ pq = (it m i t ls, it m j t rs) := by
  intro k
  induction k with
  | zero => intro ls rs pq; simp [walkPairs]
  | succ k ih =>
      intro ls rs pq
      simp only [walkPairs, List.mem_cons, ih]
      constructor
      · rintro (h | ⟨t, ht, h⟩)
        · exact ⟨0, by omega, h⟩
        · exact ⟨t + 1, by omega, h⟩
      · rintro ⟨t, ht, h⟩
        cases t with
        | zero => exact Or.inl h
        | succ t => exact Or.inr ⟨t, by omega, h⟩

theorem walkPairs_congr {m m' : Map X} {i j : Nat} (hi : ∀ d, m'.β i d = m.β i d) (hj : ∀ d, m'.β j d = m.β j d) :
    ∀ k ls rs, walkPairs m' i j k ls rs = walkPairs m i j k ls rs := by
  intro k
  induction k with
  | zero => intro ls rs; rfl
  | succ k ih => intro ls rs; simp only [walkPairs, hi, hj, ih]

/-- `m'` is `m` with the darts of each pair 3-linked to each other (they were 3-free) -/
structure Linked3 (m m' : Map X) (ps : List (Nat × Nat)) : Prop where
  n : m'.n = m.n
  other : ∀ e d, e ≠ 3 → m'.β e d = m.β e d
  pairs : ∀ pq, pq ∈ ps → m'.β 3 pq.1 = pq.2 ∧ m'.β 3 pq.2 = pq.1 ∧ m.β 3 pq.1 = 0 ∧ m.β 3 pq.2 = 0 ∧
    pq.1 ≠ 0 ∧ pq.2 ≠ 0 ∧ pq.1 < m.n ∧ pq.2 < m.n
  rest : ∀ x, (∀ pq, pq ∈ ps → x ≠ pq.1 ∧ x ≠ pq.2) → m'.β 3 x = m.β 3 x
  /-- different pairs share no dart (each link needs both darts 3-free) -/
  cross : ∀ x, x ∈ ps → ∀ y, y ∈ ps → x ≠ y → x.1 ≠ y.1 ∧ x.1 ≠ y.2 ∧ x.2 ≠ y.1 ∧ x.2 ≠ y.2

theorem Linked3.refl (m : Map X) : Linked3 m m [] :=
  ⟨rfl, fun _ _ _ => rfl, fun pq h => absurd h (by simp), fun _ _ => rfl, fun x h => absurd h (by simp)⟩

/-- only the set of pairs matters -/
theorem Linked3.of_mem {m m' : Map X} {ps qs : List (Nat × Nat)} (h : Linked3 m m' ps)
    (hmem : ∀ x, x ∈ qs ↔ x ∈ ps) : Linked3 m m' qs :=
  ⟨h.n, h.other, fun pq hq => h.pairs pq ((hmem pq).1 hq),
    fun x hx => h.rest x fun pq hp => hx pq ((hmem pq).2 hp),
    fun x hx y hy => h.cross x ((hmem x).1 hx) y ((hmem y).1 hy)⟩

theorem Linked3.single {m : Map X} (h : Sized 4 m) {l r : Nat} (hl0 : l ≠ 0) (hr0 : r ≠ 0)
    (hl : l < m.n) (hr : r < m.n) (f1 : m.β 3 l = 0) (f2 : m.β 3 r = 0) :
    Linked3 m (m.linkI 3 l r) [(l, r)] := by
  have eβ := h.β_linkI (i := 3) (by omega) hl hr
  refine ⟨rfl, ?_, ?_, ?_, fun x hx y hy hxy => absurd ((by simpa using hx : x = (l, r)).trans
    (by simpa using hy : y = (l, r)).symm) hxy⟩
  · intro e d he
    rw [eβ]
    have : ¬ (3 = e) := fun hh => he hh.symm
    simp [this]
  · intro pq hm
    have : pq = (l, r) := by simpa using hm
    subst this
    refine ⟨?_, ?_, f1, f2, hl0, hr0, hl, hr⟩
    · rw [eβ]
      by_cases c : r = l
      · simp [c]
      · simp [c]
    · rw [eβ]; simp
  · intro x hx
    have := hx (l, r) (by simp)
    rw [eβ]
    have a1 : ¬ (r = x) := fun hh => this.2 hh.symm
    have a2 : ¬ (l = x) := fun hh => this.1 hh.symm
    simp [a1, a2]

theorem Linked3.append {m m1 m2 : Map X} {ps qs : List (Nat × Nat)} (h1 : Linked3 m m1 ps)
    (h2 : Linked3 m1 m2 qs) : Linked3 m m2 (ps ++ qs) := by
  -- an endpoint of `qs` is 3-free in `m1`, an endpoint of `ps` is not
  have disj : ∀ pq, pq ∈ ps → ∀ rs, rs ∈ qs → pq.1 ≠ rs.1 ∧ pq.1 ≠ rs.2 ∧ pq.2 ≠ rs.1 ∧ pq.2 ≠ rs.2 := by
    intro pq hp rs hq
    obtain ⟨a1, a2, _, _, a5, a6, _, _⟩ := h1.pairs pq hp
    obtain ⟨_, _, b3, b4, _, _, _, _⟩ := h2.pairs rs hq
    refine ⟨fun hh => a6 ?_, fun hh => a6 ?_, fun hh => a5 ?_, fun hh => a5 ?_⟩
    · rw [← a1, hh, b3]
    · rw [← a1, hh, b4]
    · rw [← a2, hh, b3]
    · rw [← a2, hh, b4]
  refine ⟨h2.n.trans h1.n, fun e d he => by rw [h2.other e d he, h1.other e d he], ?_, ?_, ?_⟩
  rotate_left 2
  · intro x hx y hy hxy
    rcases List.mem_append.1 hx with hx | hx <;> rcases List.mem_append.1 hy with hy | hy
    · exact h1.cross x hx y hy hxy
    · exact disj x hx y hy
    · obtain ⟨d1, d2, d3, d4⟩ := disj y hy x hx
      exact ⟨fun hh => d1 hh.symm, fun hh => d3 hh.symm, fun hh => d2 hh.symm, fun hh => d4 hh.symm⟩
    · exact h2.cross x hx y hy hxy
  · intro pq hm
    rcases List.mem_append.1 hm with hp | hq
    · obtain ⟨a1, a2, a3, a4, a5, a6, a7, a8⟩ := h1.pairs pq hp
      have r1 : m2.β 3 pq.1 = m1.β 3 pq.1 := h2.rest _ fun rs hq => ⟨(disj pq hp rs hq).1, (disj pq hp rs hq).2.1⟩
      have r2 : m2.β 3 pq.2 = m1.β 3 pq.2 :=
        h2.rest _ fun rs hq => ⟨(disj pq hp rs hq).2.2.1, (disj pq hp rs hq).2.2.2⟩
      exact ⟨by rw [r1, a1], by rw [r2, a2], a3, a4, a5, a6, a7, a8⟩
    · obtain ⟨b1, b2, b3, b4, b5, b6, b7, b8⟩ := h2.pairs pq hq
      have r1 : m1.β 3 pq.1 = m.β 3 pq.1 :=
        h1.rest _ fun rs hp => ⟨fun hh => (disj rs hp pq hq).1 hh.symm, fun hh => (disj rs hp pq hq).2.2.1 hh.symm⟩
      have r2 : m1.β 3 pq.2 = m.β 3 pq.2 :=
        h1.rest _ fun rs hp => ⟨fun hh => (disj rs hp pq hq).2.1 hh.symm, fun hh => (disj rs hp pq hq).2.2.2 hh.symm⟩
      exact ⟨b1, b2, by rw [← r1, b3], by rw [← r2, b4], b5, b6, by rw [← h1.n]; exact b7, by rw [← h1.n]; exact b8⟩
  · intro x hx
    rw [h2.rest x fun rs hq => hx rs (List.mem_append_right _ hq),
      h1.rest x fun rs hp => hx rs (List.mem_append_left _ hp)]

/-- one direction of the walk of `three_link`: exactly the visited pairs get 3-linked -/
theorem linkWalk_linked {ld rd stop i j : Nat} (hi3 : i ≠ 3) (hj3 : j ≠ 3) :
    ∀ (f ls rs : Nat) (m m' : Map X) (a b : Nat), Sized 4 m →
      run (threeLinkWalk (X := X) ld rd stop i j f ls rs) m = (.ok (a, b), m') →
      ∃ k, Linked3 m m' (walkPairs m i j k ls rs) ∧ a = it m i k ls ∧ b = it m j k rs ∧
        (a = stop ∨ a = 0) ∧ (∀ t, t < k → it m i t ls ≠ stop) ∧ Sized 4 m' := by
  intro f
  induction f with
  | zero =>
      intro ls rs m m' a b _ h
      unfold threeLinkWalk at h; simp at h
  | succ f ih =>
      intro ls rs m m' a b hs h
      unfold threeLinkWalk at h
      by_cases hc : ls ≠ stop ∧ ls ≠ 0
      · rw [if_pos hc] at h
        by_cases hrs : rs = 0
        · rw [if_pos hrs] at h; simp at h
        · rw [if_neg hrs] at h
          obtain ⟨_, m1, hl, h⟩ := run_bind_ok h
          obtain ⟨ok1, ok2, f1, f2, rfl⟩ := iLinkCore_ok hl
          obtain ⟨ls', hb, h⟩ := run_ro_bind_ok (ReadOnly.rB _ _) h
          obtain ⟨rfl, _, _⟩ := run_rB_ok hb
          obtain ⟨rs', hb', h⟩ := run_ro_bind_ok (ReadOnly.rB _ _) h
          obtain ⟨rfl, _, _⟩ := run_rB_ok hb'
          have em : ∀ l r, (m.setβ 3 l r).setβ 3 r l = m.linkI 3 l r := fun _ _ => rfl
          simp only [em] at h
          have hlsn : ls < m.n := ((hs.okβ 3 ls).1 ok1).2
          have hrsn : rs < m.n := ((hs.okβ 3 rs).1 ok2).2
          have L1 := Linked3.single hs hc.2 hrs hlsn hrsn f1 f2
          have hs1 : Sized 4 (m.linkI 3 ls rs) := (hs.setβ _ _ _).setβ _ _ _
          obtain ⟨k, L2, ha, hb2, hst, hne, hsz⟩ := ih _ _ (m.linkI 3 ls rs) m' a b hs1 h
          have hβi : ∀ x, (m.linkI 3 ls rs).β i x = m.β i x := fun x => L1.other i x hi3
          have hβj : ∀ x, (m.linkI 3 ls rs).β j x = m.β j x := fun x => L1.other j x hj3
          rw [walkPairs_congr hβi hβj, hβi, hβj] at L2
          rw [it_congr hβi, hβi] at ha
          simp only [it_congr hβi, hβi] at hne
          rw [it_congr hβj, hβj] at hb2
          refine ⟨k + 1, L1.append L2, ha, hb2, hst, ?_, hsz⟩
          intro t ht
          cases t with
          | zero => exact hc.1
          | succ t => exact hne t (by omega)
      · rw [if_neg hc] at h
        obtain ⟨hab, rfl⟩ := run_pure_ok h
        simp only [Prod.mk.injEq] at hab
        obtain ⟨rfl, rfl⟩ := hab
        exact ⟨0, Linked3.refl _, rfl, rfl, by omega, fun t ht => by omega, hs⟩

/-- **`three_link` on a CLOSED left face**: exactly the pairs `(β1^t ld, β0^t rd)`, `t < L`, get
    3-linked, `L` being the number of darts of both faces -/
theorem threeLink3_linked_closed {n ld rd : Nat} {m m' : Map X} {u : Unit} (hs : Sized 4 m)
    (hl0 : ld ≠ 0) (hr0 : rd ≠ 0) (hclosed : ∀ t, it m 1 t ld ≠ 0)
    (h : run (threeLink3 (X := X) n ld rd) m = (.ok u, m')) :
    ∃ L, 0 < L ∧ Linked3 m m' (walkPairs m 1 0 L ld rd) ∧ it m 1 L ld = ld ∧ it m 0 L rd = rd ∧
      ∀ t, 0 < t → t < L → it m 1 t ld ≠ ld := by
  unfold threeLink3 at h
  obtain ⟨_, m0, hl, h⟩ := run_bind_ok h
  obtain ⟨ok1, ok2, f1, f2, rfl⟩ := iLinkCore_ok hl
  have em : (m.setβ 3 ld rd).setβ 3 rd ld = m.linkI 3 ld rd := rfl
  rw [em] at h
  obtain ⟨ls0, hb, h⟩ := run_ro_bind_ok (ReadOnly.rB _ _) h
  obtain ⟨rfl, _, _⟩ := run_rB_ok hb
  obtain ⟨rs0, hb', h⟩ := run_ro_bind_ok (ReadOnly.rB _ _) h
  obtain ⟨rfl, _, _⟩ := run_rB_ok hb'
  obtain ⟨⟨a, b⟩, m1, hwalk, h⟩ := run_bind_ok h
  simp only [] at h
  have hln : ld < m.n := ((hs.okβ 3 ld).1 ok1).2
  have hrn : rd < m.n := ((hs.okβ 3 rd).1 ok2).2
  have L0 := Linked3.single hs hl0 hr0 hln hrn f1 f2
  have hs0 : Sized 4 (m.linkI 3 ld rd) := (hs.setβ _ _ _).setβ _ _ _
  obtain ⟨k, L1, ha, hb2, hst, hne, _⟩ := linkWalk_linked (by omega) (by omega) _ _ _ _ m1 a b hs0 hwalk
  have hβ1 : ∀ x, (m.linkI 3 ld rd).β 1 x = m.β 1 x := fun x => L0.other 1 x (by omega)
  have hβ0 : ∀ x, (m.linkI 3 ld rd).β 0 x = m.β 0 x := fun x => L0.other 0 x (by omega)
  rw [walkPairs_congr hβ1 hβ0, hβ1, hβ0] at L1
  rw [it_congr hβ1, hβ1] at ha
  rw [it_congr hβ0, hβ0] at hb2
  simp only [it_congr hβ1, hβ1] at hne
  have ha' : a = it m 1 (k + 1) ld := ha
  have hb' : b = it m 0 (k + 1) rd := hb2
  have ha0 : a ≠ 0 := by rw [ha']; exact hclosed _
  have hald : a = ld := by rcases hst with hh | hh; exact hh; exact absurd hh ha0
  rw [if_neg ha0] at h
  by_cases hbrd : b ≠ rd
  · rw [if_pos hbrd] at h; simp at h
  · rw [if_neg hbrd] at h
    obtain ⟨_, hm'⟩ := run_pure_ok h
    rw [hm']
    refine ⟨k + 1, by omega, L0.append L1, by rw [← ha']; exact hald, by rw [← hb']; omega, ?_⟩
    intro t ht0 ht
    cases t with
    | zero => omega
    | succ t => exact hne t (by omega)


/-! ## cells whose generators are "something that ignores β3, plus β3": edges and faces -/

/-- generator lists of the form `base ++ [β3 x]` -/
def gB3 (base : Map X → Nat → List Nat) (m : Map X) (x : Nat) : List Nat := base m x ++ [m.β 3 x]

/-- the face images `β1, β0, β3` -/
def g3f (m : Map X) (x : Nat) : List Nat := [m.β 1 x, m.β 0 x, m.β 3 x]

theorem g3e_eq (m : Map X) : g3e m = gB3 (fun m x => [m.β 2 x]) m := rfl
theorem g3f_eq (m : Map X) : g3f m = gB3 (fun m x => [m.β 1 x, m.β 0 x]) m := rfl

/-- 3-linking the pairs of `ps` adds exactly these pairs to the generator steps -/
theorem gstep_linked3 {base : Map X → Nat → List Nat} {m m' : Map X} {ps : List (Nat × Nat)}
    (hbase : ∀ x, base m' x = base m x) (L : Linked3 m m' ps) (a b : Nat) :
    GStep (gB3 base m') m.n a b ↔ (GStep (gB3 base m) m.n a b ∨ (a, b) ∈ ps ∨ (b, a) ∈ ps) := by
  unfold GStep gB3
  simp only [List.mem_append, List.mem_singleton, hbase]
  constructor
  · rintro ⟨ha0, ha, hb0, k | k⟩
    · exact Or.inl ⟨ha0, ha, hb0, Or.inl k⟩
    · by_cases hend : ∃ pq, pq ∈ ps ∧ (a = pq.1 ∨ a = pq.2)
      · obtain ⟨⟨p, q⟩, hm, hc⟩ := hend
        obtain ⟨a1, a2, _⟩ := L.pairs _ hm
        rcases hc with rfl | rfl
        · exact Or.inr (Or.inl (by rw [k, a1]; exact hm))
        · exact Or.inr (Or.inr (by rw [k, a2]; exact hm))
      · have : m'.β 3 a = m.β 3 a := L.rest a fun pq hm =>
          ⟨fun hh => hend ⟨pq, hm, Or.inl hh⟩, fun hh => hend ⟨pq, hm, Or.inr hh⟩⟩
        exact Or.inl ⟨ha0, ha, hb0, Or.inr (by rw [k, this])⟩
  · rintro (⟨ha0, ha, hb0, k | k⟩ | hm | hm)
    · exact ⟨ha0, ha, hb0, Or.inl k⟩
    · refine ⟨ha0, ha, hb0, Or.inr ?_⟩
      have : m'.β 3 a = m.β 3 a := L.rest a fun pq hm => by
        obtain ⟨_, _, a3, a4, _⟩ := L.pairs pq hm
        exact ⟨fun hh => hb0 (by rw [k, hh, a3]), fun hh => hb0 (by rw [k, hh, a4])⟩
      rw [this]; exact k
    · obtain ⟨a1, _, _, _, a5, a6, a7, _⟩ := L.pairs _ hm
      exact ⟨a5, a7, a6, Or.inr a1.symm⟩
    · obtain ⟨_, a2, _, _, a5, a6, _, a8⟩ := L.pairs _ hm
      exact ⟨a6, a8, a5, Or.inr a2.symm⟩

/-- … hence the new cells are the old ones with the cells of each pair united -/
theorem cells_linked3 {base : Map X → Nat → List Nat} {m m' : Map X} {ps : List (Nat × Nat)}
    (hbase : ∀ x, base m' x = base m x) (L : Linked3 m m' ps) (d e : Nat) :
    SameCell (gB3 base m') m.n d e ↔ Glue (SameCell (gB3 base m) m.n) ps d e := by
  refine sameCell_glue (N := fun a b => (a, b) ∈ ps) (gstep_linked3 hbase L) (fun a b k => ?_) (fun pq hm => ?_) d e
  · exact ⟨(a, b), k, Or.inl ⟨.refl _, .refl _⟩⟩
  · exact .step ((gstep_linked3 hbase L _ _).2 (Or.inr (Or.inl hm)))

/-- pairs that all join the same two cells glue like one pair -/
theorem glue_same_cells {R : Nat → Nat → Prop} (hR : Equivalence R) {ps : List (Nat × Nat)} {p q : Nat}
    (hall : ∀ pq, pq ∈ ps → R pq.1 p ∧ R pq.2 q) (hne : ∃ pq, pq ∈ ps) (d e : Nat) :
    Glue R ps d e ↔ Glue R [(p, q)] d e := by
  constructor
  · intro h
    induction h with
    | base h => exact .base h
    | pair hm =>
        obtain ⟨k1, k2⟩ := hall _ hm
        exact .trans (.base k1) (.trans (.pair (by simp)) (.base (hR.symm k2)))
    | symm _ ih => exact .symm ih
    | trans _ _ ih1 ih2 => exact .trans ih1 ih2
  · intro h
    induction h with
    | base h => exact .base h
    | @pair p' q' hm =>
        have : p' = p ∧ q' = q := by simpa using hm
        obtain ⟨rfl, rfl⟩ := this
        obtain ⟨pq, hmem⟩ := hne
        obtain ⟨k1, k2⟩ := hall _ hmem
        exact .trans (.base (hR.symm k1)) (.trans (.pair hmem) (.base k2))
    | symm _ ih => exact .symm ih
    | trans _ _ ih1 ih2 => exact .trans ih1 ih2

/-! ## closed faces: the β-cycle, its BFS walk, its smallest dart -/

/-- the two images of the face walks of `three_sew` (`Custom(&[i, j])`) -/
def gIJ (m : Map X) (i j x : Nat) : List Nat := [m.β i x, m.β j x]

theorem run_gen3_custom2 {m : Map X} (h : WF 4 m) {i j x : Nat} (hi : i < 4) (hj : j < 4) (hx : x < m.n) :
    run (gen3 (X := X) (.custom [i, j]) x) m = (.ok (gIJ m i j x), m) := by
  unfold gen3 gen3.go gen3.go gen3.go
  simp only [hi, hj, if_true, Prog.bind_eq, run_rB, h.okβ4 hi hx, h.okβ4 hj hx, Prog.pure_eq, run_ret,
    List.nil_append, List.cons_append, gIJ]

/-- the `β i`-cycle through `d` is closed, with `L` darts -/
structure Cyc (m : Map X) (i d L : Nat) : Prop where
  pos : 0 < L
  per : it m i L d = d
  nz : ∀ t, it m i t d ≠ 0

theorem Cyc.mod {m : Map X} {i d L : Nat} (c : Cyc m i d L) : ∀ t, ∃ s, s < L ∧ it m i t d = it m i s d := by
  intro t
  induction t using Nat.strongRecOn with
  | _ t ih =>
      by_cases ht : t < L
      · exact ⟨t, ht, rfl⟩
      · obtain ⟨s, hs, he⟩ := ih (t - L) (by have := c.pos; omega)
        refine ⟨s, hs, ?_⟩
        rw [show t = L + (t - L) by omega, it_add, c.per, he]

/-- membership in the cycle is invariant under the face steps of a 3-free cycle -/
theorem cyc_step {m : Map X} (h : WF 4 m) {i j d L : Nat} (dir : Dir i j) (hd : d < m.n) (c : Cyc m i d L)
    (hfree : ∀ t, m.β 3 (it m i t d) = 0) {a b : Nat} (ha0 : a ≠ 0) (ha : a < m.n) (hb0 : b ≠ 0)
    (hb : b = m.β i a ∨ b = m.β j a ∨ b = m.β 3 a) :
    (∃ t, a = it m i t d) ↔ (∃ t, b = it m i t d) := by
  have hi4 : i < 4 := by have := dir.ilt; omega
  have hj4 : j < 4 := by have := dir.jlt; omega
  have hbn : b < m.n := by
    rcases hb with rfl | rfl | rfl
    · exact h.range i hi4 a ha
    · exact h.range j hj4 a ha
    · exact h.range 3 (by omega) a ha
  -- the predecessor of a dart of the cycle is on the cycle
  have pred : ∀ t, ∃ s, m.β j (it m i t d) = it m i s d := by
    intro t
    cases t with
    | zero =>
        -- β j d = p_{L-1}
        refine ⟨L - 1, ?_⟩
        have e : it m i (L - 1 + 1) d = d := by rw [show L - 1 + 1 = L by have := c.pos; omega]; exact c.per
        rw [it_succ'] at e
        have := h.inv_ij dir (it_lt h hi4 (L - 1) d hd) (by rw [e]; exact c.nz 0)
        rw [e] at this
        exact this
    | succ t =>
        refine ⟨t, ?_⟩
        rw [it_succ']
        exact h.inv_ij dir (it_lt h hi4 t d hd) (by rw [← it_succ']; exact c.nz _)
  constructor
  · rintro ⟨t, rfl⟩
    rcases hb with rfl | rfl | rfl
    · exact ⟨t + 1, (it_succ' m i t d).symm⟩
    · exact pred t
    · exact absurd (hfree t) hb0
  · rintro ⟨t, rfl⟩
    rcases hb with hb | hb | hb
    · -- a = β j b
      have := h.inv_ij dir ha (by rw [← hb]; exact hb0)
      rw [← hb] at this
      rw [← this]; exact pred t
    · have := h.inv_ij dir.symm ha (by rw [← hb]; exact hb0)
      rw [← hb] at this
      exact ⟨t + 1, by rw [it_succ', this]⟩
    · exfalso
      have := invol_back h (i := 3) (by omega) (by omega) ha (by rw [← hb]; exact hb0)
      rw [← hb, hfree t] at this
      exact ha0 this.symm

theorem gstep3f_iff (m : Map X) (a b : Nat) :
    GStep (g3f m) m.n a b ↔ a ≠ 0 ∧ a < m.n ∧ b ≠ 0 ∧ (b = m.β 1 a ∨ b = m.β 0 a ∨ b = m.β 3 a) := by
  unfold GStep g3f
  simp only [List.mem_cons, List.not_mem_nil, or_false]

/-- **the face cell of a dart of a closed 3-free cycle is the cycle** -/
theorem face_cell_cycle {m : Map X} (h : WF 4 m) {i j d L : Nat} (dir : Dir i j) (hd : d < m.n)
    (c : Cyc m i d L) (hfree : ∀ t, m.β 3 (it m i t d) = 0) (e : Nat) :
    SameCell (g3f m) m.n d e ↔ ∃ t, e = it m i t d := by
  have hi4 : i < 4 := by have := dir.ilt; omega
  have perm : ∀ a b, (b = m.β 1 a ∨ b = m.β 0 a ∨ b = m.β 3 a) → (b = m.β i a ∨ b = m.β j a ∨ b = m.β 3 a) := by
    intro a b hb
    rcases dir with ⟨rfl, rfl⟩ | ⟨rfl, rfl⟩
    · exact hb
    · rcases hb with k | k | k
      · exact Or.inr (Or.inl k)
      · exact Or.inl k
      · exact Or.inr (Or.inr k)
  constructor
  · intro hs
    have inv : ∀ a b, SameCell (g3f m) m.n a b → ((∃ t, a = it m i t d) ↔ (∃ t, b = it m i t d)) := by
      intro a b hab
      induction hab with
      | refl a => exact Iff.rfl
      | step hs =>
          obtain ⟨ha0, ha, hb0, hb⟩ := (gstep3f_iff m _ _).1 hs
          exact cyc_step h dir hd c hfree ha0 ha hb0 (perm _ _ hb)
      | symm _ ih => exact ih.symm
      | trans _ _ ih1 ih2 => exact ih1.trans ih2
    exact (inv d e hs).1 ⟨0, rfl⟩
  · rintro ⟨t, rfl⟩
    induction t with
    | zero => exact .refl _
    | succ t ih =>
        refine .trans ih (.step ((gstep3f_iff m _ _).2 ⟨c.nz t, it_lt h hi4 t d hd, c.nz (t + 1), ?_⟩))
        rw [it_succ']
        rcases dir with ⟨rfl, rfl⟩ | ⟨rfl, rfl⟩
        · exact Or.inl rfl
        · exact Or.inr (Or.inl rfl)

theorem gIJ_range {m : Map X} (h : WF 4 m) {i j : Nat} (hi : i < 4) (hj : j < 4) :
    ∀ a, a < m.n → ∀ y, y ∈ gIJ m i j a → y < m.n := by
  intro a ha y hy
  simp only [gIJ, List.mem_cons, List.not_mem_nil, or_false] at hy
  rcases hy with rfl | rfl
  · exact h.range i hi a ha
  · exact h.range j hj a ha

theorem gIJ_null {m : Map X} (h : WF 4 m) {i j : Nat} (hi : i < 4) (hj : j < 4) :
    ∀ y, y ∈ gIJ m i j 0 → y = 0 := by
  intro y hy
  simp only [gIJ, List.mem_cons, List.not_mem_nil, or_false, h.null i hi, h.null j hj, or_self] at hy
  exact hy

/-- the face walk of `three_sew` from a dart of a closed cycle: it succeeds and lists the cycle -/
theorem face_orbit_cycle {m : Map X} (h : WF 4 m) {i j d L : Nat} (dir : Dir i j) (hd0 : d ≠ 0) (hd : d < m.n)
    (c : Cyc m i d L) :
    run (orbitWith m.n (gen3 (X := X) (.custom [i, j])) d) m =
      (.ok (bfsPure (gIJ m i j) (m.n + 1) [d] [0, d] []), m) ∧
    ∀ x, x ∈ bfsPure (gIJ m i j) (m.n + 1) [d] [0, d] [] ↔ ∃ t, x = it m i t d := by
  have hi4 : i < 4 := by have := dir.ilt; omega
  have hj4 : j < 4 := by have := dir.jlt; omega
  refine ⟨run_orbitWith (fun x hx => run_gen3_custom2 h hi4 hj4 hx) (gIJ_range h hi4 hj4) hd0 hd, ?_⟩
  obtain ⟨_, _, _, hmem, _⟩ := bfsPure_spec (gIJ_null h hi4 hj4) (gIJ_range h hi4 hj4) hd0 hd
  intro x
  rw [hmem]
  constructor
  · rintro ⟨hx0, hr⟩
    -- every reachable dart is on the cycle (the β3-free argument with β3 replaced by nothing)
    have : ∀ y, Reach (gIJ m i j) d y → y ≠ 0 → ∃ t, y = it m i t d := by
      intro y hy
      induction hy with
      | refl => intro _; exact ⟨0, rfl⟩
      | tail hab hc ih =>
          rename_i b cc
          intro hc0
          have hb0 : b ≠ 0 := Reach.pred_ne_zero (gIJ_null h hi4 hj4) hc hc0
          obtain ⟨t, rfl⟩ := ih hb0
          simp only [gIJ, List.mem_cons, List.not_mem_nil, or_false] at hc
          rcases hc with rfl | rfl
          · exact ⟨t + 1, (it_succ' m i t d).symm⟩
          · cases t with
            | zero =>
                refine ⟨L - 1, ?_⟩
                have e : it m i (L - 1 + 1) d = d := by
                  rw [show L - 1 + 1 = L by have := c.pos; omega]; exact c.per
                rw [it_succ'] at e
                have := h.inv_ij dir (it_lt h hi4 (L - 1) d hd) (by rw [e]; exact c.nz 0)
                rw [e] at this
                exact this
            | succ t =>
                refine ⟨t, ?_⟩
                rw [it_succ']
                exact h.inv_ij dir (it_lt h hi4 t d hd) (by rw [← it_succ']; exact c.nz _)
    exact this x hr hx0
  · rintro ⟨t, rfl⟩
    refine ⟨c.nz t, ?_⟩
    induction t with
    | zero => exact .refl _
    | succ t ih =>
        rw [it_succ']
        exact .tail ih (by simp [gIJ])

/-- `v` is the smallest dart of the face cell of `d` -/
def IsFid3 (m : Map X) (d v : Nat) : Prop := IsMinOf (SameCell (g3f m) m.n) d v

/-- the face identifier `three_sew` computes (minimum of its face walk) is the smallest dart of the
    face cell, on a closed 3-free face -/
theorem face_min_cycle {m : Map X} (h : WF 4 m) {i j d L : Nat} (dir : Dir i j) (hd0 : d ≠ 0) (hd : d < m.n)
    (c : Cyc m i d L) (hfree : ∀ t, m.β 3 (it m i t d) = 0) :
    IsFid3 m d (listMin (bfsPure (gIJ m i j) (m.n + 1) [d] [0, d] []) d) := by
  obtain ⟨_, hmem⟩ := face_orbit_cycle (X := X) h dir hd0 hd c
  have hdm : d ∈ bfsPure (gIJ m i j) (m.n + 1) [d] [0, d] [] := (hmem d).2 ⟨0, rfl⟩
  obtain ⟨k1, k2⟩ := listMin_spec hdm
  constructor
  · exact (face_cell_cycle h dir hd c hfree _).2 ((hmem _).1 k1)
  · intro e he _
    exact k2 e ((hmem e).2 ((face_cell_cycle h dir hd c hfree e).1 he))


/-! ## what 3-linking a list of pairs does to the vertex cells -/

/-- `x` and `y` are the two darts of a linked pair, in either order -/
def PairOf (ps : List (Nat × Nat)) (x y : Nat) : Prop := (x, y) ∈ ps ∨ (y, x) ∈ ps

theorem PairOf.symm {ps : List (Nat × Nat)} {x y : Nat} (h : PairOf ps x y) : PairOf ps y x := Or.symm h

theorem Linked3.of_pair {m m' : Map X} {ps : List (Nat × Nat)} (L : Linked3 m m' ps) {x y : Nat}
    (h : PairOf ps x y) : m'.β 3 x = y ∧ m.β 3 x = 0 ∧ x ≠ 0 ∧ y ≠ 0 ∧ x < m.n ∧ y < m.n := by
  rcases h with h | h
  · obtain ⟨a1, a2, a3, a4, a5, a6, a7, a8⟩ := L.pairs _ h
    exact ⟨a1, a3, a5, a6, a7, a8⟩
  · obtain ⟨a1, a2, a3, a4, a5, a6, a7, a8⟩ := L.pairs _ h
    exact ⟨a2, a4, a6, a5, a8, a7⟩

/-- new directed vertex steps: from the β2 image of a linked dart to its partner, and from a linked
    dart to the successor of its partner -/
def NV (m : Map X) (ps : List (Nat × Nat)) (a b : Nat) : Prop :=
  ∃ x y, PairOf ps x y ∧ ((m.β 2 a = x ∧ b = y) ∨ (a = x ∧ b = m.β 1 y ∧ b ≠ 0))

theorem gstep3_linked3 {m m' : Map X} (h : WF 4 m) (h' : WF 4 m') {ps : List (Nat × Nat)}
    (L : Linked3 m m' ps) (a b : Nat) :
    GStep (g3v m') m.n a b ↔ (GStep (g3v m) m.n a b ∨ NV m ps a b ∨ NV m ps b a) := by
  have e1 : ∀ x, m'.β 1 x = m.β 1 x := fun x => L.other 1 x (by omega)
  have e2 : ∀ x, m'.β 2 x = m.β 2 x := fun x => L.other 2 x (by omega)
  have endp : ∀ c, (∃ y, PairOf ps c y) ∨ m'.β 3 c = m.β 3 c := by
    intro c
    by_cases hend : ∃ pq, pq ∈ ps ∧ (c = pq.1 ∨ c = pq.2)
    · obtain ⟨⟨p, q⟩, hm, hc⟩ := hend
      rcases hc with rfl | rfl
      · exact Or.inl ⟨q, Or.inl hm⟩
      · exact Or.inl ⟨p, Or.inr hm⟩
    · exact Or.inr (L.rest c fun pq hm => ⟨fun hh => hend ⟨pq, hm, Or.inl hh⟩, fun hh => hend ⟨pq, hm, Or.inr hh⟩⟩)
  have hF : ∀ a b, b ≠ 0 → (F m' a b ↔ (F m a b ∨ NV m ps a b)) := by
    intro a b hb0
    unfold F NV
    simp only [e1, e2]
    constructor
    · rintro (k | k | k)
      · rcases endp (m.β 2 a) with ⟨y, hp⟩ | he
        · exact Or.inr ⟨_, y, hp, Or.inl ⟨rfl, by rw [k, (L.of_pair hp).1]⟩⟩
        · exact Or.inl (Or.inl (by rw [k, he]))
      · rcases endp a with ⟨y, hp⟩ | he
        · exact Or.inr ⟨a, y, hp, Or.inr ⟨rfl, by rw [k, (L.of_pair hp).1], hb0⟩⟩
        · exact Or.inl (Or.inr (Or.inl (by rw [k, he])))
      · exact Or.inl (Or.inr (Or.inr k))
    · rintro ((k | k | k) | ⟨x, y, hp, ⟨k1, k2⟩ | ⟨k1, k2, _⟩⟩)
      · rcases endp (m.β 2 a) with ⟨y, hp⟩ | he
        · exact absurd (by rw [k, (L.of_pair hp).2.1]) hb0
        · exact Or.inl (by rw [he]; exact k)
      · rcases endp a with ⟨y, hp⟩ | he
        · exact absurd (by rw [k, (L.of_pair hp).2.1]; exact h.null 1 (by omega)) hb0
        · exact Or.inr (Or.inl (by rw [he]; exact k))
      · exact Or.inr (Or.inr k)
      · exact Or.inl (by rw [k1, (L.of_pair hp).1]; exact k2)
      · exact Or.inr (Or.inl (by rw [k1, (L.of_pair hp).1]; exact k2))
  have g1 := gstep3_iff h' a b
  rw [L.n] at g1
  rw [g1, gstep3_iff h a b]
  constructor
  · rintro ⟨ha0, ha, hb0, hb, k | k⟩
    · rcases (hF a b hb0).1 k with k | k
      · exact Or.inl ⟨ha0, ha, hb0, hb, Or.inl k⟩
      · exact Or.inr (Or.inl k)
    · rcases (hF b a ha0).1 k with k | k
      · exact Or.inl ⟨ha0, ha, hb0, hb, Or.inr k⟩
      · exact Or.inr (Or.inr k)
  · have inr : ∀ a b, NV m ps a b → a ≠ 0 → a < m.n → b ≠ 0 ∧ b < m.n := by
      rintro a b ⟨x, y, hp, ⟨_, k2⟩ | ⟨_, k2, k3⟩⟩ _ _
      · obtain ⟨_, _, _, y0, _, yn⟩ := L.of_pair hp
        rw [k2]; exact ⟨y0, yn⟩
      · obtain ⟨_, _, _, _, _, yn⟩ := L.of_pair hp
        exact ⟨k3, by rw [k2]; exact h.range 1 (by omega) y yn⟩
    have inl : ∀ a b, NV m ps a b → b ≠ 0 → a ≠ 0 ∧ a < m.n := by
      rintro a b ⟨x, y, hp, ⟨k1, _⟩ | ⟨k1, _, _⟩⟩ _
      · obtain ⟨_, _, x0, _, xn, _⟩ := L.of_pair hp
        have ha0 : a ≠ 0 := fun hh => x0 (by rw [← k1, hh]; exact h.null 2 (by omega))
        refine ⟨ha0, ?_⟩
        by_cases han : a < m.n
        · exact han
        · exfalso; apply x0; rw [← k1]; unfold Map.β; rw [rd_oob]; rfl; rw [h.row 2 (by omega)]; omega
      · obtain ⟨_, _, x0, _, xn, _⟩ := L.of_pair hp
        rw [k1]; exact ⟨x0, xn⟩
    rintro (⟨ha0, ha, hb0, hb, k | k⟩ | k | k)
    · exact ⟨ha0, ha, hb0, hb, Or.inl ((hF a b hb0).2 (Or.inl k))⟩
    · exact ⟨ha0, ha, hb0, hb, Or.inr ((hF b a ha0).2 (Or.inl k))⟩
    · have hb0 : b ≠ 0 := by
        obtain ⟨x, y, hp, ⟨_, k2⟩ | ⟨_, _, k3⟩⟩ := k
        · rw [k2]; exact (L.of_pair hp).2.2.2.1
        · exact k3
      obtain ⟨ha0, ha⟩ := inl a b k hb0
      obtain ⟨_, hb⟩ := inr a b k ha0 ha
      exact ⟨ha0, ha, hb0, hb, Or.inl ((hF a b hb0).2 (Or.inr k))⟩
    · have ha0 : a ≠ 0 := by
        obtain ⟨x, y, hp, ⟨_, k2⟩ | ⟨_, _, k3⟩⟩ := k
        · rw [k2]; exact (L.of_pair hp).2.2.2.1
        · exact k3
      obtain ⟨hb0, hb⟩ := inl b a k ha0
      obtain ⟨_, ha⟩ := inr b a k hb0 hb
      exact ⟨ha0, ha, hb0, hb, Or.inr ((hF b a ha0).2 (Or.inr k))⟩

/-- the β2 image and the β1 image of a dart start at the same vertex (the head of the dart) -/
theorem head21_same {m : Map X} (h : WF 4 m) {x : Nat} (hx : x < m.n) (h2 : m.β 2 x ≠ 0) (h1 : m.β 1 x ≠ 0) :
    SameCell (g3v m) m.n (m.β 2 x) (m.β 1 x) := by
  refine .step ((gstep3_iff h _ _).2 ⟨h2, h.range 2 (by omega) x hx, h1, h.range 1 (by omega) x hx,
    Or.inl (Or.inr (Or.inr ?_))⟩)
  rw [invol_back h (by omega) (by omega) hx h2]

/-- the vertex pairs united by 3-linking `ps`, when every linked dart has a successor: the head of
    each linked dart with its partner -/
def pairsV3 (m : Map X) (ps : List (Nat × Nat)) : List (Nat × Nat) :=
  ps.map (fun pq => (m.β 1 pq.1, pq.2)) ++ ps.map (fun pq => (pq.1, m.β 1 pq.2))

/-- **vertex cells after 3-linking the pairs of `ps`** (every linked dart has a successor) -/
theorem vertex_cells_linked3 {m m' : Map X} (h : WF 4 m) (h' : WF 4 m') {ps : List (Nat × Nat)}
    (L : Linked3 m m' ps) (hsucc : ∀ pq, pq ∈ ps → m.β 1 pq.1 ≠ 0 ∧ m.β 1 pq.2 ≠ 0) (d e : Nat) :
    SameCell (g3v m') m.n d e ↔ Glue (SameCell (g3v m) m.n) (pairsV3 m ps) d e := by
  have hstep := gstep3_linked3 h h' L
  have succ' : ∀ x y, PairOf ps x y → m.β 1 x ≠ 0 ∧ m.β 1 y ≠ 0 := by
    rintro x y (hp | hp)
    · exact hsucc _ hp
    · exact (hsucc _ hp).symm
  have memA : ∀ x y, PairOf ps x y → (m.β 1 x, y) ∈ pairsV3 m ps ∨ (y, m.β 1 x) ∈ pairsV3 m ps := by
    rintro x y (hp | hp)
    · exact Or.inl (List.mem_append_left _ (List.mem_map.2 ⟨(x, y), hp, rfl⟩))
    · exact Or.inr (List.mem_append_right _ (List.mem_map.2 ⟨(y, x), hp, rfl⟩))
  refine sameCell_glue (N := NV m ps) hstep (fun a b k => ?_) (fun pq hm => ?_) d e
  · obtain ⟨x, y, hp, ⟨k1, k2⟩ | ⟨k1, k2, _⟩⟩ := k
    · -- a = β2 x, in the old cell of β1 x; b = y
      obtain ⟨_, _, x0, _, xn, _⟩ := L.of_pair hp
      have ha : a = m.β 2 x := by
        have hbn : m.β 2 a ≠ 0 := by rw [k1]; exact x0
        have han : a < m.n := by
          by_cases han : a < m.n
          · exact han
          · exfalso; apply hbn; unfold Map.β; rw [rd_oob]; rfl; rw [h.row 2 (by omega)]; omega
        have := invol_back h (i := 2) (by omega) (by omega) han hbn
        rw [k1] at this; exact this.symm
      have ha0 : m.β 2 x ≠ 0 := by
        rw [← ha]; intro hh; exact x0 (by rw [← k1, hh]; exact h.null 2 (by omega))
      have hs : SameCell (g3v m) m.n a (m.β 1 x) := by rw [ha]; exact head21_same h xn ha0 (succ' x y hp).1
      rcases memA x y hp with hm | hm
      · exact ⟨_, hm, Or.inl ⟨hs, by rw [k2]; exact .refl _⟩⟩
      · exact ⟨_, hm, Or.inr ⟨hs, by rw [k2]; exact .refl _⟩⟩
    · -- a = x, b = β1 y: the pair (β1 y, x) of the partner
      rcases memA y x hp.symm with hm | hm
      · exact ⟨_, hm, Or.inr ⟨by rw [k1]; exact .refl _, by rw [k2]; exact .refl _⟩⟩
      · exact ⟨_, hm, Or.inl ⟨by rw [k1]; exact .refl _, by rw [k2]; exact .refl _⟩⟩
  · unfold pairsV3 at hm
    rcases List.mem_append.1 hm with hm | hm
    · obtain ⟨⟨x, y⟩, hp, rfl⟩ := List.mem_map.1 hm
      -- (β1 x, y): the step from the partner `y` to `β1 x`
      refine .symm (.step ((hstep _ _).2 (Or.inr (Or.inl ⟨y, x, Or.inr hp, Or.inr ⟨rfl, rfl, (hsucc _ hp).1⟩⟩))))
    · obtain ⟨⟨x, y⟩, hp, rfl⟩ := List.mem_map.1 hm
      exact .step ((hstep _ _).2 (Or.inr (Or.inl ⟨x, y, Or.inl hp, Or.inr ⟨rfl, rfl, (hsucc _ hp).2⟩⟩)))


/-! ## two BFS walks in lock-step -/

/-- element-wise related lists -/
inductive Rel2 (Φ : Nat → Nat → Prop) : List Nat → List Nat → Prop where
  | nil : Rel2 Φ [] []
  | cons {a b : Nat} {l l' : List Nat} : Φ a b → Rel2 Φ l l' → Rel2 Φ (a :: l) (b :: l')

theorem Rel2.append {Φ : Nat → Nat → Prop} {l1 l1' l2 l2' : List Nat} (h1 : Rel2 Φ l1 l1') (h2 : Rel2 Φ l2 l2') :
    Rel2 Φ (l1 ++ l2) (l1' ++ l2') := by
  induction h1 with
  | nil => exact h2
  | cons h _ ih => exact .cons h ih

theorem Rel2.zip_mem {Φ : Nat → Nat → Prop} {l l' : List Nat} (h : Rel2 Φ l l') :
    (∀ pq, pq ∈ l.zip l' → Φ pq.1 pq.2) ∧ (∀ a, a ∈ l → ∃ b, (a, b) ∈ l.zip l') := by
  induction h with
  | nil => exact ⟨fun pq h => absurd h (by simp), fun a h => absurd h (by simp)⟩
  | @cons a b l l' hab _ ih =>
      constructor
      · intro pq hm
        simp only [List.zip_cons_cons, List.mem_cons] at hm
        rcases hm with rfl | hm
        · exact hab
        · exact ih.1 pq hm
      · intro x hx
        rcases List.mem_cons.1 hx with rfl | hx
        · exact ⟨b, by simp⟩
        · obtain ⟨y, hy⟩ := ih.2 x hx
          exact ⟨y, by simp [hy]⟩

/-- `Φ` relates equal darts to equal darts, both ways -/
def BiUnique (Φ : Nat → Nat → Prop) : Prop := ∀ x y x' y', Φ x y → Φ x' y' → (x = x' ↔ y = y')

theorem Rel2.contains {Φ : Nat → Nat → Prop} (hb : BiUnique Φ) {l l' : List Nat} (h : Rel2 Φ l l') {x y : Nat}
    (hxy : Φ x y) : l.contains x = l'.contains y := by
  induction h with
  | nil => rfl
  | @cons a b l l' hab _ ih =>
      have e := hb x y a b hxy hab
      simp only [List.contains_cons, ih]
      by_cases c : x = a
      · have c' : y = b := e.1 c
        simp [c, c']
      · have c' : ¬ y = b := fun hh => c (e.2 hh)
        have b1 : (x == a) = false := by simp [c]
        have b2 : (y == b) = false := by simp [c']
        rw [b1, b2]

theorem Rel2.fold {Φ : Nat → Nat → Prop} (hb : BiUnique Φ) {ims ims' : List Nat} (hi : Rel2 Φ ims ims') :
    ∀ {p p' mk mk' : List Nat}, Rel2 Φ p p' → Rel2 Φ mk mk' →
      Rel2 Φ (ims.foldl bfsCheck (p, mk)).1 (ims'.foldl bfsCheck (p', mk')).1 ∧
      Rel2 Φ (ims.foldl bfsCheck (p, mk)).2 (ims'.foldl bfsCheck (p', mk')).2 := by
  induction hi with
  | nil => intro p p' mk mk' hp hm; exact ⟨hp, hm⟩
  | @cons a b l l' hab _ ih =>
      intro p p' mk mk' hp hm
      simp only [List.foldl_cons]
      have hc := hm.contains hb hab
      unfold bfsCheck
      simp only
      by_cases c : mk.contains a = true
      · rw [if_pos c, if_pos (by rw [← hc]; exact c)]
        exact ih hp hm
      · rw [if_neg c, if_neg (by rw [← hc]; exact c)]
        exact ih (hp.append (.cons hab .nil)) (hm.append (.cons hab .nil))

/-- two BFS runs over related generators from related states stay related -/
theorem bfsPure_lockstep {Φ : Nat → Nat → Prop} (hb : BiUnique Φ) {g g' : Nat → List Nat}
    (hstep : ∀ x y, Φ x y → Rel2 Φ (g x) (g' y)) :
    ∀ (fuel : Nat) (p p' mk mk' out out' : List Nat), Rel2 Φ p p' → Rel2 Φ mk mk' → Rel2 Φ out out' →
      Rel2 Φ (bfsPure g fuel p mk out) (bfsPure g' fuel p' mk' out') := by
  intro fuel
  induction fuel with
  | zero => intro p p' mk mk' out out' _ _ ho; exact ho
  | succ f ih =>
      intro p p' mk mk' out out' hp hm ho
      cases hp with
      | nil => exact ho
      | @cons a b l l' hab hl =>
          unfold bfsPure
          obtain ⟨k1, k2⟩ := (Rel2.fold hb (hstep a b hab)) hl hm
          exact ih _ _ _ _ _ _ k1 k2 (ho.append (.cons hab .nil))

/-! ## the two face walks of `three_sew` on closed faces of equal length -/

theorem it_inj {m : Map X} (h : WF 4 m) {i j : Nat} (dir : Dir i j) : ∀ (t x y : Nat), x < m.n → y < m.n →
    it m i t x = it m i t y → it m i t x ≠ 0 → x = y := by
  have hi4 : i < 4 := by have := dir.ilt; omega
  intro t
  induction t with
  | zero => intro x y _ _ he _; exact he
  | succ t ih =>
      intro x y hx hy he hne
      rw [it_succ', it_succ'] at he
      rw [it_succ'] at hne
      have hx0 : it m i t x ≠ 0 := fun hh => hne (by rw [hh]; exact h.null i hi4)
      have e1 := h.inv_ij dir (it_lt h hi4 t x hx) hne
      have hne' : m.β i (it m i t y) ≠ 0 := by rw [← he]; exact hne
      have e2 := h.inv_ij dir (it_lt h hi4 t y hy) hne'
      rw [he, e2] at e1
      exact ih x y hx hy e1.symm hx0

theorem Cyc.it_mod {m : Map X} {i d L : Nat} (c : Cyc m i d L) : ∀ t, it m i t d = it m i (t % L) d := by
  intro t
  induction t using Nat.strongRecOn with
  | _ t ih =>
      by_cases ht : t < L
      · rw [Nat.mod_eq_of_lt ht]
      · have hle : L ≤ t := by omega
        have := ih (t - L) (by have := c.pos; omega)
        rw [show t = L + (t - L) by omega, it_add, c.per, this, Nat.add_mod_left]

/-- distinct positions of one period are distinct darts -/
theorem Cyc.inj {m : Map X} (h : WF 4 m) {i j d L : Nat} (dir : Dir i j) (hd : d < m.n) (c : Cyc m i d L)
    (hmin : ∀ t, 0 < t → t < L → it m i t d ≠ d) {s t : Nat} (hs : s < L) (ht : t < L)
    (he : it m i s d = it m i t d) : s = t := by
  have hi4 : i < 4 := by have := dir.ilt; omega
  have key : ∀ s t, s < t → t < L → it m i s d = it m i t d → False := by
    intro s t hst ht he
    have e : it m i t d = it m i s (it m i (t - s) d) := by
      rw [← it_add]; congr 1; omega
    rw [e] at he
    have := it_inj h dir s d (it m i (t - s) d) hd (it_lt h hi4 _ d hd) he (c.nz s)
    exact hmin (t - s) (by omega) (by omega) this.symm
  rcases Nat.lt_trichotomy s t with hlt | heq | hgt
  · exact absurd he (fun he => key s t hlt ht he)
  · exact heq
  · exact absurd he.symm (fun he => key t s hgt hs he)

/-- the relation between the two face walks: null with null, `β1^t ld` with `β0^t rd` -/
def FacePhi (m : Map X) (ld rd x y : Nat) : Prop :=
  (x = 0 ∧ y = 0) ∨ ∃ t, x = it m 1 t ld ∧ y = it m 0 t rd

/-- **the zipped face walks of `three_sew` are exactly the pairs `three_link` links** (closed faces
    with the same number `L` of darts) -/
theorem zip_face_walks {m : Map X} (h : WF 4 m) {ld rd L : Nat} (hl0 : ld ≠ 0) (hr0 : rd ≠ 0)
    (hln : ld < m.n) (hrn : rd < m.n) (cl : Cyc m 1 ld L) (cr : Cyc m 0 rd L)
    (hminl : ∀ t, 0 < t → t < L → it m 1 t ld ≠ ld) (hminr : ∀ t, 0 < t → t < L → it m 0 t rd ≠ rd)
    (pq : Nat × Nat) :
    pq ∈ (bfsPure (gIJ m 1 0) (m.n + 1) [ld] [0, ld] []).zip (bfsPure (gIJ m 0 1) (m.n + 1) [rd] [0, rd] []) ↔
      pq ∈ walkPairs m 1 0 L ld rd := by
  have d10 : Dir 1 0 := Or.inl ⟨rfl, rfl⟩
  have d01 : Dir 0 1 := Or.inr ⟨rfl, rfl⟩
  have hb : BiUnique (FacePhi m ld rd) := by
    rintro x y x' y' (⟨rfl, rfl⟩ | ⟨t, rfl, rfl⟩) (⟨rfl, rfl⟩ | ⟨t', rfl, rfl⟩)
    · exact ⟨fun _ => rfl, fun _ => rfl⟩
    · exact ⟨fun hh => absurd hh.symm (cl.nz t'), fun hh => absurd hh.symm (cr.nz t')⟩
    · exact ⟨fun hh => absurd hh (cl.nz t), fun hh => absurd hh (cr.nz t)⟩
    · rw [cl.it_mod t, cl.it_mod t', cr.it_mod t, cr.it_mod t']
      have a := Nat.mod_lt t cl.pos
      have b := Nat.mod_lt t' cl.pos
      constructor
      · intro hh; rw [cl.inj h d10 hln hminl a b hh]
      · intro hh; rw [cr.inj h d01 hrn hminr a b hh]
  have n0 := h.null 0 (by omega)
  have n1 := h.null 1 (by omega)
  have hstep : ∀ x y, FacePhi m ld rd x y → Rel2 (FacePhi m ld rd) (gIJ m 1 0 x) (gIJ m 0 1 y) := by
    rintro x y (⟨rfl, rfl⟩ | ⟨t, rfl, rfl⟩)
    · unfold gIJ; rw [n0, n1]
      exact .cons (Or.inl ⟨rfl, rfl⟩) (.cons (Or.inl ⟨rfl, rfl⟩) .nil)
    · unfold gIJ
      refine .cons (Or.inr ⟨t + 1, (it_succ' m 1 t ld).symm, (it_succ' m 0 t rd).symm⟩) (.cons (Or.inr ⟨t + (L - 1), ?_, ?_⟩) .nil)
      · -- β0 p_t = p_{t+L-1}
        have e : it m 1 (t + (L - 1) + 1) ld = it m 1 t ld := by
          rw [show t + (L - 1) + 1 = L + t by have := cl.pos; omega, it_add, cl.per]
        rw [it_succ'] at e
        have := h.inv_ij d10 (it_lt h (i := 1) (by omega) (t + (L - 1)) ld hln) (by rw [e]; exact cl.nz t)
        rw [e] at this; exact this
      · have e : it m 0 (t + (L - 1) + 1) rd = it m 0 t rd := by
          rw [show t + (L - 1) + 1 = L + t by have := cl.pos; omega, it_add, cr.per]
        rw [it_succ'] at e
        have := h.inv_ij d01 (it_lt h (i := 0) (by omega) (t + (L - 1)) rd hrn) (by rw [e]; exact cr.nz t)
        rw [e] at this; exact this
  have phi0 : FacePhi m ld rd ld rd := Or.inr ⟨0, rfl, rfl⟩
  have R := bfsPure_lockstep hb hstep (m.n + 1) [ld] [rd] [0, ld] [0, rd] [] []
    (.cons phi0 .nil) (.cons (Or.inl ⟨rfl, rfl⟩) (.cons phi0 .nil)) .nil
  obtain ⟨z1, z2⟩ := R.zip_mem
  obtain ⟨_, hmem⟩ := face_orbit_cycle (X := X) h d10 hl0 hln cl
  obtain ⟨_, _, hno0, _, _⟩ := bfsPure_spec (gIJ_null h (i := 1) (j := 0) (by omega) (by omega))
    (gIJ_range h (i := 1) (j := 0) (by omega) (by omega)) hl0 hln
  constructor
  · intro hm
    have hphi := z1 pq hm
    have hx : pq.1 ∈ bfsPure (gIJ m 1 0) (m.n + 1) [ld] [0, ld] [] := (List.of_mem_zip hm).1
    rcases hphi with ⟨k1, _⟩ | ⟨t, k1, k2⟩
    · exact absurd (k1 ▸ hx) hno0
    · refine (mem_walkPairs L ld rd pq).2 ⟨t % L, Nat.mod_lt t cl.pos, ?_⟩
      rw [← cl.it_mod t, ← cr.it_mod t, ← k1, ← k2]
  · intro hm
    obtain ⟨t, ht, rfl⟩ := (mem_walkPairs L ld rd pq).1 hm
    obtain ⟨y, hy⟩ := z2 (it m 1 t ld) ((hmem _).2 ⟨t, rfl⟩)
    have hphi := z1 _ hy
    have : y = it m 0 t rd := ((hb _ _ _ _ hphi (Or.inr ⟨t, rfl, rfl⟩)).1 rfl)
    rw [← this]; exact hy


/-- on a closed cycle the inverse image is `L - 1` steps ahead -/
theorem Cyc.pred {m : Map X} (h : WF 4 m) {i j d L : Nat} (dir : Dir i j) (hd : d < m.n) (c : Cyc m i d L)
    (t : Nat) : m.β j (it m i t d) = it m i (t + (L - 1)) d := by
  have hi4 : i < 4 := by have := dir.ilt; omega
  have e : it m i (t + (L - 1) + 1) d = it m i t d := by
    rw [show t + (L - 1) + 1 = L + t by have := c.pos; omega, it_add, c.per]
  rw [it_succ'] at e
  have := h.inv_ij dir (it_lt h hi4 (t + (L - 1)) d hd) (by rw [e]; exact c.nz t)
  rw [e] at this; exact this

/-- the vertex pairs of a 3-link of two closed faces: the head of each left dart with its partner -/
def pairsA (m : Map X) (ps : List (Nat × Nat)) : List (Nat × Nat) := ps.map (fun pq => (m.β 1 pq.1, pq.2))

/-- on closed faces the pairs "left dart — head of its partner" are among the pairs "head of a
    left dart — its partner" (shifted by one position) -/
theorem pairsV3_closed {m : Map X} (h : WF 4 m) {ld rd L : Nat} (hln : ld < m.n) (hrn : rd < m.n)
    (cl : Cyc m 1 ld L) (cr : Cyc m 0 rd L) (x : Nat × Nat) :
    x ∈ pairsV3 m (walkPairs m 1 0 L ld rd) ↔ x ∈ pairsA m (walkPairs m 1 0 L ld rd) := by
  have d01 : Dir 0 1 := Or.inr ⟨rfl, rfl⟩
  unfold pairsV3 pairsA
  constructor
  · intro hm
    rcases List.mem_append.1 hm with hm | hm
    · exact hm
    · obtain ⟨pq, hp, rfl⟩ := List.mem_map.1 hm
      obtain ⟨t, ht, rfl⟩ := (mem_walkPairs L ld rd pq).1 hp
      -- (p_t, β1 q_t) = (β1 p_s, q_s), s = (t + L - 1) % L
      refine List.mem_map.2 ⟨(it m 1 ((t + (L - 1)) % L) ld, it m 0 ((t + (L - 1)) % L) rd),
        (mem_walkPairs L ld rd _).2 ⟨(t + (L - 1)) % L, Nat.mod_lt _ cl.pos, rfl⟩, ?_⟩
      simp only
      rw [← cl.it_mod, ← cr.it_mod, ← it_succ', cr.pred h d01 hrn t]
      congr 1
      rw [show t + (L - 1) + 1 = L + t by have := cl.pos; omega, it_add, cl.per]
  · intro hm; exact List.mem_append_left _ hm


/-! ## `three_link` links WHOLE faces (closed or open) -/

theorem periodic_nz {m : Map X} {i d L : Nat} (hnull : m.β i 0 = 0) (hL : 0 < L)
    (hp : it m i L d = d) (hd : d ≠ 0) : ∀ T, it m i T d ≠ 0 := by
  have hc : ∀ c, it m i (c * L) d = d := by
    intro c
    induction c with
    | zero => simp
    | succ c ih => rw [Nat.succ_mul, it_add, ih, hp]
  intro T hT
  have hle : T ≤ T * L := Nat.le_mul_of_pos_right T hL
  have : it m i (T + (T * L - T)) d = 0 := by rw [it_add, hT, it_null hnull]
  rw [show T + (T * L - T) = T * L by omega, hc] at this
  exact hd this

/-- the darts of `ps` are closed under the non-null β0 / β1 images, side by side -/
def Covered (m : Map X) (ps : List (Nat × Nat)) : Prop :=
  ∀ pq, pq ∈ ps → ∀ e, e < 2 →
    (m.β e pq.1 ≠ 0 → ∃ pq', pq' ∈ ps ∧ pq'.1 = m.β e pq.1) ∧
    (m.β e pq.2 ≠ 0 → ∃ pq', pq' ∈ ps ∧ pq'.2 = m.β e pq.2)

theorem covered_closed {m : Map X} (h : WF 4 m) {ld rd L : Nat} (hln : ld < m.n) (hrn : rd < m.n)
    (cl : Cyc m 1 ld L) (cr : Cyc m 0 rd L) : Covered m (walkPairs m 1 0 L ld rd) := by
  have d10 : Dir 1 0 := Or.inl ⟨rfl, rfl⟩
  have d01 : Dir 0 1 := Or.inr ⟨rfl, rfl⟩
  intro pq hm e he
  obtain ⟨t, ht, rfl⟩ := (mem_walkPairs L ld rd pq).1 hm
  have mem : ∀ s, (it m 1 (s % L) ld, it m 0 (s % L) rd) ∈ walkPairs m 1 0 L ld rd :=
    fun s => (mem_walkPairs L ld rd _).2 ⟨s % L, Nat.mod_lt _ cl.pos, rfl⟩
  have : e = 0 ∨ e = 1 := by omega
  rcases this with rfl | rfl
  · refine ⟨fun _ => ⟨_, mem (t + (L - 1)), ?_⟩, fun _ => ⟨_, mem (t + 1), ?_⟩⟩
    · show it m 1 ((t + (L - 1)) % L) ld = m.β 0 (it m 1 t ld)
      rw [← cl.it_mod, cl.pred h d10 hln t]
    · show it m 0 ((t + 1) % L) rd = m.β 0 (it m 0 t rd)
      rw [← cr.it_mod, it_succ']
  · refine ⟨fun _ => ⟨_, mem (t + 1), ?_⟩, fun _ => ⟨_, mem (t + (L - 1)), ?_⟩⟩
    · show it m 1 ((t + 1) % L) ld = m.β 1 (it m 1 t ld)
      rw [← cl.it_mod, it_succ']
    · show it m 0 ((t + (L - 1)) % L) rd = m.β 1 (it m 0 t rd)
      rw [← cr.it_mod, cr.pred h d01 hrn t]

/-- the two darts behind a dart of a walk -/
theorem walk_back {m : Map X} (h : WF 4 m) {i j a : Nat} (dir : Dir i j) (ha : a < m.n) {t : Nat}
    (hne : it m i (t + 1) a ≠ 0) : m.β j (it m i (t + 1) a) = it m i t a := by
  have hi4 : i < 4 := by have := dir.ilt; omega
  rw [it_succ'] at hne ⊢
  exact h.inv_ij dir (it_lt h hi4 t a ha) hne

/-- **`three_link` links whole faces**: exactly the pairs of a list `ps` get 3-linked, `(ld, rd)` is
    one of them, and the darts of `ps` are closed under the non-null β0 / β1 images on each side -/
theorem threeLink3_linked {n ld rd : Nat} {m m' : Map X} {u : Unit} (hw : WF 4 m)
    (hl0 : ld ≠ 0) (hr0 : rd ≠ 0)
    (h : run (threeLink3 (X := X) n ld rd) m = (.ok u, m')) :
    ∃ ps, Linked3 m m' ps ∧ (ld, rd) ∈ ps ∧ Covered m ps := by
  have d10 : Dir 1 0 := Or.inl ⟨rfl, rfl⟩
  have d01 : Dir 0 1 := Or.inr ⟨rfl, rfl⟩
  have hs := hw.toSized
  unfold threeLink3 at h
  obtain ⟨_, m0, hl, h⟩ := run_bind_ok h
  obtain ⟨ok1, ok2, f1, f2, rfl⟩ := iLinkCore_ok hl
  have em : (m.setβ 3 ld rd).setβ 3 rd ld = m.linkI 3 ld rd := rfl
  rw [em] at h
  obtain ⟨ls0, hb, h⟩ := run_ro_bind_ok (ReadOnly.rB _ _) h
  obtain ⟨rfl, _, _⟩ := run_rB_ok hb
  obtain ⟨rs0, hb', h⟩ := run_ro_bind_ok (ReadOnly.rB _ _) h
  obtain ⟨rfl, _, _⟩ := run_rB_ok hb'
  obtain ⟨⟨a, b⟩, m1, hwalk, h⟩ := run_bind_ok h
  simp only [] at h
  have hln : ld < m.n := ((hs.okβ 3 ld).1 ok1).2
  have hrn : rd < m.n := ((hs.okβ 3 rd).1 ok2).2
  have L0 := Linked3.single hs hl0 hr0 hln hrn f1 f2
  have hs0 : Sized 4 (m.linkI 3 ld rd) := (hs.setβ _ _ _).setβ _ _ _
  obtain ⟨k, L1, ha, hb2, hst, hne, hs1⟩ := linkWalk_linked (by omega) (by omega) _ _ _ _ m1 a b hs0 hwalk
  have hβ1 : ∀ x, (m.linkI 3 ld rd).β 1 x = m.β 1 x := fun x => L0.other 1 x (by omega)
  have hβ0 : ∀ x, (m.linkI 3 ld rd).β 0 x = m.β 0 x := fun x => L0.other 0 x (by omega)
  rw [walkPairs_congr hβ1 hβ0, hβ1, hβ0] at L1
  rw [it_congr hβ1, hβ1] at ha
  rw [it_congr hβ0, hβ0] at hb2
  have ha' : a = it m 1 (k + 1) ld := ha
  have hb' : b = it m 0 (k + 1) rd := hb2
  have LF : Linked3 m m1 (walkPairs m 1 0 (k + 1) ld rd) := L0.append L1
  have mem0 : (ld, rd) ∈ walkPairs m 1 0 (k + 1) ld rd := (mem_walkPairs _ ld rd _).2 ⟨0, by omega, rfl⟩
  by_cases ha0 : a = 0
  · -- open faces: the backward walk
    rw [if_pos ha0] at h
    by_cases hb0 : b ≠ 0
    · rw [if_pos hb0] at h; simp at h
    · rw [if_neg hb0] at h
      have hb0' : b = 0 := by omega
      obtain ⟨ls1, hc, h⟩ := run_ro_bind_ok (ReadOnly.rB _ _) h
      obtain ⟨rfl, _, _⟩ := run_rB_ok hc
      obtain ⟨rs1, hc', h⟩ := run_ro_bind_ok (ReadOnly.rB _ _) h
      obtain ⟨rfl, _, _⟩ := run_rB_ok hc'
      obtain ⟨⟨a2, b2⟩, m2, hwalk2, h⟩ := run_bind_ok h
      simp only [] at h
      by_cases hb2' : b2 ≠ 0
      · rw [if_pos hb2'] at h; simp at h
      · rw [if_neg hb2'] at h
        obtain ⟨_, hm'⟩ := run_pure_ok h
        rw [hm']
        have hb20 : b2 = 0 := by omega
        obtain ⟨k', L2, ha2, hb22, hst2, _, _⟩ := linkWalk_linked (by omega) (by omega) _ _ _ _ m2 a2 b2 hs1 hwalk2
        have gβ1 : ∀ x, m1.β 1 x = m.β 1 x := fun x => LF.other 1 x (by omega)
        have gβ0 : ∀ x, m1.β 0 x = m.β 0 x := fun x => LF.other 0 x (by omega)
        rw [walkPairs_congr gβ0 gβ1, gβ0, gβ1] at L2
        rw [it_congr gβ0, gβ0] at ha2
        rw [it_congr gβ1, gβ1] at hb22
        have ha20 : a2 = 0 := by rcases hst2 with hh | hh <;> exact hh
        have LA := LF.append L2
        refine ⟨_, LA, List.mem_append_left _ mem0, ?_⟩
        -- facts
        have eF : it m 1 (k + 1) ld = 0 := by rw [← ha']; exact ha0
        have eG : it m 0 (k + 1) rd = 0 := by rw [← hb']; exact hb0'
        have eA : it m 0 k' (m.β 0 ld) = 0 := by rw [← ha2]; exact ha20
        have eB : it m 1 k' (m.β 1 rd) = 0 := by rw [← hb22]; exact hb20
        have nzF : ∀ t, t < k + 1 → it m 1 t ld ≠ 0 ∧ it m 0 t rd ≠ 0 := by
          intro t ht
          obtain ⟨_, _, _, _, a5, a6, _, _⟩ := LF.pairs _ ((mem_walkPairs _ ld rd _).2 ⟨t, ht, rfl⟩)
          exact ⟨a5, a6⟩
        have nzB : ∀ s, s < k' → it m 0 s (m.β 0 ld) ≠ 0 ∧ it m 1 s (m.β 1 rd) ≠ 0 := by
          intro s hs'
          obtain ⟨_, _, _, _, a5, a6, _, _⟩ := L2.pairs _ ((mem_walkPairs _ _ _ _).2 ⟨s, hs', rfl⟩)
          exact ⟨a5, a6⟩
        have memF : ∀ t, t < k + 1 → (it m 1 t ld, it m 0 t rd) ∈
            walkPairs m 1 0 (k + 1) ld rd ++ walkPairs m 0 1 k' (m.β 0 ld) (m.β 1 rd) :=
          fun t ht => List.mem_append_left _ ((mem_walkPairs _ ld rd _).2 ⟨t, ht, rfl⟩)
        have memB : ∀ s, s < k' → (it m 0 s (m.β 0 ld), it m 1 s (m.β 1 rd)) ∈
            walkPairs m 1 0 (k + 1) ld rd ++ walkPairs m 0 1 k' (m.β 0 ld) (m.β 1 rd) :=
          fun s hs' => List.mem_append_right _ ((mem_walkPairs _ _ _ _).2 ⟨s, hs', rfl⟩)
        have b0n : m.β 0 ld < m.n := hw.range 0 (by omega) ld hln
        have b1n : m.β 1 rd < m.n := hw.range 1 (by omega) rd hrn
        intro pq hm e he
        have he' : e = 0 ∨ e = 1 := by omega
        rcases List.mem_append.1 hm with hm | hm
        · obtain ⟨t, ht, rfl⟩ := (mem_walkPairs _ ld rd pq).1 hm
          rcases he' with rfl | rfl
          · constructor
            · -- β0 p_t
              intro hne0
              cases t with
              | zero =>
                  have : 0 < k' := by
                    rcases Nat.eq_zero_or_pos k' with hk | hk
                    · rw [hk] at eA; exact absurd eA hne0
                    · exact hk
                  exact ⟨_, memB 0 this, rfl⟩
              | succ t =>
                  refine ⟨_, memF t (by omega), ?_⟩
                  exact (walk_back hw d10 hln (nzF (t + 1) ht).1).symm
            · -- β0 q_t = q_{t+1}
              intro hne0
              have : t + 1 < k + 1 := by
                rcases Nat.lt_or_ge (t + 1) (k + 1) with hh | hh
                · exact hh
                · have : t + 1 = k + 1 := by omega
                  exfalso; apply hne0
                  show m.β 0 (it m 0 t rd) = 0
                  rw [← it_succ', this]; exact eG
              exact ⟨_, memF (t + 1) this, it_succ' m 0 t rd⟩
          · constructor
            · intro hne0
              have : t + 1 < k + 1 := by
                rcases Nat.lt_or_ge (t + 1) (k + 1) with hh | hh
                · exact hh
                · have : t + 1 = k + 1 := by omega
                  exfalso; apply hne0
                  show m.β 1 (it m 1 t ld) = 0
                  rw [← it_succ', this]; exact eF
              exact ⟨_, memF (t + 1) this, it_succ' m 1 t ld⟩
            · intro hne0
              cases t with
              | zero =>
                  have : 0 < k' := by
                    rcases Nat.eq_zero_or_pos k' with hk | hk
                    · rw [hk] at eB; exact absurd eB hne0
                    · exact hk
                  exact ⟨_, memB 0 this, rfl⟩
              | succ t =>
                  refine ⟨_, memF t (by omega), ?_⟩
                  exact (walk_back hw d01 hrn (nzF (t + 1) ht).2).symm
        · obtain ⟨s, hs', rfl⟩ := (mem_walkPairs _ _ _ pq).1 hm
          rcases he' with rfl | rfl
          · constructor
            · intro hne0
              have : s + 1 < k' := by
                rcases Nat.lt_or_ge (s + 1) k' with hh | hh
                · exact hh
                · have : s + 1 = k' := by omega
                  exfalso; apply hne0
                  show m.β 0 (it m 0 s (m.β 0 ld)) = 0
                  rw [← it_succ', this]; exact eA
              exact ⟨_, memB (s + 1) this, it_succ' m 0 s _⟩
            · intro hne0
              cases s with
              | zero =>
                  refine ⟨_, memF 0 (by omega), ?_⟩
                  show rd = m.β 0 (m.β 1 rd)
                  exact (hw.inv01 rd hrn (nzB 0 hs').2).symm
              | succ s =>
                  refine ⟨_, memB s (by omega), ?_⟩
                  exact (walk_back hw d10 b1n (nzB (s + 1) hs').2).symm
          · constructor
            · intro hne0
              cases s with
              | zero =>
                  refine ⟨_, memF 0 (by omega), ?_⟩
                  show ld = m.β 1 (m.β 0 ld)
                  exact (hw.inv10 ld hln (nzB 0 hs').1).symm
              | succ s =>
                  refine ⟨_, memB s (by omega), ?_⟩
                  exact (walk_back hw d01 b0n (nzB (s + 1) hs').1).symm
            · intro hne0
              have : s + 1 < k' := by
                rcases Nat.lt_or_ge (s + 1) k' with hh | hh
                · exact hh
                · have : s + 1 = k' := by omega
                  exfalso; apply hne0
                  show m.β 1 (it m 1 s (m.β 1 rd)) = 0
                  rw [← it_succ', this]; exact eB
              exact ⟨_, memB (s + 1) this, it_succ' m 1 s _⟩
  · -- closed faces
    rw [if_neg ha0] at h
    have hald : a = ld := by rcases hst with hh | hh; exact hh; exact absurd hh ha0
    by_cases hbrd : b ≠ rd
    · rw [if_pos hbrd] at h; simp at h
    · rw [if_neg hbrd] at h
      obtain ⟨_, hm'⟩ := run_pure_ok h
      rw [hm']
      have hpl : it m 1 (k + 1) ld = ld := by rw [← ha']; exact hald
      have hpr : it m 0 (k + 1) rd = rd := by rw [← hb']; omega
      have cl : Cyc m 1 ld (k + 1) :=
        ⟨by omega, hpl, periodic_nz (hw.null 1 (by omega)) (by omega) hpl hl0⟩
      have cr : Cyc m 0 rd (k + 1) :=
        ⟨by omega, hpr, periodic_nz (hw.null 0 (by omega)) (by omega) hpr hr0⟩
      exact ⟨_, LF, mem0, covered_closed hw hln hrn cl cr⟩


/-! ## `three_unlink` unlinks WHOLE faces (on mirrored, wholly 3-linked faces) -/

/-- a face is 3-linked as a whole (`Props/C20b.lean`, `Sided`) -/
def Sided3 (m : Map X) : Prop := ∀ d, d < m.n → m.β 1 d ≠ 0 → (m.β 3 d = 0 ↔ m.β 3 (m.β 1 d) = 0)

instance (m : Map X) : Decidable (Sided3 m) := by unfold Sided3; exact inferInstance

theorem Linked3.unlink_single {m : Map X} (h : WF 4 m) {l : Nat} (hl : l < m.n) (hne : m.β 3 l ≠ 0) :
    Linked3 (m.unlinkI 3 l) m [(l, m.β 3 l)] := by
  have hr : m.β 3 l < m.n := h.range 3 (by omega) l hl
  have eβ := h.toSized.β_unlinkI (i := 3) (by omega) hl hr
  have back : m.β 3 (m.β 3 l) = l := invol_back h (by omega) (by omega) hl hne
  have hl0 : l ≠ 0 := fun hh => hne (by rw [hh]; exact h.null 3 (by omega))
  refine ⟨rfl, ?_, ?_, ?_, fun x hx y hy hxy => absurd ((by simpa using hx : x = (l, m.β 3 l)).trans
    (by simpa using hy : y = (l, m.β 3 l)).symm) hxy⟩
  · intro e d he
    rw [eβ]
    have : ¬ (3 = e) := fun hh => he hh.symm
    simp [this]
  · intro pq hm
    have : pq = (l, m.β 3 l) := by simpa using hm
    subst this
    refine ⟨rfl, back, ?_, ?_, hl0, hne, hl, hr⟩
    · rw [eβ]
      by_cases c : m.β 3 l = l
      · simp [c]
      · simp [c]
    · rw [eβ]; simp
  · intro x hx
    have := hx (l, m.β 3 l) (by simp)
    rw [eβ]
    have a1 : ¬ (m.β 3 l = x) := fun hh => this.2 hh.symm
    have a2 : ¬ (l = x) := fun hh => this.1 hh.symm
    simp [a1, a2]

/-- one direction of the walk of `three_unlink`: exactly the visited pairs get unlinked -/
theorem unlinkWalk_unlinked {ld rd stop i j : Nat} {again : Bool} (hi : i < 3) (hj : j < 3) :
    ∀ (f ls rs : Nat) (m m' : Map X) (o : Nat × Nat), WF 4 m → ls < m.n → rs < m.n →
      run (threeUnlinkWalk (X := X) ld rd stop i j again f ls rs) m = (.ok o, m') →
      ∃ k, Linked3 m' m (walkPairs m i j k ls rs) ∧ o.1 = it m i k ls ∧ o.2 = it m j k rs ∧
        (o.1 = stop ∨ o.1 = 0) ∧ WF 4 m' ∧ ∀ t, t < k → it m i t ls ≠ stop := by
  intro f
  induction f with
  | zero =>
      intro ls rs m m' o _ _ _ h
      unfold threeUnlinkWalk at h; simp at h
  | succ f ih =>
      intro ls rs m m' o hw hlsn hrsn h
      unfold threeUnlinkWalk at h
      by_cases hc : ls ≠ stop ∧ ls ≠ 0
      · rw [if_pos hc] at h
        obtain ⟨x, hx, h⟩ := run_ro_bind_ok (ReadOnly.rB _ _) h
        obtain ⟨rfl, _, _⟩ := run_rB_ok hx
        by_cases hlx : ls ≠ m.β 3 rs
        · rw [if_pos hlx] at h; simp at h
        · rw [if_neg hlx] at h
          have hy : ∃ y, run ((fun y => if ls ≠ y then (Prog.panic : P X (Nat × Nat)) else do
              iUnlinkCore 3 ls
              let ls' ← rB i ls
              let rs' ← rB j rs
              threeUnlinkWalk ld rd stop i j again f ls' rs') y) m = (.ok o, m') := by
            cases again with
            | false =>
                simp only [Bool.false_eq_true, if_false] at h
                obtain ⟨y, _, h⟩ := run_ro_bind_ok (ReadOnly.pure _) h
                exact ⟨y, h⟩
            | true =>
                simp only [if_true] at h
                obtain ⟨y, _, h⟩ := run_ro_bind_ok (ReadOnly.rB _ _) h
                exact ⟨y, h⟩
          clear h
          obtain ⟨y, h⟩ := hy
          simp only [] at h
          by_cases hly : ls ≠ y
          · rw [if_pos hly] at h; simp at h
          · rw [if_neg hly] at h
            obtain ⟨_, m1, hl, h⟩ := run_bind_ok h
            obtain ⟨_, _, hne, rfl⟩ := iUnlinkCore_ok hl
            have em : (m.setβ 3 ls 0).setβ 3 (m.β 3 ls) 0 = m.unlinkI 3 ls := rfl
            rw [em] at h
            obtain ⟨ls', hb, h⟩ := run_ro_bind_ok (ReadOnly.rB _ _) h
            obtain ⟨rfl, _, _⟩ := run_rB_ok hb
            obtain ⟨rs', hb', h⟩ := run_ro_bind_ok (ReadOnly.rB _ _) h
            obtain ⟨rfl, _, _⟩ := run_rB_ok hb'
            have hw1 : WF 4 (m.unlinkI 3 ls) := hw.unlinkI (by omega) (by omega) hlsn hne
            -- the right dart is the β3 image of the left one
            have hlx' : ls = m.β 3 rs := by omega
            have hrs : m.β 3 ls = rs := by
              rw [hlx']; exact invol_back hw (by omega) (by omega) hrsn (by rw [← hlx']; exact hc.2)
            have L1 := Linked3.unlink_single hw hlsn hne
            rw [hrs] at L1
            obtain ⟨k, L2, ha, hb2, hst, hw', hmin⟩ := ih _ _ (m.unlinkI 3 ls) m' o hw1
              (hw1.range i (by omega) ls hlsn) (hw1.range j (by omega) rs hrsn) h
            have hβi : ∀ x, (m.unlinkI 3 ls).β i x = m.β i x := fun x => (L1.other i x (by omega)).symm
            have hβj : ∀ x, (m.unlinkI 3 ls).β j x = m.β j x := fun x => (L1.other j x (by omega)).symm
            rw [walkPairs_congr hβi hβj, hβi, hβj] at L2
            rw [it_congr hβi, hβi] at ha
            rw [it_congr hβj, hβj] at hb2
            simp only [it_congr hβi, hβi] at hmin
            refine ⟨k + 1, (L2.append L1).of_mem (fun x => ?_), ha, hb2, hst, hw', ?_⟩
            · simp only [walkPairs, List.mem_cons, List.mem_append, List.not_mem_nil, or_false]
              exact Or.comm
            · intro t ht
              cases t with
              | zero => exact hc.1
              | succ t => exact hmin t (by omega)
      · rw [if_neg hc] at h
        obtain ⟨rfl, rfl⟩ := run_pure_ok h
        exact ⟨0, Linked3.refl _, rfl, rfl, by omega, hw, fun t ht => by omega⟩

/-- **`three_unlink` unlinks whole faces** on a mirrored map whose faces are 3-linked as a whole:
    `m` is the resulting map with exactly the pairs of a list `ps` 3-linked, `(ld, β3 ld)` is one
    of them, and the darts of `ps` are closed under the non-null β0 / β1 images on each side -/
theorem threeUnlink3_unlinked {n ld : Nat} {m m' : Map X} {u : Unit} (hw : WF 4 m) (hM : Mirror m)
    (hS : Sided3 m) (hln : ld < m.n)
    (h : run (threeUnlink3 (X := X) n ld) m = (.ok u, m')) :
    ∃ ps, Linked3 m' m ps ∧ (ld, m.β 3 ld) ∈ ps ∧ Covered m ps ∧ WF 4 m' := by
  have d10 : Dir 1 0 := Or.inl ⟨rfl, rfl⟩
  have d01 : Dir 0 1 := Or.inr ⟨rfl, rfl⟩
  unfold threeUnlink3 at h
  obtain ⟨rd, hb0, h⟩ := run_ro_bind_ok (ReadOnly.rB _ _) h
  obtain ⟨rfl, _, _⟩ := run_rB_ok hb0
  obtain ⟨_, m0, hl, h⟩ := run_bind_ok h
  obtain ⟨_, _, hne, rfl⟩ := iUnlinkCore_ok hl
  have em : (m.setβ 3 ld 0).setβ 3 (m.β 3 ld) 0 = m.unlinkI 3 ld := rfl
  rw [em] at h
  obtain ⟨ls0, hb, h⟩ := run_ro_bind_ok (ReadOnly.rB _ _) h
  obtain ⟨rfl, _, _⟩ := run_rB_ok hb
  obtain ⟨rs0, hb', h⟩ := run_ro_bind_ok (ReadOnly.rB _ _) h
  obtain ⟨rfl, _, _⟩ := run_rB_ok hb'
  obtain ⟨⟨a, b⟩, m1, hwalk, h⟩ := run_bind_ok h
  simp only [] at h
  have hrn : m.β 3 ld < m.n := hw.range 3 (by omega) ld hln
  have hl0 : ld ≠ 0 := fun hh => hne (by rw [hh]; exact hw.null 3 (by omega))
  have hw0 : WF 4 (m.unlinkI 3 ld) := hw.unlinkI (by omega) (by omega) hln hne
  have L0 := Linked3.unlink_single hw hln hne
  obtain ⟨k, L1, ha, hb2, hst, hw1, hminw⟩ := unlinkWalk_unlinked (by omega) (by omega) _ _ _ _ m1 (a, b) hw0
    (hw0.range 1 (by omega) ld hln) (hw0.range 0 (by omega) _ hrn) hwalk
  have hβ1 : ∀ x, (m.unlinkI 3 ld).β 1 x = m.β 1 x := fun x => (L0.other 1 x (by omega)).symm
  have hβ0 : ∀ x, (m.unlinkI 3 ld).β 0 x = m.β 0 x := fun x => (L0.other 0 x (by omega)).symm
  rw [walkPairs_congr hβ1 hβ0, hβ1, hβ0] at L1
  simp only at ha hb2
  rw [it_congr hβ1, hβ1] at ha
  rw [it_congr hβ0, hβ0] at hb2
  have ha' : a = it m 1 (k + 1) ld := ha
  have hb' : b = it m 0 (k + 1) (m.β 3 ld) := hb2
  have LF : Linked3 m1 m (walkPairs m 1 0 (k + 1) ld (m.β 3 ld)) := by
    refine (L1.append L0).of_mem (fun x => ?_)
    simp only [walkPairs, List.mem_cons, List.mem_append, List.not_mem_nil, or_false]
    exact Or.comm
  have mem0 : (ld, m.β 3 ld) ∈ walkPairs m 1 0 (k + 1) ld (m.β 3 ld) :=
    (mem_walkPairs _ ld _ _).2 ⟨0, by omega, rfl⟩
  -- in `m` the visited pairs are 3-linked to each other
  have linkedF : ∀ t, t < k + 1 → m.β 3 (it m 1 t ld) = it m 0 t (m.β 3 ld) ∧ it m 1 t ld ≠ 0 ∧
      it m 0 t (m.β 3 ld) ≠ 0 := by
    intro t ht
    obtain ⟨a1, _, _, _, a5, a6, _, _⟩ := LF.pairs _ ((mem_walkPairs _ ld _ _).2 ⟨t, ht, rfl⟩)
    exact ⟨a1, a5, a6⟩
  by_cases ha0 : a = 0
  · -- open faces
    rw [if_pos ha0] at h
    by_cases hb0' : b ≠ 0
    · rw [if_pos hb0'] at h; simp at h
    · rw [if_neg hb0'] at h
      have hb00 : b = 0 := by omega
      obtain ⟨ls1, hc, h⟩ := run_ro_bind_ok (ReadOnly.rB _ _) h
      obtain ⟨rfl, _, _⟩ := run_rB_ok hc
      obtain ⟨rs1, hc', h⟩ := run_ro_bind_ok (ReadOnly.rB _ _) h
      obtain ⟨rfl, _, _⟩ := run_rB_ok hc'
      obtain ⟨⟨a2, b2⟩, m2, hwalk2, h⟩ := run_bind_ok h
      obtain ⟨_, hm'⟩ := run_pure_ok h
      rw [hm']
      have gβ1 : ∀ x, m1.β 1 x = m.β 1 x := fun x => (LF.other 1 x (by omega)).symm
      have gβ0 : ∀ x, m1.β 0 x = m.β 0 x := fun x => (LF.other 0 x (by omega)).symm
      have hn1 : m1.n = m.n := LF.n.symm
      obtain ⟨k', L2, ha2, hb22, hst2, hw2, _⟩ := unlinkWalk_unlinked (by omega) (by omega) _ _ _ _ m2 (a2, b2) hw1
        (hw1.range 0 (by omega) ld (by rw [hn1]; exact hln)) (hw1.range 1 (by omega) _ (by rw [hn1]; exact hrn)) hwalk2
      rw [walkPairs_congr gβ0 gβ1, gβ0, gβ1] at L2
      simp only at ha2 hb22
      rw [it_congr gβ0, gβ0] at ha2
      rw [it_congr gβ1, gβ1] at hb22
      have ha20 : a2 = 0 := by rcases hst2 with hh | hh <;> exact hh
      have LA : Linked3 m2 m (walkPairs m 0 1 k' (m.β 0 ld) (m.β 1 (m.β 3 ld)) ++
          walkPairs m 1 0 (k + 1) ld (m.β 3 ld)) := L2.append LF
      refine ⟨_, LA, List.mem_append_right _ mem0, ?_, hw2⟩
      have eF : it m 1 (k + 1) ld = 0 := by rw [← ha']; exact ha0
      have eG : it m 0 (k + 1) (m.β 3 ld) = 0 := by rw [← hb']; exact hb00
      have eA : it m 0 k' (m.β 0 ld) = 0 := by rw [← ha2]; exact ha20
      have linkedB : ∀ s, s < k' → m.β 3 (it m 0 s (m.β 0 ld)) = it m 1 s (m.β 1 (m.β 3 ld)) ∧
          it m 0 s (m.β 0 ld) ≠ 0 ∧ it m 1 s (m.β 1 (m.β 3 ld)) ≠ 0 := by
        intro s hs'
        obtain ⟨a1, _, _, _, a5, a6, _, _⟩ := LA.pairs _ (List.mem_append_left _ ((mem_walkPairs _ _ _ _).2 ⟨s, hs', rfl⟩))
        exact ⟨a1, a5, a6⟩
      have memF : ∀ t, t < k + 1 → (it m 1 t ld, it m 0 t (m.β 3 ld)) ∈
          walkPairs m 0 1 k' (m.β 0 ld) (m.β 1 (m.β 3 ld)) ++ walkPairs m 1 0 (k + 1) ld (m.β 3 ld) :=
        fun t ht => List.mem_append_right _ ((mem_walkPairs _ ld _ _).2 ⟨t, ht, rfl⟩)
      have memB : ∀ s, s < k' → (it m 0 s (m.β 0 ld), it m 1 s (m.β 1 (m.β 3 ld))) ∈
          walkPairs m 0 1 k' (m.β 0 ld) (m.β 1 (m.β 3 ld)) ++ walkPairs m 1 0 (k + 1) ld (m.β 3 ld) :=
        fun s hs' => List.mem_append_left _ ((mem_walkPairs _ _ _ _).2 ⟨s, hs', rfl⟩)
      have b0n : m.β 0 ld < m.n := hw.range 0 (by omega) ld hln
      have b1n : m.β 1 (m.β 3 ld) < m.n := hw.range 1 (by omega) _ hrn
      -- the mirror condition read along β0: the right-hand dart behind a linked pair
      have mirror0 : ∀ x, x < m.n → m.β 0 x ≠ 0 → m.β 3 x ≠ 0 → m.β 3 (m.β 0 x) ≠ 0 →
          m.β 0 (m.β 3 (m.β 0 x)) = m.β 3 x :=
        fun x hx g1 g2 g3 => MAtG_flip hw d01 hx (hM _ (hw.range 0 (by omega) x hx)) g1 g2 g3
      -- the right-hand side ends where the left-hand side ends
      have endB : it m 1 k' (m.β 1 (m.β 3 ld)) = 0 := by
        -- the last left dart x (β0 x = 0) and its partner y: β1 y = 0, else Sided + Mirror give β0 x ≠ 0
        by_cases hy0 : it m 1 k' (m.β 1 (m.β 3 ld)) = 0
        · exact hy0
        · exfalso
          -- x, y: the last linked pair of the backward side (or (ld, rd) when k' = 0)
          have key : ∀ x y, x < m.n → y < m.n → m.β 3 x = y → x ≠ 0 → y ≠ 0 → m.β 0 x = 0 → m.β 1 y ≠ 0 → False := by
            intro x y hx hy hxy hx0 hy0' h0x h1y
            have h3y : m.β 3 y = x := by rw [← hxy]; exact invol_back hw (by omega) (by omega) hx (by rw [hxy]; exact hy0')
            have hs := hS y hy h1y
            have h3n : m.β 3 (m.β 1 y) ≠ 0 := fun hh => hx0 (by rw [← h3y]; exact hs.2 hh)
            have := hM y hy h1y (by rw [h3y]; exact hx0) h3n
            rw [h3y] at this
            -- β1 (β3 (β1 y)) = x  ⇒  β0 x = β3 (β1 y) ≠ 0
            have hzn : m.β 3 (m.β 1 y) < m.n := hw.range 3 (by omega) _ (hw.range 1 (by omega) y hy)
            have := hw.inv01 _ hzn (by rw [this]; exact hx0)
            rw [‹m.β 1 (m.β 3 (m.β 1 y)) = x›, h0x] at this
            exact h3n this.symm
          cases k' with
          | zero =>
              exact key ld (m.β 3 ld) hln hrn rfl hl0 hne (by simpa using eA) (by simpa using hy0)
          | succ k'' =>
              obtain ⟨l1, l2, l3⟩ := linkedB k'' (by omega)
              refine key _ _ (it_lt hw (by omega) k'' _ b0n) (it_lt hw (by omega) k'' _ b1n) l1 l2 l3 ?_ ?_
              · rw [← it_succ']; exact eA
              · rw [← it_succ']; exact hy0
      have nzF := fun t ht => (linkedF t ht).2
      have nzB := fun s hs' => (linkedB s hs').2
      intro pq hm e he
      have he' : e = 0 ∨ e = 1 := by omega
      rcases List.mem_append.1 hm with hm | hm
      · obtain ⟨s, hs', rfl⟩ := (mem_walkPairs _ _ _ pq).1 hm
        rcases he' with rfl | rfl
        · constructor
          · intro hne0
            have : s + 1 < k' := by
              rcases Nat.lt_or_ge (s + 1) k' with hh | hh
              · exact hh
              · have : s + 1 = k' := by omega
                exfalso; apply hne0
                show m.β 0 (it m 0 s (m.β 0 ld)) = 0
                rw [← it_succ', this]; exact eA
            exact ⟨_, memB (s + 1) this, it_succ' m 0 s _⟩
          · intro hne0
            cases s with
            | zero =>
                refine ⟨_, memF 0 (by omega), ?_⟩
                show m.β 3 ld = m.β 0 (m.β 1 (m.β 3 ld))
                exact (hw.inv01 _ hrn (nzB 0 hs').2).symm
            | succ s =>
                refine ⟨_, memB s (by omega), ?_⟩
                exact (walk_back hw d10 b1n (nzB (s + 1) hs').2).symm
        · constructor
          · intro hne0
            cases s with
            | zero =>
                refine ⟨_, memF 0 (by omega), ?_⟩
                show ld = m.β 1 (m.β 0 ld)
                exact (hw.inv10 ld hln (nzB 0 hs').1).symm
            | succ s =>
                refine ⟨_, memB s (by omega), ?_⟩
                exact (walk_back hw d01 b0n (nzB (s + 1) hs').1).symm
          · intro hne0
            have : s + 1 < k' := by
              rcases Nat.lt_or_ge (s + 1) k' with hh | hh
              · exact hh
              · have : s + 1 = k' := by omega
                exfalso; apply hne0
                show m.β 1 (it m 1 s (m.β 1 (m.β 3 ld))) = 0
                rw [← it_succ', this]; exact endB
            exact ⟨_, memB (s + 1) this, it_succ' m 1 s _⟩
      · obtain ⟨t, ht, rfl⟩ := (mem_walkPairs _ ld _ pq).1 hm
        rcases he' with rfl | rfl
        · constructor
          · intro hne0
            cases t with
            | zero =>
                have : 0 < k' := by
                  rcases Nat.eq_zero_or_pos k' with hk | hk
                  · rw [hk] at eA; exact absurd eA hne0
                  · exact hk
                exact ⟨_, memB 0 this, rfl⟩
            | succ t =>
                refine ⟨_, memF t (by omega), ?_⟩
                exact (walk_back hw d10 hln (nzF (t + 1) ht).1).symm
          · intro hne0
            have : t + 1 < k + 1 := by
              rcases Nat.lt_or_ge (t + 1) (k + 1) with hh | hh
              · exact hh
              · have : t + 1 = k + 1 := by omega
                exfalso; apply hne0
                show m.β 0 (it m 0 t (m.β 3 ld)) = 0
                rw [← it_succ', this]; exact eG
            exact ⟨_, memF (t + 1) this, it_succ' m 0 t _⟩
        · constructor
          · intro hne0
            have : t + 1 < k + 1 := by
              rcases Nat.lt_or_ge (t + 1) (k + 1) with hh | hh
              · exact hh
              · have : t + 1 = k + 1 := by omega
                exfalso; apply hne0
                show m.β 1 (it m 1 t ld) = 0
                rw [← it_succ', this]; exact eF
            exact ⟨_, memF (t + 1) this, it_succ' m 1 t ld⟩
          · intro hne0
            cases t with
            | zero =>
                have : 0 < k' := by
                  rcases Nat.eq_zero_or_pos k' with hk | hk
                  · rw [hk] at endB; exact absurd endB hne0
                  · exact hk
                exact ⟨_, memB 0 this, rfl⟩
            | succ t =>
                refine ⟨_, memF t (by omega), ?_⟩
                exact (walk_back hw d01 hrn (nzF (t + 1) ht).2).symm
  · -- closed left face: by the mirror condition the right one closes at the same step
    rw [if_neg ha0] at h
    obtain ⟨_, hm'⟩ := run_pure_ok h
    rw [hm']
    have hald : a = ld := by rcases hst with hh | hh; exact hh; exact absurd hh ha0
    have hpl : it m 1 (k + 1) ld = ld := by rw [← ha']; exact hald
    have cl : Cyc m 1 ld (k + 1) := ⟨by omega, hpl, periodic_nz (hw.null 1 (by omega)) (by omega) hpl hl0⟩
    -- Mirror at the last dart of the left face
    have hpr : it m 0 (k + 1) (m.β 3 ld) = m.β 3 ld := by
      obtain ⟨l1, l2, l3⟩ := linkedF k (by omega)
      have hxn : it m 1 k ld < m.n := it_lt hw (by omega) k ld hln
      have e1 : m.β 1 (it m 1 k ld) = ld := by rw [← it_succ']; exact hpl
      have := hM _ hxn (by rw [e1]; exact hl0) (by rw [l1]; exact l3) (by rw [e1]; exact hne)
      rw [e1, l1] at this
      -- β1 rd = q_k  ⇒  β0 q_k = rd
      have := hw.inv01 _ hrn (by rw [this]; exact l3)
      rw [‹m.β 1 (m.β 3 ld) = it m 0 k (m.β 3 ld)›] at this
      rw [it_succ']; exact this
    have cr : Cyc m 0 (m.β 3 ld) (k + 1) :=
      ⟨by omega, hpr, periodic_nz (hw.null 0 (by omega)) (by omega) hpr hne⟩
    exact ⟨_, LF, mem0, covered_closed hw hln hrn cl cr, hw1⟩


/-- **`three_unlink` on a CLOSED left face of a mirrored map**: `m` is the result with exactly the
    pairs `(β1^t ld, β0^t (β3 ld))`, `t < L`, 3-linked; both faces are closed with `L` darts -/
theorem threeUnlink3_unlinked_closed {n ld : Nat} {m m' : Map X} {u : Unit} (hw : WF 4 m) (hM : Mirror m)
    (hln : ld < m.n) (hclosed : ∀ t, it m 1 t ld ≠ 0)
    (h : run (threeUnlink3 (X := X) n ld) m = (.ok u, m')) :
    ∃ L, m.β 3 ld ≠ 0 ∧ Linked3 m' m (walkPairs m 1 0 L ld (m.β 3 ld)) ∧ Cyc m 1 ld L ∧
      Cyc m 0 (m.β 3 ld) L ∧ (∀ t, 0 < t → t < L → it m 1 t ld ≠ ld) ∧
      (∀ t, 0 < t → t < L → it m 0 t (m.β 3 ld) ≠ m.β 3 ld) ∧ WF 4 m' := by
  unfold threeUnlink3 at h
  obtain ⟨rd, hb0, h⟩ := run_ro_bind_ok (ReadOnly.rB _ _) h
  obtain ⟨rfl, _, _⟩ := run_rB_ok hb0
  obtain ⟨_, m0, hl, h⟩ := run_bind_ok h
  obtain ⟨_, _, hne, rfl⟩ := iUnlinkCore_ok hl
  have em : (m.setβ 3 ld 0).setβ 3 (m.β 3 ld) 0 = m.unlinkI 3 ld := rfl
  rw [em] at h
  obtain ⟨ls0, hb, h⟩ := run_ro_bind_ok (ReadOnly.rB _ _) h
  obtain ⟨rfl, _, _⟩ := run_rB_ok hb
  obtain ⟨rs0, hb', h⟩ := run_ro_bind_ok (ReadOnly.rB _ _) h
  obtain ⟨rfl, _, _⟩ := run_rB_ok hb'
  obtain ⟨⟨a, b⟩, m1, hwalk, h⟩ := run_bind_ok h
  simp only [] at h
  have hrn : m.β 3 ld < m.n := hw.range 3 (by omega) ld hln
  have hl0 : ld ≠ 0 := fun hh => hne (by rw [hh]; exact hw.null 3 (by omega))
  have hw0 : WF 4 (m.unlinkI 3 ld) := hw.unlinkI (by omega) (by omega) hln hne
  have L0 := Linked3.unlink_single hw hln hne
  obtain ⟨k, L1, ha, hb2, hst, hw1, hminw⟩ := unlinkWalk_unlinked (by omega) (by omega) _ _ _ _ m1 (a, b) hw0
    (hw0.range 1 (by omega) ld hln) (hw0.range 0 (by omega) _ hrn) hwalk
  have hβ1 : ∀ x, (m.unlinkI 3 ld).β 1 x = m.β 1 x := fun x => (L0.other 1 x (by omega)).symm
  have hβ0 : ∀ x, (m.unlinkI 3 ld).β 0 x = m.β 0 x := fun x => (L0.other 0 x (by omega)).symm
  rw [walkPairs_congr hβ1 hβ0, hβ1, hβ0] at L1
  simp only at ha hb2
  rw [it_congr hβ1, hβ1] at ha
  simp only [it_congr hβ1, hβ1] at hminw
  have ha' : a = it m 1 (k + 1) ld := ha
  have LF : Linked3 m1 m (walkPairs m 1 0 (k + 1) ld (m.β 3 ld)) := by
    refine (L1.append L0).of_mem (fun x => ?_)
    simp only [walkPairs, List.mem_cons, List.mem_append, List.not_mem_nil, or_false]
    exact Or.comm
  have linkedF : ∀ t, t < k + 1 → m.β 3 (it m 1 t ld) = it m 0 t (m.β 3 ld) ∧ it m 1 t ld ≠ 0 ∧
      it m 0 t (m.β 3 ld) ≠ 0 := by
    intro t ht
    obtain ⟨a1, _, _, _, a5, a6, _, _⟩ := LF.pairs _ ((mem_walkPairs _ ld _ _).2 ⟨t, ht, rfl⟩)
    exact ⟨a1, a5, a6⟩
  have ha0 : a ≠ 0 := by rw [ha']; exact hclosed _
  rw [if_neg ha0] at h
  obtain ⟨_, hm'⟩ := run_pure_ok h
  rw [hm']
  have hald : a = ld := by rcases hst with hh | hh; exact hh; exact absurd hh ha0
  have hpl : it m 1 (k + 1) ld = ld := by rw [← ha']; exact hald
  have cl : Cyc m 1 ld (k + 1) := ⟨by omega, hpl, hclosed⟩
  have hpr : it m 0 (k + 1) (m.β 3 ld) = m.β 3 ld := by
    obtain ⟨l1, l2, l3⟩ := linkedF k (by omega)
    have hxn : it m 1 k ld < m.n := it_lt hw (by omega) k ld hln
    have e1 : m.β 1 (it m 1 k ld) = ld := by rw [← it_succ']; exact hpl
    have := hM _ hxn (by rw [e1]; exact hl0) (by rw [l1]; exact l3) (by rw [e1]; exact hne)
    rw [e1, l1] at this
    have := hw.inv01 _ hrn (by rw [this]; exact l3)
    rw [‹m.β 1 (m.β 3 ld) = it m 0 k (m.β 3 ld)›] at this
    rw [it_succ']; exact this
  have cr : Cyc m 0 (m.β 3 ld) (k + 1) :=
    ⟨by omega, hpr, periodic_nz (hw.null 0 (by omega)) (by omega) hpr hne⟩
  have hminl : ∀ t, 0 < t → t < k + 1 → it m 1 t ld ≠ ld := by
    intro t h0 ht
    cases t with
    | zero => omega
    | succ t => exact hminw t (by omega)
  refine ⟨k + 1, hne, LF, cl, cr, hminl, ?_, hw1⟩
  intro t h0 ht hh
  -- q_t = rd ⇒ p_t = ld (β3 is injective on linked darts)
  obtain ⟨l1, l2, _⟩ := linkedF t ht
  have b1 := invol_back hw (i := 3) (by omega) (by omega) (it_lt hw (i := 1) (by omega) t ld hln) (by rw [l1, hh]; exact hne)
  rw [l1, hh, invol_back hw (by omega) (by omega) hln hne] at b1
  exact hminl t h0 ht b1.symm

end HC.Cell3
