/-
  Exact β effects of the 2-D sews on well-formed maps, for kernels whose correctness depends on the
  state reached (triangulation loops, vertex insertion chains).

  * `TopoAs core p` : a successful run of `p` is a successful run of the link/unlink core `core` followed by
                      attribute moves only (`SameTopo`); proved for `oneSew2`, `oneUnsew2`, `twoSew2`, `twoUnsew2`
  * `*_eff`         : from an `Inv n u` state, the sew succeeded ⇒ the result is `Inv n u` again and its β tables
                      are the pointwise update of the old ones
  * `B1Chain`       : β1-paths given as lists, with their frame lemma
-/
import Honeycomb.Lemmas.KernelWF

set_option linter.unusedSimpArgs false
set_option linter.unusedVariables false

namespace HC
variable {α β : Type}

/-- a successful run of `p` = a successful run of `core` + attribute moves -/
def TopoAs {X : Type} (core : P X Unit) (p : P X α) : Prop :=
  ∀ (m m' : Map X) (a : α), run p m = (.ok a, m') → ∃ m1, run core m = (.ok (), m1) ∧ SameTopo m1 m'

namespace TopoAs
variable {X : Type} {core : P X Unit}

theorem self : TopoAs core core := fun m m' a h => ⟨m', by cases a; exact h, SameTopo.refl _⟩

theorem abort (e : Err) : TopoAs core (HC.abort e : P X α) := by
  intro m m' a h; simp at h

theorem ro_bind {p : P X α} {f : α → P X β} (hp : ReadOnly p) (hf : ∀ a, TopoAs core (f a)) :
    TopoAs core (p.bind f) := by
  intro m m' b h
  obtain ⟨a, _, h2⟩ := ro_bind_ok hp h
  exact hf a m m' b h2

theorem core_attr {f : Unit → P X β} (hf : ∀ a, AttrOnly (f a)) : TopoAs core (core.bind f) := by
  intro m m' b h
  obtain ⟨a, m1, h1, h2⟩ := run_bind_ok h
  have st := hf a m1; rw [h2] at st
  exact ⟨m1, h1, st⟩

theorem ite {c : Prop} [Decidable c] {p q : P X α} (hp : TopoAs core p) (hq : TopoAs core q) :
    TopoAs core (if c then p else q) := by
  split <;> assumption

end TopoAs

theorem topoAs_oneSew2 {X : Type} (cfg : Cfg X) (k l r : Nat) : TopoAs (oneLinkCore l r) (oneSew2 cfg k l r) := by
  unfold oneSew2
  refine TopoAs.ro_bind (ReadOnly.rB _ _) fun b2l => ?_
  refine TopoAs.ite TopoAs.self ?_
  refine TopoAs.ro_bind (readOnly_vertexId2 _ _) fun v1 => ?_
  refine TopoAs.ro_bind (readOnly_vertexId2 _ _) fun v2 => ?_
  refine TopoAs.core_attr fun _ => ?_
  refine AttrOnly.bind (C01.ao_vid _ _) fun nv => ?_
  exact AttrOnly.bind (attrOnly_mergeS _ _ _ _ _) fun _ => attrOnly_mergeAttrs _ _ _ _ _

theorem topoAs_oneUnsew2 {X : Type} (cfg : Cfg X) (k l : Nat) : TopoAs (oneUnlinkCore l) (oneUnsew2 cfg k l) := by
  unfold oneUnsew2
  refine TopoAs.ro_bind (ReadOnly.rB _ _) fun b2l => ?_
  refine TopoAs.ite TopoAs.self ?_
  refine TopoAs.ro_bind (ReadOnly.rB _ _) fun r => ?_
  refine TopoAs.ro_bind (readOnly_vertexId2 _ _) fun vold => ?_
  refine TopoAs.core_attr fun _ => ?_
  refine AttrOnly.bind (C01.ao_vid _ _) fun nl => ?_
  refine AttrOnly.bind (C01.ao_vid _ _) fun nr => ?_
  exact AttrOnly.bind (attrOnly_splitS _ _ _ _ _) fun _ => attrOnly_splitAttrs _ _ _ _ _

theorem topoAs_twoSew2 {X : Type} (cfg : Cfg X) (k l r : Nat) : TopoAs (iLinkCore 2 l r) (twoSew2 cfg k l r) := by
  unfold twoSew2
  refine TopoAs.ro_bind (ReadOnly.rB _ _) fun b1l => ?_
  refine TopoAs.ro_bind (ReadOnly.rB _ _) fun b1r => ?_
  refine TopoAs.ite ?_ (TopoAs.ite ?_ (TopoAs.ite ?_ ?_))
  · refine TopoAs.core_attr fun _ => ?_
    exact AttrOnly.bind (C01.ao_eid _) fun _ => attrOnly_mergeAttrs _ _ _ _ _
  · refine TopoAs.ro_bind (readOnly_vertexId2 _ _) fun _ => ?_
    refine TopoAs.ro_bind (readOnly_vertexId2 _ _) fun _ => ?_
    refine TopoAs.core_attr fun _ => ?_
    refine AttrOnly.bind (C01.ao_vid _ _) fun _ => ?_
    refine AttrOnly.bind (C01.ao_eid _) fun _ => ?_
    refine AttrOnly.bind (attrOnly_mergeS _ _ _ _ _) fun _ => ?_
    exact AttrOnly.bind (attrOnly_mergeAttrs _ _ _ _ _) fun _ => attrOnly_mergeAttrs _ _ _ _ _
  · refine TopoAs.ro_bind (readOnly_vertexId2 _ _) fun _ => ?_
    refine TopoAs.ro_bind (readOnly_vertexId2 _ _) fun _ => ?_
    refine TopoAs.core_attr fun _ => ?_
    refine AttrOnly.bind (C01.ao_vid _ _) fun _ => ?_
    refine AttrOnly.bind (C01.ao_eid _) fun _ => ?_
    refine AttrOnly.bind (attrOnly_mergeS _ _ _ _ _) fun _ => ?_
    exact AttrOnly.bind (attrOnly_mergeAttrs _ _ _ _ _) fun _ => attrOnly_mergeAttrs _ _ _ _ _
  · refine TopoAs.ro_bind (readOnly_vertexId2 _ _) fun _ => ?_
    refine TopoAs.ro_bind (readOnly_vertexId2 _ _) fun _ => ?_
    refine TopoAs.ro_bind (readOnly_vertexId2 _ _) fun _ => ?_
    refine TopoAs.ro_bind (readOnly_vertexId2 _ _) fun _ => ?_
    refine TopoAs.ro_bind (ReadOnly.rA _ _) fun _ => ?_
    refine TopoAs.ro_bind (ReadOnly.rA _ _) fun _ => ?_
    refine TopoAs.ro_bind (ReadOnly.rA _ _) fun _ => ?_
    refine TopoAs.ro_bind (ReadOnly.rA _ _) fun _ => ?_
    refine TopoAs.ite (TopoAs.abort _) ?_
    refine TopoAs.core_attr fun _ => ?_
    refine AttrOnly.bind (C01.ao_vid _ _) fun _ => ?_
    refine AttrOnly.bind (C01.ao_vid _ _) fun _ => ?_
    refine AttrOnly.bind (C01.ao_eid _) fun _ => ?_
    refine AttrOnly.bind (attrOnly_mergeS _ _ _ _ _) fun _ => ?_
    refine AttrOnly.bind (attrOnly_mergeS _ _ _ _ _) fun _ => ?_
    refine AttrOnly.bind (attrOnly_mergeAttrs _ _ _ _ _) fun _ => ?_
    exact AttrOnly.bind (attrOnly_mergeAttrs _ _ _ _ _) fun _ => attrOnly_mergeAttrs _ _ _ _ _

/-! ## effects on `Inv` states -/

section Eff
variable {X : Type} {n : Nat} {u : Array Bool}

theorem Inv.sameTopo {m m' : Map X} (h : Inv n u m) (st : SameTopo m m') : Inv n u m' :=
  ⟨h.wf.sameTopo st, by rw [st.n]; exact h.n_eq, by rw [st.u]; exact h.u_eq⟩

theorem Inv.lt {m : Map X} (h : Inv n u m) {i d : Nat} (hok : m.okβ i d = true) : i < 3 ∧ d < n := by
  have := (h.wf.toSized.okβ i d).1 hok
  rw [h.n_eq] at this; exact this

/-- a non-null image in an `Inv` state is a live dart -/
theorem Inv.live_image {m : Map X} (h : Inv n u m) {i d : Nat} (hi : i < 3) (hd : d < n) (hne : m.β i d ≠ 0) :
    Live n u (m.β i d) := by
  have hd' : d < m.n := by rw [h.n_eq]; exact hd
  refine ⟨hne, by rw [← h.n_eq]; exact h.wf.range i hi d hd', ?_⟩
  have hno := C01.C01_unused_is_nobodys_image h.wf i hi d hd'
  have h2 : m.unused (m.β i d) = false := by
    cases hc : m.unused (m.β i d)
    · rfl
    · exact absurd (hno hc) hne
  unfold Map.unused at h2; rw [h.u_eq] at h2; exact h2

/-- a dart with a non-null image in an `Inv` state is live -/
theorem Inv.live_of_image {m : Map X} (h : Inv n u m) {i d : Nat} (hi : i < 3) (hd : d < n) (hne : m.β i d ≠ 0) :
    Live n u d := by
  have hd' : d < m.n := by rw [h.n_eq]; exact hd
  refine ⟨fun h0 => hne (by rw [h0]; exact h.wf.null i hi), hd, ?_⟩
  have h2 : m.unused d = false := by
    cases hc : m.unused d
    · rfl
    · exact absurd (h.wf.unusedFree d hd' hc i hi) hne
  unfold Map.unused at h2; rw [h.u_eq] at h2; exact h2

/-- `one_sew(l, r)` succeeded -/
theorem oneSew2_eff (cfg : Cfg X) (k : Nat) {l r : Nat} {m m' : Map X} {a : Unit} (hi : Inv n u m)
    (hl : Live n u l) (hr : Live n u r) (h : run (oneSew2 cfg k l r) m = (.ok a, m')) :
    Inv n u m' ∧ m.β 1 l = 0 ∧ m.β 0 r = 0 ∧
      ∀ i d, m'.β i d = if 0 = i ∧ r = d then l else if 1 = i ∧ l = d then r else m.β i d := by
  obtain ⟨m1, h1, st⟩ := topoAs_oneSew2 cfg k l r m m' a h
  have i1 := Keeps.oneLinkCore hl hr m m1 () hi h1
  obtain ⟨_, _, f1, f0, rfl⟩ := oneLinkCore_ok h1
  refine ⟨i1.sameTopo st, f1, f0, fun i d => ?_⟩
  rw [st.β]
  have s1 : Sized 3 (m.setβ 1 l r) := hi.wf.toSized.setβ _ _ _
  rw [s1.β_setβ (by omega) (by rw [Map.n_setβ, hi.n_eq]; exact hr.2.1),
    hi.wf.toSized.β_setβ (by omega) (by rw [hi.n_eq]; exact hl.2.1)]

/-- `one_unsew(l)` succeeded -/
theorem oneUnsew2_eff (cfg : Cfg X) (k : Nat) {l : Nat} {m m' : Map X} {a : Unit} (hi : Inv n u m)
    (h : run (oneUnsew2 cfg k l) m = (.ok a, m')) :
    Inv n u m' ∧ Live n u l ∧ Live n u (m.β 1 l) ∧
      ∀ i d, m'.β i d = if 0 = i ∧ m.β 1 l = d then 0 else if 1 = i ∧ l = d then 0 else m.β i d := by
  obtain ⟨m1, h1, st⟩ := topoAs_oneUnsew2 cfg k l m m' a h
  obtain ⟨ok1, _, hne, rfl⟩ := oneUnlinkCore_ok h1
  have hl := (hi.lt ok1).2
  have hlive : Live n u l := hi.live_of_image (by omega) hl hne
  have hlive2 : Live n u (m.β 1 l) := hi.live_image (by omega) hl hne
  have i1 : Inv n u ((m.setβ 1 l 0).setβ 0 (m.β 1 l) 0) :=
    ⟨hi.wf.unlink1 (by omega) (by rw [hi.n_eq]; exact hl) hne, hi.n_eq, hi.u_eq⟩
  refine ⟨i1.sameTopo st, hlive, hlive2, fun i d => ?_⟩
  rw [st.β]
  have s1 : Sized 3 (m.setβ 1 l 0) := hi.wf.toSized.setβ _ _ _
  rw [s1.β_setβ (by omega) (by rw [Map.n_setβ, hi.n_eq]; exact hlive2.2.1),
    hi.wf.toSized.β_setβ (by omega) (by rw [hi.n_eq]; exact hl)]

/-- `two_sew(l, r)` succeeded -/
theorem twoSew2_eff (cfg : Cfg X) (k : Nat) {l r : Nat} {m m' : Map X} {a : Unit} (hi : Inv n u m)
    (hl : Live n u l) (hr : Live n u r) (hlr : l ≠ r) (h : run (twoSew2 cfg k l r) m = (.ok a, m')) :
    Inv n u m' ∧ m.β 2 l = 0 ∧ m.β 2 r = 0 ∧
      ∀ i d, m'.β i d = if 2 = i ∧ r = d then l else if 2 = i ∧ l = d then r else m.β i d := by
  obtain ⟨m1, h1, st⟩ := topoAs_twoSew2 cfg k l r m m' a h
  have i1 := Keeps.twoLinkCore hl hr hlr m m1 () hi h1
  obtain ⟨_, _, f1, f0, rfl⟩ := iLinkCore_ok h1
  refine ⟨i1.sameTopo st, f1, f0, fun i d => ?_⟩
  rw [st.β]
  have s1 : Sized 3 (m.setβ 2 l r) := hi.wf.toSized.setβ _ _ _
  rw [s1.β_setβ (by omega) (by rw [Map.n_setβ, hi.n_eq]; exact hr.2.1),
    hi.wf.toSized.β_setβ (by omega) (by rw [hi.n_eq]; exact hl.2.1)]

/-- a β read that succeeded -/
theorem rB_ok {i d : Nat} {f : Nat → P X β} {m m' : Map X} {b : β} (hi : Inv n u m)
    (h : run ((rB i d).bind f) m = (.ok b, m')) : i < 3 ∧ d < n ∧ run (f (m.β i d)) m = (.ok b, m') := by
  rw [run_rB] at h
  by_cases hok : m.okβ i d = true
  · simp only [hok, if_true] at h
    exact ⟨(hi.lt hok).1, (hi.lt hok).2, h⟩
  · simp [hok] at h

end Eff

/-! ## β1-paths -/

/-- `d → l[0] → l[1] → …` through β1 -/
def B1Chain {X : Type} (m : Map X) : Nat → List Nat → Prop
  | _, [] => True
  | d, x :: l => m.β 1 d = x ∧ B1Chain m x l

instance instDecB1Chain {X : Type} (m : Map X) : (d : Nat) → (l : List Nat) → Decidable (B1Chain m d l)
  | _, [] => isTrue trivial
  | d, x :: l => @instDecidableAnd _ _ (inferInstanceAs (Decidable (m.β 1 d = x))) (instDecB1Chain m x l)

/-- on a sized map, a dart with a non-null image exists -/
theorem Sized.lt_of_β_ne {X : Type} {m : Map X} (h : Sized 3 m) {i d : Nat} (hi : i < 3) (hne : m.β i d ≠ 0) :
    d < m.n := by
  by_cases hd : d < m.n
  · exact hd
  · exfalso
    apply hne
    unfold Map.β
    apply rd_oob
    rw [h.row i hi]; omega

/-- the chain only depends on β1 of its darts except the last one -/
theorem B1Chain.frame {X : Type} {m m' : Map X} : ∀ (l : List Nat) (d : Nat), B1Chain m d l →
    (∀ y ∈ (d :: l).dropLast, m'.β 1 y = m.β 1 y) → B1Chain m' d l := by
  intro l
  induction l with
  | nil => intro d _ _; trivial
  | cons x rest ih =>
      intro d h hf
      obtain ⟨h1, h2⟩ := h
      refine ⟨by rw [hf d (by simp [List.dropLast])]; exact h1, ih x h2 fun y hy => hf y ?_⟩
      rw [List.dropLast_cons_of_ne_nil (by simp)]
      exact List.mem_cons_of_mem _ hy

end HC
