/-
  Theory of the idealised binary rounding `HC.Geo.rnd` (Model/Rounding.lean):
  round to nearest, ties to even, `p ≥ 1` significant bits, unbounded exponent range
  (overflow and underflow are EXCLUDED, not modelled).

  Main results (namespace `HC.Rounding`; `p ≥ 1` where stated):
    rnd_zero, rnd_neg (odd), rnd_monotone, rnd_rel_error (|rnd x − x| ≤ 2⁻ᵖ·|x|), rnd_abs_error_le,
    rnd_of_representable (exact on n·2^e with |n| ≤ 2^p), rnd_fixes_small_integers, rnd_idempotent,
    representable_rnd, rnd_two_mul / rnd_mul_pow2 (scaling by powers of two commutes with rounding).
-/
import Honeycomb.Model.Rounding
import Mathlib.Tactic.Ring
import Mathlib.Tactic.Linarith
import Mathlib.Tactic.Positivity
import Mathlib.Tactic.FieldSimp
import Mathlib.Tactic.NormNum
import Mathlib.Algebra.Order.Field.Power
import Mathlib.Algebra.Order.Field.Rat

namespace HC.Rounding
open HC.Geo

/-! ## powers of two -/

theorem pow2_eq (k : Int) : pow2 k = (2 : ℚ) ^ k := by
  cases k with
  | ofNat n =>
    simp only [pow2, Int.ofNat_eq_natCast, zpow_natCast]
    push_cast; rfl
  | negSucc n =>
    simp only [pow2, zpow_negSucc, one_div]
    push_cast; rfl

theorem two_zpow_pos (k : Int) : (0 : ℚ) < 2 ^ k := zpow_pos (by norm_num) k

theorem two_zpow_le {a b : Int} (h : a ≤ b) : (2 : ℚ) ^ a ≤ 2 ^ b :=
  zpow_le_zpow_right₀ (by norm_num) h

theorem two_zpow_lt_iff {a b : Int} : (2 : ℚ) ^ a < 2 ^ b ↔ a < b :=
  zpow_lt_zpow_iff_right₀ (by norm_num)

theorem two_zpow_le_iff {a b : Int} : (2 : ℚ) ^ a ≤ 2 ^ b ↔ a ≤ b :=
  zpow_le_zpow_iff_right₀ (by norm_num)

theorem two_zpow_add (a b : Int) : (2 : ℚ) ^ (a + b) = 2 ^ a * 2 ^ b := zpow_add₀ (by norm_num) a b

theorem two_zpow_sub (a b : Int) : (2 : ℚ) ^ (a - b) = 2 ^ a / 2 ^ b := zpow_sub₀ (by norm_num) a b

theorem two_zpow_succ (a : Int) : (2 : ℚ) ^ (a + 1) = 2 ^ a * 2 := zpow_add_one₀ (by norm_num) a

/-! ## `ilog2` -/

/-- specification of `ilog2`: `2^(ilog2 a) ≤ a < 2^(ilog2 a + 1)` for `a > 0` -/
theorem ilog2_spec {a : ℚ} (ha : 0 < a) :
    (2 : ℚ) ^ ilog2 a ≤ a ∧ a < (2 : ℚ) ^ (ilog2 a + 1) := by
  have hnum : 0 < a.num := Rat.num_pos.mpr ha
  have hn0 : a.num.natAbs ≠ 0 := by omega
  have hd0 : a.den ≠ 0 := a.den_nz
  have hnabs : ((a.num.natAbs : ℕ) : ℚ) = (a.num : ℚ) := by
    have : ((a.num.natAbs : ℕ) : ℤ) = a.num := Int.natAbs_of_nonneg hnum.le
    rw [← Int.cast_natCast, this]
  have hdpos : (0 : ℚ) < a.den := by exact_mod_cast Nat.pos_of_ne_zero hd0
  have ha_eq : a = (a.num.natAbs : ℚ) / (a.den : ℚ) := by
    rw [hnabs]; exact (Rat.num_div_den a).symm
  -- bit-length bounds, cast to ℚ
  have n_lo : (2 : ℚ) ^ (a.num.natAbs.log2 : ℤ) ≤ (a.num.natAbs : ℚ) := by
    rw [zpow_natCast]; exact_mod_cast Nat.log2_self_le hn0
  have n_hi : (a.num.natAbs : ℚ) < (2 : ℚ) ^ ((a.num.natAbs.log2 : ℤ) + 1) := by
    have : ((a.num.natAbs.log2 : ℤ) + 1) = ((a.num.natAbs.log2 + 1 : ℕ) : ℤ) := by push_cast; rfl
    rw [this, zpow_natCast]; exact_mod_cast Nat.lt_log2_self (n := a.num.natAbs)
  have d_lo : (2 : ℚ) ^ (a.den.log2 : ℤ) ≤ (a.den : ℚ) := by
    rw [zpow_natCast]; exact_mod_cast Nat.log2_self_le hd0
  have d_hi : (a.den : ℚ) < (2 : ℚ) ^ ((a.den.log2 : ℤ) + 1) := by
    have : ((a.den.log2 : ℤ) + 1) = ((a.den.log2 + 1 : ℕ) : ℤ) := by push_cast; rfl
    rw [this, zpow_natCast]; exact_mod_cast Nat.lt_log2_self (n := a.den)
  set ln : ℤ := (a.num.natAbs.log2 : ℤ) with hln
  set ld : ℤ := (a.den.log2 : ℤ) with hld
  -- 2^(k-1) < a < 2^(k+1) with k = ln - ld
  have up : a < (2 : ℚ) ^ (ln - ld + 1) := by
    have e : (2 : ℚ) ^ (ln - ld + 1) = 2 ^ (ln + 1) / 2 ^ ld := by
      rw [← two_zpow_sub]; congr 1; ring
    rw [e, ha_eq, div_lt_div_iff₀ hdpos (two_zpow_pos _)]
    calc (a.num.natAbs : ℚ) * 2 ^ ld ≤ (a.num.natAbs : ℚ) * a.den :=
          mul_le_mul_of_nonneg_left d_lo (by positivity)
      _ < 2 ^ (ln + 1) * a.den := mul_lt_mul_of_pos_right n_hi hdpos
  have lo : (2 : ℚ) ^ (ln - ld - 1) < a := by
    have e : (2 : ℚ) ^ (ln - ld - 1) = 2 ^ ln / 2 ^ (ld + 1) := by
      rw [← two_zpow_sub]; congr 1; ring
    rw [e, ha_eq, div_lt_div_iff₀ (two_zpow_pos _) hdpos]
    calc (2 : ℚ) ^ ln * a.den < 2 ^ ln * 2 ^ (ld + 1) :=
          mul_lt_mul_of_pos_left d_hi (two_zpow_pos _)
      _ ≤ (a.num.natAbs : ℚ) * 2 ^ (ld + 1) := mul_le_mul_of_nonneg_right n_lo (two_zpow_pos _).le
  unfold ilog2
  simp only [← hln, ← hld, pow2_eq]
  split
  · rename_i h; exact ⟨h, up⟩
  · rename_i h
    refine ⟨lo.le, ?_⟩
    have : ln - ld - 1 + 1 = ln - ld := by ring
    rw [this]; exact not_le.mp h

theorem ilog2_lt_of_lt {a : ℚ} (ha : 0 < a) {j : Int} (h : a < (2 : ℚ) ^ j) : ilog2 a < j :=
  two_zpow_lt_iff.mp (lt_of_le_of_lt (ilog2_spec ha).1 h)

theorem le_ilog2_of_le {a : ℚ} (ha : 0 < a) {j : Int} (h : (2 : ℚ) ^ j ≤ a) : j ≤ ilog2 a := by
  have := two_zpow_lt_iff.mp (lt_of_le_of_lt h (ilog2_spec ha).2)
  omega

theorem ilog2_mono {a b : ℚ} (ha : 0 < a) (hab : a ≤ b) : ilog2 a ≤ ilog2 b :=
  le_ilog2_of_le (lt_of_lt_of_le ha hab) (le_trans (ilog2_spec ha).1 hab)

theorem ilog2_eq {a : ℚ} (ha : 0 < a) {j : Int} (h1 : (2 : ℚ) ^ j ≤ a) (h2 : a < (2 : ℚ) ^ (j + 1)) :
    ilog2 a = j := by
  have := le_ilog2_of_le ha h1
  have := ilog2_lt_of_lt ha h2
  omega

/-! ## nearest integer, ties to even -/

theorem roundEven_cases (m : ℚ) : roundEven m = m.floor ∨ roundEven m = m.floor + 1 := by
  unfold roundEven
  simp only
  split
  · exact Or.inl rfl
  · split
    · exact Or.inr rfl
    · split
      · exact Or.inl rfl
      · exact Or.inr rfl

theorem frac_bounds (m : ℚ) : 0 ≤ m - (m.floor : ℚ) ∧ m - (m.floor : ℚ) < 1 := by
  have h1 := Rat.floor_le m
  have h2 := Rat.lt_floor_add_one m
  push_cast at h2
  constructor <;> linarith

/-- `|roundEven m − m| ≤ 1/2` -/
theorem roundEven_error (m : ℚ) : |((roundEven m : ℤ) : ℚ) - m| ≤ 1 / 2 := by
  obtain ⟨h0, h1⟩ := frac_bounds m
  unfold roundEven
  simp only
  rw [abs_le]
  split
  · constructor <;> linarith
  · rename_i hA
    split
    · push_cast; constructor <;> linarith
    · rename_i hB
      have : m - (m.floor : ℚ) = 1 / 2 := le_antisymm (not_lt.mp hB) (not_lt.mp hA)
      split
      · constructor <;> linarith
      · push_cast; constructor <;> linarith

theorem roundEven_intCast (n : ℤ) : roundEven (n : ℚ) = n := by
  unfold roundEven
  simp only [Rat.floor_intCast, sub_self]
  norm_num

theorem roundEven_of_lt {m : ℚ} (h : m - (m.floor : ℚ) < 1 / 2) : roundEven m = m.floor := by
  unfold roundEven; simp only [h, if_true]

theorem roundEven_of_gt {m : ℚ} (h : 1 / 2 < m - (m.floor : ℚ)) : roundEven m = m.floor + 1 := by
  unfold roundEven; simp only [not_lt.mpr h.le, h, if_true, if_false]

theorem roundEven_of_tie_even {m : ℚ} (h : m - (m.floor : ℚ) = 1 / 2) (he : m.floor % 2 = 0) :
    roundEven m = m.floor := by
  unfold roundEven; simp only [h, lt_irrefl, he, if_true, if_false]

theorem roundEven_of_tie_odd {m : ℚ} (h : m - (m.floor : ℚ) = 1 / 2) (he : ¬ m.floor % 2 = 0) :
    roundEven m = m.floor + 1 := by
  unfold roundEven; simp only [h, lt_irrefl, he, if_false]

theorem roundEven_mono {m m' : ℚ} (h : m ≤ m') : roundEven m ≤ roundEven m' := by
  have hf : m.floor ≤ m'.floor := Rat.floor_monotone h
  have a := roundEven_cases m
  have b := roundEven_cases m'
  rcases lt_or_eq_of_le hf with hlt | heq
  · omega
  · -- same floor: compare the fractional parts
    have hr : m - (m.floor : ℚ) ≤ m' - (m'.floor : ℚ) := by rw [← heq]; linarith
    rcases lt_trichotomy (m - (m.floor : ℚ)) (1 / 2) with h1 | h1 | h1
    · rw [roundEven_of_lt h1]; omega
    · rcases lt_trichotomy (m' - (m'.floor : ℚ)) (1 / 2) with h2 | h2 | h2
      · linarith
      · by_cases he : m.floor % 2 = 0
        · rw [roundEven_of_tie_even h1 he]; omega
        · rw [roundEven_of_tie_odd h1 he, roundEven_of_tie_odd h2 (heq ▸ he)]; omega
      · rw [roundEven_of_gt h2]; omega
    · rw [roundEven_of_gt h1, roundEven_of_gt (lt_of_lt_of_le h1 hr)]; omega

/-! ## rounding of positive numbers -/

theorem rndPos_def (p : ℕ) (a : ℚ) :
    rndPos p a = ((roundEven (a / 2 ^ (ilog2 a - ((p : ℤ) - 1))) : ℤ) : ℚ) * 2 ^ (ilog2 a - ((p : ℤ) - 1)) := by
  simp only [rndPos, pow2_eq]

/-- `2^(p-1)` as a rational zpow, for `p ≥ 1` -/
theorem zpow_pred_cast {p : ℕ} (hp : 0 < p) : (2 : ℚ) ^ ((p : ℤ) - 1) = (((2 : ℤ) ^ (p - 1) : ℤ) : ℚ) := by
  have : ((p : ℤ) - 1) = ((p - 1 : ℕ) : ℤ) := by omega
  rw [this, zpow_natCast]; push_cast; rfl

theorem zpow_cast (p : ℕ) : (2 : ℚ) ^ (p : ℤ) = (((2 : ℤ) ^ p : ℤ) : ℚ) := by
  rw [zpow_natCast]; push_cast; rfl

/-- the scaled significand lies in `[2^(p-1), 2^p)` -/
theorem signif_bounds (p : ℕ) {a : ℚ} (ha : 0 < a) :
    (2 : ℚ) ^ ((p : ℤ) - 1) ≤ a / 2 ^ (ilog2 a - ((p : ℤ) - 1)) ∧
    a / 2 ^ (ilog2 a - ((p : ℤ) - 1)) < (2 : ℚ) ^ (p : ℤ) := by
  obtain ⟨h1, h2⟩ := ilog2_spec ha
  have hpos := two_zpow_pos (ilog2 a - ((p : ℤ) - 1))
  constructor
  · rw [le_div_iff₀ hpos, ← two_zpow_add]
    have : (p : ℤ) - 1 + (ilog2 a - ((p : ℤ) - 1)) = ilog2 a := by ring
    rw [this]; exact h1
  · rw [div_lt_iff₀ hpos, ← two_zpow_add]
    have : (p : ℤ) + (ilog2 a - ((p : ℤ) - 1)) = ilog2 a + 1 := by ring
    rw [this]; exact h2

/-- the rounded significand lies in `[2^(p-1), 2^p]` -/
theorem roundEven_signif_bounds {p : ℕ} (hp : 0 < p) {a : ℚ} (ha : 0 < a) :
    (2 : ℚ) ^ ((p : ℤ) - 1) ≤ ((roundEven (a / 2 ^ (ilog2 a - ((p : ℤ) - 1))) : ℤ) : ℚ) ∧
    ((roundEven (a / 2 ^ (ilog2 a - ((p : ℤ) - 1))) : ℤ) : ℚ) ≤ (2 : ℚ) ^ (p : ℤ) := by
  obtain ⟨h1, h2⟩ := signif_bounds p ha
  constructor
  · rw [zpow_pred_cast hp] at h1 ⊢
    have := roundEven_mono h1
    rw [roundEven_intCast] at this
    exact_mod_cast this
  · rw [zpow_cast] at h2 ⊢
    have := roundEven_mono h2.le
    rw [roundEven_intCast] at this
    exact_mod_cast this

theorem rndPos_bounds {p : ℕ} (hp : 0 < p) {a : ℚ} (ha : 0 < a) :
    (2 : ℚ) ^ ilog2 a ≤ rndPos p a ∧ rndPos p a ≤ (2 : ℚ) ^ (ilog2 a + 1) := by
  obtain ⟨h1, h2⟩ := roundEven_signif_bounds hp ha
  have hpos := two_zpow_pos (ilog2 a - ((p : ℤ) - 1))
  rw [rndPos_def]
  constructor
  · have e : (2 : ℚ) ^ ilog2 a = 2 ^ ((p : ℤ) - 1) * 2 ^ (ilog2 a - ((p : ℤ) - 1)) := by
      rw [← two_zpow_add]; congr 1; ring
    rw [e]; exact mul_le_mul_of_nonneg_right h1 hpos.le
  · have e : (2 : ℚ) ^ (ilog2 a + 1) = 2 ^ (p : ℤ) * 2 ^ (ilog2 a - ((p : ℤ) - 1)) := by
      rw [← two_zpow_add]; congr 1; ring
    rw [e]; exact mul_le_mul_of_nonneg_right h2 hpos.le

theorem rndPos_pos {p : ℕ} (hp : 0 < p) {a : ℚ} (ha : 0 < a) : 0 < rndPos p a :=
  lt_of_lt_of_le (two_zpow_pos _) (rndPos_bounds hp ha).1

/-- absolute error: half a unit in the last place, `2^(ilog2 a − p)` -/
theorem rndPos_abs_error (p : ℕ) (a : ℚ) :
    |rndPos p a - a| ≤ (2 : ℚ) ^ (ilog2 a - (p : ℤ)) := by
  have hpos := two_zpow_pos (ilog2 a - ((p : ℤ) - 1))
  have herr := roundEven_error (a / 2 ^ (ilog2 a - ((p : ℤ) - 1)))
  rw [rndPos_def]
  have e : ((roundEven (a / 2 ^ (ilog2 a - ((p : ℤ) - 1))) : ℤ) : ℚ) * 2 ^ (ilog2 a - ((p : ℤ) - 1)) - a
      = (((roundEven (a / 2 ^ (ilog2 a - ((p : ℤ) - 1))) : ℤ) : ℚ) - a / 2 ^ (ilog2 a - ((p : ℤ) - 1)))
        * 2 ^ (ilog2 a - ((p : ℤ) - 1)) := by
    field_simp
  rw [e, abs_mul, abs_of_pos hpos]
  have e2 : (2 : ℚ) ^ (ilog2 a - (p : ℤ)) = 1 / 2 * 2 ^ (ilog2 a - ((p : ℤ) - 1)) := by
    have : ilog2 a - ((p : ℤ) - 1) = (ilog2 a - (p : ℤ)) + 1 := by ring
    rw [this, two_zpow_succ]; ring
  rw [e2]
  exact mul_le_mul_of_nonneg_right herr hpos.le

/-- relative error: `|rnd a − a| ≤ 2⁻ᵖ·a` -/
theorem rndPos_rel_error (p : ℕ) {a : ℚ} (ha : 0 < a) :
    |rndPos p a - a| ≤ (2 : ℚ) ^ (-(p : ℤ)) * a := by
  refine (rndPos_abs_error p a).trans ?_
  have e : (2 : ℚ) ^ (ilog2 a - (p : ℤ)) = 2 ^ (-(p : ℤ)) * 2 ^ ilog2 a := by
    rw [← two_zpow_add]; congr 1; ring
  rw [e]
  exact mul_le_mul_of_nonneg_left (ilog2_spec ha).1 (two_zpow_pos _).le

theorem rndPos_mono {p : ℕ} (hp : 0 < p) {a b : ℚ} (ha : 0 < a) (hab : a ≤ b) :
    rndPos p a ≤ rndPos p b := by
  have hb : 0 < b := lt_of_lt_of_le ha hab
  rcases lt_or_eq_of_le (ilog2_mono ha hab) with hlt | heq
  · calc rndPos p a ≤ (2 : ℚ) ^ (ilog2 a + 1) := (rndPos_bounds hp ha).2
      _ ≤ (2 : ℚ) ^ ilog2 b := two_zpow_le (by omega)
      _ ≤ rndPos p b := (rndPos_bounds hp hb).1
  · rw [rndPos_def, rndPos_def, heq]
    have hpos := two_zpow_pos (ilog2 b - ((p : ℤ) - 1))
    apply mul_le_mul_of_nonneg_right _ hpos.le
    have : a / 2 ^ (ilog2 b - ((p : ℤ) - 1)) ≤ b / 2 ^ (ilog2 b - ((p : ℤ) - 1)) :=
      div_le_div_of_nonneg_right hab hpos.le
    exact_mod_cast roundEven_mono this

/-- exact on `n·2^e` with `0 < n ≤ 2^p` -/
theorem rndPos_exact {p : ℕ} (hp : 0 < p) {n e : ℤ} (hn : 0 < n) (hle : n ≤ 2 ^ p) :
    rndPos p ((n : ℚ) * 2 ^ e) = (n : ℚ) * 2 ^ e := by
  have hnq : (0 : ℚ) < n := by exact_mod_cast hn
  have ha : (0 : ℚ) < (n : ℚ) * 2 ^ e := mul_pos hnq (two_zpow_pos e)
  set a : ℚ := (n : ℚ) * 2 ^ e with ha_def
  have hle' : (n : ℚ) ≤ (2 : ℚ) ^ (p : ℤ) := by rw [zpow_cast]; exact_mod_cast hle
  -- ilog2 a ≤ p + e
  have hup : a < (2 : ℚ) ^ ((p : ℤ) + e + 1) := by
    have : (2 : ℚ) ^ ((p : ℤ) + e + 1) = 2 ^ (p : ℤ) * 2 ^ e * 2 := by
      rw [two_zpow_succ, two_zpow_add]
    rw [this, ha_def]
    have := mul_le_mul_of_nonneg_right hle' (two_zpow_pos e).le
    have := mul_pos (two_zpow_pos (p : ℤ)) (two_zpow_pos e)
    linarith
  have hL : ilog2 a ≤ (p : ℤ) + e := by have := ilog2_lt_of_lt ha hup; omega
  rw [rndPos_def]
  -- the significand is an integer
  have key : ∃ k : ℤ, a / 2 ^ (ilog2 a - ((p : ℤ) - 1)) = (k : ℚ) := by
    rcases lt_or_eq_of_le hL with hlt | heq
    · -- e ≥ exponent: n·2^(e - e₀)
      have hd : 0 ≤ e - (ilog2 a - ((p : ℤ) - 1)) := by omega
      obtain ⟨d, hd'⟩ := Int.eq_ofNat_of_zero_le hd
      refine ⟨n * 2 ^ d, ?_⟩
      rw [ha_def, mul_div_assoc, ← two_zpow_sub, hd', zpow_natCast]
      push_cast; rfl
    · -- ilog2 a = p + e forces n = 2^p
      have h2 : (2 : ℚ) ^ ((p : ℤ) + e) ≤ a := by rw [← heq]; exact (ilog2_spec ha).1
      rw [two_zpow_add, ha_def] at h2
      have hge : (2 : ℚ) ^ (p : ℤ) ≤ n := le_of_mul_le_mul_right h2 (two_zpow_pos e)
      have hn_eq : (n : ℚ) = (2 : ℚ) ^ (p : ℤ) := le_antisymm hle' hge
      refine ⟨2 ^ (p - 1), ?_⟩
      rw [heq, ha_def, hn_eq, ← two_zpow_add, ← two_zpow_sub]
      have : (p : ℤ) + e - ((p : ℤ) + e - ((p : ℤ) - 1)) = ((p - 1 : ℕ) : ℤ) := by omega
      rw [this, zpow_natCast]; push_cast; rfl
  obtain ⟨k, hk⟩ := key
  rw [hk, roundEven_intCast, ← hk]
  field_simp

/-- scaling by a power of two commutes with rounding (the exponent range is unbounded) -/
theorem rndPos_mul_pow2 (p : ℕ) {a : ℚ} (ha : 0 < a) (j : ℤ) :
    rndPos p (a * 2 ^ j) = rndPos p a * 2 ^ j := by
  have haj : 0 < a * (2 : ℚ) ^ j := mul_pos ha (two_zpow_pos j)
  obtain ⟨h1, h2⟩ := ilog2_spec ha
  have hL : ilog2 (a * 2 ^ j) = ilog2 a + j := by
    apply ilog2_eq haj
    · rw [two_zpow_add]; exact mul_le_mul_of_nonneg_right h1 (two_zpow_pos j).le
    · have : ilog2 a + j + 1 = (ilog2 a + 1) + j := by ring
      rw [this, two_zpow_add]; exact mul_lt_mul_of_pos_right h2 (two_zpow_pos j)
  rw [rndPos_def, rndPos_def, hL]
  have e1 : ilog2 a + j - ((p : ℤ) - 1) = (ilog2 a - ((p : ℤ) - 1)) + j := by ring
  rw [e1, two_zpow_add]
  have hj := (two_zpow_pos j).ne'
  have hq := (two_zpow_pos (ilog2 a - ((p : ℤ) - 1))).ne'
  have e2 : a * 2 ^ j / (2 ^ (ilog2 a - ((p : ℤ) - 1)) * 2 ^ j) = a / 2 ^ (ilog2 a - ((p : ℤ) - 1)) := by
    field_simp
  rw [e2]; ring

/-! ## `rnd`: all signs -/

theorem rnd_zero (p : ℕ) : rnd p 0 = 0 := by simp [rnd]

theorem rnd_of_pos (p : ℕ) {x : ℚ} (hx : 0 < x) : rnd p x = rndPos p x := by
  simp [rnd, hx.ne', hx]

theorem rnd_of_neg (p : ℕ) {x : ℚ} (hx : x < 0) : rnd p x = -rndPos p (-x) := by
  simp [rnd, hx.ne, not_lt.mpr hx.le]

/-- **odd**: `rnd (−x) = −rnd x` -/
theorem rnd_neg (p : ℕ) (x : ℚ) : rnd p (-x) = -rnd p x := by
  rcases lt_trichotomy x 0 with h | h | h
  · rw [rnd_of_neg p h, rnd_of_pos p (neg_pos.mpr h), neg_neg]
  · subst h; simp [rnd_zero]
  · rw [rnd_of_pos p h, rnd_of_neg p (neg_neg_of_pos h), neg_neg]

theorem rnd_pos {p : ℕ} (hp : 0 < p) {x : ℚ} (hx : 0 < x) : 0 < rnd p x := by
  rw [rnd_of_pos p hx]; exact rndPos_pos hp hx

theorem rnd_neg_of_neg {p : ℕ} (hp : 0 < p) {x : ℚ} (hx : x < 0) : rnd p x < 0 := by
  rw [rnd_of_neg p hx]; exact neg_neg_of_pos (rndPos_pos hp (neg_pos.mpr hx))

/-- **relative error** `|rnd x − x| ≤ 2⁻ᵖ·|x|` (unit roundoff `u = 2⁻ᵖ`) -/
theorem rnd_rel_error (p : ℕ) (x : ℚ) : |rnd p x - x| ≤ (2 : ℚ) ^ (-(p : ℤ)) * |x| := by
  rcases lt_trichotomy x 0 with h | h | h
  · rw [rnd_of_neg p h, abs_of_neg h]
    have := rndPos_rel_error p (neg_pos.mpr h)
    have e : -rndPos p (-x) - x = -(rndPos p (-x) - -x) := by ring
    rw [e, abs_neg]; exact this
  · subst h; simp [rnd_zero]
  · rw [rnd_of_pos p h, abs_of_pos h]; exact rndPos_rel_error p h

/-- **absolute error**: half a unit in the last place of `x` -/
theorem rnd_abs_error_le (p : ℕ) {x : ℚ} (hx : x ≠ 0) :
    |rnd p x - x| ≤ (2 : ℚ) ^ (ilog2 |x| - (p : ℤ)) := by
  rcases lt_or_gt_of_ne hx with h | h
  · rw [rnd_of_neg p h, abs_of_neg h]
    have e : -rndPos p (-x) - x = -(rndPos p (-x) - -x) := by ring
    rw [e, abs_neg]; exact rndPos_abs_error p (-x)
  · rw [rnd_of_pos p h, abs_of_pos h]; exact rndPos_abs_error p x

/-- **monotone** -/
theorem rnd_monotone {p : ℕ} (hp : 0 < p) : ∀ a b : ℚ, a ≤ b → rnd p a ≤ rnd p b := by
  intro a b hab
  rcases lt_trichotomy a 0 with ha | ha | ha
  · rcases lt_trichotomy b 0 with hb | hb | hb
    · rw [rnd_of_neg p ha, rnd_of_neg p hb]
      exact neg_le_neg (rndPos_mono hp (neg_pos.mpr hb) (neg_le_neg hab))
    · subst hb; rw [rnd_zero]; exact (rnd_neg_of_neg hp ha).le
    · exact ((rnd_neg_of_neg hp ha).trans (rnd_pos hp hb)).le
  · subst ha
    rcases lt_or_eq_of_le hab with hb | hb
    · rw [rnd_zero]; exact (rnd_pos hp hb).le
    · rw [← hb]
  · have hb : 0 < b := lt_of_lt_of_le ha hab
    rw [rnd_of_pos p ha, rnd_of_pos p hb]; exact rndPos_mono hp ha hab

/-- numbers with at most `p` significant bits: `n·2^e` with `|n| ≤ 2^p` (any exponent) -/
def Representable (p : ℕ) (x : ℚ) : Prop := ∃ n e : ℤ, n.natAbs ≤ 2 ^ p ∧ x = (n : ℚ) * 2 ^ e

/-- **exact on representable numbers** -/
theorem rnd_of_representable {p : ℕ} (hp : 0 < p) {x : ℚ} (h : Representable p x) : rnd p x = x := by
  obtain ⟨n, e, hn, rfl⟩ := h
  have hcast : ((2 ^ p : ℕ) : ℤ) = (2 : ℤ) ^ p := by push_cast; rfl
  rcases lt_trichotomy n 0 with h0 | h0 | h0
  · have hneg : (n : ℚ) * 2 ^ e < 0 := mul_neg_of_neg_of_pos (by exact_mod_cast h0) (two_zpow_pos e)
    rw [rnd_of_neg p hneg]
    have e1 : -((n : ℚ) * 2 ^ e) = ((-n : ℤ) : ℚ) * 2 ^ e := by push_cast; ring
    rw [e1, rndPos_exact hp (by omega) (by omega)]; push_cast; ring
  · subst h0; simp [rnd_zero]
  · have hpos : 0 < (n : ℚ) * 2 ^ e := mul_pos (by exact_mod_cast h0) (two_zpow_pos e)
    rw [rnd_of_pos p hpos, rndPos_exact hp h0 (by omega)]

/-- every integer of absolute value at most `2^p` is fixed (binary64: up to `2^53`) -/
theorem rnd_fixes_small_integers {p : ℕ} (hp : 0 < p) {n : ℤ} (h : n.natAbs ≤ 2 ^ p) :
    rnd p (n : ℚ) = (n : ℚ) :=
  rnd_of_representable hp ⟨n, 0, h, by simp⟩

/-- the same with the bound stated on `|n|` -/
theorem rnd_fixes_small_integers' {p : ℕ} (hp : 0 < p) {n : ℤ} (h : |n| ≤ 2 ^ p) :
    rnd p (n : ℚ) = (n : ℚ) :=
  rnd_fixes_small_integers hp (by
    have : (n.natAbs : ℤ) = |n| := Int.natCast_natAbs n
    have h2 : (n.natAbs : ℤ) ≤ ((2 ^ p : ℕ) : ℤ) := by rw [this]; exact_mod_cast h
    exact_mod_cast h2)

/-- dyadic numbers `n / 2^k` with `|n| ≤ 2^p` are fixed -/
theorem rnd_fixes_dyadic {p : ℕ} (hp : 0 < p) {n : ℤ} (k : ℕ) (h : n.natAbs ≤ 2 ^ p) :
    rnd p ((n : ℚ) / 2 ^ k) = (n : ℚ) / 2 ^ k :=
  rnd_of_representable hp ⟨n, -(k : ℤ), h, by rw [zpow_neg, zpow_natCast, div_eq_mul_inv]⟩

/-- the result of a rounding is representable -/
theorem representable_rnd {p : ℕ} (hp : 0 < p) (x : ℚ) : Representable p (rnd p x) := by
  have key : ∀ {a : ℚ}, 0 < a → ∃ n : ℤ, 0 ≤ n ∧ n.natAbs ≤ 2 ^ p ∧
      rndPos p a = (n : ℚ) * 2 ^ (ilog2 a - ((p : ℤ) - 1)) := by
    intro a ha
    obtain ⟨h1, h2⟩ := roundEven_signif_bounds hp ha
    refine ⟨roundEven (a / 2 ^ (ilog2 a - ((p : ℤ) - 1))), ?_, ?_, rndPos_def p a⟩
    · have : (0 : ℚ) ≤ ((roundEven (a / 2 ^ (ilog2 a - ((p : ℤ) - 1))) : ℤ) : ℚ) :=
        (two_zpow_pos _).le.trans h1
      exact_mod_cast this
    · rw [zpow_cast] at h2
      have h3 : roundEven (a / 2 ^ (ilog2 a - ((p : ℤ) - 1))) ≤ 2 ^ p := by exact_mod_cast h2
      have h4 : (0 : ℤ) ≤ roundEven (a / 2 ^ (ilog2 a - ((p : ℤ) - 1))) := by
        have : (0 : ℚ) ≤ ((roundEven (a / 2 ^ (ilog2 a - ((p : ℤ) - 1))) : ℤ) : ℚ) :=
          (two_zpow_pos _).le.trans h1
        exact_mod_cast this
      have : ((roundEven (a / 2 ^ (ilog2 a - ((p : ℤ) - 1)))).natAbs : ℤ) ≤ ((2 ^ p : ℕ) : ℤ) := by
        rw [Int.natAbs_of_nonneg h4]; exact_mod_cast h3
      exact_mod_cast this
  rcases lt_trichotomy x 0 with h | h | h
  · obtain ⟨n, _, hn, e⟩ := key (neg_pos.mpr h)
    refine ⟨-n, ilog2 (-x) - ((p : ℤ) - 1), by simpa using hn, ?_⟩
    rw [rnd_of_neg p h, e]; push_cast; ring
  · subst h; exact ⟨0, 0, by simp, by simp [rnd_zero]⟩
  · obtain ⟨n, _, hn, e⟩ := key h
    exact ⟨n, _, hn, by rw [rnd_of_pos p h, e]⟩

/-- **idempotent** -/
theorem rnd_idempotent {p : ℕ} (hp : 0 < p) (x : ℚ) : rnd p (rnd p x) = rnd p x :=
  rnd_of_representable hp (representable_rnd hp x)

/-- scaling by a power of two commutes with rounding (unbounded exponent range) -/
theorem rnd_mul_pow2 (p : ℕ) (x : ℚ) (j : ℤ) : rnd p (x * 2 ^ j) = rnd p x * 2 ^ j := by
  rcases lt_trichotomy x 0 with h | h | h
  · have : x * (2 : ℚ) ^ j < 0 := mul_neg_of_neg_of_pos h (two_zpow_pos j)
    rw [rnd_of_neg p h, rnd_of_neg p this]
    have e : -(x * (2 : ℚ) ^ j) = -x * 2 ^ j := by ring
    rw [e, rndPos_mul_pow2 p (neg_pos.mpr h)]; ring
  · subst h; simp [rnd_zero]
  · have : 0 < x * (2 : ℚ) ^ j := mul_pos h (two_zpow_pos j)
    rw [rnd_of_pos p h, rnd_of_pos p this, rndPos_mul_pow2 p h]

theorem rnd_two_mul (p : ℕ) (x : ℚ) : rnd p (2 * x) = 2 * rnd p x := by
  have := rnd_mul_pow2 p x 1
  simp only [zpow_one] at this
  rw [mul_comm, this, mul_comm]

theorem rnd_div_two (p : ℕ) (x : ℚ) : rnd p (x / 2) = rnd p x / 2 := by
  have := rnd_mul_pow2 p x (-1)
  simp only [zpow_neg, zpow_one] at this
  rw [div_eq_mul_inv, this, div_eq_mul_inv]

/-- doubling / halving keeps a number representable -/
theorem Representable.two_mul {p : ℕ} {x : ℚ} (h : Representable p x) : Representable p (2 * x) := by
  obtain ⟨n, e, hn, rfl⟩ := h
  exact ⟨n, e + 1, hn, by rw [two_zpow_succ]; ring⟩

theorem Representable.neg {p : ℕ} {x : ℚ} (h : Representable p x) : Representable p (-x) := by
  obtain ⟨n, e, hn, rfl⟩ := h
  exact ⟨-n, e, by simpa using hn, by push_cast; ring⟩

/-! ## Examples (non-vacuity; concrete values are evaluated by the kernel) -/
section Examples

/-- ties go to the even significand: with 2 bits, 5 lies midway between 4 = 2·2 and 6 = 3·2 -/
example : rnd 2 5 = 4 := by decide +kernel
/-- … and 7 midway between 6 = 3·2 and 8 = 2·4 -/
example : rnd 2 7 = 8 := by decide +kernel
example : rnd 2 (5 / 2) = 2 := by decide +kernel
/-- the binary64 and binary32 values of 1/10 -/
example : rnd 53 (1 / 10) = 3602879701896397 / 36028797018963968 := by decide +kernel
example : rnd 24 (1 / 10) = 13421773 / 134217728 := by decide +kernel
/-- `0.1 + 0.2` in binary64 is `0.30000000000000004…`, not the binary64 value of `0.3` -/
example : rnd 53 (rnd 53 (1 / 10) + rnd 53 (2 / 10)) ≠ rnd 53 (3 / 10) := by decide +kernel

example : pow2 (-3) = (2 : ℚ) ^ (-3 : ℤ) := pow2_eq _
example : (2 : ℚ) ^ ilog2 (3 / 8) ≤ 3 / 8 ∧ (3 / 8 : ℚ) < 2 ^ (ilog2 (3 / 8) + 1) := ilog2_spec (by norm_num)
example : ilog2 (3 / 8 : ℚ) = -2 := ilog2_eq (by norm_num) (by norm_num) (by norm_num)
example : |((roundEven (5 / 2) : ℤ) : ℚ) - 5 / 2| ≤ 1 / 2 := roundEven_error _
example : roundEven ((7 : ℤ) : ℚ) = 7 := roundEven_intCast 7
example : roundEven (5 / 2) ≤ roundEven (7 / 2) := roundEven_mono (by norm_num)
example : rnd 53 0 = 0 := rnd_zero 53
example : rnd 53 (-(1 / 3)) = -rnd 53 (1 / 3) := rnd_neg 53 _
example : 0 < rnd 53 (1 / 3) := rnd_pos (by norm_num) (by norm_num)
example : rnd 53 (-(1 / 3)) < 0 := rnd_neg_of_neg (by norm_num) (by norm_num)
example : |rnd 53 (1 / 3) - 1 / 3| ≤ (2 : ℚ) ^ (-(53 : ℤ)) * |1 / 3| := rnd_rel_error 53 _
example : |rnd 53 (1 / 3) - 1 / 3| ≤ (2 : ℚ) ^ (ilog2 |(1 / 3 : ℚ)| - (53 : ℤ)) := rnd_abs_error_le 53 (by norm_num)
example : rnd 53 (1 / 3) ≤ rnd 53 (1 / 2) := rnd_monotone (by norm_num) _ _ (by norm_num)
example : Representable 53 (3 / 8) := ⟨3, -3, by norm_num, by norm_num⟩
example : rnd 53 (3 / 8) = 3 / 8 := rnd_of_representable (by norm_num) ⟨3, -3, by norm_num, by norm_num⟩
example : rnd 53 ((9007199254740992 : ℤ) : ℚ) = ((9007199254740992 : ℤ) : ℚ) :=
  rnd_fixes_small_integers (p := 53) (by norm_num) (by norm_num)
example : rnd 53 ((-7 : ℤ) : ℚ) = ((-7 : ℤ) : ℚ) := rnd_fixes_small_integers' (p := 53) (by norm_num) (by norm_num)
/-- `2^53 + 1` is NOT fixed: the bound of `rnd_fixes_small_integers` is sharp -/
example : rnd 53 9007199254740993 ≠ 9007199254740993 := by decide +kernel
example : rnd 53 ((5 : ℤ) / 2 ^ 4) = (5 : ℤ) / 2 ^ 4 := rnd_fixes_dyadic (p := 53) (by norm_num) 4 (by norm_num)
example : Representable 53 (rnd 53 (1 / 3)) := representable_rnd (by norm_num) _
example : rnd 53 (rnd 53 (1 / 3)) = rnd 53 (1 / 3) := rnd_idempotent (by norm_num) _
example : rnd 53 (1 / 3 * 2 ^ (-700 : ℤ)) = rnd 53 (1 / 3) * 2 ^ (-700 : ℤ) := rnd_mul_pow2 53 _ _
example : rnd 53 (2 * (1 / 3)) = 2 * rnd 53 (1 / 3) := rnd_two_mul 53 _
example : rnd 53 (1 / 3 / 2) = rnd 53 (1 / 3) / 2 := rnd_div_two 53 _

end Examples

/-! ## for C12b (`C12_ceil_count_rounding`): the rounded quotient stays between `⌈q⌉ − 1` and `⌈q⌉`

`C12_ceil_count_rounding` assumes a monotone rounding that fixes EVERY integer; an IEEE rounding fixes the
integers up to `2^p` only (`rnd_fixes_small_integers`; sharp: `2^53 + 1` is not a binary64 number).  Its
proof uses the fixed-point property at `⌈q⌉` and `⌈q⌉ − 1` only, so what it needs is exactly this. -/

theorem rnd_ceil_bounds {p : ℕ} (hp : 0 < p) (q : ℚ) (h1 : q.ceil.natAbs ≤ 2 ^ p)
    (h2 : (q.ceil - 1).natAbs ≤ 2 ^ p) :
    ((q.ceil - 1 : ℤ) : ℚ) ≤ rnd p q ∧ rnd p q ≤ ((q.ceil : ℤ) : ℚ) := by
  have hlo : ((q.ceil - 1 : ℤ) : ℚ) < q := (Rat.lt_ceil_iff (x := q) (y := q.ceil - 1)).mp (by omega)
  have hhi : q ≤ ((q.ceil : ℤ) : ℚ) := (Rat.ceil_le_iff (x := q) (y := q.ceil)).mp (le_refl _)
  constructor
  · have := rnd_monotone hp _ _ hlo.le
    rwa [rnd_fixes_small_integers hp h2] at this
  · have := rnd_monotone hp _ _ hhi
    rwa [rnd_fixes_small_integers hp h1] at this

/-- the two hypotheses of `C12_ceil_count_rounding`, in its own form, for the integers that matter -/
example : (∀ a b : Rat, a ≤ b → rnd 53 a ≤ rnd 53 b) ∧
    (∀ n : Int, n.natAbs ≤ 2 ^ 53 → rnd 53 (n : Rat) = (n : Rat)) :=
  ⟨rnd_monotone (by norm_num), fun _ h => rnd_fixes_small_integers (by norm_num) h⟩

example : ((((7 : ℚ) / 2).ceil - 1 : ℤ) : ℚ) ≤ rnd 53 (7 / 2) ∧ rnd 53 (7 / 2) ≤ ((((7 : ℚ) / 2).ceil : ℤ) : ℚ) :=
  rnd_ceil_bounds (by norm_num) _ (by decide +kernel) (by decide +kernel)

end HC.Rounding
