/-
  3-D vertex cells (`dim3/orbits.rs`, `dim3/basic_ops.rs` after /repo e8bc83e — the repair of D13:
  the sixth image `β2∘β3` makes the vertex images closed under inverse on EVERY well-formed 3-map):

  * `g3v` — the six images pushed by `vertex_id_transac`, as a pure function of the map;
  * `popLoop_spec` / `vertexId3_spec` — whatever `vertex_id_transac` returns is the smallest dart of
    the vertex cell (`IsVid3`), for the "mark on pop, push everything" traversal of `popLoop`
    (conditional correctness: a run that returns `Ok`; running out of fuel is `panic`);
  * `gstep3_iff` — on a `WF 4` map the generator steps are the symmetric closure of the three
    forward images `β3∘β2, β1∘β3, β1∘β2` (hence `InvClosed`);
  * `gstep3_link1` — what `β1 l := r ; β0 r := l` does to the generator steps: the new pairs
    `β3 l — r` and `β2 l — r`;
  * `sameCell_add_pairs` — Appendix A3 for several new pairs between the same two old cells;
  * `vertex_cells_oneLink3` — the vertex cells after the 3-D `one_link` (which also links the β3
    images): the cells of the head of `l` (`β3 l`, else `β2 l`) and of `r` are united, nothing else
    changes.
-/
import Honeycomb.Lemmas.Link3
import Honeycomb.Lemmas.CellCalc

set_option linter.unusedSimpArgs false
set_option linter.unusedVariables false

namespace HC.Cell3
open HC HC.CellCalc
variable {X : Type}

/-- the six images of `vertex_id_transac`, in push order -/
def g3v (m : Map X) (x : Nat) : List Nat :=
  [m.β 1 (m.β 3 x), m.β 3 (m.β 2 x), m.β 1 (m.β 2 x), m.β 3 (m.β 0 x), m.β 2 (m.β 0 x), m.β 2 (m.β 3 x)]

theorem run_genVid3 {x : Nat} {ims : List Nat} {m m' : Map X}
    (h : run (genVid3 (X := X) x) m = (.ok ims, m')) : m' = m ∧ ims = g3v m x := by
  unfold genVid3 at h
  obtain ⟨b0, h0, h⟩ := run_ro_bind_ok (ReadOnly.rB _ _) h
  obtain ⟨rfl, _, _⟩ := run_rB_ok h0
  obtain ⟨b2, h2, h⟩ := run_ro_bind_ok (ReadOnly.rB _ _) h
  obtain ⟨rfl, _, _⟩ := run_rB_ok h2
  obtain ⟨b3, h3, h⟩ := run_ro_bind_ok (ReadOnly.rB _ _) h
  obtain ⟨rfl, _, _⟩ := run_rB_ok h3
  obtain ⟨i1, k1, h⟩ := run_ro_bind_ok (ReadOnly.rB _ _) h
  obtain ⟨rfl, _, _⟩ := run_rB_ok k1
  obtain ⟨i2, k2, h⟩ := run_ro_bind_ok (ReadOnly.rB _ _) h
  obtain ⟨rfl, _, _⟩ := run_rB_ok k2
  obtain ⟨i3, k3, h⟩ := run_ro_bind_ok (ReadOnly.rB _ _) h
  obtain ⟨rfl, _, _⟩ := run_rB_ok k3
  obtain ⟨i4, k4, h⟩ := run_ro_bind_ok (ReadOnly.rB _ _) h
  obtain ⟨rfl, _, _⟩ := run_rB_ok k4
  obtain ⟨i5, k5, h⟩ := run_ro_bind_ok (ReadOnly.rB _ _) h
  obtain ⟨rfl, _, _⟩ := run_rB_ok k5
  obtain ⟨i6, k6, h⟩ := run_ro_bind_ok (ReadOnly.rB _ _) h
  obtain ⟨rfl, _, _⟩ := run_rB_ok k6
  obtain ⟨e, hm⟩ := run_pure_ok h
  exact ⟨hm, e⟩

/-! ## the traversal of `vertex_id_transac` -/

/-- invariant of `popLoop` at the loop head -/
structure PInv (g : Nat → List Nat) (d : Nat) (pending marked : List Nat) (mn : Nat) : Prop where
  m0 : 0 ∈ marked
  mreach : ∀ x, x ∈ marked → x ≠ 0 → Reach g d x
  preach : ∀ x, x ∈ pending → x ≠ 0 → Reach g d x
  closed : ∀ x, x ∈ marked → x ≠ 0 → ∀ y, y ∈ g x → y ∈ marked ∨ y ∈ pending
  dmem : d ∈ marked ∨ d ∈ pending
  mnle : mn ≤ d ∧ ∀ x, x ∈ marked → x ≠ 0 → mn ≤ x
  mnmem : mn = d ∨ (mn ∈ marked ∧ mn ≠ 0)

theorem popLoop_spec {g : Nat → List Nat} {gen : Nat → P X (List Nat)} {d : Nat} {m : Map X}
    (hgen : ∀ x ims m', run (gen x) m = (.ok ims, m') → m' = m ∧ ims = g x)
    (h0 : ∀ y, y ∈ g 0 → y = 0) :
    ∀ (f : Nat) (pending marked : List Nat) (mn v : Nat) (m' : Map X),
      PInv g d pending marked mn →
      run (popLoop gen f pending marked mn) m = (.ok v, m') →
      m' = m ∧ v ≤ d ∧ (∀ e, Reach g d e → e ≠ 0 → v ≤ e) ∧ (v = d ∨ (Reach g d v ∧ v ≠ 0)) := by
  intro f
  induction f with
  | zero =>
      intro p mk mn v m' _ h
      unfold popLoop at h; simp at h
  | succ f ih =>
      intro p mk mn v m' I h
      cases p with
      | nil =>
          unfold popLoop at h
          obtain ⟨rfl, rfl⟩ := run_pure_ok h
          have hd : d ∈ mk := by
            rcases I.dmem with hh | hh
            · exact hh
            · exact absurd hh (by simp)
          have all : ∀ e, Reach g d e → e ≠ 0 → e ∈ mk := by
            intro e he
            induction he with
            | refl => intro _; exact hd
            | tail hab hc ih2 =>
                rename_i b c
                intro hc0
                have hb0 : b ≠ 0 := Reach.pred_ne_zero h0 hc hc0
                rcases I.closed b (ih2 hb0) hb0 c hc with hh | hh
                · exact hh
                · exact absurd hh (by simp)
          refine ⟨rfl, I.mnle.1, fun e he he0 => I.mnle.2 e (all e he he0) he0, ?_⟩
          rcases I.mnmem with hh | ⟨hh, hh0⟩
          · exact Or.inl hh
          · exact Or.inr ⟨I.mreach _ hh hh0, hh0⟩
      | cons x rest =>
          unfold popLoop at h
          by_cases hc : mk.contains x = true
          · rw [if_pos hc] at h
            have hx : x ∈ mk := by simpa using hc
            refine ih rest mk mn v m' ⟨I.m0, I.mreach, fun y hy => I.preach y (by simp [hy]), ?_, ?_,
              I.mnle, I.mnmem⟩ h
            · intro a ha ha0 y hy
              rcases I.closed a ha ha0 y hy with hh | hh
              · exact Or.inl hh
              · rcases List.mem_cons.1 hh with rfl | hh'
                · exact Or.inl hx
                · exact Or.inr hh'
            · rcases I.dmem with hh | hh
              · exact Or.inl hh
              · rcases List.mem_cons.1 hh with rfl | hh'
                · exact Or.inl hx
                · exact Or.inr hh'
          · rw [if_neg hc] at h
            have hx : x ∉ mk := by simpa using hc
            have hx0 : x ≠ 0 := fun hh => hx (hh ▸ I.m0)
            obtain ⟨ims, m1, hg, h⟩ := run_bind_ok h
            obtain ⟨rfl, rfl⟩ := hgen x ims m1 hg
            have hrx : Reach g d x := I.preach x (by simp) hx0
            refine ih (rest ++ g x) (mk ++ [x]) (min mn x) v m' ⟨by simp [I.m0], ?_, ?_, ?_, ?_, ?_, ?_⟩ h
            · intro y hy hy0
              rcases List.mem_append.1 hy with hh | hh
              · exact I.mreach y hh hy0
              · simp at hh; subst hh; exact hrx
            · intro y hy hy0
              rcases List.mem_append.1 hy with hh | hh
              · exact I.preach y (by simp [hh]) hy0
              · exact .tail hrx hh
            · intro a ha ha0 y hy
              rcases List.mem_append.1 ha with hh | hh
              · rcases I.closed a hh ha0 y hy with k | k
                · exact Or.inl (by simp [k])
                · rcases List.mem_cons.1 k with rfl | k'
                  · exact Or.inl (by simp)
                  · exact Or.inr (by simp [k'])
              · simp at hh; subst hh
                exact Or.inr (by simp [hy])
            · rcases I.dmem with hh | hh
              · exact Or.inl (by simp [hh])
              · rcases List.mem_cons.1 hh with rfl | hh'
                · exact Or.inl (by simp)
                · exact Or.inr (by simp [hh'])
            · refine ⟨by have := I.mnle.1; omega, ?_⟩
              intro y hy hy0
              rcases List.mem_append.1 hy with hh | hh
              · have := I.mnle.2 y hh hy0; omega
              · simp at hh; subst hh; omega
            · by_cases hle : mn ≤ x
              · rw [Nat.min_eq_left hle]
                rcases I.mnmem with hh | ⟨hh, hh0⟩
                · exact Or.inl hh
                · exact Or.inr ⟨by simp [hh], hh0⟩
              · rw [Nat.min_eq_right (by omega)]
                exact Or.inr ⟨by simp, hx0⟩


/-! ## the generator steps on a well-formed 3-map -/

theorem invol_back {m : Map X} (h : WF 4 m) {i x : Nat} (hi2 : 2 ≤ i) (hi : i < 4) (hx : x < m.n)
    (hne : m.β i x ≠ 0) : m.β i (m.β i x) = x := (h.invol i hi hi2 x hx hne).1

/-- `b = βi (βj a)` read backwards (`i, j ∈ {2, 3}`) -/
theorem back_ij {m : Map X} (h : WF 4 m) {i j a b : Nat} (hi2 : 2 ≤ i) (hi : i < 4) (hj2 : 2 ≤ j) (hj : j < 4)
    (ha : a < m.n) (hb0 : b ≠ 0) (hb : b = m.β i (m.β j a)) : a = m.β j (m.β i b) := by
  have hc0 : m.β j a ≠ 0 := fun hh => hb0 (by rw [hb, hh]; exact h.null i hi)
  have hcn : m.β j a < m.n := h.range j hj a ha
  have e1 : m.β i b = m.β j a := by rw [hb]; exact invol_back h hi2 hi hcn (by rw [← hb]; exact hb0)
  rw [e1]; exact (invol_back h hj2 hj ha hc0).symm

/-- `b = βi (β0 a)` read backwards (`i ∈ {2, 3}`) -/
theorem back_i0 {m : Map X} (h : WF 4 m) {i a b : Nat} (hi2 : 2 ≤ i) (hi : i < 4)
    (ha : a < m.n) (hb0 : b ≠ 0) (hb : b = m.β i (m.β 0 a)) : a = m.β 1 (m.β i b) := by
  have hc0 : m.β 0 a ≠ 0 := fun hh => hb0 (by rw [hb, hh]; exact h.null i hi)
  have hcn : m.β 0 a < m.n := h.range 0 (by omega) a ha
  have e1 : m.β i b = m.β 0 a := by rw [hb]; exact invol_back h hi2 hi hcn (by rw [← hb]; exact hb0)
  rw [e1]; exact (h.inv10 a ha hc0).symm

/-- `b = β1 (βi a)` read backwards (`i ∈ {2, 3}`) -/
theorem back_1i {m : Map X} (h : WF 4 m) {i a b : Nat} (hi2 : 2 ≤ i) (hi : i < 4)
    (ha : a < m.n) (hb0 : b ≠ 0) (hb : b = m.β 1 (m.β i a)) : a = m.β i (m.β 0 b) := by
  have hc0 : m.β i a ≠ 0 := fun hh => hb0 (by rw [hb, hh]; exact h.null 1 (by omega))
  have hcn : m.β i a < m.n := h.range i hi a ha
  have e1 : m.β 0 b = m.β i a := by rw [hb]; exact h.inv01 _ hcn (by rw [← hb]; exact hb0)
  rw [e1]; exact (invol_back h hi2 hi ha hc0).symm

/-- the three forward images `β3∘β2, β1∘β3, β1∘β2` -/
def F (m : Map X) (a b : Nat) : Prop :=
  b = m.β 3 (m.β 2 a) ∨ b = m.β 1 (m.β 3 a) ∨ b = m.β 1 (m.β 2 a)

theorem g3v_range {m : Map X} (h : WF 4 m) : ∀ a, a < m.n → ∀ y, y ∈ g3v m a → y < m.n := by
  intro a ha y hy
  have r := fun i (hi : i < 4) x (hx : x < m.n) => h.range i hi x hx
  simp only [g3v, List.mem_cons, List.not_mem_nil, or_false] at hy
  rcases hy with rfl | rfl | rfl | rfl | rfl | rfl
  · exact r 1 (by omega) _ (r 3 (by omega) a ha)
  · exact r 3 (by omega) _ (r 2 (by omega) a ha)
  · exact r 1 (by omega) _ (r 2 (by omega) a ha)
  · exact r 3 (by omega) _ (r 0 (by omega) a ha)
  · exact r 2 (by omega) _ (r 0 (by omega) a ha)
  · exact r 2 (by omega) _ (r 3 (by omega) a ha)

theorem g3v_null {m : Map X} (h : WF 4 m) : ∀ y, y ∈ g3v m 0 → y = 0 := by
  intro y hy
  simp only [g3v, List.mem_cons, List.not_mem_nil, or_false, h.null 0 (by omega), h.null 1 (by omega),
    h.null 2 (by omega), h.null 3 (by omega), or_self] at hy
  exact hy

/-- on a well-formed 3-map the generator steps are the symmetric closure of the three forward
    images -/
theorem gstep3_iff {m : Map X} (h : WF 4 m) (a b : Nat) :
    GStep (g3v m) m.n a b ↔ a ≠ 0 ∧ a < m.n ∧ b ≠ 0 ∧ b < m.n ∧ (F m a b ∨ F m b a) := by
  unfold GStep
  constructor
  · rintro ⟨ha0, ha, hb0, hb⟩
    refine ⟨ha0, ha, hb0, g3v_range h a ha b hb, ?_⟩
    simp only [g3v, List.mem_cons, List.not_mem_nil, or_false] at hb
    rcases hb with hb | hb | hb | hb | hb | hb
    · exact Or.inl (Or.inr (Or.inl hb))
    · exact Or.inl (Or.inl hb)
    · exact Or.inl (Or.inr (Or.inr hb))
    · exact Or.inr (Or.inr (Or.inl (back_i0 h (by omega) (by omega) ha hb0 hb)))
    · exact Or.inr (Or.inr (Or.inr (back_i0 h (by omega) (by omega) ha hb0 hb)))
    · exact Or.inr (Or.inl (back_ij h (by omega) (by omega) (by omega) (by omega) ha hb0 hb))
  · rintro ⟨ha0, ha, hb0, hb, hF⟩
    refine ⟨ha0, ha, hb0, ?_⟩
    simp only [g3v, List.mem_cons, List.not_mem_nil, or_false]
    rcases hF with (k | k | k) | (k | k | k)
    · exact Or.inr (Or.inl k)
    · exact Or.inl k
    · exact Or.inr (Or.inr (Or.inl k))
    · exact Or.inr (Or.inr (Or.inr (Or.inr (Or.inr
        (back_ij h (by omega) (by omega) (by omega) (by omega) hb ha0 k)))))
    · exact Or.inr (Or.inr (Or.inr (Or.inl (back_1i h (by omega) (by omega) hb ha0 k))))
    · exact Or.inr (Or.inr (Or.inr (Or.inr (Or.inl (back_1i h (by omega) (by omega) hb ha0 k)))))

theorem g3v_invClosed {m : Map X} (h : WF 4 m) : InvClosed (g3v m) m.n := by
  intro x hx y hy hy0
  by_cases hx0 : x = 0
  · subst hx0; exact absurd (g3v_null h y hy) hy0
  · have := (gstep3_iff h x y).1 ⟨hx0, hx, hy0, hy⟩
    obtain ⟨_, _, _, hyn, hF⟩ := this
    exact ((gstep3_iff h y x).2 ⟨hy0, hyn, hx0, hx, hF.symm⟩).2.2.2

/-- `v` is the smallest dart of the vertex cell of `d` -/
def IsVid3 (m : Map X) (d v : Nat) : Prop :=
  SameCell (g3v m) m.n d v ∧ ∀ e, SameCell (g3v m) m.n d e → e ≠ 0 → v ≤ e

/-- **what `vertex_id_transac` returns** (any fuel, any successful run): the smallest dart of the
    vertex cell, the cell being the closure of the dart under the images AND their inverses — on
    every well-formed 3-map, open faces included (since /repo e8bc83e) -/
theorem vertexId3_spec {m m' : Map X} (h : WF 4 m) {n' d v : Nat} (hd0 : d ≠ 0) (hd : d < m.n)
    (hr : run (vertexId3 (X := X) n' d) m = (.ok v, m')) : m' = m ∧ IsVid3 m d v := by
  unfold vertexId3 at hr
  have I : PInv (g3v m) d [d] [0] d :=
    ⟨by simp, fun x hx hx0 => absurd (by simpa using hx) hx0, fun x hx _ => by
      have : x = d := by simpa using hx
      subst this; exact .refl _,
     fun x hx hx0 => absurd (by simpa using hx) hx0, Or.inr (by simp), ⟨Nat.le_refl _, fun x hx hx0 =>
      absurd (by simpa using hx) hx0⟩, Or.inl rfl⟩
  obtain ⟨hm, hle, hmin, hmem⟩ := popLoop_spec (g := g3v m) (fun x ims m1 hg => run_genVid3 hg) (g3v_null h)
    _ _ _ _ v m' I hr
  have iff := sameCell_iff_reach (g3v_null h) (g3v_range h) (g3v_invClosed h) hd0 hd
  refine ⟨hm, ?_, ?_⟩
  · rcases hmem with rfl | ⟨hv, hv0⟩
    · exact .refl _
    · exact (iff v).2 ⟨hv0, hv⟩
  · intro e he he0
    exact hmin e ((iff e).1 he).2 he0

theorem IsVid3.unique {m : Map X} {d v w : Nat} (hv : IsVid3 m d v) (hw : IsVid3 m d w)
    (hv0 : v ≠ 0) (hw0 : w ≠ 0) : v = w := by
  have a := hv.2 w hw.1 hw0
  have b := hw.2 v hv.1 hv0
  omega


/-! ## what a 1-link does to the generator steps -/

/-- new directed pairs created by `β1 l := r`: from the darts whose β3 / β2 image is `l`, to `r` -/
def NP (m : Map X) (l r a b : Nat) : Prop := a ≠ 0 ∧ a < m.n ∧ b = r ∧ (m.β 3 a = l ∨ m.β 2 a = l)

theorem np_src {m : Map X} (h : WF 4 m) {l r a b : Nat} (hl0 : l ≠ 0) (hnp : NP m l r a b) :
    b = r ∧ ((a = m.β 3 l ∧ m.β 3 l ≠ 0) ∨ (a = m.β 2 l ∧ m.β 2 l ≠ 0)) := by
  obtain ⟨ha0, ha, hb, hx⟩ := hnp
  refine ⟨hb, ?_⟩
  rcases hx with hx | hx
  · have := invol_back h (i := 3) (by omega) (by omega) ha (by rw [hx]; exact hl0)
    rw [hx] at this
    exact Or.inl ⟨this.symm, by rw [this]; exact ha0⟩
  · have := invol_back h (i := 2) (by omega) (by omega) ha (by rw [hx]; exact hl0)
    rw [hx] at this
    exact Or.inr ⟨this.symm, by rw [this]; exact ha0⟩

theorem np_of_b3 {m : Map X} (h : WF 4 m) {l r : Nat} (hl : l < m.n) (hne : m.β 3 l ≠ 0) :
    NP m l r (m.β 3 l) r :=
  ⟨hne, h.range 3 (by omega) l hl, rfl, Or.inl (invol_back h (by omega) (by omega) hl hne)⟩

theorem np_of_b2 {m : Map X} (h : WF 4 m) {l r : Nat} (hl : l < m.n) (hne : m.β 2 l ≠ 0) :
    NP m l r (m.β 2 l) r :=
  ⟨hne, h.range 2 (by omega) l hl, rfl, Or.inr (invol_back h (by omega) (by omega) hl hne)⟩

/-- the β2 image and the β3 image of a dart start at the same vertex (the head of the dart) -/
theorem head_same {m : Map X} (h : WF 4 m) {l : Nat} (hl : l < m.n) (h2 : m.β 2 l ≠ 0) (h3 : m.β 3 l ≠ 0) :
    SameCell (g3v m) m.n (m.β 2 l) (m.β 3 l) := by
  refine .step ((gstep3_iff h _ _).2 ⟨h2, h.range 2 (by omega) l hl, h3, h.range 3 (by omega) l hl, Or.inl (Or.inl ?_)⟩)
  rw [invol_back h (by omega) (by omega) hl h2]

theorem gstep3_link1 {m : Map X} (h : WF 4 m) {l r : Nat}
    (hl0 : l ≠ 0) (hr0 : r ≠ 0) (hl : l < m.n) (hr : r < m.n)
    (hul : m.unused l = false) (hur : m.unused r = false)
    (h1 : m.β 1 l = 0) (h0 : m.β 0 r = 0) (a b : Nat) :
    GStep (g3v (m.link1 l r)) m.n a b ↔ (GStep (g3v m) m.n a b ∨ NP m l r a b ∨ NP m l r b a) := by
  have hw1 : WF 4 (m.link1 l r) := h.link1 (by omega) hl0 hr0 hl hr hul hur h1 h0
  have eβ := h.toSized.β_link1 (by omega) hl hr
  have e1 : ∀ x, (m.link1 l r).β 1 x = if l = x then r else m.β 1 x := by intro x; rw [eβ]; simp
  have e2 : ∀ x, (m.link1 l r).β 2 x = m.β 2 x := by intro x; rw [eβ]; simp
  have e3 : ∀ x, (m.link1 l r).β 3 x = m.β 3 x := by intro x; rw [eβ]; simp
  have hF : ∀ a b, b ≠ 0 → (F (m.link1 l r) a b ↔ (F m a b ∨ (b = r ∧ (m.β 3 a = l ∨ m.β 2 a = l)))) := by
    intro a b hb0
    unfold F
    simp only [e1, e2, e3]
    constructor
    · rintro (k | k | k)
      · exact Or.inl (Or.inl k)
      · by_cases hc : l = m.β 3 a
        · rw [if_pos hc] at k; exact Or.inr ⟨k, Or.inl hc.symm⟩
        · rw [if_neg hc] at k; exact Or.inl (Or.inr (Or.inl k))
      · by_cases hc : l = m.β 2 a
        · rw [if_pos hc] at k; exact Or.inr ⟨k, Or.inr hc.symm⟩
        · rw [if_neg hc] at k; exact Or.inl (Or.inr (Or.inr k))
    · rintro ((k | k | k) | ⟨k, k' | k'⟩)
      · exact Or.inl k
      · by_cases hc : l = m.β 3 a
        · exfalso; rw [← hc, h1] at k; exact hb0 k
        · exact Or.inr (Or.inl (by rw [if_neg hc]; exact k))
      · by_cases hc : l = m.β 2 a
        · exfalso; rw [← hc, h1] at k; exact hb0 k
        · exact Or.inr (Or.inr (by rw [if_neg hc]; exact k))
      · exact Or.inr (Or.inl (by rw [if_pos k'.symm]; exact k))
      · exact Or.inr (Or.inr (by rw [if_pos k'.symm]; exact k))
  have hn : (m.link1 l r).n = m.n := rfl
  have g1 := gstep3_iff hw1 a b
  rw [hn] at g1
  rw [g1, gstep3_iff h a b]
  unfold NP
  constructor
  · rintro ⟨ha0, ha, hb0, hb, k⟩
    rcases k with k | k
    · rcases (hF a b hb0).1 k with k | ⟨k1, k2⟩
      · exact Or.inl ⟨ha0, ha, hb0, hb, Or.inl k⟩
      · exact Or.inr (Or.inl ⟨ha0, ha, k1, k2⟩)
    · rcases (hF b a ha0).1 k with k | ⟨k1, k2⟩
      · exact Or.inl ⟨ha0, ha, hb0, hb, Or.inr k⟩
      · exact Or.inr (Or.inr ⟨hb0, hb, k1, k2⟩)
  · rintro (⟨ha0, ha, hb0, hb, k⟩ | ⟨ha0, ha, k1, k2⟩ | ⟨hb0, hb, k1, k2⟩)
    · rcases k with k | k
      · exact ⟨ha0, ha, hb0, hb, Or.inl ((hF a b hb0).2 (Or.inl k))⟩
      · exact ⟨ha0, ha, hb0, hb, Or.inr ((hF b a ha0).2 (Or.inl k))⟩
    · have hb0 : b ≠ 0 := by rw [k1]; exact hr0
      exact ⟨ha0, ha, hb0, by rw [k1]; exact hr, Or.inl ((hF a b hb0).2 (Or.inr ⟨k1, k2⟩))⟩
    · have ha0 : a ≠ 0 := by rw [k1]; exact hr0
      exact ⟨ha0, by rw [k1]; exact hr, hb0, hb, Or.inr ((hF b a ha0).2 (Or.inr ⟨k1, k2⟩))⟩

/-- Appendix A3 for several new symmetric pairs, all of them between the old cells of `p` and `q` -/
theorem sameCell_add_pairs {g g' : Nat → List Nat} {n p q : Nat} {R : Nat → Nat → Prop}
    (hstep : ∀ a b, GStep g' n a b ↔ (GStep g n a b ∨ R a b ∨ R b a))
    (hR : ∀ a b, R a b → (SameCell g n a p ∧ SameCell g n b q) ∨ (SameCell g n a q ∧ SameCell g n b p))
    (hpq : SameCell g' n p q) (d e : Nat) : SameCell g' n d e ↔ United g n p q d e := by
  have key : ∀ a b, R a b → United g n p q a b := by
    intro a b hr
    rcases hR a b hr with ⟨k1, k2⟩ | ⟨k1, k2⟩
    · exact Or.inr (Or.inl ⟨k1, .symm k2⟩)
    · exact Or.inr (Or.inr ⟨k1, .symm k2⟩)
  constructor
  · intro h
    induction h with
    | refl a => exact United.refl a
    | step hs =>
        rcases (hstep _ _).1 hs with h | h | h
        · exact Or.inl (.step h)
        · exact key _ _ h
        · exact (key _ _ h).symm
    | symm _ ih => exact ih.symm
    | trans _ _ ih1 ih2 => exact ih1.trans ih2
  · have mono : ∀ a b, SameCell g n a b → SameCell g' n a b := by
      intro a b h
      induction h with
      | refl a => exact .refl a
      | step hs => exact .step ((hstep _ _).2 (Or.inl hs))
      | symm _ ih => exact .symm ih
      | trans _ _ ih1 ih2 => exact .trans ih1 ih2
    intro h
    rcases h with h | ⟨h1, h2⟩ | ⟨h1, h2⟩
    · exact mono _ _ h
    · exact .trans (mono _ _ h1) (.trans hpq (mono _ _ h2))
    · exact .trans (mono _ _ h1) (.trans (.symm hpq) (mono _ _ h2))

/-! ## the vertex cells after the 3-D `one_link` -/

/-- the head of `l` as `one_sew` reads it: through β3, else through β2 (`0`: `l` is 2- and 3-free) -/
def headOf (m : Map X) (l : Nat) : Nat := if m.β 3 l ≠ 0 then m.β 3 l else m.β 2 l

/-- the two shapes of the state after a successful 3-D `one_link` -/
theorem oneLink3_form {l r : Nat} {m m1 : Map X} {u : Unit} (hw : WF 4 m) (hln : l < m.n) (hrn : r < m.n)
    (h : run (oneLink3 (X := X) l r) m = (.ok u, m1)) :
    m.β 1 l = 0 ∧ m.β 0 r = 0 ∧
    ((¬ (m.β 3 l ≠ 0 ∧ m.β 3 r ≠ 0) ∧ m1 = m.link1 l r) ∨
     (m.β 3 l ≠ 0 ∧ m.β 3 r ≠ 0 ∧ (m.link1 l r).β 1 (m.β 3 r) = 0 ∧ (m.link1 l r).β 0 (m.β 3 l) = 0 ∧
        m1 = (m.link1 l r).link1 (m.β 3 r) (m.β 3 l))) := by
  unfold oneLink3 at h
  obtain ⟨_, m0, hl, h⟩ := run_bind_ok h
  obtain ⟨_, _, f1, f0, rfl⟩ := oneLinkCore_ok hl
  have em : (m.setβ 1 l r).setβ 0 r l = m.link1 l r := rfl
  rw [em] at h
  obtain ⟨b3l, hb, h⟩ := run_ro_bind_ok (ReadOnly.rB _ _) h
  obtain ⟨rfl, _, _⟩ := run_rB_ok hb
  obtain ⟨b3r, hb', h⟩ := run_ro_bind_ok (ReadOnly.rB _ _) h
  obtain ⟨rfl, _, _⟩ := run_rB_ok hb'
  have ho1 : Only01 m (m.link1 l r) := Only01.link1 hw hln hrn
  have e3 : ∀ x, (m.link1 l r).β 3 x = m.β 3 x := fun x => ho1.β 3 x (by omega)
  rw [e3, e3] at h
  refine ⟨f1, f0, ?_⟩
  by_cases hc : m.β 3 l ≠ 0 ∧ m.β 3 r ≠ 0
  · rw [if_pos hc] at h
    obtain ⟨_, _, g1, g0, hm'⟩ := oneLinkCore_ok h
    exact Or.inr ⟨hc.1, hc.2, g1, g0, hm'⟩
  · rw [if_neg hc] at h
    obtain ⟨_, hm'⟩ := run_pure_ok h
    exact Or.inl ⟨hc, hm'⟩

/-- sources of the new pairs of `β1 l := r` lie in the old cell of the head of `l`, targets are `r` -/
theorem np_head_src {m : Map X} (hw : WF 4 m) {l r a b : Nat} (hl0 : l ≠ 0) (hln : l < m.n)
    (hnp : NP m l r a b) : headOf m l ≠ 0 ∧ SameCell (g3v m) m.n a (headOf m l) ∧ b = r := by
  obtain ⟨hb, hs⟩ := np_src hw hl0 hnp
  unfold headOf
  rcases hs with ⟨ha, hne⟩ | ⟨ha, hne⟩
  · rw [if_pos hne]; exact ⟨hne, by rw [ha]; exact .refl _, hb⟩
  · by_cases h3 : m.β 3 l ≠ 0
    · rw [if_pos h3]; exact ⟨h3, by rw [ha]; exact head_same hw hln hne h3, hb⟩
    · rw [if_neg h3]; exact ⟨hne, by rw [ha]; exact .refl _, hb⟩

theorem np_head {m : Map X} (hw : WF 4 m) {l r : Nat} (hln : l < m.n) (hh : headOf m l ≠ 0) :
    NP m l r (headOf m l) r := by
  unfold headOf at hh ⊢
  by_cases h3 : m.β 3 l ≠ 0
  · rw [if_pos h3]; exact np_of_b3 hw hln h3
  · rw [if_neg h3] at hh ⊢; exact np_of_b2 hw hln hh

/-- **cell calculus of `β1 l := r ; β0 r := l` on a 3-map**: the vertex cells are the old ones with
    the cell of the head of `l` and the cell of `r` united (unchanged when `l` is 2- and 3-free) -/
theorem cells_link1_single {m : Map X} (hw : WF 4 m) {l r : Nat}
    (hl0 : l ≠ 0) (hr0 : r ≠ 0) (hln : l < m.n) (hrn : r < m.n)
    (hul : m.unused l = false) (hur : m.unused r = false)
    (f1 : m.β 1 l = 0) (f0 : m.β 0 r = 0) (d e : Nat) :
    SameCell (g3v (m.link1 l r)) m.n d e ↔
      if headOf m l = 0 then SameCell (g3v m) m.n d e else United (g3v m) m.n (headOf m l) r d e := by
  have s0 := gstep3_link1 hw hl0 hr0 hln hrn hul hur f1 f0
  split
  · rename_i hh
    refine sameCell_congr (fun a b => ?_) d e
    rw [s0 a b]
    constructor
    · rintro (k | k | k)
      · exact k
      · exact absurd hh (np_head_src hw hl0 hln k).1
      · exact absurd hh (np_head_src hw hl0 hln k).1
    · exact Or.inl
  · rename_i hh
    refine sameCell_add_pairs (R := NP m l r) s0 (fun a b k => ?_) ?_ d e
    · obtain ⟨_, k1, k2⟩ := np_head_src hw hl0 hln k
      exact Or.inl ⟨k1, by rw [k2]; exact .refl _⟩
    · exact .step ((s0 _ _).2 (Or.inr (Or.inl (np_head hw hln hh))))

/-- … and of the pair of 1-links performed by the 3-D `one_link` when both darts are 3-linked:
    `β1 l := r` and `β1 (β3 r) := β3 l` unite the same two cells -/
theorem cells_link1_double {m : Map X} (hw : WF 4 m) {l r : Nat}
    (hl0 : l ≠ 0) (hr0 : r ≠ 0) (hln : l < m.n) (hrn : r < m.n)
    (hul : m.unused l = false) (hur : m.unused r = false)
    (f1 : m.β 1 l = 0) (f0 : m.β 0 r = 0) (h3l : m.β 3 l ≠ 0) (h3r : m.β 3 r ≠ 0)
    (g1 : (m.link1 l r).β 1 (m.β 3 r) = 0) (g0 : (m.link1 l r).β 0 (m.β 3 l) = 0) (d e : Nat) :
    SameCell (g3v ((m.link1 l r).link1 (m.β 3 r) (m.β 3 l))) m.n d e ↔
      United (g3v m) m.n (m.β 3 l) r d e := by
  have hw0 : WF 4 (m.link1 l r) := hw.link1 (by omega) hl0 hr0 hln hrn hul hur f1 f0
  have s0 := gstep3_link1 hw hl0 hr0 hln hrn hul hur f1 f0
  have hh : headOf m l = m.β 3 l := by unfold headOf; rw [if_pos h3l]
  have il := hw.image_inUse (i := 3) (by omega) hln h3l
  have ir := hw.image_inUse (i := 3) (by omega) hrn h3r
  have ho1 : Only01 m (m.link1 l r) := Only01.link1 hw hln hrn
  have s1 := gstep3_link1 hw0 (l := m.β 3 r) (r := m.β 3 l) h3r h3l ir.1 il.1
    (by rw [ho1.unused]; exact ir.2) (by rw [ho1.unused]; exact il.2) g1 g0
  have e2 : ∀ x, (m.link1 l r).β 2 x = m.β 2 x := fun x => ho1.β 2 x (by omega)
  have e3 : ∀ x, (m.link1 l r).β 3 x = m.β 3 x := fun x => ho1.β 3 x (by omega)
  have hn0 : (m.link1 l r).n = m.n := rfl
  rw [hn0] at s1
  refine sameCell_add_pairs (R := fun a b => NP m l r a b ∨ NP (m.link1 l r) (m.β 3 r) (m.β 3 l) a b)
    (fun a b => ?_) (fun a b k => ?_) ?_ d e
  · rw [s1 a b, s0 a b]
    constructor
    · rintro ((k | k | k) | k | k)
      · exact Or.inl k
      · exact Or.inr (Or.inl (Or.inl k))
      · exact Or.inr (Or.inr (Or.inl k))
      · exact Or.inr (Or.inl (Or.inr k))
      · exact Or.inr (Or.inr (Or.inr k))
    · rintro (k | (k | k) | (k | k))
      · exact Or.inl (Or.inl k)
      · exact Or.inl (Or.inr (Or.inl k))
      · exact Or.inr (Or.inl k)
      · exact Or.inl (Or.inr (Or.inr k))
      · exact Or.inr (Or.inr k)
  · rcases k with k | k
    · obtain ⟨_, k1, k2⟩ := np_head_src hw hl0 hln k
      rw [hh] at k1
      exact Or.inl ⟨k1, by rw [k2]; exact .refl _⟩
    · -- sources: `r` itself or `β2 (β3 r)`, both in the old cell of `r`; target: `β3 l`
      obtain ⟨hb, hs⟩ := np_src hw0 h3r k
      rw [e3, e2] at hs
      have r33 : m.β 3 (m.β 3 r) = r := invol_back hw (by omega) (by omega) hrn h3r
      refine Or.inr ⟨?_, by rw [hb]; exact .refl _⟩
      rcases hs with ⟨ha, _⟩ | ⟨ha, hne⟩
      · rw [ha, r33]; exact .refl _
      · rw [ha]
        have := head_same hw ir.1 hne (by rw [r33]; exact hr0)
        rw [r33] at this
        exact this
  · refine .step ((s1 _ _).2 (Or.inl ((s0 _ _).2 (Or.inr (Or.inl ?_)))))
    exact np_of_b3 hw hln h3l

/-- **cell calculus of the 3-D 1-link**: after a successful `one_link(l, r)` — which also 1-links
    the β3 images — the vertex cells are the old ones with the cell of the head of `l` and the cell
    of `r` united; nothing changes when `l` is 2- and 3-free -/
theorem vertex_cells_oneLink3 {l r : Nat} {m m1 : Map X} {u : Unit} (hw : WF 4 m)
    (hl0 : l ≠ 0) (hr0 : r ≠ 0) (hln : l < m.n) (hrn : r < m.n)
    (hul : m.unused l = false) (hur : m.unused r = false)
    (h : run (oneLink3 (X := X) l r) m = (.ok u, m1)) (d e : Nat) :
    SameCell (g3v m1) m.n d e ↔
      if headOf m l = 0 then SameCell (g3v m) m.n d e else United (g3v m) m.n (headOf m l) r d e := by
  obtain ⟨f1, f0, hform⟩ := oneLink3_form hw hln hrn h
  rcases hform with ⟨_, rfl⟩ | ⟨h3l, h3r, g1, g0, rfl⟩
  · exact cells_link1_single hw hl0 hr0 hln hrn hul hur f1 f0 d e
  · have hh : headOf m l = m.β 3 l := by unfold headOf; rw [if_pos h3l]
    rw [hh, if_neg h3l]
    exact cells_link1_double hw hl0 hr0 hln hrn hul hur f1 f0 h3l h3r g1 g0 d e

/-- the smallest dart of a united cell is the smaller of the two old smallest darts -/
theorem isVid3_united {m m1 : Map X} {p q vp vq : Nat} (hn : m1.n = m.n)
    (hcells : ∀ d e, SameCell (g3v m1) m.n d e ↔ United (g3v m) m.n p q d e)
    (hp : IsVid3 m p vp) (hq : IsVid3 m q vq) (hvp0 : vp ≠ 0) (hvq0 : vq ≠ 0) :
    IsVid3 m1 q (min vq vp) := by
  unfold IsVid3
  rw [hn]
  constructor
  · by_cases hle : vq ≤ vp
    · rw [Nat.min_eq_left hle]; exact (hcells _ _).2 (Or.inl hq.1)
    · rw [Nat.min_eq_right (by omega)]
      exact (hcells _ _).2 (Or.inr (Or.inr ⟨.refl _, hp.1⟩))
  · intro e he he0
    rcases (hcells _ _).1 he with k | ⟨k1, k2⟩ | ⟨k1, k2⟩
    · have := hq.2 e k he0; omega
    · have := hq.2 e k2 he0; omega
    · have := hp.2 e k2 he0; omega


/-! ## transport along equal β functions, representatives -/

theorem g3v_congr {m m' : Map X} (hβ : ∀ j e, m'.β j e = m.β j e) (x : Nat) : g3v m' x = g3v m x := by
  unfold g3v; simp only [hβ]

theorem sameCell_of_β_eq {m m' : Map X} (hβ : ∀ j e, m'.β j e = m.β j e) (n d e : Nat) :
    SameCell (g3v m') n d e ↔ SameCell (g3v m) n d e := by
  have : g3v m' = g3v m := funext (g3v_congr hβ)
  rw [this]

theorem sameCell_ne_zero {m : Map X} (h : WF 4 m) {d v : Nat} (hd0 : d ≠ 0) (hd : d < m.n)
    (hs : SameCell (g3v m) m.n d v) : v ≠ 0 ∧ v < m.n := by
  have := (sameCell_iff_reach (g3v_null h) (g3v_range h) (g3v_invClosed h) hd0 hd v).1 hs
  exact ⟨this.1, this.2.lt (g3v_range h) hd⟩

theorem IsVid3.ne_zero {m : Map X} (h : WF 4 m) {d v : Nat} (hd0 : d ≠ 0) (hd : d < m.n)
    (hv : IsVid3 m d v) : v ≠ 0 := (sameCell_ne_zero h hd0 hd hv.1).1

/-- the smallest dart of a cell does not depend on the dart it is computed from -/
theorem IsVid3.congr {m : Map X} {d d' v : Nat} (hv : IsVid3 m d v) (hs : SameCell (g3v m) m.n d d') :
    IsVid3 m d' v :=
  ⟨.trans (.symm hs) hv.1, fun e he he0 => hv.2 e (.trans hs he) he0⟩

/-! ## the vertex cells after the 3-D `one_unlink`: the old partition is the new one plus the
    removed pairs -/

theorem oneUnlink3_form {l : Nat} {m m1 : Map X} {u : Unit} (hw : WF 4 m) (hln : l < m.n)
    (h : run (oneUnlink3 (X := X) l) m = (.ok u, m1)) :
    m.β 1 l ≠ 0 ∧
    ((¬ (m.β 3 l ≠ 0 ∧ m.β 3 (m.β 1 l) ≠ 0) ∧ m1 = m.unlink1 l) ∨
     (m.β 3 l ≠ 0 ∧ m.β 3 (m.β 1 l) ≠ 0 ∧ (m.unlink1 l).β 1 (m.β 3 (m.β 1 l)) = m.β 3 l ∧
        m1 = (m.unlink1 l).unlink1 (m.β 3 (m.β 1 l)))) := by
  unfold oneUnlink3 at h
  obtain ⟨r, hb0, h⟩ := run_ro_bind_ok (ReadOnly.rB _ _) h
  obtain ⟨rfl, _, _⟩ := run_rB_ok hb0
  obtain ⟨_, m0, hl, h⟩ := run_bind_ok h
  obtain ⟨_, _, hne, rfl⟩ := oneUnlinkCore_ok hl
  have em : (m.setβ 1 l 0).setβ 0 (m.β 1 l) 0 = m.unlink1 l := rfl
  rw [em] at h
  obtain ⟨b3l, hb, h⟩ := run_ro_bind_ok (ReadOnly.rB _ _) h
  obtain ⟨rfl, _, _⟩ := run_rB_ok hb
  obtain ⟨b3r, hb', h⟩ := run_ro_bind_ok (ReadOnly.rB _ _) h
  obtain ⟨rfl, _, _⟩ := run_rB_ok hb'
  have ho1 : Only01 m (m.unlink1 l) := Only01.unlink1 hw hln
  have e3 : ∀ x, (m.unlink1 l).β 3 x = m.β 3 x := fun x => ho1.β 3 x (by omega)
  rw [e3, e3] at h
  refine ⟨hne, ?_⟩
  by_cases hc : m.β 3 l ≠ 0 ∧ m.β 3 (m.β 1 l) ≠ 0
  · rw [if_pos hc] at h
    obtain ⟨x, hx, h⟩ := run_ro_bind_ok (ReadOnly.rB _ _) h
    obtain ⟨rfl, _, _⟩ := run_rB_ok hx
    by_cases hxx : (m.unlink1 l).β 1 (m.β 3 (m.β 1 l)) ≠ m.β 3 l
    · rw [if_pos hxx] at h; simp at h
    · rw [if_neg hxx] at h
      obtain ⟨_, _, _, hm'⟩ := oneUnlinkCore_ok h
      exact Or.inr ⟨hc.1, hc.2, by omega, hm'⟩
  · rw [if_neg hc] at h
    obtain ⟨_, hm'⟩ := run_pure_ok h
    exact Or.inl ⟨hc, hm'⟩

/-- relinking what `one_unlink_core` unlinked restores every image -/
theorem relink1_β {m : Map X} (h : WF 4 m) {l : Nat} (hl : l < m.n) (hne : m.β 1 l ≠ 0) (j e : Nat) :
    ((m.unlink1 l).link1 l (m.β 1 l)).β j e = m.β j e := by
  have hr : m.β 1 l < m.n := h.range 1 (by omega) l hl
  have hw1 : WF 4 (m.unlink1 l) := h.unlink1 (by omega) hl hne
  rw [hw1.toSized.β_link1 (by omega) hl hr, h.toSized.β_unlink1 (by omega) hl hr]
  have back : m.β 0 (m.β 1 l) = l := h.inv01 l hl hne
  by_cases c0 : 0 = j ∧ m.β 1 l = e
  · rw [if_pos c0]; obtain ⟨rfl, rfl⟩ := c0; exact back.symm
  · rw [if_neg c0, if_neg c0]
    by_cases c1 : 1 = j ∧ l = e
    · rw [if_pos c1]; obtain ⟨rfl, rfl⟩ := c1; rfl
    · rw [if_neg c1, if_neg c1]

theorem vertex_cells_oneUnlink3 {l : Nat} {m m1 : Map X} {u : Unit} (hw : WF 4 m)
    (hl0 : l ≠ 0) (hln : l < m.n) (hul : m.unused l = false)
    (h : run (oneUnlink3 (X := X) l) m = (.ok u, m1)) :
    m.β 1 l ≠ 0 ∧ m1.n = m.n ∧ (∀ j e, 2 ≤ j → m1.β j e = m.β j e) ∧
    ∀ d e, SameCell (g3v m) m.n d e ↔
      if headOf m l = 0 then SameCell (g3v m1) m.n d e
      else United (g3v m1) m.n (headOf m l) (m.β 1 l) d e := by
  obtain ⟨hne, hform⟩ := oneUnlink3_form hw hln h
  have ir := hw.image_inUse (i := 1) (by omega) hln hne
  have hw1 : WF 4 (m.unlink1 l) := hw.unlink1 (by omega) hln hne
  have ho1 : Only01 m (m.unlink1 l) := Only01.unlink1 hw hln
  have eβ1 := hw.toSized.β_unlink1 (by omega) hln ir.1
  have back : m.β 0 (m.β 1 l) = l := hw.inv01 l hln hne
  have a1 : (m.unlink1 l).β 1 l = 0 := by rw [eβ1]; simp
  have a0 : (m.unlink1 l).β 0 (m.β 1 l) = 0 := by rw [eβ1]; simp
  have hr0 : m.β 1 l ≠ 0 := hne
  have hhead : ∀ m' : Map X, (∀ j e, 2 ≤ j → m'.β j e = m.β j e) → headOf m' l = headOf m l := by
    intro m' hm'; unfold headOf; rw [hm' 3 l (by omega), hm' 2 l (by omega)]
  rcases hform with ⟨_, rfl⟩ | ⟨h3l, h3r, hx, rfl⟩
  · refine ⟨hne, ho1.n, fun j e hj => ho1.β j e hj, fun d e => ?_⟩
    have key := cells_link1_single hw1 (l := l) (r := m.β 1 l) hl0 hr0 hln ir.1
      (by rw [ho1.unused]; exact hul) (by rw [ho1.unused]; exact ir.2) a1 a0 d e
    rw [hhead _ (fun j e hj => ho1.β j e hj)] at key
    rw [← sameCell_of_β_eq (relink1_β hw hln hne) m.n d e]
    exact key
  · -- both darts 3-linked: `β3 r → β3 l` was unlinked as well
    have il3 := hw.image_inUse (i := 3) (by omega) hln h3l
    have ir3 := hw.image_inUse (i := 3) (by omega) ir.1 h3r
    have hbn : m.β 3 (m.β 1 l) < (m.unlink1 l).n := ir3.1
    have hne2 : (m.unlink1 l).β 1 (m.β 3 (m.β 1 l)) ≠ 0 := by rw [hx]; exact h3l
    have hw2 : WF 4 ((m.unlink1 l).unlink1 (m.β 3 (m.β 1 l))) := hw1.unlink1 (by omega) hbn hne2
    have ho2 : Only01 (m.unlink1 l) ((m.unlink1 l).unlink1 (m.β 3 (m.β 1 l))) := Only01.unlink1 hw1 hbn
    have ho := ho1.trans ho2
    have eβ2 := hw1.toSized.β_unlink1 (by omega) hbn (hw1.range 1 (by omega) _ hbn)
    rw [hx] at eβ2
    -- facts about the intermediate map
    have lb : l ≠ m.β 3 (m.β 1 l) := by
      intro hh; rw [← hh, a1] at hx; exact h3l hx.symm
    have back1 : (m.unlink1 l).β 0 (m.β 3 l) = m.β 3 (m.β 1 l) := by
      have := hw1.inv01 _ hbn hne2; rwa [hx] at this
    have rb : m.β 1 l ≠ m.β 3 l := by
      intro hh; rw [← hh, a0] at back1; exact h3r back1.symm
    have b1 : ((m.unlink1 l).unlink1 (m.β 3 (m.β 1 l))).β 1 l = 0 := by
      rw [eβ2]; simp [a1]
    have b0 : ((m.unlink1 l).unlink1 (m.β 3 (m.β 1 l))).β 0 (m.β 1 l) = 0 := by
      rw [eβ2]; simp [a0]
    have e3 : ∀ x, ((m.unlink1 l).unlink1 (m.β 3 (m.β 1 l))).β 3 x = m.β 3 x := fun x => ho.β 3 x (by omega)
    refine ⟨hne, ho.n, fun j e hj => ho.β j e hj, fun d e => ?_⟩
    have hh : headOf m l = m.β 3 l := by unfold headOf; rw [if_pos h3l]
    rw [hh, if_neg h3l]
    have eA := hw2.toSized.β_link1 (by omega) (l := l) (r := m.β 1 l) hln ir.1
    have g1 : (((m.unlink1 l).unlink1 (m.β 3 (m.β 1 l))).link1 l (m.β 1 l)).β 1
        (((m.unlink1 l).unlink1 (m.β 3 (m.β 1 l))).β 3 (m.β 1 l)) = 0 := by
      rw [e3, eA, eβ2]; simp [lb]
    have g0 : (((m.unlink1 l).unlink1 (m.β 3 (m.β 1 l))).link1 l (m.β 1 l)).β 0
        (((m.unlink1 l).unlink1 (m.β 3 (m.β 1 l))).β 3 l) = 0 := by
      rw [e3, eA, eβ2]; simp [rb]
    have key := cells_link1_double hw2 (l := l) (r := m.β 1 l) hl0 hr0 hln ir.1
      (by rw [ho.unused]; exact hul) (by rw [ho.unused]; exact ir.2) b1 b0
      (by rw [e3]; exact h3l) (by rw [e3]; exact h3r) g1 g0 d e
    rw [e3, e3] at key
    -- the doubly relinked map has the images of `m`
    have hw3 : WF 4 (((m.unlink1 l).unlink1 (m.β 3 (m.β 1 l))).link1 l (m.β 1 l)) :=
      hw2.link1 (by omega) hl0 hr0 hln ir.1 (by rw [ho.unused]; exact hul) (by rw [ho.unused]; exact ir.2) b1 b0
    have hn3 : (((m.unlink1 l).unlink1 (m.β 3 (m.β 1 l))).link1 l (m.β 1 l)).n = m.n := by
      simp only [Map.link1, Map.unlink1, Map.n_setβ]
    have eB := hw3.toSized.β_link1 (by omega) (l := m.β 3 (m.β 1 l)) (r := m.β 3 l)
      (by rw [hn3]; exact ir3.1) (by rw [hn3]; exact il3.1)
    have b3back : m.β 0 (m.β 3 l) = m.β 3 (m.β 1 l) := by
      have := back1; rw [eβ1] at this
      have c0 : ¬ (0 = 0 ∧ m.β 1 l = m.β 3 l) := fun hh => rb hh.2
      rw [if_neg c0] at this
      simpa using this
    have b3fwd : m.β 1 (m.β 3 (m.β 1 l)) = m.β 3 l := by
      have := hx; rw [eβ1] at this
      have c1 : ¬ (1 = 1 ∧ l = m.β 3 (m.β 1 l)) := fun hh => lb hh.2
      simpa [lb] using this
    have hβ : ∀ j e, ((((m.unlink1 l).unlink1 (m.β 3 (m.β 1 l))).link1 l (m.β 1 l)).link1
        (m.β 3 (m.β 1 l)) (m.β 3 l)).β j e = m.β j e := by
      intro j e
      rw [eB, eA, eβ2, eβ1]
      by_cases j0 : 0 = j
      · subst j0
        simp only [true_and, show ¬ (1 = 0) by omega, false_and, if_false]
        by_cases c1 : m.β 3 l = e
        · rw [if_pos c1, ← c1]; exact b3back.symm
        · rw [if_neg c1]
          by_cases c2 : m.β 1 l = e
          · rw [if_pos c2, ← c2]; exact back.symm
          · rw [if_neg c2, if_neg c1, if_neg c2]
      · by_cases j1 : 1 = j
        · subst j1
          simp only [true_and, show ¬ (0 = 1) by omega, false_and, if_false]
          by_cases c1 : m.β 3 (m.β 1 l) = e
          · rw [if_pos c1, ← c1]; exact b3fwd.symm
          · rw [if_neg c1]
            by_cases c2 : l = e
            · rw [if_pos c2, ← c2]
            · rw [if_neg c2, if_neg c1, if_neg c2]
        · simp only [j0, j1, false_and, if_false]
    rw [← sameCell_of_β_eq hβ m.n d e]
    exact key

end HC.Cell3
