/-
  Range tracking for the bounded-exponent rounding `HC.Geo.rndB` (Model/Rounding.lean).

  `G g h x` : `x` is a multiple of `2^g` and `|x| ≤ 2^h`.  Floats of a bounded range live on such a grid,
  sums / differences / products of grid numbers live on explicit grids, rounding keeps both the grid and
  the cap, a NONZERO grid number is at least `2^g` in absolute value — hence every intermediate result of a
  polynomial expression is either zero or in the normal range as soon as `emin ≤ grid` and `cap ≤ emax`,
  and there the bounded rounding coincides with the unbounded one (`rndB_eq_rnd`, `rndB_of_G`).
-/
import Honeycomb.Lemmas.Rounding

namespace HC.Rounding
open HC.Geo

/-! ## `rndB` coincides with `rnd` in the normal range -/

theorem abs_ite (x : ℚ) : (if x < 0 then -x else x) = |x| := by
  split
  · rename_i h; exact (abs_of_neg h).symm
  · rename_i h; exact (abs_of_nonneg (not_lt.mp h)).symm

theorem maxFinite_eq (p : ℕ) (emax : ℤ) :
    maxFinite p emax = (((2 ^ p - 1 : ℕ) : ℚ)) * (2 : ℚ) ^ (emax - (p : ℤ) + 1) := by
  simp only [maxFinite, pow2_eq]

/-- `2^emax ≤ maxFinite` (for `p ≥ 1`) -/
theorem two_zpow_le_maxFinite {p : ℕ} (hp : 0 < p) (emax : ℤ) : (2 : ℚ) ^ emax ≤ maxFinite p emax := by
  rw [maxFinite_eq]
  have e : (2 : ℚ) ^ emax = (2 : ℚ) ^ ((p : ℤ) - 1) * 2 ^ (emax - (p : ℤ) + 1) := by
    rw [← two_zpow_add]; congr 1; ring
  rw [e]
  apply mul_le_mul_of_nonneg_right _ (two_zpow_pos _).le
  rw [zpow_pred_cast hp]
  have h1 : 2 ^ (p - 1) ≤ 2 ^ p - 1 := by
    have : 2 ^ p = 2 * 2 ^ (p - 1) := by
      conv_lhs => rw [show p = (p - 1) + 1 by omega, pow_succ]
      ring
    have := Nat.one_le_two_pow (n := p - 1)
    omega
  have : (((2 : ℤ) ^ (p - 1) : ℤ) : ℚ) = (((2 ^ (p - 1) : ℕ)) : ℚ) := by push_cast; rfl
  rw [this]; exact_mod_cast h1

/-- `|x| ≤ 2^h` is kept by rounding (`2^h` is a floating-point number) -/
theorem abs_rnd_le_two_zpow {p : ℕ} (hp : 0 < p) {x : ℚ} {h : ℤ} (hx : |x| ≤ (2 : ℚ) ^ h) :
    |rnd p x| ≤ (2 : ℚ) ^ h := by
  have hrep : rnd p ((2 : ℚ) ^ h) = (2 : ℚ) ^ h :=
    rnd_of_representable hp ⟨1, h, by simpa using Nat.one_le_two_pow, by simp⟩
  have hle := abs_le.mp hx
  rw [abs_le]
  constructor
  · have := rnd_monotone hp _ _ hle.1
    rwa [rnd_neg, hrep] at this
  · have := rnd_monotone hp _ _ hle.2
    rwa [hrep] at this

/-- **the bounded rounding is the unbounded one** on zero and on the normal range -/
theorem rndB_eq_rnd {p : ℕ} (hp : 0 < p) {emin emax : ℤ} {x : ℚ}
    (hlo : x = 0 ∨ (2 : ℚ) ^ emin ≤ |x|) (hhi : |x| ≤ (2 : ℚ) ^ emax) :
    rndB p emin emax x = some (rnd p x) := by
  rcases hlo with rfl | hlo
  · have : (0 : ℚ) < pow2 emin := by rw [pow2_eq]; exact two_zpow_pos _
    simp [rndB, this, rnd_zero, show roundEven (0 : ℚ) = 0 from by
      have := roundEven_intCast 0; simpa using this]
  · unfold rndB
    simp only [abs_ite, pow2_eq]
    rw [if_neg (not_lt.mpr hlo)]
    have := (abs_rnd_le_two_zpow hp hhi).trans (two_zpow_le_maxFinite hp emax)
    rw [if_neg (not_lt.mpr this)]

/-! ## grids -/

/-- `x` is a multiple of `2^g` with `|x| ≤ 2^h` -/
def G (g h : ℤ) (x : ℚ) : Prop := (∃ k : ℤ, x = (k : ℚ) * 2 ^ g) ∧ |x| ≤ (2 : ℚ) ^ h

theorem G.zero (g h : ℤ) : G g h 0 := ⟨⟨0, by simp⟩, by simpa using (two_zpow_pos h).le⟩

/-- a nonzero grid number is at least one grid step -/
theorem G.lower {g h : ℤ} {x : ℚ} (hx : G g h x) (h0 : x ≠ 0) : (2 : ℚ) ^ g ≤ |x| := by
  obtain ⟨⟨k, rfl⟩, _⟩ := hx
  have hk : k ≠ 0 := by rintro rfl; simp at h0
  rw [abs_mul, abs_of_pos (two_zpow_pos g)]
  have : (1 : ℚ) ≤ |(k : ℚ)| := by
    have : (1 : ℤ) ≤ |k| := Int.one_le_abs hk
    exact_mod_cast this
  calc (2 : ℚ) ^ g = 1 * 2 ^ g := (one_mul _).symm
    _ ≤ |(k : ℚ)| * 2 ^ g := mul_le_mul_of_nonneg_right this (two_zpow_pos g).le

theorem G.neg {g h : ℤ} {x : ℚ} (hx : G g h x) : G g h (-x) := by
  obtain ⟨⟨k, rfl⟩, hb⟩ := hx
  exact ⟨⟨-k, by push_cast; ring⟩, by rwa [abs_neg]⟩

theorem G.add {g h : ℤ} {x y : ℚ} (hx : G g h x) (hy : G g h y) : G g (h + 1) (x + y) := by
  obtain ⟨⟨k, rfl⟩, hbx⟩ := hx
  obtain ⟨⟨l, rfl⟩, hby⟩ := hy
  refine ⟨⟨k + l, by push_cast; ring⟩, ?_⟩
  rw [two_zpow_succ]
  have := abs_add_le ((k : ℚ) * 2 ^ g) ((l : ℚ) * 2 ^ g)
  linarith

theorem G.sub {g h : ℤ} {x y : ℚ} (hx : G g h x) (hy : G g h y) : G g (h + 1) (x - y) := by
  rw [sub_eq_add_neg]; exact hx.add hy.neg

theorem G.mul {g1 h1 g2 h2 : ℤ} {x y : ℚ} (hx : G g1 h1 x) (hy : G g2 h2 y) :
    G (g1 + g2) (h1 + h2) (x * y) := by
  obtain ⟨⟨k, rfl⟩, hbx⟩ := hx
  obtain ⟨⟨l, rfl⟩, hby⟩ := hy
  refine ⟨⟨k * l, by rw [two_zpow_add]; push_cast; ring⟩, ?_⟩
  rw [abs_mul, two_zpow_add]
  exact mul_le_mul hbx hby (abs_nonneg _) (two_zpow_pos _).le

/-- halving moves to the next finer grid -/
theorem G.half {g h : ℤ} {x : ℚ} (hx : G g h x) : G (g - 1) (h - 1) (x / 2) := by
  obtain ⟨⟨k, rfl⟩, hb⟩ := hx
  have e : (2 : ℚ) ^ g = 2 ^ (g - 1) * 2 := by rw [← two_zpow_succ]; congr 1; ring
  have e' : (2 : ℚ) ^ h = 2 ^ (h - 1) * 2 := by rw [← two_zpow_succ]; congr 1; ring
  refine ⟨⟨k, by rw [e]; ring⟩, ?_⟩
  rw [abs_div, abs_of_pos (by norm_num : (0 : ℚ) < 2), div_le_iff₀ (by norm_num), ← e']
  exact hb

/-- coarser grid / larger cap -/
theorem G.mono {g g' h h' : ℤ} {x : ℚ} (hx : G g h x) (hg : g' ≤ g) (hh : h ≤ h') : G g' h' x := by
  obtain ⟨⟨k, rfl⟩, hb⟩ := hx
  obtain ⟨d, hd⟩ := Int.eq_ofNat_of_zero_le (sub_nonneg.mpr hg)
  refine ⟨⟨k * 2 ^ d, ?_⟩, hb.trans (two_zpow_le hh)⟩
  have : (2 : ℚ) ^ g = 2 ^ (g - g') * 2 ^ g' := by rw [← two_zpow_add]; congr 1; ring
  rw [this, hd, zpow_natCast]; push_cast; ring

/-- **rounding keeps the grid and the cap** -/
theorem G.rnd {p : ℕ} (hp : 0 < p) {g h : ℤ} {x : ℚ} (hx : G g h x) : G g h (rnd p x) := by
  refine ⟨?_, abs_rnd_le_two_zpow hp hx.2⟩
  obtain ⟨⟨k, hk⟩, _⟩ := hx
  -- positive case, then symmetry
  have pos : ∀ {a : ℚ} {k : ℤ}, 0 < a → a = (k : ℚ) * 2 ^ g → ∃ j : ℤ, rndPos p a = (j : ℚ) * 2 ^ g := by
    intro a k ha hk
    set e := ilog2 a - ((p : ℤ) - 1) with he
    by_cases hge : g ≤ e
    · -- result is a multiple of 2^e, which is a multiple of 2^g
      obtain ⟨d, hd⟩ := Int.eq_ofNat_of_zero_le (sub_nonneg.mpr hge)
      refine ⟨roundEven (a / 2 ^ e) * 2 ^ d, ?_⟩
      rw [rndPos_def, ← he]
      have : (2 : ℚ) ^ e = 2 ^ (e - g) * 2 ^ g := by rw [← two_zpow_add]; congr 1; ring
      rw [this, hd, zpow_natCast]; push_cast; ring
    · -- the grid is coarser than the ulp: a is representable
      have hlt : e < g := not_le.mp hge
      obtain ⟨d, hd⟩ := Int.eq_ofNat_of_zero_le (sub_nonneg.mpr hlt.le)
      have hm : a / 2 ^ e = ((k * 2 ^ d : ℤ) : ℚ) := by
        rw [hk, mul_div_assoc, ← two_zpow_sub, hd, zpow_natCast]; push_cast; rfl
      refine ⟨k, ?_⟩
      rw [rndPos_def, ← he, hm, roundEven_intCast, ← hm, ← hk]
      field_simp
  rcases lt_trichotomy x 0 with hneg | h0 | hpos
  · obtain ⟨j, hj⟩ := pos (a := -x) (k := -k) (neg_pos.mpr hneg) (by rw [hk]; push_cast; ring)
    exact ⟨-j, by rw [rnd_of_neg p hneg, hj]; push_cast; ring⟩
  · subst h0; exact ⟨0, by simp [rnd_zero]⟩
  · obtain ⟨j, hj⟩ := pos hpos hk
    exact ⟨j, by rw [rnd_of_pos p hpos, hj]⟩

/-- **on a grid inside the exponent range the bounded rounding is the unbounded one** -/
theorem rndB_of_G {p : ℕ} (hp : 0 < p) {emin emax g h : ℤ} {x : ℚ} (hx : G g h x)
    (hg : emin ≤ g) (hh : h ≤ emax) : rndB p emin emax x = some (rnd p x) := by
  apply rndB_eq_rnd hp
  · by_cases h0 : x = 0
    · exact Or.inl h0
    · exact Or.inr ((two_zpow_le hg).trans (hx.lower h0))
  · exact hx.2.trans (two_zpow_le hh)

/-- a `p`-bit number of magnitude in `[2^lo, 2^hi]` (or zero) lies on the grid `2^(lo - p)` -/
theorem G.of_representable {p : ℕ} {lo hi : ℤ} {x : ℚ} (hr : Representable p x)
    (hlo : x = 0 ∨ (2 : ℚ) ^ lo ≤ |x|) (hhi : |x| ≤ (2 : ℚ) ^ hi) : G (lo - (p : ℤ)) hi x := by
  refine ⟨?_, hhi⟩
  rcases hlo with rfl | hlo
  · exact ⟨0, by simp⟩
  obtain ⟨n, e, hn, rfl⟩ := hr
  -- |n| ≤ 2^p and 2^lo ≤ |n|·2^e give lo - p ≤ e
  have hnq : |(n : ℚ)| ≤ (2 : ℚ) ^ (p : ℤ) := by
    rw [zpow_cast]
    have : (n.natAbs : ℤ) ≤ ((2 ^ p : ℕ) : ℤ) := by exact_mod_cast hn
    rw [Int.natCast_natAbs] at this
    have h2 : |n| ≤ (2 : ℤ) ^ p := by simpa using this
    exact_mod_cast h2
  rw [abs_mul, abs_of_pos (two_zpow_pos e)] at hlo
  have : (2 : ℚ) ^ lo ≤ 2 ^ ((p : ℤ) + e) := by
    rw [two_zpow_add]; exact hlo.trans (mul_le_mul_of_nonneg_right hnq (two_zpow_pos e).le)
  have hle : lo ≤ (p : ℤ) + e := two_zpow_le_iff.mp this
  obtain ⟨d, hd⟩ := Int.eq_ofNat_of_zero_le (show 0 ≤ e - (lo - (p : ℤ)) by omega)
  refine ⟨n * 2 ^ d, ?_⟩
  have : (2 : ℚ) ^ e = 2 ^ (e - (lo - (p : ℤ))) * 2 ^ (lo - (p : ℤ)) := by
    rw [← two_zpow_add]; congr 1; ring
  rw [this, hd, zpow_natCast]; push_cast; ring

end HC.Rounding
