/-
  β-level effect of the 2-D sews and link cores, as updates of the β *function* `m.β : Nat → Nat → Nat`.

  A successful sew / unsew is its link core followed by attribute moves that do not touch the topology
  (`SameTopo`), so the β images after the call are those after the core.  The images are stated as
  `upd`-chains on the function `m.β`, so that the straight-line kernels of C15 (swap, cuts, collapse) can
  be executed symbolically: the final β function is a closed expression in the initial one, evaluated at
  the named darts by `simp` from pairwise distinctness.
-/
import Honeycomb.Lemmas.Run
import Honeycomb.Lemmas.WFLink
import Honeycomb.Props.C01

set_option linter.unusedSimpArgs false
set_option linter.unusedVariables false

namespace HC
variable {X : Type}

/-- `f` with the image of `(i, d)` replaced by `v` -/
def upd (f : Nat → Nat → Nat) (i d v : Nat) : Nat → Nat → Nat := fun j e => if i = j ∧ d = e then v else f j e

theorem upd_apply (f : Nat → Nat → Nat) (i d v j e : Nat) :
    upd f i d v j e = if i = j ∧ d = e then v else f j e := rfl

/-- β function after `one_link_core(l, r)` -/
def lnk1 (f : Nat → Nat → Nat) (l r : Nat) : Nat → Nat → Nat := upd (upd f 1 l r) 0 r l
/-- β function after `one_unlink_core(l)` -/
def unl1 (f : Nat → Nat → Nat) (l : Nat) : Nat → Nat → Nat := upd (upd f 1 l 0) 0 (f 1 l) 0
/-- β function after `two_link_core(l, r)` -/
def lnk2 (f : Nat → Nat → Nat) (l r : Nat) : Nat → Nat → Nat := upd (upd f 2 l r) 2 r l
/-- β function after `two_unlink_core(l)` -/
def unl2 (f : Nat → Nat → Nat) (l : Nat) : Nat → Nat → Nat := upd (upd f 2 l 0) 2 (f 2 l) 0

/-- what a topology-changing step preserves besides its β update -/
structure Step (m m' : Map X) (g : Nat → Nat → Nat) : Prop where
  β : m'.β = g
  n : m'.n = m.n
  u : m'.u = m.u

theorem β_of_sameTopo {m m' : Map X} (st : SameTopo m m') : m'.β = m.β := by
  funext i d; unfold Map.β; rw [st.b]

theorem Step.sameTopo {m m1 m' : Map X} {g : Nat → Nat → Nat} (h : Step m m1 g) (st : SameTopo m1 m') : Step m m' g :=
  ⟨by rw [β_of_sameTopo st]; exact h.β, by rw [st.n]; exact h.n, by rw [st.u]; exact h.u⟩

theorem β_setβ_ok (m : Map X) {i d : Nat} (v : Nat) (hok : m.okβ i d = true) : (m.setβ i d v).β = upd m.β i d v := by
  funext j e
  rw [Map.β_setβ, upd_apply]
  simp [hok]

theorem step_oneLinkCore {l r : Nat} {m m' : Map X} {a : Unit} (h : run (oneLinkCore (X := X) l r) m = (.ok a, m')) :
    m.β 1 l = 0 ∧ m.β 0 r = 0 ∧ Step m m' (lnk1 m.β l r) := by
  obtain ⟨o1, o0, h1, h0, rfl⟩ := oneLinkCore_ok h
  refine ⟨h1, h0, ?_, rfl, rfl⟩
  rw [β_setβ_ok _ _ (by rw [Map.okβ_setβ]; exact o0), β_setβ_ok _ _ o1]
  rfl

theorem step_twoLinkCore {l r : Nat} {m m' : Map X} {a : Unit} (h : run (iLinkCore (X := X) 2 l r) m = (.ok a, m')) :
    m.β 2 l = 0 ∧ m.β 2 r = 0 ∧ Step m m' (lnk2 m.β l r) := by
  obtain ⟨o1, o0, h1, h0, rfl⟩ := iLinkCore_ok h
  refine ⟨h1, h0, ?_, rfl, rfl⟩
  rw [β_setβ_ok _ _ (by rw [Map.okβ_setβ]; exact o0), β_setβ_ok _ _ o1]
  rfl

theorem step_oneUnlinkCore {l : Nat} {m m' : Map X} {a : Unit} (h : run (oneUnlinkCore (X := X) l) m = (.ok a, m')) :
    m.β 1 l ≠ 0 ∧ Step m m' (unl1 m.β l) := by
  obtain ⟨o1, o0, hne, rfl⟩ := oneUnlinkCore_ok h
  refine ⟨hne, ?_, rfl, rfl⟩
  rw [β_setβ_ok _ _ (by rw [Map.okβ_setβ]; exact o0), β_setβ_ok _ _ o1]
  rfl

theorem step_twoUnlinkCore {l : Nat} {m m' : Map X} {a : Unit} (h : run (iUnlinkCore (X := X) 2 l) m = (.ok a, m')) :
    m.β 2 l ≠ 0 ∧ Step m m' (unl2 m.β l) := by
  obtain ⟨o1, o0, hne, rfl⟩ := iUnlinkCore_ok h
  refine ⟨hne, ?_, rfl, rfl⟩
  rw [β_setβ_ok _ _ (by rw [Map.okβ_setβ]; exact o0), β_setβ_ok _ _ o1]
  rfl

/-! ## a successful sew is its link core up to `SameTopo` -/

/-- every successful run of `p` performed `core` on the topology -/
def Topo (core p : P X Unit) : Prop :=
  ∀ m m' u, run p m = (.ok u, m') → ∃ m1, run core m = (.ok (), m1) ∧ SameTopo m1 m'

theorem Topo.self (core : P X Unit) : Topo core core := fun m m' _ h => ⟨m', h, SameTopo.refl _⟩

theorem Topo.ro_bind {α : Type} {core : P X Unit} {p : P X α} {f : α → P X Unit} (hp : ReadOnly p)
    (hf : ∀ a, Topo core (f a)) : Topo core (p.bind f) := by
  intro m m' u h
  obtain ⟨a, m1, h1, h2⟩ := run_bind_ok h
  have := hp.run_ok h1; subst this
  exact hf a _ _ u h2

theorem Topo.core_attr {core : P X Unit} {f : Unit → P X Unit} (hf : ∀ a, AttrOnly (f a)) :
    Topo core (core.bind f) := by
  intro m m' u h
  obtain ⟨a, m1, h1, h2⟩ := run_bind_ok h
  have st := hf a m1; rw [h2] at st
  exact ⟨m1, h1, st⟩

theorem Topo.ite {core : P X Unit} {c : Prop} [Decidable c] {p q : P X Unit} (hp : Topo core p) (hq : Topo core q) :
    Topo core (if c then p else q) := by
  split <;> assumption

theorem Topo.abort {core : P X Unit} (e : Err) : Topo core (abort e) := by
  intro m m' u h; simp at h

theorem topo_oneSew2 (cfg : Cfg X) (n l r : Nat) : Topo (oneLinkCore l r) (oneSew2 cfg n l r) := by
  unfold oneSew2
  refine Topo.ro_bind (ReadOnly.rB _ _) fun b2l => ?_
  refine Topo.ite (Topo.self _) ?_
  refine Topo.ro_bind (readOnly_vertexId2 _ _) fun v1 => ?_
  refine Topo.ro_bind (readOnly_vertexId2 _ _) fun v2 => ?_
  refine Topo.core_attr fun _ => ?_
  refine AttrOnly.bind (C01.ao_vid _ _) fun nv => ?_
  exact AttrOnly.bind (attrOnly_mergeS _ _ _ _ _) fun _ => attrOnly_mergeAttrs _ _ _ _ _

theorem topo_oneUnsew2 (cfg : Cfg X) (n l : Nat) : Topo (oneUnlinkCore l) (oneUnsew2 cfg n l) := by
  unfold oneUnsew2
  refine Topo.ro_bind (ReadOnly.rB _ _) fun b2l => ?_
  refine Topo.ite (Topo.self _) ?_
  refine Topo.ro_bind (ReadOnly.rB _ _) fun r => ?_
  refine Topo.ro_bind (readOnly_vertexId2 _ _) fun vold => ?_
  refine Topo.core_attr fun _ => ?_
  refine AttrOnly.bind (C01.ao_vid _ _) fun nl => ?_
  refine AttrOnly.bind (C01.ao_vid _ _) fun nr => ?_
  exact AttrOnly.bind (attrOnly_splitS _ _ _ _ _) fun _ => attrOnly_splitAttrs _ _ _ _ _

theorem topo_twoSew2 (cfg : Cfg X) (n l r : Nat) : Topo (iLinkCore 2 l r) (twoSew2 cfg n l r) := by
  unfold twoSew2
  refine Topo.ro_bind (ReadOnly.rB _ _) fun b1l => ?_
  refine Topo.ro_bind (ReadOnly.rB _ _) fun b1r => ?_
  refine Topo.ite ?_ (Topo.ite ?_ (Topo.ite ?_ ?_))
  · refine Topo.core_attr fun _ => ?_
    exact AttrOnly.bind (C01.ao_eid _) fun _ => attrOnly_mergeAttrs _ _ _ _ _
  · refine Topo.ro_bind (readOnly_vertexId2 _ _) fun _ => ?_
    refine Topo.ro_bind (readOnly_vertexId2 _ _) fun _ => ?_
    refine Topo.core_attr fun _ => ?_
    refine AttrOnly.bind (C01.ao_vid _ _) fun _ => ?_
    refine AttrOnly.bind (C01.ao_eid _) fun _ => ?_
    refine AttrOnly.bind (attrOnly_mergeS _ _ _ _ _) fun _ => ?_
    exact AttrOnly.bind (attrOnly_mergeAttrs _ _ _ _ _) fun _ => attrOnly_mergeAttrs _ _ _ _ _
  · refine Topo.ro_bind (readOnly_vertexId2 _ _) fun _ => ?_
    refine Topo.ro_bind (readOnly_vertexId2 _ _) fun _ => ?_
    refine Topo.core_attr fun _ => ?_
    refine AttrOnly.bind (C01.ao_vid _ _) fun _ => ?_
    refine AttrOnly.bind (C01.ao_eid _) fun _ => ?_
    refine AttrOnly.bind (attrOnly_mergeS _ _ _ _ _) fun _ => ?_
    exact AttrOnly.bind (attrOnly_mergeAttrs _ _ _ _ _) fun _ => attrOnly_mergeAttrs _ _ _ _ _
  · refine Topo.ro_bind (readOnly_vertexId2 _ _) fun _ => ?_
    refine Topo.ro_bind (readOnly_vertexId2 _ _) fun _ => ?_
    refine Topo.ro_bind (readOnly_vertexId2 _ _) fun _ => ?_
    refine Topo.ro_bind (readOnly_vertexId2 _ _) fun _ => ?_
    refine Topo.ro_bind (ReadOnly.rA _ _) fun _ => ?_
    refine Topo.ro_bind (ReadOnly.rA _ _) fun _ => ?_
    refine Topo.ro_bind (ReadOnly.rA _ _) fun _ => ?_
    refine Topo.ro_bind (ReadOnly.rA _ _) fun _ => ?_
    refine Topo.ite (Topo.abort _) ?_
    refine Topo.core_attr fun _ => ?_
    refine AttrOnly.bind (C01.ao_vid _ _) fun _ => ?_
    refine AttrOnly.bind (C01.ao_vid _ _) fun _ => ?_
    refine AttrOnly.bind (C01.ao_eid _) fun _ => ?_
    refine AttrOnly.bind (attrOnly_mergeS _ _ _ _ _) fun _ => ?_
    refine AttrOnly.bind (attrOnly_mergeS _ _ _ _ _) fun _ => ?_
    refine AttrOnly.bind (attrOnly_mergeAttrs _ _ _ _ _) fun _ => ?_
    exact AttrOnly.bind (attrOnly_mergeAttrs _ _ _ _ _) fun _ => attrOnly_mergeAttrs _ _ _ _ _

theorem topo_twoUnsew2 (cfg : Cfg X) (n l : Nat) : Topo (iUnlinkCore 2 l) (twoUnsew2 cfg n l) := by
  unfold twoUnsew2
  refine Topo.ro_bind (ReadOnly.rB _ _) fun r => ?_
  refine Topo.ro_bind (ReadOnly.rB _ _) fun b1l => ?_
  refine Topo.ro_bind (ReadOnly.rB _ _) fun b1r => ?_
  refine Topo.ite ?_ (Topo.ite ?_ (Topo.ite ?_ ?_))
  · refine Topo.ro_bind (readOnly_edgeId2 _) fun _ => ?_
    exact Topo.core_attr fun _ => attrOnly_splitAttrs _ _ _ _ _
  · refine Topo.ro_bind (readOnly_edgeId2 _) fun _ => ?_
    refine Topo.ro_bind (readOnly_vertexId2 _ _) fun _ => ?_
    refine Topo.core_attr fun _ => ?_
    refine AttrOnly.bind (attrOnly_splitAttrs _ _ _ _ _) fun _ => ?_
    refine AttrOnly.bind (C01.ao_vid _ _) fun _ => ?_
    refine AttrOnly.bind (C01.ao_vid _ _) fun _ => ?_
    exact AttrOnly.bind (attrOnly_splitS _ _ _ _ _) fun _ => attrOnly_splitAttrs _ _ _ _ _
  · refine Topo.ro_bind (readOnly_edgeId2 _) fun _ => ?_
    refine Topo.ro_bind (readOnly_vertexId2 _ _) fun _ => ?_
    refine Topo.core_attr fun _ => ?_
    refine AttrOnly.bind (attrOnly_splitAttrs _ _ _ _ _) fun _ => ?_
    refine AttrOnly.bind (C01.ao_vid _ _) fun _ => ?_
    refine AttrOnly.bind (C01.ao_vid _ _) fun _ => ?_
    exact AttrOnly.bind (attrOnly_splitS _ _ _ _ _) fun _ => attrOnly_splitAttrs _ _ _ _ _
  · refine Topo.ro_bind (readOnly_edgeId2 _) fun _ => ?_
    refine Topo.ro_bind (readOnly_vertexId2 _ _) fun _ => ?_
    refine Topo.ro_bind (readOnly_vertexId2 _ _) fun _ => ?_
    refine Topo.core_attr fun _ => ?_
    refine AttrOnly.bind (attrOnly_splitAttrs _ _ _ _ _) fun _ => ?_
    refine AttrOnly.bind (C01.ao_vid _ _) fun _ => ?_
    refine AttrOnly.bind (C01.ao_vid _ _) fun _ => ?_
    refine AttrOnly.bind (C01.ao_vid _ _) fun _ => ?_
    refine AttrOnly.bind (C01.ao_vid _ _) fun _ => ?_
    refine AttrOnly.bind (attrOnly_splitS _ _ _ _ _) fun _ => ?_
    refine AttrOnly.bind (attrOnly_splitAttrs _ _ _ _ _) fun _ => ?_
    exact AttrOnly.bind (attrOnly_splitS _ _ _ _ _) fun _ => attrOnly_splitAttrs _ _ _ _ _

/-! ## β effect of the four sews -/

theorem step_oneSew2 {cfg : Cfg X} {n l r : Nat} {m m' : Map X} {a : Unit} (h : run (oneSew2 cfg n l r) m = (.ok a, m')) :
    m.β 1 l = 0 ∧ m.β 0 r = 0 ∧ Step m m' (lnk1 m.β l r) := by
  obtain ⟨m1, h1, st⟩ := topo_oneSew2 cfg n l r m m' a h
  obtain ⟨p1, p2, s⟩ := step_oneLinkCore h1
  exact ⟨p1, p2, s.sameTopo st⟩

theorem step_oneUnsew2 {cfg : Cfg X} {n l : Nat} {m m' : Map X} {a : Unit} (h : run (oneUnsew2 cfg n l) m = (.ok a, m')) :
    m.β 1 l ≠ 0 ∧ Step m m' (unl1 m.β l) := by
  obtain ⟨m1, h1, st⟩ := topo_oneUnsew2 cfg n l m m' a h
  obtain ⟨p1, s⟩ := step_oneUnlinkCore h1
  exact ⟨p1, s.sameTopo st⟩

theorem step_twoSew2 {cfg : Cfg X} {n l r : Nat} {m m' : Map X} {a : Unit} (h : run (twoSew2 cfg n l r) m = (.ok a, m')) :
    m.β 2 l = 0 ∧ m.β 2 r = 0 ∧ Step m m' (lnk2 m.β l r) := by
  obtain ⟨m1, h1, st⟩ := topo_twoSew2 cfg n l r m m' a h
  obtain ⟨p1, p2, s⟩ := step_twoLinkCore h1
  exact ⟨p1, p2, s.sameTopo st⟩

theorem step_twoUnsew2 {cfg : Cfg X} {n l : Nat} {m m' : Map X} {a : Unit} (h : run (twoUnsew2 cfg n l) m = (.ok a, m')) :
    m.β 2 l ≠ 0 ∧ Step m m' (unl2 m.β l) := by
  obtain ⟨m1, h1, st⟩ := topo_twoUnsew2 cfg n l m m' a h
  obtain ⟨p1, s⟩ := step_twoUnlinkCore h1
  exact ⟨p1, s.sameTopo st⟩

/-- an attribute-only step keeps the β function, `n` and the flags -/
theorem step_attrOnly {α : Type} {p : P X α} (hp : AttrOnly p) {m m' : Map X} {a : α} (h : run p m = (.ok a, m')) :
    Step m m' m.β := by
  have st := hp m; rw [h] at st
  exact ⟨β_of_sameTopo st, st.n, st.u⟩

/-- chaining: a step from `m1` expressed on `m1.β`, rewritten on the initial β function -/
theorem Step.trans {m m1 m2 : Map X} {g : Nat → Nat → Nat} {F : (Nat → Nat → Nat) → Nat → Nat → Nat}
    (h1 : Step m m1 g) (h2 : Step m1 m2 (F m1.β)) : Step m m2 (F g) :=
  ⟨by rw [h2.β, h1.β], by rw [h2.n, h1.n], by rw [h2.u, h1.u]⟩

/-! ## symbolic execution: the β function after a straight-line kernel -/

/-- every successful run of `p` turns the β function `f` into `F f` (and keeps `n` and the flags) -/
def Eff {α : Type} (p : P X α) (F : (Nat → Nat → Nat) → Nat → Nat → Nat) : Prop :=
  ∀ m m' a, run p m = (.ok a, m') → Step m m' (F m.β)

namespace Eff
variable {α β : Type}

theorem bind {p : P X α} {q : α → P X β} {F G : (Nat → Nat → Nat) → Nat → Nat → Nat}
    (hp : Eff p F) (hq : ∀ a, Eff (q a) G) : Eff (p.bind q) (fun f => G (F f)) := by
  intro m m' b h
  obtain ⟨a, m1, h1, h2⟩ := run_bind_ok h
  have s1 := hp m m1 a h1
  have s2 := hq a m1 m' b h2
  exact Step.trans (F := G) s1 s2

theorem attr {p : P X α} (hp : AttrOnly p) : Eff p (fun f => f) := fun m m' a h => step_attrOnly hp h

theorem ro {p : P X α} (hp : ReadOnly p) : Eff p (fun f => f) := attr (AttrOnly.of_readOnly hp)

/-- an attribute-only prefix -/
theorem attr_bind {p : P X α} {q : α → P X β} {G : (Nat → Nat → Nat) → Nat → Nat → Nat}
    (hp : AttrOnly p) (hq : ∀ a, Eff (q a) G) : Eff (p.bind q) G := bind (attr hp) hq

theorem ro_bind {p : P X α} {q : α → P X β} {G : (Nat → Nat → Nat) → Nat → Nat → Nat}
    (hp : ReadOnly p) (hq : ∀ a, Eff (q a) G) : Eff (p.bind q) G := attr_bind (AttrOnly.of_readOnly hp) hq

/-- a β read: the continuation's effect may depend on the value read -/
theorem rB_bind {i d : Nat} {k : Nat → P X β} {G : Nat → (Nat → Nat → Nat) → Nat → Nat → Nat}
    (hk : ∀ x, Eff (k x) (G x)) : Eff ((rB i d).bind k) (fun f => G (f i d) f) := by
  intro m m' b h
  rw [run_rB] at h
  by_cases hok : m.okβ i d = true
  · simp only [hok, if_true] at h
    exact hk _ m m' b h
  · simp [hok] at h

theorem ite {c : Prop} [Decidable c] {p q : P X α} {F G : (Nat → Nat → Nat) → Nat → Nat → Nat}
    (hp : Eff p F) (hq : Eff q G) : Eff (if c then p else q) (fun f => if c then F f else G f) := by
  by_cases hc : c
  · simp only [hc, if_true]; exact hp
  · simp only [hc, if_false]; exact hq

theorem abort (e : Err) (F : (Nat → Nat → Nat) → Nat → Nat → Nat) : Eff (HC.abort e : P X α) F := by
  intro m m' a h; simp at h

theorem pure (a : α) : Eff (Pure.pure a : P X α) (fun f => f) := by
  intro m m' b h; simp at h; rw [← h.2]; exact ⟨rfl, rfl, rfl⟩

theorem oneSew2 (cfg : Cfg X) (n l r : Nat) : Eff (HC.oneSew2 cfg n l r) (fun f => lnk1 f l r) :=
  fun m m' a h => (step_oneSew2 h).2.2

theorem oneUnsew2 (cfg : Cfg X) (n l : Nat) : Eff (HC.oneUnsew2 cfg n l) (fun f => unl1 f l) :=
  fun m m' a h => (step_oneUnsew2 h).2

theorem twoSew2 (cfg : Cfg X) (n l r : Nat) : Eff (HC.twoSew2 cfg n l r) (fun f => lnk2 f l r) :=
  fun m m' a h => (step_twoSew2 h).2.2

theorem twoUnsew2 (cfg : Cfg X) (n l : Nat) : Eff (HC.twoUnsew2 cfg n l) (fun f => unl2 f l) :=
  fun m m' a h => (step_twoUnsew2 h).2

theorem oneLinkCore (l r : Nat) : Eff (HC.oneLinkCore (X := X) l r) (fun f => lnk1 f l r) :=
  fun m m' a h => (step_oneLinkCore h).2.2

theorem twoLinkCore (l r : Nat) : Eff (HC.iLinkCore (X := X) 2 l r) (fun f => lnk2 f l r) :=
  fun m m' a h => (step_twoLinkCore h).2.2

theorem twoUnlinkCore (l : Nat) : Eff (HC.iUnlinkCore (X := X) 2 l) (fun f => unl2 f l) :=
  fun m m' a h => (step_twoUnlinkCore h).2

end Eff

end HC
