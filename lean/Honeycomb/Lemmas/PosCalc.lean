/-
  Value calculus for the vertex storage through the 2-D sews (used by C13d, C13e).

  `pos m d := m.att 0 (cellId m .vertex d)` is what `read_vertex(vertex_id(d))` returns: the coordinates of the
  origin of dart `d`.  On top of the cell-level theorems of C04 (`C04_oneSew2_cells`, `C04_oneUnsew2_cells`,
  `C04_twoSew2_cells_free`) this file states, for a configuration whose storage 0 carries `Vertex2`'s law (`avgLaw`),
  what each successful sew / unsew does to `pos` of EVERY dart:

  * `unsew1_pos`     : a 1-unsew keeps `pos` of every dart (a vertex split copies the value to both halves);
                       the vertex cells only get finer;
  * `sew1_pos`       : a 1-sew with `x = β2 l ≠ 0` unites the cells of `x` and `r`; every dart outside keeps its
                       `pos`, every dart of the two cells gets `pos x <|> pos r` when the two values agree or one is
                       undefined (`avg v v = v`, `merge_incomplete v = v`); with `β2 l = 0` nothing changes;
  * `twoSewFree_pos` : a 2-sew of two darts without successor keeps every cell and every `pos`;
  * `twoSewBoth_pos` : a 2-sew of two darts that both have a successor, whose two end points are different vertices:
                       darts outside the four cells keep `pos`, each united pair gets the merge of its two values.
-/
import Honeycomb.Props.C04Cells2
import Honeycomb.Lemmas.KernelWF2
import Mathlib.Tactic.Ring

set_option linter.unusedSimpArgs false
set_option linter.unusedVariables false

namespace HC.PosCalc
open HC HC.C03 HC.C04 HC.CellCalc

/-- the coordinates of the origin of dart `d`, as `read_vertex(vertex_id(d))` returns them -/
def pos (m : Map Val) (d : Nat) : Option Val := m.att 0 (cellId m .vertex d)

/-- the vertex cell relation -/
abbrev VC (m : Map Val) (d e : Nat) : Prop := SameCell (g2 m .vertex) m.n d e

/-- a non-null existing dart -/
def Valid (m : Map Val) (d : Nat) : Prop := d ≠ 0 ∧ d < m.n

theorem pos_eq_of_VC {m : Map Val} (h : WF 3 m) {d e : Nat} (hd : Valid m d) (he : Valid m e) (hc : VC m d e) :
    pos m d = pos m e := by
  unfold pos
  rw [(C03_same_id_iff_same_cell h (pol := .vertex) trivial hd.1 hd.2 he.1 he.2).2.2 hc]

/-- the identifier is a dart of the cell -/
theorem cellId_VC {m : Map Val} (h : WF 3 m) {d : Nat} (hd : Valid m d) :
    VC m d (cellId m .vertex d) ∧ Valid m (cellId m .vertex d) := by
  have s := cellId_spec h (pol := .vertex) trivial hd.1 hd.2
  have i := cellId_idem h (pol := .vertex) trivial hd.1 hd.2
  exact ⟨(mem_cell_iff h hd.1 hd.2 _).1 s.1, i.1, i.2.1⟩

/-- same cell as a set, same identifier -/
theorem cellId_eq_of_cells {m m' : Map Val} (h : WF 3 m) (h' : WF 3 m') (hn : m'.n = m.n) {d : Nat} (hd : Valid m d)
    (hc : ∀ x, VC m' d x ↔ VC m d x) : cellId m' .vertex d = cellId m .vertex d := by
  have hd' : d < m'.n := by rw [hn]; exact hd.2
  exact min_unique (cellId_spec h' (pol := .vertex) trivial hd.1 hd') (cellId_spec h (pol := .vertex) trivial hd.1 hd.2)
    (fun x => by rw [mem_cell_iff h' hd.1 hd', mem_cell_iff h hd.1 hd.2]; exact hc x)

/-- identifiers and cells only depend on the β tables -/
theorem cellId_sameTopo {m1 m' : Map Val} (st : SameTopo m1 m') (d : Nat) :
    cellId m' .vertex d = cellId m1 .vertex d := by
  unfold cellId orb
  have : g2 m' .vertex = g2 m1 .vertex := funext fun a => g2_congr st.β .vertex a
  rw [this, st.n]

theorem VC_sameTopo {m1 m' : Map Val} (st : SameTopo m1 m') (d e : Nat) : VC m' d e ↔ VC m1 d e := by
  unfold VC; rw [st.n]; exact sameCell_of_beta_eq st.β _ d e

/-- `Vertex2::merge(v, v) = v` -/
theorem avg_self (v v' : Val) (h : avgLaw.merge v v = .ok v') : v' = v := by
  cases v with
  | pt x y z =>
      simp only [avgLaw] at h
      have e : ∀ q : Rat, (q + q) / 2 = q := fun q => by ring
      simp only [e, Except.ok.injEq] at h
      exact h.symm
  | tm t => simp [avgLaw] at h

/-- the value of a successful merge of two compatible slots under `Vertex2`'s law -/
theorem mergeVal_avg {a b : Option Val} {v : Val} (h : mergeVal avgLaw a b = .ok v)
    (hcompat : ∀ x y, a = some x → b = some y → x = y) : a.or b = some v := by
  cases a with
  | none =>
      cases b with
      | none => simp [mergeVal, avgLaw] at h
      | some y => simp only [mergeVal, avgLaw, Except.ok.injEq] at h; simp [h]
  | some x =>
      cases b with
      | none => simp only [mergeVal, avgLaw, Except.ok.injEq] at h; simp [h]
      | some y =>
          have := hcompat x y rfl rfl
          subst this
          simp only [mergeVal] at h
          simp [avg_self x v h]

/-! ## 1-unsew -/

/-- what a successful step leaves besides `pos` -/
structure StepOK (n : Nat) (u : Array Bool) (m m' : Map Val) : Prop where
  inv : Inv n u m'
  fc : m'.fc = m.fc

/-- **a 1-unsew keeps the coordinates of every dart**; the vertex cells only get finer -/
theorem unsew1_pos (cfg : Cfg Val) (hlaw : cfg.law 0 = avgLaw) {n : Nat} {u : Array Bool} {l : Nat} {m m' : Map Val}
    {a : Unit} (hi : Inv n u m) (hfc : m.fc = 0) (h : run (oneUnsew2 cfg n l) m = (.ok a, m')) :
    StepOK n u m m' ∧ (∀ d, Valid m d → pos m' d = pos m d) ∧ (∀ d e, VC m' d e → VC m d e) := by
  obtain ⟨i', ll, _, _⟩ := oneUnsew2_eff cfg n hi h
  have hwf := hi.wf
  have hwf' := i'.wf
  have hn' : m'.n = m.n := by rw [i'.n_eq, hi.n_eq]
  have hl : C01.InUse m l := hi.inUse ll
  have h' : run (oneUnsew2 cfg m.n l) m = (.ok a, m') := by rw [hi.n_eq]; exact h
  by_cases hx : m.β 2 l = 0
  · -- only the link is removed: same cells, same slots
    obtain ⟨m1, hunl, _, hcase⟩ := C04_oneUnsew2_effect cfg m.n l m m' a hfc h'
    rcases hcase with ⟨_, hm⟩ | ⟨hne, _⟩
    · subst hm
      obtain ⟨_, _, hne1, rfl⟩ := oneUnlinkCore_ok hunl
      -- re-linking gives the old map back: use the link lemma on the unlinked map
      have hrn : m.β 1 l < m.n := hwf.range 1 (by omega) l hl.2.1
      have hβ := link1_unlink1_β hwf hl.2.1 hne1
      have hu := unlink1_β hwf hl.2.1
      have hwfu : WF 3 (unlink1 m l) := hwf'
      have hcells : ∀ d e, VC m d e ↔ VC (unlink1 m l) d e := by
        intro d e
        have hc := vertex_cells_link1 hwfu (l := l) (r := m.β 1 l) hl.1 hne1 hl.2.1 hrn
          (by rw [hu]; simp) (by rw [hu]; simp) d e
        have hx' : (unlink1 m l).β 2 l = 0 := by rw [hu]; simpa using hx
        rw [if_pos hx'] at hc
        exact (sameCell_of_beta_eq hβ m.n d e).symm.trans hc
      refine ⟨⟨i', rfl⟩, fun d hd => ?_, fun d e hde => (hcells d e).2 hde⟩
      show (unlink1 m l).att 0 (cellId (unlink1 m l) .vertex d) = m.att 0 (cellId m .vertex d)
      rw [cellId_eq_of_cells hwf hwfu rfl hd (fun x => (hcells d x).symm)]
      rfl
    · exact absurd hx hne
  · obtain ⟨_, hwf1, st, hcells, _, hsplit⟩ := C04_oneUnsew2_cells cfg m m' l a hwf hl hfc hx h'
    have hrn : m.β 1 l < m.n := hwf.range 1 (by omega) l hl.2.1
    have hxn : m.β 2 l < m.n := hwf.range 2 (by omega) l hl.2.1
    have hr0 : m.β 1 l ≠ 0 := (oneUnsew2_eff cfg n hi h).2.2.1.1
    have hn1 : (unlink1 m l).n = m.n := rfl
    have hVq : Valid m (m.β 1 l) := ⟨hr0, hrn⟩
    have hVp : Valid m (m.β 2 l) := ⟨hx, hxn⟩
    have hfiner : ∀ d e, VC m' d e → VC m d e := by
      intro d e hde
      have := (VC_sameTopo st d e).1 hde
      exact (hcells d e).2 (Or.inl this)
    refine ⟨⟨i', hsplit.fc.trans rfl⟩, fun d hd => ?_, hfiner⟩
    have hd1 : Valid (unlink1 m l) d := hd
    have h0v : (0 : Nat) ∈ vStores cfg := by simp [vStores]
    -- identifiers in the unlinked map
    by_cases hold : VC m d (m.β 1 l)
    · -- d lies in the vertex that is split: it ends in the cell of `β2 l` or of `β1 l`, both carry the old value
      have hpd : pos m d = pos m (m.β 1 l) := pos_eq_of_VC hwf hd hVq hold
      have hU := (hcells d (m.β 1 l)).1 hold
      have hside : VC (unlink1 m l) d (m.β 2 l) ∨ VC (unlink1 m l) d (m.β 1 l) := by
        rcases hU with c | ⟨c, _⟩ | ⟨c, _⟩
        · exact Or.inr c
        · exact Or.inl c
        · exact Or.inr c
      have hval : m'.att 0 (cellId (unlink1 m l) .vertex (m.β 2 l)) = pos m (m.β 1 l) ∧
          m'.att 0 (cellId (unlink1 m l) .vertex (m.β 1 l)) = pos m (m.β 1 l) := by
        by_cases hne : cellId (unlink1 m l) .vertex (m.β 2 l) = cellId (unlink1 m l) .vertex (m.β 1 l)
        · have := hsplit.moved hne 0 h0v
          rw [← hne]
          exact ⟨this, this⟩
        · obtain ⟨va, vb, hsv, hb, ha⟩ := hsplit.split hne 0 h0v
          rw [hlaw] at hsv
          have hatt : (unlink1 m l).att 0 (cellId m .vertex (m.β 1 l)) = pos m (m.β 1 l) := rfl
          rw [hatt] at hsv
          cases hp : pos m (m.β 1 l) with
          | none => rw [hp] at hsv; simp [splitVal, avgLaw] at hsv
          | some v =>
              rw [hp] at hsv
              simp only [splitVal, avgLaw, Except.ok.injEq, Prod.mk.injEq] at hsv
              rw [ha, hb, ← hsv.1, ← hsv.2]
              exact ⟨rfl, rfl⟩
      unfold pos at hpd ⊢
      rw [hpd, cellId_sameTopo st]
      rcases hside with c | c
      · rw [(C03_same_id_iff_same_cell hwf1 (pol := .vertex) trivial hd.1 hd.2 hx hxn).2.2 c]; exact hval.1
      · rw [(C03_same_id_iff_same_cell hwf1 (pol := .vertex) trivial hd.1 hd.2 hr0 hrn).2.2 c]; exact hval.2
    · -- d lies elsewhere: same cell, untouched slot
      have hnp : ¬ VC m d (m.β 2 l) := by
        intro c
        apply hold
        exact SameCell.trans c ((hcells _ _).2 (Or.inr (Or.inl ⟨.refl _, .refl _⟩)))
      have hcd : ∀ x, VC (unlink1 m l) d x ↔ VC m d x := by
        intro x
        constructor
        · intro c; exact (hcells d x).2 (Or.inl c)
        · intro c
          rcases (hcells d x).1 c with c1 | ⟨c1, _⟩ | ⟨c1, _⟩
          · exact c1
          · exact absurd ((hcells _ _).2 (Or.inl c1)) hnp
          · exact absurd ((hcells _ _).2 (Or.inl c1)) hold
      have hid : cellId (unlink1 m l) .vertex d = cellId m .vertex d := cellId_eq_of_cells hwf hwf1 rfl hd hcd
      unfold pos
      rw [cellId_sameTopo st, hid]
      obtain ⟨hcv, hcvalid⟩ := cellId_VC hwf hd
      -- the identifier of d is none of the three identifiers of the split
      have hne : ∀ z, Valid m z → (VC (unlink1 m l) z (m.β 2 l) ∨ VC (unlink1 m l) z (m.β 1 l) ∨ VC m z (m.β 1 l)) →
          cellId m .vertex d ≠ z := by
        intro z hz hc heq
        subst heq
        rcases hc with c | c | c
        · exact hnp (SameCell.trans hcv ((hcells _ _).2 (Or.inl c)))
        · exact hold (SameCell.trans hcv ((hcells _ _).2 (Or.inl c)))
        · exact hold (SameCell.trans hcv c)
      have v1 := cellId_VC hwf1 (d := m.β 2 l) hVp
      have v2 := cellId_VC hwf1 (d := m.β 1 l) hVq
      have v3 := cellId_VC hwf hVq
      rw [hsplit.frame 0 _ h0v (hne _ v1.2 (Or.inl (SameCell.symm v1.1)))
        (hne _ v2.2 (Or.inr (Or.inl (SameCell.symm v2.1)))) (hne _ v3.2 (Or.inr (Or.inr (SameCell.symm v3.1))))]
      rfl

/-! ## 1-sew -/

theorem or_self' (a : Option Val) : a.or a = a := by cases a <;> rfl

/-- **what a 1-sew does to the coordinates of every dart** -/
theorem sew1_pos (cfg : Cfg Val) (hlaw : cfg.law 0 = avgLaw) {n : Nat} {u : Array Bool} {l r : Nat} {m m' : Map Val}
    {a : Unit} (hi : Inv n u m) (hfc : m.fc = 0) (hl : Live n u l) (hr : Live n u r)
    (h : run (oneSew2 cfg n l r) m = (.ok a, m')) :
    StepOK n u m m' ∧
    (m.β 2 l = 0 → (∀ d, Valid m d → pos m' d = pos m d) ∧ (∀ d e, VC m' d e ↔ VC m d e)) ∧
    (m.β 2 l ≠ 0 →
      (∀ d e, VC m' d e ↔ United (g2 m .vertex) m.n (m.β 2 l) r d e) ∧
      (∀ d, Valid m d → ¬ VC m d (m.β 2 l) → ¬ VC m d r → pos m' d = pos m d) ∧
      (∀ d, Valid m d → (VC m d (m.β 2 l) ∨ VC m d r) → pos m' d = pos m' r) ∧
      ((∀ x y, pos m (m.β 2 l) = some x → pos m r = some y → x = y) →
        pos m' r = (pos m (m.β 2 l)).or (pos m r))) := by
  obtain ⟨i', f1, f0, _⟩ := oneSew2_eff cfg n hi hl hr h
  have hwf := hi.wf
  have hwf' := i'.wf
  have hL : C01.InUse m l := hi.inUse hl
  have hR : C01.InUse m r := hi.inUse hr
  have h' : run (oneSew2 cfg m.n l r) m = (.ok a, m') := by rw [hi.n_eq]; exact h
  have hVr : Valid m r := ⟨hR.1, hR.2.1⟩
  by_cases hx : m.β 2 l = 0
  · obtain ⟨m1, hlink, _, hcase⟩ := C04_oneSew2_effect cfg m.n l r m m' a hfc h'
    rcases hcase with ⟨_, hm⟩ | ⟨hne, _⟩
    · subst hm
      obtain ⟨_, _, _, _, hm1⟩ := oneLinkCore_ok hlink
      have hcells : ∀ d e, VC (link1 m l r) d e ↔ VC m d e := by
        intro d e
        have hc := vertex_cells_link1 hwf hL.1 hR.1 hL.2.1 hR.2.1 f1 f0 d e
        rw [if_pos hx] at hc
        exact hc
      have hm1' : m' = link1 m l r := hm1
      subst hm1'
      refine ⟨⟨i', rfl⟩, fun _ => ⟨fun d hd => ?_, hcells⟩, fun hne => absurd hx hne⟩
      show (link1 m l r).att 0 (cellId (link1 m l r) .vertex d) = m.att 0 (cellId m .vertex d)
      rw [cellId_eq_of_cells hwf hwf' rfl hd (hcells d)]
      rfl
    · exact absurd hx hne
  · obtain ⟨hwf1, st, hatt, hcells, _, hmerge⟩ := C04_oneSew2_cells cfg m m' l r a hwf hL hR hfc hx h'
    have hxn : m.β 2 l < m.n := hwf.range 2 (by omega) l hL.2.1
    have hVx : Valid m (m.β 2 l) := ⟨hx, hxn⟩
    have h0v : (0 : Nat) ∈ vStores cfg := by simp [vStores]
    have hcells' : ∀ d e, VC m' d e ↔ United (g2 m .vertex) m.n (m.β 2 l) r d e :=
      fun d e => (VC_sameTopo st d e).trans (hcells d e)
    have hVr1 : Valid (link1 m l r) r := hVr
    have vout := cellId_VC hwf1 (d := r) hVr1
    have vl := cellId_VC hwf hVx
    have vr := cellId_VC hwf hVr
    refine ⟨⟨i', hmerge.fc.trans rfl⟩, fun h0 => absurd h0 hx, fun _ => ⟨hcells', ?_, ?_, ?_⟩⟩
    · intro d hd hnx hnr
      have hcd : ∀ y, VC (link1 m l r) d y ↔ VC m d y := by
        intro y
        constructor
        · intro c
          rcases (hcells d y).1 c with c1 | ⟨c1, _⟩ | ⟨c1, _⟩
          · exact c1
          · exact absurd c1 hnx
          · exact absurd c1 hnr
        · intro c; exact (hcells d y).2 (Or.inl c)
      have hid : cellId (link1 m l r) .vertex d = cellId m .vertex d := cellId_eq_of_cells hwf hwf1 rfl hd hcd
      obtain ⟨hcv, _⟩ := cellId_VC hwf hd
      unfold pos
      rw [cellId_sameTopo st, hid]
      have n1 : cellId m .vertex d ≠ cellId (link1 m l r) .vertex r := by
        intro heq
        have c : VC (link1 m l r) r (cellId m .vertex d) := by rw [heq]; exact vout.1
        rcases (hcells _ _).1 c with c1 | ⟨c1, c2⟩ | ⟨_, c2⟩
        · exact hnr (SameCell.trans hcv (SameCell.symm c1))
        · exact hnr (SameCell.trans hcv (SameCell.symm c2))
        · exact hnx (SameCell.trans hcv (SameCell.symm c2))
      have n2 : cellId m .vertex d ≠ cellId m .vertex (m.β 2 l) := by
        intro heq
        exact hnx (SameCell.trans hcv (by rw [heq]; exact SameCell.symm vl.1))
      have n3 : cellId m .vertex d ≠ cellId m .vertex r := by
        intro heq
        exact hnr (SameCell.trans hcv (by rw [heq]; exact SameCell.symm vr.1))
      rw [hmerge.frame 0 _ h0v n1 n2 n3, hatt]
    · intro d hd hin
      have c : VC (link1 m l r) d r := by
        rcases hin with c | c
        · exact (hcells d r).2 (Or.inr (Or.inl ⟨c, .refl _⟩))
        · exact (hcells d r).2 (Or.inl c)
      unfold pos
      rw [cellId_sameTopo st, cellId_sameTopo st,
        (C03_same_id_iff_same_cell hwf1 (pol := .vertex) trivial hd.1 hd.2 hVr.1 hVr.2).2.2 c]
    · intro hcompat
      have hp : pos m' r = m'.att 0 (cellId (link1 m l r) .vertex r) := by unfold pos; rw [cellId_sameTopo st]
      rw [hp]
      by_cases hids : cellId m .vertex (m.β 2 l) = cellId m .vertex r
      · rw [hmerge.moved hids 0 h0v, hatt]
        have : pos m r = pos m (m.β 2 l) := by unfold pos; rw [hids]
        rw [this, or_self']
        rfl
      · obtain ⟨v, hv, hout⟩ := hmerge.merged hids 0 h0v
        rw [hlaw, hatt, hatt] at hv
        rw [hout]
        exact (mergeVal_avg hv hcompat).symm

/-! ## 2-sew of two darts without successor -/

/-- **a 2-sew of two 1-free darts keeps every vertex cell and the coordinates of every dart** -/
theorem twoSewFree_pos (cfg : Cfg Val) {n : Nat} {u : Array Bool} {l r : Nat} {m m' : Map Val} {a : Unit}
    (hi : Inv n u m) (hfc : m.fc = 0) (hl : Live n u l) (hr : Live n u r) (hlr : l ≠ r)
    (hbl : m.β 1 l = 0) (hbr : m.β 1 r = 0) (h : run (twoSew2 cfg n l r) m = (.ok a, m')) :
    StepOK n u m m' ∧ (∀ d, Valid m d → pos m' d = pos m d) ∧ (∀ d e, VC m' d e ↔ VC m d e) := by
  obtain ⟨i', _, _, _⟩ := twoSew2_eff cfg n hi hl hr hlr h
  have hwf := hi.wf
  have h' : run (twoSew2 cfg m.n l r) m = (.ok a, m') := by rw [hi.n_eq]; exact h
  obtain ⟨hwf1, st, hcells, hmerge⟩ :=
    C04_twoSew2_cells_free cfg m m' l r a hwf (hi.inUse hl) (hi.inUse hr) hlr hfc hbl hbr h'
  have hcells' : ∀ d e, VC m' d e ↔ VC m d e := fun d e => (VC_sameTopo st d e).trans (hcells d e)
  refine ⟨⟨i', hmerge.fc.trans rfl⟩, fun d hd => ?_, hcells'⟩
  have hid : cellId (link2 m l r) .vertex d = cellId m .vertex d := cellId_eq_of_cells hwf hwf1 rfl hd (hcells d)
  unfold pos
  rw [cellId_sameTopo st, hid, hmerge.other 0 _ (zero_notin_storagesOf cfg 1)]
  rfl

/-! ## 2-sew of two darts that both have a successor -/

/-- **a 2-sew of two darts with successors**, when the two end points of the new edge are different vertices
    (`cell l ∪ cell (β1 r)` apart from `cell (β1 l) ∪ cell r`): darts outside the four cells keep their coordinates; each of
    the two united pairs gets the merge of its two values (the common one, or the defined one) -/
theorem twoSewBoth_pos (cfg : Cfg Val) (hlaw : cfg.law 0 = avgLaw) {n : Nat} {u : Array Bool} {l r : Nat}
    {m m' : Map Val} {a : Unit} (hi : Inv n u m) (hfc : m.fc = 0) (hl : Live n u l) (hr : Live n u r) (hlr : l ≠ r)
    (hbl : m.β 1 l ≠ 0) (hbr : m.β 1 r ≠ 0)
    (s1 : ¬ VC m l r) (s2 : ¬ VC m l (m.β 1 l)) (s3 : ¬ VC m (m.β 1 r) r) (s4 : ¬ VC m (m.β 1 r) (m.β 1 l))
    (h : run (twoSew2 cfg n l r) m = (.ok a, m')) :
    StepOK n u m m' ∧
    (∀ d, Valid m d → ¬ VC m d l → ¬ VC m d (m.β 1 r) → ¬ VC m d (m.β 1 l) → ¬ VC m d r → pos m' d = pos m d) ∧
    ((∀ x y, pos m l = some x → pos m (m.β 1 r) = some y → x = y) →
      ∀ d, Valid m d → (VC m d l ∨ VC m d (m.β 1 r)) → pos m' d = (pos m l).or (pos m (m.β 1 r))) ∧
    ((∀ x y, pos m (m.β 1 l) = some x → pos m r = some y → x = y) →
      ∀ d, Valid m d → (VC m d (m.β 1 l) ∨ VC m d r) → pos m' d = (pos m (m.β 1 l)).or (pos m r)) := by
  obtain ⟨i', _, _, _⟩ := twoSew2_eff cfg n hi hl hr hlr h
  have hwf := hi.wf
  have h' : run (twoSew2 cfg m.n l r) m = (.ok a, m') := by rw [hi.n_eq]; exact h
  have hL := hi.inUse hl
  have hR := hi.inUse hr
  obtain ⟨hwf1, st, ⟨R, hR', hcells⟩, hids, ⟨ma, mb, mc, md, MA, MB, MC, MD, ME⟩⟩ :=
    C04_twoSew2_cells cfg m m' l r a hwf hL hR hlr hfc hbl hbr h'
  have hVl : Valid m l := ⟨hL.1, hL.2.1⟩
  have hVr : Valid m r := ⟨hR.1, hR.2.1⟩
  have hVp : Valid m (m.β 1 r) := ⟨hbr, hwf.range 1 (by omega) r hR.2.1⟩
  have hVq : Valid m (m.β 1 l) := ⟨hbl, hwf.range 1 (by omega) l hL.2.1⟩
  -- the two sides are apart
  have apart : ∀ d e, (VC m d l ∨ VC m d (m.β 1 r)) → (VC m e (m.β 1 l) ∨ VC m e r) → ¬ VC m d e := by
    intro d e hd he c
    rcases hd with hd | hd <;> rcases he with he | he
    · exact s2 (SameCell.trans (SameCell.symm hd) (SameCell.trans c he))
    · exact s1 (SameCell.trans (SameCell.symm hd) (SameCell.trans c he))
    · exact s4 (SameCell.trans (SameCell.symm hd) (SameCell.trans c he))
    · exact s3 (SameCell.trans (SameCell.symm hd) (SameCell.trans c he))
  have RAB : ∀ d e, R d e → (VC m e (m.β 1 l) ∨ VC m e r) → (VC m d (m.β 1 l) ∨ VC m d r) := by
    intro d e hde he
    rcases (hR' d e).1 hde with c | ⟨_, c2⟩ | ⟨_, c2⟩
    · rcases he with he | he
      · exact Or.inl (SameCell.trans c he)
      · exact Or.inr (SameCell.trans c he)
    · exact absurd c2 (apart _ _ (Or.inr (.refl _)) he)
    · exact absurd c2 (apart _ _ (Or.inl (.refl _)) he)
  -- (F1) outside the four cells nothing changes
  have F1 : ∀ d, ¬ VC m d l → ¬ VC m d (m.β 1 r) → ¬ VC m d (m.β 1 l) → ¬ VC m d r →
      ∀ x, VC (link2 m l r) d x ↔ VC m d x := by
    intro d n1 n2 n3 n4 x
    have Rd : ∀ y, R d y → VC m d y := by
      intro y hy
      rcases (hR' d y).1 hy with c | ⟨c, _⟩ | ⟨c, _⟩
      · exact c
      · exact absurd c n1
      · exact absurd c n2
    constructor
    · intro c
      rcases (hcells d x).1 c with c1 | ⟨c1, _⟩ | ⟨c1, _⟩
      · exact Rd x c1
      · exact absurd (Rd _ c1) n4
      · exact absurd (Rd _ c1) n3
    · intro c
      exact (hcells d x).2 (Or.inl ((hR' d x).2 (Or.inl c)))
  have F2 : ∀ d, (VC m d l ∨ VC m d (m.β 1 r)) → VC (link2 m l r) d l := by
    intro d hd
    refine (hcells d l).2 (Or.inl ((hR' d l).2 ?_))
    rcases hd with c | c
    · exact Or.inl c
    · exact Or.inr (Or.inr ⟨c, .refl _⟩)
  have F3 : ∀ d, (VC m d (m.β 1 l) ∨ VC m d r) → VC (link2 m l r) d r := by
    intro d hd
    have Rrefl : ∀ z, R z z := fun z => (hR' z z).2 (Or.inl (.refl z))
    rcases hd with c | c
    · exact (hcells d r).2 (Or.inr (Or.inr ⟨(hR' _ _).2 (Or.inl c), Rrefl r⟩))
    · exact (hcells d r).2 (Or.inl ((hR' _ _).2 (Or.inl c)))
  have F4 : ¬ VC (link2 m l r) l r := by
    intro c
    have nlr : ¬ R l r := fun hh => by
      rcases RAB l r hh (Or.inr (.refl _)) with c | c
      · exact s2 c
      · exact s1 c
    have nlq : ¬ R l (m.β 1 l) := fun hh => by
      rcases RAB l _ hh (Or.inl (.refl _)) with c | c
      · exact s2 c
      · exact s1 c
    rcases (hcells l r).1 c with c1 | ⟨c1, _⟩ | ⟨c1, _⟩
    · exact nlr c1
    · exact nlr c1
    · exact nlq c1
  obtain ⟨id1, id2⟩ := hids F4
  -- the six identifiers and their sides
  have va1 := cellId_VC hwf hVl
  have vb1 := cellId_VC hwf hVp
  have va2 := cellId_VC hwf hVq
  have vb2 := cellId_VC hwf hVr
  have A1 : VC m (cellId m .vertex l) l ∨ VC m (cellId m .vertex l) (m.β 1 r) := Or.inl (SameCell.symm va1.1)
  have B1 : VC m (cellId m .vertex (m.β 1 r)) l ∨ VC m (cellId m .vertex (m.β 1 r)) (m.β 1 r) :=
    Or.inr (SameCell.symm vb1.1)
  have A2 : VC m (cellId m .vertex (m.β 1 l)) (m.β 1 l) ∨ VC m (cellId m .vertex (m.β 1 l)) r :=
    Or.inl (SameCell.symm va2.1)
  have B2 : VC m (cellId m .vertex r) (m.β 1 l) ∨ VC m (cellId m .vertex r) r := Or.inr (SameCell.symm vb2.1)
  have C1 : VC m (cellId (link2 m l r) .vertex l) l ∨ VC m (cellId (link2 m l r) .vertex l) (m.β 1 r) := by
    rw [id1]
    rcases Nat.le_total (cellId m .vertex l) (cellId m .vertex (m.β 1 r)) with c | c
    · rw [Nat.min_eq_left c]; exact A1
    · rw [Nat.min_eq_right c]; exact B1
  have C2 : VC m (cellId (link2 m l r) .vertex r) (m.β 1 l) ∨ VC m (cellId (link2 m l r) .vertex r) r := by
    rw [id2]
    rcases Nat.le_total (cellId m .vertex (m.β 1 l)) (cellId m .vertex r) with c | c
    · rw [Nat.min_eq_left c]; exact A2
    · rw [Nat.min_eq_right c]; exact B2
  have ne_of : ∀ {x y : Nat}, (VC m x l ∨ VC m x (m.β 1 r)) → (VC m y (m.β 1 l) ∨ VC m y r) → x ≠ y := by
    intro x y hx hy hxy
    subst hxy
    exact apart _ _ hx hy (.refl _)
  have hatt1 : ∀ e, (link2 m l r).att 0 e = m.att 0 e := fun _ => rfl
  have tail : ∀ e, m'.att 0 e = mb.att 0 e := by
    intro e
    rw [ME.other 0 e (zero_notin_storagesOf cfg 1), MD.other 0 e (zero_notin_storagesOf cfg 0),
      MC.other 0 e (zero_notin_storagesOf cfg 0)]
  have h0 : (0 : Nat) ∈ [0] := by simp
  have stt : ∀ d, cellId m' .vertex d = cellId (link2 m l r) .vertex d := fun d => cellId_sameTopo st d
  refine ⟨⟨i', ?_⟩, ?_, ?_, ?_⟩
  · rw [ME.fc, MD.fc, MC.fc, MB.fc, MA.fc]; rfl
  · intro d hd n1 n2 n3 n4
    have hid : cellId (link2 m l r) .vertex d = cellId m .vertex d :=
      cellId_eq_of_cells hwf hwf1 rfl hd (F1 d n1 n2 n3 n4)
    obtain ⟨hcv, _⟩ := cellId_VC hwf hd
    have nAB : ∀ z, (VC m z l ∨ VC m z (m.β 1 r)) → cellId m .vertex d ≠ z := by
      intro z hz heq
      subst heq
      rcases hz with c | c
      · exact n1 (SameCell.trans hcv c)
      · exact n2 (SameCell.trans hcv c)
    have nCD : ∀ z, (VC m z (m.β 1 l) ∨ VC m z r) → cellId m .vertex d ≠ z := by
      intro z hz heq
      subst heq
      rcases hz with c | c
      · exact n3 (SameCell.trans hcv c)
      · exact n4 (SameCell.trans hcv c)
    unfold pos
    rw [stt, hid, tail, MB.frame 0 _ h0 (nCD _ C2) (nCD _ A2) (nCD _ B2),
      MA.frame 0 _ h0 (nAB _ C1) (nAB _ A1) (nAB _ B1), hatt1]
  · intro hcompat d hd hin
    have hk : cellId (link2 m l r) .vertex d = cellId (link2 m l r) .vertex l :=
      (C03_same_id_iff_same_cell hwf1 (pol := .vertex) trivial hd.1 hd.2 hVl.1 hVl.2).2.2 (F2 d hin)
    unfold pos
    rw [stt, hk, tail, MB.frame 0 _ h0 (ne_of C1 C2) (ne_of C1 A2) (ne_of C1 B2)]
    by_cases hids' : cellId m .vertex l = cellId m .vertex (m.β 1 r)
    · rw [MA.moved hids' 0 h0, hatt1, ← hids', or_self']
    · obtain ⟨v, hv, hout⟩ := MA.merged hids' 0 h0
      rw [hlaw, hatt1, hatt1] at hv
      rw [hout]
      exact (mergeVal_avg hv hcompat).symm
  · intro hcompat d hd hin
    have hk : cellId (link2 m l r) .vertex d = cellId (link2 m l r) .vertex r :=
      (C03_same_id_iff_same_cell hwf1 (pol := .vertex) trivial hd.1 hd.2 hVr.1 hVr.2).2.2 (F3 d hin)
    have ea : ma.att 0 (cellId m .vertex (m.β 1 l)) = m.att 0 (cellId m .vertex (m.β 1 l)) := by
      rw [MA.frame 0 _ h0 (ne_of C1 A2).symm (ne_of A1 A2).symm (ne_of B1 A2).symm, hatt1]
    have eb : ma.att 0 (cellId m .vertex r) = m.att 0 (cellId m .vertex r) := by
      rw [MA.frame 0 _ h0 (ne_of C1 B2).symm (ne_of A1 B2).symm (ne_of B1 B2).symm, hatt1]
    unfold pos
    rw [stt, hk, tail]
    by_cases hids' : cellId m .vertex (m.β 1 l) = cellId m .vertex r
    · rw [MB.moved hids' 0 h0, ea, ← hids', or_self']
    · obtain ⟨v, hv, hout⟩ := MB.merged hids' 0 h0
      rw [hlaw, ea, eb] at hv
      rw [hout]
      exact (mergeVal_avg hv hcompat).symm

end HC.PosCalc
