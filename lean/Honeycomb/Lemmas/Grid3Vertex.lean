/-
  Vertices of the 3-D hex grid (`build_3d_grid`): which darts share a vertex, what `vertex_id`
  returns, and which coordinates the placement loop leaves under it — for ALL `nx, ny, nz ≥ 1`.

  `kap o` is the corner (in `{0,1}³`) of the cell at which local dart `o` starts, READ OFF THE
  GENERATED ARMS of `generate_hex_offset` (`Gen.hexOffsetArms`); `pt3 d` is the lattice point of
  dart `d`.  Finite facts about the generated β table and the generated arms (`hexFacts`,
  `hexWithin`, `hexFaceDart`, by `decide`) say that the six images examined by `vertex_id_transac`
  keep the corner (shifted by the neighbour's offset across a face), that the three darts of a
  corner are linked inside the cell, and that every face through a corner carries a dart of it.
  * `hex_closed`   the images keep the lattice point;
  * `hex_reach`    any set closed under the images that contains a dart contains every dart with the
                   same lattice point (the up to 8 cells round a point form a box);
  * `vid3_spec`    hence `vertex_id d` is the smallest dart with the lattice point of `d` (total
                   correctness, traversal lemma of `Grid3Pop.lean`);
  * `hexOffset_D3` index decoding of `generate_hex_offset` (local darts 1..23; the arm of local dart
                   24 decodes the wrong cell but is never used: dart 12 of the cell is smaller);
  * `hex3_att`     after the placement loop the slot `vertex_id d` of **every** dart `d` holds
                   `origin + (i·lx, j·ly, k·lz)` for `(i, j, k) = pt3 d`.
-/
import Mathlib.Tactic.Ring
import Honeycomb.Lemmas.GridLink
import Honeycomb.Lemmas.Grid3Pop
import Honeycomb.Lemmas.WFLink

namespace HC.Grid3Vertex
open HC HC.Gen HC.Grid3Pop

/-- the β part of `build_3d_grid` -/
abbrev H3 (nx ny nz : Nat) : Map Val := gridMap 4 (hexK * nx * ny * nz) (hexβ nx ny nz)

theorem H3_wf {nx ny : Nat} (nz : Nat) (hnx : 0 < nx) (hny : 0 < ny) : WF 4 (H3 nx ny nz) := by
  have h := absWF hexShape hexShape_ok (nz := nz) hnx hny
  rw [← hexMap_eq hnx hny] at h
  exact h

/-- local dart `o` of cell `(a, b, c)` -/
abbrev D3 (nx ny a b c o : Nat) : Nat := dartOf 24 nx ny a b c o

/-! ## finite facts about the generated tables -/

/-- corner of the cell at which local dart `o` (0-based) starts: the arm of `generate_hex_offset`
    for `p = (o + 1) mod 24` -/
def kap (o : Nat) : Nat × Nat × Nat :=
  match hexOffsetArms.find? (fun a => a.1.contains ((o + 1) % 24)) with
  | some (_, c) => c
  | none => (0, 0, 0)

/-- local image under β_i -/
def pp (i o : Nat) : Nat := (hexShape.at o i).2
/-- direction of the neighbour across the face of local dart `o` -/
def dir3 (o : Nat) : Nat := (hexShape.at o 3).1

/-- corner `k'` seen from the neighbour in direction `dir` is corner `k` seen from here -/
def CornerRel (dir : Nat) (k' k : Nat × Nat × Nat) : Prop :=
  match dir with
  | 0 => k' = k
  | 1 => k'.1 = k.1 + 1 ∧ k'.2.1 = k.2.1 ∧ k'.2.2 = k.2.2
  | 2 => k'.1 + 1 = k.1 ∧ k'.2.1 = k.2.1 ∧ k'.2.2 = k.2.2
  | 3 => k'.1 = k.1 ∧ k'.2.1 = k.2.1 + 1 ∧ k'.2.2 = k.2.2
  | 4 => k'.1 = k.1 ∧ k'.2.1 + 1 = k.2.1 ∧ k'.2.2 = k.2.2
  | 5 => k'.1 = k.1 ∧ k'.2.1 = k.2.1 ∧ k'.2.2 = k.2.2 + 1
  | _ => k'.1 = k.1 ∧ k'.2.1 = k.2.1 ∧ k'.2.2 + 1 = k.2.2

instance (dir : Nat) (k' k : Nat × Nat × Nat) : Decidable (CornerRel dir k' k) := by
  unfold CornerRel; split <;> exact inferInstance

/-- the face in direction `dir` passes through corner `k` -/
def Compat (dir : Nat) (k : Nat × Nat × Nat) : Prop :=
  match dir with
  | 1 => k.1 = 0
  | 2 => k.1 = 1
  | 3 => k.2.1 = 0
  | 4 => k.2.1 = 1
  | 5 => k.2.2 = 0
  | 6 => k.2.2 = 1
  | _ => False

instance (dir : Nat) (k : Nat × Nat × Nat) : Decidable (Compat dir k) := by
  unfold Compat; split <;> exact inferInstance

set_option maxRecDepth 100000 in
theorem hexFacts : ∀ o, o < 24 →
    (hexShape.at o 0).1 = 0 ∧ (hexShape.at o 1).1 = 0 ∧ (hexShape.at o 2).1 = 0 ∧
    pp 0 o < 24 ∧ pp 1 o < 24 ∧ pp 2 o < 24 ∧ pp 3 o < 24 ∧ 1 ≤ dir3 o ∧ dir3 o ≤ 6 ∧
    (kap o).1 ≤ 1 ∧ (kap o).2.1 ≤ 1 ∧ (kap o).2.2 ≤ 1 ∧
    kap (pp 1 (pp 2 o)) = kap o ∧ kap (pp 2 (pp 0 o)) = kap o ∧
    CornerRel (dir3 (pp 2 o)) (kap (pp 3 (pp 2 o))) (kap o) ∧
    CornerRel (dir3 (pp 0 o)) (kap (pp 3 (pp 0 o))) (kap o) ∧
    CornerRel (dir3 o) (kap (pp 1 (pp 3 o))) (kap o) ∧
    CornerRel (dir3 o) (kap (pp 2 (pp 3 o))) (kap o) := by decide

set_option maxRecDepth 100000 in
theorem hexWithin : ∀ o, o < 24 → ∀ o', o' < 24 → kap o' = kap o →
    o' = o ∨ o' = pp 1 (pp 2 o) ∨ o' = pp 2 (pp 0 o) := by decide

set_option maxRecDepth 100000 in
theorem hexFaceDart' : ∀ kx, kx < 2 → ∀ ky, ky < 2 → ∀ kz, kz < 2 → ∀ dir, dir < 7 → Compat dir (kx, ky, kz) →
    (List.range 24).any (fun o => decide (kap o = (kx, ky, kz) ∧ dir3 o = dir)) = true := by decide

theorem hexFaceDart {kx ky kz dir : Nat} (hx : kx < 2) (hy : ky < 2) (hz : kz < 2) (hd : dir < 7)
    (hc : Compat dir (kx, ky, kz)) : ∃ o, o < 24 ∧ kap o = (kx, ky, kz) ∧ dir3 o = dir := by
  have := hexFaceDart' kx hx ky hy kz hz dir hd hc
  rw [List.any_eq_true] at this
  obtain ⟨o, ho, h⟩ := this
  exact ⟨o, List.mem_range.mp ho, by simpa using h⟩

set_option maxRecDepth 100000 in
/-- every corner is the start of some local dart; local dart 12 (index 11) starts at the corner of
    local dart 24 (index 23); the arms of `generate_hex_offset` cover `p = 1..23` consistently -/
theorem hexMisc : (∀ kx, kx < 2 → ∀ ky, ky < 2 → ∀ kz, kz < 2 →
      (List.range 24).any (fun o => decide (kap o = (kx, ky, kz))) = true) ∧ kap 11 = kap 23 ∧
    (∀ o, o < 23 → (hexOffsetArms.find? (fun a => a.1.contains (o + 1))).map (·.2) = some (kap o)) := by
  decide

theorem cornerRel_unique {dir : Nat} {k1 k2 k : Nat × Nat × Nat} (h1 : CornerRel dir k1 k)
    (h2 : CornerRel dir k2 k) : k1 = k2 := by
  obtain ⟨a1, b1, c1⟩ := k1
  obtain ⟨a2, b2, c2⟩ := k2
  obtain ⟨a, b, c⟩ := k
  unfold CornerRel at h1 h2
  split at h1 <;> simp_all <;> omega

/-- neighbour cell + its corner = this cell + this corner -/
theorem pt_shift {dir a b c a' b' c' : Nat} {k' k : Nat × Nat × Nat} (hd : dir ≤ 6)
    (hn : Nbr dir a b c a' b' c') (hr : CornerRel dir k' k) :
    (a' + k'.1, b' + k'.2.1, c' + k'.2.2) = (a + k.1, b + k.2.1, c + k.2.2) := by
  rcases dir_cases hd with e | e | e | e | e | e | e <;> subst e <;> simp only [Nbr] at hn <;>
    simp only [CornerRel] at hr <;> obtain ⟨h1, h2, h3⟩ := hn
  · subst hr; subst h1 h2 h3; rfl
  all_goals (obtain ⟨r1, r2, r3⟩ := hr; simp only [Prod.mk.injEq]; omega)

/-- value of an entry when the neighbour exists -/
theorem absEntry_nbr {K nx ny nz a b c a' b' c' dir : Nat} (hd1 : 1 ≤ dir) (hd : dir ≤ 6)
    (h : Nbr dir a b c a' b' c') (ha' : a' < nx) (hb' : b' < ny) (hc' : c' < nz) (o : Nat) :
    absEntry K nx ny nz a b c dir o = dartOf K nx ny a' b' c' o := by
  rcases dir_cases hd with e | e | e | e | e | e | e <;> subst e <;> simp only [Nbr] at h <;>
    obtain ⟨h1, h2, h3⟩ := h <;> simp only [absEntry]
  · omega
  · have n : ¬ a = 0 := by omega
    have e : a - 1 = a' := by omega
    simp only [n, if_false, e, h2, h3]
  · have n : ¬ (a + 1 = nx) := by omega
    simp only [n, if_false, h1, h2, h3]
  · have n : ¬ b = 0 := by omega
    have e : b - 1 = b' := by omega
    simp only [n, if_false, e, h1, h3]
  · have n : ¬ (b + 1 = ny) := by omega
    simp only [n, if_false, h1, h2, h3]
  · have n : ¬ c = 0 := by omega
    have e : c - 1 = c' := by omega
    simp only [n, if_false, e, h1, h2]
  · have n : ¬ (c + 1 = nz) := by omega
    simp only [n, if_false, h1, h2, h3]

section
variable {nx ny nz : Nat} {m : Map Val}

theorem D3_lt {a b c o : Nat} (ha : a < nx) (hb : b < ny) (hc : c < nz) (ho : o < 24) :
    D3 nx ny a b c o < 24 * nx * ny * nz + 1 := by
  have h1 := dartOf_le (K := 24) ha hb hc ho
  have e : 24 * (nx * ny * nz) = 24 * nx * ny * nz := by rw [Nat.mul_assoc 24, Nat.mul_assoc 24]
  unfold D3; omega

theorem D3_pos {a b c o : Nat} : 1 ≤ D3 nx ny a b c o := dartOf_pos

theorem H3_n : (H3 nx ny nz).n = 24 * nx * ny * nz + 1 := rfl

theorem β_D3 (st : SameTopo (H3 nx ny nz) m) {a b c o i : Nat} (ha : a < nx) (hb : b < ny)
    (hc : c < nz) (ho : o < 24) (hi : i < 4) :
    m.β i (D3 nx ny a b c o) = absEntry 24 nx ny nz a b c (hexShape.at o i).1 (hexShape.at o i).2 := by
  rw [st.β, gridMap_β]
  have h1 := D3_lt ha hb hc ho
  have h2 := D3_pos (nx := nx) (ny := ny) (a := a) (b := b) (c := c) (o := o)
  have e : hexK * nx * ny * nz = 24 * nx * ny * nz := rfl
  have h3 : D3 nx ny a b c o ≠ 0 := by omega
  have h4 : D3 nx ny a b c o ≤ hexK * nx * ny * nz := by omega
  simp only [hi, h4, h3, ne_eq, not_false_eq_true, and_self, if_true]
  exact (hexβ_dartOf ha hb ho i).trans (hex_link ha hb hc ho hi)

/-- β0, β1, β2 stay in the cell -/
theorem βw (st : SameTopo (H3 nx ny nz) m) {a b c o i : Nat} (ha : a < nx) (hb : b < ny)
    (hc : c < nz) (ho : o < 24) (hi : i < 3) :
    m.β i (D3 nx ny a b c o) = D3 nx ny a b c (pp i o) := by
  rw [β_D3 st ha hb hc ho (by omega)]
  obtain ⟨e0, e1, e2, _⟩ := hexFacts o ho
  have i3 : i = 0 ∨ i = 1 ∨ i = 2 := by omega
  rcases i3 with rfl | rfl | rfl
  · rw [e0]; rfl
  · rw [e1]; rfl
  · rw [e2]; rfl

/-- β3 is null or the dart `pp 3 o` of the neighbour across the face -/
theorem β3_cases (st : SameTopo (H3 nx ny nz) m) {a b c o : Nat} (ha : a < nx) (hb : b < ny)
    (hc : c < nz) (ho : o < 24) :
    m.β 3 (D3 nx ny a b c o) = 0 ∨ ∃ a' b' c', a' < nx ∧ b' < ny ∧ c' < nz ∧
      Nbr (dir3 o) a b c a' b' c' ∧ m.β 3 (D3 nx ny a b c o) = D3 nx ny a' b' c' (pp 3 o) := by
  rw [β_D3 st ha hb hc ho (by decide)]
  have hd := (hexFacts o ho).2.2.2.2.2.2.2.2.1
  exact absEntry_cases (K := 24) ha hb hc hd (pp 3 o)

theorem β3_nbr (st : SameTopo (H3 nx ny nz) m) {a b c o a' b' c' : Nat} (ha : a < nx) (hb : b < ny)
    (hc : c < nz) (ho : o < 24) (hn : Nbr (dir3 o) a b c a' b' c') (ha' : a' < nx) (hb' : b' < ny)
    (hc' : c' < nz) : m.β 3 (D3 nx ny a b c o) = D3 nx ny a' b' c' (pp 3 o) := by
  rw [β_D3 st ha hb hc ho (by decide)]
  obtain ⟨_, _, _, _, _, _, _, d1, d6, _⟩ := hexFacts o ho
  exact absEntry_nbr d1 d6 hn ha' hb' hc' (pp 3 o)

/-! ## lattice points -/

/-- lattice point of local dart `o` of cell `(a, b, c)` -/
def P3 (a b c o : Nat) : Nat × Nat × Nat := (a + (kap o).1, b + (kap o).2.1, c + (kap o).2.2)

/-- lattice point at the origin of dart `d` -/
def pt3 (nx ny d : Nat) : Nat × Nat × Nat :=
  P3 ((d - 1) / 24 % nx) ((d - 1) / 24 / nx % ny) ((d - 1) / 24 / (nx * ny)) ((d - 1) % 24)

theorem pt3_D {a b c o : Nat} (ha : a < nx) (hb : b < ny) (ho : o < 24) :
    pt3 nx ny (D3 nx ny a b c o) = P3 a b c o := by
  unfold pt3 D3
  rw [dartOf_cell ho, dartOf_local ho, cellIdx_x ha, cellIdx_y ha hb, cellIdx_z ha hb]

/-- a dart of the grid -/
def IsD3 (nx ny nz d : Nat) : Prop :=
  ∃ a b c o, a < nx ∧ b < ny ∧ c < nz ∧ o < 24 ∧ d = D3 nx ny a b c o

theorem isD3_of_range (hnx : 0 < nx) (hny : 0 < ny) {d : Nat} (h1 : 1 ≤ d)
    (h2 : d ≤ 24 * nx * ny * nz) : IsD3 nx ny nz d := by
  have h2' : d ≤ 24 * (nx * ny * nz) := by rw [← Nat.mul_assoc, ← Nat.mul_assoc]; exact h2
  obtain ⟨a, b, c, o, ha, hb, hc, ho, e⟩ := decode (K := 24) (by decide) hnx hny h1 h2'
  exact ⟨a, b, c, o, ha, hb, hc, ho, e⟩

/-- the six images keep the lattice point -/
theorem hex_closed (st : SameTopo (H3 nx ny nz) m) (wf : WF 4 m) {a b c o : Nat} (ha : a < nx)
    (hb : b < ny) (hc : c < nz) (ho : o < 24) : ∀ y, y ∈ g3 m (D3 nx ny a b c o) → y = 0 ∨
      ∃ a' b' c' o', a' < nx ∧ b' < ny ∧ c' < nz ∧ o' < 24 ∧ y = D3 nx ny a' b' c' o' ∧
        P3 a' b' c' o' = P3 a b c o := by
  have n1 : m.β 1 0 = 0 := wf.null 1 (by decide)
  have n2 : m.β 2 0 = 0 := wf.null 2 (by decide)
  obtain ⟨_, _, _, q0, q1, q2, q3, d1, d6, _, _, _, f1, f2, f3, f4, f5, f6⟩ := hexFacts o ho
  have hd2 := (hexFacts (pp 2 o) q2)
  have hd0 := (hexFacts (pp 0 o) q0)
  have hd3 := (hexFacts (pp 3 o) q3)
  intro y hy
  simp only [g3, List.mem_cons, List.not_mem_nil, or_false] at hy
  rcases hy with rfl | rfl | rfl | rfl | rfl | rfl
  · -- β1 (β3 x)
    rcases β3_cases st ha hb hc ho with h | ⟨a', b', c', ha', hb', hc', hn, h⟩
    · left; rw [h, n1]
    · right
      rw [h, βw st ha' hb' hc' q3 (by decide)]
      exact ⟨a', b', c', _, ha', hb', hc', hd3.2.2.2.2.1, rfl, pt_shift d6 hn f5⟩
  · -- β3 (β2 x)
    rw [βw st ha hb hc ho (by decide)]
    rcases β3_cases st ha hb hc q2 with h | ⟨a', b', c', ha', hb', hc', hn, h⟩
    · left; exact h
    · right
      rw [h]
      exact ⟨a', b', c', _, ha', hb', hc', hd2.2.2.2.2.2.2.1, rfl,
        pt_shift hd2.2.2.2.2.2.2.2.2.1 hn f3⟩
  · -- β1 (β2 x)
    right
    rw [βw st ha hb hc ho (by decide), βw st ha hb hc q2 (by decide)]
    refine ⟨a, b, c, _, ha, hb, hc, hd2.2.2.2.2.1, rfl, ?_⟩
    unfold P3; rw [f1]
  · -- β3 (β0 x)
    rw [βw st ha hb hc ho (by decide)]
    rcases β3_cases st ha hb hc q0 with h | ⟨a', b', c', ha', hb', hc', hn, h⟩
    · left; exact h
    · right
      rw [h]
      exact ⟨a', b', c', _, ha', hb', hc', hd0.2.2.2.2.2.2.1, rfl,
        pt_shift hd0.2.2.2.2.2.2.2.2.1 hn f4⟩
  · -- β2 (β0 x)
    right
    rw [βw st ha hb hc ho (by decide), βw st ha hb hc q0 (by decide)]
    refine ⟨a, b, c, _, ha, hb, hc, hd0.2.2.2.2.2.1, rfl, ?_⟩
    unfold P3; rw [f2]
  · -- β2 (β3 x)
    rcases β3_cases st ha hb hc ho with h | ⟨a', b', c', ha', hb', hc', hn, h⟩
    · left; rw [h, n2]
    · right
      rw [h, βw st ha' hb' hc' q3 (by decide)]
      exact ⟨a', b', c', _, ha', hb', hc', hd3.2.2.2.2.2.1, rfl, pt_shift d6 hn f6⟩

/-! ## connectivity: a closed set containing one dart of a lattice point contains them all -/

/-- all darts of cell `(a, b, c)` that start at corner `k` are in `M` -/
def Cov (nx ny : Nat) (M : List Nat) (a b c : Nat) (k : Nat × Nat × Nat) : Prop :=
  ∀ o, o < 24 → kap o = k → D3 nx ny a b c o ∈ M

variable {M : List Nat}

theorem cov_within (st : SameTopo (H3 nx ny nz) m)
    (hM : ∀ x, x ∈ M → x ≠ 0 → ∀ y, y ∈ g3 m x → y ∈ M) {a b c o : Nat} (ha : a < nx) (hb : b < ny)
    (hc : c < nz) (ho : o < 24) (hx : D3 nx ny a b c o ∈ M) : Cov nx ny M a b c (kap o) := by
  have hx0 : D3 nx ny a b c o ≠ 0 := by
    have := D3_pos (nx := nx) (ny := ny) (a := a) (b := b) (c := c) (o := o); omega
  obtain ⟨_, _, _, q0, _, q2, _⟩ := hexFacts o ho
  intro o' ho' hk
  rcases hexWithin o ho o' ho' hk with rfl | rfl | rfl
  · exact hx
  · have := hM _ hx hx0 (m.β 1 (m.β 2 (D3 nx ny a b c o))) (by simp [g3])
    rwa [βw st ha hb hc ho (by decide), βw st ha hb hc q2 (by decide)] at this
  · have := hM _ hx hx0 (m.β 2 (m.β 0 (D3 nx ny a b c o))) (by simp [g3])
    rwa [βw st ha hb hc ho (by decide), βw st ha hb hc q0 (by decide)] at this

/-- crossing a face through the corner -/
theorem cov_move (st : SameTopo (H3 nx ny nz) m)
    (hM : ∀ x, x ∈ M → x ≠ 0 → ∀ y, y ∈ g3 m x → y ∈ M) {a b c a' b' c' dir : Nat}
    {k k' : Nat × Nat × Nat} (ha : a < nx) (hb : b < ny) (hc : c < nz) (ha' : a' < nx) (hb' : b' < ny)
    (hc' : c' < nz) (hk1 : k.1 < 2) (hk2 : k.2.1 < 2) (hk3 : k.2.2 < 2) (hd : dir < 7)
    (hcomp : Compat dir k) (hn : Nbr dir a b c a' b' c') (hr : CornerRel dir k' k)
    (hcov : Cov nx ny M a b c k) : Cov nx ny M a' b' c' k' := by
  obtain ⟨k1, k2, k3⟩ := k
  obtain ⟨o2, ho2, hk, hdir⟩ := hexFaceDart hk1 hk2 hk3 hd hcomp
  have hx := hcov o2 ho2 hk
  have hx0 : D3 nx ny a b c o2 ≠ 0 := by
    have := D3_pos (nx := nx) (ny := ny) (a := a) (b := b) (c := c) (o := o2); omega
  obtain ⟨_, _, _, _, _, _, q3, _, _, _, _, _, _, _, _, _, _, f6⟩ := hexFacts o2 ho2
  have q23 := (hexFacts (pp 3 o2) q3).2.2.2.2.2.1
  have him := hM _ hx hx0 (m.β 2 (m.β 3 (D3 nx ny a b c o2))) (by simp [g3])
  rw [β3_nbr st ha hb hc ho2 (by rw [hdir]; exact hn) ha' hb' hc', βw st ha' hb' hc' q3 (by decide)] at him
  have hc2 := cov_within st hM ha' hb' hc' q23 him
  rw [hdir, hk] at f6
  rw [cornerRel_unique f6 hr] at hc2
  exact hc2

theorem cov_x (st : SameTopo (H3 nx ny nz) m)
    (hM : ∀ x, x ∈ M → x ≠ 0 → ∀ y, y ∈ g3 m x → y ∈ M) {a b c a' kx ky kz kx' : Nat}
    (ha : a < nx) (hb : b < ny) (hc : c < nz) (ha' : a' < nx) (h1 : kx < 2) (h2 : ky < 2) (h3 : kz < 2)
    (h1' : kx' < 2) (he : a' + kx' = a + kx) (hcov : Cov nx ny M a b c (kx, ky, kz)) :
    Cov nx ny M a' b c (kx', ky, kz) := by
  by_cases e0 : a' = a
  · have : kx' = kx := by omega
    subst e0 this; exact hcov
  · by_cases e1 : a' + 1 = a
    · refine cov_move st hM ha hb hc ha' hb hc h1 h2 h3 (by decide : 1 < 7) (k' := (kx', ky, kz)) ?_
        (show Nbr 1 a b c a' b c from ⟨e1, rfl, rfl⟩) ?_ hcov
      · show kx = 0; omega
      · show kx' = kx + 1 ∧ ky = ky ∧ kz = kz
        exact ⟨by omega, rfl, rfl⟩
    · have e2 : a' = a + 1 := by omega
      refine cov_move st hM ha hb hc ha' hb hc h1 h2 h3 (by decide : 2 < 7) (k' := (kx', ky, kz)) ?_
        (show Nbr 2 a b c a' b c from ⟨e2, rfl, rfl⟩) ?_ hcov
      · show kx = 1; omega
      · show kx' + 1 = kx ∧ ky = ky ∧ kz = kz
        exact ⟨by omega, rfl, rfl⟩

theorem cov_y (st : SameTopo (H3 nx ny nz) m)
    (hM : ∀ x, x ∈ M → x ≠ 0 → ∀ y, y ∈ g3 m x → y ∈ M) {a b c b' kx ky kz ky' : Nat}
    (ha : a < nx) (hb : b < ny) (hc : c < nz) (hb' : b' < ny) (h1 : kx < 2) (h2 : ky < 2) (h3 : kz < 2)
    (h2' : ky' < 2) (he : b' + ky' = b + ky) (hcov : Cov nx ny M a b c (kx, ky, kz)) :
    Cov nx ny M a b' c (kx, ky', kz) := by
  by_cases e0 : b' = b
  · have : ky' = ky := by omega
    subst e0 this; exact hcov
  · by_cases e1 : b' + 1 = b
    · refine cov_move st hM ha hb hc ha hb' hc h1 h2 h3 (by decide : 3 < 7) (k' := (kx, ky', kz)) ?_
        (show Nbr 3 a b c a b' c from ⟨rfl, e1, rfl⟩) ?_ hcov
      · show ky = 0; omega
      · show kx = kx ∧ ky' = ky + 1 ∧ kz = kz
        exact ⟨rfl, by omega, rfl⟩
    · have e2 : b' = b + 1 := by omega
      refine cov_move st hM ha hb hc ha hb' hc h1 h2 h3 (by decide : 4 < 7) (k' := (kx, ky', kz)) ?_
        (show Nbr 4 a b c a b' c from ⟨rfl, e2, rfl⟩) ?_ hcov
      · show ky = 1; omega
      · show kx = kx ∧ ky' + 1 = ky ∧ kz = kz
        exact ⟨rfl, by omega, rfl⟩

theorem cov_z (st : SameTopo (H3 nx ny nz) m)
    (hM : ∀ x, x ∈ M → x ≠ 0 → ∀ y, y ∈ g3 m x → y ∈ M) {a b c c' kx ky kz kz' : Nat}
    (ha : a < nx) (hb : b < ny) (hc : c < nz) (hc' : c' < nz) (h1 : kx < 2) (h2 : ky < 2) (h3 : kz < 2)
    (h3' : kz' < 2) (he : c' + kz' = c + kz) (hcov : Cov nx ny M a b c (kx, ky, kz)) :
    Cov nx ny M a b c' (kx, ky, kz') := by
  by_cases e0 : c' = c
  · have : kz' = kz := by omega
    subst e0 this; exact hcov
  · by_cases e1 : c' + 1 = c
    · refine cov_move st hM ha hb hc ha hb hc' h1 h2 h3 (by decide : 5 < 7) (k' := (kx, ky, kz')) ?_
        (show Nbr 5 a b c a b c' from ⟨rfl, rfl, e1⟩) ?_ hcov
      · show kz = 0; omega
      · show kx = kx ∧ ky = ky ∧ kz' = kz + 1
        exact ⟨rfl, rfl, by omega⟩
    · have e2 : c' = c + 1 := by omega
      refine cov_move st hM ha hb hc ha hb hc' h1 h2 h3 (by decide : 6 < 7) (k' := (kx, ky, kz')) ?_
        (show Nbr 6 a b c a b c' from ⟨rfl, rfl, e2⟩) ?_ hcov
      · show kz = 1; omega
      · show kx = kx ∧ ky = ky ∧ kz' + 1 = kz
        exact ⟨rfl, rfl, by omega⟩

/-- a closed set containing a dart contains every dart with the same lattice point -/
theorem hex_reach (st : SameTopo (H3 nx ny nz) m)
    (hM : ∀ x, x ∈ M → x ≠ 0 → ∀ y, y ∈ g3 m x → y ∈ M) {a b c o a' b' c' o' : Nat}
    (ha : a < nx) (hb : b < ny) (hc : c < nz) (ho : o < 24) (ha' : a' < nx) (hb' : b' < ny)
    (hc' : c' < nz) (ho' : o' < 24) (hp : P3 a' b' c' o' = P3 a b c o)
    (hx : D3 nx ny a b c o ∈ M) : D3 nx ny a' b' c' o' ∈ M := by
  obtain ⟨_, _, _, _, _, _, _, _, _, k1, k2, k3, _⟩ := hexFacts o ho
  obtain ⟨_, _, _, _, _, _, _, _, _, k1', k2', k3', _⟩ := hexFacts o' ho'
  unfold P3 at hp
  simp only [Prod.mk.injEq] at hp
  obtain ⟨p1, p2, p3⟩ := hp
  have c0 : Cov nx ny M a b c ((kap o).1, (kap o).2.1, (kap o).2.2) := cov_within st hM ha hb hc ho hx
  have c1 := cov_x st hM ha hb hc ha' (by omega) (by omega) (by omega) (kx' := (kap o').1) (by omega) p1 c0
  have c2 := cov_y st hM ha' hb hc hb' (by omega) (by omega) (by omega) (ky' := (kap o').2.1) (by omega) p2 c1
  have c3 := cov_z st hM ha' hb' hc hc' (by omega) (by omega) (by omega) (kz' := (kap o').2.2) (by omega) p3 c2
  exact c3 o' ho' rfl

/-! ## `vertex_id` -/

/-- the darts with a given lattice point -/
def cls3 (nx ny nz : Nat) (p : Nat × Nat × Nat) : List Nat :=
  (List.range (24 * nx * ny * nz + 1)).filter (fun x => decide (x ≠ 0 ∧ pt3 nx ny x = p))

theorem mem_cls3 {p : Nat × Nat × Nat} {x : Nat} :
    x ∈ cls3 nx ny nz p ↔ x < 24 * nx * ny * nz + 1 ∧ x ≠ 0 ∧ pt3 nx ny x = p := by
  simp [cls3]

/-- `vertex_id d` (total: the traversal terminates within its fuel) is the smallest dart with the
    lattice point of `d` -/
theorem vid3_spec (hnx : 0 < nx) (hny : 0 < ny) (st : SameTopo (H3 nx ny nz) m) {d : Nat}
    (hd : IsD3 nx ny nz d) :
    vid3 m d ∈ cls3 nx ny nz (pt3 nx ny d) ∧ ∀ y, y ∈ cls3 nx ny nz (pt3 nx ny d) → vid3 m d ≤ y := by
  have wf : WF 4 m := (H3_wf nz hnx hny).sameTopo st
  have hn : m.n = 24 * nx * ny * nz + 1 := st.n
  obtain ⟨a0, b0, c0, o0, ha0, hb0, hc0, ho0, rfl⟩ := hd
  have hdn : D3 nx ny a0 b0 c0 o0 < m.n := by rw [hn]; exact D3_lt ha0 hb0 hc0 ho0
  have hd0 : D3 nx ny a0 b0 c0 o0 ≠ 0 := by
    have := D3_pos (nx := nx) (ny := ny) (a := a0) (b := b0) (c := c0) (o := o0); omega
  have hpt0 := pt3_D (c := c0) ha0 hb0 ho0
  have hclosed : ∀ x, x ∈ cls3 nx ny nz (pt3 nx ny (D3 nx ny a0 b0 c0 o0)) → ∀ y, y ∈ g3 m x →
      y = 0 ∨ y ∈ cls3 nx ny nz (pt3 nx ny (D3 nx ny a0 b0 c0 o0)) := by
    intro x hx y hy
    obtain ⟨hx1, hx2, hx3⟩ := mem_cls3.mp hx
    obtain ⟨a, b, c, o, ha, hb, hc, ho, rfl⟩ := isD3_of_range (d := x) (nz := nz) hnx hny (by omega) (by omega)
    rcases hex_closed st wf ha hb hc ho y hy with h | ⟨a', b', c', o', ha', hb', hc', ho', rfl, hp⟩
    · exact Or.inl h
    · right
      refine mem_cls3.mpr ⟨D3_lt ha' hb' hc' ho', ?_, ?_⟩
      · have := D3_pos (nx := nx) (ny := ny) (a := a') (b := b') (c := c') (o := o'); omega
      · rw [pt3_D ha' hb' ho', hp, ← pt3_D (c := c) ha hb ho, hx3]
  have hstart : D3 nx ny a0 b0 c0 o0 ∈ cls3 nx ny nz (pt3 nx ny (D3 nx ny a0 b0 c0 o0)) :=
    mem_cls3.mpr ⟨D3_lt ha0 hb0 hc0 ho0, hd0, rfl⟩
  have h0S : 0 ∉ cls3 nx ny nz (pt3 nx ny (D3 nx ny a0 b0 c0 o0)) := by
    intro h; exact (mem_cls3.mp h).2.1 rfl
  have hlen : (cls3 nx ny nz (pt3 nx ny (D3 nx ny a0 b0 c0 o0))).length ≤ m.n := by
    unfold cls3
    have hl : (List.range (24 * nx * ny * nz + 1)).length = m.n := by rw [List.length_range, hn]
    exact Nat.le_trans (List.length_filter_le _ _) (Nat.le_of_eq hl)
  obtain ⟨v, M, hrun, hres⟩ := ppop_spec (g3 m) _ (D3 nx ny a0 b0 c0 o0) 6 (8 * m.n + 8) hstart h0S hclosed
    (by intro x; simp [g3]) (by omega)
  have hv : vid3 m (D3 nx ny a0 b0 c0 o0) = v := by
    unfold vid3
    rw [run_vertexId3 wf hdn m.n, hrun]
    rfl
  rw [hv]
  obtain ⟨hvM, hv0, hvmin⟩ := hres.min hd0
  obtain ⟨hsub, hdM, hMcl, _⟩ := hres
  constructor
  · rcases hsub v hvM with h | h
    · exact absurd h hv0
    · exact h
  · intro y hy
    obtain ⟨hy1, hy2, hy3⟩ := mem_cls3.mp hy
    obtain ⟨a, b, c, o, ha, hb, hc, ho, rfl⟩ := isD3_of_range (d := y) (nz := nz) hnx hny (by omega) (by omega)
    apply hvmin _ _ hy2
    refine hex_reach st hMcl ha0 hb0 hc0 ho0 ha hb hc ho ?_ hdM
    rw [← pt3_D (c := c) ha hb ho, hy3, hpt0]

theorem vid3_same (hnx : 0 < nx) (hny : 0 < ny) {m m' : Map Val} (st : SameTopo (H3 nx ny nz) m)
    (st' : SameTopo (H3 nx ny nz) m') {d e : Nat} (hd : IsD3 nx ny nz d) (he : IsD3 nx ny nz e)
    (hp : pt3 nx ny d = pt3 nx ny e) : vid3 m d = vid3 m' e := by
  obtain ⟨h1, h2⟩ := vid3_spec hnx hny st hd
  obtain ⟨h3, h4⟩ := vid3_spec hnx hny st' he
  rw [hp] at h1 h2
  have := h2 _ h3
  have := h4 _ h1
  omega

theorem vid3_pt (hnx : 0 < nx) (hny : 0 < ny) (st : SameTopo (H3 nx ny nz) m) {d : Nat}
    (hd : IsD3 nx ny nz d) : pt3 nx ny (vid3 m d) = pt3 nx ny d ∧ IsD3 nx ny nz (vid3 m d) := by
  obtain ⟨h1, _⟩ := vid3_spec hnx hny st hd
  obtain ⟨a, b, c⟩ := mem_cls3.mp h1
  exact ⟨c, isD3_of_range hnx hny (by omega) (by omega)⟩

theorem vid3_idem (hnx : 0 < nx) (hny : 0 < ny) (st : SameTopo (H3 nx ny nz) m) {d : Nat}
    (hd : IsD3 nx ny nz d) : vid3 m (vid3 m d) = vid3 m d := by
  obtain ⟨hp, hv⟩ := vid3_pt hnx hny st hd
  obtain ⟨h1, h2⟩ := vid3_spec hnx hny st hd
  obtain ⟨h3, h4⟩ := vid3_spec hnx hny st hv
  rw [hp] at h3 h4
  have := h2 _ h3
  have := h4 _ h1
  omega

/-- a vertex identifier is never local dart 24 of a cell (local dart 12 is smaller, same corner) -/
theorem vid3_not_last (hnx : 0 < nx) (hny : 0 < ny) (st : SameTopo (H3 nx ny nz) m) {a b c : Nat}
    (ha : a < nx) (hb : b < ny) (hc : c < nz) : vid3 m (D3 nx ny a b c 23) ≠ D3 nx ny a b c 23 := by
  have hd : IsD3 nx ny nz (D3 nx ny a b c 23) := ⟨a, b, c, 23, ha, hb, hc, by decide, rfl⟩
  obtain ⟨_, h2⟩ := vid3_spec hnx hny st hd
  have hm : D3 nx ny a b c 11 ∈ cls3 nx ny nz (pt3 nx ny (D3 nx ny a b c 23)) := by
    refine mem_cls3.mpr ⟨D3_lt ha hb hc (by decide), ?_, ?_⟩
    · have := D3_pos (nx := nx) (ny := ny) (a := a) (b := b) (c := c) (o := 11); omega
    · rw [pt3_D ha hb (by decide), pt3_D ha hb (by decide)]
      unfold P3; rw [hexMisc.2.1]
  have := h2 _ hm
  have : D3 nx ny a b c 11 < D3 nx ny a b c 23 := by unfold D3 dartOf; omega
  omega

end

/-! ## index decoding of `generate_hex_offset` -/

theorem hexOffsetIdx_D3 {nx ny nz a b c o : Nat} (ha : a < nx) (hb : b < ny) (_hc : c < nz) (ho : o < 23) :
    hexOffsetIdx (D3 nx ny a b c o) nx ny = (o + 1, a, b, c) := by
  have hnx : 0 < nx := by omega
  have hny : 0 < ny := by omega
  have e1 : D3 nx ny a b c o = (o + 1) + 24 * (a + nx * (b + ny * c)) := by
    unfold D3 dartOf cellIdx; ring
  have e2 : D3 nx ny a b c o = (o + 1 + 24 * a) + (24 * nx) * (b + ny * c) := by
    unfold D3 dartOf cellIdx; ring
  have e3 : D3 nx ny a b c o = (o + 1 + 24 * a + 24 * nx * b) + (24 * nx * ny) * c := by
    unfold D3 dartOf cellIdx; ring
  have b2 : o + 1 + 24 * a < 24 * nx := by
    have : 24 * (a + 1) ≤ 24 * nx := Nat.mul_le_mul_left 24 ha
    omega
  have b3 : o + 1 + 24 * a + 24 * nx * b < 24 * nx * ny := by
    have : 24 * nx * (b + 1) ≤ 24 * nx * ny := Nat.mul_le_mul_left (24 * nx) hb
    rw [Nat.mul_succ] at this
    omega
  have m1 : D3 nx ny a b c o % 24 = o + 1 := by rw [e1]; exact add_mul_mod _ (by omega)
  have m2 : D3 nx ny a b c o % (24 * nx) = o + 1 + 24 * a := by rw [e2]; exact add_mul_mod _ b2
  have m3 : D3 nx ny a b c o % (24 * nx * ny) = o + 1 + 24 * a + 24 * nx * b := by
    rw [e3]; exact add_mul_mod _ b3
  unfold hexOffsetIdx
  simp only [m1, m2, m3]
  have x1 : (o + 1 + 24 * a - (o + 1)) / 24 = a := by
    have : o + 1 + 24 * a - (o + 1) = 24 * a := by omega
    rw [this, Nat.mul_div_cancel_left _ (by decide : 0 < 24)]
  have y1 : (o + 1 + 24 * a + 24 * nx * b - (o + 1 + 24 * a)) / (24 * nx) = b := by
    have : o + 1 + 24 * a + 24 * nx * b - (o + 1 + 24 * a) = 24 * nx * b := by omega
    rw [this, Nat.mul_div_cancel_left _ (by omega : 0 < 24 * nx)]
  have z1 : (D3 nx ny a b c o - (o + 1 + 24 * a + 24 * nx * b)) / (24 * nx * ny) = c := by
    have : D3 nx ny a b c o - (o + 1 + 24 * a + 24 * nx * b) = 24 * nx * ny * c := by
      rw [e3]; omega
    rw [this, Nat.mul_div_cancel_left _ (Nat.mul_pos (by omega : 0 < 24 * nx) hny)]
  rw [x1, y1, z1]

/-- `generate_hex_offset` on local darts 1..23: the offset of the lattice point of the dart -/
theorem hexOffset_D3 {nx ny nz a b c o : Nat} (lx ly lz : Rat) (ha : a < nx) (hb : b < ny) (hc : c < nz)
    (ho : o < 23) :
    hexOffset (D3 nx ny a b c o) nx ny lx ly lz =
      some ((((P3 a b c o).1 : Nat) : Rat) * lx, (((P3 a b c o).2.1 : Nat) : Rat) * ly,
        (((P3 a b c o).2.2 : Nat) : Rat) * lz) := by
  unfold hexOffset
  rw [hexOffsetIdx_D3 ha hb hc ho]
  have h := hexMisc.2.2 o ho
  simp only
  cases hf : hexOffsetArms.find? (fun a => a.1.contains (o + 1)) with
  | none => rw [hf] at h; simp at h
  | some r =>
      rw [hf] at h
      simp only [Option.map_some, Option.some.injEq] at h
      obtain ⟨l, ax, ay, az⟩ := r
      simp only at h
      simp only [P3, ← h]

/-! ## placement -/

section Place
variable (ox oy oz lx ly lz : Rat) {nx ny nz : Nat}

/-- coordinates of a lattice point -/
def coord3 (p : Nat × Nat × Nat) : Val :=
  .pt (ox + ((p.1 : Nat) : Rat) * lx) (oy + ((p.2.1 : Nat) : Rat) * ly) (oz + ((p.2.2 : Nat) : Rat) * lz)

theorem okA3 {m : Map Val} (st : SameTopo (H3 nx ny nz) m) {s : Nat} (hs : s < 24 * nx * ny * nz + 1) :
    m.okA 0 s = true := by
  have sz := (gridMap_sized 4 (hexK * nx * ny * nz) (hexβ nx ny nz)).sameTopo st
  have h6 : m.a.size = 6 := by
    rw [st.asz]
    show (Map.empty 4 6 (hexK * nx * ny * nz + 1) : Map Val).a.size = 6
    simp [Map.empty]
  have h1 := sz.asz 0 (by omega)
  have hn : m.n = 24 * nx * ny * nz + 1 := st.n
  unfold Map.okA
  simp only [h6, Bool.and_eq_true, decide_eq_true_eq]
  omega

/-- one step of the placement loop -/
theorem placeHex_eq (hnx : 0 < nx) (hny : 0 < ny) {m : Map Val} (st : SameTopo (H3 nx ny nz) m) {s : Nat}
    (hs : IsD3 nx ny nz s) :
    placeHex ox oy oz nx ny lx ly lz m s =
      if vid3 (H3 nx ny nz) s = s then m.setA 0 s (some (coord3 ox oy oz lx ly lz (pt3 nx ny s))) else m := by
  have hv : vid3 m s = vid3 (H3 nx ny nz) s := vid3_same hnx hny st (SameTopo.refl _) hs hs rfl
  obtain ⟨a, b, c, o, ha, hb, hc, ho, rfl⟩ := hs
  unfold placeHex
  rw [hv]
  by_cases h : vid3 (H3 nx ny nz) (D3 nx ny a b c o) = D3 nx ny a b c o
  · have ho' : o < 23 := by
      apply Classical.byContradiction
      intro hn
      have : o = 23 := by omega
      subst this
      exact vid3_not_last hnx hny (SameTopo.refl _) ha hb hc h
    simp only [h, if_true]
    rw [hexOffset_D3 lx ly lz ha hb hc ho', pt3_D ha hb ho]
    rfl
  · simp only [h, if_false]

/-- the placement loop over a list of darts -/
theorem fold_placeHex (hnx : 0 < nx) (hny : 0 < ny) :
    ∀ (l : List Nat) (m : Map Val), (∀ s, s ∈ l → IsD3 nx ny nz s) → SameTopo (H3 nx ny nz) m →
      SameTopo (H3 nx ny nz) (l.foldl (placeHex ox oy oz nx ny lx ly lz) m) ∧
      ∀ s, (l.foldl (placeHex ox oy oz nx ny lx ly lz) m).att 0 s =
        if s ∈ l ∧ vid3 (H3 nx ny nz) s = s then some (coord3 ox oy oz lx ly lz (pt3 nx ny s))
        else m.att 0 s := by
  intro l
  induction l with
  | nil => intro m _ st; exact ⟨st, fun s => by simp⟩
  | cons d ds ih =>
      intro m hl st
      have hd := hl d List.mem_cons_self
      have hlt : d < 24 * nx * ny * nz + 1 := by
        obtain ⟨a, b, c, o, ha, hb, hc, ho, rfl⟩ := hd
        exact D3_lt ha hb hc ho
      have e := placeHex_eq ox oy oz lx ly lz hnx hny st hd
      have st1 : SameTopo (H3 nx ny nz) (placeHex ox oy oz nx ny lx ly lz m d) := by
        rw [e]; split
        · exact st.trans (SameTopo.setA _ _ _ _)
        · exact st
      obtain ⟨st2, h2⟩ := ih (placeHex ox oy oz nx ny lx ly lz m d)
        (fun s hs => hl s (List.mem_cons_of_mem _ hs)) st1
      refine ⟨st2, ?_⟩
      intro s
      simp only [List.foldl_cons]
      rw [h2 s, e]
      by_cases hv : vid3 (H3 nx ny nz) s = s
      · by_cases hs : s ∈ ds
        · simp [hs, hv]
        · by_cases hsd : s = d
          · subst hsd
            simp only [hs, false_and, if_false, hv, if_true, List.mem_cons, true_or, and_self]
            rw [Map.att_setA]
            simp [okA3 st hlt]
          · have hne : ¬ (d = s) := fun h => hsd h.symm
            simp only [hs, false_and, if_false, List.mem_cons, hsd, false_or]
            split
            · rw [Map.att_setA]; simp [hne]
            · rfl
      · simp only [hv, and_false, if_false]
        split
        · rw [Map.att_setA]
          have hne : ¬ (d = s) := by
            intro h; subst h; exact hv (by assumption)
          simp [hne]
        · rfl

theorem H3_att_none (s : Nat) : (H3 nx ny nz).att 0 s = none := by
  show rd (rd (Map.empty 4 6 (hexK * nx * ny * nz + 1) : Map Val).a 0) s = none
  unfold Map.empty
  simp only
  have : (Array.replicate 6 (Array.replicate (hexK * nx * ny * nz + 1 + 1) (none : Option Val))).setIfInBounds 0
      (Array.replicate (hexK * nx * ny * nz + 1) none) = wr (Array.replicate 6 (Array.replicate (hexK * nx * ny * nz + 1 + 1) none)) 0
      (Array.replicate (hexK * nx * ny * nz + 1) none) := rfl
  rw [this, rd_wr]
  simp only [Array.size_replicate, true_and, if_true, Nat.zero_lt_succ]
  by_cases h : s < hexK * nx * ny * nz + 1
  · exact rd_replicate _ _ _ h
  · exact rd_oob _ _ (by simp; omega)

theorem sameTopo_hex3 : SameTopo (H3 nx ny nz) (buildHex3 ox oy oz nx ny nz lx ly lz) := by
  have : ∀ (l : List Nat) (m : Map Val), SameTopo m (l.foldl (placeHex ox oy oz nx ny lx ly lz) m) := by
    intro l
    induction l with
    | nil => intro m; exact SameTopo.refl m
    | cons x xs ih =>
        intro m
        refine SameTopo.trans ?_ (ih _)
        unfold placeHex
        split
        · split
          · exact SameTopo.setA _ _ _ _
          · exact SameTopo.refl m
        · exact SameTopo.refl m
  exact this _ _

/-- the vertex slots after `build_3d_grid`: exactly the vertex identifiers hold a value, namely the
    coordinates of their lattice point -/
theorem hex3_att_slot (hnx : 0 < nx) (hny : 0 < ny) (s : Nat) :
    (buildHex3 ox oy oz nx ny nz lx ly lz).att 0 s =
      if (1 ≤ s ∧ s ≤ 24 * nx * ny * nz) ∧ vid3 (H3 nx ny nz) s = s
      then some (coord3 ox oy oz lx ly lz (pt3 nx ny s)) else none := by
  have key := (fold_placeHex ox oy oz lx ly lz hnx hny (List.range' 1 (hexK * nx * ny * nz)) (H3 nx ny nz)
    (by
      intro s hs
      rw [List.mem_range'_1] at hs
      have e : hexK * nx * ny * nz = 24 * nx * ny * nz := rfl
      exact isD3_of_range hnx hny hs.1 (by omega))
    (SameTopo.refl _)).2 s
  have hb : buildHex3 ox oy oz nx ny nz lx ly lz =
      (List.range' 1 (hexK * nx * ny * nz)).foldl (placeHex ox oy oz nx ny lx ly lz) (H3 nx ny nz) := rfl
  rw [hb, key, H3_att_none]
  have e : hexK * nx * ny * nz = 24 * nx * ny * nz := rfl
  have hm : s ∈ List.range' 1 (hexK * nx * ny * nz) ↔ (1 ≤ s ∧ s ≤ 24 * nx * ny * nz) := by
    rw [List.mem_range'_1]; omega
  simp only [hm]

/-- **vertex positions**: in the map returned by `build_3d_grid`, the slot `vertex_id d` of every
    dart `d` holds exactly `origin + (i·lx, j·ly, k·lz)` where `(i, j, k)` is the lattice point of `d` -/
theorem hex3_att (hnx : 0 < nx) (hny : 0 < ny) {d : Nat} (hd : IsD3 nx ny nz d) :
    (buildHex3 ox oy oz nx ny nz lx ly lz).att 0 (vid3 (buildHex3 ox oy oz nx ny nz lx ly lz) d) =
      some (coord3 ox oy oz lx ly lz (pt3 nx ny d)) := by
  have st := sameTopo_hex3 ox oy oz lx ly lz (nx := nx) (ny := ny) (nz := nz)
  have hv : vid3 (buildHex3 ox oy oz nx ny nz lx ly lz) d = vid3 (H3 nx ny nz) d :=
    vid3_same hnx hny st (SameTopo.refl _) hd hd rfl
  obtain ⟨hp, hv2⟩ := vid3_pt hnx hny (SameTopo.refl (H3 nx ny nz)) hd
  have hid := vid3_idem hnx hny (SameTopo.refl (H3 nx ny nz)) hd
  rw [hv, hex3_att_slot ox oy oz lx ly lz hnx hny]
  obtain ⟨a, b, c, o, ha, hb, hc, ho, e⟩ := hv2
  have h1 : 1 ≤ vid3 (H3 nx ny nz) d := by rw [e]; exact D3_pos
  have h2 : vid3 (H3 nx ny nz) d ≤ 24 * nx * ny * nz := by
    have := D3_lt ha hb hc ho; rw [e]; omega
  simp only [h1, h2, and_self, hid, if_true, hp]

end Place

end HC.Grid3Vertex
