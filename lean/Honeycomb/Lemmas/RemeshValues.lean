/-
  Vertex values at dart level, through the 2-D sews.

  `vval m x = m.att 0 (vertex_id x)`: the vertex value seen from dart `x`.  The vertex graph of a well-formed 2-map is
  the symmetric closure of its PAIRS `(β2 z, β1 z)` (the two darts leaving the end of `z`); a 1-sew adds one pair, a
  1-unsew removes one, a 2-sew / 2-unsew two.  On that level the attribute semantics of the sews (C04) reads:

  * unsews never change `vval` at any dart (the vertex law copies on split, moves otherwise);
  * a 1-sew gives every dart of the two vertices it joins the merged value, and changes nothing elsewhere.

  Used by Props/C15c.lean to follow the values through `swap_edge` and `cut_inner_edge` on arbitrary meshes.
-/
import Honeycomb.Lemmas.RemeshBeta
import Honeycomb.Lemmas.RemeshCells
import Honeycomb.Props.C04

set_option linter.unusedSimpArgs false
set_option linter.unusedVariables false

namespace HC
open HC.C03

/-! ## connectivity of a relation -/

/-- equivalence closure of `E`, as paths from the left end -/
inductive Conn (E : Nat → Nat → Prop) : Nat → Nat → Prop where
  | refl (x : Nat) : Conn E x x
  | fwd {x y z : Nat} : Conn E x y → E y z → Conn E x z
  | bwd {x y z : Nat} : Conn E x y → E z y → Conn E x z

namespace Conn
variable {E E' : Nat → Nat → Prop}

theorem trans {x y z : Nat} (h1 : Conn E x y) (h2 : Conn E y z) : Conn E x z := by
  induction h2 with
  | refl => exact h1
  | fwd _ e ih => exact .fwd ih e
  | bwd _ e ih => exact .bwd ih e

theorem symm {x y : Nat} (h : Conn E x y) : Conn E y x := by
  induction h with
  | refl => exact .refl _
  | fwd _ e ih => exact (Conn.bwd (.refl _) e).trans ih
  | bwd _ e ih => exact (Conn.fwd (.refl _) e).trans ih

theorem mono (hE : ∀ u v, E u v → Conn E' u v) {x y : Nat} (h : Conn E x y) : Conn E' x y := by
  induction h with
  | refl => exact .refl _
  | fwd _ e ih => exact ih.trans (hE _ _ e)
  | bwd _ e ih => exact ih.trans (hE _ _ e).symm

/-- one more edge `(a, b)`: a path either avoids it or crosses it once, in one direction -/
theorem add_edge {a b : Nat} (hE : ∀ u v, E' u v → E u v ∨ (u = a ∧ v = b)) {x y : Nat} (h : Conn E' x y) :
    Conn E x y ∨ (Conn E x a ∧ Conn E b y) ∨ (Conn E x b ∧ Conn E a y) := by
  induction h with
  | refl => exact Or.inl (.refl _)
  | fwd _ e ih =>
      rename_i y z _
      rcases hE _ _ e with e | ⟨rfl, rfl⟩
      · rcases ih with h | ⟨h1, h2⟩ | ⟨h1, h2⟩
        · exact Or.inl (.fwd h e)
        · exact Or.inr (Or.inl ⟨h1, .fwd h2 e⟩)
        · exact Or.inr (Or.inr ⟨h1, .fwd h2 e⟩)
      · -- the step is `a → b`
        rcases ih with h | ⟨h1, h2⟩ | ⟨h1, h2⟩
        · exact Or.inr (Or.inl ⟨h, .refl _⟩)
        · exact Or.inr (Or.inl ⟨h1, .refl _⟩)
        · exact Or.inl h1
  | bwd _ e ih =>
      rename_i y z _
      rcases hE _ _ e with e | ⟨rfl, rfl⟩
      · rcases ih with h | ⟨h1, h2⟩ | ⟨h1, h2⟩
        · exact Or.inl (.bwd h e)
        · exact Or.inr (Or.inl ⟨h1, .bwd h2 e⟩)
        · exact Or.inr (Or.inr ⟨h1, .bwd h2 e⟩)
      · -- the step is `b → a`
        rcases ih with h | ⟨h1, h2⟩ | ⟨h1, h2⟩
        · exact Or.inr (Or.inr ⟨h, .refl _⟩)
        · exact Or.inl h1
        · exact Or.inr (Or.inr ⟨h1, .refl _⟩)

end Conn

/-! ## the vertex graph of a β function, through its pairs -/

/-- the images the Vertex policy examines -/
def vg (f : Nat → Nat → Nat) (y : Nat) : List Nat := [f 1 (f 2 y), f 2 (f 0 y)]

/-- what the vertex graph needs from a well-formed β function -/
structure BWF (f : Nat → Nat → Nat) : Prop where
  z : ∀ i, f i 0 = 0
  inv2 : ∀ y, f 2 y ≠ 0 → f 2 (f 2 y) = y
  inv10 : ∀ y, f 0 y ≠ 0 → f 1 (f 0 y) = y
  inv01 : ∀ y, f 1 y ≠ 0 → f 0 (f 1 y) = y

/-- β outside the table is the null dart -/
theorem beta_oob {m : Map Val} (h : WF 3 m) {i d : Nat} (ho : ¬ (i < 3 ∧ d < m.n)) : m.β i d = 0 := by
  unfold Map.β
  by_cases hi : i < 3
  · have hd : ¬ d < m.n := fun x => ho ⟨hi, x⟩
    rw [rd_oob (rd m.b i) d (by rw [h.row i hi]; omega)]; rfl
  · rw [rd_oob m.b i (by rw [h.rows]; omega)]
    rw [rd_oob]; rfl
    show (#[] : Array Nat).size ≤ d
    simp

theorem beta_zero {m : Map Val} (h : WF 3 m) (i : Nat) : m.β i 0 = 0 := by
  by_cases hi : i < 3
  · exact h.null i hi
  · exact beta_oob h (fun hh => hi hh.1)

theorem bwf_of_wf {m : Map Val} (h : WF 3 m) : BWF m.β where
  z := beta_zero h
  inv2 := fun y hy => by
    by_cases hyn : y < m.n
    · exact (h.invol 2 (by omega) (by omega) y hyn hy).1
    · exact absurd (beta_oob h (fun hh => hyn hh.2)) hy
  inv10 := fun y hy => by
    by_cases hyn : y < m.n
    · exact h.inv10 y hyn hy
    · exact absurd (beta_oob h (fun hh => hyn hh.2)) hy
  inv01 := fun y hy => by
    by_cases hyn : y < m.n
    · exact h.inv01 y hyn hy
    · exact absurd (beta_oob h (fun hh => hyn hh.2)) hy

theorem step_pair {f : Nat → Nat → Nat} (hf : BWF f) {y w : Nat} (hw : w ∈ vg f y) (hw0 : w ≠ 0) :
    ∃ z, f 2 z ≠ 0 ∧ f 1 z ≠ 0 ∧ ((f 2 z = y ∧ f 1 z = w) ∨ (f 2 z = w ∧ f 1 z = y)) := by
  simp only [vg, List.mem_cons, List.mem_nil_iff, or_false] at hw
  rcases hw with rfl | rfl
  · have h2 : f 2 y ≠ 0 := fun hh => hw0 (by rw [hh]; exact hf.z 1)
    have y0 : y ≠ 0 := by intro hh; subst hh; exact h2 (hf.z 2)
    exact ⟨f 2 y, by rw [hf.inv2 y h2]; exact y0, hw0, Or.inl ⟨hf.inv2 y h2, rfl⟩⟩
  · have h0 : f 0 y ≠ 0 := fun hh => hw0 (by rw [hh]; exact hf.z 2)
    have y0 : y ≠ 0 := by intro hh; subst hh; exact h0 (hf.z 0)
    exact ⟨f 0 y, hw0, by rw [hf.inv10 y h0]; exact y0, Or.inr ⟨rfl, hf.inv10 y h0⟩⟩

theorem pair_step {f : Nat → Nat → Nat} (hf : BWF f) (z : Nat) (h2 : f 2 z ≠ 0) (h1 : f 1 z ≠ 0) :
    f 1 z ∈ vg f (f 2 z) ∧ f 2 z ∈ vg f (f 1 z) := by
  simp only [vg, List.mem_cons, List.mem_nil_iff, or_false]
  exact ⟨Or.inl (by rw [hf.inv2 z h2]), Or.inr (by rw [hf.inv01 z h1])⟩

/-- a pair, as a path: `β2 z = u`, `β1 z = v`, both non-null -/
theorem pair_reach {f : Nat → Nat → Nat} (hf : BWF f) (z : Nat) {u v : Nat} (e2 : f 2 z = u) (e1 : f 1 z = v)
    (u0 : u ≠ 0) (v0 : v ≠ 0) : Reach (vg f) u v := by
  subst e2; subst e1; exact Reach.single (pair_step hf z u0 v0).1

theorem vg_symm {f : Nat → Nat → Nat} (hf : BWF f) {u v : Nat} (h : Reach (vg f) u v) (hv0 : v ≠ 0) :
    Reach (vg f) v u := by
  induction h with
  | refl => exact .refl _
  | tail hab hc ih =>
      rename_i b c
      obtain ⟨z, z2, z1, hz⟩ := step_pair hf hc hv0
      have b0 : b ≠ 0 := by rcases hz with ⟨e, _⟩ | ⟨_, e⟩ <;> (rw [← e]; assumption)
      have back : Reach (vg f) c b := by
        rcases hz with ⟨e2, e1⟩ | ⟨e2, e1⟩
        · rw [← e2, ← e1]; exact Reach.single (pair_step hf z z2 z1).2
        · rw [← e2, ← e1]; exact Reach.single (pair_step hf z z2 z1).1
      exact back.trans (ih b0)

/-- paths of one vertex graph project to paths of the other as soon as the pairs do -/
theorem reach_of_pairs {f f' : Nat → Nat → Nat} (hf : BWF f) (hf' : BWF f') (π : Nat → Nat)
    (πne : ∀ y, y ≠ 0 → π y ≠ 0)
    (P : ∀ z, f' 2 z ≠ 0 → f' 1 z ≠ 0 → Reach (vg f) (π (f' 2 z)) (π (f' 1 z)))
    {p q : Nat} (h : Reach (vg f') p q) (hq0 : q ≠ 0) : Reach (vg f) (π p) (π q) := by
  induction h with
  | refl => exact .refl _
  | tail hab hc ih =>
      rename_i b c
      obtain ⟨z, z2, z1, hz⟩ := step_pair hf' hc hq0
      have b0 : b ≠ 0 := by rcases hz with ⟨e, _⟩ | ⟨_, e⟩ <;> (rw [← e]; assumption)
      have st : Reach (vg f) (π b) (π c) := by
        rcases hz with ⟨e2, e1⟩ | ⟨e2, e1⟩
        · rw [← e2, ← e1]; exact P z z2 z1
        · rw [← e2, ← e1]; exact vg_symm hf (P z z2 z1) (πne _ z1)
      exact (ih b0).trans st

/-- the pairs -/
def VPair (f : Nat → Nat → Nat) (u v : Nat) : Prop := ∃ z, f 2 z = u ∧ f 1 z = v ∧ u ≠ 0 ∧ v ≠ 0

/-- reaching a non-null dart in the vertex graph = being connected through pairs -/
theorem reach_iff_conn {f : Nat → Nat → Nat} (hf : BWF f) {x y : Nat} (hy0 : y ≠ 0) :
    Reach (vg f) x y ↔ Conn (VPair f) x y := by
  constructor
  · intro h
    induction h with
    | refl => exact .refl _
    | tail hab hc ih =>
        rename_i b c
        obtain ⟨z, z2, z1, hz⟩ := step_pair hf hc hy0
        rcases hz with ⟨e2, e1⟩ | ⟨e2, e1⟩
        · exact .fwd (ih (by rw [← e2]; exact z2)) ⟨z, e2, e1, by rw [← e2]; exact z2, by rw [← e1]; exact z1⟩
        · exact .bwd (ih (by rw [← e1]; exact z1)) ⟨z, e2, e1, by rw [← e2]; exact z2, by rw [← e1]; exact z1⟩
  · intro h
    induction h with
    | refl => exact .refl _
    | fwd _ e ih =>
        obtain ⟨z, e2, e1, u0, v0⟩ := e
        exact (ih u0).trans (pair_reach hf z e2 e1 u0 v0)
    | bwd _ e ih =>
        obtain ⟨z, e2, e1, u0, v0⟩ := e
        exact (ih v0).trans (vg_symm hf (pair_reach hf z e2 e1 u0 v0) v0)

/-! ## the pairs after a link / unlink -/

theorem lnk1_two' (f : Nat → Nat → Nat) (l r z : Nat) : lnk1 f l r 2 z = f 2 z := by simp [lnk1, upd_apply]
theorem lnk1_one' (f : Nat → Nat → Nat) (l r z : Nat) : lnk1 f l r 1 z = if l = z then r else f 1 z := by
  simp [lnk1, upd_apply]
theorem unl1_two' (f : Nat → Nat → Nat) (l z : Nat) : unl1 f l 2 z = f 2 z := by simp [unl1, upd_apply]
theorem unl1_one' (f : Nat → Nat → Nat) (l z : Nat) : unl1 f l 1 z = if l = z then 0 else f 1 z := by
  simp [unl1, upd_apply]
theorem lnk2_one' (f : Nat → Nat → Nat) (l r z : Nat) : lnk2 f l r 1 z = f 1 z := by simp [lnk2, upd_apply]
theorem lnk2_two' (f : Nat → Nat → Nat) (l r z : Nat) :
    lnk2 f l r 2 z = if r = z then l else if l = z then r else f 2 z := by simp [lnk2, upd_apply]
theorem unl2_one' (f : Nat → Nat → Nat) (l z : Nat) : unl2 f l 1 z = f 1 z := by simp [unl2, upd_apply]
theorem unl2_two' (f : Nat → Nat → Nat) (l z : Nat) :
    unl2 f l 2 z = if f 2 l = z then 0 else if l = z then 0 else f 2 z := by simp [unl2, upd_apply]

/-- a 1-link adds the pair `(β2 l, r)` -/
theorem vpair_lnk1 {f : Nat → Nat → Nat} {l r : Nat} (h1 : f 1 l = 0) (u v : Nat) :
    VPair (lnk1 f l r) u v ↔ VPair f u v ∨ (u = f 2 l ∧ v = r ∧ u ≠ 0 ∧ v ≠ 0) := by
  constructor
  · rintro ⟨z, e2, e1, u0, v0⟩
    rw [lnk1_two'] at e2
    rw [lnk1_one'] at e1
    by_cases hz : l = z
    · subst hz; simp at e1; exact Or.inr ⟨e2.symm, e1.symm, u0, v0⟩
    · simp [hz] at e1; exact Or.inl ⟨z, e2, e1, u0, v0⟩
  · rintro (⟨z, e2, e1, u0, v0⟩ | ⟨rfl, rfl, u0, v0⟩)
    · have hz : l ≠ z := by intro hh; subst hh; rw [h1] at e1; exact v0 e1.symm
      exact ⟨z, by rw [lnk1_two']; exact e2, by rw [lnk1_one']; simp [hz]; exact e1, u0, v0⟩
    · exact ⟨l, by rw [lnk1_two'], by rw [lnk1_one']; simp, u0, v0⟩

/-- a 1-unlink removes the pair `(β2 l, β1 l)` -/
theorem vpair_unl1 {f : Nat → Nat → Nat} {l : Nat} (u v : Nat) :
    VPair f u v ↔ VPair (unl1 f l) u v ∨ (u = f 2 l ∧ v = f 1 l ∧ u ≠ 0 ∧ v ≠ 0) := by
  constructor
  · rintro ⟨z, e2, e1, u0, v0⟩
    by_cases hz : l = z
    · subst hz; exact Or.inr ⟨e2.symm, e1.symm, u0, v0⟩
    · exact Or.inl ⟨z, by rw [unl1_two']; exact e2, by rw [unl1_one']; simp [hz]; exact e1, u0, v0⟩
  · rintro (⟨z, e2, e1, u0, v0⟩ | ⟨rfl, rfl, u0, v0⟩)
    · rw [unl1_two'] at e2
      rw [unl1_one'] at e1
      by_cases hz : l = z
      · subst hz; simp at e1; exact absurd e1.symm v0
      · simp [hz] at e1; exact ⟨z, e2, e1, u0, v0⟩
    · exact ⟨l, rfl, rfl, u0, v0⟩

/-- a 2-link of two 2-free darts adds the pairs `(r, β1 l)` and `(l, β1 r)` -/
theorem vpair_lnk2 {f : Nat → Nat → Nat} {l r : Nat} (hl : f 2 l = 0) (hr : f 2 r = 0) (hlr : l ≠ r) (u v : Nat) :
    VPair (lnk2 f l r) u v ↔
      VPair f u v ∨ (u = r ∧ v = f 1 l ∧ u ≠ 0 ∧ v ≠ 0) ∨ (u = l ∧ v = f 1 r ∧ u ≠ 0 ∧ v ≠ 0) := by
  constructor
  · rintro ⟨z, e2, e1, u0, v0⟩
    rw [lnk2_two'] at e2
    rw [lnk2_one'] at e1
    by_cases hz : r = z
    · subst hz; simp at e2; exact Or.inr (Or.inr ⟨e2.symm, e1.symm, u0, v0⟩)
    · by_cases hz' : l = z
      · subst hz'; simp [hz] at e2; exact Or.inr (Or.inl ⟨e2.symm, e1.symm, u0, v0⟩)
      · simp [hz, hz'] at e2; exact Or.inl ⟨z, e2, e1, u0, v0⟩
  · rintro (⟨z, e2, e1, u0, v0⟩ | ⟨rfl, rfl, u0, v0⟩ | ⟨rfl, rfl, u0, v0⟩)
    · have hz : r ≠ z := by intro hh; subst hh; rw [hr] at e2; exact u0 e2.symm
      have hz' : l ≠ z := by intro hh; subst hh; rw [hl] at e2; exact u0 e2.symm
      exact ⟨z, by rw [lnk2_two']; simp [hz, hz']; exact e2, by rw [lnk2_one']; exact e1, u0, v0⟩
    · exact ⟨l, by rw [lnk2_two']; simp [Ne.symm hlr], by rw [lnk2_one'], u0, v0⟩
    · exact ⟨r, by rw [lnk2_two']; simp, by rw [lnk2_one'], u0, v0⟩

/-- a 2-unlink removes the pairs `(β2 l, β1 l)` and `(l, β1 (β2 l))` -/
theorem vpair_unl2 {f : Nat → Nat → Nat} {l : Nat} (hinv : f 2 (f 2 l) = l) (u v : Nat) :
    VPair f u v ↔
      VPair (unl2 f l) u v ∨ (u = f 2 l ∧ v = f 1 l ∧ u ≠ 0 ∧ v ≠ 0) ∨ (u = l ∧ v = f 1 (f 2 l) ∧ u ≠ 0 ∧ v ≠ 0) := by
  constructor
  · rintro ⟨z, e2, e1, u0, v0⟩
    by_cases hz : l = z
    · subst hz; exact Or.inr (Or.inl ⟨e2.symm, e1.symm, u0, v0⟩)
    · by_cases hz' : f 2 l = z
      · subst hz'; rw [hinv] at e2; exact Or.inr (Or.inr ⟨e2.symm, e1.symm, u0, v0⟩)
      · exact Or.inl ⟨z, by rw [unl2_two']; simp [hz, hz']; exact e2, by rw [unl2_one']; exact e1, u0, v0⟩
  · rintro (⟨z, e2, e1, u0, v0⟩ | ⟨hu, hv, u0, v0⟩ | ⟨hu, hv, u0, v0⟩)
    · rw [unl2_two'] at e2
      rw [unl2_one'] at e1
      by_cases hz' : f 2 l = z
      · simp [hz'] at e2; exact absurd e2.symm u0
      · by_cases hz : l = z
        · simp [hz] at e2; exact absurd e2.symm u0
        · simp [hz, hz'] at e2; exact ⟨z, e2, e1, u0, v0⟩
    · exact ⟨l, hu.symm, hv.symm, u0, v0⟩
    · exact ⟨f 2 l, by rw [hinv, hu], hv.symm, u0, v0⟩

/-! ## vertex identifiers and values -/

/-- connected in the vertex graph of `s` -/
abbrev VC (s : Map Val) (x y : Nat) : Prop := Conn (VPair s.β) x y

/-- the vertex value seen from dart `x` -/
def vval (s : Map Val) (x : Nat) : Option Val := s.att 0 (cellId s .vertex x)

theorem vc_iff_reach {s : Map Val} (hw : WF 3 s) {x y : Nat} (y0 : y ≠ 0) :
    VC s x y ↔ Reach (g2 s .vertex) x y := (reach_iff_conn (bwf_of_wf hw) y0).symm

theorem vid_of_vc {s : Map Val} (hw : WF 3 s) {x y : Nat} (x0 : x ≠ 0) (xn : x < s.n) (y0 : y ≠ 0) (yn : y < s.n) :
    cellId s .vertex x = cellId s .vertex y ↔ VC s x y := by
  rw [vc_iff_reach hw y0]
  exact (C03_same_id_iff_same_cell hw (pol := .vertex) trivial x0 xn y0 yn).1

/-- a dart is connected to its identifier -/
theorem vc_vid {s : Map Val} (hw : WF 3 s) {x : Nat} (x0 : x ≠ 0) (xn : x < s.n) :
    cellId s .vertex x ≠ 0 ∧ cellId s .vertex x < s.n ∧ VC s x (cellId s .vertex x) := by
  obtain ⟨c0, cn, _⟩ := cellId_idem hw (pol := .vertex) trivial x0 xn
  have sp := cellId_spec hw (pol := .vertex) trivial x0 xn
  exact ⟨c0, cn, (vc_iff_reach hw c0).2 ((mem_orb hw (pol := .vertex) trivial x0 xn _).1 sp.1).2⟩

/-- same connections, same identifier -/
theorem vid_congr {s s' : Map Val} (hw : WF 3 s) (hw' : WF 3 s') (hn : s'.n = s.n) {x : Nat} (x0 : x ≠ 0)
    (xn : x < s.n) (h : ∀ y, y ≠ 0 → (VC s' x y ↔ VC s x y)) : cellId s' .vertex x = cellId s .vertex x := by
  have sp := cellId_spec hw (pol := .vertex) trivial x0 xn
  have sp' := cellId_spec hw' (pol := .vertex) trivial x0 (by rw [hn]; exact xn)
  have mem : ∀ y, y ∈ orb s' .vertex x ↔ y ∈ orb s .vertex x := by
    intro y
    rw [mem_orb hw' (pol := .vertex) trivial x0 (by rw [hn]; exact xn), mem_orb hw (pol := .vertex) trivial x0 xn]
    constructor
    · rintro ⟨y0, r⟩; exact ⟨y0, (vc_iff_reach hw y0).1 ((h y y0).1 ((vc_iff_reach hw' y0).2 r))⟩
    · rintro ⟨y0, r⟩; exact ⟨y0, (vc_iff_reach hw' y0).1 ((h y y0).2 ((vc_iff_reach hw y0).2 r))⟩
  have a := sp.2 _ ((mem _).1 sp'.1)
  have b := sp'.2 _ ((mem _).2 sp.1)
  omega

theorem SameTopo.symm' {m m' : Map Val} (st : SameTopo m m') : SameTopo m' m :=
  ⟨st.n.symm, st.b.symm, st.u.symm, st.asz.symm, fun s => (st.rsz s).symm⟩

/-- identifiers only depend on β and `n` -/
theorem vid_of_sameTopo {m m' : Map Val} (st : SameTopo m m') (x : Nat) :
    cellId m' .vertex x = cellId m .vertex x := by
  have hb : m'.β = m.β := β_of_sameTopo st
  unfold cellId orb
  have : g2 m' .vertex = g2 m .vertex := by funext y; simp only [g2, hb]
  rw [this, st.n]

/-! ## the sews at the level of `vval` -/

open HC.C04 in
/-- **1-sew**: the β function becomes `lnk1`; when `β2 l` is null nothing else happens; otherwise the darts connected to
    `a = β2 l` or to `r` all see one value `W` afterwards — the merge of the two values when the two vertices were
    different, the common value otherwise — and every other dart sees what it saw. -/
theorem vval_oneSew2 (cfg : Cfg Val) {n l r : Nat} {s s' : Map Val} (hw : WF 3 s) (hw' : WF 3 s') (hn : s.n = n)
    (hfc : s.fc = 0) (r0 : r ≠ 0) (rn : r < n) (hrun : run (oneSew2 cfg n l r) s = (.ok (), s')) :
    s'.β = lnk1 s.β l r ∧ s.β 1 l = 0 ∧ s'.n = s.n ∧ s'.fc = 0 ∧ (∀ x y, VC s x y → VC s' x y) ∧
    (s.β 2 l = 0 → ∀ x, x ≠ 0 → x < n → vval s' x = vval s x) ∧
    (s.β 2 l ≠ 0 → VC s' (s.β 2 l) r ∧ ∃ W : Option Val,
      (∀ x, x ≠ 0 → x < n → (VC s x (s.β 2 l) ∨ VC s x r) → vval s' x = W) ∧
      (∀ x, x ≠ 0 → x < n → ¬ VC s x (s.β 2 l) → ¬ VC s x r → vval s' x = vval s x) ∧
      (cellId s .vertex (s.β 2 l) ≠ cellId s .vertex r →
        ∃ v, mergeVal (cfg.law 0) (vval s (s.β 2 l)) (vval s r) = .ok v ∧ W = some v) ∧
      (cellId s .vertex (s.β 2 l) = cellId s .vertex r → W = vval s r)) := by
  subst hn
  obtain ⟨m1, hcore, st, cases⟩ := C04_oneSew2_effect cfg s.n l r s s' () hfc hrun
  obtain ⟨h1l, _, sc⟩ := step_oneLinkCore hcore
  have fc1 := link1_fc hcore
  have hβ : s'.β = lnk1 s.β l r := by rw [β_of_sameTopo st]; exact sc.β
  have hn' : s'.n = s.n := by rw [st.n]; exact sc.n
  have hw1 : WF 3 m1 := hw'.sameTopo (SameTopo.symm' st)
  have pairs : ∀ u v, VPair s'.β u v ↔ VPair s.β u v ∨ (u = s.β 2 l ∧ v = r ∧ u ≠ 0 ∧ v ≠ 0) := by
    intro u v; rw [hβ]; exact vpair_lnk1 h1l u v
  have mono : ∀ x y, VC s x y → VC s' x y := fun x y h =>
    Conn.mono (fun u v e => Conn.fwd (.refl _) ((pairs u v).2 (Or.inl e))) h
  rcases cases with ⟨h20, rfl⟩ | ⟨h2, v1, v2, nv, hv1, hv2, hnv, mg⟩
  · refine ⟨hβ, h1l, hn', by rw [fc1.1]; exact hfc, mono, ?_, fun hh => absurd h20 hh⟩
    intro _ x x0 xn
    have same : ∀ y, y ≠ 0 → (VC s' x y ↔ VC s x y) := by
      intro y _
      constructor
      · intro h
        refine Conn.mono (fun u v e => ?_) h
        rcases (pairs u v).1 e with e | ⟨hu, _, u0, _⟩
        · exact Conn.fwd (.refl _) e
        · rw [hu] at u0; exact absurd h20 u0
      · exact mono x y
    unfold vval
    rw [vid_congr hw hw' hn' x0 xn same, fc1.2.1]
  · refine ⟨hβ, h1l, hn', by rw [mg.fc, fc1.1]; exact hfc, mono, fun hh => absurd hh h2, fun _ => ?_⟩
    have an : s.β 2 l < s.n := by
      by_cases hl : l < s.n
      · exact hw.range 2 (by omega) l hl
      · exact absurd (beta_oob hw (fun hh => hl hh.2)) h2
    -- the three identifiers
    have e1 : v1 = cellId s .vertex (s.β 2 l) := by
      have := (C03_vertexId2_min hw h2 an).1; rw [this] at hv1; simp at hv1; exact hv1.symm
    have e2 : v2 = cellId s .vertex r := by
      have := (C03_vertexId2_min hw r0 rn).1; rw [this] at hv2; simp at hv2; exact hv2.symm
    have e3 : nv = cellId s' .vertex r := by
      have := (C03_vertexId2_min hw1 r0 (by rw [sc.n]; exact rn)).1
      rw [sc.n] at this
      rw [this] at hnv; simp at hnv
      rw [← hnv]; exact (vid_of_sameTopo st r).symm
    have new : VC s' (s.β 2 l) r := Conn.fwd (.refl _) ((pairs _ _).2 (Or.inr ⟨rfl, rfl, h2, r0⟩))
    have dec : ∀ x y, VC s' x y →
        VC s x y ∨ (VC s x (s.β 2 l) ∧ VC s r y) ∨ (VC s x r ∧ VC s (s.β 2 l) y) := fun x y h =>
      Conn.add_edge (E := VPair s.β) (a := s.β 2 l) (b := r) (fun u v e => by
        rcases (pairs u v).1 e with e | ⟨hu, hv, _, _⟩
        · exact Or.inl e
        · exact Or.inr ⟨hu, hv⟩) h
    have att1 : ∀ t e, m1.att t e = s.att t e := fc1.2.1
    have z0 : (0 : Nat) ∈ vStores cfg := by simp [vStores]
    refine ⟨new, s'.att 0 nv, ?_, ?_, ?_, ?_⟩
    · intro x x0 xn hx
      have : VC s' x r := by
        rcases hx with hx | hx
        · exact (mono _ _ hx).trans new
        · exact mono _ _ hx
      unfold vval
      rw [(vid_of_vc hw' x0 (by rw [hn']; exact xn) r0 (by rw [hn']; exact rn)).2 this, e3]
    · intro x x0 xn na nr
      have same : ∀ y, y ≠ 0 → (VC s' x y ↔ VC s x y) := by
        intro y _
        constructor
        · intro h
          rcases dec x y h with h | ⟨h, _⟩ | ⟨h, _⟩
          · exact h
          · exact absurd h na
          · exact absurd h nr
        · exact mono x y
      have ceq := vid_congr hw hw' hn' x0 xn same
      obtain ⟨c0, cn, cx⟩ := vc_vid hw x0 xn
      obtain ⟨a0', an', ca⟩ := vc_vid hw h2 an
      obtain ⟨r0', rn', cr⟩ := vc_vid hw r0 rn
      obtain ⟨n0', nn', cnv⟩ := vc_vid hw' r0 (by rw [hn']; exact rn)
      unfold vval
      rw [ceq, mg.frame 0 _ z0 ?_ ?_ ?_, att1]
      · -- not the new identifier
        intro hh
        rw [e3] at hh
        have : VC s' x r := (mono _ _ cx).trans (by rw [hh]; exact cnv.symm)
        rcases dec x r this with h | ⟨h, _⟩ | ⟨h, _⟩
        · exact nr h
        · exact na h
        · exact nr h
      · intro hh; rw [e1] at hh; exact na (cx.trans (by rw [hh]; exact ca.symm))
      · intro hh; rw [e2] at hh; exact nr (cx.trans (by rw [hh]; exact cr.symm))
    · intro hne
      obtain ⟨v, hv, hout⟩ := mg.merged (by rw [e1, e2]; exact hne) 0 z0
      refine ⟨v, ?_, hout⟩
      unfold vval
      rw [att1, att1, e1, e2] at hv
      exact hv
    · intro heq
      have := mg.moved (by rw [e1, e2]; exact heq) 0 z0
      rw [this, att1, e1, heq]
      rfl

/-- what the unsews need from the vertex law: a defined value is copied to both halves, an undefined one is an error -/
structure CopySplit (L : Law Val) : Prop where
  split : ∀ v, L.split v = .ok (v, v)
  splitNone : ∀ p, L.splitNone ≠ .ok p

theorem copySplit_avgLaw : CopySplit avgLaw := ⟨fun _ => rfl, fun _ h => by simp [avgLaw] at h⟩

theorem splitVal_copy {L : Law Val} (hL : CopySplit L) {o : Option Val} {a b : Val} (h : splitVal L o = .ok (a, b)) :
    o = some a ∧ b = a := by
  cases o with
  | none => exact absurd h (hL.splitNone _)
  | some v =>
      simp only [splitVal] at h
      rw [hL.split v] at h
      simp only [Except.ok.injEq, Prod.mk.injEq] at h
      exact ⟨by rw [h.1], by rw [← h.1, h.2]⟩

open HC.C04 in
/-- **1-unsew**: the β function becomes `unl1`; no dart sees another vertex value afterwards (the value is copied to
    both halves of a split vertex, moved otherwise) -/
theorem vval_oneUnsew2 (cfg : Cfg Val) (hL : CopySplit (cfg.law 0)) {n l : Nat} {s s' : Map Val} (hw : WF 3 s)
    (hw' : WF 3 s') (hn : s.n = n) (hfc : s.fc = 0) (ln : l < n)
    (hrun : run (oneUnsew2 cfg n l) s = (.ok (), s')) :
    s'.β = unl1 s.β l ∧ s.β 1 l ≠ 0 ∧ s'.n = s.n ∧ s'.fc = 0 ∧ ∀ x, x ≠ 0 → x < n → vval s' x = vval s x := by
  subst hn
  obtain ⟨m1, hcore, st, cases⟩ := C04_oneUnsew2_effect cfg s.n l s s' () hfc hrun
  obtain ⟨h1l, sc⟩ := step_oneUnlinkCore hcore
  have fc1 := unlink1_fc hcore
  have hβ : s'.β = unl1 s.β l := by rw [β_of_sameTopo st]; exact sc.β
  have hn' : s'.n = s.n := by rw [st.n]; exact sc.n
  have hw1 : WF 3 m1 := hw'.sameTopo (SameTopo.symm' st)
  have pairs : ∀ u v, VPair s.β u v ↔ VPair s'.β u v ∨ (u = s.β 2 l ∧ v = s.β 1 l ∧ u ≠ 0 ∧ v ≠ 0) := by
    intro u v; rw [hβ]; exact vpair_unl1 u v
  have mono : ∀ x y, VC s' x y → VC s x y := fun x y h =>
    Conn.mono (fun u v e => Conn.fwd (.refl _) ((pairs u v).2 (Or.inl e))) h
  rcases cases with ⟨h20, rfl⟩ | ⟨h2, vold, nl, nr, hvold, hnl, hnr, sp⟩
  · refine ⟨hβ, h1l, hn', by rw [fc1.1]; exact hfc, ?_⟩
    intro x x0 xn
    have same : ∀ y, y ≠ 0 → (VC s' x y ↔ VC s x y) := by
      intro y _
      constructor
      · exact mono x y
      · intro h
        refine Conn.mono (fun u v e => ?_) h
        rcases (pairs u v).1 e with e | ⟨hu, _, u0, _⟩
        · exact Conn.fwd (.refl _) e
        · rw [hu] at u0; exact absurd h20 u0
    unfold vval
    rw [vid_congr hw hw' hn' x0 xn same, fc1.2.1]
  · refine ⟨hβ, h1l, hn', by rw [sp.fc, fc1.1]; exact hfc, ?_⟩
    have an : s.β 2 l < s.n := hw.range 2 (by omega) l ln
    have bn : s.β 1 l < s.n := hw.range 1 (by omega) l ln
    have e1 : vold = cellId s .vertex (s.β 1 l) := by
      have := (C03_vertexId2_min hw h1l bn).1; rw [this] at hvold; simp at hvold; exact hvold.symm
    have e2 : nl = cellId s' .vertex (s.β 2 l) := by
      have := (C03_vertexId2_min hw1 h2 (by rw [sc.n]; exact an)).1
      rw [sc.n] at this
      rw [this] at hnl; simp at hnl
      rw [← hnl]; exact (vid_of_sameTopo st _).symm
    have e3 : nr = cellId s' .vertex (s.β 1 l) := by
      have := (C03_vertexId2_min hw1 h1l (by rw [sc.n]; exact bn)).1
      rw [sc.n] at this
      rw [this] at hnr; simp at hnr
      rw [← hnr]; exact (vid_of_sameTopo st _).symm
    have old : VC s (s.β 2 l) (s.β 1 l) := Conn.fwd (.refl _) ((pairs _ _).2 (Or.inr ⟨rfl, rfl, h2, h1l⟩))
    have dec : ∀ x y, VC s x y →
        VC s' x y ∨ (VC s' x (s.β 2 l) ∧ VC s' (s.β 1 l) y) ∨ (VC s' x (s.β 1 l) ∧ VC s' (s.β 2 l) y) := fun x y h =>
      Conn.add_edge (E := VPair s'.β) (a := s.β 2 l) (b := s.β 1 l) (fun u v e => by
        rcases (pairs u v).1 e with e | ⟨hu, hv, _, _⟩
        · exact Or.inl e
        · exact Or.inr ⟨hu, hv⟩) h
    have att1 : ∀ t e, m1.att t e = s.att t e := fc1.2.1
    have z0 : (0 : Nat) ∈ vStores cfg := by simp [vStores]
    have an' : s.β 2 l < s'.n := by rw [hn']; exact an
    have bn' : s.β 1 l < s'.n := by rw [hn']; exact bn
    -- the value at the two new identifiers is the old value
    have vals : s'.att 0 nl = s.att 0 vold ∧ s'.att 0 nr = s.att 0 vold := by
      by_cases hlr : nl = nr
      · have := sp.moved hlr 0 z0
        rw [att1] at this
        exact ⟨this, by rw [← hlr]; exact this⟩
      · obtain ⟨a, b, hs, hb, ha⟩ := sp.split hlr 0 z0
        rw [att1] at hs
        obtain ⟨h1, h2'⟩ := splitVal_copy hL hs
        exact ⟨by rw [ha, h1], by rw [hb, h1, h2']⟩
    intro x x0 xn
    have xn' : x < s'.n := by rw [hn']; exact xn
    by_cases ca : VC s' x (s.β 2 l)
    · have o : VC s x (s.β 1 l) := (mono _ _ ca).trans old
      unfold vval
      rw [(vid_of_vc hw' x0 xn' h2 an').2 ca, ← e2, vals.1, e1, (vid_of_vc hw x0 xn h1l bn).2 o]
    · by_cases cb : VC s' x (s.β 1 l)
      · have o : VC s x (s.β 1 l) := mono _ _ cb
        unfold vval
        rw [(vid_of_vc hw' x0 xn' h1l bn').2 cb, ← e3, vals.2, e1, (vid_of_vc hw x0 xn h1l bn).2 o]
      · have same : ∀ y, y ≠ 0 → (VC s' x y ↔ VC s x y) := by
          intro y _
          constructor
          · exact mono x y
          · intro h
            rcases dec x y h with h | ⟨h, _⟩ | ⟨h, _⟩
            · exact h
            · exact absurd h ca
            · exact absurd h cb
        have ceq := vid_congr hw hw' hn' x0 xn same
        obtain ⟨c0, cn, cx⟩ := vc_vid hw' x0 xn'
        obtain ⟨_, _, cna⟩ := vc_vid hw' h2 an'
        obtain ⟨_, _, cnb⟩ := vc_vid hw' h1l bn'
        obtain ⟨_, _, cvo⟩ := vc_vid hw h1l bn
        unfold vval
        rw [← ceq, sp.frame 0 _ z0 ?_ ?_ ?_, att1]
        · intro hh; rw [e2] at hh; exact ca (cx.trans (by rw [hh]; exact cna.symm))
        · intro hh; rw [e3] at hh; exact cb (cx.trans (by rw [hh]; exact cnb.symm))
        · intro hh
          rw [e1] at hh
          -- `x` would be connected to the old identifier, hence to one of the two darts
          have : VC s x (s.β 1 l) := (mono _ _ cx).trans (by rw [hh]; exact cvo.symm)
          rcases dec x _ this with h | ⟨h, _⟩ | ⟨h, _⟩
          · exact cb h
          · exact ca h
          · exact cb h

/-- nothing is connected to a node no pair touches -/
theorem Conn.isolated {E : Nat → Nat → Prop} {t : Nat} (ht : ∀ u v, E u v → u ≠ t ∧ v ≠ t) {x : Nat}
    (h : Conn E x t) : x = t := by
  generalize hy : t = y at h
  induction h with
  | refl => rfl
  | fwd _ e _ => exact absurd hy.symm (ht _ _ e).2
  | bwd _ e _ => exact absurd hy.symm (ht _ _ e).1

open HC.C04 in
/-- **2-sew of two 1-free darts**: no pair appears, only the edge storages are merged: same vertices, same values -/
theorem vval_twoSew2_free (cfg : Cfg Val) {n l r : Nat} {s s' : Map Val} (hw : WF 3 s) (hw' : WF 3 s') (hn : s.n = n)
    (hfc : s.fc = 0) (hl0 : s.β 1 l = 0) (hr0 : s.β 1 r = 0) (hlr : l ≠ r)
    (hrun : run (twoSew2 cfg n l r) s = (.ok (), s')) :
    s'.β = lnk2 s.β l r ∧ s'.n = s.n ∧ s'.fc = 0 ∧ (∀ x y, VC s' x y ↔ VC s x y) ∧
    ∀ x, x ≠ 0 → x < n → vval s' x = vval s x := by
  subst hn
  obtain ⟨m1, eid, hcore, _, mg⟩ := C04_twoSew2_free cfg s.n l r s s' () hfc hl0 hr0 hrun
  obtain ⟨h2l, h2r, sc⟩ := step_twoLinkCore hcore
  have fc1 := linkI_fc hcore
  have hβ : s'.β = lnk2 s.β l r := by rw [β_of_sameTopo mg.topo]; exact sc.β
  have hn' : s'.n = s.n := by rw [mg.topo.n]; exact sc.n
  have pairs : ∀ u v, VPair s'.β u v ↔ VPair s.β u v := by
    intro u v
    rw [hβ, vpair_lnk2 h2l h2r hlr]
    constructor
    · rintro (e | ⟨_, hv, _, v0⟩ | ⟨_, hv, _, v0⟩)
      · exact e
      · rw [hl0] at hv; exact absurd hv v0
      · rw [hr0] at hv; exact absurd hv v0
    · exact Or.inl
  have conn : ∀ x y, VC s' x y ↔ VC s x y := fun x y =>
    ⟨Conn.mono (fun u v e => Conn.fwd (.refl _) ((pairs u v).1 e)),
      Conn.mono (fun u v e => Conn.fwd (.refl _) ((pairs u v).2 e))⟩
  refine ⟨hβ, hn', by rw [mg.fc, fc1.1]; exact hfc, conn, ?_⟩
  intro x x0 xn
  unfold vval
  rw [vid_congr hw hw' hn' x0 xn (fun y _ => conn x y), mg.other 0 _ (zero_notin_storagesOf cfg 1), fc1.2.1]

open HC.C04 in
/-- **2-unsew of an edge whose two darts have successors and whose end points are different vertices**: two pairs
    disappear, each end vertex is split (copied) or moved: no dart sees another value -/
theorem vval_twoUnsew2_both (cfg : Cfg Val) (hL : CopySplit (cfg.law 0)) {n l : Nat} {s s' : Map Val} (hw : WF 3 s)
    (hw' : WF 3 s') (hn : s.n = n) (hfc : s.fc = 0) (ln : l < n) (h1l : s.β 1 l ≠ 0) (h1r : s.β 1 (s.β 2 l) ≠ 0)
    (hdiff : ¬ VC s l (s.β 2 l))
    (hrun : run (twoUnsew2 cfg n l) s = (.ok (), s')) :
    s'.β = unl2 s.β l ∧ s.β 2 l ≠ 0 ∧ s'.n = s.n ∧ s'.fc = 0 ∧ (∀ x y, VC s' x y → VC s x y) ∧
    ∀ x, x ≠ 0 → x < n → vval s' x = vval s x := by
  subst hn
  obtain ⟨eold, m1, me, _, hcore, spE, st, cases⟩ := C04_twoUnsew2_effect cfg s.n l s s' () hfc hrun
  obtain ⟨h2, sc⟩ := step_twoUnlinkCore hcore
  have fc1 := unlinkI_fc hcore
  have hβ : s'.β = unl2 s.β l := by rw [β_of_sameTopo st]; exact sc.β
  have hn' : s'.n = s.n := by rw [st.n]; exact sc.n
  have l0 : l ≠ 0 := by intro hh; rw [hh, hw.null 2 (by omega)] at h2; exact h2 rfl
  have rn : s.β 2 l < s.n := hw.range 2 (by omega) l ln
  have pn : s.β 1 l < s.n := hw.range 1 (by omega) l ln
  have qn : s.β 1 (s.β 2 l) < s.n := hw.range 1 (by omega) _ rn
  have hinv : s.β 2 (s.β 2 l) = l := (hw.invol 2 (by omega) (by omega) l ln h2).1
  have pairs : ∀ u v, VPair s.β u v ↔ VPair s'.β u v ∨ (u = s.β 2 l ∧ v = s.β 1 l ∧ u ≠ 0 ∧ v ≠ 0) ∨
      (u = l ∧ v = s.β 1 (s.β 2 l) ∧ u ≠ 0 ∧ v ≠ 0) := by
    intro u v; rw [hβ]; exact vpair_unl2 hinv u v
  have mono : ∀ x y, VC s' x y → VC s x y := fun x y h =>
    Conn.mono (fun u v e => Conn.fwd (.refl _) ((pairs u v).2 (Or.inl e))) h
  rcases cases with ⟨c, _, _⟩ | ⟨c, _, _⟩ | ⟨_, c, _⟩ | ⟨_, _, lvold, rvold, a, b, c, d, mv, hlv, hrv, ha, hb, hc, hd, sp1, sp2⟩
  · exact absurd c h1l
  · exact absurd c h1l
  · exact absurd c h1r
  refine ⟨hβ, h2, hn', by rw [sp2.fc, sp1.fc, spE.fc, fc1.1]; exact hfc, mono, ?_⟩
  -- the intermediate relation: the new pairs and `(r, p)`
  let E1 : Nat → Nat → Prop := fun u v => VPair s'.β u v ∨ (u = s.β 2 l ∧ v = s.β 1 l)
  have rp : VC s (s.β 2 l) (s.β 1 l) :=
    Conn.fwd (.refl _) ((pairs _ _).2 (Or.inr (Or.inl ⟨rfl, rfl, h2, h1l⟩)))
  have lq : VC s l (s.β 1 (s.β 2 l)) :=
    Conn.fwd (.refl _) ((pairs _ _).2 (Or.inr (Or.inr ⟨rfl, rfl, l0, h1r⟩)))
  have mono1 : ∀ x y, Conn E1 x y → VC s x y := fun x y h =>
    Conn.mono (fun u v e => by
      rcases e with e | ⟨hu, hv⟩
      · exact Conn.fwd (.refl _) ((pairs u v).2 (Or.inl e))
      · rw [hu, hv]; exact rp) h
  have dec2 : ∀ x y, VC s x y → Conn E1 x y ∨ (Conn E1 x l ∧ Conn E1 (s.β 1 (s.β 2 l)) y) ∨
      (Conn E1 x (s.β 1 (s.β 2 l)) ∧ Conn E1 l y) := fun x y h =>
    Conn.add_edge (E := E1) (a := l) (b := s.β 1 (s.β 2 l)) (fun u v e => by
      rcases (pairs u v).1 e with e | ⟨hu, hv, _, _⟩ | ⟨hu, hv, _, _⟩
      · exact Or.inl (Or.inl e)
      · exact Or.inl (Or.inr ⟨hu, hv⟩)
      · exact Or.inr ⟨hu, hv⟩) h
  have dec1 : ∀ x y, Conn E1 x y → VC s' x y ∨ (VC s' x (s.β 2 l) ∧ VC s' (s.β 1 l) y) ∨
      (VC s' x (s.β 1 l) ∧ VC s' (s.β 2 l) y) := fun x y h =>
    Conn.add_edge (E := VPair s'.β) (a := s.β 2 l) (b := s.β 1 l) (fun u v e => by
      rcases e with e | ⟨hu, hv⟩
      · exact Or.inl e
      · exact Or.inr ⟨hu, hv⟩) h
  -- the two old vertices are different
  have nlr : ∀ y, VC s l y → VC s (s.β 2 l) y → False := fun y h1 h2' => hdiff (h1.trans h2'.symm)
  -- where the darts of the two old vertices end up
  have clsL : ∀ x, VC s x l → VC s' x l ∨ VC s' x (s.β 1 (s.β 2 l)) := by
    intro x hx
    have step : ∀ t, VC s l t → Conn E1 x t → VC s' x t := by
      intro t lt h
      rcases dec1 x t h with h | ⟨_, h⟩ | ⟨_, h⟩
      · exact h
      · exact (nlr t lt (rp.trans (mono _ _ h))).elim
      · exact (nlr t lt (mono _ _ h)).elim
    rcases dec2 x l hx with h | ⟨h, _⟩ | ⟨h, _⟩
    · exact Or.inl (step l (.refl _) h)
    · exact Or.inl (step l (.refl _) h)
    · exact Or.inr (step _ lq h)
  have clsR : ∀ x, VC s x (s.β 2 l) → VC s' x (s.β 2 l) ∨ VC s' x (s.β 1 l) := by
    intro x hx
    have h : Conn E1 x (s.β 2 l) := by
      rcases dec2 x _ hx with h | ⟨_, h⟩ | ⟨_, h⟩
      · exact h
      · exact (nlr _ lq (mono1 _ _ h).symm).elim
      · exact (hdiff (mono1 _ _ h)).elim
    rcases dec1 x _ h with h | ⟨h, _⟩ | ⟨h, _⟩
    · exact Or.inl h
    · exact Or.inl h
    · exact Or.inr h
  have clsO : ∀ x, ¬ VC s x l → ¬ VC s x (s.β 2 l) → ∀ y, VC s x y → VC s' x y := by
    intro x nl nr y h
    rcases dec2 x y h with h | ⟨h, _⟩ | ⟨h, _⟩
    · rcases dec1 x y h with h | ⟨h, _⟩ | ⟨h, _⟩
      · exact h
      · exact absurd (mono _ _ h) nr
      · exact absurd ((mono _ _ h).trans rp.symm) nr
    · exact absurd (mono1 _ _ h) nl
    · exact absurd ((mono1 _ _ h).trans lq.symm) nl
  -- identifiers
  have hwe : WF 3 me := (hw'.sameTopo (SameTopo.symm' st)).sameTopo spE.topo
  have ste : SameTopo me s' := (SameTopo.symm' spE.topo).trans st
  have hne : me.n = s.n := by rw [spE.topo.n]; exact sc.n
  have idOld : ∀ {x v : Nat}, x ≠ 0 → x < s.n → run (vertexId2 s.n x) s = (.ok v, s) → v = cellId s .vertex x := by
    intro x v x0 xn hv
    have := (C03_vertexId2_min hw x0 xn).1; rw [this] at hv; simp at hv; exact hv.symm
  have idNew : ∀ {x v : Nat}, x ≠ 0 → x < s.n → run (vertexId2 s.n x) me = (.ok v, me) → v = cellId s' .vertex x := by
    intro x v x0 xn hv
    have := (C03_vertexId2_min hwe x0 (by rw [hne]; exact xn)).1
    rw [hne] at this
    rw [this] at hv; simp at hv
    rw [← hv]; exact (vid_of_sameTopo ste x).symm
  have eL := idOld l0 ln hlv
  have eR := idOld h2 rn hrv
  have ea := idNew l0 ln ha
  have eb := idNew h1r qn hb
  have ec := idNew h1l pn hc
  have ed := idNew h2 rn hd
  have z0 : (0 : Nat) ∈ vStores cfg := by simp [vStores]
  have attE : ∀ e, me.att 0 e = s.att 0 e := fun e => by
    rw [spE.other 0 e (zero_notin_storagesOf cfg 1), fc1.2.1]
  have ln' : l < s'.n := by rw [hn']; exact ln
  have rn' : s.β 2 l < s'.n := by rw [hn']; exact rn
  have pn' : s.β 1 l < s'.n := by rw [hn']; exact pn
  have qn' : s.β 1 (s.β 2 l) < s'.n := by rw [hn']; exact qn
  obtain ⟨_, _, cL⟩ := vc_vid hw l0 ln
  obtain ⟨_, _, cR⟩ := vc_vid hw h2 rn
  obtain ⟨_, _, ca⟩ := vc_vid hw' l0 ln'
  obtain ⟨_, _, cb⟩ := vc_vid hw' h1r qn'
  obtain ⟨_, _, cc⟩ := vc_vid hw' h1l pn'
  obtain ⟨_, _, cd⟩ := vc_vid hw' h2 rn'
  -- the six identifiers: `a, b, lvold` in the old vertex of `l`; `c, d, rvold` in that of `r`
  have inL : ∀ t, (t = a ∨ t = b ∨ t = lvold) → VC s l t := by
    intro t ht
    rcases ht with rfl | rfl | rfl
    · rw [ea]; exact mono _ _ ca
    · rw [eb]; exact lq.trans (mono _ _ cb)
    · rw [eL]; exact cL
  have inR : ∀ t, (t = c ∨ t = d ∨ t = rvold) → VC s (s.β 2 l) t := by
    intro t ht
    rcases ht with rfl | rfl | rfl
    · rw [ec]; exact rp.trans (mono _ _ cc)
    · rw [ed]; exact mono _ _ cd
    · rw [eR]; exact cR
  have neLR : ∀ t t', (t = a ∨ t = b ∨ t = lvold) → (t' = c ∨ t' = d ∨ t' = rvold) → t ≠ t' := by
    intro t t' ht ht' hh
    exact nlr t (inL t ht) (by rw [hh]; exact inR t' ht')
  -- the values at the four new identifiers
  have val1 : mv.att 0 a = s.att 0 lvold ∧ mv.att 0 b = s.att 0 lvold := by
    by_cases hab : a = b
    · have := sp1.moved hab 0 z0
      rw [attE] at this
      exact ⟨this, by rw [← hab]; exact this⟩
    · obtain ⟨x, y, hs, hy, hx⟩ := sp1.split hab 0 z0
      rw [attE] at hs
      obtain ⟨k1, k2⟩ := splitVal_copy hL hs
      exact ⟨by rw [hx, k1], by rw [hy, k1, k2]⟩
  have rvold1 : mv.att 0 rvold = s.att 0 rvold := by
    rw [sp1.frame 0 _ z0 (Ne.symm (neLR a rvold (Or.inl rfl) (Or.inr (Or.inr rfl))))
      (Ne.symm (neLR b rvold (Or.inr (Or.inl rfl)) (Or.inr (Or.inr rfl))))
      (Ne.symm (neLR lvold rvold (Or.inr (Or.inr rfl)) (Or.inr (Or.inr rfl)))), attE]
  have val2 : s'.att 0 c = s.att 0 rvold ∧ s'.att 0 d = s.att 0 rvold := by
    by_cases hcd : c = d
    · have := sp2.moved hcd 0 z0
      rw [rvold1] at this
      exact ⟨this, by rw [← hcd]; exact this⟩
    · obtain ⟨x, y, hs, hy, hx⟩ := sp2.split hcd 0 z0
      rw [rvold1] at hs
      obtain ⟨k1, k2⟩ := splitVal_copy hL hs
      exact ⟨by rw [hx, k1], by rw [hy, k1, k2]⟩
  have val1' : s'.att 0 a = s.att 0 lvold ∧ s'.att 0 b = s.att 0 lvold := by
    constructor
    · rw [sp2.frame 0 _ z0 (neLR a c (Or.inl rfl) (Or.inl rfl)) (neLR a d (Or.inl rfl) (Or.inr (Or.inl rfl)))
        (neLR a rvold (Or.inl rfl) (Or.inr (Or.inr rfl)))]
      exact val1.1
    · rw [sp2.frame 0 _ z0 (neLR b c (Or.inr (Or.inl rfl)) (Or.inl rfl))
        (neLR b d (Or.inr (Or.inl rfl)) (Or.inr (Or.inl rfl))) (neLR b rvold (Or.inr (Or.inl rfl)) (Or.inr (Or.inr rfl)))]
      exact val1.2
  intro x x0 xn
  have xn' : x < s'.n := by rw [hn']; exact xn
  by_cases xL : VC s x l
  · have old : cellId s .vertex x = lvold := by rw [eL]; exact (vid_of_vc hw x0 xn l0 ln).2 xL
    unfold vval
    rcases clsL x xL with h | h
    · rw [(vid_of_vc hw' x0 xn' l0 ln').2 h, ← ea, val1'.1, old]
    · rw [(vid_of_vc hw' x0 xn' h1r qn').2 h, ← eb, val1'.2, old]
  · by_cases xR : VC s x (s.β 2 l)
    · have old : cellId s .vertex x = rvold := by rw [eR]; exact (vid_of_vc hw x0 xn h2 rn).2 xR
      unfold vval
      rcases clsR x xR with h | h
      · rw [(vid_of_vc hw' x0 xn' h2 rn').2 h, ← ed, val2.2, old]
      · rw [(vid_of_vc hw' x0 xn' h1l pn').2 h, ← ec, val2.1, old]
    · have same : ∀ y, y ≠ 0 → (VC s' x y ↔ VC s x y) := fun y _ => ⟨mono x y, clsO x xL xR y⟩
      have ceq := vid_congr hw hw' hn' x0 xn same
      obtain ⟨_, _, cx⟩ := vc_vid hw x0 xn
      have notL : ∀ t, (t = a ∨ t = b ∨ t = lvold) → cellId s .vertex x ≠ t := by
        intro t ht hh; exact xL (cx.trans (by rw [hh]; exact (inL t ht).symm))
      have notR : ∀ t, (t = c ∨ t = d ∨ t = rvold) → cellId s .vertex x ≠ t := by
        intro t ht hh; exact xR (cx.trans (by rw [hh]; exact (inR t ht).symm))
      unfold vval
      rw [ceq, sp2.frame 0 _ z0 (notR c (Or.inl rfl)) (notR d (Or.inr (Or.inl rfl))) (notR rvold (Or.inr (Or.inr rfl))),
        sp1.frame 0 _ z0 (notL a (Or.inl rfl)) (notL b (Or.inr (Or.inl rfl))) (notL lvold (Or.inr (Or.inr rfl))), attE]

end HC
