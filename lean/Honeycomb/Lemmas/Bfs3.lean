/-
  Helpers for the 3-D half of C03 (Props/C03b.lean), generic in the image generator `g`:

  * `orbG g n d`, `cidG g n d`     the BFS list of `Lemmas/Bfs.lean` and its minimum, for any generator
  * `mem_orbG … cidG_idem`         cell theory for generators closed under inverse (orbit = class,
                                   equal minima ⇔ same cell), the 2-D development of Props/C03.lean
                                   made independent of the policy
  * `mem_iterCells_gen`            the iterator lemma: `iterCells` = identifiers of the in-use darts
  * `run_popLoop_min`              the "mark on pop" traversal of `vertex_id_transac` / `edge_id_transac` /
                                   `volume_id_transac` (`popLoop`, fuel `8 n + 8`) terminates and returns
                                   the minimum of the BFS list  (glues `Cell3.popLoop_spec` — partial
                                   correctness — to `Face3.popLoop_start` — termination)
  * `linear_reach_iff_gen`         one-directional generator sets on closed cells, several generators:
                                   every one-directional generator that is defined somewhere on the cell
                                   is defined everywhere on it
-/
import Honeycomb.Lemmas.Bfs
import Honeycomb.Lemmas.Cell3
import Honeycomb.Lemmas.SceneFace3
import Honeycomb.Props.C03

set_option linter.unusedSimpArgs false

namespace HC
variable {X : Type}

/-! ## orbit list and minimum for an arbitrary generator -/

/-- the BFS list from `d` (fuel `n + 1`) -/
def orbG (g : Nat → List Nat) (n d : Nat) : List Nat := bfsPure g (n + 1) [d] [0, d] []

/-- its minimum -/
def cidG (g : Nat → List Nat) (n d : Nat) : Nat := listMin (orbG g n d) d

/-- hypotheses shared by all lemmas: inert null dart, images below the bound -/
structure GenOK (g : Nat → List Nat) (n : Nat) : Prop where
  null : ∀ y, y ∈ g 0 → y = 0
  range : ∀ a, a < n → ∀ y, y ∈ g a → y < n

section
variable {g : Nat → List Nat} {n : Nat}

theorem orbG_spec (H : GenOK g n) {d : Nat} (hd0 : d ≠ 0) (hd : d < n) :
    (orbG g n d).head? = some d ∧ (orbG g n d).Nodup ∧ 0 ∉ orbG g n d ∧
    (∀ x, x ∈ orbG g n d ↔ (x ≠ 0 ∧ Reach g d x)) ∧ ∀ x, x ∈ orbG g n d → x < n :=
  bfsPure_spec H.null H.range hd0 hd

theorem mem_orbG (H : GenOK g n) {d : Nat} (hd0 : d ≠ 0) (hd : d < n) (x : Nat) :
    x ∈ orbG g n d ↔ (x ≠ 0 ∧ Reach g d x) := (orbG_spec H hd0 hd).2.2.2.1 x

theorem self_mem_orbG (H : GenOK g n) {d : Nat} (hd0 : d ≠ 0) (hd : d < n) : d ∈ orbG g n d :=
  (mem_orbG H hd0 hd d).2 ⟨hd0, .refl _⟩

theorem orbG_lt (H : GenOK g n) {d : Nat} (hd0 : d ≠ 0) (hd : d < n) {x : Nat} (hx : x ∈ orbG g n d) :
    x < n := (orbG_spec H hd0 hd).2.2.2.2 x hx

theorem cidG_spec (H : GenOK g n) {d : Nat} (hd0 : d ≠ 0) (hd : d < n) :
    cidG g n d ∈ orbG g n d ∧ ∀ x, x ∈ orbG g n d → cidG g n d ≤ x :=
  listMin_spec (self_mem_orbG H hd0 hd)

theorem reach_symmG (H : GenOK g n) (hi : InvClosed g n) {d e : Nat} (hd : d < n) (he0 : e ≠ 0)
    (hr : Reach g d e) : Reach g e d :=
  Reach.symm_of_invClosed H.null H.range hi hd he0 hr

theorem mem_orbG_iff_sameCell (H : GenOK g n) (hi : InvClosed g n) {d : Nat} (hd0 : d ≠ 0) (hd : d < n)
    (x : Nat) : x ∈ orbG g n d ↔ SameCell g n d x := by
  rw [mem_orbG H hd0 hd, sameCell_iff_reach H.null H.range hi hd0 hd]

theorem orbG_congr (H : GenOK g n) (hi : InvClosed g n) {d e : Nat} (hd0 : d ≠ 0) (hd : d < n)
    (he0 : e ≠ 0) (he : e < n) (hr : Reach g d e) (x : Nat) : x ∈ orbG g n d ↔ x ∈ orbG g n e := by
  rw [mem_orbG H hd0 hd, mem_orbG H he0 he]
  constructor
  · rintro ⟨hx0, hx⟩; exact ⟨hx0, (reach_symmG H hi hd he0 hr).trans hx⟩
  · rintro ⟨hx0, hx⟩; exact ⟨hx0, hr.trans hx⟩

/-- equal minima ⇔ same cell -/
theorem cidG_eq_iff (H : GenOK g n) (hi : InvClosed g n) {d e : Nat} (hd0 : d ≠ 0) (hd : d < n)
    (he0 : e ≠ 0) (he : e < n) :
    (cidG g n d = cidG g n e ↔ Reach g d e) ∧ (cidG g n d = cidG g n e ↔ SameCell g n d e) := by
  have spd := cidG_spec H hd0 hd
  have spe := cidG_spec H he0 he
  have main : cidG g n d = cidG g n e ↔ Reach g d e := by
    constructor
    · intro e1
      have h1 := (mem_orbG H hd0 hd _).1 spd.1
      have h2 := (mem_orbG H he0 he _).1 spe.1
      rw [← e1] at h2
      exact h1.2.trans (reach_symmG H hi he h1.1 h2.2)
    · intro hr
      exact min_unique spd spe (orbG_congr H hi hd0 hd he0 he hr)
  refine ⟨main, ?_⟩
  rw [main, sameCell_iff_reach H.null H.range hi hd0 hd]
  exact ⟨fun hr => ⟨he0, hr⟩, fun hr => hr.2⟩

theorem cidG_idem (H : GenOK g n) (hi : InvClosed g n) {d : Nat} (hd0 : d ≠ 0) (hd : d < n) :
    cidG g n d ≠ 0 ∧ cidG g n d < n ∧ cidG g n (cidG g n d) = cidG g n d := by
  have spd := cidG_spec H hd0 hd
  have h1 := (mem_orbG H hd0 hd _).1 spd.1
  have hlt := orbG_lt H hd0 hd spd.1
  exact ⟨h1.1, hlt, (cidG_eq_iff H hi h1.1 hlt hd0 hd).1.2 (reach_symmG H hi hd h1.1 h1.2)⟩

end

/-! ## iterators -/

/-- if `idf` computes the cell minimum on the in-use darts and cells of in-use darts contain in-use
    darts only, `iterCells` yields exactly the identifiers of the in-use darts -/
theorem mem_iterCells_gen {m : Map X} {g : Nat → List Nat} (H : GenOK g m.n) (hi : InvClosed g m.n)
    {idf : Nat → P X Nat}
    (hid : ∀ d, d ≠ 0 → d < m.n → m.unused d = false → run (idf d) m = (.ok (cidG g m.n d), m))
    (huse : ∀ d, d ≠ 0 → d < m.n → m.unused d = false → ∀ x, x ∈ orbG g m.n d → m.unused x = false)
    (x : Nat) :
    x ∈ iterCells m idf ↔ ∃ d, d ≠ 0 ∧ d < m.n ∧ m.unused d = false ∧ cidG g m.n d = x := by
  rw [C03.mem_iterCells]
  constructor
  · rintro ⟨hx, hx0, hu, e⟩
    rw [hid x hx0 hx hu, C03.okVal_ok] at e
    exact ⟨x, hx0, hx, hu, e⟩
  · rintro ⟨d, hd0, hd, hu, e⟩
    obtain ⟨k0, klt, kid⟩ := cidG_idem H hi hd0 hd
    have ku := huse d hd0 hd hu _ (cidG_spec H hd0 hd).1
    rw [e] at k0 klt kid ku
    refine ⟨klt, k0, ku, ?_⟩
    rw [hid x k0 klt ku, C03.okVal_ok]; exact kid

/-! ## the "mark on pop" traversal returns the minimum of the BFS list -/

theorem run_popLoop_min {m : Map X} {n d : Nat} {g : Nat → List Nat} {gen : Nat → P X (List Nat)}
    (H : GenOK g n)
    (hgen : ∀ x, x < n → run (gen x) m = (.ok (g x), m))
    (hgen' : ∀ x ims m', run (gen x) m = (.ok ims, m') → m' = m ∧ ims = g x)
    (hlen : ∀ x, (g x).length ≤ 6) (hd0 : d ≠ 0) (hd : d < n) :
    run (popLoop gen (8 * n + 8) [d] [0] d) m = (.ok (cidG g n d), m) := by
  obtain ⟨v, hv⟩ := Face3.popLoop_start hgen hlen H.range hd
  have I : Cell3.PInv g d [d] [0] d :=
    ⟨by simp, fun x hx hx0 => absurd (by simpa using hx) hx0, fun x hx _ => by
      have : x = d := by simpa using hx
      subst this; exact .refl _,
     fun x hx hx0 => absurd (by simpa using hx) hx0, Or.inr (by simp), ⟨Nat.le_refl _, fun x hx hx0 =>
      absurd (by simpa using hx) hx0⟩, Or.inl rfl⟩
  obtain ⟨_, _, hmin, hmem⟩ := Cell3.popLoop_spec (g := g) hgen' H.null _ _ _ _ v m I hv
  have hvmem : v ∈ orbG g n d := by
    rcases hmem with rfl | ⟨h1, h2⟩
    · exact self_mem_orbG H hd0 hd
    · exact (mem_orbG H hd0 hd v).2 ⟨h2, h1⟩
  have hvle : ∀ x, x ∈ orbG g n d → v ≤ x := by
    intro x hx
    obtain ⟨hx0, hrx⟩ := (mem_orbG H hd0 hd x).1 hx
    exact hmin x hrx hx0
  rw [hv, min_unique ⟨hvmem, hvle⟩ (cidG_spec H hd0 hd) (fun _ => Iff.rfl)]

/-! ## one-directional generator sets on closed cells -/

/-- **linear policies, several generators.**  `gl` = the one-directional images, `gf ⊇ gl` = the full
    set; every image of `gf` missing from `gl` is `f' x` for a pair `(f, f') ∈ P` with `f x ∈ gl x` and
    `f (f' x) = x`, `f' (f x) = x` (wherever the inner image is not null).  If on the full cell of `d`
    every such `f` is defined everywhere or nowhere, forward reachability through `gl` alone already
    gives the full cell. -/
theorem linear_reach_iff_gen {gl gf : Nat → List Nat} {P : List ((Nat → Nat) × (Nat → Nat))} {n d : Nat}
    (Hl : GenOK gl n) (Hf : GenOK gf n)
    (hsub : ∀ x y, y ∈ gl x → y ∈ gf x)
    (hfw : ∀ p, p ∈ P → ∀ x, p.1 x ∈ gl x)
    (hsplit : ∀ x y, y ∈ gf x → y ∈ gl x ∨ ∃ p, p ∈ P ∧ y = p.2 x)
    (hinv : ∀ p, p ∈ P → ∀ x, x < n → p.1 x ≠ 0 → p.2 (p.1 x) = x)
    (hinv' : ∀ p, p ∈ P → ∀ x, x < n → p.2 x ≠ 0 → p.1 (p.2 x) = x)
    (hd0 : d ≠ 0) (hd : d < n)
    (hclosed : ∀ p, p ∈ P → (∀ x, x ≠ 0 → Reach gf d x → p.1 x ≠ 0) ∨ (∀ x, x ≠ 0 → Reach gf d x → p.1 x = 0))
    (x : Nat) (hx0 : x ≠ 0) :
    Reach gf d x ↔ Reach gl d x := by
  constructor
  · intro h
    obtain ⟨_, hnd, _, hmem, hlt⟩ := orbG_spec Hl hd0 hd
    generalize orbG gl n d = L at hnd hmem hlt
    induction h with
    | refl => exact .refl _
    | tail hab hc ih =>
        rename_i b c
        have hb0 : b ≠ 0 := Reach.pred_ne_zero Hf.null hc hx0
        have hb := ih hb0
        have hbn : b < n := hab.lt Hf.range hd
        rcases hsplit b c hc with hc' | ⟨p, hp, hc'⟩
        · exact .tail hb hc'
        · -- `c = p.2 b`, so `p.1 c = b`: `p.1` is defined somewhere on the cell, hence everywhere
          have hfc : p.1 c = b := by rw [hc']; exact hinv' p hp b hbn (by rw [← hc']; exact hx0)
          have hcr : Reach gf d c := .tail hab hc
          have htot : ∀ y, y ≠ 0 → Reach gf d y → p.1 y ≠ 0 := by
            rcases hclosed p hp with ht | hn
            · exact ht
            · exact absurd (hn c hx0 hcr) (by rw [hfc]; exact hb0)
          have hcl : ∀ y, y ∈ L → p.1 y ≠ 0 := fun y hy =>
            htot y ((hmem y).1 hy).1 (((hmem y).1 hy).2.mono hsub)
          have hmap : ∀ y, y ∈ L → p.1 y ∈ L := fun y hy =>
            (hmem (p.1 y)).2 ⟨hcl y hy, .tail ((hmem y).1 hy).2 (hfw p hp y)⟩
          have hinj : ∀ a b, a ∈ L → b ∈ L → p.1 a = p.1 b → a = b := by
            intro a b ha hb e
            have h1 := hinv p hp a (hlt a ha) (hcl a ha)
            have h2 := hinv p hp b (hlt b hb) (hcl b hb)
            rw [← h1, ← h2, e]
          obtain ⟨y, hy, e⟩ := surj_of_inj_on_list hnd hmap hinj b ((hmem b).2 ⟨hb0, hb⟩)
          have : c = y := by
            rw [hc', ← e]; exact hinv p hp y (hlt y hy) (by rw [e]; exact hb0)
          rw [this]; exact ((hmem y).1 hy).2
  · intro h; exact h.mono hsub

/-! ## the lock-step walk of `face_id_transac`: phase 1 (the left dart is new) by invariant -/

namespace Face3

/-- bookkeeping of phase 1 of `fw`: as long as the left dart is not marked the loop steps and an
    invariant `I` preserved by such steps holds; at the first round whose left dart is marked,
    `I` holds, the result's minimum is at most the current one, and if the right dart is marked too
    the walk ends there -/
theorem fw_phase1_inv {f1 f0 : Nat → Nat} (I : Nat → Nat → List Nat → Nat → Prop)
    (hstep : ∀ lb rb marked mn, I lb rb marked mn → marked.contains lb = false →
      I (f1 lb) (f0 rb) (marked ++ [lb]) (upd mn (f1 lb) (f0 rb))) :
    ∀ (fuel lb rb : Nat) (marked : List Nat) (mn lbF rbF : Nat) (mkF : List Nat) (mnF : Nat),
      I lb rb marked mn → fw f1 f0 fuel lb rb marked mn = some (lbF, rbF, mkF, mnF) →
      ∃ lb' rb' mk' mn', I lb' rb' mk' mn' ∧ lb' ∈ mk' ∧ mnF ≤ mn' ∧
        (rb' ∈ mk' → lbF = lb' ∧ rbF = rb' ∧ mkF = mk' ∧ mnF = mn') := by
  intro fuel
  induction fuel with
  | zero => intro lb rb marked mn lbF rbF mkF mnF _ h; simp [fw] at h
  | succ f ih =>
      intro lb rb marked mn lbF rbF mkF mnF hI h
      unfold fw at h
      by_cases c1 : marked.contains lb = true
      · refine ⟨lb, rb, marked, mn, hI, by simpa using c1, ?_, ?_⟩
        · by_cases c2 : marked.contains rb = true
          · simp only [c1, c2, Bool.not_true, Bool.false_eq_true, if_false, Option.some.injEq,
              Prod.mk.injEq] at h
            obtain ⟨_, _, _, rfl⟩ := h
            exact Nat.le_refl _
          · simp only [c1, c2, Bool.not_true, Bool.false_eq_true, if_false, Bool.not_false, if_true,
              Bool.not_eq_true] at h
            exact Nat.le_trans (fw_facts _ _ _ _ _ _ _ _ _ h).1 (upd_le _ _ _).1
        · intro hrb
          have c2 : marked.contains rb = true := by simpa using hrb
          simp only [c1, c2, Bool.not_true, Bool.false_eq_true, if_false, Option.some.injEq,
            Prod.mk.injEq] at h
          obtain ⟨rfl, rfl, rfl, rfl⟩ := h
          exact ⟨rfl, rfl, rfl, rfl⟩
      · simp only [c1, Bool.not_false, if_true, Bool.not_eq_true] at h
        exact ih _ _ _ _ _ _ _ _ (hstep _ _ _ _ hI (by simpa using c1)) h

/-- invariant of a one-sided walk along `f` (with partial inverse `finv`): every marked dart has
    its `f`-image marked or at the frontier `lb`, its `finv`-image marked (except the dart `z`), is
    `≥ mn`, satisfies `Q` and exists; `w` is marked or at the frontier -/
structure OneInv (f finv : Nat → Nat) (Q : Nat → Prop) (n z w : Nat) (lb : Nat) (marked : List Nat)
    (mn : Nat) : Prop where
  m0 : 0 ∈ marked
  fwd : ∀ x, x ∈ marked → x ≠ 0 → f x ∈ marked ∨ f x = lb
  bwd : ∀ x, x ∈ marked → x ≠ 0 → x = z ∨ finv x ∈ marked
  lbb : lb = z ∨ lb = 0 ∨ finv lb ∈ marked
  mkd : ∀ x, x ∈ marked → x ≠ 0 → mn ≤ x ∧ Q x ∧ x < n
  lbq : lb < n ∧ (lb ≠ 0 → mn ≤ lb ∧ Q lb)
  wm : w ∈ marked ∨ lb = w

theorem OneInv.step {f finv : Nat → Nat} {Q : Nat → Prop} {n z w lb : Nat} {marked : List Nat} {mn : Nat}
    (hr : ∀ x, x < n → f x < n) (hinv : ∀ x, x < n → f x ≠ 0 → finv (f x) = x)
    (hQ : ∀ x, x < n → Q x → f x ≠ 0 → Q (f x))
    (h : OneInv f finv Q n z w lb marked mn) (hnew : marked.contains lb = false) :
    OneInv f finv Q n z w (f lb) (marked ++ [lb]) (upd mn (f lb) 0) := by
  have hlb : lb ∉ marked := by simpa using hnew
  have hlb0 : lb ≠ 0 := fun e => hlb (e ▸ h.m0)
  have hu := upd_le mn (f lb) 0
  refine ⟨List.mem_append_left _ h.m0, ?_, ?_, ?_, ?_, ⟨hr lb h.lbq.1, ?_⟩, ?_⟩
  · intro x hx hx0
    rcases List.mem_append.1 hx with hx | hx
    · rcases h.fwd x hx hx0 with k | k
      · exact Or.inl (List.mem_append_left _ k)
      · exact Or.inl (List.mem_append_right _ (List.mem_singleton.2 k))
    · rw [List.mem_singleton.1 hx]; exact Or.inr rfl
  · intro x hx hx0
    rcases List.mem_append.1 hx with hx | hx
    · rcases h.bwd x hx hx0 with k | k
      · exact Or.inl k
      · exact Or.inr (List.mem_append_left _ k)
    · rw [List.mem_singleton.1 hx]
      rcases h.lbb with k | k | k
      · exact Or.inl k
      · exact absurd k hlb0
      · exact Or.inr (List.mem_append_left _ k)
  · by_cases e : f lb = 0
    · exact Or.inr (Or.inl e)
    · right; right
      rw [hinv lb h.lbq.1 e]
      exact List.mem_append_right _ (List.mem_singleton.2 rfl)
  · intro x hx hx0
    rcases List.mem_append.1 hx with hx | hx
    · obtain ⟨a, b, c⟩ := h.mkd x hx hx0
      exact ⟨Nat.le_trans hu.1 a, b, c⟩
    · rw [List.mem_singleton.1 hx]
      obtain ⟨a, b⟩ := h.lbq.2 hlb0
      exact ⟨Nat.le_trans hu.1 a, b, h.lbq.1⟩
  · intro e
    exact ⟨hu.2.1 e, hQ lb h.lbq.1 (h.lbq.2 hlb0).2 e⟩
  · rcases h.wm with k | k
    · exact Or.inl (List.mem_append_left _ k)
    · exact Or.inl (List.mem_append_right _ (List.mem_singleton.2 k.symm))

/-- a one-sided walk (`rb = 0`, `f0 0 = 0`): at its end the invariant holds and the frontier is marked -/
theorem fw_oneSided {f f0 finv : Nat → Nat} {Q : Nat → Prop} {n z w : Nat}
    (hf0 : f0 0 = 0) (hr : ∀ x, x < n → f x < n) (hinv : ∀ x, x < n → f x ≠ 0 → finv (f x) = x)
    (hQ : ∀ x, x < n → Q x → f x ≠ 0 → Q (f x))
    {fuel lb : Nat} {marked : List Nat} {mn lbF rbF : Nat} {mkF : List Nat} {mnF : Nat}
    (hI : OneInv f finv Q n z w lb marked mn)
    (h : fw f f0 fuel lb 0 marked mn = some (lbF, rbF, mkF, mnF)) :
    OneInv f finv Q n z w lbF mkF mnF ∧ lbF ∈ mkF ∧ rbF = 0 := by
  obtain ⟨lb', rb', mk', mn', ⟨hrb, hI'⟩, hmem, _, hfin⟩ :=
    fw_phase1_inv (f1 := f) (f0 := f0)
      (fun lb rb marked mn => rb = 0 ∧ OneInv f finv Q n z w lb marked mn)
      (by
        rintro lb rb marked mn ⟨rfl, hh⟩ hnew
        refine ⟨hf0, ?_⟩
        rw [hf0]
        exact hh.step hr hinv hQ hnew)
      fuel lb 0 marked mn lbF rbF mkF mnF ⟨rfl, hI⟩ h
  obtain ⟨rfl, rfl, rfl, rfl⟩ := hfin (by rw [hrb]; exact hI'.m0)
  exact ⟨hI', hmem, hrb⟩

end Face3

/-- iterating a generator image stays reachable -/
theorem reach_iter {g : Nat → List Nat} {f : Nat → Nat} (hf : ∀ y, f y ∈ g y) (x : Nat) :
    ∀ s, Reach g x (f^[s] x) := by
  intro s
  induction s with
  | zero => exact .refl _
  | succ s ih => rw [Function.iterate_succ_apply']; exact .tail ih (hf _)

end HC
