/-
  Edges of the 3-D hex grid as computed by the code (`edge_id_transac`: traversal over β2, β3, and
  `iter_edges`): the darts round a geometric edge of the lattice (up to 4 cells × 2 darts) form one
  edge cell, `edge_id` is its smallest dart, and `iter_edges` yields
  `nx·(ny+1)·(nz+1) + (nx+1)·ny·(nz+1) + (nx+1)·(ny+1)·nz` identifiers for every size.
-/
import Honeycomb.Lemmas.Grid3Vertex
import Honeycomb.Lemmas.GridCount

namespace HC.Grid3Edge
open HC HC.Gen HC.Grid3Pop HC.Grid3Vertex HC.GridCount

/-- lower / upper end of the edge run by local dart `o`, as corners of the cell -/
def elo (o : Nat) : Nat × Nat × Nat :=
  (min (kap o).1 (kap (pp 1 o)).1, min (kap o).2.1 (kap (pp 1 o)).2.1, min (kap o).2.2 (kap (pp 1 o)).2.2)
def ehi (o : Nat) : Nat × Nat × Nat :=
  (max (kap o).1 (kap (pp 1 o)).1, max (kap o).2.1 (kap (pp 1 o)).2.1, max (kap o).2.2 (kap (pp 1 o)).2.2)

set_option maxRecDepth 100000 in
theorem hexEdgeFacts : ∀ o, o < 24 →
    elo (pp 2 o) = elo o ∧ ehi (pp 2 o) = ehi o ∧
    CornerRel (dir3 o) (elo (pp 3 o)) (elo o) ∧ CornerRel (dir3 o) (ehi (pp 3 o)) (ehi o) ∧
    (ehi o).1 ≤ 1 ∧ (ehi o).2.1 ≤ 1 ∧ (ehi o).2.2 ≤ 1 ∧
    (elo o).1 ≤ (ehi o).1 ∧ (elo o).2.1 ≤ (ehi o).2.1 ∧ (elo o).2.2 ≤ (ehi o).2.2 ∧
    (elo o).1 + (elo o).2.1 + (elo o).2.2 + 1 = (ehi o).1 + (ehi o).2.1 + (ehi o).2.2 := by decide

set_option maxRecDepth 100000 in
theorem hexEdgeWithin : ∀ o, o < 24 → ∀ o', o' < 24 → (elo o' = elo o ∧ ehi o' = ehi o) →
    o' = o ∨ o' = pp 2 o := by decide

set_option maxRecDepth 100000 in
theorem hexEdgeFace : ∀ o, o < 24 → ∀ dir, dir < 7 → Compat dir (elo o) → Compat dir (ehi o) →
    dir3 o = dir ∨ dir3 (pp 2 o) = dir := by decide

set_option maxRecDepth 100000 in
theorem hexEdgeExists : ∀ ax, ax < 3 → ∀ k1, k1 < 2 → ∀ k2, k2 < 2 →
    (List.range 24).any (fun o => decide (
      (ax = 0 → elo o = (0, k1, k2) ∧ ehi o = (1, k1, k2)) ∧
      (ax = 1 → elo o = (k1, 0, k2) ∧ ehi o = (k1, 1, k2)) ∧
      (ax = 2 → elo o = (k1, k2, 0) ∧ ehi o = (k1, k2, 1)))) = true := by decide

variable {X : Type}

/-- the two images `edge_id_transac` pushes -/
def gedge (m : Map X) (e : Nat) : List Nat := [m.β 2 e, m.β 3 e]

theorem run_edgeId3 {m : Map X} (wf : WF 4 m) {d : Nat} (hd : d < m.n) (n' : Nat) :
    run (edgeId3 (X := X) n' d) m =
      (match ppop (gedge m) (8 * n' + 8) [d] [0] d with
        | some r => (.ok r.1, m)
        | none => (.panic, m)) := by
  unfold edgeId3
  refine run_popLoop m _ (gedge m) m.n ?_ ?_ _ _ _ _ (by intro x hx; simp at hx; subst hx; exact hd)
  · intro e he
    simp only [Prog.bind_eq, Prog.pure_eq, run_rB, okβ4 wf (by decide : 2 < 4) he,
      okβ4 wf (by decide : 3 < 4) he, if_true, run_ret, gedge]
  · intro e he y hy
    simp only [gedge, List.mem_cons, List.not_mem_nil, or_false] at hy
    rcases hy with rfl | rfl
    · exact wf.range 2 (by decide) e he
    · exact wf.range 3 (by decide) e he

/-- non-transactional `edge_id` (3-D) -/
def eid3 (m : Map Val) (d : Nat) : Nat := okVal (run (edgeId3 m.n d) m) 0

variable {nx ny nz : Nat} {m : Map Val}

/-- the geometric edge of local dart `o` of cell `(a, b, c)`: its two lattice end points -/
def EK (a b c o : Nat) : (Nat × Nat × Nat) × (Nat × Nat × Nat) :=
  ((a + (elo o).1, b + (elo o).2.1, c + (elo o).2.2), (a + (ehi o).1, b + (ehi o).2.1, c + (ehi o).2.2))

/-- the geometric edge of dart `d` -/
def ek (nx ny d : Nat) : (Nat × Nat × Nat) × (Nat × Nat × Nat) :=
  EK ((d - 1) / 24 % nx) ((d - 1) / 24 / nx % ny) ((d - 1) / 24 / (nx * ny)) ((d - 1) % 24)

theorem ek_D {a b c o : Nat} (ha : a < nx) (hb : b < ny) (ho : o < 24) :
    ek nx ny (D3 nx ny a b c o) = EK a b c o := by
  unfold ek D3
  rw [dartOf_cell ho, dartOf_local ho, cellIdx_x ha, cellIdx_y ha hb, cellIdx_z ha hb]

/-- β2 and β3 keep the geometric edge -/
theorem edge_closed (st : SameTopo (H3 nx ny nz) m) {a b c o : Nat} (ha : a < nx)
    (hb : b < ny) (hc : c < nz) (ho : o < 24) : ∀ y, y ∈ gedge m (D3 nx ny a b c o) → y = 0 ∨
      ∃ a' b' c' o', a' < nx ∧ b' < ny ∧ c' < nz ∧ o' < 24 ∧ y = D3 nx ny a' b' c' o' ∧
        EK a' b' c' o' = EK a b c o := by
  obtain ⟨e1, e2, e3, e4, _⟩ := hexEdgeFacts o ho
  obtain ⟨_, _, _, _, _, q2, q3, d1, d6, _⟩ := hexFacts o ho
  intro y hy
  simp only [gedge, List.mem_cons, List.not_mem_nil, or_false] at hy
  rcases hy with rfl | rfl
  · right
    rw [βw st ha hb hc ho (by decide)]
    refine ⟨a, b, c, _, ha, hb, hc, q2, rfl, ?_⟩
    unfold EK; rw [e1, e2]
  · rcases β3_cases st ha hb hc ho with h | ⟨a', b', c', ha', hb', hc', hn, h⟩
    · exact Or.inl h
    · right
      rw [h]
      refine ⟨a', b', c', _, ha', hb', hc', q3, rfl, ?_⟩
      unfold EK
      rw [pt_shift d6 hn e3, pt_shift d6 hn e4]

variable {M : List Nat}

theorem edge_within (st : SameTopo (H3 nx ny nz) m)
    (hM : ∀ x, x ∈ M → x ≠ 0 → ∀ y, y ∈ gedge m x → y ∈ M) {a b c o o' : Nat} (ha : a < nx) (hb : b < ny)
    (hc : c < nz) (ho : o < 24) (ho' : o' < 24) (h1 : elo o' = elo o) (h2 : ehi o' = ehi o)
    (hx : D3 nx ny a b c o ∈ M) : D3 nx ny a b c o' ∈ M := by
  have hx0 : D3 nx ny a b c o ≠ 0 := by
    have := D3_pos (nx := nx) (ny := ny) (a := a) (b := b) (c := c) (o := o); omega
  rcases hexEdgeWithin o ho o' ho' ⟨h1, h2⟩ with rfl | rfl
  · exact hx
  · have := hM _ hx hx0 (m.β 2 (D3 nx ny a b c o)) (by simp [gedge])
    rwa [βw st ha hb hc ho (by decide)] at this

/-- crossing a face that contains the edge -/
theorem edge_move (st : SameTopo (H3 nx ny nz) m)
    (hM : ∀ x, x ∈ M → x ≠ 0 → ∀ y, y ∈ gedge m x → y ∈ M) {a b c o a' b' c' dir : Nat}
    (ha : a < nx) (hb : b < ny) (hc : c < nz) (ho : o < 24) (ha' : a' < nx) (hb' : b' < ny) (hc' : c' < nz)
    (hd1 : 1 ≤ dir) (hd : dir < 7) (c1 : Compat dir (elo o)) (c2 : Compat dir (ehi o))
    (hn : Nbr dir a b c a' b' c') (hx : D3 nx ny a b c o ∈ M) :
    ∃ o1, o1 < 24 ∧ D3 nx ny a' b' c' o1 ∈ M ∧ CornerRel dir (elo o1) (elo o) ∧ CornerRel dir (ehi o1) (ehi o) := by
  have key : ∀ o2, o2 < 24 → D3 nx ny a b c o2 ∈ M → dir3 o2 = dir → elo o2 = elo o → ehi o2 = ehi o →
      ∃ o1, o1 < 24 ∧ D3 nx ny a' b' c' o1 ∈ M ∧ CornerRel dir (elo o1) (elo o) ∧ CornerRel dir (ehi o1) (ehi o) := by
    intro o2 ho2 hm hdir hl hh
    have hx0 : D3 nx ny a b c o2 ≠ 0 := by
      have := D3_pos (nx := nx) (ny := ny) (a := a) (b := b) (c := c) (o := o2); omega
    obtain ⟨_, _, e3, e4, _⟩ := hexEdgeFacts o2 ho2
    have q3 := (hexFacts o2 ho2).2.2.2.2.2.2.1
    have him := hM _ hm hx0 (m.β 3 (D3 nx ny a b c o2)) (by simp [gedge])
    rw [β3_nbr st ha hb hc ho2 (by rw [hdir]; exact hn) ha' hb' hc'] at him
    rw [hdir, hl] at e3
    rw [hdir, hh] at e4
    exact ⟨_, q3, him, e3, e4⟩
  rcases hexEdgeFace o ho dir hd c1 c2 with h | h
  · exact key o ho hx h rfl rfl
  · obtain ⟨e1, e2, _⟩ := hexEdgeFacts o ho
    have q2 := (hexFacts o ho).2.2.2.2.2.1
    have hx0 : D3 nx ny a b c o ≠ 0 := by
      have := D3_pos (nx := nx) (ny := ny) (a := a) (b := b) (c := c) (o := o); omega
    have h2 := hM _ hx hx0 (m.β 2 (D3 nx ny a b c o)) (by simp [gedge])
    rw [βw st ha hb hc ho (by decide)] at h2
    exact key _ q2 h2 h e1 e2

theorem ecov_x (st : SameTopo (H3 nx ny nz) m)
    (hM : ∀ x, x ∈ M → x ≠ 0 → ∀ y, y ∈ gedge m x → y ∈ M) {a b c o t l' h' : Nat}
    (ha : a < nx) (hb : b < ny) (hc : c < nz) (ho : o < 24) (ht : t < nx) (hl : l' < 2) (hh : h' < 2)
    (el : t + l' = a + (elo o).1) (eh : t + h' = a + (ehi o).1)
    (hx : D3 nx ny a b c o ∈ M) :
    ∃ o1, o1 < 24 ∧ D3 nx ny t b c o1 ∈ M ∧ elo o1 = (l', (elo o).2.1, (elo o).2.2) ∧ ehi o1 = (h', (ehi o).2.1, (ehi o).2.2) := by
  obtain ⟨_, _, _, _, k1, k2, k3, l1, l2, l3, _⟩ := hexEdgeFacts o ho
  by_cases e0 : t = a
  · have e1 : l' = (elo o).1 := by omega
    have e2 : h' = (ehi o).1 := by omega
    subst e0 e1 e2
    exact ⟨o, ho, hx, rfl, rfl⟩
  · by_cases e1 : t + 1 = a
    · obtain ⟨o1, ho1, hm, r1, r2⟩ := edge_move st hM ha hb hc ho ht hb hc (by decide : 1 ≤ 1) (by decide : 1 < 7)
        (show Compat 1 (elo o) by show (elo o).1 = 0; omega) (show Compat 1 (ehi o) by show (ehi o).1 = 0; omega)
        (show Nbr 1 a b c t b c from ⟨e1, rfl, rfl⟩) hx
      refine ⟨o1, ho1, hm, ?_, ?_⟩
      · obtain ⟨s1, s2, s3⟩ := r1
        exact Prod.ext (by simp only; omega) (Prod.ext (by simp only; omega) (by simp only; omega))
      · obtain ⟨s1, s2, s3⟩ := r2
        exact Prod.ext (by simp only; omega) (Prod.ext (by simp only; omega) (by simp only; omega))
    · have e2 : t = a + 1 := by omega
      obtain ⟨o1, ho1, hm, r1, r2⟩ := edge_move st hM ha hb hc ho ht hb hc (by decide : 1 ≤ 2) (by decide : 2 < 7)
        (show Compat 2 (elo o) by show (elo o).1 = 1; omega) (show Compat 2 (ehi o) by show (ehi o).1 = 1; omega)
        (show Nbr 2 a b c t b c from ⟨e2, rfl, rfl⟩) hx
      refine ⟨o1, ho1, hm, ?_, ?_⟩
      · obtain ⟨s1, s2, s3⟩ := r1
        exact Prod.ext (by simp only; omega) (Prod.ext (by simp only; omega) (by simp only; omega))
      · obtain ⟨s1, s2, s3⟩ := r2
        exact Prod.ext (by simp only; omega) (Prod.ext (by simp only; omega) (by simp only; omega))

theorem ecov_y (st : SameTopo (H3 nx ny nz) m)
    (hM : ∀ x, x ∈ M → x ≠ 0 → ∀ y, y ∈ gedge m x → y ∈ M) {a b c o t l' h' : Nat}
    (ha : a < nx) (hb : b < ny) (hc : c < nz) (ho : o < 24) (ht : t < ny) (hl : l' < 2) (hh : h' < 2)
    (el : t + l' = b + (elo o).2.1) (eh : t + h' = b + (ehi o).2.1)
    (hx : D3 nx ny a b c o ∈ M) :
    ∃ o1, o1 < 24 ∧ D3 nx ny a t c o1 ∈ M ∧ elo o1 = ((elo o).1, l', (elo o).2.2) ∧ ehi o1 = ((ehi o).1, h', (ehi o).2.2) := by
  obtain ⟨_, _, _, _, k1, k2, k3, l1, l2, l3, _⟩ := hexEdgeFacts o ho
  by_cases e0 : t = b
  · have e1 : l' = (elo o).2.1 := by omega
    have e2 : h' = (ehi o).2.1 := by omega
    subst e0 e1 e2
    exact ⟨o, ho, hx, rfl, rfl⟩
  · by_cases e1 : t + 1 = b
    · obtain ⟨o1, ho1, hm, r1, r2⟩ := edge_move st hM ha hb hc ho ha ht hc (by decide : 1 ≤ 3) (by decide : 3 < 7)
        (show Compat 3 (elo o) by show (elo o).2.1 = 0; omega) (show Compat 3 (ehi o) by show (ehi o).2.1 = 0; omega)
        (show Nbr 3 a b c a t c from ⟨rfl, e1, rfl⟩) hx
      refine ⟨o1, ho1, hm, ?_, ?_⟩
      · obtain ⟨s1, s2, s3⟩ := r1
        exact Prod.ext (by simp only; omega) (Prod.ext (by simp only; omega) (by simp only; omega))
      · obtain ⟨s1, s2, s3⟩ := r2
        exact Prod.ext (by simp only; omega) (Prod.ext (by simp only; omega) (by simp only; omega))
    · have e2 : t = b + 1 := by omega
      obtain ⟨o1, ho1, hm, r1, r2⟩ := edge_move st hM ha hb hc ho ha ht hc (by decide : 1 ≤ 4) (by decide : 4 < 7)
        (show Compat 4 (elo o) by show (elo o).2.1 = 1; omega) (show Compat 4 (ehi o) by show (ehi o).2.1 = 1; omega)
        (show Nbr 4 a b c a t c from ⟨rfl, e2, rfl⟩) hx
      refine ⟨o1, ho1, hm, ?_, ?_⟩
      · obtain ⟨s1, s2, s3⟩ := r1
        exact Prod.ext (by simp only; omega) (Prod.ext (by simp only; omega) (by simp only; omega))
      · obtain ⟨s1, s2, s3⟩ := r2
        exact Prod.ext (by simp only; omega) (Prod.ext (by simp only; omega) (by simp only; omega))

theorem ecov_z (st : SameTopo (H3 nx ny nz) m)
    (hM : ∀ x, x ∈ M → x ≠ 0 → ∀ y, y ∈ gedge m x → y ∈ M) {a b c o t l' h' : Nat}
    (ha : a < nx) (hb : b < ny) (hc : c < nz) (ho : o < 24) (ht : t < nz) (hl : l' < 2) (hh : h' < 2)
    (el : t + l' = c + (elo o).2.2) (eh : t + h' = c + (ehi o).2.2)
    (hx : D3 nx ny a b c o ∈ M) :
    ∃ o1, o1 < 24 ∧ D3 nx ny a b t o1 ∈ M ∧ elo o1 = ((elo o).1, (elo o).2.1, l') ∧ ehi o1 = ((ehi o).1, (ehi o).2.1, h') := by
  obtain ⟨_, _, _, _, k1, k2, k3, l1, l2, l3, _⟩ := hexEdgeFacts o ho
  by_cases e0 : t = c
  · have e1 : l' = (elo o).2.2 := by omega
    have e2 : h' = (ehi o).2.2 := by omega
    subst e0 e1 e2
    exact ⟨o, ho, hx, rfl, rfl⟩
  · by_cases e1 : t + 1 = c
    · obtain ⟨o1, ho1, hm, r1, r2⟩ := edge_move st hM ha hb hc ho ha hb ht (by decide : 1 ≤ 5) (by decide : 5 < 7)
        (show Compat 5 (elo o) by show (elo o).2.2 = 0; omega) (show Compat 5 (ehi o) by show (ehi o).2.2 = 0; omega)
        (show Nbr 5 a b c a b t from ⟨rfl, rfl, e1⟩) hx
      refine ⟨o1, ho1, hm, ?_, ?_⟩
      · obtain ⟨s1, s2, s3⟩ := r1
        exact Prod.ext (by simp only; omega) (Prod.ext (by simp only; omega) (by simp only; omega))
      · obtain ⟨s1, s2, s3⟩ := r2
        exact Prod.ext (by simp only; omega) (Prod.ext (by simp only; omega) (by simp only; omega))
    · have e2 : t = c + 1 := by omega
      obtain ⟨o1, ho1, hm, r1, r2⟩ := edge_move st hM ha hb hc ho ha hb ht (by decide : 1 ≤ 6) (by decide : 6 < 7)
        (show Compat 6 (elo o) by show (elo o).2.2 = 1; omega) (show Compat 6 (ehi o) by show (ehi o).2.2 = 1; omega)
        (show Nbr 6 a b c a b t from ⟨rfl, rfl, e2⟩) hx
      refine ⟨o1, ho1, hm, ?_, ?_⟩
      · obtain ⟨s1, s2, s3⟩ := r1
        exact Prod.ext (by simp only; omega) (Prod.ext (by simp only; omega) (by simp only; omega))
      · obtain ⟨s1, s2, s3⟩ := r2
        exact Prod.ext (by simp only; omega) (Prod.ext (by simp only; omega) (by simp only; omega))

/-- a closed set containing a dart contains every dart with the same geometric edge -/
theorem edge_reach (st : SameTopo (H3 nx ny nz) m)
    (hM : ∀ x, x ∈ M → x ≠ 0 → ∀ y, y ∈ gedge m x → y ∈ M) {a b c o a' b' c' o' : Nat}
    (ha : a < nx) (hb : b < ny) (hc : c < nz) (ho : o < 24) (ha' : a' < nx) (hb' : b' < ny)
    (hc' : c' < nz) (ho' : o' < 24) (hp : EK a' b' c' o' = EK a b c o)
    (hx : D3 nx ny a b c o ∈ M) : D3 nx ny a' b' c' o' ∈ M := by
  obtain ⟨_, _, _, _, k1, k2, k3, l1, l2, l3, _⟩ := hexEdgeFacts o' ho'
  unfold EK at hp
  simp only [Prod.mk.injEq] at hp
  obtain ⟨⟨p1, p2, p3⟩, ⟨r1, r2, r3⟩⟩ := hp
  obtain ⟨o1, ho1, m1, s1, t1⟩ := ecov_x st hM ha hb hc ho ha' (l' := (elo o').1) (h' := (ehi o').1)
    (by omega) (by omega) p1 r1 hx
  obtain ⟨o2, ho2, m2, s2, t2⟩ := ecov_y st hM ha' hb hc ho1 hb' (l' := (elo o').2.1) (h' := (ehi o').2.1)
    (by omega) (by omega) (by rw [s1]; exact p2) (by rw [t1]; exact r2) m1
  obtain ⟨o3, ho3, m3, s3, t3⟩ := ecov_z st hM ha' hb' hc ho2 hc' (l' := (elo o').2.2) (h' := (ehi o').2.2)
    (by omega) (by omega) (by rw [s2, s1]; exact p3) (by rw [t2, t1]; exact r3) m2
  refine edge_within st hM ha' hb' hc' ho3 ho' ?_ ?_ m3
  · rw [s3, s2, s1]
  · rw [t3, t2, t1]

/-! ## `edge_id` -/

/-- the darts of a geometric edge -/
def ecls (nx ny nz : Nat) (k : (Nat × Nat × Nat) × (Nat × Nat × Nat)) : List Nat :=
  (List.range (24 * nx * ny * nz + 1)).filter (fun x => decide (x ≠ 0 ∧ ek nx ny x = k))

theorem mem_ecls {k : (Nat × Nat × Nat) × (Nat × Nat × Nat)} {x : Nat} :
    x ∈ ecls nx ny nz k ↔ x < 24 * nx * ny * nz + 1 ∧ x ≠ 0 ∧ ek nx ny x = k := by
  simp [ecls]

/-- `edge_id d` (total) is the smallest dart of the geometric edge of `d` -/
theorem eid3_spec (hnx : 0 < nx) (hny : 0 < ny) (st : SameTopo (H3 nx ny nz) m) {d : Nat}
    (hd : IsD3 nx ny nz d) :
    eid3 m d ∈ ecls nx ny nz (ek nx ny d) ∧ ∀ y, y ∈ ecls nx ny nz (ek nx ny d) → eid3 m d ≤ y := by
  have wf : WF 4 m := (H3_wf nz hnx hny).sameTopo st
  have hn : m.n = 24 * nx * ny * nz + 1 := st.n
  obtain ⟨a0, b0, c0, o0, ha0, hb0, hc0, ho0, rfl⟩ := hd
  have hdn : D3 nx ny a0 b0 c0 o0 < m.n := by rw [hn]; exact D3_lt ha0 hb0 hc0 ho0
  have hd0 : D3 nx ny a0 b0 c0 o0 ≠ 0 := by
    have := D3_pos (nx := nx) (ny := ny) (a := a0) (b := b0) (c := c0) (o := o0); omega
  have hk0 := ek_D (c := c0) ha0 hb0 ho0
  have hclosed : ∀ x, x ∈ ecls nx ny nz (ek nx ny (D3 nx ny a0 b0 c0 o0)) → ∀ y, y ∈ gedge m x →
      y = 0 ∨ y ∈ ecls nx ny nz (ek nx ny (D3 nx ny a0 b0 c0 o0)) := by
    intro x hx y hy
    obtain ⟨hx1, hx2, hx3⟩ := mem_ecls.mp hx
    obtain ⟨a, b, c, o, ha, hb, hc, ho, rfl⟩ := isD3_of_range (d := x) (nz := nz) hnx hny (by omega) (by omega)
    rcases edge_closed st ha hb hc ho y hy with h | ⟨a', b', c', o', ha', hb', hc', ho', rfl, hp⟩
    · exact Or.inl h
    · right
      refine mem_ecls.mpr ⟨D3_lt ha' hb' hc' ho', ?_, ?_⟩
      · have := D3_pos (nx := nx) (ny := ny) (a := a') (b := b') (c := c') (o := o'); omega
      · rw [ek_D ha' hb' ho', hp, ← ek_D (c := c) ha hb ho, hx3]
  have hstart : D3 nx ny a0 b0 c0 o0 ∈ ecls nx ny nz (ek nx ny (D3 nx ny a0 b0 c0 o0)) :=
    mem_ecls.mpr ⟨D3_lt ha0 hb0 hc0 ho0, hd0, rfl⟩
  have h0S : 0 ∉ ecls nx ny nz (ek nx ny (D3 nx ny a0 b0 c0 o0)) := by
    intro h; exact (mem_ecls.mp h).2.1 rfl
  have hlen : (ecls nx ny nz (ek nx ny (D3 nx ny a0 b0 c0 o0))).length ≤ m.n := by
    unfold ecls
    have hl : (List.range (24 * nx * ny * nz + 1)).length = m.n := by rw [List.length_range, hn]
    exact Nat.le_trans (List.length_filter_le _ _) (Nat.le_of_eq hl)
  obtain ⟨v, M, hrun, hres⟩ := ppop_spec (gedge m) _ (D3 nx ny a0 b0 c0 o0) 2 (8 * m.n + 8) hstart h0S hclosed
    (by intro x; simp [gedge]) (by omega)
  have hv : eid3 m (D3 nx ny a0 b0 c0 o0) = v := by
    unfold eid3
    rw [run_edgeId3 wf hdn m.n, hrun]
    rfl
  rw [hv]
  obtain ⟨hvM, hv0, hvmin⟩ := hres.min hd0
  obtain ⟨hsub, hdM, hMcl, _⟩ := hres
  constructor
  · rcases hsub v hvM with h | h
    · exact absurd h hv0
    · exact h
  · intro y hy
    obtain ⟨hy1, hy2, hy3⟩ := mem_ecls.mp hy
    obtain ⟨a, b, c, o, ha, hb, hc, ho, rfl⟩ := isD3_of_range (d := y) (nz := nz) hnx hny (by omega) (by omega)
    apply hvmin _ _ hy2
    refine edge_reach st hMcl ha0 hb0 hc0 ho0 ha hb hc ho ?_ hdM
    rw [← ek_D (c := c) ha hb ho, hy3, hk0]

theorem eid3_same (hnx : 0 < nx) (hny : 0 < ny) (st : SameTopo (H3 nx ny nz) m) {d e : Nat}
    (hd : IsD3 nx ny nz d) (he : IsD3 nx ny nz e) (hp : ek nx ny d = ek nx ny e) : eid3 m d = eid3 m e := by
  obtain ⟨h1, h2⟩ := eid3_spec hnx hny st hd
  obtain ⟨h3, h4⟩ := eid3_spec hnx hny st he
  rw [hp] at h1 h2
  have := h2 _ h3
  have := h4 _ h1
  omega

theorem eid3_key (hnx : 0 < nx) (hny : 0 < ny) (st : SameTopo (H3 nx ny nz) m) {d : Nat}
    (hd : IsD3 nx ny nz d) : ek nx ny (eid3 m d) = ek nx ny d ∧ IsD3 nx ny nz (eid3 m d) := by
  obtain ⟨h1, _⟩ := eid3_spec hnx hny st hd
  obtain ⟨a, b, c⟩ := mem_ecls.mp h1
  exact ⟨c, isD3_of_range hnx hny (by omega) (by omega)⟩

theorem eid3_idem (hnx : 0 < nx) (hny : 0 < ny) (st : SameTopo (H3 nx ny nz) m) {d : Nat}
    (hd : IsD3 nx ny nz d) : eid3 m (eid3 m d) = eid3 m d := by
  obtain ⟨hp, hv⟩ := eid3_key hnx hny st hd
  exact (eid3_same hnx hny st hv hd hp)

/-! ## counting the edge identifiers -/

/-- a geometric edge of the `nx × ny × nz` lattice: lower end and upper end one step along an axis -/
def VK (nx ny nz : Nat) (k : (Nat × Nat × Nat) × (Nat × Nat × Nat)) : Prop :=
  (k.2 = (k.1.1 + 1, k.1.2.1, k.1.2.2) ∧ k.1.1 < nx ∧ k.1.2.1 ≤ ny ∧ k.1.2.2 ≤ nz) ∨
  (k.2 = (k.1.1, k.1.2.1 + 1, k.1.2.2) ∧ k.1.1 ≤ nx ∧ k.1.2.1 < ny ∧ k.1.2.2 ≤ nz) ∨
  (k.2 = (k.1.1, k.1.2.1, k.1.2.2 + 1) ∧ k.1.1 ≤ nx ∧ k.1.2.1 ≤ ny ∧ k.1.2.2 < nz)

/-- coding of the geometric edges by one number: x-edges, then y-edges, then z-edges -/
def kcode (nx ny nz : Nat) (k : (Nat × Nat × Nat) × (Nat × Nat × Nat)) : Nat :=
  if k.2.1 ≠ k.1.1 then cellIdx nx (ny + 1) k.1.1 k.1.2.1 k.1.2.2
  else if k.2.2.1 ≠ k.1.2.1 then nx * (ny + 1) * (nz + 1) + cellIdx (nx + 1) ny k.1.1 k.1.2.1 k.1.2.2
  else nx * (ny + 1) * (nz + 1) + (nx + 1) * ny * (nz + 1) + cellIdx (nx + 1) (ny + 1) k.1.1 k.1.2.1 k.1.2.2

theorem vk_EK {a b c o : Nat} (ha : a < nx) (hb : b < ny) (hc : c < nz) (ho : o < 24) :
    VK nx ny nz (EK a b c o) := by
  obtain ⟨_, _, _, _, k1, k2, k3, l1, l2, l3, s⟩ := hexEdgeFacts o ho
  unfold VK EK
  simp only [Prod.mk.injEq]
  by_cases h1 : (ehi o).1 = (elo o).1 + 1
  · left; exact ⟨⟨by omega, by omega, by omega⟩, by omega, by omega, by omega⟩
  · by_cases h2 : (ehi o).2.1 = (elo o).2.1 + 1
    · right; left; exact ⟨⟨by omega, by omega, by omega⟩, by omega, by omega, by omega⟩
    · right; right; exact ⟨⟨by omega, by omega, by omega⟩, by omega, by omega, by omega⟩

theorem kcode_lt {k : (Nat × Nat × Nat) × (Nat × Nat × Nat)} (h : VK nx ny nz k) :
    kcode nx ny nz k < nx * (ny + 1) * (nz + 1) + (nx + 1) * ny * (nz + 1) + (nx + 1) * (ny + 1) * nz := by
  obtain ⟨⟨i, j, l⟩, ⟨i2, j2, l2⟩⟩ := k
  unfold kcode
  rcases h with ⟨e, h1, h2, h3⟩ | ⟨e, h1, h2, h3⟩ | ⟨e, h1, h2, h3⟩ <;> simp only [Prod.mk.injEq] at e h1 h2 h3 <;>
    obtain ⟨e1, e2, e3⟩ := e <;> subst i2 j2 l2 <;> simp only
  · have := cellIdx_lt (nx := nx) (ny := ny + 1) (nz := nz + 1) (ix := i) (iy := j) (iz := l) h1 (by omega) (by omega)
    simp; omega
  · have := cellIdx_lt (nx := nx + 1) (ny := ny) (nz := nz + 1) (ix := i) (iy := j) (iz := l) (by omega) h2 (by omega)
    simp; omega
  · have := cellIdx_lt (nx := nx + 1) (ny := ny + 1) (nz := nz) (ix := i) (iy := j) (iz := l) (by omega) (by omega) h3
    simp; omega

theorem cellIdx_inj3 {n1 n2 i j l i' j' l' : Nat} (hi : i < n1) (hj : j < n2) (hi' : i' < n1) (hj' : j' < n2)
    (h : cellIdx n1 n2 i j l = cellIdx n1 n2 i' j' l') : i = i' ∧ j = j' ∧ l = l' := by
  refine ⟨?_, ?_, ?_⟩
  · rw [← cellIdx_x (ny := n2) (iy := j) (iz := l) hi, h, cellIdx_x hi']
  · rw [← cellIdx_y (iz := l) hi hj, h, cellIdx_y hi' hj']
  · rw [← cellIdx_z (iz := l) hi hj, h, cellIdx_z hi' hj']

theorem kcode_inj {k k' : (Nat × Nat × Nat) × (Nat × Nat × Nat)} (h : VK nx ny nz k) (h' : VK nx ny nz k')
    (e : kcode nx ny nz k = kcode nx ny nz k') : k = k' := by
  obtain ⟨⟨i, j, l⟩, ⟨i2, j2, l2⟩⟩ := k
  obtain ⟨⟨i', j', l'⟩, ⟨i2', j2', l2'⟩⟩ := k'
  unfold kcode at e
  rcases h with ⟨q, h1, h2, h3⟩ | ⟨q, h1, h2, h3⟩ | ⟨q, h1, h2, h3⟩ <;>
    rcases h' with ⟨q', h1', h2', h3'⟩ | ⟨q', h1', h2', h3'⟩ | ⟨q', h1', h2', h3'⟩ <;>
    simp only [Prod.mk.injEq] at q q' h1 h2 h3 h1' h2' h3' <;>
    obtain ⟨e1, e2, e3⟩ := q <;> obtain ⟨e1', e2', e3'⟩ := q' <;> subst i2 j2 l2 i2' j2' l2' <;>
    simp only at e
  · simp at e
    obtain ⟨a, b, c⟩ := cellIdx_inj3 (n1 := nx) (n2 := ny + 1) h1 (by omega) h1' (by omega) e
    subst a b c; rfl
  · have := cellIdx_lt (nx := nx) (ny := ny + 1) (nz := nz + 1) (ix := i) (iy := j) (iz := l) h1 (by omega) (by omega)
    simp at e; omega
  · have := cellIdx_lt (nx := nx) (ny := ny + 1) (nz := nz + 1) (ix := i) (iy := j) (iz := l) h1 (by omega) (by omega)
    simp at e; omega
  · have := cellIdx_lt (nx := nx) (ny := ny + 1) (nz := nz + 1) (ix := i') (iy := j') (iz := l') h1' (by omega) (by omega)
    simp at e; omega
  · simp at e
    obtain ⟨a, b, c⟩ := cellIdx_inj3 (n1 := nx + 1) (n2 := ny) (by omega) h2 (by omega) h2' e
    subst a b c; rfl
  · have := cellIdx_lt (nx := nx + 1) (ny := ny) (nz := nz + 1) (ix := i) (iy := j) (iz := l) (by omega) h2 (by omega)
    simp at e; omega
  · have := cellIdx_lt (nx := nx) (ny := ny + 1) (nz := nz + 1) (ix := i') (iy := j') (iz := l') h1' (by omega) (by omega)
    simp at e; omega
  · have := cellIdx_lt (nx := nx + 1) (ny := ny) (nz := nz + 1) (ix := i') (iy := j') (iz := l') (by omega) h2' (by omega)
    simp at e; omega
  · simp at e
    obtain ⟨a, b, c⟩ := cellIdx_inj3 (n1 := nx + 1) (n2 := ny + 1) (by omega) (by omega) (by omega) (by omega) e
    subst a b c; rfl

/-- every index below the count is the code of a geometric edge -/
theorem kcode_surj (hnx : 0 < nx) (hny : 0 < ny) {t : Nat}
    (ht : t < nx * (ny + 1) * (nz + 1) + (nx + 1) * ny * (nz + 1) + (nx + 1) * (ny + 1) * nz) :
    ∃ k, VK nx ny nz k ∧ kcode nx ny nz k = t := by
  have dec : ∀ n1 n2 n3 s, 0 < n1 → 0 < n2 → s < n1 * n2 * n3 →
      ∃ i j l, i < n1 ∧ j < n2 ∧ l < n3 ∧ cellIdx n1 n2 i j l = s := by
    intro n1 n2 n3 s h1 h2 hs
    obtain ⟨i, j, l, o, hi, hj, hl, ho, e⟩ := decode (K := 1) (nx := n1) (ny := n2) (nz := n3) (d := s + 1)
      (by decide) h1 h2 (by omega) (by omega)
    refine ⟨i, j, l, hi, hj, hl, ?_⟩
    unfold dartOf at e; omega
  by_cases c1 : t < nx * (ny + 1) * (nz + 1)
  · obtain ⟨i, j, l, hi, hj, hl, e⟩ := dec nx (ny + 1) (nz + 1) t hnx (by omega) c1
    refine ⟨((i, j, l), (i + 1, j, l)), Or.inl ⟨rfl, hi, by simp only; omega, by simp only; omega⟩, ?_⟩
    unfold kcode; simp [e]
  · by_cases c2 : t < nx * (ny + 1) * (nz + 1) + (nx + 1) * ny * (nz + 1)
    · obtain ⟨i, j, l, hi, hj, hl, e⟩ := dec (nx + 1) ny (nz + 1) (t - nx * (ny + 1) * (nz + 1)) (by omega) hny
        (by omega)
      refine ⟨((i, j, l), (i, j + 1, l)), Or.inr (Or.inl ⟨rfl, by simp only; omega, hj, by simp only; omega⟩), ?_⟩
      unfold kcode; simp [e]; omega
    · obtain ⟨i, j, l, hi, hj, hl, e⟩ := dec (nx + 1) (ny + 1) nz
        (t - (nx * (ny + 1) * (nz + 1) + (nx + 1) * ny * (nz + 1))) (by omega) (by omega) (by omega)
      refine ⟨((i, j, l), (i, j, l + 1)), Or.inr (Or.inr ⟨rfl, by simp only; omega, by simp only; omega, hl⟩), ?_⟩
      unfold kcode; simp [e]; omega

/-- every geometric edge is run by some dart -/
theorem dart_of_key (hnx : 0 < nx) (hny : 0 < ny) (hnz : 0 < nz) {k : (Nat × Nat × Nat) × (Nat × Nat × Nat)}
    (h : VK nx ny nz k) : ∃ d, IsD3 nx ny nz d ∧ ek nx ny d = k := by
  have key : ∀ n x, 0 < n → x ≤ n → ∃ a κ, a < n ∧ κ < 2 ∧ a + κ = x := by
    intro n x hn hx
    by_cases h : x < n
    · exact ⟨x, 0, h, by decide, rfl⟩
    · exact ⟨n - 1, 1, by omega, by decide, by omega⟩
  obtain ⟨⟨i, j, l⟩, hi⟩ := k
  have pick : ∀ ax, ax < 3 → ∀ k1, k1 < 2 → ∀ k2, k2 < 2 → ∃ o, o < 24 ∧
      (ax = 0 → elo o = (0, k1, k2) ∧ ehi o = (1, k1, k2)) ∧
      (ax = 1 → elo o = (k1, 0, k2) ∧ ehi o = (k1, 1, k2)) ∧
      (ax = 2 → elo o = (k1, k2, 0) ∧ ehi o = (k1, k2, 1)) := by
    intro ax hax k1 hk1 k2 hk2
    have := hexEdgeExists ax hax k1 hk1 k2 hk2
    rw [List.any_eq_true] at this
    obtain ⟨o, ho, h⟩ := this
    refine ⟨o, List.mem_range.mp ho, ?_⟩
    simp only [decide_eq_true_eq] at h
    exact h
  rcases h with ⟨e, h1, h2, h3⟩ | ⟨e, h1, h2, h3⟩ | ⟨e, h1, h2, h3⟩ <;> simp only at e h1 h2 h3 <;> subst e
  · obtain ⟨b, κ1, hb, hκ1, e1⟩ := key ny j hny h2
    obtain ⟨c, κ2, hc, hκ2, e2⟩ := key nz l hnz h3
    obtain ⟨o, ho, p0, _, _⟩ := pick 0 (by decide) κ1 hκ1 κ2 hκ2
    obtain ⟨q1, q2⟩ := p0 rfl
    refine ⟨D3 nx ny i b c o, ⟨i, b, c, o, h1, hb, hc, ho, rfl⟩, ?_⟩
    rw [ek_D h1 hb ho]; unfold EK; rw [q1, q2]; simp only [Nat.add_zero]; rw [e1, e2]
  · obtain ⟨a, κ1, ha, hκ1, e1⟩ := key nx i hnx h1
    obtain ⟨c, κ2, hc, hκ2, e2⟩ := key nz l hnz h3
    obtain ⟨o, ho, _, p1, _⟩ := pick 1 (by decide) κ1 hκ1 κ2 hκ2
    obtain ⟨q1, q2⟩ := p1 rfl
    refine ⟨D3 nx ny a j c o, ⟨a, j, c, o, ha, h2, hc, ho, rfl⟩, ?_⟩
    rw [ek_D ha h2 ho]; unfold EK; rw [q1, q2]; simp only [Nat.add_zero]; rw [e1, e2]
  · obtain ⟨a, κ1, ha, hκ1, e1⟩ := key nx i hnx h1
    obtain ⟨b, κ2, hb, hκ2, e2⟩ := key ny j hny h2
    obtain ⟨o, ho, _, _, p2⟩ := pick 2 (by decide) κ1 hκ1 κ2 hκ2
    obtain ⟨q1, q2⟩ := p2 rfl
    refine ⟨D3 nx ny a b l o, ⟨a, b, l, o, ha, hb, h3, ho, rfl⟩, ?_⟩
    rw [ek_D ha hb ho]; unfold EK; rw [q1, q2]; simp only [Nat.add_zero]; rw [e1, e2]

/-- `iter_edges` yields one identifier per geometric edge -/
theorem iterEdges_length (hnx : 0 < nx) (hny : 0 < ny) (hnz : 0 < nz) (st : SameTopo (H3 nx ny nz) m) :
    (iterEdges3 m).length =
      nx * (ny + 1) * (nz + 1) + (nx + 1) * ny * (nz + 1) + (nx + 1) * (ny + 1) * nz := by
  have hn : m.n = 24 * nx * ny * nz + 1 := st.n
  unfold iterEdges3 iterCells
  have hcongr : (List.range m.n).filter (fun d => decide (d ≠ 0 ∧ (!m.unused d) = true ∧
        okVal (run (edgeId3 m.n d) m) 0 = d)) =
      (List.range m.n).filter (fun d => decide (d ≠ 0 ∧ eid3 m d = d)) := by
    apply List.filter_congr
    intro d hd
    have hu : m.unused d = false := by rw [st.unused]; exact gridMap_unused _ _ _ _
    rw [decide_eq_decide]
    simp [hu, eid3]
  rw [hcongr]
  have vk : ∀ x, IsD3 nx ny nz x → VK nx ny nz (ek nx ny x) := by
    rintro x ⟨a, b, c, o, ha, hb, hc, ho, rfl⟩
    rw [ek_D ha hb ho]; exact vk_EK ha hb hc ho
  apply length_filter_bij m.n _ _ (fun d => kcode nx ny nz (ek nx ny d))
  · intro x hx px y hy py h
    simp only [ne_eq, decide_eq_true_eq] at px py
    have dx : IsD3 nx ny nz x := isD3_of_range hnx hny (by omega) (by omega)
    have dy : IsD3 nx ny nz y := isD3_of_range hnx hny (by omega) (by omega)
    have hk := kcode_inj (vk x dx) (vk y dy) h
    have := eid3_same hnx hny st dx dy hk
    rw [px.2, py.2] at this
    exact this
  · intro x hx px
    simp only [ne_eq, decide_eq_true_eq] at px
    exact kcode_lt (vk x (isD3_of_range hnx hny (by omega) (by omega)))
  · intro t ht
    obtain ⟨k, hk, rfl⟩ := kcode_surj (nz := nz) hnx hny ht
    obtain ⟨d, hd, hp⟩ := dart_of_key hnx hny hnz hk
    obtain ⟨hkey, hv⟩ := eid3_key hnx hny st hd
    obtain ⟨a, b, c, o, ha, hb, hc, ho, e⟩ := hv
    refine ⟨eid3 m d, ?_, ?_, ?_⟩
    · rw [e, hn]; exact D3_lt ha hb hc ho
    · simp only [ne_eq, decide_eq_true_eq]
      refine ⟨?_, eid3_idem hnx hny st hd⟩
      rw [e]
      have := D3_pos (nx := nx) (ny := ny) (a := a) (b := b) (c := c) (o := o)
      omega
    · show kcode nx ny nz (ek nx ny (eid3 m d)) = kcode nx ny nz k
      rw [hkey, hp]

end HC.Grid3Edge
