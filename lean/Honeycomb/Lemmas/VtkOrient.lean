/-
  C11: the orientation test of `two_sew` passes for a side between two DIFFERENT points seen from the
  two cells that share it (the only place where C11 needs ordered-field reasoning).
-/
import Honeycomb.Model.Val
import Mathlib.Tactic.Linarith
import Mathlib.Tactic.Positivity
import Mathlib.Algebra.Order.Field.Rat
namespace HC
theorem badOrient_opposite {x y x' y' : Rat} (h : x ≠ x' ∨ y ≠ y') :
    badOrientVal (.pt x y 0) (.pt x y 0) (.pt x' y' 0) (.pt x' y' 0) = false := by
  simp only [badOrientVal, dot3, decide_eq_false_iff_not, ge_iff_le, not_le]
  rcases h with h | h
  · have h1 : 0 < (x - x') * (x - x') := mul_self_pos.2 (sub_ne_zero.2 h)
    have h2 : 0 ≤ (y - y') * (y - y') := mul_self_nonneg _
    nlinarith
  · have h1 : 0 < (y - y') * (y - y') := mul_self_pos.2 (sub_ne_zero.2 h)
    have h2 : 0 ≤ (x - x') * (x - x') := mul_self_nonneg _
    nlinarith
end HC
