/-
  Allocation (`add_free_dart(s)`, `insert_free_dart`, `remove_free_dart(_transac)`) and
  well-formedness / counters.
-/
import Honeycomb.Lemmas.WFLink

set_option linter.unusedSimpArgs false

namespace HC
variable {X : Type}

theorem rd_map {α β : Type} [Inhabited α] [Inhabited β] (a : Array α) (f : α → β) (i : Nat)
    (h : i < a.size) : rd (a.map f) i = f (rd a i) := by
  unfold rd
  simp [Array.getD_eq_getD_getElem?, h]

theorem addFreeDarts_n (m : Map X) (k : Nat) : (m.addFreeDarts k).2.n = m.n + k := rfl
theorem addFreeDarts_fst (m : Map X) (k : Nat) : (m.addFreeDarts k).1 = m.n := rfl

theorem addFreeDarts_β {nb : Nat} {m : Map X} (h : Sized nb m) (k i d : Nat) (hi : i < nb) :
    (m.addFreeDarts k).2.β i d = if d < m.n then m.β i d else 0 := by
  unfold Map.addFreeDarts Map.β
  simp only
  rw [rd_map _ _ _ (by rw [h.rows]; exact hi)]
  have hs := h.row i hi
  split
  · rename_i hd; exact rd_ext_lt _ _ _ _ (by omega)
  · rename_i hd
    by_cases h2 : d < m.n + k
    · exact rd_ext_ge _ _ _ _ (by omega) (by omega)
    · rw [rd_oob]; rfl; rw [size_ext]; omega

theorem addFreeDarts_unused {nb : Nat} {m : Map X} (h : Sized nb m) (k d : Nat) :
    (m.addFreeDarts k).2.unused d = if d < m.n then m.unused d else false := by
  unfold Map.addFreeDarts Map.unused
  simp only
  have hs := h.usz
  split
  · rename_i hd; exact rd_ext_lt _ _ _ _ (by omega)
  · rename_i hd
    by_cases h2 : d < m.n + k
    · exact rd_ext_ge _ _ _ _ (by omega) (by omega)
    · rw [rd_oob]; rfl; rw [size_ext]; omega

theorem Sized.addFreeDarts {nb : Nat} {m : Map X} (h : Sized nb m) (k : Nat) :
    Sized nb (m.addFreeDarts k).2 := by
  refine ⟨?_, ?_, ?_, ?_, ?_⟩
  · show 0 < m.n + k; have := h.npos; omega
  · simp [Map.addFreeDarts, h.rows]
  · intro i hi
    show (rd (m.b.map (fun row => ext row k 0)) i).size = m.n + k
    rw [rd_map _ _ _ (by rw [h.rows]; exact hi), size_ext, h.row i hi]
  · show (ext m.u k false).size = m.n + k
    rw [size_ext, h.usz]
  · intro s hs
    have hs' : s < m.a.size := by simpa [Map.addFreeDarts] using hs
    show m.n + k ≤ (rd (m.a.map (fun st => ext st k (none : Option X))) s).size
    rw [rd_map _ _ _ hs', size_ext]
    have := h.asz s hs'; omega

/-- `add_free_darts` keeps the map well-formed; the new darts are free and in use -/
theorem WF.addFreeDarts {nb : Nat} {m : Map X} (h : WF nb m) (hnb : 2 ≤ nb) (k : Nat) :
    WF nb (m.addFreeDarts k).2 := by
  have hs := h.toSized
  refine ⟨hs.addFreeDarts k, ?_⟩
  have eβ := fun i d (hi : i < nb) => addFreeDarts_β hs k i d hi
  have eu := addFreeDarts_unused hs k
  have hn : (m.addFreeDarts k).2.n = m.n + k := rfl
  have hpos := hs.npos
  have h0 : 0 < nb := by omega
  have h1 : 1 < nb := by omega
  constructor
  · intro i hi; rw [eβ i 0 hi]; simp [hpos]; exact h.null i hi
  · intro i hi d hd
    rw [eβ i d hi, hn]
    split
    · rename_i hd'; have := h.range i hi d hd'; omega
    · omega
  · intro d _
    rw [eβ 1 d h1]
    by_cases hd : d < m.n
    · simp only [hd, if_true]
      intro hne
      rw [eβ 0 _ h0]
      simp [h.range 1 h1 d hd, h.inv01 d hd hne]
    · simp [hd]
  · intro d _
    rw [eβ 0 d h0]
    by_cases hd : d < m.n
    · simp only [hd, if_true]
      intro hne
      rw [eβ 1 _ h1]
      simp [h.range 0 h0 d hd, h.inv10 d hd hne]
    · simp [hd]
  · intro i hi h2 d _
    rw [eβ i d hi]
    by_cases hd : d < m.n
    · simp only [hd, if_true]
      intro hne
      rw [eβ i _ hi]
      simp only [h.range i hi d hd, if_true]
      exact h.invol i hi h2 d hd hne
    · simp [hd]
  · intro d _ hud i hi
    rw [eβ i d hi]
    rw [eu] at hud
    by_cases hd : d < m.n
    · simp only [hd, if_true] at hud ⊢
      exact h.unusedFree d hd hud i hi
    · simp [hd]

/-! ### insert_free_dart -/

theorem firstUnused_some {u : Array Bool} {d : Nat} (h : firstUnused u = some d) :
    d < u.size ∧ rd u d = true := by
  unfold firstUnused at h
  have := List.find?_some h
  have hm := List.mem_of_find?_eq_some h
  simp at hm
  exact ⟨hm, by simpa using this⟩

theorem Sized.unused_setU {nb : Nat} {m : Map X} (h : Sized nb m) {d : Nat} (hd : d < m.n) (v : Bool) (e : Nat) :
    (m.setU d v).unused e = if d = e then v else m.unused e := by
  rw [Map.unused_setU]
  have : m.okU d = true := (h.okU d).2 hd
  simp [this]

/-- clearing or setting a flag of a *free* dart keeps the map well-formed -/
theorem WF.setU_free {nb : Nat} {m : Map X} (h : WF nb m) {d : Nat} (hd : d < m.n) (v : Bool)
    (hfree : ∀ i, i < nb → m.β i d = 0) : WF nb (m.setU d v) := by
  refine ⟨h.toSized.setU d v, ?_⟩
  have eu := h.toSized.unused_setU hd v
  constructor
  · exact h.null
  · exact h.range
  · exact h.inv01
  · exact h.inv10
  · exact h.invol
  · intro e he hue i hi
    show m.β i e = 0
    rw [eu] at hue
    by_cases hde : d = e
    · subst hde; exact hfree i hi
    · simp only [hde, if_false] at hue
      exact h.unusedFree e he hue i hi

theorem WF.insertFreeDart {nb : Nat} {m : Map X} (h : WF nb m) (hnb : 2 ≤ nb) : WF nb m.insertFreeDart.2 := by
  unfold Map.insertFreeDart
  split
  · rename_i d hd
    obtain ⟨hlt, hu⟩ := firstUnused_some hd
    rw [h.usz] at hlt
    exact h.setU_free hlt false (fun i hi => h.unusedFree d hlt hu i hi)
  · exact h.addFreeDarts hnb 1

/-! ### remove_free_dart -/

theorem isFree_iff (m : Map X) (nb d : Nat) : m.isFree nb d = true ↔ ∀ i, i < nb → m.β i d = 0 := by
  unfold Map.isFree
  simp [List.all_eq_true]

theorem run_removeFreeDartTx (m : Map X) (d : Nat) :
    run (removeFreeDartTx (X := X) d) m =
      if m.okU d then (.ok (m.unused d), m.setU d true) else (.panic, m) := by
  unfold removeFreeDartTx
  simp only [Prog.bind_eq, bind, run_rU, run_wU, Prog.pure_eq, run_ret]
  split <;> rfl

theorem WF.removeFreeDart {nb : Nat} {m : Map X} (h : WF nb m) (d : Nat) :
    WF nb (m.removeFreeDart nb d).2 := by
  unfold Map.removeFreeDart
  split
  · rename_i hd
    split
    · rename_i hfree
      have hfree' := (isFree_iff m nb d).1 hfree
      have hw := h.setU_free hd true hfree'
      unfold atomically
      rw [run_removeFreeDartTx]
      have : m.okU d = true := (h.toSized.okU d).2 hd
      simp only [this, if_true]
      cases m.unused d <;> exact hw
    · exact h
  · exact h

end HC
