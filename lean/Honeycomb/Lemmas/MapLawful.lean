/-
  The map state is a lawful store: T1/T2/composition of `StmThy.lean` apply to every
  transactional closure over a `Map`.
-/
import Honeycomb.Model.Map
import Honeycomb.Lemmas.StmThy

namespace HC
open Store
variable {X : Type}

instance : LawfulStore (Map X) MVar (MVal X) where
  sget_sset := by
    intro m v w x hv ht
    cases v with
    | b i d =>
        cases x with
        | n y =>
            cases w with
            | b j e =>
                simp only [sget, sset, Map.β_setβ]
                have : m.okβ i d = true := hv
                by_cases h : i = j ∧ d = e
                · obtain ⟨h1, h2⟩ := h; subst h1; subst h2; simp [this]
                · have h2 : ¬ (MVar.b i d = MVar.b j e) := by
                    intro hh; injection hh with h1 h2; exact h ⟨h1, h2⟩
                  have h3 : ¬ (i = j ∧ d = e ∧ m.okβ i d = true) := fun hh => h ⟨hh.1, hh.2.1⟩
                  simp [h2, h3]
            | u e => simp [sget, sset, Map.unused_setβ]
            | a s e => simp [sget, sset, Map.att_setβ]
            | fc => simp [sget, sset, Map.setβ]
        | f y => simp [styped] at ht
        | o y => simp [styped] at ht
    | u d =>
        cases x with
        | f y =>
            cases w with
            | b j e => simp [sget, sset, Map.β_setU]
            | u e =>
                simp only [sget, sset, Map.unused_setU]
                have : m.okU d = true := hv
                by_cases h : d = e
                · subst h; simp [this]
                · have h2 : ¬ (MVar.u d = MVar.u e) := by
                    intro hh; injection hh with h1; exact h h1
                  simp [h2, h]
            | a s e => simp [sget, sset, Map.att_setU]
            | fc => simp [sget, sset, Map.setU]
        | n y => simp [styped] at ht
        | o y => simp [styped] at ht
    | a s d =>
        cases x with
        | o y =>
            cases w with
            | b j e => simp [sget, sset, Map.β_setA]
            | u e => simp [sget, sset, Map.unused_setA]
            | a t e =>
                simp only [sget, sset, Map.att_setA]
                have : m.okA s d = true := hv
                by_cases h : s = t ∧ d = e
                · obtain ⟨h1, h2⟩ := h; subst h1; subst h2; simp [this]
                · have h2 : ¬ (MVar.a s d = MVar.a t e) := by
                    intro hh; injection hh with h1 h2; exact h ⟨h1, h2⟩
                  have h3 : ¬ (s = t ∧ d = e ∧ m.okA s d = true) := fun hh => h ⟨hh.1, hh.2.1⟩
                  simp [h2, h3]
            | fc => simp [sget, sset, Map.setA]
        | n y => simp [styped] at ht
        | f y => simp [styped] at ht
    | fc =>
        cases x with
        | n y =>
            cases w with
            | b j e => simp [sget, sset, Map.β]
            | u e => simp [sget, sset, Map.unused]
            | a t e => simp [sget, sset, Map.att]
            | fc => simp [sget, sset]
        | f y => simp [styped] at ht
        | o y => simp [styped] at ht
  svalid_sset := by
    intro m v w x
    cases v <;> cases x <;> cases w <;>
      simp [svalid, sset, Map.okβ_setβ, Map.okU_setβ, Map.okA_setβ, Map.okβ_setU, Map.okU_setU,
        Map.okA_setU, Map.okβ_setA, Map.okU_setA, Map.okA_setA] <;> rfl
  styped_sset := by
    intro m v w x y
    rfl
  styped_sget := by
    intro m v _
    cases v <;> rfl

end HC
