/-
  What `AttrSparseVec::merge/split` and `AttrStorageManager::merge_attributes/split_attributes`
  do to the storages, as pure functions of the state (no fault injection: `fc = 0`).
-/
import Honeycomb.Lemmas.Run

set_option linter.unusedSimpArgs false

namespace HC
variable {X : Type}

/-- writes of a successful merge, in program order: `rhs := None; lhs := None; out := Some v` -/
def Map.mergeAt (m : Map X) (s out l r : Nat) (v : X) : Map X :=
  ((m.setA s r none).setA s l none).setA s out (some v)

/-- writes of a successful split: `inp := None; lhs_out := Some a; rhs_out := Some b` -/
def Map.splitAt (m : Map X) (s lo ro inp : Nat) (a b : X) : Map X :=
  ((m.setA s inp none).setA s lo (some a)).setA s ro (some b)

/-- writes of a merge whose two inputs coincide / a split whose two outputs coincide:
    `src := None; dst := old value of src` -/
def Map.moveAt (m : Map X) (s dst src : Nat) : Map X :=
  (m.setA s src none).setA s dst (m.att s src)

theorem lawCall_run_fc0 {Y : Type} (t : Bool) (e : Err) (r : Except Err Y) (m : Map X) (h : m.fc = 0) :
    run (lawCall (X := X) t e r) m = match r with
      | .ok y => (.ok y, m)
      | .error e' => (.err e', m) := by
  unfold lawCall
  cases t
  · cases r <;> rfl
  · simp only [if_true, Prog.bind_eq, run_rF, h]
    simp only [show ¬ ((0 : Nat) = 1) by omega, show ¬ ((0 : Nat) > 1) by omega, if_false]
    cases r <;> rfl

theorem mergeS_run_move (cfg : Cfg X) (s out l : Nat) (m : Map X)
    (hl : m.okA s l = true) (ho : m.okA s out = true) :
    run (mergeS cfg s out l l) m = (.ok (), m.moveAt s out l) := by
  unfold mergeS
  simp only [if_true, Prog.bind_eq, bind, run_rA, hl, run_wA, run_wA', Map.okA_setA, ho]
  rfl

theorem mergeS_run (cfg : Cfg X) (s out l r : Nat) (m : Map X) (hfc : m.fc = 0) (hlr : l ≠ r)
    (hl : m.okA s l = true) (hr : m.okA s r = true) (ho : m.okA s out = true) :
    run (mergeS cfg s out l r) m =
      match mergeVal (cfg.law s) (m.att s l) (m.att s r) with
      | .ok v => (.ok (), m.mergeAt s out l r v)
      | .error e => (.err e, m) := by
  unfold mergeS
  simp only [hlr, if_false, Prog.bind_eq, bind, run_rA, hl, hr, if_true]
  rw [run_bind, lawCall_run_fc0 _ _ _ _ hfc]
  cases mergeVal (cfg.law s) (m.att s l) (m.att s r) with
  | error e => rfl
  | ok v =>
      simp only [run_wA, run_wA', hr, hl, ho, if_true, Map.okA_setA]
      rfl

theorem splitS_run_move (cfg : Cfg X) (s lo inp : Nat) (m : Map X)
    (hi : m.okA s inp = true) (hl : m.okA s lo = true) :
    run (splitS cfg s lo lo inp) m = (.ok (), m.moveAt s lo inp) := by
  unfold splitS
  simp only [if_true, Prog.bind_eq, bind, run_rA, hi, run_wA, run_wA', Map.okA_setA, hl]
  rfl

theorem splitS_run (cfg : Cfg X) (s lo ro inp : Nat) (m : Map X) (hfc : m.fc = 0) (hlr : lo ≠ ro)
    (hi : m.okA s inp = true) (hl : m.okA s lo = true) (hr : m.okA s ro = true) :
    run (splitS cfg s lo ro inp) m =
      match splitVal (cfg.law s) (m.att s inp) with
      | .ok (a, b) => (.ok (), m.splitAt s lo ro inp a b)
      | .error e => (.err e, m) := by
  unfold splitS
  simp only [hlr, if_false, Prog.bind_eq, bind, run_rA, hi, if_true]
  rw [run_bind, lawCall_run_fc0 _ _ _ _ hfc]
  cases splitVal (cfg.law s) (m.att s inp) with
  | error e => rfl
  | ok ab =>
      obtain ⟨a, b⟩ := ab
      simp only [run_wA, run_wA', hi, hl, hr, if_true, Map.okA_setA]
      rfl

/-- a merge that does not panic accessed valid slots -/
theorem mergeS_ok_okA (cfg : Cfg X) (s out l r : Nat) (m m' : Map X) (u : Unit) (hfc : m.fc = 0)
    (h : run (mergeS cfg s out l r) m = (.ok u, m')) :
    m.okA s l = true ∧ m.okA s r = true ∧ m.okA s out = true := by
  unfold mergeS at h
  by_cases hlr : l = r
  · subst hlr
    simp only [if_true, Prog.bind_eq, bind, run_rA, run_wA, run_wA', Map.okA_setA] at h
    by_cases hl : m.okA s l = true
    · simp only [hl, if_true] at h
      by_cases ho : m.okA s out = true
      · exact ⟨hl, hl, ho⟩
      · simp [ho] at h
    · simp [hl] at h
  simp only [hlr, if_false, Prog.bind_eq, bind, run_rA] at h
  by_cases hl : m.okA s l = true
  · simp only [hl, if_true] at h
    by_cases hr : m.okA s r = true
    · simp only [hr, if_true] at h
      refine ⟨hl, hr, ?_⟩
      rw [run_bind, lawCall_run_fc0 _ _ _ _ hfc] at h
      cases hv : mergeVal (cfg.law s) (m.att s l) (m.att s r) with
      | error e => rw [hv] at h; simp at h
      | ok v =>
          rw [hv] at h
          simp only [run_wA, run_wA', hr, hl, if_true, Map.okA_setA] at h
          by_cases ho : m.okA s out = true
          · exact ho
          · simp [ho] at h
    · simp [hr] at h
  · simp [hl] at h

theorem splitS_ok_okA (cfg : Cfg X) (s lo ro inp : Nat) (m m' : Map X) (u : Unit) (hfc : m.fc = 0)
    (h : run (splitS cfg s lo ro inp) m = (.ok u, m')) :
    m.okA s inp = true ∧ m.okA s lo = true ∧ m.okA s ro = true := by
  unfold splitS at h
  by_cases hlr : lo = ro
  · subst hlr
    simp only [if_true, Prog.bind_eq, bind, run_rA, run_wA, run_wA', Map.okA_setA] at h
    by_cases hi : m.okA s inp = true
    · simp only [hi, if_true] at h
      by_cases hl : m.okA s lo = true
      · exact ⟨hi, hl, hl⟩
      · simp [hl] at h
    · simp [hi] at h
  simp only [hlr, if_false, Prog.bind_eq, bind, run_rA] at h
  by_cases hi : m.okA s inp = true
  · simp only [hi, if_true] at h
    rw [run_bind, lawCall_run_fc0 _ _ _ _ hfc] at h
    cases hv : splitVal (cfg.law s) (m.att s inp) with
    | error e => rw [hv] at h; simp at h
    | ok ab =>
        rw [hv] at h
        simp only [run_wA, run_wA', hi, if_true, Map.okA_setA] at h
        by_cases hl : m.okA s lo = true
        · simp only [hl, if_true] at h
          by_cases hr : m.okA s ro = true
          · exact ⟨hi, hl, hr⟩
          · simp [hr] at h
        · simp [hl] at h
  · simp [hi] at h

/-! ### reading the result of `mergeAt` / `splitAt` -/

theorem att_mergeAt (m : Map X) (s out l r : Nat) (v : X) (t e : Nat)
    (hl : m.okA s l = true) (hr : m.okA s r = true) (ho : m.okA s out = true) :
    (m.mergeAt s out l r v).att t e =
      if t = s ∧ e = out then some v
      else if t = s ∧ (e = l ∨ e = r) then none
      else m.att t e := by
  unfold Map.mergeAt
  simp only [Map.att_setA, Map.okA_setA, hl, hr, ho, and_true]
  by_cases hts : s = t
  · subst hts
    by_cases h1 : out = e
    · subst h1; simp
    · have h1' : ¬ e = out := fun h => h1 h.symm
      simp only [h1, h1', and_false, if_false, true_and]
      by_cases h2 : l = e
      · subst h2; simp
      · have h2' : ¬ e = l := fun h => h2 h.symm
        simp only [h2, h2', if_false, false_or]
        by_cases h3 : r = e
        · subst h3; simp
        · have h3' : ¬ e = r := fun h => h3 h.symm
          simp [h3, h3']
  · have hts' : ¬ t = s := fun h => hts h.symm
    simp [hts, hts']

theorem att_splitAt (m : Map X) (s lo ro inp : Nat) (a b : X) (t e : Nat)
    (hi : m.okA s inp = true) (hl : m.okA s lo = true) (hr : m.okA s ro = true) :
    (m.splitAt s lo ro inp a b).att t e =
      if t = s ∧ e = ro then some b
      else if t = s ∧ e = lo then some a
      else if t = s ∧ e = inp then none
      else m.att t e := by
  unfold Map.splitAt
  simp only [Map.att_setA, Map.okA_setA, hl, hr, hi, and_true]
  by_cases hts : s = t
  · subst hts
    by_cases h1 : ro = e
    · subst h1; simp
    · have h1' : ¬ e = ro := fun h => h1 h.symm
      simp only [h1, h1', and_false, if_false, true_and]
      by_cases h2 : lo = e
      · subst h2; simp
      · have h2' : ¬ e = lo := fun h => h2 h.symm
        simp only [h2, h2', if_false]
        by_cases h3 : inp = e
        · subst h3; simp
        · have h3' : ¬ e = inp := fun h => h3 h.symm
          simp [h3, h3']
  · have hts' : ¬ t = s := fun h => hts h.symm
    simp [hts, hts']

theorem att_moveAt (m : Map X) (s dst src : Nat) (t e : Nat)
    (hs : m.okA s src = true) (hd : m.okA s dst = true) :
    (m.moveAt s dst src).att t e =
      if t = s ∧ e = dst then m.att s src
      else if t = s ∧ e = src then none
      else m.att t e := by
  unfold Map.moveAt
  simp only [Map.att_setA, Map.okA_setA, hs, hd, and_true]
  by_cases hts : s = t
  · subst hts
    by_cases h1 : dst = e
    · subst h1; simp
    · have h1' : ¬ e = dst := fun h => h1 h.symm
      simp only [h1, h1', and_false, if_false, true_and]
      by_cases h2 : src = e
      · subst h2; simp
      · have h2' : ¬ e = src := fun h => h2 h.symm
        simp [h2, h2']
  · have hts' : ¬ t = s := fun h => hts h.symm
    simp [hts, hts']

theorem moveAt_sameTopo (m : Map X) (s dst src : Nat) : SameTopo m (m.moveAt s dst src) :=
  (SameTopo.setA m s src none).trans (SameTopo.setA _ s dst _)

theorem moveAt_fc (m : Map X) (s dst src : Nat) : (m.moveAt s dst src).fc = m.fc := rfl

theorem mergeAt_sameTopo (m : Map X) (s out l r : Nat) (v : X) : SameTopo m (m.mergeAt s out l r v) :=
  ((SameTopo.setA m s r none).trans (SameTopo.setA _ s l none)).trans (SameTopo.setA _ s out (some v))

theorem splitAt_sameTopo (m : Map X) (s lo ro inp : Nat) (a b : X) : SameTopo m (m.splitAt s lo ro inp a b) :=
  ((SameTopo.setA m s inp none).trans (SameTopo.setA _ s lo (some a))).trans (SameTopo.setA _ s ro (some b))

theorem mergeAt_fc (m : Map X) (s out l r : Nat) (v : X) : (m.mergeAt s out l r v).fc = m.fc := rfl
theorem splitAt_fc (m : Map X) (s lo ro inp : Nat) (a b : X) : (m.splitAt s lo ro inp a b).fc = m.fc := rfl

theorem SameTopo.okA {m m' : Map X} (st : SameTopo m m') (s d : Nat) : m'.okA s d = m.okA s d := by
  unfold Map.okA; rw [st.asz, st.rsz]

/-! ### a whole list of storages -/

/-- state after successfully merging `(out, l, r)` in each storage of the list: every storage is
    touched independently of the others, so the result does not depend on the order -/
structure MergedIn (cfg : Cfg X) (ss : List Nat) (out l r : Nat) (m m' : Map X) : Prop where
  topo : SameTopo m m'
  fc : m'.fc = m.fc
  other : ∀ t e, t ∉ ss → m'.att t e = m.att t e
  frame : ∀ t e, t ∈ ss → e ≠ out → e ≠ l → e ≠ r → m'.att t e = m.att t e
  cleared : ∀ t e, t ∈ ss → e ≠ out → (e = l ∨ e = r) → m'.att t e = none
  /-- two distinct old ids: the new id carries `merge*` of the two old values -/
  merged : l ≠ r → ∀ t, t ∈ ss → ∃ v, mergeVal (cfg.law t) (m.att t l) (m.att t r) = .ok v ∧ m'.att t out = some v
  /-- coinciding old ids (the same old cell twice): the value only moves to the new id -/
  moved : l = r → ∀ t, t ∈ ss → m'.att t out = m.att t l

/-- effect of one successful storage merge -/
theorem mergeS_step (cfg : Cfg X) (s out l r : Nat) (m m1 : Map X) (u : Unit) (hfc : m.fc = 0)
    (h : run (mergeS cfg s out l r) m = (.ok u, m1)) :
    SameTopo m m1 ∧ m1.fc = m.fc ∧ (∀ t e, t ≠ s → m1.att t e = m.att t e) ∧
    (∀ e, e ≠ out → e ≠ l → e ≠ r → m1.att s e = m.att s e) ∧
    (∀ e, e ≠ out → (e = l ∨ e = r) → m1.att s e = none) ∧
    (l ≠ r → ∃ v, mergeVal (cfg.law s) (m.att s l) (m.att s r) = .ok v ∧ m1.att s out = some v) ∧
    (l = r → m1.att s out = m.att s l) := by
  have hs := mergeS_ok_okA cfg s out l r m m1 u hfc h
  by_cases hlr : l = r
  · subst hlr
    rw [mergeS_run_move cfg s out l m hs.1 hs.2.2] at h
    simp only [Prod.mk.injEq, true_and] at h
    subst h
    have hatt := fun t e => att_moveAt m s out l t e hs.1 hs.2.2
    refine ⟨moveAt_sameTopo _ _ _ _, rfl, ?_, ?_, ?_, fun hne => absurd rfl hne, ?_⟩
    · intro t e hts; rw [hatt]; simp [hts]
    · intro e h1 h2 _; rw [hatt]; simp [h1, h2]
    · intro e h1 h2; rw [hatt]
      have : e = l := by rcases h2 with h2 | h2 <;> exact h2
      subst this
      simp [h1]
    · intro _; rw [hatt]; simp
  · rw [mergeS_run cfg s out l r m hfc hlr hs.1 hs.2.1 hs.2.2] at h
    match hv : mergeVal (cfg.law s) (m.att s l) (m.att s r) with
    | .error e => rw [hv] at h; simp at h
    | .ok v =>
        rw [hv] at h
        simp only [Prod.mk.injEq, true_and] at h
        subst h
        have hatt := fun t e => att_mergeAt m s out l r v t e hs.1 hs.2.1 hs.2.2
        refine ⟨mergeAt_sameTopo _ _ _ _ _ _, rfl, ?_, ?_, ?_, ?_, fun he => absurd he hlr⟩
        · intro t e hts; rw [hatt]; simp [hts]
        · intro e h1 h2 h3; rw [hatt]; simp [h1, h2, h3]
        · intro e h1 h2; rw [hatt]; simp [h1, h2]
        · intro _; exact ⟨v, rfl, by rw [hatt]; simp⟩

theorem forM_merge_ok (cfg : Cfg X) (out l r : Nat) :
    ∀ (ss : List Nat) (m m' : Map X) (u : Unit), ss.Nodup → m.fc = 0 →
      run (forM_ ss (fun s => mergeS cfg s out l r)) m = (.ok u, m') →
      MergedIn cfg ss out l r m m' := by
  intro ss
  induction ss with
  | nil =>
      intro m m' u _ _ h
      simp [forM_] at h
      subst h
      exact ⟨SameTopo.refl _, rfl, fun _ _ _ => rfl, fun _ _ h => absurd h (by simp),
        fun _ _ h => absurd h (by simp), fun _ _ h => absurd h (by simp), fun _ _ h => absurd h (by simp)⟩
  | cons s ss ih =>
      intro m m' u hnd hfc h
      unfold forM_ at h
      obtain ⟨_, m1, h1, h2⟩ := run_bind_ok h
      obtain ⟨st1, fc1, o1, f1, c1, g1, mv1⟩ := mergeS_step cfg s out l r m m1 _ hfc h1
      have hnd' : ss.Nodup := (List.nodup_cons.1 hnd).2
      have hsn : s ∉ ss := (List.nodup_cons.1 hnd).1
      have ih' := ih m1 m' () hnd' (by rw [fc1]; exact hfc) h2
      refine ⟨st1.trans ih'.topo, by rw [ih'.fc, fc1], ?_, ?_, ?_, ?_, ?_⟩
      · intro t e ht
        have hts : t ≠ s := fun h => ht (by simp [h])
        have ht' : t ∉ ss := fun h => ht (by simp [h])
        rw [ih'.other t e ht', o1 t e hts]
      · intro t e ht ho hl' hr'
        by_cases hts : t = s
        · subst hts
          rw [ih'.other t e hsn, f1 e ho hl' hr']
        · have ht' : t ∈ ss := by simpa [hts] using ht
          rw [ih'.frame t e ht' ho hl' hr', o1 t e hts]
      · intro t e ht ho hlr
        by_cases hts : t = s
        · subst hts
          rw [ih'.other t e hsn, c1 e ho hlr]
        · have ht' : t ∈ ss := by simpa [hts] using ht
          exact ih'.cleared t e ht' ho hlr
      · intro hne t ht
        by_cases hts : t = s
        · subst hts
          obtain ⟨v, hv1, hv2⟩ := g1 hne
          exact ⟨v, hv1, by rw [ih'.other t out hsn, hv2]⟩
        · have ht' : t ∈ ss := by simpa [hts] using ht
          obtain ⟨w, hw1, hw2⟩ := ih'.merged hne t ht'
          refine ⟨w, ?_, hw2⟩
          rw [o1 t l hts, o1 t r hts] at hw1
          exact hw1
      · intro he t ht
        by_cases hts : t = s
        · subst hts
          rw [ih'.other t out hsn, mv1 he]
        · have ht' : t ∈ ss := by simpa [hts] using ht
          rw [ih'.moved he t ht', o1 t l hts]

/-- state after successfully splitting `inp` into `(lo, ro)` in each storage of the list -/
structure SplitIn (cfg : Cfg X) (ss : List Nat) (lo ro inp : Nat) (m m' : Map X) : Prop where
  topo : SameTopo m m'
  fc : m'.fc = m.fc
  other : ∀ t e, t ∉ ss → m'.att t e = m.att t e
  frame : ∀ t e, t ∈ ss → e ≠ lo → e ≠ ro → e ≠ inp → m'.att t e = m.att t e
  cleared : ∀ t, t ∈ ss → inp ≠ lo → inp ≠ ro → m'.att t inp = none
  /-- two distinct new ids: they carry the two halves of `split*` of the old value -/
  split : lo ≠ ro → ∀ t, t ∈ ss → ∃ a b, splitVal (cfg.law t) (m.att t inp) = .ok (a, b) ∧
    m'.att t ro = some b ∧ m'.att t lo = some a
  /-- coinciding new ids (the same new cell twice): the value only moves -/
  moved : lo = ro → ∀ t, t ∈ ss → m'.att t lo = m.att t inp

/-- effect of one successful storage split -/
theorem splitS_step (cfg : Cfg X) (s lo ro inp : Nat) (m m1 : Map X) (u : Unit) (hfc : m.fc = 0)
    (h : run (splitS cfg s lo ro inp) m = (.ok u, m1)) :
    SameTopo m m1 ∧ m1.fc = m.fc ∧ (∀ t e, t ≠ s → m1.att t e = m.att t e) ∧
    (∀ e, e ≠ lo → e ≠ ro → e ≠ inp → m1.att s e = m.att s e) ∧
    (inp ≠ lo → inp ≠ ro → m1.att s inp = none) ∧
    (lo ≠ ro → ∃ a b, splitVal (cfg.law s) (m.att s inp) = .ok (a, b) ∧ m1.att s ro = some b ∧ m1.att s lo = some a) ∧
    (lo = ro → m1.att s lo = m.att s inp) := by
  have hs := splitS_ok_okA cfg s lo ro inp m m1 u hfc h
  by_cases hlr : lo = ro
  · subst hlr
    rw [splitS_run_move cfg s lo inp m hs.1 hs.2.1] at h
    simp only [Prod.mk.injEq, true_and] at h
    subst h
    have hatt := fun t e => att_moveAt m s lo inp t e hs.1 hs.2.1
    refine ⟨moveAt_sameTopo _ _ _ _, rfl, ?_, ?_, ?_, fun hne => absurd rfl hne, ?_⟩
    · intro t e hts; rw [hatt]; simp [hts]
    · intro e h1 _ h3; rw [hatt]; simp [h1, h3]
    · intro h1 _; rw [hatt]; simp [h1]
    · intro _; rw [hatt]; simp
  · rw [splitS_run cfg s lo ro inp m hfc hlr hs.1 hs.2.1 hs.2.2] at h
    match hv : splitVal (cfg.law s) (m.att s inp) with
    | .error e => rw [hv] at h; simp at h
    | .ok (a, b) =>
        rw [hv] at h
        simp only [Prod.mk.injEq, true_and] at h
        subst h
        have hatt := fun t e => att_splitAt m s lo ro inp a b t e hs.1 hs.2.1 hs.2.2
        refine ⟨splitAt_sameTopo _ _ _ _ _ _ _, rfl, ?_, ?_, ?_, ?_, fun he => absurd he hlr⟩
        · intro t e hts; rw [hatt]; simp [hts]
        · intro e h1 h2 h3; rw [hatt]; simp [h1, h2, h3]
        · intro h1 h2; rw [hatt]; simp [h1, h2]
        · intro _
          refine ⟨a, b, rfl, by rw [hatt]; simp, ?_⟩
          rw [hatt]; simp [hlr]

theorem forM_split_ok (cfg : Cfg X) (lo ro inp : Nat) :
    ∀ (ss : List Nat) (m m' : Map X) (u : Unit), ss.Nodup → m.fc = 0 →
      run (forM_ ss (fun s => splitS cfg s lo ro inp)) m = (.ok u, m') →
      SplitIn cfg ss lo ro inp m m' := by
  intro ss
  induction ss with
  | nil =>
      intro m m' u _ _ h
      simp [forM_] at h
      subst h
      exact ⟨SameTopo.refl _, rfl, fun _ _ _ => rfl, fun _ _ h => absurd h (by simp),
        fun _ h => absurd h (by simp), fun _ _ h => absurd h (by simp), fun _ _ h => absurd h (by simp)⟩
  | cons s ss ih =>
      intro m m' u hnd hfc h
      unfold forM_ at h
      obtain ⟨_, m1, h1, h2⟩ := run_bind_ok h
      obtain ⟨st1, fc1, o1, f1, c1, g1, mv1⟩ := splitS_step cfg s lo ro inp m m1 _ hfc h1
      have hnd' : ss.Nodup := (List.nodup_cons.1 hnd).2
      have hsn : s ∉ ss := (List.nodup_cons.1 hnd).1
      have ih' := ih m1 m' () hnd' (by rw [fc1]; exact hfc) h2
      refine ⟨st1.trans ih'.topo, by rw [ih'.fc, fc1], ?_, ?_, ?_, ?_, ?_⟩
      · intro t e ht
        have hts : t ≠ s := fun h => ht (by simp [h])
        have ht' : t ∉ ss := fun h => ht (by simp [h])
        rw [ih'.other t e ht', o1 t e hts]
      · intro t e ht h1' h2' h3'
        by_cases hts : t = s
        · subst hts
          rw [ih'.other t e hsn, f1 e h1' h2' h3']
        · have ht' : t ∈ ss := by simpa [hts] using ht
          rw [ih'.frame t e ht' h1' h2' h3', o1 t e hts]
      · intro t ht h1' h2'
        by_cases hts : t = s
        · subst hts
          rw [ih'.other t inp hsn, c1 h1' h2']
        · have ht' : t ∈ ss := by simpa [hts] using ht
          exact ih'.cleared t ht' h1' h2'
      · intro hne t ht
        by_cases hts : t = s
        · subst hts
          obtain ⟨a, b, hv, hb, ha⟩ := g1 hne
          exact ⟨a, b, hv, by rw [ih'.other t ro hsn, hb], by rw [ih'.other t lo hsn, ha]⟩
        · have ht' : t ∈ ss := by simpa [hts] using ht
          obtain ⟨a', b', hw1, hw2, hw3⟩ := ih'.split hne t ht'
          refine ⟨a', b', ?_, hw2, hw3⟩
          rw [o1 t inp hts] at hw1
          exact hw1
      · intro he t ht
        by_cases hts : t = s
        · subst hts
          rw [ih'.other t lo hsn, mv1 he]
        · have ht' : t ∈ ss := by simpa [hts] using ht
          rw [ih'.moved he t ht', o1 t inp hts]

end HC
