/-
  Link between the GENERATED β tables (`Gen/GridTables.lean`, regenerated from grid.rs on every
  run) and the generic grid theory (`Lemmas/GridGeneric.lean`).

  For each table a `Shape` is written down by hand and
  * `…Shape_ok`   : the shape passes the finite check (by `decide`);
  * `…_link`      : every entry of the generated table, for every cell of every grid size, is the
                    image the shape describes (case split over the rows, linear arithmetic);
  * `…Map_eq`     : the map built from the generated table is the abstract grid map.
  If grid.rs changes a table entry, a boundary condition or the dart numbering, one of these stops
  compiling and the check reports the proof as broken.
-/
import Honeycomb.Lemmas.GridGeneric

namespace HC
open Gen

/-! ## shapes of the three tables -/

def squareShape : Shape := ⟨4, 3,
  [[(0, 3), (0, 1), (3, 2)], [(0, 0), (0, 2), (2, 3)], [(0, 1), (0, 3), (4, 0)], [(0, 2), (0, 0), (1, 1)]]⟩

def trisShape : Shape := ⟨6, 3,
  [[(0, 2), (0, 1), (3, 5)],
   [(0, 0), (0, 2), (0, 3)],
   [(0, 1), (0, 0), (1, 4)],
   [(0, 5), (0, 4), (0, 1)],
   [(0, 3), (0, 5), (2, 2)],
   [(0, 4), (0, 3), (4, 0)]]⟩

def hexShape : Shape := ⟨24, 4,
  [[(0, 3), (0, 1), (0, 4), (3, 20)],
   [(0, 0), (0, 2), (0, 8), (3, 23)],
   [(0, 1), (0, 3), (0, 12), (3, 22)],
   [(0, 2), (0, 0), (0, 16), (3, 21)],
   [(0, 7), (0, 5), (0, 0), (5, 12)],
   [(0, 4), (0, 6), (0, 19), (5, 15)],
   [(0, 5), (0, 7), (0, 20), (5, 14)],
   [(0, 6), (0, 4), (0, 9), (5, 13)],
   [(0, 11), (0, 9), (0, 1), (2, 16)],
   [(0, 8), (0, 10), (0, 7), (2, 19)],
   [(0, 9), (0, 11), (0, 23), (2, 18)],
   [(0, 10), (0, 8), (0, 13), (2, 17)],
   [(0, 15), (0, 13), (0, 2), (6, 4)],
   [(0, 12), (0, 14), (0, 11), (6, 7)],
   [(0, 13), (0, 15), (0, 22), (6, 6)],
   [(0, 14), (0, 12), (0, 17), (6, 5)],
   [(0, 19), (0, 17), (0, 3), (1, 8)],
   [(0, 16), (0, 18), (0, 15), (1, 11)],
   [(0, 17), (0, 19), (0, 21), (1, 10)],
   [(0, 18), (0, 16), (0, 5), (1, 9)],
   [(0, 23), (0, 21), (0, 6), (4, 0)],
   [(0, 20), (0, 22), (0, 18), (4, 3)],
   [(0, 21), (0, 23), (0, 14), (4, 2)],
   [(0, 22), (0, 20), (0, 10), (4, 1)]]⟩

theorem squareShape_ok : squareShape.Ok := by decide
theorem trisShape_ok : trisShape.Ok := by decide
set_option maxRecDepth 100000 in
theorem hexShape_ok : hexShape.Ok := by decide

/-! ## neighbour arithmetic on cell indices -/

section Nb
variable (nx ny ix iy iz : Nat)

theorem cellIdx_xp : cellIdx nx ny (ix + 1) iy iz = cellIdx nx ny ix iy iz + 1 := by
  unfold cellIdx; omega

theorem cellIdx_yp : cellIdx nx ny ix (iy + 1) iz = cellIdx nx ny ix iy iz + nx := by
  unfold cellIdx
  have : iy + 1 + ny * iz = (iy + ny * iz) + 1 := by omega
  rw [this, Nat.mul_succ]; omega

theorem cellIdx_zp : cellIdx nx ny ix iy (iz + 1) = cellIdx nx ny ix iy iz + nx * ny := by
  unfold cellIdx
  rw [Nat.mul_succ, ← Nat.add_assoc, Nat.mul_add]; omega

theorem cellIdx_xm : ix = 0 ∨ cellIdx nx ny (ix - 1) iy iz + 1 = cellIdx nx ny ix iy iz := by
  rcases ix with _ | k
  · exact Or.inl rfl
  · right; rw [Nat.add_sub_cancel, cellIdx_xp]

theorem cellIdx_ym : iy = 0 ∨ cellIdx nx ny ix (iy - 1) iz + nx = cellIdx nx ny ix iy iz := by
  rcases iy with _ | k
  · exact Or.inl rfl
  · right; rw [Nat.add_sub_cancel, cellIdx_yp]

theorem cellIdx_zm : iz = 0 ∨ cellIdx nx ny ix iy (iz - 1) + nx * ny = cellIdx nx ny ix iy iz := by
  rcases iz with _ | k
  · exact Or.inl rfl
  · right; rw [Nat.add_sub_cancel, cellIdx_zp]

/-- `d1` of the 2-D tables -/
theorem d1_2d (K : Nat) : 1 + K * ix + nx * K * iy = 1 + K * cellIdx nx ny ix iy 0 := by
  unfold cellIdx
  rw [Nat.mul_zero, Nat.add_zero, Nat.mul_add, Nat.mul_right_comm nx K iy, Nat.mul_comm (nx * iy) K]
  omega

/-- `d1` of the 3-D table -/
theorem d1_3d (K : Nat) :
    1 + K * ix + nx * K * iy + nx * ny * K * iz = 1 + K * cellIdx nx ny ix iy iz := by
  unfold cellIdx
  rw [Nat.mul_add nx, Nat.mul_add K, Nat.mul_add K, Nat.mul_right_comm nx K iy, Nat.mul_comm (nx * iy) K,
    Nat.mul_right_comm (nx * ny) K iz, Nat.mul_comm (nx * ny * iz) K, Nat.mul_assoc nx ny iz]
  omega

end Nb

/-! ## the generated tables are instances of their shapes -/

theorem square_link {nx ny ix iy o i : Nat} (hx : ix < nx) (hy : iy < ny) (ho : o < 4) (hi : i < 3) :
    tableAt (squareRows nx ny ix iy) o i =
      absEntry 4 nx ny 1 ix iy 0 (squareShape.at o i).1 (squareShape.at o i).2 := by
  have L1 := d1_2d nx ny ix iy 4
  have fxp := cellIdx_xp nx ny ix iy 0
  have fyp := cellIdx_yp nx ny ix iy 0
  have fxm := cellIdx_xm nx ny ix iy 0
  have fym := cellIdx_ym nx ny ix iy 0
  have o4 : o = 0 ∨ o = 1 ∨ o = 2 ∨ o = 3 := by omega
  have i3 : i = 0 ∨ i = 1 ∨ i = 2 := by omega
  rcases o4 with rfl | rfl | rfl | rfl <;> rcases i3 with rfl | rfl | rfl <;>
    simp only [squareRows, L1] <;>
    simp [tableAt, squareShape, Shape.at, absEntry, dartOf] <;>
    (try split) <;> (try split) <;> omega

theorem tris_link {nx ny ix iy o i : Nat} (hx : ix < nx) (hy : iy < ny) (ho : o < 6) (hi : i < 3) :
    tableAt (trisRows nx ny ix iy) o i =
      absEntry 6 nx ny 1 ix iy 0 (trisShape.at o i).1 (trisShape.at o i).2 := by
  have L1 := d1_2d nx ny ix iy 6
  have fxp := cellIdx_xp nx ny ix iy 0
  have fyp := cellIdx_yp nx ny ix iy 0
  have fxm := cellIdx_xm nx ny ix iy 0
  have fym := cellIdx_ym nx ny ix iy 0
  have o6 : o = 0 ∨ o = 1 ∨ o = 2 ∨ o = 3 ∨ o = 4 ∨ o = 5 := by omega
  have i3 : i = 0 ∨ i = 1 ∨ i = 2 := by omega
  rcases o6 with rfl | rfl | rfl | rfl | rfl | rfl <;> rcases i3 with rfl | rfl | rfl <;>
    simp only [trisRows, L1] <;>
    simp [tableAt, trisShape, Shape.at, absEntry, dartOf] <;>
    (try split) <;> (try split) <;> omega

set_option maxRecDepth 100000 in
theorem hex_link {nx ny nz ix iy iz o i : Nat} (hx : ix < nx) (hy : iy < ny) (hz : iz < nz)
    (ho : o < 24) (hi : i < 4) :
    tableAt (hexRows nx ny nz ix iy iz) o i =
      absEntry 24 nx ny nz ix iy iz (hexShape.at o i).1 (hexShape.at o i).2 := by
  have L1 := d1_3d nx ny ix iy iz 24
  have fxp := cellIdx_xp nx ny ix iy iz
  have fyp := cellIdx_yp nx ny ix iy iz
  have fzp := cellIdx_zp nx ny ix iy iz
  have fxm := cellIdx_xm nx ny ix iy iz
  have fym := cellIdx_ym nx ny ix iy iz
  have fzm := cellIdx_zm nx ny ix iy iz
  have e : 24 * nx * ny = 24 * (nx * ny) := Nat.mul_assoc 24 nx ny
  have i4 : i = 0 ∨ i = 1 ∨ i = 2 ∨ i = 3 := by omega
  have o24 : o = 0 ∨ o = 1 ∨ o = 2 ∨ o = 3 ∨ o = 4 ∨ o = 5 ∨ o = 6 ∨ o = 7 ∨ o = 8 ∨ o = 9 ∨ o = 10 ∨
      o = 11 ∨ o = 12 ∨ o = 13 ∨ o = 14 ∨ o = 15 ∨ o = 16 ∨ o = 17 ∨ o = 18 ∨ o = 19 ∨ o = 20 ∨
      o = 21 ∨ o = 22 ∨ o = 23 := by omega
  rcases o24 with rfl | rfl | rfl | rfl | rfl | rfl | rfl | rfl | rfl | rfl | rfl | rfl | rfl | rfl |
      rfl | rfl | rfl | rfl | rfl | rfl | rfl | rfl | rfl | rfl <;>
    rcases i4 with rfl | rfl | rfl | rfl <;>
    simp only [hexRows, L1] <;>
    simp [tableAt, hexShape, Shape.at, absEntry, dartOf] <;>
    (try split) <;> (try split) <;> omega

/-! ## β of a dart given by cell and local index -/

theorem squareβ_dartOf {nx ny ix iy o : Nat} (hx : ix < nx) (_hy : iy < ny) (ho : o < 4) (i : Nat) :
    squareβ nx ny i (dartOf 4 nx ny ix iy 0 o) = tableAt (squareRows nx ny ix iy) o i := by
  unfold squareβ squareK
  simp only [dartOf_cell ho, dartOf_local ho, cellIdx_x hx, cellIdx_div hx, Nat.mul_zero, Nat.add_zero]

theorem trisβ_dartOf {nx ny ix iy o : Nat} (hx : ix < nx) (_hy : iy < ny) (ho : o < 6) (i : Nat) :
    trisβ nx ny i (dartOf 6 nx ny ix iy 0 o) = tableAt (trisRows nx ny ix iy) o i := by
  unfold trisβ trisK
  simp only [dartOf_cell ho, dartOf_local ho, cellIdx_x hx, cellIdx_div hx, Nat.mul_zero, Nat.add_zero]

theorem hexβ_dartOf {nx ny nz ix iy iz o : Nat} (hx : ix < nx) (hy : iy < ny) (ho : o < 24) (i : Nat) :
    hexβ nx ny nz i (dartOf 24 nx ny ix iy iz o) = tableAt (hexRows nx ny nz ix iy iz) o i := by
  unfold hexβ hexK
  simp only [dartOf_cell ho, dartOf_local ho, cellIdx_x hx, cellIdx_y hx hy, cellIdx_z hx hy]

/-! ## the built maps are abstract grid maps -/

theorem tab_congr {α : Type} (n : Nat) (f g : Nat → α) (h : ∀ i, i < n → f i = g i) : tab n f = tab n g := by
  unfold tab
  congr 1
  funext i
  exact h i.val i.isLt

theorem gridMap_congr (nb nd : Nat) (β β' : Nat → Nat → Nat)
    (h : ∀ i, i < nb → ∀ d, 1 ≤ d → d ≤ nd → β i d = β' i d) : gridMap nb nd β = gridMap nb nd β' := by
  have e : (tab nb fun i => tab (nd + 1) fun d => if d = 0 then 0 else β i d) =
      (tab nb fun i => tab (nd + 1) fun d => if d = 0 then 0 else β' i d) := by
    apply tab_congr
    intro i hi
    apply tab_congr
    intro d hd
    by_cases h0 : d = 0
    · simp [h0]
    · simp only [h0, if_false]
      exact h i hi d (by omega) (by omega)
  unfold gridMap
  rw [e]

theorem squareMap_eq {nx ny : Nat} (hnx : 0 < nx) (hny : 0 < ny) :
    gridMap 3 (squareK * nx * ny) (squareβ nx ny) =
      gridMap squareShape.nb (squareShape.K * (nx * ny * 1)) (absβ squareShape nx ny 1) := by
  have e : squareK * nx * ny = squareShape.K * (nx * ny * 1) := by
    show 4 * nx * ny = 4 * (nx * ny * 1)
    rw [Nat.mul_one, Nat.mul_assoc]
  rw [e]
  apply gridMap_congr
  intro i hi d h1 h2
  obtain ⟨ix, iy, iz, o, hx, hy, hz, ho, rfl⟩ := decode (K := squareShape.K) (by decide) hnx hny h1 h2
  have hz0 : iz = 0 := by omega
  subst hz0
  rw [absβ_dartOf squareShape hx hy ho]
  exact (squareβ_dartOf hx hy ho i).trans (square_link hx hy ho hi)

theorem trisMap_eq {nx ny : Nat} (hnx : 0 < nx) (hny : 0 < ny) :
    gridMap 3 (trisK * nx * ny) (trisβ nx ny) =
      gridMap trisShape.nb (trisShape.K * (nx * ny * 1)) (absβ trisShape nx ny 1) := by
  have e : trisK * nx * ny = trisShape.K * (nx * ny * 1) := by
    show 6 * nx * ny = 6 * (nx * ny * 1)
    rw [Nat.mul_one, Nat.mul_assoc]
  rw [e]
  apply gridMap_congr
  intro i hi d h1 h2
  obtain ⟨ix, iy, iz, o, hx, hy, hz, ho, rfl⟩ := decode (K := trisShape.K) (by decide) hnx hny h1 h2
  have hz0 : iz = 0 := by omega
  subst hz0
  rw [absβ_dartOf trisShape hx hy ho]
  exact (trisβ_dartOf hx hy ho i).trans (tris_link hx hy ho hi)

theorem hexMap_eq {nx ny nz : Nat} (hnx : 0 < nx) (hny : 0 < ny) :
    gridMap 4 (hexK * nx * ny * nz) (hexβ nx ny nz) =
      gridMap hexShape.nb (hexShape.K * (nx * ny * nz)) (absβ hexShape nx ny nz) := by
  have e : hexK * nx * ny * nz = hexShape.K * (nx * ny * nz) := by
    show 24 * nx * ny * nz = 24 * (nx * ny * nz)
    rw [Nat.mul_assoc 24, Nat.mul_assoc 24]
  rw [e]
  apply gridMap_congr
  intro i hi d h1 h2
  obtain ⟨ix, iy, iz, o, hx, hy, hz, ho, rfl⟩ := decode (K := hexShape.K) (by decide) hnx hny h1 h2
  rw [absβ_dartOf hexShape hx hy ho]
  exact (hexβ_dartOf hx hy ho i).trans (hex_link hx hy hz ho hi)

end HC
