/-
  Vertex counts of the two 2-D grids as computed by the code (`iter_vertices`): one identifier per
  lattice point, `(nx+1)·(ny+1)` for every size (plain and split grid; the same text instantiated in
  the two namespaces of `GridVertex.lean` / `GridVertexSplit.lean`).
-/
import Honeycomb.Lemmas.GridCount
import Honeycomb.Lemmas.GridVertex
import Honeycomb.Lemmas.GridVertexSplit

namespace HC.GridCountPlain
open HC HC.Gen HC.GridBfs HC.GridCount HC.GridVertex

theorem pt_le {nx ny d : Nat} (hd : IsDart nx ny d) : (pt nx d).1 ≤ nx ∧ (pt nx d).2 ≤ ny := by
  obtain ⟨a, b, k, ha, hb, hk, rfl⟩ := hd
  rw [pt_D ha hk]
  have c1 : cdx k ≤ 1 := by unfold cdx; split <;> omega
  have c2 : cdy k ≤ 1 := by unfold cdy; split <;> omega
  exact ⟨by simp; omega, by simp; omega⟩

theorem vid_idem {nx ny : Nat} {m : Map Val} (hnx : 0 < nx) (hny : 0 < ny) (st : SameTopo (G2 nx ny) m)
    {d : Nat} (hd : IsDart nx ny d) : vid2 m (vid2 m d) = vid2 m d := by
  obtain ⟨a, b, k, ha, hb, hk, h1, _, p1⟩ := vid_spec hnx hny st hd
  have hv : IsDart nx ny (vid2 m d) := ⟨a, b, k, ha, hb, hk, h1⟩
  exact vid_same hnx hny st st hv hd (vid_pt hnx hny st hd).1

/-- `iter_vertices` yields one identifier per lattice point: `(nx+1)·(ny+1)` vertices -/
theorem iterVertices_length {nx ny : Nat} {m : Map Val} (hnx : 0 < nx) (hny : 0 < ny)
    (st : SameTopo (G2 nx ny) m) : (iterVertices2 m).length = (nx + 1) * (ny + 1) := by
  have hn : m.n = 4 * nx * ny + 1 := st.n
  unfold iterVertices2 iterCells
  have hcongr : (List.range m.n).filter (fun d => decide (d ≠ 0 ∧ (!m.unused d) = true ∧
        okVal (run (vertexId2 m.n d) m) 0 = d)) =
      (List.range m.n).filter (fun d => decide (d ≠ 0 ∧ vid2 m d = d)) := by
    apply List.filter_congr
    intro d hd
    have hu : m.unused d = false := by rw [st.unused]; exact gridMap_unused _ _ _ _
    rw [decide_eq_decide]
    simp [hu, vid2]
  rw [hcongr]
  apply length_filter_bij m.n _ _ (fun d => code2 nx (pt nx d))
  · intro x hx px y hy py h
    simp only [ne_eq, decide_eq_true_eq] at px py
    have dx : IsDart nx ny x := isDart_of_range hnx hny (by omega) (by omega)
    have dy : IsDart nx ny y := isDart_of_range hnx hny (by omega) (by omega)
    have hp := code2_inj (pt_le dx).1 (pt_le dy).1 h
    have := vid_same hnx hny st st dx dy hp
    rw [px.2, py.2] at this
    exact this
  · intro x hx px
    simp only [ne_eq, decide_eq_true_eq] at px
    have dx : IsDart nx ny x := isDart_of_range hnx hny (by omega) (by omega)
    exact code2_lt (pt_le dx).1 (pt_le dx).2
  · intro t ht
    obtain ⟨i, j, hi, hj, rfl⟩ := code2_surj ht
    obtain ⟨blk, hblk, c, _, hc1, hc2, hp⟩ := squarePlace_covers hnx hny hi hj
    have hd : IsDart nx ny (D nx ny c.1 c.2 (blk.2.1 - 1)) :=
      ⟨c.1, c.2, blk.2.1 - 1, hc1, hc2, by have := (squarePlace_good blk hblk).2.2.1; omega, rfl⟩
    obtain ⟨hpt, hlt⟩ := vid_pt hnx hny st hd
    obtain ⟨a, b, k, ha, hb, hk, h1, _, _⟩ := vid_spec hnx hny st hd
    refine ⟨vid2 m (D nx ny c.1 c.2 (blk.2.1 - 1)), by omega, ?_, ?_⟩
    · simp only [ne_eq, decide_eq_true_eq]
      refine ⟨?_, vid_idem hnx hny st hd⟩
      rw [h1]
      have := D_pos (nx := nx) (ny := ny) (a := a) (b := b) (k := k)
      omega
    · show code2 nx (pt nx (vid2 m (D nx ny c.1 c.2 (blk.2.1 - 1)))) = code2 nx (i, j)
      rw [hpt, hp]

end HC.GridCountPlain

namespace HC.GridCountSplit
open HC HC.Gen HC.GridBfs HC.GridCount HC.GridVertexSplit

theorem pt_le {nx ny d : Nat} (hd : IsDart nx ny d) : (pt nx d).1 ≤ nx ∧ (pt nx d).2 ≤ ny := by
  obtain ⟨a, b, k, ha, hb, hk, rfl⟩ := hd
  rw [pt_D ha hk]
  have c1 : cdx k ≤ 1 := by unfold cdx; split <;> omega
  have c2 : cdy k ≤ 1 := by unfold cdy; split <;> omega
  exact ⟨by simp; omega, by simp; omega⟩

theorem vid_idem {nx ny : Nat} {m : Map Val} (hnx : 0 < nx) (hny : 0 < ny) (st : SameTopo (G2 nx ny) m)
    {d : Nat} (hd : IsDart nx ny d) : vid2 m (vid2 m d) = vid2 m d := by
  obtain ⟨a, b, k, ha, hb, hk, h1, _, p1⟩ := vid_spec hnx hny st hd
  have hv : IsDart nx ny (vid2 m d) := ⟨a, b, k, ha, hb, hk, h1⟩
  exact vid_same hnx hny st st hv hd (vid_pt hnx hny st hd).1

/-- `iter_vertices` yields one identifier per lattice point: `(nx+1)·(ny+1)` vertices -/
theorem iterVertices_length {nx ny : Nat} {m : Map Val} (hnx : 0 < nx) (hny : 0 < ny)
    (st : SameTopo (G2 nx ny) m) : (iterVertices2 m).length = (nx + 1) * (ny + 1) := by
  have hn : m.n = 6 * nx * ny + 1 := st.n
  unfold iterVertices2 iterCells
  have hcongr : (List.range m.n).filter (fun d => decide (d ≠ 0 ∧ (!m.unused d) = true ∧
        okVal (run (vertexId2 m.n d) m) 0 = d)) =
      (List.range m.n).filter (fun d => decide (d ≠ 0 ∧ vid2 m d = d)) := by
    apply List.filter_congr
    intro d hd
    have hu : m.unused d = false := by rw [st.unused]; exact gridMap_unused _ _ _ _
    rw [decide_eq_decide]
    simp [hu, vid2]
  rw [hcongr]
  apply length_filter_bij m.n _ _ (fun d => code2 nx (pt nx d))
  · intro x hx px y hy py h
    simp only [ne_eq, decide_eq_true_eq] at px py
    have dx : IsDart nx ny x := isDart_of_range hnx hny (by omega) (by omega)
    have dy : IsDart nx ny y := isDart_of_range hnx hny (by omega) (by omega)
    have hp := code2_inj (pt_le dx).1 (pt_le dy).1 h
    have := vid_same hnx hny st st dx dy hp
    rw [px.2, py.2] at this
    exact this
  · intro x hx px
    simp only [ne_eq, decide_eq_true_eq] at px
    have dx : IsDart nx ny x := isDart_of_range hnx hny (by omega) (by omega)
    exact code2_lt (pt_le dx).1 (pt_le dx).2
  · intro t ht
    obtain ⟨i, j, hi, hj, rfl⟩ := code2_surj ht
    obtain ⟨blk, hblk, c, _, hc1, hc2, hp⟩ := squarePlace_covers hnx hny hi hj
    have hd : IsDart nx ny (D nx ny c.1 c.2 (blk.2.1 - 1)) :=
      ⟨c.1, c.2, blk.2.1 - 1, hc1, hc2, by have := (squarePlace_good blk hblk).2.2.1; omega, rfl⟩
    obtain ⟨hpt, hlt⟩ := vid_pt hnx hny st hd
    obtain ⟨a, b, k, ha, hb, hk, h1, _, _⟩ := vid_spec hnx hny st hd
    refine ⟨vid2 m (D nx ny c.1 c.2 (blk.2.1 - 1)), by omega, ?_, ?_⟩
    · simp only [ne_eq, decide_eq_true_eq]
      refine ⟨?_, vid_idem hnx hny st hd⟩
      rw [h1]
      have := D_pos (nx := nx) (ny := ny) (a := a) (b := b) (k := k)
      omega
    · show code2 nx (pt nx (vid2 m (D nx ny c.1 c.2 (blk.2.1 - 1)))) = code2 nx (i, j)
      rw [hpt, hp]

end HC.GridCountSplit
