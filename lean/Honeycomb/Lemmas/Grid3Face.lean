/-
  Faces of the 3-D hex grid as computed by the code (`face_id_transac`, the two-sided lock-step
  walk, and `iter_faces`): a dart is a face identifier iff it is the first dart of its quadrilateral
  and the face is either on the `x+ / y+ / z+` side of its cell or on the outer boundary;
  `iter_faces` yields `3·nx·ny·nz + nx·nz + nx·ny + ny·nz` identifiers for every size.
-/
import Mathlib.Order.Lattice
import Honeycomb.Lemmas.Grid3Vertex
import Honeycomb.Lemmas.GridCount

namespace HC.Grid3Face
open HC HC.Gen HC.Grid3Pop HC.Grid3Vertex HC.GridCount

variable {X : Type}

/-! ## the walk, one round at a time -/

/-- accumulated minimum of one round -/
def mnStep (mn l r : Nat) : Nat :=
  let mn1 := if l ≠ 0 then min mn l else mn
  if r ≠ 0 then min mn1 r else mn1

theorem mnStep_nz (mn l r : Nat) (hl : l ≠ 0) (hr : r ≠ 0) : mnStep mn l r = min (min mn l) r := by
  simp [mnStep, hl, hr]

theorem mnStep_z (mn l : Nat) (hl : l ≠ 0) : mnStep mn l 0 = min mn l := by
  simp [mnStep, hl]

theorem walk_go (m : Map X) (i j f lb rb : Nat) (mk : List Nat) (mn : Nat)
    (oi : m.okβ i lb = true) (oj : m.okβ j rb = true) :
    run (do
        let lb' ← rB (X := X) i lb
        let rb' ← rB j rb
        let mn1 := if lb' ≠ 0 then min mn lb' else mn
        let mn2 := if rb' ≠ 0 then min mn1 rb' else mn1
        faceWalk3 i j f lb' rb' mk mn2) m =
      run (faceWalk3 (X := X) i j f (m.β i lb) (m.β j rb) mk (mnStep mn (m.β i lb) (m.β j rb))) m := by
  simp only [Prog.bind_eq, run_rB, oi, oj, if_true, mnStep]

theorem walk_L (m : Map X) (i j f lb rb : Nat) (mk : List Nat) (mn : Nat) (h : lb ∉ mk)
    (oi : m.okβ i lb = true) (oj : m.okβ j rb = true) :
    run (faceWalk3 (X := X) i j (f + 1) lb rb mk mn) m =
      run (faceWalk3 (X := X) i j f (m.β i lb) (m.β j rb) (mk ++ [lb]) (mnStep mn (m.β i lb) (m.β j rb))) m := by
  have hc : mk.contains lb = false := by simpa using h
  rw [faceWalk3]
  simp only [hc, Bool.not_false, if_true]
  exact walk_go m i j f lb rb _ mn oi oj

theorem walk_R (m : Map X) (i j f lb rb : Nat) (mk : List Nat) (mn : Nat) (h : lb ∈ mk) (h2 : rb ∉ mk)
    (oi : m.okβ i lb = true) (oj : m.okβ j rb = true) :
    run (faceWalk3 (X := X) i j (f + 1) lb rb mk mn) m =
      run (faceWalk3 (X := X) i j f (m.β i lb) (m.β j rb) (mk ++ [rb]) (mnStep mn (m.β i lb) (m.β j rb))) m := by
  have hc : mk.contains lb = true := by simpa using h
  have hc2 : mk.contains rb = false := by simpa using h2
  rw [faceWalk3]
  simp only [hc, hc2, Bool.not_true, Bool.not_false, if_true, Bool.false_eq_true, if_false]
  exact walk_go m i j f lb rb _ mn oi oj

theorem walk_stop (m : Map X) (i j f lb rb : Nat) (mk : List Nat) (mn : Nat) (h : lb ∈ mk) (h2 : rb ∈ mk) :
    run (faceWalk3 (X := X) i j (f + 1) lb rb mk mn) m = (.ok (lb, rb, mk, mn), m) := by
  have hc : mk.contains lb = true := by simpa using h
  have hc2 : mk.contains rb = true := by simpa using h2
  rw [faceWalk3]
  simp only [hc, hc2, Bool.not_true, Bool.false_eq_true, if_false, Prog.pure_eq, run_ret]

theorem walk_stop' (m : Map X) (i j f lb rb : Nat) (mk : List Nat) (mn : Nat) (hf : 0 < f) (h : lb ∈ mk)
    (h2 : rb ∈ mk) : run (faceWalk3 (X := X) i j f lb rb mk mn) m = (.ok (lb, rb, mk, mn), m) := by
  obtain ⟨f', rfl⟩ : ∃ f', f = f' + 1 := ⟨f - 1, by omega⟩
  exact walk_stop m i j f' lb rb mk mn h h2

/-- the minimum accumulated over the 8 rounds of `walk8` -/
def R8 (mn a0 a1 a2 a3 b0 b1 b2 b3 : Nat) : Nat :=
  mnStep (mnStep (mnStep (mnStep (mnStep (mnStep (mnStep (mnStep mn a1 b1) a2 b2) a3 b3) a0 b0) a1 b1) a2 b2) a3 b3)
    a0 b0

theorem R8_eq (mn a0 a1 a2 a3 b0 b1 b2 b3 : Nat) (h0 : a0 ≠ 0) (h1 : a1 ≠ 0) (h2 : a2 ≠ 0) (h3 : a3 ≠ 0)
    (k0 : b0 ≠ 0) (k1 : b1 ≠ 0) (k2 : b2 ≠ 0) (k3 : b3 ≠ 0) :
    R8 mn a0 a1 a2 a3 b0 b1 b2 b3 = min mn (min (min (min a0 a1) (min a2 a3)) (min (min b0 b1) (min b2 b3))) := by
  unfold R8
  rw [mnStep_nz _ a0 b0 h0 k0, mnStep_nz _ a3 b3 h3 k3, mnStep_nz _ a2 b2 h2 k2, mnStep_nz _ a1 b1 h1 k1,
    mnStep_nz _ a0 b0 h0 k0, mnStep_nz _ a3 b3 h3 k3, mnStep_nz _ a2 b2 h2 k2, mnStep_nz _ a1 b1 h1 k1]
  apply le_antisymm <;> simp [le_min_iff, min_le_iff]

/-- two disjoint closed 4-cycles walked in lock step: 9 rounds -/
theorem walk8 (m : Map X) (i j : Nat) (a0 a1 a2 a3 b0 b1 b2 b3 mn f : Nat)
    (oa0 : m.okβ i a0 = true) (oa1 : m.okβ i a1 = true) (oa2 : m.okβ i a2 = true) (oa3 : m.okβ i a3 = true)
    (ob0 : m.okβ j b0 = true) (ob1 : m.okβ j b1 = true) (ob2 : m.okβ j b2 = true) (ob3 : m.okβ j b3 = true)
    (ha0 : m.β i a0 = a1) (ha1 : m.β i a1 = a2) (ha2 : m.β i a2 = a3) (ha3 : m.β i a3 = a0)
    (hb0 : m.β j b0 = b1) (hb1 : m.β j b1 = b2) (hb2 : m.β j b2 = b3) (hb3 : m.β j b3 = b0)
    (nd : [0, a0, a1, a2, a3, b0, b1, b2, b3].Nodup) :
    ∃ mk, run (faceWalk3 (X := X) i j (f + 9) a0 b0 [0] mn) m =
      (.ok (a0, b0, mk, R8 mn a0 a1 a2 a3 b0 b1 b2 b3), m) := by
  simp only [List.nodup_cons, List.mem_cons, List.not_mem_nil, or_false, not_or, List.nodup_nil, and_true,
    not_false_eq_true] at nd
  obtain ⟨⟨n1, n2, n3, n4, n5, n6, n7, n8⟩, ⟨p1, p2, p3, p4, p5, p6, p7⟩, ⟨q1, q2, q3, q4, q5, q6⟩,
    ⟨r1, r2, r3, r4, r5⟩, ⟨s1, s2, s3, s4⟩, ⟨t1, t2, t3⟩, ⟨u1, u2⟩, v1⟩ := nd
  have e : f + 9 = (((((((((f + 1) + 1) + 1) + 1) + 1) + 1) + 1) + 1) + 1) := by omega
  rw [e]
  rw [walk_L m i j _ a0 b0 _ _ (by simp; exact fun h => n1 h.symm) oa0 ob0, ha0, hb0]
  rw [walk_L m i j _ a1 b1 _ _ (by simp; exact ⟨fun h => n2 h.symm, fun h => p1 h.symm⟩) oa1 ob1, ha1, hb1]
  rw [walk_L m i j _ a2 b2 _ _ (by simp; exact ⟨fun h => n3 h.symm, fun h => p2 h.symm, fun h => q1 h.symm⟩) oa2 ob2,
    ha2, hb2]
  rw [walk_L m i j _ a3 b3 _ _ (by simp; exact ⟨fun h => n4 h.symm, fun h => p3 h.symm, fun h => q2 h.symm,
    fun h => r1 h.symm⟩) oa3 ob3, ha3, hb3]
  rw [walk_R m i j _ a0 b0 _ _ (by simp) (by simp; exact ⟨fun h => n5 h.symm, fun h => p4 h.symm, fun h => q3 h.symm,
    fun h => r2 h.symm, fun h => s1 h.symm⟩) oa0 ob0, ha0, hb0]
  rw [walk_R m i j _ a1 b1 _ _ (by simp) (by simp; exact ⟨fun h => n6 h.symm, fun h => p5 h.symm, fun h => q4 h.symm,
    fun h => r3 h.symm, fun h => s2 h.symm, fun h => t1 h.symm⟩) oa1 ob1, ha1, hb1]
  rw [walk_R m i j _ a2 b2 _ _ (by simp) (by simp; exact ⟨fun h => n7 h.symm, fun h => p6 h.symm, fun h => q5 h.symm,
    fun h => r4 h.symm, fun h => s3 h.symm, fun h => t2 h.symm, fun h => u1 h.symm⟩) oa2 ob2, ha2, hb2]
  rw [walk_R m i j _ a3 b3 _ _ (by simp) (by simp; exact ⟨fun h => n8 h.symm, fun h => p7 h.symm, fun h => q6 h.symm,
    fun h => r5 h.symm, fun h => s4 h.symm, fun h => t3 h.symm, fun h => u2 h.symm, fun h => v1 h.symm⟩) oa3 ob3,
    ha3, hb3]
  rw [walk_stop m i j _ a0 b0 _ _ (by simp) (by simp)]
  exact ⟨_, rfl⟩

/-- a closed 4-cycle whose other side is the null dart: 5 rounds -/
theorem walk4 (m : Map X) (i j : Nat) (a0 a1 a2 a3 mn f : Nat)
    (oa0 : m.okβ i a0 = true) (oa1 : m.okβ i a1 = true) (oa2 : m.okβ i a2 = true) (oa3 : m.okβ i a3 = true)
    (o0 : m.okβ j 0 = true) (h0 : m.β j 0 = 0)
    (ha0 : m.β i a0 = a1) (ha1 : m.β i a1 = a2) (ha2 : m.β i a2 = a3) (ha3 : m.β i a3 = a0)
    (nd : [0, a0, a1, a2, a3].Nodup) :
    run (faceWalk3 (X := X) i j (f + 5) a0 0 [0] mn) m =
      (.ok (a0, 0, [0, a0, a1, a2, a3], min mn (min (min a0 a1) (min a2 a3))), m) := by
  simp only [List.nodup_cons, List.mem_cons, List.not_mem_nil, or_false, not_or, List.nodup_nil, and_true,
    not_false_eq_true] at nd
  obtain ⟨⟨n1, n2, n3, n4⟩, ⟨p1, p2, p3⟩, ⟨q1, q2⟩, r1⟩ := nd
  have e : f + 5 = (((((f + 1) + 1) + 1) + 1) + 1) := by omega
  rw [e]
  rw [walk_L m i j _ a0 0 _ _ (by simp; exact fun h => n1 h.symm) oa0 o0, ha0, h0]
  rw [walk_L m i j _ a1 0 _ _ (by simp; exact ⟨fun h => n2 h.symm, fun h => p1 h.symm⟩) oa1 o0, ha1, h0]
  rw [walk_L m i j _ a2 0 _ _ (by simp; exact ⟨fun h => n3 h.symm, fun h => p2 h.symm, fun h => q1 h.symm⟩) oa2 o0,
    ha2, h0]
  rw [walk_L m i j _ a3 0 _ _ (by simp; exact ⟨fun h => n4 h.symm, fun h => p3 h.symm, fun h => q2 h.symm,
    fun h => r1 h.symm⟩) oa3 o0, ha3, h0]
  rw [walk_stop m i j _ a0 0 _ _ (by simp) (by simp)]
  congr 5
  simp only [mnStep_z _ a0 (Ne.symm n1), mnStep_z _ a1 (Ne.symm n2), mnStep_z _ a2 (Ne.symm n3),
    mnStep_z _ a3 (Ne.symm n4)]
  apply le_antisymm <;> simp [le_min_iff, min_le_iff]

/-! ## finite facts about the faces of the generated hex table -/

set_option maxRecDepth 100000 in
theorem hexFaceFacts : ∀ o, o < 24 →
    pp 1 (pp 1 (pp 1 (pp 1 o))) = o ∧ pp 0 o = pp 1 (pp 1 (pp 1 o)) ∧
    dir3 (pp 1 o) = dir3 o ∧ pp 0 (pp 3 o) = pp 3 (pp 1 o) ∧
    o ≠ pp 1 o ∧ o ≠ pp 1 (pp 1 o) ∧ o ≠ pp 1 (pp 1 (pp 1 o)) ∧
    pp 3 o ≠ pp 3 (pp 1 o) ∧ pp 3 o ≠ pp 3 (pp 1 (pp 1 o)) ∧ pp 3 o ≠ pp 3 (pp 1 (pp 1 (pp 1 o))) ∧
    ((o ≤ pp 1 o ∧ o ≤ pp 1 (pp 1 o) ∧ o ≤ pp 1 (pp 1 (pp 1 o))) ↔ o % 4 = 0) := by decide

theorem min9_eq (d b0 a1 a2 a3 b1 b2 b3 : Nat) :
    min (min d b0) (min (min (min d a1) (min a2 a3)) (min (min b0 b1) (min b2 b3))) = d ↔
      d ≤ b0 ∧ d ≤ a1 ∧ d ≤ a2 ∧ d ≤ a3 ∧ d ≤ b1 ∧ d ≤ b2 ∧ d ≤ b3 := by
  constructor
  · intro h
    have h' : d ≤ min (min d b0) (min (min (min d a1) (min a2 a3)) (min (min b0 b1) (min b2 b3))) := by
      rw [h]
    simp only [le_min_iff, le_refl, true_and] at h'
    obtain ⟨h1, ⟨h2, h3, h4⟩, ⟨_, h5⟩, h6, h7⟩ := h'
    exact ⟨h1, h2, h3, h4, h5, h6, h7⟩
  · rintro ⟨h1, h2, h3, h4, h5, h6, h7⟩
    apply le_antisymm
    · exact le_trans (min_le_left _ _) (min_le_left _ _)
    · simp only [le_min_iff, le_refl, true_and]
      exact ⟨h1, ⟨h2, h3, h4⟩, ⟨h1, h5⟩, h6, h7⟩

theorem nodup4 (B o o1 o2 o3 : Nat) (h1 : o ≠ o1) (h2 : o ≠ o2) (h3 : o ≠ o3) (h4 : o1 ≠ o2) (h5 : o1 ≠ o3)
    (h6 : o2 ≠ o3) : [0, 1 + B + o, 1 + B + o1, 1 + B + o2, 1 + B + o3].Nodup := by
  simp only [List.nodup_cons, List.mem_cons, List.not_mem_nil, or_false, not_or, List.nodup_nil, and_true,
    not_false_eq_true]
  refine ⟨⟨?_, ?_, ?_, ?_⟩, ⟨?_, ?_, ?_⟩, ⟨?_, ?_⟩, ?_⟩ <;> omega

theorem nodup8 (B B' o o1 o2 o3 p p1 p2 p3 : Nat) (h1 : o ≠ o1) (h2 : o ≠ o2) (h3 : o ≠ o3) (h4 : o1 ≠ o2)
    (h5 : o1 ≠ o3) (h6 : o2 ≠ o3) (k1 : p ≠ p1) (k2 : p ≠ p2) (k3 : p ≠ p3) (k4 : p1 ≠ p2) (k5 : p1 ≠ p3)
    (k6 : p2 ≠ p3) (lo : o < 24 ∧ o1 < 24 ∧ o2 < 24 ∧ o3 < 24) (lp : p < 24 ∧ p1 < 24 ∧ p2 < 24 ∧ p3 < 24)
    (sep : B + 24 ≤ B' ∨ B' + 24 ≤ B) :
    [0, 1 + B + o, 1 + B + o1, 1 + B + o2, 1 + B + o3, 1 + B' + p, 1 + B' + p1, 1 + B' + p2, 1 + B' + p3].Nodup := by
  simp only [List.nodup_cons, List.mem_cons, List.not_mem_nil, or_false, not_or, List.nodup_nil, and_true,
    not_false_eq_true]
  refine ⟨⟨?_, ?_, ?_, ?_, ?_, ?_, ?_, ?_⟩, ⟨?_, ?_, ?_, ?_, ?_, ?_, ?_⟩, ⟨?_, ?_, ?_, ?_, ?_, ?_⟩,
    ⟨?_, ?_, ?_, ?_, ?_⟩, ⟨?_, ?_, ?_, ?_⟩, ⟨?_, ?_, ?_⟩, ⟨?_, ?_⟩, ?_⟩ <;> omega

variable {nx ny nz : Nat} {m : Map Val}

/-- the neighbour across a `+` face has a larger cell index, across a `−` face a smaller one -/
theorem nbr_order (hnx : 0 < nx) (hny : 0 < ny) {dir a b c a' b' c' : Nat} (h1 : 1 ≤ dir) (h6 : dir ≤ 6)
    (hn : Nbr dir a b c a' b' c') :
    ((dir = 2 ∨ dir = 4 ∨ dir = 6) ∧ cellIdx nx ny a b c < cellIdx nx ny a' b' c') ∨
    ((dir = 1 ∨ dir = 3 ∨ dir = 5) ∧ cellIdx nx ny a' b' c' < cellIdx nx ny a b c) := by
  have hxy : 0 < nx * ny := Nat.mul_pos hnx hny
  rcases dir_cases h6 with e | e | e | e | e | e | e <;> subst e <;> simp only [Nbr] at hn <;>
    obtain ⟨e1, e2, e3⟩ := hn
  · omega
  · right; refine ⟨Or.inl rfl, ?_⟩
    have := cellIdx_xp nx ny a' b' c'; subst e2 e3; rw [← e1, this]; omega
  · left; refine ⟨Or.inl rfl, ?_⟩
    have := cellIdx_xp nx ny a b c; subst e2 e3; rw [e1, this]; omega
  · right; refine ⟨Or.inr (Or.inl rfl), ?_⟩
    have := cellIdx_yp nx ny a' b' c'; subst e1 e3; rw [← e2, this]; omega
  · left; refine ⟨Or.inr (Or.inl rfl), ?_⟩
    have := cellIdx_yp nx ny a b c; subst e1 e3; rw [e2, this]; omega
  · right; refine ⟨Or.inr (Or.inr rfl), ?_⟩
    have := cellIdx_zp nx ny a' b' c'; subst e1 e2; rw [← e3, this]; omega
  · left; refine ⟨Or.inr (Or.inr rfl), ?_⟩
    have := cellIdx_zp nx ny a b c; subst e1 e2; rw [e3, this]; omega

/-- non-transactional `face_id` (3-D) -/
def fid3 (m : Map Val) (d : Nat) : Nat := okVal (run (faceId3 m.n d) m) 0

/-- which darts are face identifiers -/
theorem fid3_iff (hnx : 0 < nx) (hny : 0 < ny) (st : SameTopo (H3 nx ny nz) m) {a b c o : Nat}
    (ha : a < nx) (hb : b < ny) (hc : c < nz) (ho : o < 24) :
    fid3 m (D3 nx ny a b c o) = D3 nx ny a b c o ↔
      (o % 4 = 0 ∧ (dir3 o = 2 ∨ dir3 o = 4 ∨ dir3 o = 6 ∨ m.β 3 (D3 nx ny a b c o) = 0)) := by
  have wf : WF 4 m := (H3_wf nz hnx hny).sameTopo st
  have hn : m.n = 24 * nx * ny * nz + 1 := st.n
  have hN : 1 ≤ nx * ny * nz := Nat.mul_pos (Nat.mul_pos hnx hny) (by omega)
  have hN' : 24 * nx * ny * nz = 24 * (nx * ny * nz) := by rw [Nat.mul_assoc 24, Nat.mul_assoc 24]
  have okD : ∀ i, i < 4 → ∀ a' b' c' o', a' < nx → b' < ny → c' < nz → o' < 24 →
      m.okβ i (D3 nx ny a' b' c' o') = true := by
    intro i hi a' b' c' o' ha' hb' hc' ho'
    exact okβ4 wf hi (by rw [hn]; exact D3_lt ha' hb' hc' ho')
  have ok0 : ∀ i, i < 4 → m.okβ i 0 = true := fun i hi => okβ4 wf hi (by omega)
  have n0 : ∀ i, i < 4 → m.β i 0 = 0 := fun i hi => wf.null i hi
  obtain ⟨_, _, _, _, q1, _, _, d1, d6, _⟩ := hexFacts o ho
  have q2 := (hexFacts (pp 1 o) q1).2.2.2.2.1
  have q3 := (hexFacts (pp 1 (pp 1 o)) q2).2.2.2.2.1
  obtain ⟨g1, g4, g2, g3, x1, x2, x3, y1, y2, y3, g6⟩ := hexFaceFacts o ho
  obtain ⟨_, _, g2a, g3a, x1a, x2a, _, y1a, y2a, _, _⟩ := hexFaceFacts (pp 1 o) q1
  obtain ⟨_, _, g2b, g3b, x1b, _, _, y1b, _, _, _⟩ := hexFaceFacts (pp 1 (pp 1 o)) q2
  obtain ⟨_, _, g2c, g3c, _⟩ := hexFaceFacts (pp 1 (pp 1 (pp 1 o))) q3
  -- the four darts of the face
  have ha0 : m.β 1 (D3 nx ny a b c o) = D3 nx ny a b c (pp 1 o) := βw st ha hb hc ho (by decide)
  have ha1 : m.β 1 (D3 nx ny a b c (pp 1 o)) = D3 nx ny a b c (pp 1 (pp 1 o)) := βw st ha hb hc q1 (by decide)
  have ha2 : m.β 1 (D3 nx ny a b c (pp 1 (pp 1 o))) = D3 nx ny a b c (pp 1 (pp 1 (pp 1 o))) :=
    βw st ha hb hc q2 (by decide)
  have ha3 : m.β 1 (D3 nx ny a b c (pp 1 (pp 1 (pp 1 o)))) = D3 nx ny a b c o := by
    rw [βw st ha hb hc q3 (by decide), g1]
  have hb0' : m.β 0 (D3 nx ny a b c o) = D3 nx ny a b c (pp 1 (pp 1 (pp 1 o))) := by
    rw [βw st ha hb hc ho (by decide), g4]
  have e5 : m.n + 1 = (m.n - 4) + 5 := by omega
  have e9 : m.n + 1 = (m.n - 8) + 9 := by omega
  have hdn : D3 nx ny a b c o < m.n := by rw [hn]; exact D3_lt ha hb hc ho
  unfold fid3 faceId3
  simp only [Prog.bind_eq, run_rB, okD 3 (by decide) a b c o ha hb hc ho, if_true]
  rcases β3_cases st ha hb hc ho with h3 | ⟨a', b', c', ha', hb', hc', hnb, h3⟩
  · -- free face
    rw [h3]
    simp only [if_true]
    rw [run_bind, e5, walk4 m 1 0 _ _ _ _ _ _ (okD 1 (by decide) a b c o ha hb hc ho)
      (okD 1 (by decide) a b c _ ha hb hc q1) (okD 1 (by decide) a b c _ ha hb hc q2)
      (okD 1 (by decide) a b c _ ha hb hc q3) (ok0 0 (by decide)) (n0 0 (by decide)) ha0 ha1 ha2 ha3
      (nodup4 (24 * cellIdx nx ny a b c) o _ _ _ x1 x2 x3 x1a x2a x1b)]
    simp only [true_or, or_true, if_true, Prog.bind_eq, run_rB, okD 0 (by decide) a b c o ha hb hc ho,
      ok0 1 (by decide), hb0', n0 1 (by decide)]
    rw [run_bind, walk_stop' m 0 1 _ _ 0 _ _ (by omega) (by simp) (by simp)]
    simp only [Prog.pure_eq, run_ret, okVal]
    have hd0 : D3 nx ny a b c (pp 1 (pp 1 (pp 1 o))) ≠ 0 := by
      have := D3_pos (nx := nx) (ny := ny) (a := a) (b := b) (c := c) (o := pp 1 (pp 1 (pp 1 o))); omega
    simp only [ne_eq, hd0, not_false_eq_true, if_true, not_true_eq_false, if_false, h3, or_true, and_true]
    rw [← g6]
    unfold D3 dartOf
    omega
  · -- glued face
    have hb3ne : D3 nx ny a' b' c' (pp 3 o) ≠ 0 := by
      have := D3_pos (nx := nx) (ny := ny) (a := a') (b := b') (c := c') (o := pp 3 o); omega
    have p3 := fun o' (ho' : o' < 24) => (hexFacts o' ho').2.2.2.2.2.2.1
    -- the β0 cycle on the other side
    have kb0 : m.β 0 (D3 nx ny a' b' c' (pp 3 o)) = D3 nx ny a' b' c' (pp 3 (pp 1 o)) := by
      rw [βw st ha' hb' hc' (p3 o ho) (by decide), g3]
    have kb1 : m.β 0 (D3 nx ny a' b' c' (pp 3 (pp 1 o))) = D3 nx ny a' b' c' (pp 3 (pp 1 (pp 1 o))) := by
      rw [βw st ha' hb' hc' (p3 _ q1) (by decide), g3a]
    have kb2 : m.β 0 (D3 nx ny a' b' c' (pp 3 (pp 1 (pp 1 o)))) =
        D3 nx ny a' b' c' (pp 3 (pp 1 (pp 1 (pp 1 o)))) := by
      rw [βw st ha' hb' hc' (p3 _ q2) (by decide), g3b]
    have kb3 : m.β 0 (D3 nx ny a' b' c' (pp 3 (pp 1 (pp 1 (pp 1 o))))) = D3 nx ny a' b' c' (pp 3 o) := by
      rw [βw st ha' hb' hc' (p3 _ q3) (by decide), g3c, g1]
    have ord := nbr_order hnx hny d1 d6 hnb
    have r0 := p3 o ho
    have r1 := p3 _ q1
    have r2 := p3 _ q2
    have r3 := p3 _ q3
    rw [h3]
    simp only [hb3ne, if_false]
    rw [run_bind, e9]
    obtain ⟨mk, hw⟩ := walk8 m 1 0 (D3 nx ny a b c o) (D3 nx ny a b c (pp 1 o)) (D3 nx ny a b c (pp 1 (pp 1 o)))
      (D3 nx ny a b c (pp 1 (pp 1 (pp 1 o)))) (D3 nx ny a' b' c' (pp 3 o)) (D3 nx ny a' b' c' (pp 3 (pp 1 o)))
      (D3 nx ny a' b' c' (pp 3 (pp 1 (pp 1 o)))) (D3 nx ny a' b' c' (pp 3 (pp 1 (pp 1 (pp 1 o)))))
      (min (D3 nx ny a b c o) (D3 nx ny a' b' c' (pp 3 o))) (m.n - 8)
      (okD 1 (by decide) a b c o ha hb hc ho) (okD 1 (by decide) a b c _ ha hb hc q1)
      (okD 1 (by decide) a b c _ ha hb hc q2) (okD 1 (by decide) a b c _ ha hb hc q3)
      (okD 0 (by decide) a' b' c' _ ha' hb' hc' r0) (okD 0 (by decide) a' b' c' _ ha' hb' hc' r1)
      (okD 0 (by decide) a' b' c' _ ha' hb' hc' r2) (okD 0 (by decide) a' b' c' _ ha' hb' hc' r3)
      ha0 ha1 ha2 ha3 kb0 kb1 kb2 kb3
      (nodup8 (24 * cellIdx nx ny a b c) (24 * cellIdx nx ny a' b' c') o _ _ _ _ _ _ _ x1 x2 x3 x1a x2a x1b
        y1 y2 y3 y1a y2a y1b ⟨ho, q1, q2, q3⟩ ⟨r0, r1, r2, r3⟩ (by rcases ord with ⟨_, h⟩ | ⟨_, h⟩ <;> omega))
    rw [hw]
    have hd0 : D3 nx ny a b c o ≠ 0 := by
      have := D3_pos (nx := nx) (ny := ny) (a := a) (b := b) (c := c) (o := o); omega
    simp only [hd0, hb3ne, or_self, if_false, Prog.pure_eq, run_ret, okVal]
    rw [R8_eq _ _ _ _ _ _ _ _ _ hd0
      (by have := D3_pos (nx := nx) (ny := ny) (a := a) (b := b) (c := c) (o := pp 1 o); omega)
      (by have := D3_pos (nx := nx) (ny := ny) (a := a) (b := b) (c := c) (o := pp 1 (pp 1 o)); omega)
      (by have := D3_pos (nx := nx) (ny := ny) (a := a) (b := b) (c := c) (o := pp 1 (pp 1 (pp 1 o))); omega)
      hb3ne
      (by have := D3_pos (nx := nx) (ny := ny) (a := a') (b := b') (c := c') (o := pp 3 (pp 1 o)); omega)
      (by have := D3_pos (nx := nx) (ny := ny) (a := a') (b := b') (c := c') (o := pp 3 (pp 1 (pp 1 o))); omega)
      (by have := D3_pos (nx := nx) (ny := ny) (a := a') (b := b') (c := c') (o := pp 3 (pp 1 (pp 1 (pp 1 o)))); omega)]
    simp only [hb3ne, or_false]
    rw [min9_eq, ← g6]
    unfold D3 dartOf
    rcases ord with ⟨hd, hlt⟩ | ⟨hd, hlt⟩
    · constructor
      · intro h; exact ⟨⟨by omega, by omega, by omega⟩, by omega⟩
      · rintro ⟨⟨h1, h2, h3⟩, _⟩
        exact ⟨by omega, by omega, by omega, by omega, by omega, by omega, by omega⟩
    · constructor
      · intro h; omega
      · rintro ⟨_, h⟩; omega

/-! ## counting the face identifiers -/

set_option maxRecDepth 100000 in
theorem hexFaceDirs : ∀ o, o < 24 → o % 4 = 0 →
    (o / 4 = 0 → dir3 o = 3) ∧ (o / 4 = 1 → dir3 o = 5) ∧ (o / 4 = 2 → dir3 o = 2) ∧
    (o / 4 = 3 → dir3 o = 6) ∧ (o / 4 = 4 → dir3 o = 1) ∧ (o / 4 = 5 → dir3 o = 4) := by decide

/-- β3 of a dart is null exactly on the outer boundary in the direction of its face -/
theorem β3_zero_iff (st : SameTopo (H3 nx ny nz) m) {a b c o : Nat} (ha : a < nx) (hb : b < ny) (hc : c < nz)
    (ho : o < 24) :
    m.β 3 (D3 nx ny a b c o) = 0 ↔
      ((dir3 o = 1 ∧ a = 0) ∨ (dir3 o = 2 ∧ a + 1 = nx) ∨ (dir3 o = 3 ∧ b = 0) ∨ (dir3 o = 4 ∧ b + 1 = ny) ∨
       (dir3 o = 5 ∧ c = 0) ∨ (dir3 o = 6 ∧ c + 1 = nz)) := by
  obtain ⟨_, _, _, _, _, _, _, d1, d6, _⟩ := hexFacts o ho
  rw [β_D3 st ha hb hc ho (by decide)]
  show absEntry 24 nx ny nz a b c (dir3 o) (pp 3 o) = 0 ↔ _
  have pos : ∀ a' b' c' o', dartOf 24 nx ny a' b' c' o' ≠ 0 := by
    intro a' b' c' o'; have := dartOf_pos (K := 24) (nx := nx) (ny := ny) (ix := a') (iy := b') (iz := c') (o := o'); omega
  rcases dir_cases d6 with e | e | e | e | e | e | e <;> rw [e] <;> simp only [absEntry]
  · omega
  all_goals (split <;> simp_all)

/-- which darts are face identifiers, by cell coordinates -/
theorem fid3_iff' (hnx : 0 < nx) (hny : 0 < ny) (st : SameTopo (H3 nx ny nz) m) {a b c o : Nat}
    (ha : a < nx) (hb : b < ny) (hc : c < nz) (ho : o < 24) :
    fid3 m (D3 nx ny a b c o) = D3 nx ny a b c o ↔
      (o % 4 = 0 ∧ (o / 4 = 2 ∨ o / 4 = 3 ∨ o / 4 = 5 ∨ (o / 4 = 0 ∧ b = 0) ∨ (o / 4 = 1 ∧ c = 0) ∨
        (o / 4 = 4 ∧ a = 0))) := by
  rw [fid3_iff hnx hny st ha hb hc ho, β3_zero_iff st ha hb hc ho]
  constructor
  · rintro ⟨h4, h⟩
    obtain ⟨f0, f1, f2, f3, f4, f5⟩ := hexFaceDirs o ho h4
    refine ⟨h4, ?_⟩
    have : o / 4 = 0 ∨ o / 4 = 1 ∨ o / 4 = 2 ∨ o / 4 = 3 ∨ o / 4 = 4 ∨ o / 4 = 5 := by omega
    rcases this with e | e | e | e | e | e
    · have := f0 e; omega
    · have := f1 e; omega
    · omega
    · omega
    · have := f4 e; omega
    · omega
  · rintro ⟨h4, h⟩
    obtain ⟨f0, f1, f2, f3, f4, f5⟩ := hexFaceDirs o ho h4
    refine ⟨h4, ?_⟩
    rcases h with e | e | e | ⟨e, e'⟩ | ⟨e, e'⟩ | ⟨e, e'⟩
    · have := f2 e; omega
    · have := f3 e; omega
    · have := f5 e; omega
    · have := f0 e; omega
    · have := f1 e; omega
    · have := f4 e; omega

/-- coding of the face identifiers by `0 .. 3·N + nx·nz + nx·ny + ny·nz − 1` -/
def fcode (nx ny nz d : Nat) : Nat :=
  let C := (d - 1) / 24
  let f := (d - 1) % 24 / 4
  let a := C % nx
  let b := C / nx % ny
  let c := C / (nx * ny)
  if f = 2 then 3 * C else if f = 3 then 3 * C + 1 else if f = 5 then 3 * C + 2
  else if f = 0 then 3 * (nx * ny * nz) + (a + nx * c)
  else if f = 1 then 3 * (nx * ny * nz) + nx * nz + (a + nx * b)
  else 3 * (nx * ny * nz) + nx * nz + nx * ny + (b + ny * c)

theorem fcode_D {a b c o : Nat} (ha : a < nx) (hb : b < ny) (ho : o < 24) :
    fcode nx ny nz (D3 nx ny a b c o) =
      if o / 4 = 2 then 3 * cellIdx nx ny a b c else if o / 4 = 3 then 3 * cellIdx nx ny a b c + 1
      else if o / 4 = 5 then 3 * cellIdx nx ny a b c + 2
      else if o / 4 = 0 then 3 * (nx * ny * nz) + (a + nx * c)
      else if o / 4 = 1 then 3 * (nx * ny * nz) + nx * nz + (a + nx * b)
      else 3 * (nx * ny * nz) + nx * nz + nx * ny + (b + ny * c) := by
  unfold fcode D3
  simp only [dartOf_cell ho, dartOf_local ho, cellIdx_x ha, cellIdx_y ha hb, cellIdx_z ha hb]

/-- `iter_faces` yields `3·nx·ny·nz + nx·nz + nx·ny + ny·nz` identifiers -/
theorem iterFaces_length (hnx : 0 < nx) (hny : 0 < ny) (hnz : 0 < nz) (st : SameTopo (H3 nx ny nz) m) :
    (iterFaces3 m).length = 3 * (nx * ny * nz) + nx * nz + nx * ny + ny * nz := by
  have hn : m.n = 24 * nx * ny * nz + 1 := st.n
  have hN' : 24 * nx * ny * nz = 24 * (nx * ny * nz) := by rw [Nat.mul_assoc 24, Nat.mul_assoc 24]
  unfold iterFaces3 iterCells
  have hcongr : (List.range m.n).filter (fun d => decide (d ≠ 0 ∧ (!m.unused d) = true ∧
        okVal (run (faceId3 m.n d) m) 0 = d)) =
      (List.range m.n).filter (fun d => decide (d ≠ 0 ∧ fid3 m d = d)) := by
    apply List.filter_congr
    intro d hd
    have hu : m.unused d = false := by rw [st.unused]; exact gridMap_unused _ _ _ _
    rw [decide_eq_decide]
    simp [hu, fid3]
  rw [hcongr]
  apply length_filter_bij m.n _ _ (fcode nx ny nz)
  · intro x hx px y hy py h
    simp only [ne_eq, decide_eq_true_eq] at px py
    obtain ⟨a, b, c, o, ha, hb, hc, ho, rfl⟩ := isD3_of_range (d := x) (nz := nz) hnx hny (by omega) (by omega)
    obtain ⟨a', b', c', o', ha', hb', hc', ho', rfl⟩ := isD3_of_range (d := y) (nz := nz) hnx hny (by omega) (by omega)
    obtain ⟨i4, ix⟩ := (fid3_iff' hnx hny st ha hb hc ho).mp px.2
    obtain ⟨i4', iy⟩ := (fid3_iff' hnx hny st ha' hb' hc' ho').mp py.2
    rw [fcode_D ha hb ho, fcode_D ha' hb' ho'] at h
    have c1 := cellIdx_lt (nx := nx) (ny := ny) (nz := nz) ha hb hc
    have c2 := cellIdx_lt (nx := nx) (ny := ny) (nz := nz) ha' hb' hc'
    have r1 : a + nx * c < nx * nz := add_mul_lt ha hc
    have r1' : a' + nx * c' < nx * nz := add_mul_lt ha' hc'
    have r2 : a + nx * b < nx * ny := add_mul_lt ha hb
    have r2' : a' + nx * b' < nx * ny := add_mul_lt ha' hb'
    have r3 : b + ny * c < ny * nz := add_mul_lt hb hc
    have r3' : b' + ny * c' < ny * nz := add_mul_lt hb' hc'
    have key0 : cellIdx nx ny a b c = cellIdx nx ny a' b' c' → a = a' ∧ b = b' ∧ c = c' := by
      intro e
      refine ⟨?_, ?_, ?_⟩
      · rw [← cellIdx_x (ny := ny) (iy := b) (iz := c) ha, e, cellIdx_x ha']
      · rw [← cellIdx_y (iz := c) ha hb, e, cellIdx_y ha' hb']
      · rw [← cellIdx_z (iz := c) ha hb, e, cellIdx_z ha' hb']
    have key1 : a + nx * c = a' + nx * c' → a = a' ∧ c = c' := by
      intro e
      exact ⟨by rw [← add_mul_mod (n := nx) c ha, e, add_mul_mod _ ha'],
             by rw [← add_mul_div (n := nx) c ha, e, add_mul_div _ ha']⟩
    have key2 : a + nx * b = a' + nx * b' → a = a' ∧ b = b' := by
      intro e
      exact ⟨by rw [← add_mul_mod (n := nx) b ha, e, add_mul_mod _ ha'],
             by rw [← add_mul_div (n := nx) b ha, e, add_mul_div _ ha']⟩
    have key3 : b + ny * c = b' + ny * c' → b = b' ∧ c = c' := by
      intro e
      exact ⟨by rw [← add_mul_mod (n := ny) c hb, e, add_mul_mod _ hb'],
             by rw [← add_mul_div (n := ny) c hb, e, add_mul_div _ hb']⟩
    have fin : a = a' ∧ b = b' ∧ c = c' ∧ o = o' := by
      rcases ix with e | e | e | ⟨e, z⟩ | ⟨e, z⟩ | ⟨e, z⟩ <;>
        rcases iy with e' | e' | e' | ⟨e', z'⟩ | ⟨e', z'⟩ | ⟨e', z'⟩ <;>
        simp only [e, e'] at h <;> (try simp at h) <;> omega
    obtain ⟨rfl, rfl, rfl, rfl⟩ := fin
    rfl
  · intro x hx px
    simp only [ne_eq, decide_eq_true_eq] at px
    obtain ⟨a, b, c, o, ha, hb, hc, ho, rfl⟩ := isD3_of_range (d := x) (nz := nz) hnx hny (by omega) (by omega)
    obtain ⟨i4, ix⟩ := (fid3_iff' hnx hny st ha hb hc ho).mp px.2
    rw [fcode_D ha hb ho]
    have c1 := cellIdx_lt (nx := nx) (ny := ny) (nz := nz) ha hb hc
    have r1 : a + nx * c < nx * nz := add_mul_lt ha hc
    have r2 : a + nx * b < nx * ny := add_mul_lt ha hb
    have r3 : b + ny * c < ny * nz := add_mul_lt hb hc
    rcases ix with e | e | e | ⟨e, z⟩ | ⟨e, z⟩ | ⟨e, z⟩ <;> simp only [e] <;> (try simp) <;> omega
  · intro t ht
    by_cases h1 : t < 3 * (nx * ny * nz)
    · have hc : t / 3 < nx * ny * nz := by omega
      have hff : ∃ f, (f = 2 ∨ f = 3 ∨ f = 5) ∧ (t % 3 = 0 → f = 2) ∧ (t % 3 = 1 → f = 3) ∧ (t % 3 = 2 → f = 5) := by
        have : t % 3 = 0 ∨ t % 3 = 1 ∨ t % 3 = 2 := by omega
        rcases this with h | h | h
        · exact ⟨2, Or.inl rfl, fun _ => rfl, by omega, by omega⟩
        · exact ⟨3, Or.inr (Or.inl rfl), by omega, fun _ => rfl, by omega⟩
        · exact ⟨5, Or.inr (Or.inr rfl), by omega, by omega, fun _ => rfl⟩
      obtain ⟨f, hf, hf0, hf1, hf2⟩ := hff
      have hd1 : 1 ≤ 1 + 24 * (t / 3) + 4 * f := by omega
      have hd2 : 1 + 24 * (t / 3) + 4 * f ≤ 24 * nx * ny * nz := by omega
      obtain ⟨a, b, c, o, ha, hb, hc', ho, e⟩ := isD3_of_range (nz := nz) hnx hny hd1 hd2
      have ec : (1 + 24 * (t / 3) + 4 * f - 1) / 24 = t / 3 := by omega
      have ek : (1 + 24 * (t / 3) + 4 * f - 1) % 24 = 4 * f := by omega
      have ec' : (D3 nx ny a b c o - 1) / 24 = cellIdx nx ny a b c := dartOf_cell ho
      have ek' : (D3 nx ny a b c o - 1) % 24 = o := dartOf_local ho
      rw [← e] at ec' ek'
      have ho4 : o = 4 * f := by omega
      have hcell : cellIdx nx ny a b c = t / 3 := by omega
      refine ⟨1 + 24 * (t / 3) + 4 * f, by omega, ?_, ?_⟩
      · simp only [ne_eq, decide_eq_true_eq]
        refine ⟨by omega, ?_⟩
        rw [e]
        exact (fid3_iff' hnx hny st ha hb hc' ho).mpr ⟨by omega, by omega⟩
      · rw [e, fcode_D ha hb ho, hcell, ho4]
        rcases hf with h | h | h <;> subst h <;> simp <;> omega
    · by_cases h2 : t < 3 * (nx * ny * nz) + nx * nz
      · -- y- face of a cell of the first row
        have hlt : t - 3 * (nx * ny * nz) < nx * nz := by omega
        have ha : (t - 3 * (nx * ny * nz)) % nx < nx := Nat.mod_lt _ hnx
        have hc : (t - 3 * (nx * ny * nz)) / nx < nz := by
          rw [Nat.div_lt_iff_lt_mul hnx]; have := Nat.mul_comm nz nx; omega
        have hd := Nat.mod_add_div (t - 3 * (nx * ny * nz)) nx
        refine ⟨D3 nx ny _ 0 _ 0, by rw [hn]; exact D3_lt ha hny hc (by decide), ?_, ?_⟩
        · simp only [ne_eq, decide_eq_true_eq]
          refine ⟨?_, (fid3_iff' hnx hny st ha hny hc (by decide)).mpr ⟨by decide, by omega⟩⟩
          have := D3_pos (nx := nx) (ny := ny) (a := (t - 3 * (nx * ny * nz)) % nx) (b := 0)
            (c := (t - 3 * (nx * ny * nz)) / nx) (o := 0); omega
        · rw [fcode_D ha hny (by decide)]; simp; omega
      · by_cases h3 : t < 3 * (nx * ny * nz) + nx * nz + nx * ny
        · -- z- face of a cell of the first layer
          have hlt : t - (3 * (nx * ny * nz) + nx * nz) < nx * ny := by omega
          have ha : (t - (3 * (nx * ny * nz) + nx * nz)) % nx < nx := Nat.mod_lt _ hnx
          have hb : (t - (3 * (nx * ny * nz) + nx * nz)) / nx < ny := by
            rw [Nat.div_lt_iff_lt_mul hnx]; have := Nat.mul_comm ny nx; omega
          have hd := Nat.mod_add_div (t - (3 * (nx * ny * nz) + nx * nz)) nx
          refine ⟨D3 nx ny _ _ 0 4, by rw [hn]; exact D3_lt ha hb hnz (by decide), ?_, ?_⟩
          · simp only [ne_eq, decide_eq_true_eq]
            refine ⟨?_, (fid3_iff' hnx hny st ha hb hnz (by decide)).mpr ⟨by decide, by omega⟩⟩
            have := D3_pos (nx := nx) (ny := ny) (a := (t - (3 * (nx * ny * nz) + nx * nz)) % nx)
              (b := (t - (3 * (nx * ny * nz) + nx * nz)) / nx) (c := 0) (o := 4); omega
          · rw [fcode_D ha hb (by decide)]; simp; omega
        · -- x- face of a cell of the first column
          have hlt : t - (3 * (nx * ny * nz) + nx * nz + nx * ny) < ny * nz := by omega
          have hb : (t - (3 * (nx * ny * nz) + nx * nz + nx * ny)) % ny < ny := Nat.mod_lt _ hny
          have hc : (t - (3 * (nx * ny * nz) + nx * nz + nx * ny)) / ny < nz := by
            rw [Nat.div_lt_iff_lt_mul hny]; have := Nat.mul_comm nz ny; omega
          have hd := Nat.mod_add_div (t - (3 * (nx * ny * nz) + nx * nz + nx * ny)) ny
          refine ⟨D3 nx ny 0 _ _ 16, by rw [hn]; exact D3_lt hnx hb hc (by decide), ?_, ?_⟩
          · simp only [ne_eq, decide_eq_true_eq]
            refine ⟨?_, (fid3_iff' hnx hny st hnx hb hc (by decide)).mpr ⟨by decide, by omega⟩⟩
            have := D3_pos (nx := nx) (ny := ny) (a := 0) (b := (t - (3 * (nx * ny * nz) + nx * nz + nx * ny)) % ny)
              (c := (t - (3 * (nx * ny * nz) + nx * nz + nx * ny)) / ny) (o := 16); omega
          · rw [fcode_D hnx hb (by decide)]; simp; omega

end HC.Grid3Face
