/-
  A small Hoare calculus for kernels that are compositions of link / unlink cores, reads and
  attribute writes: `Keeps n u p` says that a successful run of `p` from a well-formed 2-map with
  dart count `n` and removal flags `u` ends in a well-formed 2-map with the same `n` and `u`.
  Since `n` and `u` never change, "is a live dart" (`Live n u d`) is a state-independent fact and
  the calculus composes sequentially.  Used by C14 (vertex insertion) and C13.
-/
import Honeycomb.Lemmas.WFLink
import Honeycomb.Props.C01

namespace HC
variable {X α β : Type}

structure Inv (n : Nat) (u : Array Bool) (m : Map X) : Prop where
  wf : WF 3 m
  n_eq : m.n = n
  u_eq : m.u = u

/-- non-null, existing, not removed — phrased on the fixed `n`, `u` -/
def Live (n : Nat) (u : Array Bool) (d : Nat) : Prop := d ≠ 0 ∧ d < n ∧ rd u d = false

theorem Inv.inUse {n : Nat} {u : Array Bool} {m : Map X} (h : Inv n u m) {d : Nat} (hd : Live n u d) :
    C01.InUse m d := by
  refine ⟨hd.1, by rw [h.n_eq]; exact hd.2.1, ?_⟩
  unfold Map.unused; rw [h.u_eq]; exact hd.2.2

def Keeps (n : Nat) (u : Array Bool) (p : P X α) : Prop :=
  ∀ (m m' : Map X) (a : α), Inv n u m → run p m = (.ok a, m') → Inv n u m'

namespace Keeps
variable {n : Nat} {u : Array Bool}

theorem pure (a : α) : Keeps n u (pure a : P X α) := by
  intro m m' b h hr; simp at hr; rw [← hr.2]; exact h

theorem ret (a : α) : Keeps n u (Prog.ret a : P X α) := pure a

theorem abort (e : Err) : Keeps n u (HC.abort e : P X α) := by
  intro m m' b _ hr; simp at hr

theorem panic : Keeps n u (Prog.panic : P X α) := by
  intro m m' b _ hr; simp at hr

theorem bind {p : P X α} {f : α → P X β} (hp : Keeps n u p) (hf : ∀ a, Keeps n u (f a)) :
    Keeps n u (p.bind f) := by
  intro m m' b h hr
  obtain ⟨a, m1, h1, h2⟩ := run_bind_ok hr
  exact hf a _ _ b (hp _ _ a h h1) h2

theorem of_attrOnly {p : P X α} (hp : AttrOnly p) : Keeps n u p := by
  intro m m' a h hr
  have st := hp m; rw [hr] at st
  exact ⟨h.wf.sameTopo st, by rw [st.n]; exact h.n_eq, by rw [st.u]; exact h.u_eq⟩

theorem of_readOnly {p : P X α} (hp : ReadOnly p) : Keeps n u p := of_attrOnly (AttrOnly.of_readOnly hp)

theorem ro_bind {p : P X α} {f : α → P X β} (hp : ReadOnly p) (hf : ∀ a, Keeps n u (f a)) :
    Keeps n u (p.bind f) := bind (of_readOnly hp) hf

theorem ite {c : Prop} [Decidable c] {p q : P X α} (hp : c → Keeps n u p) (hq : ¬ c → Keeps n u q) :
    Keeps n u (if c then p else q) := by
  split
  · exact hp ‹_›
  · exact hq ‹_›

/-- a β read on a well-formed map returns an existing dart which, if non-null, is live -/
theorem rB_bind {i d : Nat} {f : Nat → P X β}
    (hf : ∀ x, i < 3 → d < n → x < n → (x ≠ 0 → Live n u x) → Keeps n u (f x)) :
    Keeps n u ((rB i d).bind f) := by
  intro m m' b h hr
  rw [run_rB] at hr
  by_cases hok : m.okβ i d = true
  · simp only [hok, if_true] at hr
    have hid := (h.wf.toSized.okβ i d).1 hok
    have hx : m.β i d < m.n := h.wf.range i hid.1 d hid.2
    refine hf (m.β i d) hid.1 (by rw [← h.n_eq]; exact hid.2) (by rw [← h.n_eq]; exact hx) ?_ m m' b h hr
    intro hne
    refine ⟨hne, by rw [← h.n_eq]; exact hx, ?_⟩
    have hno := C01.C01_unused_is_nobodys_image h.wf i hid.1 d hid.2
    have : m.unused (m.β i d) ≠ true := fun hh => hne (hno hh)
    have h2 : m.unused (m.β i d) = false := by
      cases hc : m.unused (m.β i d)
      · rfl
      · exact absurd hc this
    unfold Map.unused at h2; rw [h.u_eq] at h2; exact h2
  · simp [hok] at hr

theorem oneLinkCore {l r : Nat} (hl : Live n u l) (hr : Live n u r) :
    Keeps n u (HC.oneLinkCore (X := X) l r) := by
  intro m m' a h hrun
  have := C01.safe_oneLinkCore (X := X) l r m m' a h.wf ⟨h.inUse hl, h.inUse hr⟩ hrun
  obtain ⟨_, _, _, _, rfl⟩ := oneLinkCore_ok hrun
  exact ⟨this, h.n_eq, h.u_eq⟩

theorem twoLinkCore {l r : Nat} (hl : Live n u l) (hr : Live n u r) (hlr : l ≠ r) :
    Keeps n u (HC.iLinkCore (X := X) 2 l r) := by
  intro m m' a h hrun
  have := C01.safe_twoLinkCore (X := X) l r m m' a h.wf ⟨h.inUse hl, h.inUse hr, hlr⟩ hrun
  obtain ⟨_, _, _, _, rfl⟩ := iLinkCore_ok hrun
  exact ⟨this, h.n_eq, h.u_eq⟩

theorem oneUnlinkCore {l : Nat} (hl : Live n u l) : Keeps n u (HC.oneUnlinkCore (X := X) l) := by
  intro m m' a h hrun
  have := C01.safe_oneUnlinkCore (X := X) l m m' a h.wf (h.inUse hl) hrun
  obtain ⟨_, _, _, rfl⟩ := oneUnlinkCore_ok hrun
  exact ⟨this, h.n_eq, h.u_eq⟩

theorem twoUnlinkCore {l : Nat} (hl : Live n u l) : Keeps n u (HC.iUnlinkCore (X := X) 2 l) := by
  intro m m' a h hrun
  have := C01.safe_twoUnlinkCore (X := X) l m m' a h.wf (h.inUse hl) hrun
  obtain ⟨_, _, _, rfl⟩ := iUnlinkCore_ok hrun
  exact ⟨this, h.n_eq, h.u_eq⟩

end Keeps

/-- `Keeps` with a (state-independent) postcondition on the returned value -/
def KeepsR (n : Nat) (u : Array Bool) (p : P X α) (R : α → Prop) : Prop :=
  ∀ (m m' : Map X) (a : α), Inv n u m → run p m = (.ok a, m') → Inv n u m' ∧ R a

namespace KeepsR
variable {n : Nat} {u : Array Bool}

theorem pure {R : α → Prop} (a : α) (h : R a) : KeepsR n u (pure a : P X α) R := by
  intro m m' b hi hr; simp at hr; rw [← hr.2, ← hr.1]; exact ⟨hi, h⟩

theorem bind {p : P X α} {f : α → P X β} {R : α → Prop} (hp : KeepsR n u p R)
    (hf : ∀ a, R a → Keeps n u (f a)) : Keeps n u (p.bind f) := by
  intro m m' b h hr
  obtain ⟨a, m1, h1, h2⟩ := run_bind_ok hr
  obtain ⟨i1, ra⟩ := hp _ _ a h h1
  exact hf a ra _ _ b i1 h2

theorem bindR {p : P X α} {f : α → P X β} {R : α → Prop} {S : β → Prop} (hp : KeepsR n u p R)
    (hf : ∀ a, R a → KeepsR n u (f a) S) : KeepsR n u (p.bind f) S := by
  intro m m' b h hr
  obtain ⟨a, m1, h1, h2⟩ := run_bind_ok hr
  obtain ⟨i1, ra⟩ := hp _ _ a h h1
  exact hf a ra _ _ b i1 h2

theorem of_keeps {p : P X α} (hp : Keeps n u p) : KeepsR n u p (fun _ => True) :=
  fun m m' a h hr => ⟨hp m m' a h hr, trivial⟩

theorem keeps_bindR {p : P X α} {f : α → P X β} {S : β → Prop} (hp : Keeps n u p)
    (hf : ∀ a, KeepsR n u (f a) S) : KeepsR n u (p.bind f) S :=
  bindR (of_keeps hp) (fun a _ => hf a)

end KeepsR

theorem Inv.of_wf {m : Map X} (h : WF 3 m) : Inv m.n m.u m := ⟨h, rfl, rfl⟩

/-- peel a read-only prefix off a successful run -/
theorem ro_bind_ok {p : P X α} {f : α → P X β} (hp : ReadOnly p) {m m' : Map X} {b : β}
    (h : run (p.bind f) m = (.ok b, m')) : ∃ a, run p m = (.ok a, m) ∧ run (f a) m = (.ok b, m') := by
  obtain ⟨a, m1, h1, h2⟩ := run_bind_ok h
  have := hp.run_ok h1; subst this
  exact ⟨a, h1, h2⟩

theorem Live.of_inUse {m : Map X} {d : Nat} (h : C01.InUse m d) : Live m.n m.u d := h

end HC
