/-
  Generic theory of "regular grid" β tables (DESIGN.md Appendix A5), shared by the three builders
  of C12.

  A `Shape` describes a table of `K` rows (local darts) × `nb` columns (β_0 … β_{nb-1}); every entry
  is `(dir, o)`: the image is local dart `o` of the same cell (`dir = 0`) or of the neighbouring
  cell in direction `dir` (1 = x-, 2 = x+, 3 = y-, 4 = y+, 5 = z-, 6 = z+), and it is the null
  dart when that neighbour does not exist.  `absβ` is the β function such a table defines on an
  `nx × ny × nz` grid with the dart numbering of `grid.rs`.

  Main result: `absWF` — if the finite, decidable check `Shape.Ok` holds (β0/β1 inverse columns,
  every further column pairs `(dir, o)` at row `j` with `(opp dir, j)` at row `o`), then the map is
  well-formed (`WF nb`) for **all** `nx, ny, nz ≥ 1`.
-/
import Honeycomb.Model.Grid
import Honeycomb.Model.WF

namespace HC

/-! ## index arithmetic (Appendix A5) -/

theorem add_mul_lt {a n b m : Nat} (ha : a < n) (hb : b < m) : a + n * b < n * m := by
  have h1 : n * (b + 1) ≤ n * m := Nat.mul_le_mul_left n hb
  have h2 : n * (b + 1) = n * b + n := Nat.mul_succ n b
  omega

theorem add_mul_mod {a n : Nat} (b : Nat) (ha : a < n) : (a + n * b) % n = a := by
  rw [Nat.add_mul_mod_self_left, Nat.mod_eq_of_lt ha]

theorem add_mul_div {a n : Nat} (b : Nat) (ha : a < n) : (a + n * b) / n = b := by
  have hn : 0 < n := by omega
  rw [Nat.add_mul_div_left _ _ hn, Nat.div_eq_of_lt ha, Nat.zero_add]

/-- index of cell `(ix, iy, iz)` in iteration order (x fastest) -/
def cellIdx (nx ny ix iy iz : Nat) : Nat := ix + nx * (iy + ny * iz)

/-- local dart `o` (0-based) of cell `(ix, iy, iz)` with `K` darts per cell -/
def dartOf (K nx ny ix iy iz o : Nat) : Nat := 1 + K * cellIdx nx ny ix iy iz + o

section Idx
variable {K nx ny nz ix iy iz o : Nat}

theorem cellIdx_lt (hx : ix < nx) (hy : iy < ny) (hz : iz < nz) :
    cellIdx nx ny ix iy iz < nx * ny * nz := by
  unfold cellIdx
  have h1 : iy + ny * iz < ny * nz := add_mul_lt hy hz
  have h2 := add_mul_lt hx h1
  rwa [← Nat.mul_assoc] at h2

theorem cellIdx_x (hx : ix < nx) : cellIdx nx ny ix iy iz % nx = ix := add_mul_mod _ hx

theorem cellIdx_div (hx : ix < nx) : cellIdx nx ny ix iy iz / nx = iy + ny * iz := add_mul_div _ hx

theorem cellIdx_y (hx : ix < nx) (hy : iy < ny) : cellIdx nx ny ix iy iz / nx % ny = iy := by
  rw [cellIdx_div hx, add_mul_mod _ hy]

theorem cellIdx_z (hx : ix < nx) (hy : iy < ny) : cellIdx nx ny ix iy iz / (nx * ny) = iz := by
  rw [← Nat.div_div_eq_div_mul, cellIdx_div hx, add_mul_div _ hy]

theorem dartOf_cell (ho : o < K) : (dartOf K nx ny ix iy iz o - 1) / K = cellIdx nx ny ix iy iz := by
  unfold dartOf
  have : 1 + K * cellIdx nx ny ix iy iz + o - 1 = o + K * cellIdx nx ny ix iy iz := by omega
  rw [this]; exact add_mul_div _ ho

theorem dartOf_local (ho : o < K) : (dartOf K nx ny ix iy iz o - 1) % K = o := by
  unfold dartOf
  have : 1 + K * cellIdx nx ny ix iy iz + o - 1 = o + K * cellIdx nx ny ix iy iz := by omega
  rw [this]; exact add_mul_mod _ ho

theorem dartOf_pos : 1 ≤ dartOf K nx ny ix iy iz o := by unfold dartOf; omega

theorem dartOf_le (hx : ix < nx) (hy : iy < ny) (hz : iz < nz) (ho : o < K) :
    dartOf K nx ny ix iy iz o ≤ K * (nx * ny * nz) := by
  unfold dartOf
  have h := cellIdx_lt (nx := nx) (ny := ny) (nz := nz) hx hy hz
  have h1 : K * (cellIdx nx ny ix iy iz + 1) ≤ K * (nx * ny * nz) := Nat.mul_le_mul_left K h
  have h2 : K * (cellIdx nx ny ix iy iz + 1) = K * cellIdx nx ny ix iy iz + K := Nat.mul_succ _ _
  omega

/-- two darts coincide only if cell and local index coincide -/
theorem dartOf_inj {ix' iy' iz' o' : Nat} (hx : ix < nx) (hy : iy < ny) (ho : o < K)
    (hx' : ix' < nx) (hy' : iy' < ny) (ho' : o' < K)
    (h : dartOf K nx ny ix iy iz o = dartOf K nx ny ix' iy' iz' o') :
    ix = ix' ∧ iy = iy' ∧ iz = iz' ∧ o = o' := by
  have hc : cellIdx nx ny ix iy iz = cellIdx nx ny ix' iy' iz' := by
    rw [← dartOf_cell (K := K) (o := o) ho, h, dartOf_cell ho']
  have hl : o = o' := by
    rw [← dartOf_local (K := K) (nx := nx) (ny := ny) (ix := ix) (iy := iy) (iz := iz) ho, h, dartOf_local ho']
  refine ⟨?_, ?_, ?_, hl⟩
  · rw [← cellIdx_x (ny := ny) (iy := iy) (iz := iz) hx, hc, cellIdx_x hx']
  · rw [← cellIdx_y (iz := iz) hx hy, hc, cellIdx_y hx' hy']
  · rw [← cellIdx_z (iz := iz) hx hy, hc, cellIdx_z hx' hy']

/-- every dart `1 ≤ d ≤ K·nx·ny·nz` is a local dart of a cell -/
theorem decode {d : Nat} (hK : 0 < K) (hx : 0 < nx) (hy : 0 < ny) (h1 : 1 ≤ d)
    (h2 : d ≤ K * (nx * ny * nz)) :
    ∃ ix iy iz o, ix < nx ∧ iy < ny ∧ iz < nz ∧ o < K ∧ d = dartOf K nx ny ix iy iz o := by
  refine ⟨(d - 1) / K % nx, (d - 1) / K / nx % ny, (d - 1) / K / nx / ny, (d - 1) % K,
    Nat.mod_lt _ hx, Nat.mod_lt _ hy, ?_, Nat.mod_lt _ hK, ?_⟩
  · have hc : (d - 1) / K < nx * ny * nz := by
      rw [Nat.div_lt_iff_lt_mul hK]
      have := Nat.mul_comm K (nx * ny * nz)
      omega
    rw [Nat.div_div_eq_div_mul, Nat.div_lt_iff_lt_mul (Nat.mul_pos hx hy), Nat.mul_comm]
    exact hc
  · unfold dartOf cellIdx
    have e1 := Nat.mod_add_div ((d - 1) / K) nx
    have e2 := Nat.mod_add_div ((d - 1) / K / nx) ny
    have e3 := Nat.div_add_mod (d - 1) K
    rw [e2, e1]
    omega

end Idx

/-! ## shapes -/

structure Shape where
  K : Nat
  nb : Nat
  ent : List (List (Nat × Nat))

/-- entry of row `j` (local dart), column `i` (β_i) -/
def Shape.at (S : Shape) (j i : Nat) : Nat × Nat := (S.ent.getD j []).getD i (0, 0)

/-- opposite direction -/
def opp : Nat → Nat
  | 0 => 0
  | 1 => 2
  | 2 => 1
  | 3 => 4
  | 4 => 3
  | 5 => 6
  | _ => 5

/-- the image described by entry `(dir, o)` seen from cell `(ix, iy, iz)` -/
def absEntry (K nx ny nz ix iy iz dir o : Nat) : Nat :=
  match dir with
  | 0 => dartOf K nx ny ix iy iz o
  | 1 => if ix = 0 then 0 else dartOf K nx ny (ix - 1) iy iz o
  | 2 => if ix + 1 = nx then 0 else dartOf K nx ny (ix + 1) iy iz o
  | 3 => if iy = 0 then 0 else dartOf K nx ny ix (iy - 1) iz o
  | 4 => if iy + 1 = ny then 0 else dartOf K nx ny ix (iy + 1) iz o
  | 5 => if iz = 0 then 0 else dartOf K nx ny ix iy (iz - 1) o
  | _ => if iz + 1 = nz then 0 else dartOf K nx ny ix iy (iz + 1) o

/-- the β function a shape defines on the `nx × ny × nz` grid -/
def absβ (S : Shape) (nx ny nz i d : Nat) : Nat :=
  let c := (d - 1) / S.K
  let e := S.at ((d - 1) % S.K) i
  absEntry S.K nx ny nz (c % nx) (c / nx % ny) (c / (nx * ny)) e.1 e.2

/-- the finite check: column 0/1 are inverse permutations inside the cell; every further column
    pairs `(dir, o)` at row `j` with `(opp dir, j)` at row `o`, without fixed points -/
def Shape.Ok (S : Shape) : Prop :=
  0 < S.K ∧ 3 ≤ S.nb ∧
  (∀ j, j < S.K → ∀ i, i < S.nb → (S.at j i).2 < S.K ∧ (S.at j i).1 ≤ 6) ∧
  (∀ j, j < S.K → (S.at j 0).1 = 0 ∧ (S.at j 1).1 = 0 ∧
      (S.at (S.at j 1).2 0).2 = j ∧ (S.at (S.at j 0).2 1).2 = j) ∧
  (∀ j, j < S.K → ∀ i, i < S.nb → 2 ≤ i →
      S.at (S.at j i).2 i = (opp (S.at j i).1, j) ∧ ((S.at j i).1 = 0 → (S.at j i).2 ≠ j))

set_option synthInstance.maxSize 4096 in
set_option synthInstance.maxHeartbeats 400000 in
instance (S : Shape) : Decidable S.Ok := by unfold Shape.Ok; exact inferInstance

/-- neighbour relation: `(ix', iy', iz')` is the cell reached from `(ix, iy, iz)` in direction `dir` -/
def Nbr (dir ix iy iz ix' iy' iz' : Nat) : Prop :=
  match dir with
  | 0 => ix' = ix ∧ iy' = iy ∧ iz' = iz
  | 1 => ix' + 1 = ix ∧ iy' = iy ∧ iz' = iz
  | 2 => ix' = ix + 1 ∧ iy' = iy ∧ iz' = iz
  | 3 => ix' = ix ∧ iy' + 1 = iy ∧ iz' = iz
  | 4 => ix' = ix ∧ iy' = iy + 1 ∧ iz' = iz
  | 5 => ix' = ix ∧ iy' = iy ∧ iz' + 1 = iz
  | _ => ix' = ix ∧ iy' = iy ∧ iz' = iz + 1

section Abs
variable {K nx ny nz ix iy iz : Nat}

theorem dir_cases {dir : Nat} (h : dir ≤ 6) :
    dir = 0 ∨ dir = 1 ∨ dir = 2 ∨ dir = 3 ∨ dir = 4 ∨ dir = 5 ∨ dir = 6 := by omega

/-- an entry is null or a dart of the (existing) neighbour cell -/
theorem absEntry_cases (hx : ix < nx) (hy : iy < ny) (hz : iz < nz) {dir : Nat} (hd : dir ≤ 6) (o : Nat) :
    absEntry K nx ny nz ix iy iz dir o = 0 ∨
    ∃ ix' iy' iz', ix' < nx ∧ iy' < ny ∧ iz' < nz ∧ Nbr dir ix iy iz ix' iy' iz' ∧
      absEntry K nx ny nz ix iy iz dir o = dartOf K nx ny ix' iy' iz' o := by
  rcases dir_cases hd with h | h | h | h | h | h | h <;> subst h <;> simp only [absEntry, Nbr]
  · exact Or.inr ⟨ix, iy, iz, hx, hy, hz, ⟨rfl, rfl, rfl⟩, rfl⟩
  · by_cases h : ix = 0
    · simp [h]
    · exact Or.inr ⟨ix - 1, iy, iz, by omega, hy, hz, ⟨by omega, rfl, rfl⟩, by simp [h]⟩
  · by_cases h : ix + 1 = nx
    · simp [h]
    · exact Or.inr ⟨ix + 1, iy, iz, by omega, hy, hz, ⟨rfl, rfl, rfl⟩, by simp [h]⟩
  · by_cases h : iy = 0
    · simp [h]
    · exact Or.inr ⟨ix, iy - 1, iz, hx, by omega, hz, ⟨rfl, by omega, rfl⟩, by simp [h]⟩
  · by_cases h : iy + 1 = ny
    · simp [h]
    · exact Or.inr ⟨ix, iy + 1, iz, hx, by omega, hz, ⟨rfl, rfl, rfl⟩, by simp [h]⟩
  · by_cases h : iz = 0
    · simp [h]
    · exact Or.inr ⟨ix, iy, iz - 1, hx, hy, by omega, ⟨rfl, rfl, by omega⟩, by simp [h]⟩
  · by_cases h : iz + 1 = nz
    · simp [h]
    · exact Or.inr ⟨ix, iy, iz + 1, hx, hy, by omega, ⟨rfl, rfl, rfl⟩, by simp [h]⟩

/-- the back link: from the neighbour, the opposite direction leads back -/
theorem absEntry_back {ix' iy' iz' : Nat} (hx : ix < nx) (hy : iy < ny) (hz : iz < nz) {dir : Nat}
    (hd : dir ≤ 6) (h : Nbr dir ix iy iz ix' iy' iz') (o : Nat) :
    absEntry K nx ny nz ix' iy' iz' (opp dir) o = dartOf K nx ny ix iy iz o := by
  rcases dir_cases hd with e | e | e | e | e | e | e <;> subst e <;> simp only [Nbr] at h <;>
    obtain ⟨h1, h2, h3⟩ := h <;> subst_vars <;> simp only [absEntry, opp]
  · have : ¬ (ix' + 1 = nx) := by omega
    simp [this]
  · simp
  · have : ¬ (iy' + 1 = ny) := by omega
    simp [this]
  · simp
  · have : ¬ (iz' + 1 = nz) := by omega
    simp [this]
  · simp

theorem Nbr_ne {ix' iy' iz' dir : Nat} (hd : dir ≤ 6) (h0 : dir ≠ 0)
    (h : Nbr dir ix iy iz ix' iy' iz') : ¬ (ix = ix' ∧ iy = iy' ∧ iz = iz') := by
  rcases dir_cases hd with e | e | e | e | e | e | e <;> subst e <;> simp only [Nbr] at h <;> omega

theorem absβ_dartOf (S : Shape) (hx : ix < nx) (hy : iy < ny) {o : Nat} (ho : o < S.K) (i : Nat) :
    absβ S nx ny nz i (dartOf S.K nx ny ix iy iz o) =
      absEntry S.K nx ny nz ix iy iz (S.at o i).1 (S.at o i).2 := by
  unfold absβ
  simp only [dartOf_cell ho, dartOf_local ho, cellIdx_x hx, cellIdx_y hx hy, cellIdx_z hx hy]

end Abs

/-! ## the grid map and its well-formedness -/

theorem rd_replicate {α : Type} [Inhabited α] (n : Nat) (x : α) (i : Nat) (h : i < n) :
    rd (Array.replicate n x) i = x := by
  unfold rd
  rw [Array.getD_eq_getD_getElem?]
  simp [h]

theorem gridMap_n (nb nd : Nat) (β : Nat → Nat → Nat) : (gridMap nb nd β).n = nd + 1 := rfl

theorem gridMap_β (nb nd : Nat) (β : Nat → Nat → Nat) (i d : Nat) :
    (gridMap nb nd β).β i d = if i < nb ∧ d ≤ nd ∧ d ≠ 0 then β i d else 0 := by
  unfold Map.β gridMap
  simp only
  by_cases hi : i < nb
  · rw [rd_tab _ _ _ hi]
    by_cases hd : d < nd + 1
    · rw [rd_tab _ _ _ hd]
      by_cases h0 : d = 0
      · simp [h0]
      · have : d ≤ nd := by omega
        simp [hi, h0, this]
    · have e : rd (tab (nd + 1) fun d => if d = 0 then 0 else β i d) d = default :=
        rd_oob _ _ (by rw [size_tab]; omega)
      rw [e]
      have : ¬ d ≤ nd := by omega
      simp [this]
  · have e : rd (tab nb fun i => tab (nd + 1) fun d => if d = 0 then 0 else β i d) i = default :=
      rd_oob _ _ (by rw [size_tab]; omega)
    rw [e]
    simp only [hi, false_and, if_false]
    exact rd_oob (default : Array Nat) d (Nat.zero_le _)

theorem gridMap_unused (nb nd : Nat) (β : Nat → Nat → Nat) (d : Nat) :
    (gridMap nb nd β).unused d = false := by
  unfold Map.unused gridMap Map.empty
  simp only
  by_cases h : d < nd + 1
  · exact rd_replicate _ _ _ h
  · exact rd_oob _ _ (by simp; omega)

theorem gridMap_sized (nb nd : Nat) (β : Nat → Nat → Nat) : Sized nb (gridMap nb nd β) where
  npos := by rw [gridMap_n]; omega
  rows := by unfold gridMap; simp only; exact size_tab _ _
  row := by
    intro i hi
    unfold gridMap
    simp only
    rw [rd_tab _ _ _ hi, size_tab]
    rfl
  usz := by unfold gridMap Map.empty; simp
  asz := by
    intro s hs
    have hs' : s < 6 := by
      unfold gridMap Map.empty at hs
      simpa using hs
    show nd + 1 ≤ (rd ((Array.replicate 6 (Array.replicate (nd + 1 + 1) none)).setIfInBounds 0
      (Array.replicate (nd + 1) none)) s).size
    have : (Array.replicate 6 (Array.replicate (nd + 1 + 1) (none : Option Val))).setIfInBounds 0
        (Array.replicate (nd + 1) none) = wr (Array.replicate 6 (Array.replicate (nd + 1 + 1) none)) 0
        (Array.replicate (nd + 1) none) := rfl
    rw [this, rd_wr]
    by_cases h0 : 0 = s
    · simp [h0.symm]
    · simp only [h0, false_and, if_false]
      rw [rd_replicate _ _ _ hs']
      simp

/-- the abstract grid map is well-formed for every size -/
theorem absWF (S : Shape) (hS : S.Ok) {nx ny nz : Nat} (hnx : 0 < nx) (hny : 0 < ny) :
    WF S.nb (gridMap S.nb (S.K * (nx * ny * nz)) (absβ S nx ny nz)) := by
  obtain ⟨hK, hnb, hbound, h01, hinv⟩ := hS
  have sized := gridMap_sized S.nb (S.K * (nx * ny * nz)) (absβ S nx ny nz)
  -- the value of β at an in-range, non-null dart
  have hβ : ∀ i, i < S.nb → ∀ ix iy iz o, ix < nx → iy < ny → iz < nz → o < S.K →
      (gridMap S.nb (S.K * (nx * ny * nz)) (absβ S nx ny nz)).β i (dartOf S.K nx ny ix iy iz o) =
        absEntry S.K nx ny nz ix iy iz (S.at o i).1 (S.at o i).2 := by
    intro i hi ix iy iz o hx hy hz ho
    rw [gridMap_β, ← absβ_dartOf S hx hy ho i]
    have h1 := dartOf_le (K := S.K) hx hy hz ho
    have h2 := dartOf_pos (K := S.K) (nx := nx) (ny := ny) (ix := ix) (iy := iy) (iz := iz) (o := o)
    have : dartOf S.K nx ny ix iy iz o ≠ 0 := by omega
    simp [hi, h1, this]
  have hdec : ∀ d, d < (gridMap S.nb (S.K * (nx * ny * nz)) (absβ S nx ny nz)).n → d ≠ 0 →
      ∃ ix iy iz o, ix < nx ∧ iy < ny ∧ iz < nz ∧ o < S.K ∧ d = dartOf S.K nx ny ix iy iz o := by
    intro d hd h0
    rw [gridMap_n] at hd
    exact decode hK hnx hny (by omega) (by omega)
  have hnull : ∀ i, (gridMap S.nb (S.K * (nx * ny * nz)) (absβ S nx ny nz)).β i 0 = 0 := by
    intro i; rw [gridMap_β]; simp
  refine { toSized := sized, null := fun i _ => hnull i, range := ?_, inv01 := ?_, inv10 := ?_,
           invol := ?_, unusedFree := ?_ }
  · -- range
    intro i hi d hd
    by_cases h0 : d = 0
    · subst h0; rw [hnull]; exact sized.npos
    · obtain ⟨ix, iy, iz, o, hx, hy, hz, ho, rfl⟩ := hdec d hd h0
      rw [hβ i hi ix iy iz o hx hy hz ho, gridMap_n]
      have hb := hbound o ho i hi
      rcases absEntry_cases (K := S.K) hx hy hz hb.2 (S.at o i).2 with h | ⟨ix', iy', iz', hx', hy', hz', _, h⟩
      · rw [h]; omega
      · rw [h]
        have := dartOf_le (K := S.K) hx' hy' hz' hb.1
        omega
  · -- β0 ∘ β1
    intro d hd hne
    have h0 : d ≠ 0 := by intro h; subst h; exact hne (hnull 1)
    obtain ⟨ix, iy, iz, o, hx, hy, hz, ho, rfl⟩ := hdec d hd h0
    obtain ⟨_, e1, e2, _⟩ := h01 o ho
    have hb := hbound o ho 1 (by omega)
    rw [hβ 1 (by omega) ix iy iz o hx hy hz ho, e1]
    simp only [absEntry]
    rw [hβ 0 (by omega) ix iy iz _ hx hy hz hb.1]
    obtain ⟨e3, _, _, _⟩ := h01 _ hb.1
    rw [e3, e2]
    simp only [absEntry]
  · -- β1 ∘ β0
    intro d hd hne
    have h0 : d ≠ 0 := by intro h; subst h; exact hne (hnull 0)
    obtain ⟨ix, iy, iz, o, hx, hy, hz, ho, rfl⟩ := hdec d hd h0
    obtain ⟨e1, _, _, e2⟩ := h01 o ho
    have hb := hbound o ho 0 (by omega)
    rw [hβ 0 (by omega) ix iy iz o hx hy hz ho, e1]
    simp only [absEntry]
    rw [hβ 1 (by omega) ix iy iz _ hx hy hz hb.1]
    obtain ⟨_, e3, _, _⟩ := h01 _ hb.1
    rw [e3, e2]
    simp only [absEntry]
  · -- involutions
    intro i hi h2 d hd hne
    have h0 : d ≠ 0 := by intro h; subst h; exact hne (hnull i)
    obtain ⟨ix, iy, iz, o, hx, hy, hz, ho, rfl⟩ := hdec d hd h0
    have hb := hbound o ho i hi
    obtain ⟨hpair, hfix⟩ := hinv o ho i hi h2
    rw [hβ i hi ix iy iz o hx hy hz ho] at hne ⊢
    rcases absEntry_cases (K := S.K) hx hy hz hb.2 (S.at o i).2 with h | ⟨ix', iy', iz', hx', hy', hz', hn, h⟩
    · exact absurd h hne
    · rw [h, hβ i hi ix' iy' iz' _ hx' hy' hz' hb.1, hpair]
      simp only
      refine ⟨absEntry_back hx hy hz hb.2 hn o, ?_⟩
      intro heq
      obtain ⟨a, b, c, e⟩ := dartOf_inj hx' hy' hb.1 hx hy ho heq
      by_cases hd0 : (S.at o i).1 = 0
      · exact hfix hd0 e
      · exact Nbr_ne hb.2 hd0 hn ⟨a.symm, b.symm, c.symm⟩
  · intro d _ hu
    rw [gridMap_unused] at hu
    exact absurd hu (by simp)

end HC
