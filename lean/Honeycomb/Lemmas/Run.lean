/-
  Generic facts about the direct semantics `run` on maps: sequencing, read-only programs,
  programs that only touch attribute storages (frame), invariant transport.
-/
import Honeycomb.Model.Ops2

namespace HC
variable {X α β : Type}

theorem run_bind (p : P X α) (f : α → P X β) (m : Map X) :
    run (p.bind f) m =
      match run p m with
      | (.ok a, m') => run (f a) m'
      | (.err e, m') => (.err e, m')
      | (.retry, m') => (.retry, m')
      | (.panic, m') => (.panic, m') := by
  induction p generalizing m with
  | ret a => simp [run]
  | read v k ih =>
      simp only [Prog.read_bind, run]
      split
      · exact ih _ m
      · rfl
  | write v x k ih =>
      simp only [Prog.write_bind, run]
      split
      · exact ih _
      · rfl
  | abort e => simp [run]
  | retry => simp [run]
  | panic => simp [run]

/-- if a sequence succeeds, both halves succeeded -/
theorem run_bind_ok {p : P X α} {f : α → P X β} {m m'' : Map X} {b : β}
    (h : run (p.bind f) m = (.ok b, m'')) :
    ∃ a m', run p m = (.ok a, m') ∧ run (f a) m' = (.ok b, m'') := by
  rw [run_bind] at h
  match hp : run p m with
  | (.ok a, m') => rw [hp] at h; exact ⟨a, m', rfl, h⟩
  | (.err e, m') => rw [hp] at h; simp at h
  | (.retry, m') => rw [hp] at h; simp at h
  | (.panic, m') => rw [hp] at h; simp at h

/-- the state part of a sequence -/
theorem run_bind_snd (p : P X α) (f : α → P X β) (m : Map X) :
    (run (p.bind f) m).2 =
      match run p m with
      | (.ok a, m') => (run (f a) m').2
      | (_, m') => m' := by
  rw [run_bind]
  match run p m with
  | (.ok a, m') => rfl
  | (.err e, m') => rfl
  | (.retry, m') => rfl
  | (.panic, m') => rfl

/-! ## read-only programs -/

/-- the program never changes the store -/
def ReadOnly (p : P X α) : Prop := ∀ m : Map X, (run p m).2 = m

theorem ReadOnly.ret (a : α) : ReadOnly (Prog.ret a : P X α) := fun _ => rfl
theorem ReadOnly.pure (a : α) : ReadOnly (pure a : P X α) := fun _ => rfl
theorem ReadOnly.abort (e : Err) : ReadOnly (abort e : P X α) := fun _ => rfl
theorem ReadOnly.panic : ReadOnly (Prog.panic : P X α) := fun _ => rfl

theorem ReadOnly.bind {p : P X α} {f : α → P X β} (hp : ReadOnly p) (hf : ∀ a, ReadOnly (f a)) :
    ReadOnly (p.bind f) := by
  intro m
  rw [run_bind_snd]
  have := hp m
  match h : run p m with
  | (.ok a, m') => rw [h] at this; simp at this; subst this; exact hf a _
  | (.err e, m') => rw [h] at this; simpa using this
  | (.retry, m') => rw [h] at this; simpa using this
  | (.panic, m') => rw [h] at this; simpa using this

theorem ReadOnly.rB (i d : Nat) : ReadOnly (rB i d : P X Nat) := by
  intro m; simp only [run_rB']; split <;> rfl
theorem ReadOnly.rU (d : Nat) : ReadOnly (rU d : P X Bool) := by
  intro m; simp only [run_rU']; split <;> rfl
theorem ReadOnly.rA (s d : Nat) : ReadOnly (rA s d : P X (Option X)) := by
  intro m; simp only [run_rA']; split <;> rfl

theorem ReadOnly.ite {c : Prop} [Decidable c] {p q : P X α} (hp : ReadOnly p) (hq : ReadOnly q) :
    ReadOnly (if c then p else q) := by
  split <;> assumption

/-- a read-only program that succeeds leaves the state as it was -/
theorem ReadOnly.run_ok {p : P X α} (hp : ReadOnly p) {m m' : Map X} {a : α}
    (h : run p m = (.ok a, m')) : m' = m := by
  have := hp m; rw [h] at this; exact this

/-! ## BFS and identifiers are read-only -/

theorem readOnly_bfs (gen : Nat → P X (List Nat)) (hg : ∀ d, ReadOnly (gen d)) :
    ∀ fuel pending marked out, ReadOnly (bfs gen fuel pending marked out) := by
  intro fuel
  induction fuel with
  | zero => intro p mk o; exact ReadOnly.pure _
  | succ f ih =>
      intro p mk o
      cases p with
      | nil => exact ReadOnly.pure _
      | cons d rest =>
          unfold bfs
          exact ReadOnly.bind (hg d) (fun ims => ih _ _ _)

theorem readOnly_gen2_custom_go (d : Nat) : ∀ bs acc, ReadOnly (gen2.go (X := X) d bs acc) := by
  intro bs
  induction bs with
  | nil => intro acc; exact ReadOnly.pure _
  | cons i is ih =>
      intro acc
      unfold gen2.go
      split
      · exact ReadOnly.bind (ReadOnly.rB _ _) (fun im => ih _)
      · exact ReadOnly.panic

theorem readOnly_gen2 (pol : Policy) (d : Nat) : ReadOnly (gen2 (X := X) pol d) := by
  cases pol <;> unfold gen2
  · exact ReadOnly.bind (ReadOnly.rB _ _) fun _ => ReadOnly.bind (ReadOnly.rB _ _) fun _ =>
      ReadOnly.bind (ReadOnly.rB _ _) fun _ => ReadOnly.bind (ReadOnly.rB _ _) fun _ => ReadOnly.pure _
  · exact ReadOnly.bind (ReadOnly.rB _ _) fun _ => ReadOnly.bind (ReadOnly.rB _ _) fun _ => ReadOnly.pure _
  · exact ReadOnly.bind (ReadOnly.rB _ _) fun _ => ReadOnly.pure _
  · exact ReadOnly.bind (ReadOnly.rB _ _) fun _ => ReadOnly.bind (ReadOnly.rB _ _) fun _ => ReadOnly.pure _
  · exact ReadOnly.bind (ReadOnly.rB _ _) fun _ => ReadOnly.pure _
  · exact ReadOnly.panic
  · exact ReadOnly.panic
  · exact readOnly_gen2_custom_go d _ _

theorem readOnly_orbit2 (n : Nat) (pol : Policy) (d : Nat) : ReadOnly (orbit2 (X := X) n pol d) :=
  readOnly_bfs _ (readOnly_gen2 pol) _ _ _ _

theorem readOnly_vertexId2 (n d : Nat) : ReadOnly (vertexId2 (X := X) n d) :=
  ReadOnly.bind (readOnly_bfs _ (readOnly_gen2 .vertex) _ _ _ _) fun _ => ReadOnly.pure _

theorem readOnly_faceId2 (n d : Nat) : ReadOnly (faceId2 (X := X) n d) :=
  ReadOnly.bind (readOnly_bfs _ (readOnly_gen2 .face) _ _ _ _) fun _ => ReadOnly.pure _

theorem readOnly_edgeId2 (d : Nat) : ReadOnly (edgeId2 (X := X) d) :=
  ReadOnly.bind (ReadOnly.rB _ _) fun _ => ReadOnly.ite (ReadOnly.pure _) (ReadOnly.pure _)

/-! ## programs that only write attribute storages (and the fault countdown) -/

/-- same topology, same flags, same sizes: only attribute *values* (and `fc`) may differ -/
structure SameTopo (m m' : Map X) : Prop where
  n : m'.n = m.n
  b : m'.b = m.b
  u : m'.u = m.u
  asz : m'.a.size = m.a.size
  rsz : ∀ s, (rd m'.a s).size = (rd m.a s).size

theorem SameTopo.refl (m : Map X) : SameTopo m m := ⟨rfl, rfl, rfl, rfl, fun _ => rfl⟩

theorem SameTopo.trans {m m' m'' : Map X} (h1 : SameTopo m m') (h2 : SameTopo m' m'') : SameTopo m m'' :=
  ⟨h2.n.trans h1.n, h2.b.trans h1.b, h2.u.trans h1.u, h2.asz.trans h1.asz,
    fun s => (h2.rsz s).trans (h1.rsz s)⟩

theorem SameTopo.setA (m : Map X) (s d : Nat) (v : Option X) : SameTopo m (m.setA s d v) := by
  refine ⟨rfl, rfl, rfl, ?_, ?_⟩
  · simp [Map.setA, size_wr]
  · intro t
    simp only [Map.setA, rd_wr]
    split
    · rename_i h; rw [size_wr, h.1]
    · rfl

/-- the program only writes attribute values (whatever its outcome) -/
def AttrOnly (p : P X α) : Prop := ∀ m : Map X, SameTopo m (run p m).2

theorem AttrOnly.of_readOnly {p : P X α} (h : ReadOnly p) : AttrOnly p := by
  intro m; rw [h m]; exact SameTopo.refl m

theorem AttrOnly.pure (a : α) : AttrOnly (pure a : P X α) := fun m => SameTopo.refl m
theorem AttrOnly.abort (e : Err) : AttrOnly (abort e : P X α) := fun m => SameTopo.refl m

theorem AttrOnly.bind {p : P X α} {f : α → P X β} (hp : AttrOnly p) (hf : ∀ a, AttrOnly (f a)) :
    AttrOnly (p.bind f) := by
  intro m
  rw [run_bind_snd]
  have := hp m
  match h : run p m with
  | (.ok a, m') => rw [h] at this; exact this.trans (hf a m')
  | (.err e, m') => rw [h] at this; exact this
  | (.retry, m') => rw [h] at this; exact this
  | (.panic, m') => rw [h] at this; exact this

theorem AttrOnly.wA (s d : Nat) (v : Option X) : AttrOnly (wA s d v : P X Unit) := by
  intro m; simp only [run_wA']; split
  · exact SameTopo.setA m s d v
  · exact SameTopo.refl m

theorem AttrOnly.rF : AttrOnly (rF : P X Nat) := by
  intro m; simp [HC.rF, run, Store.svalid, Store.sget]; exact SameTopo.refl m

theorem AttrOnly.wF (v : Nat) : AttrOnly (wF v : P X Unit) := by
  intro m; simp [HC.wF, run, Store.svalid, Store.sset, Store.styped]
  exact ⟨rfl, rfl, rfl, rfl, fun _ => rfl⟩

theorem AttrOnly.ite {c : Prop} [Decidable c] {p q : P X α} (hp : AttrOnly p) (hq : AttrOnly q) :
    AttrOnly (if c then p else q) := by
  split <;> assumption

theorem attrOnly_exceptCall {Y : Type} (r : Except Err Y) :
    AttrOnly (match r with | .ok y => (pure y : P X Y) | .error e => abort e) := by
  cases r
  · exact AttrOnly.abort _
  · exact AttrOnly.pure _

theorem attrOnly_lawCall {Y : Type} (t : Bool) (e : Err) (r : Except Err Y) :
    AttrOnly (lawCall (X := X) t e r) := by
  unfold lawCall
  split
  · refine AttrOnly.bind AttrOnly.rF fun c => ?_
    refine AttrOnly.ite (AttrOnly.abort _) ?_
    refine AttrOnly.ite ?_ (attrOnly_exceptCall r)
    exact AttrOnly.bind (AttrOnly.wF _) fun _ => attrOnly_exceptCall r
  · exact attrOnly_exceptCall r

theorem attrOnly_mergeS (cfg : Cfg X) (s out l r : Nat) : AttrOnly (mergeS cfg s out l r) := by
  unfold mergeS
  split
  · refine AttrOnly.bind (AttrOnly.of_readOnly (ReadOnly.rA _ _)) fun v => ?_
    exact AttrOnly.bind (AttrOnly.wA _ _ _) fun _ => AttrOnly.wA _ _ _
  refine AttrOnly.bind (AttrOnly.of_readOnly (ReadOnly.rA _ _)) fun vl => ?_
  refine AttrOnly.bind (AttrOnly.of_readOnly (ReadOnly.rA _ _)) fun vr => ?_
  refine AttrOnly.bind (attrOnly_lawCall _ _ _) fun v => ?_
  refine AttrOnly.bind (AttrOnly.wA _ _ _) fun _ => ?_
  refine AttrOnly.bind (AttrOnly.wA _ _ _) fun _ => ?_
  exact AttrOnly.wA _ _ _

theorem attrOnly_splitS (cfg : Cfg X) (s lo ro inp : Nat) : AttrOnly (splitS cfg s lo ro inp) := by
  unfold splitS
  split
  · refine AttrOnly.bind (AttrOnly.of_readOnly (ReadOnly.rA _ _)) fun v => ?_
    exact AttrOnly.bind (AttrOnly.wA _ _ _) fun _ => AttrOnly.wA _ _ _
  refine AttrOnly.bind (AttrOnly.of_readOnly (ReadOnly.rA _ _)) fun v => ?_
  refine AttrOnly.bind (attrOnly_lawCall _ _ _) fun ab => ?_
  refine AttrOnly.bind (AttrOnly.wA _ _ _) fun _ => ?_
  refine AttrOnly.bind (AttrOnly.wA _ _ _) fun _ => ?_
  exact AttrOnly.wA _ _ _

theorem attrOnly_forM_ {γ : Type} (l : List γ) (f : γ → P X Unit) (hf : ∀ x, AttrOnly (f x)) :
    AttrOnly (forM_ l f) := by
  induction l with
  | nil => exact AttrOnly.pure _
  | cons x xs ih => unfold forM_; exact AttrOnly.bind (hf x) fun _ => ih

theorem attrOnly_mergeAttrs (cfg : Cfg X) (k out l r : Nat) : AttrOnly (mergeAttrs cfg k out l r) :=
  attrOnly_forM_ _ _ fun s => attrOnly_mergeS cfg s out l r

theorem attrOnly_splitAttrs (cfg : Cfg X) (k lo ro inp : Nat) : AttrOnly (splitAttrs cfg k lo ro inp) :=
  attrOnly_forM_ _ _ fun s => attrOnly_splitS cfg s lo ro inp

end HC
