/-
  3-D sews (`dim3/sews/{one,two,three}.rs`): every successful sew / unsew performed exactly the
  corresponding link / unlink on the topology (β, flags, sizes); everything else it did only
  touched attribute values.  Shared by Props/C02 (integrity of sews) and Props/C05.
-/
import Honeycomb.Lemmas.Link3
import Honeycomb.Lemmas.Attr

set_option linter.unusedSimpArgs false
set_option linter.unusedVariables false

namespace HC
variable {X : Type}

theorem attrOnly_threeUnsewLoop (cfg : Cfg X) (n : Nat) :
    ∀ ps, AttrOnly (threeUnsewLoop cfg n ps) := by
  intro ps
  induction ps with
  | nil => exact AttrOnly.pure _
  | cons p rest ih =>
      obtain ⟨l, r⟩ := p
      unfold threeUnsewLoop
      refine AttrOnly.bind (ao_eid3 _ _) fun _ => ?_
      refine AttrOnly.bind (ao_eid3 _ _) fun _ => ?_
      refine AttrOnly.bind (attrOnly_splitAttrs _ _ _ _ _) fun _ => ?_
      refine AttrOnly.bind (AttrOnly.of_readOnly (ReadOnly.rB _ _)) fun _ => ?_
      refine AttrOnly.bind (AttrOnly.of_readOnly (ReadOnly.rB _ _)) fun _ => ?_
      refine AttrOnly.bind (ao_vid3 _ _) fun _ => ?_
      refine AttrOnly.bind (ao_vid3 _ _) fun _ => ?_
      refine AttrOnly.bind (attrOnly_splitS _ _ _ _ _) fun _ => ?_
      refine AttrOnly.bind (attrOnly_splitAttrs _ _ _ _ _) fun _ => ?_
      refine AttrOnly.bind (AttrOnly.of_readOnly (ReadOnly.rB _ _)) fun _ => ?_
      refine AttrOnly.ite ?_ ih
      refine AttrOnly.bind (AttrOnly.of_readOnly (ReadOnly.rB _ _)) fun _ => ?_
      refine AttrOnly.bind (AttrOnly.of_readOnly (ReadOnly.rB _ _)) fun _ => ?_
      refine AttrOnly.bind (ao_vid3 _ _) fun _ => ?_
      refine AttrOnly.bind (ao_vid3 _ _) fun _ => ?_
      refine AttrOnly.bind (attrOnly_splitS _ _ _ _ _) fun _ => ?_
      exact AttrOnly.bind (attrOnly_splitAttrs _ _ _ _ _) fun _ => ih

/-- every successful 3-D 1-sew performed exactly the 3-D 1-link on the topology -/
theorem oneSew3_topology (cfg : Cfg X) (n l r : Nat) (m m' : Map X) (u : Unit)
    (h : run (oneSew3 cfg n l r) m = (.ok u, m')) :
    ∃ m1, run (oneLink3 (X := X) l r) m = (.ok (), m1) ∧ SameTopo m1 m' := by
  unfold oneSew3 at h
  obtain ⟨b3l, _, h⟩ := run_ro_bind_ok (ReadOnly.rB _ _) h
  obtain ⟨b2l, _, h⟩ := run_ro_bind_ok (ReadOnly.rB _ _) h
  have tail : ∀ vl, run (do
      let vr ← vertexId3 n r
      oneLink3 l r
      if vl ≠ 0 then do
        let nv := min vr vl
        mergeS cfg 0 nv vl vr
        mergeAttrs cfg 0 nv vl vr
      else pure ()) m = (.ok u, m') →
      ∃ m1, run (oneLink3 (X := X) l r) m = (.ok (), m1) ∧ SameTopo m1 m' := by
    intro vl h
    obtain ⟨vr, _, h⟩ := run_ro_bind_ok (readOnly_vertexId3 _ _) h
    obtain ⟨_, m1, hl, h⟩ := run_bind_ok h
    refine ⟨m1, hl, ?_⟩
    exact AttrOnly.run_ok' (AttrOnly.ite
      (AttrOnly.bind (attrOnly_mergeS cfg 0 _ vl vr) fun _ => attrOnly_mergeAttrs cfg 0 _ vl vr)
      (AttrOnly.pure _)) h
  by_cases c1 : b3l ≠ 0
  · simp only [if_pos c1] at h
    obtain ⟨vl, _, h⟩ := run_ro_bind_ok (readOnly_vertexId3 _ _) h
    exact tail vl h
  · simp only [if_neg c1] at h
    by_cases c2 : b2l ≠ 0
    · simp only [if_pos c2] at h
      obtain ⟨vl, _, h⟩ := run_ro_bind_ok (readOnly_vertexId3 _ _) h
      exact tail vl h
    · simp only [if_neg c2] at h
      obtain ⟨vl, _, h⟩ := run_ro_bind_ok (ReadOnly.pure _) h
      exact tail vl h


/-- every successful 3-D 1-unsew performed exactly the 3-D 1-unlink on the topology -/
theorem oneUnsew3_topology (cfg : Cfg X) (n l : Nat) (m m' : Map X) (u : Unit)
    (h : run (oneUnsew3 cfg n l) m = (.ok u, m')) :
    ∃ m1, run (oneUnlink3 (X := X) l) m = (.ok (), m1) ∧ SameTopo m1 m' := by
  unfold oneUnsew3 at h
  obtain ⟨r, _, h⟩ := run_ro_bind_ok (ReadOnly.rB _ _) h
  obtain ⟨vold, _, h⟩ := run_ro_bind_ok (readOnly_vertexId3 _ _) h
  obtain ⟨_, m1, hl, h⟩ := run_bind_ok h
  refine ⟨m1, hl, ?_⟩
  refine AttrOnly.run_ok' ?_ h
  refine AttrOnly.bind (AttrOnly.of_readOnly (ReadOnly.rB _ _)) fun b2l => ?_
  refine AttrOnly.bind (AttrOnly.of_readOnly (ReadOnly.rB _ _)) fun b3l => ?_
  refine AttrOnly.ite (AttrOnly.pure _) ?_
  refine AttrOnly.bind (ao_vid3 _ _) fun vl => ?_
  refine AttrOnly.bind (ao_vid3 _ _) fun vr => ?_
  exact AttrOnly.ite (AttrOnly.bind (attrOnly_splitS _ _ _ _ _) fun _ => attrOnly_splitAttrs _ _ _ _ _)
    (AttrOnly.pure _)

/-- every successful 3-D 2-sew performed exactly the 2-link on the topology -/
theorem twoSew3_topology (cfg : Cfg X) (n l r : Nat) (m m' : Map X) (u : Unit)
    (h : run (twoSew3 cfg n l r) m = (.ok u, m')) :
    ∃ m1, run (iLinkCore (X := X) 2 l r) m = (.ok (), m1) ∧ SameTopo m1 m' := by
  unfold twoSew3 at h
  obtain ⟨b1l, _, h⟩ := run_ro_bind_ok (ReadOnly.rB _ _) h
  obtain ⟨b1r, _, h⟩ := run_ro_bind_ok (ReadOnly.rB _ _) h
  by_cases c1 : b1l = 0 ∧ b1r = 0
  · rw [if_pos c1] at h
    obtain ⟨el, _, h⟩ := run_ro_bind_ok (readOnly_edgeId3 _ _) h
    obtain ⟨er, _, h⟩ := run_ro_bind_ok (readOnly_edgeId3 _ _) h
    obtain ⟨_, m1, hl, h⟩ := run_bind_ok h
    refine ⟨m1, hl, AttrOnly.run_ok' ?_ h⟩
    exact AttrOnly.bind (ao_eid3 _ _) fun en => attrOnly_mergeAttrs cfg 1 en el er
  · rw [if_neg c1] at h
    by_cases c2 : b1l = 0
    · rw [if_pos c2] at h
      obtain ⟨el, _, h⟩ := run_ro_bind_ok (readOnly_edgeId3 _ _) h
      obtain ⟨er, _, h⟩ := run_ro_bind_ok (readOnly_edgeId3 _ _) h
      obtain ⟨lv, _, h⟩ := run_ro_bind_ok (readOnly_vertexId3 _ _) h
      obtain ⟨b1rv, _, h⟩ := run_ro_bind_ok (readOnly_vertexId3 _ _) h
      obtain ⟨_, m1, hl, h⟩ := run_bind_ok h
      refine ⟨m1, hl, AttrOnly.run_ok' ?_ h⟩
      exact AttrOnly.bind (ao_vid3 _ _) fun lvn => AttrOnly.bind (ao_eid3 _ _) fun en =>
        AttrOnly.bind (attrOnly_mergeS cfg 0 lvn lv b1rv) fun _ =>
        AttrOnly.bind (attrOnly_mergeAttrs cfg 0 lvn lv b1rv) fun _ => attrOnly_mergeAttrs cfg 1 en el er
    · rw [if_neg c2] at h
      by_cases c3 : b1r = 0
      · rw [if_pos c3] at h
        obtain ⟨el, _, h⟩ := run_ro_bind_ok (readOnly_edgeId3 _ _) h
        obtain ⟨er, _, h⟩ := run_ro_bind_ok (readOnly_edgeId3 _ _) h
        obtain ⟨b1lv, _, h⟩ := run_ro_bind_ok (readOnly_vertexId3 _ _) h
        obtain ⟨rv, _, h⟩ := run_ro_bind_ok (readOnly_vertexId3 _ _) h
        obtain ⟨_, m1, hl, h⟩ := run_bind_ok h
        refine ⟨m1, hl, AttrOnly.run_ok' ?_ h⟩
        exact AttrOnly.bind (ao_vid3 _ _) fun rvn => AttrOnly.bind (ao_eid3 _ _) fun en =>
          AttrOnly.bind (attrOnly_mergeS cfg 0 rvn b1lv rv) fun _ =>
          AttrOnly.bind (attrOnly_mergeAttrs cfg 0 rvn b1lv rv) fun _ => attrOnly_mergeAttrs cfg 1 en el er
      · rw [if_neg c3] at h
        obtain ⟨el, _, h⟩ := run_ro_bind_ok (readOnly_edgeId3 _ _) h
        obtain ⟨er, _, h⟩ := run_ro_bind_ok (readOnly_edgeId3 _ _) h
        obtain ⟨lv, _, h⟩ := run_ro_bind_ok (readOnly_vertexId3 _ _) h
        obtain ⟨b1rv, _, h⟩ := run_ro_bind_ok (readOnly_vertexId3 _ _) h
        obtain ⟨b1lv, _, h⟩ := run_ro_bind_ok (readOnly_vertexId3 _ _) h
        obtain ⟨rv, _, h⟩ := run_ro_bind_ok (readOnly_vertexId3 _ _) h
        obtain ⟨pl, _, h⟩ := run_ro_bind_ok (ReadOnly.rA _ _) h
        obtain ⟨pb1r, _, h⟩ := run_ro_bind_ok (ReadOnly.rA _ _) h
        obtain ⟨pb1l, _, h⟩ := run_ro_bind_ok (ReadOnly.rA _ _) h
        obtain ⟨pr, _, h⟩ := run_ro_bind_ok (ReadOnly.rA _ _) h
        simp only [] at h
        obtain ⟨_, h⟩ := run_ite_abort_ok h
        obtain ⟨_, m1, hl, h⟩ := run_bind_ok h
        refine ⟨m1, hl, AttrOnly.run_ok' ?_ h⟩
        exact AttrOnly.bind (ao_vid3 _ _) fun lvn => AttrOnly.bind (ao_vid3 _ _) fun rvn =>
          AttrOnly.bind (ao_eid3 _ _) fun en =>
          AttrOnly.bind (attrOnly_mergeS cfg 0 lvn lv b1rv) fun _ =>
          AttrOnly.bind (attrOnly_mergeS cfg 0 rvn b1lv rv) fun _ =>
          AttrOnly.bind (attrOnly_mergeAttrs cfg 0 lvn lv b1rv) fun _ =>
          AttrOnly.bind (attrOnly_mergeAttrs cfg 0 rvn b1lv rv) fun _ => attrOnly_mergeAttrs cfg 1 en el er

/-- every successful 3-D 2-unsew performed exactly the 2-unlink on the topology -/
theorem twoUnsew3_topology (cfg : Cfg X) (n l : Nat) (m m' : Map X) (u : Unit)
    (h : run (twoUnsew3 cfg n l) m = (.ok u, m')) :
    ∃ m1, run (iUnlinkCore (X := X) 2 l) m = (.ok (), m1) ∧ SameTopo m1 m' := by
  unfold twoUnsew3 at h
  obtain ⟨r, _, h⟩ := run_ro_bind_ok (ReadOnly.rB _ _) h
  obtain ⟨b1l, _, h⟩ := run_ro_bind_ok (ReadOnly.rB _ _) h
  obtain ⟨b1r, _, h⟩ := run_ro_bind_ok (ReadOnly.rB _ _) h
  by_cases c1 : b1l = 0 ∧ b1r = 0
  · rw [if_pos c1] at h
    obtain ⟨eold, _, h⟩ := run_ro_bind_ok (readOnly_edgeId3 _ _) h
    obtain ⟨_, m1, hl, h⟩ := run_bind_ok h
    refine ⟨m1, hl, AttrOnly.run_ok' ?_ h⟩
    exact AttrOnly.bind (ao_eid3 _ _) fun enl => AttrOnly.bind (ao_eid3 _ _) fun enr =>
      attrOnly_splitAttrs cfg 1 enl enr eold
  · rw [if_neg c1] at h
    by_cases c2 : b1l = 0
    · rw [if_pos c2] at h
      obtain ⟨eold, _, h⟩ := run_ro_bind_ok (readOnly_edgeId3 _ _) h
      obtain ⟨lvold, _, h⟩ := run_ro_bind_ok (readOnly_vertexId3 _ _) h
      obtain ⟨_, m1, hl, h⟩ := run_bind_ok h
      refine ⟨m1, hl, AttrOnly.run_ok' ?_ h⟩
      exact AttrOnly.bind (ao_eid3 _ _) fun enl => AttrOnly.bind (ao_eid3 _ _) fun enr =>
        AttrOnly.bind (attrOnly_splitAttrs cfg 1 enl enr eold) fun _ =>
        AttrOnly.bind (ao_vid3 _ _) fun a => AttrOnly.bind (ao_vid3 _ _) fun b =>
        AttrOnly.bind (attrOnly_splitS cfg 0 a b lvold) fun _ => attrOnly_splitAttrs cfg 0 a b lvold
    · rw [if_neg c2] at h
      by_cases c3 : b1r = 0
      · rw [if_pos c3] at h
        obtain ⟨eold, _, h⟩ := run_ro_bind_ok (readOnly_edgeId3 _ _) h
        obtain ⟨rvold, _, h⟩ := run_ro_bind_ok (readOnly_vertexId3 _ _) h
        obtain ⟨_, m1, hl, h⟩ := run_bind_ok h
        refine ⟨m1, hl, AttrOnly.run_ok' ?_ h⟩
        exact AttrOnly.bind (ao_eid3 _ _) fun enl => AttrOnly.bind (ao_eid3 _ _) fun enr =>
          AttrOnly.bind (attrOnly_splitAttrs cfg 1 enl enr eold) fun _ =>
          AttrOnly.bind (ao_vid3 _ _) fun a => AttrOnly.bind (ao_vid3 _ _) fun b =>
          AttrOnly.bind (attrOnly_splitS cfg 0 a b rvold) fun _ => attrOnly_splitAttrs cfg 0 a b rvold
      · rw [if_neg c3] at h
        obtain ⟨eold, _, h⟩ := run_ro_bind_ok (readOnly_edgeId3 _ _) h
        obtain ⟨lvold, _, h⟩ := run_ro_bind_ok (readOnly_vertexId3 _ _) h
        obtain ⟨rvold, _, h⟩ := run_ro_bind_ok (readOnly_vertexId3 _ _) h
        obtain ⟨_, m1, hl, h⟩ := run_bind_ok h
        refine ⟨m1, hl, AttrOnly.run_ok' ?_ h⟩
        exact AttrOnly.bind (ao_eid3 _ _) fun enl => AttrOnly.bind (ao_eid3 _ _) fun enr =>
          AttrOnly.bind (attrOnly_splitAttrs cfg 1 enl enr eold) fun _ =>
          AttrOnly.bind (ao_vid3 _ _) fun a => AttrOnly.bind (ao_vid3 _ _) fun b =>
          AttrOnly.bind (ao_vid3 _ _) fun c => AttrOnly.bind (ao_vid3 _ _) fun d =>
          AttrOnly.bind (attrOnly_splitS cfg 0 a b lvold) fun _ =>
          AttrOnly.bind (attrOnly_splitS cfg 0 c d rvold) fun _ =>
          AttrOnly.bind (attrOnly_splitAttrs cfg 0 a b lvold) fun _ => attrOnly_splitAttrs cfg 0 c d rvold

/-- every successful 3-sew performed exactly the 3-link on the topology -/
theorem threeSew3_topology (cfg : Cfg X) (n ld rd : Nat) (m m' : Map X) (u : Unit)
    (h : run (threeSew3 cfg n ld rd) m = (.ok u, m')) :
    ∃ m1, run (threeLink3 (X := X) n ld rd) m = (.ok (), m1) ∧ SameTopo m1 m' := by
  unfold threeSew3 at h
  obtain ⟨⟨lo, ro⟩, _, h⟩ := run_ro_bind_ok (readOnly_faceOrbits3 _ _ _) h
  simp only [] at h
  obtain ⟨⟨edges, verts⟩, _, h⟩ := run_ro_bind_ok (readOnly_threeSewCollect _ _ _ _) h
  simp only [] at h
  obtain ⟨b1l, _, h⟩ := run_ro_bind_ok (ReadOnly.rB _ _) h
  obtain ⟨b2l, _, h⟩ := run_ro_bind_ok (ReadOnly.rB _ _) h
  obtain ⟨b1r, _, h⟩ := run_ro_bind_ok (ReadOnly.rB _ _) h
  obtain ⟨b2r, _, h⟩ := run_ro_bind_ok (ReadOnly.rB _ _) h
  obtain ⟨vl, _, h⟩ := run_ro_bind_ok (readOnly_vertexId3 _ _) h
  obtain ⟨vr, _, h⟩ := run_ro_bind_ok (readOnly_vertexId3 _ _) h
  obtain ⟨vb1l, _, h⟩ := run_ro_bind_ok (readOnly_vertexId3 _ _) h
  obtain ⟨vb1r, _, h⟩ := run_ro_bind_ok (readOnly_vertexId3 _ _) h
  obtain ⟨pl, _, h⟩ := run_ro_bind_ok (ReadOnly.rA _ _) h
  obtain ⟨pb1r, _, h⟩ := run_ro_bind_ok (ReadOnly.rA _ _) h
  obtain ⟨pb1l, _, h⟩ := run_ro_bind_ok (ReadOnly.rA _ _) h
  obtain ⟨pr, _, h⟩ := run_ro_bind_ok (ReadOnly.rA _ _) h
  try simp only [] at h
  obtain ⟨_, h⟩ := run_ite_abort_ok h
  obtain ⟨_, m1, hl, h⟩ := run_bind_ok h
  refine ⟨m1, hl, AttrOnly.run_ok' ?_ h⟩
  refine AttrOnly.bind (attrOnly_mergeAttrs _ _ _ _ _) fun _ => ?_
  refine AttrOnly.bind (attrOnly_forM_ _ _ fun p => attrOnly_mergeAttrs _ _ _ _ _) fun _ => ?_
  exact attrOnly_forM_ _ _ fun p =>
    AttrOnly.bind (attrOnly_mergeS _ _ _ _ _) fun _ => attrOnly_mergeAttrs _ _ _ _ _

/-- every successful 3-unsew performed exactly the 3-unlink on the topology -/
theorem threeUnsew3_topology (cfg : Cfg X) (n ld : Nat) (m m' : Map X) (u : Unit)
    (h : run (threeUnsew3 cfg n ld) m = (.ok u, m')) :
    ∃ m1, run (threeUnlink3 (X := X) n ld) m = (.ok (), m1) ∧ SameTopo m1 m' := by
  unfold threeUnsew3 at h
  obtain ⟨rd, _, h⟩ := run_ro_bind_ok (ReadOnly.rB _ _) h
  obtain ⟨_, m1, hl, h⟩ := run_bind_ok h
  refine ⟨m1, hl, AttrOnly.run_ok' ?_ h⟩
  refine AttrOnly.bind (AttrOnly.of_readOnly (readOnly_faceOrbits3 _ _ _)) fun x => ?_
  obtain ⟨lo, ro⟩ := x
  exact AttrOnly.bind (attrOnly_splitAttrs _ _ _ _ _) fun _ => attrOnly_threeUnsewLoop _ _ _

end HC
