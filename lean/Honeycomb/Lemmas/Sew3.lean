/-
  3-D sews (`dim3/sews/{one,two,three}.rs`): every successful sew / unsew performed exactly the
  corresponding link / unlink on the topology (β, flags, sizes); everything else it did only
  touched attribute values.  Shared by Props/C02 (integrity of sews) and Props/C05.
-/
import Honeycomb.Lemmas.Link3
import Honeycomb.Lemmas.Attr

set_option linter.unusedSimpArgs false
set_option linter.unusedVariables false

namespace HC
variable {X : Type}

theorem attrOnly_threeUnsewLoop (cfg : Cfg X) (n : Nat) :
    ∀ ps, AttrOnly (threeUnsewLoop cfg n ps) := by
  intro ps
  induction ps with
  | nil => exact AttrOnly.pure _
  | cons p rest ih =>
      obtain ⟨l, r⟩ := p
      unfold threeUnsewLoop
      refine AttrOnly.bind (ao_eid3 _ _) fun _ => ?_
      refine AttrOnly.bind (ao_eid3 _ _) fun _ => ?_
      refine AttrOnly.bind (attrOnly_splitAttrs _ _ _ _ _) fun _ => ?_
      refine AttrOnly.bind (AttrOnly.of_readOnly (ReadOnly.rB _ _)) fun _ => ?_
      refine AttrOnly.bind (AttrOnly.of_readOnly (ReadOnly.rB _ _)) fun _ => ?_
      refine AttrOnly.bind (ao_vid3 _ _) fun _ => ?_
      refine AttrOnly.bind (ao_vid3 _ _) fun _ => ?_
      refine AttrOnly.bind (attrOnly_splitS _ _ _ _ _) fun _ => ?_
      refine AttrOnly.bind (attrOnly_splitAttrs _ _ _ _ _) fun _ => ?_
      refine AttrOnly.bind (AttrOnly.of_readOnly (ReadOnly.rB _ _)) fun _ => ?_
      refine AttrOnly.ite ?_ ih
      refine AttrOnly.bind (AttrOnly.of_readOnly (ReadOnly.rB _ _)) fun _ => ?_
      refine AttrOnly.bind (AttrOnly.of_readOnly (ReadOnly.rB _ _)) fun _ => ?_
      refine AttrOnly.bind (ao_vid3 _ _) fun _ => ?_
      refine AttrOnly.bind (ao_vid3 _ _) fun _ => ?_
      refine AttrOnly.bind (attrOnly_splitS _ _ _ _ _) fun _ => ?_
      exact AttrOnly.bind (attrOnly_splitAttrs _ _ _ _ _) fun _ => ih

/-- every successful 3-D 1-sew performed exactly the 3-D 1-link on the topology -/
theorem oneSew3_topology (cfg : Cfg X) (n l r : Nat) (m m' : Map X) (u : Unit)
    (h : run (oneSew3 cfg n l r) m = (.ok u, m')) :
    ∃ m1, run (oneLink3 (X := X) l r) m = (.ok (), m1) ∧ SameTopo m1 m' := by
  unfold oneSew3 at h
  obtain ⟨b3l, _, h⟩ := run_ro_bind_ok (ReadOnly.rB _ _) h
  obtain ⟨b2l, _, h⟩ := run_ro_bind_ok (ReadOnly.rB _ _) h
  have tail : ∀ vl, run (do
      let vr ← vertexId3 n r
      oneLink3 l r
      if vl ≠ 0 then do
        let nv := min vr vl
        mergeS cfg 0 nv vl vr
        mergeAttrs cfg 0 nv vl vr
      else pure ()) m = (.ok u, m') →
      ∃ m1, run (oneLink3 (X := X) l r) m = (.ok (), m1) ∧ SameTopo m1 m' := by
    intro vl h
    obtain ⟨vr, _, h⟩ := run_ro_bind_ok (readOnly_vertexId3 _ _) h
    obtain ⟨_, m1, hl, h⟩ := run_bind_ok h
    refine ⟨m1, hl, ?_⟩
    exact AttrOnly.run_ok' (AttrOnly.ite
      (AttrOnly.bind (attrOnly_mergeS cfg 0 _ vl vr) fun _ => attrOnly_mergeAttrs cfg 0 _ vl vr)
      (AttrOnly.pure _)) h
  by_cases c1 : b3l ≠ 0
  · simp only [if_pos c1] at h
    obtain ⟨vl, _, h⟩ := run_ro_bind_ok (readOnly_vertexId3 _ _) h
    exact tail vl h
  · simp only [if_neg c1] at h
    by_cases c2 : b2l ≠ 0
    · simp only [if_pos c2] at h
      obtain ⟨vl, _, h⟩ := run_ro_bind_ok (readOnly_vertexId3 _ _) h
      exact tail vl h
    · simp only [if_neg c2] at h
      obtain ⟨vl, _, h⟩ := run_ro_bind_ok (ReadOnly.pure _) h
      exact tail vl h


/-- every successful 3-D 1-unsew performed exactly the 3-D 1-unlink on the topology -/
theorem oneUnsew3_topology (cfg : Cfg X) (n l : Nat) (m m' : Map X) (u : Unit)
    (h : run (oneUnsew3 cfg n l) m = (.ok u, m')) :
    ∃ m1, run (oneUnlink3 (X := X) l) m = (.ok (), m1) ∧ SameTopo m1 m' := by
  unfold oneUnsew3 at h
  obtain ⟨r, _, h⟩ := run_ro_bind_ok (ReadOnly.rB _ _) h
  obtain ⟨vold, _, h⟩ := run_ro_bind_ok (readOnly_vertexId3 _ _) h
  obtain ⟨_, m1, hl, h⟩ := run_bind_ok h
  refine ⟨m1, hl, ?_⟩
  refine AttrOnly.run_ok' ?_ h
  refine AttrOnly.bind (AttrOnly.of_readOnly (ReadOnly.rB _ _)) fun b2l => ?_
  refine AttrOnly.bind (AttrOnly.of_readOnly (ReadOnly.rB _ _)) fun b3l => ?_
  refine AttrOnly.ite (AttrOnly.pure _) ?_
  refine AttrOnly.bind (ao_vid3 _ _) fun vl => ?_
  refine AttrOnly.bind (ao_vid3 _ _) fun vr => ?_
  exact AttrOnly.ite (AttrOnly.bind (attrOnly_splitS _ _ _ _ _) fun _ => attrOnly_splitAttrs _ _ _ _ _)
    (AttrOnly.pure _)

/-- every successful 3-D 2-sew performed exactly the 2-link on the topology -/
theorem twoSew3_topology (cfg : Cfg X) (n l r : Nat) (m m' : Map X) (u : Unit)
    (h : run (twoSew3 cfg n l r) m = (.ok u, m')) :
    ∃ m1, run (iLinkCore (X := X) 2 l r) m = (.ok (), m1) ∧ SameTopo m1 m' := by
  unfold twoSew3 at h
  obtain ⟨b1l, _, h⟩ := run_ro_bind_ok (ReadOnly.rB _ _) h
  obtain ⟨b1r, _, h⟩ := run_ro_bind_ok (ReadOnly.rB _ _) h
  by_cases c1 : b1l = 0 ∧ b1r = 0
  · rw [if_pos c1] at h
    obtain ⟨el, _, h⟩ := run_ro_bind_ok (readOnly_edgeId3 _ _) h
    obtain ⟨er, _, h⟩ := run_ro_bind_ok (readOnly_edgeId3 _ _) h
    obtain ⟨_, m1, hl, h⟩ := run_bind_ok h
    refine ⟨m1, hl, AttrOnly.run_ok' ?_ h⟩
    exact AttrOnly.bind (ao_eid3 _ _) fun en => attrOnly_mergeAttrs cfg 1 en el er
  · rw [if_neg c1] at h
    by_cases c2 : b1l = 0
    · rw [if_pos c2] at h
      obtain ⟨el, _, h⟩ := run_ro_bind_ok (readOnly_edgeId3 _ _) h
      obtain ⟨er, _, h⟩ := run_ro_bind_ok (readOnly_edgeId3 _ _) h
      obtain ⟨lv, _, h⟩ := run_ro_bind_ok (readOnly_vertexId3 _ _) h
      obtain ⟨b1rv, _, h⟩ := run_ro_bind_ok (readOnly_vertexId3 _ _) h
      obtain ⟨_, m1, hl, h⟩ := run_bind_ok h
      refine ⟨m1, hl, AttrOnly.run_ok' ?_ h⟩
      exact AttrOnly.bind (ao_vid3 _ _) fun lvn => AttrOnly.bind (ao_eid3 _ _) fun en =>
        AttrOnly.bind (attrOnly_mergeS cfg 0 lvn lv b1rv) fun _ =>
        AttrOnly.bind (attrOnly_mergeAttrs cfg 0 lvn lv b1rv) fun _ => attrOnly_mergeAttrs cfg 1 en el er
    · rw [if_neg c2] at h
      by_cases c3 : b1r = 0
      · rw [if_pos c3] at h
        obtain ⟨el, _, h⟩ := run_ro_bind_ok (readOnly_edgeId3 _ _) h
        obtain ⟨er, _, h⟩ := run_ro_bind_ok (readOnly_edgeId3 _ _) h
        obtain ⟨b1lv, _, h⟩ := run_ro_bind_ok (readOnly_vertexId3 _ _) h
        obtain ⟨rv, _, h⟩ := run_ro_bind_ok (readOnly_vertexId3 _ _) h
        obtain ⟨_, m1, hl, h⟩ := run_bind_ok h
        refine ⟨m1, hl, AttrOnly.run_ok' ?_ h⟩
        exact AttrOnly.bind (ao_vid3 _ _) fun rvn => AttrOnly.bind (ao_eid3 _ _) fun en =>
          AttrOnly.bind (attrOnly_mergeS cfg 0 rvn b1lv rv) fun _ =>
          AttrOnly.bind (attrOnly_mergeAttrs cfg 0 rvn b1lv rv) fun _ => attrOnly_mergeAttrs cfg 1 en el er
      · rw [if_neg c3] at h
        obtain ⟨el, _, h⟩ := run_ro_bind_ok (readOnly_edgeId3 _ _) h
        obtain ⟨er, _, h⟩ := run_ro_bind_ok (readOnly_edgeId3 _ _) h
        obtain ⟨lv, _, h⟩ := run_ro_bind_ok (readOnly_vertexId3 _ _) h
        obtain ⟨b1rv, _, h⟩ := run_ro_bind_ok (readOnly_vertexId3 _ _) h
        obtain ⟨b1lv, _, h⟩ := run_ro_bind_ok (readOnly_vertexId3 _ _) h
        obtain ⟨rv, _, h⟩ := run_ro_bind_ok (readOnly_vertexId3 _ _) h
        obtain ⟨pl, _, h⟩ := run_ro_bind_ok (ReadOnly.rA _ _) h
        obtain ⟨pb1r, _, h⟩ := run_ro_bind_ok (ReadOnly.rA _ _) h
        obtain ⟨pb1l, _, h⟩ := run_ro_bind_ok (ReadOnly.rA _ _) h
        obtain ⟨pr, _, h⟩ := run_ro_bind_ok (ReadOnly.rA _ _) h
        simp only [] at h
        obtain ⟨_, h⟩ := run_ite_abort_ok h
        obtain ⟨_, m1, hl, h⟩ := run_bind_ok h
        refine ⟨m1, hl, AttrOnly.run_ok' ?_ h⟩
        exact AttrOnly.bind (ao_vid3 _ _) fun lvn => AttrOnly.bind (ao_vid3 _ _) fun rvn =>
          AttrOnly.bind (ao_eid3 _ _) fun en =>
          AttrOnly.bind (attrOnly_mergeS cfg 0 lvn lv b1rv) fun _ =>
          AttrOnly.bind (attrOnly_mergeS cfg 0 rvn b1lv rv) fun _ =>
          AttrOnly.bind (attrOnly_mergeAttrs cfg 0 lvn lv b1rv) fun _ =>
          AttrOnly.bind (attrOnly_mergeAttrs cfg 0 rvn b1lv rv) fun _ => attrOnly_mergeAttrs cfg 1 en el er

/-- every successful 3-D 2-unsew performed exactly the 2-unlink on the topology -/
theorem twoUnsew3_topology (cfg : Cfg X) (n l : Nat) (m m' : Map X) (u : Unit)
    (h : run (twoUnsew3 cfg n l) m = (.ok u, m')) :
    ∃ m1, run (iUnlinkCore (X := X) 2 l) m = (.ok (), m1) ∧ SameTopo m1 m' := by
  unfold twoUnsew3 at h
  obtain ⟨r, _, h⟩ := run_ro_bind_ok (ReadOnly.rB _ _) h
  obtain ⟨b1l, _, h⟩ := run_ro_bind_ok (ReadOnly.rB _ _) h
  obtain ⟨b1r, _, h⟩ := run_ro_bind_ok (ReadOnly.rB _ _) h
  by_cases c1 : b1l = 0 ∧ b1r = 0
  · rw [if_pos c1] at h
    obtain ⟨eold, _, h⟩ := run_ro_bind_ok (readOnly_edgeId3 _ _) h
    obtain ⟨_, m1, hl, h⟩ := run_bind_ok h
    refine ⟨m1, hl, AttrOnly.run_ok' ?_ h⟩
    exact AttrOnly.bind (ao_eid3 _ _) fun enl => AttrOnly.bind (ao_eid3 _ _) fun enr =>
      attrOnly_splitAttrs cfg 1 enl enr eold
  · rw [if_neg c1] at h
    by_cases c2 : b1l = 0
    · rw [if_pos c2] at h
      obtain ⟨eold, _, h⟩ := run_ro_bind_ok (readOnly_edgeId3 _ _) h
      obtain ⟨lvold, _, h⟩ := run_ro_bind_ok (readOnly_vertexId3 _ _) h
      obtain ⟨_, m1, hl, h⟩ := run_bind_ok h
      refine ⟨m1, hl, AttrOnly.run_ok' ?_ h⟩
      exact AttrOnly.bind (ao_eid3 _ _) fun enl => AttrOnly.bind (ao_eid3 _ _) fun enr =>
        AttrOnly.bind (attrOnly_splitAttrs cfg 1 enl enr eold) fun _ =>
        AttrOnly.bind (ao_vid3 _ _) fun a => AttrOnly.bind (ao_vid3 _ _) fun b =>
        AttrOnly.bind (attrOnly_splitS cfg 0 a b lvold) fun _ => attrOnly_splitAttrs cfg 0 a b lvold
    · rw [if_neg c2] at h
      by_cases c3 : b1r = 0
      · rw [if_pos c3] at h
        obtain ⟨eold, _, h⟩ := run_ro_bind_ok (readOnly_edgeId3 _ _) h
        obtain ⟨rvold, _, h⟩ := run_ro_bind_ok (readOnly_vertexId3 _ _) h
        obtain ⟨_, m1, hl, h⟩ := run_bind_ok h
        refine ⟨m1, hl, AttrOnly.run_ok' ?_ h⟩
        exact AttrOnly.bind (ao_eid3 _ _) fun enl => AttrOnly.bind (ao_eid3 _ _) fun enr =>
          AttrOnly.bind (attrOnly_splitAttrs cfg 1 enl enr eold) fun _ =>
          AttrOnly.bind (ao_vid3 _ _) fun a => AttrOnly.bind (ao_vid3 _ _) fun b =>
          AttrOnly.bind (attrOnly_splitS cfg 0 a b rvold) fun _ => attrOnly_splitAttrs cfg 0 a b rvold
      · rw [if_neg c3] at h
        obtain ⟨eold, _, h⟩ := run_ro_bind_ok (readOnly_edgeId3 _ _) h
        obtain ⟨lvold, _, h⟩ := run_ro_bind_ok (readOnly_vertexId3 _ _) h
        obtain ⟨rvold, _, h⟩ := run_ro_bind_ok (readOnly_vertexId3 _ _) h
        obtain ⟨_, m1, hl, h⟩ := run_bind_ok h
        refine ⟨m1, hl, AttrOnly.run_ok' ?_ h⟩
        exact AttrOnly.bind (ao_eid3 _ _) fun enl => AttrOnly.bind (ao_eid3 _ _) fun enr =>
          AttrOnly.bind (attrOnly_splitAttrs cfg 1 enl enr eold) fun _ =>
          AttrOnly.bind (ao_vid3 _ _) fun a => AttrOnly.bind (ao_vid3 _ _) fun b =>
          AttrOnly.bind (ao_vid3 _ _) fun c => AttrOnly.bind (ao_vid3 _ _) fun d =>
          AttrOnly.bind (attrOnly_splitS cfg 0 a b lvold) fun _ =>
          AttrOnly.bind (attrOnly_splitS cfg 0 c d rvold) fun _ =>
          AttrOnly.bind (attrOnly_splitAttrs cfg 0 a b lvold) fun _ => attrOnly_splitAttrs cfg 0 c d rvold

/-- every successful 3-sew performed exactly the 3-link on the topology -/
theorem threeSew3_topology (cfg : Cfg X) (n ld rd : Nat) (m m' : Map X) (u : Unit)
    (h : run (threeSew3 cfg n ld rd) m = (.ok u, m')) :
    ∃ m1, run (threeLink3 (X := X) n ld rd) m = (.ok (), m1) ∧ SameTopo m1 m' := by
  unfold threeSew3 at h
  obtain ⟨⟨lo, ro⟩, _, h⟩ := run_ro_bind_ok (readOnly_faceOrbits3 _ _ _) h
  simp only [] at h
  obtain ⟨⟨edges, verts⟩, _, h⟩ := run_ro_bind_ok (readOnly_threeSewCollect _ _ _ _) h
  simp only [] at h
  obtain ⟨b1l, _, h⟩ := run_ro_bind_ok (ReadOnly.rB _ _) h
  obtain ⟨b2l, _, h⟩ := run_ro_bind_ok (ReadOnly.rB _ _) h
  obtain ⟨b1r, _, h⟩ := run_ro_bind_ok (ReadOnly.rB _ _) h
  obtain ⟨b2r, _, h⟩ := run_ro_bind_ok (ReadOnly.rB _ _) h
  obtain ⟨vl, _, h⟩ := run_ro_bind_ok (readOnly_vertexId3 _ _) h
  obtain ⟨vr, _, h⟩ := run_ro_bind_ok (readOnly_vertexId3 _ _) h
  obtain ⟨vb1l, _, h⟩ := run_ro_bind_ok (readOnly_vertexId3 _ _) h
  obtain ⟨vb1r, _, h⟩ := run_ro_bind_ok (readOnly_vertexId3 _ _) h
  obtain ⟨pl, _, h⟩ := run_ro_bind_ok (ReadOnly.rA _ _) h
  obtain ⟨pb1r, _, h⟩ := run_ro_bind_ok (ReadOnly.rA _ _) h
  obtain ⟨pb1l, _, h⟩ := run_ro_bind_ok (ReadOnly.rA _ _) h
  obtain ⟨pr, _, h⟩ := run_ro_bind_ok (ReadOnly.rA _ _) h
  try simp only [] at h
  obtain ⟨_, h⟩ := run_ite_abort_ok h
  obtain ⟨_, m1, hl, h⟩ := run_bind_ok h
  refine ⟨m1, hl, AttrOnly.run_ok' ?_ h⟩
  refine AttrOnly.bind (attrOnly_mergeAttrs _ _ _ _ _) fun _ => ?_
  refine AttrOnly.bind (attrOnly_forM_ _ _ fun p => attrOnly_mergeAttrs _ _ _ _ _) fun _ => ?_
  exact attrOnly_forM_ _ _ fun p =>
    AttrOnly.bind (attrOnly_mergeS _ _ _ _ _) fun _ => attrOnly_mergeAttrs _ _ _ _ _

/-- every successful 3-unsew performed exactly the 3-unlink on the topology -/
theorem threeUnsew3_topology (cfg : Cfg X) (n ld : Nat) (m m' : Map X) (u : Unit)
    (h : run (threeUnsew3 cfg n ld) m = (.ok u, m')) :
    ∃ m1, run (threeUnlink3 (X := X) n ld) m = (.ok (), m1) ∧ SameTopo m1 m' := by
  unfold threeUnsew3 at h
  obtain ⟨rd, _, h⟩ := run_ro_bind_ok (ReadOnly.rB _ _) h
  obtain ⟨_, m1, hl, h⟩ := run_bind_ok h
  refine ⟨m1, hl, AttrOnly.run_ok' ?_ h⟩
  refine AttrOnly.bind (AttrOnly.of_readOnly (readOnly_faceOrbits3 _ _ _)) fun x => ?_
  obtain ⟨lo, ro⟩ := x
  exact AttrOnly.bind (attrOnly_splitAttrs _ _ _ _ _) fun _ => attrOnly_threeUnsewLoop _ _ _


/-! ## links never touch attribute values or the fault countdown -/

/-- the program writes neither attribute values nor the fault countdown (whatever its outcome) -/
def TopoOnly {α : Type} (p : P X α) : Prop := ∀ m : Map X, (run p m).2.a = m.a ∧ (run p m).2.fc = m.fc

theorem TopoOnly.of_readOnly {α : Type} {p : P X α} (h : ReadOnly p) : TopoOnly p := by
  intro m; rw [h m]; exact ⟨rfl, rfl⟩

theorem TopoOnly.pure {α : Type} (a : α) : TopoOnly (pure a : P X α) := fun _ => ⟨rfl, rfl⟩
theorem TopoOnly.abort {α : Type} (e : Err) : TopoOnly (abort e : P X α) := fun _ => ⟨rfl, rfl⟩
theorem TopoOnly.panic {α : Type} : TopoOnly (Prog.panic : P X α) := fun _ => ⟨rfl, rfl⟩

theorem TopoOnly.bind {α β : Type} {p : P X α} {f : α → P X β} (hp : TopoOnly p) (hf : ∀ a, TopoOnly (f a)) :
    TopoOnly (p.bind f) := by
  intro m
  rw [run_bind_snd]
  have := hp m
  match h : run p m with
  | (.ok a, m') =>
      rw [h] at this
      have h2 := hf a m'
      exact ⟨h2.1.trans this.1, h2.2.trans this.2⟩
  | (.err e, m') => rw [h] at this; exact this
  | (.retry, m') => rw [h] at this; exact this
  | (.panic, m') => rw [h] at this; exact this

theorem TopoOnly.ite {α : Type} {c : Prop} [Decidable c] {p q : P X α} (hp : TopoOnly p) (hq : TopoOnly q) :
    TopoOnly (if c then p else q) := by
  split <;> assumption

theorem TopoOnly.rB (i d : Nat) : TopoOnly (rB i d : P X Nat) := TopoOnly.of_readOnly (ReadOnly.rB i d)

theorem TopoOnly.wB (i d v : Nat) : TopoOnly (wB i d v : P X Unit) := by
  intro m; simp only [run_wB']; split <;> exact ⟨rfl, rfl⟩

theorem TopoOnly.run_ok {α : Type} {p : P X α} (hp : TopoOnly p) {m m' : Map X} {a : α}
    (h : run p m = (.ok a, m')) : m'.a = m.a ∧ m'.fc = m.fc := by
  have := hp m; rw [h] at this; exact this

theorem topoOnly_oneLinkCore (l r : Nat) : TopoOnly (oneLinkCore (X := X) l r) := by
  unfold oneLinkCore
  refine TopoOnly.bind (TopoOnly.rB _ _) fun _ => TopoOnly.ite (TopoOnly.abort _) ?_
  refine TopoOnly.bind (TopoOnly.rB _ _) fun _ => TopoOnly.ite (TopoOnly.abort _) ?_
  exact TopoOnly.bind (TopoOnly.wB _ _ _) fun _ => TopoOnly.wB _ _ _

theorem topoOnly_iLinkCore (i l r : Nat) : TopoOnly (iLinkCore (X := X) i l r) := by
  unfold iLinkCore
  refine TopoOnly.bind (TopoOnly.rB _ _) fun _ => TopoOnly.ite (TopoOnly.abort _) ?_
  refine TopoOnly.bind (TopoOnly.rB _ _) fun _ => TopoOnly.ite (TopoOnly.abort _) ?_
  exact TopoOnly.bind (TopoOnly.wB _ _ _) fun _ => TopoOnly.wB _ _ _

theorem topoOnly_oneUnlinkCore (l : Nat) : TopoOnly (oneUnlinkCore (X := X) l) := by
  unfold oneUnlinkCore
  refine TopoOnly.bind (TopoOnly.rB _ _) fun _ => TopoOnly.bind (TopoOnly.wB _ _ _) fun _ => ?_
  exact TopoOnly.ite (TopoOnly.abort _) (TopoOnly.wB _ _ _)

theorem topoOnly_iUnlinkCore (i l : Nat) : TopoOnly (iUnlinkCore (X := X) i l) := by
  unfold iUnlinkCore
  refine TopoOnly.bind (TopoOnly.rB _ _) fun _ => TopoOnly.bind (TopoOnly.wB _ _ _) fun _ => ?_
  exact TopoOnly.ite (TopoOnly.abort _) (TopoOnly.wB _ _ _)

theorem topoOnly_oneLink3 (l r : Nat) : TopoOnly (oneLink3 (X := X) l r) := by
  unfold oneLink3
  refine TopoOnly.bind (topoOnly_oneLinkCore _ _) fun _ => ?_
  refine TopoOnly.bind (TopoOnly.rB _ _) fun _ => TopoOnly.bind (TopoOnly.rB _ _) fun _ => ?_
  exact TopoOnly.ite (topoOnly_oneLinkCore _ _) (TopoOnly.pure _)

theorem topoOnly_oneUnlink3 (l : Nat) : TopoOnly (oneUnlink3 (X := X) l) := by
  unfold oneUnlink3
  refine TopoOnly.bind (TopoOnly.rB _ _) fun _ => ?_
  refine TopoOnly.bind (topoOnly_oneUnlinkCore _) fun _ => ?_
  refine TopoOnly.bind (TopoOnly.rB _ _) fun _ => TopoOnly.bind (TopoOnly.rB _ _) fun _ => ?_
  refine TopoOnly.ite ?_ (TopoOnly.pure _)
  refine TopoOnly.bind (TopoOnly.rB _ _) fun _ => ?_
  exact TopoOnly.ite (TopoOnly.abort _) (topoOnly_oneUnlinkCore _)

theorem topoOnly_threeLinkWalk (ld rd stop i j : Nat) :
    ∀ f ls rs, TopoOnly (threeLinkWalk (X := X) ld rd stop i j f ls rs) := by
  intro f
  induction f with
  | zero => intro ls rs; unfold threeLinkWalk; exact TopoOnly.panic
  | succ f ih =>
      intro ls rs
      unfold threeLinkWalk
      refine TopoOnly.ite ?_ (TopoOnly.pure _)
      refine TopoOnly.ite (TopoOnly.abort _) ?_
      refine TopoOnly.bind (topoOnly_iLinkCore _ _ _) fun _ => ?_
      exact TopoOnly.bind (TopoOnly.rB _ _) fun _ => TopoOnly.bind (TopoOnly.rB _ _) fun _ => ih _ _

theorem topoOnly_threeLink3 (n ld rd : Nat) : TopoOnly (threeLink3 (X := X) n ld rd) := by
  unfold threeLink3
  refine TopoOnly.bind (topoOnly_iLinkCore _ _ _) fun _ => ?_
  refine TopoOnly.bind (TopoOnly.rB _ _) fun _ => TopoOnly.bind (TopoOnly.rB _ _) fun _ => ?_
  refine TopoOnly.bind (topoOnly_threeLinkWalk _ _ _ _ _ _ _ _) fun x => ?_
  obtain ⟨ls, rs⟩ := x
  refine TopoOnly.ite ?_ (TopoOnly.ite (TopoOnly.abort _) (TopoOnly.pure _))
  refine TopoOnly.ite (TopoOnly.abort _) ?_
  refine TopoOnly.bind (TopoOnly.rB _ _) fun _ => TopoOnly.bind (TopoOnly.rB _ _) fun _ => ?_
  refine TopoOnly.bind (topoOnly_threeLinkWalk _ _ _ _ _ _ _ _) fun y => ?_
  obtain ⟨_, rs2⟩ := y
  exact TopoOnly.ite (TopoOnly.abort _) (TopoOnly.pure _)

theorem topoOnly_threeUnlinkWalk (ld rd stop i j : Nat) (again : Bool) :
    ∀ f ls rs, TopoOnly (threeUnlinkWalk (X := X) ld rd stop i j again f ls rs) := by
  intro f
  induction f with
  | zero => intro ls rs; unfold threeUnlinkWalk; exact TopoOnly.panic
  | succ f ih =>
      intro ls rs
      unfold threeUnlinkWalk
      refine TopoOnly.ite ?_ (TopoOnly.pure _)
      refine TopoOnly.bind (TopoOnly.rB _ _) fun _ => ?_
      refine TopoOnly.ite (TopoOnly.abort _) ?_
      have tail : ∀ y, TopoOnly (if ls ≠ y then (Prog.panic : P X (Nat × Nat)) else do
          iUnlinkCore 3 ls
          let ls' ← rB i ls
          let rs' ← rB j rs
          threeUnlinkWalk ld rd stop i j again f ls' rs') := by
        intro y
        refine TopoOnly.ite TopoOnly.panic ?_
        refine TopoOnly.bind (topoOnly_iUnlinkCore _ _) fun _ => ?_
        exact TopoOnly.bind (TopoOnly.rB _ _) fun _ => TopoOnly.bind (TopoOnly.rB _ _) fun _ => ih _ _
      cases again with
      | false => exact TopoOnly.bind (TopoOnly.pure _) tail
      | true => exact TopoOnly.bind (TopoOnly.rB _ _) tail

theorem topoOnly_threeUnlink3 (n ld : Nat) : TopoOnly (threeUnlink3 (X := X) n ld) := by
  unfold threeUnlink3
  refine TopoOnly.bind (TopoOnly.rB _ _) fun _ => ?_
  refine TopoOnly.bind (topoOnly_iUnlinkCore _ _) fun _ => ?_
  refine TopoOnly.bind (TopoOnly.rB _ _) fun _ => TopoOnly.bind (TopoOnly.rB _ _) fun _ => ?_
  refine TopoOnly.bind (topoOnly_threeUnlinkWalk _ _ _ _ _ _ _ _ _) fun x => ?_
  obtain ⟨ls, rs⟩ := x
  refine TopoOnly.ite ?_ (TopoOnly.pure _)
  refine TopoOnly.ite (TopoOnly.abort _) ?_
  refine TopoOnly.bind (TopoOnly.rB _ _) fun _ => TopoOnly.bind (TopoOnly.rB _ _) fun _ => ?_
  exact TopoOnly.bind (topoOnly_threeUnlinkWalk _ _ _ _ _ _ _ _ _) fun _ => TopoOnly.pure _

end HC
