/-
  `face_id_transac` of `CMap3` (`dim3/basic_ops.rs`, model `faceId3` / `faceWalk3` in Model/Ops3.lean):
  the two-sided lock-step walk, analysed without computing its trace.

  * `fw`            the loop of `faceWalk3` over two pure step functions
  * `run_faceWalk3` the monadic loop computes `fw (β i) (β j)` (reads in range) and leaves the map alone
  * `fw_terminates` fuel `≥ (#darts not yet marked) + 1` suffices: every round marks a new dart
  * `fw_facts`      whatever it returns: the minimum only decreases, it is the old one or a non-null dart
                    of one of the two sequences, and the final pair is the `T`-th pair of the sequences
  * `fw_phase1`     while the left dart is new the loop just steps (explicit unrolling)

  Core Lean + two Mathlib list modules.  Used by Props/C20b.lean (`faceId3_min`).
-/
import Honeycomb.Lemmas.Bfs
import Honeycomb.Lemmas.Run
import Honeycomb.Lemmas.WFLink
import Honeycomb.Model.Ops3
import Mathlib.Data.List.Nodup
import Mathlib.Data.List.Iterate
import Mathlib.Logic.Function.Iterate

set_option linter.unusedSimpArgs false
set_option linter.unusedVariables false

namespace HC.Face3
open HC

/-- update of the running minimum in one round -/
def upd (mn a b : Nat) : Nat :=
  let mn1 := if a ≠ 0 then min mn a else mn
  if b ≠ 0 then min mn1 b else mn1

theorem upd_le (mn a b : Nat) : upd mn a b ≤ mn ∧ (a ≠ 0 → upd mn a b ≤ a) ∧ (b ≠ 0 → upd mn a b ≤ b) := by
  unfold upd
  simp only []
  split_ifs <;> omega

theorem upd_mem (mn a b : Nat) : upd mn a b = mn ∨ (a ≠ 0 ∧ upd mn a b = a) ∨ (b ≠ 0 ∧ upd mn a b = b) := by
  unfold upd
  simp only []
  split_ifs <;> omega

/-- the loop of `faceWalk3` over pure step functions; `none` = out of fuel (panic) -/
def fw (f1 f0 : Nat → Nat) : Nat → Nat → Nat → List Nat → Nat → Option (Nat × Nat × List Nat × Nat)
  | 0, _, _, _, _ => none
  | f + 1, lb, rb, marked, mn =>
      if !marked.contains lb then fw f1 f0 f (f1 lb) (f0 rb) (marked ++ [lb]) (upd mn (f1 lb) (f0 rb))
      else if !marked.contains rb then fw f1 f0 f (f1 lb) (f0 rb) (marked ++ [rb]) (upd mn (f1 lb) (f0 rb))
      else some (lb, rb, marked, mn)

/-! ## the monadic loop computes `fw` -/

theorem run_faceWalk3 {X : Type} {m : Map X} (hwf : WF 4 m) {i j : Nat} (hi : i < 4) (hj : j < 4) :
    ∀ (fuel lb rb : Nat) (marked : List Nat) (mn : Nat), lb < m.n → rb < m.n →
      run (faceWalk3 (X := X) i j fuel lb rb marked mn) m =
        (match fw (m.β i) (m.β j) fuel lb rb marked mn with
          | some r => .ok r
          | none => .panic, m) := by
  intro fuel
  induction fuel with
  | zero => intro lb rb marked mn _ _; rfl
  | succ f ih =>
      intro lb rb marked mn hlb hrb
      have oki : m.okβ i lb = true := (hwf.toSized.okβ i lb).2 ⟨hi, hlb⟩
      have okj : m.okβ j rb = true := (hwf.toSized.okβ j rb).2 ⟨hj, hrb⟩
      have hl' : m.β i lb < m.n := hwf.range i hi lb hlb
      have hr' : m.β j rb < m.n := hwf.range j hj rb hrb
      have step : ∀ mk', run ((rB i lb).bind fun lb' => (rB j rb).bind fun rb' =>
            faceWalk3 (X := X) i j f lb' rb' mk'
              (if rb' ≠ 0 then min (if lb' ≠ 0 then min mn lb' else mn) rb'
                else (if lb' ≠ 0 then min mn lb' else mn))) m =
          (match fw (m.β i) (m.β j) f (m.β i lb) (m.β j rb) mk' (upd mn (m.β i lb) (m.β j rb)) with
            | some r => .ok r
            | none => .panic, m) := by
        intro mk'
        rw [run_rB, if_pos oki, run_rB, if_pos okj]
        exact ih _ _ mk' _ hl' hr'
      unfold faceWalk3 fw
      by_cases h1 : marked.contains lb = true
      · by_cases h2 : marked.contains rb = true
        · simp only [h1, h2, Bool.not_true, Bool.false_eq_true, if_false]
          rfl
        · simp only [h1, h2, Bool.not_true, Bool.false_eq_true, if_false, Bool.not_false, if_true,
            Bool.not_eq_true]
          exact step _
      · simp only [h1, Bool.not_false, if_true, Bool.not_eq_true]
        exact step _

/-! ## termination: every round marks a new dart -/

/-- number of darts below `n` that are not marked -/
def phi (n : Nat) (marked : List Nat) : Nat :=
  ((List.range n).filter (fun x => !marked.contains x)).length

theorem filter_drop_one {l : List Nat} (hn : l.Nodup) {p : Nat → Bool} {x : Nat} (hx : x ∈ l)
    (hp : p x = true) :
    (l.filter (fun y => p y && !(y == x))).length + 1 = (l.filter p).length := by
  induction l with
  | nil => simp at hx
  | cons a t ih =>
      have hnt := (List.nodup_cons.1 hn).2
      have hat := (List.nodup_cons.1 hn).1
      rcases List.mem_cons.1 hx with rfl | hxt
      · -- head is x: the tail does not contain x, so the extra test is vacuous there
        have : t.filter (fun y => p y && !(y == x)) = t.filter p := by
          apply List.filter_congr
          intro y hy
          have : y ≠ x := fun e => hat (e ▸ hy)
          simp [this]
        simp [List.filter_cons, hp, this]
      · have hne : a ≠ x := fun e => hat (e ▸ hxt)
        have := ih hnt hxt
        by_cases hpa : p a = true
        · simp [List.filter_cons, hpa, hne]; omega
        · simp [List.filter_cons, hpa]; omega

theorem phi_dec {n x : Nat} {marked : List Nat} (hx : x < n) (hnm : marked.contains x = false) :
    phi n (marked ++ [x]) + 1 = phi n marked := by
  unfold phi
  have h := filter_drop_one (l := List.range n) List.nodup_range (p := fun y => !marked.contains y)
    (x := x) (List.mem_range.2 hx) (by show (!marked.contains x) = true; rw [hnm]; rfl)
  rw [← h]
  congr 2
  apply List.filter_congr
  intro y _
  simp only [List.contains_eq_mem, List.mem_append, List.mem_singleton, Bool.decide_or,
    Bool.not_or, beq_iff_eq]
  by_cases e : y = x <;> simp [e]

/-- the walk ends before the fuel does, if the fuel exceeds the number of unmarked darts -/
theorem fw_terminates {f1 f0 : Nat → Nat} {n : Nat} (h1 : ∀ x, x < n → f1 x < n)
    (h0 : ∀ x, x < n → f0 x < n) :
    ∀ (fuel lb rb : Nat) (marked : List Nat) (mn : Nat), lb < n → rb < n → phi n marked + 1 ≤ fuel →
      ∃ r, fw f1 f0 fuel lb rb marked mn = some r := by
  intro fuel
  induction fuel with
  | zero => intro lb rb marked mn _ _ h; omega
  | succ f ih =>
      intro lb rb marked mn hlb hrb hf
      unfold fw
      by_cases c1 : marked.contains lb = true
      · by_cases c2 : marked.contains rb = true
        · simp only [c1, c2, Bool.not_true, Bool.false_eq_true, if_false]
          exact ⟨_, rfl⟩
        · simp only [c1, c2, Bool.not_true, Bool.false_eq_true, if_false, Bool.not_false, if_true,
            Bool.not_eq_true]
          have := phi_dec (n := n) hrb (by simpa using c2)
          exact ih _ _ _ _ (h1 lb hlb) (h0 rb hrb) (by omega)
      · simp only [c1, Bool.not_false, if_true, Bool.not_eq_true]
        have := phi_dec (n := n) hlb (by simpa using c1)
        exact ih _ _ _ _ (h1 lb hlb) (h0 rb hrb) (by omega)

theorem phi_le {n : Nat} {marked : List Nat} (hn : 0 < n) (h0 : 0 ∈ marked) : phi n marked + 1 ≤ n := by
  unfold phi
  have h := filter_drop_one (l := List.range n) List.nodup_range (p := fun _ => true) (x := 0)
    (List.mem_range.2 hn) rfl
  have hle : ((List.range n).filter (fun x => !marked.contains x)).length ≤
      ((List.range n).filter (fun y => true && !(y == 0))).length := by
    apply List.Sublist.length_le
    apply List.monotone_filter_right
    intro y hy
    have : y ≠ 0 := by
      intro e; subst e; simp [h0] at hy
    simp [this]
  have hall : ((List.range n).filter (fun _ => true)).length = n := by simp
  omega

/-! ## what the walk returns -/

/-- generic facts about a terminated walk: the minimum only decreases; it is the old one or a
    non-null dart met on one of the two sequences; the marked set only grows; the final pair is the
    `T`-th pair of the two sequences -/
theorem fw_facts {f1 f0 : Nat → Nat} :
    ∀ (fuel lb rb : Nat) (marked : List Nat) (mn : Nat) (lbF rbF : Nat) (mkF : List Nat) (mnF : Nat),
      fw f1 f0 fuel lb rb marked mn = some (lbF, rbF, mkF, mnF) →
      mnF ≤ mn ∧
      (mnF = mn ∨ (mnF ≠ 0 ∧ ((∃ s, mnF = f1^[s] lb) ∨ ∃ s, mnF = f0^[s] rb))) ∧
      (∀ x, x ∈ marked → x ∈ mkF) ∧
      ∃ T, lbF = f1^[T] lb ∧ rbF = f0^[T] rb := by
  intro fuel
  induction fuel with
  | zero => intro lb rb marked mn lbF rbF mkF mnF h; simp [fw] at h
  | succ f ih =>
      intro lb rb marked mn lbF rbF mkF mnF h
      unfold fw at h
      have stepCase : ∀ x, fw f1 f0 f (f1 lb) (f0 rb) (marked ++ [x]) (upd mn (f1 lb) (f0 rb)) =
          some (lbF, rbF, mkF, mnF) →
          mnF ≤ mn ∧
          (mnF = mn ∨ (mnF ≠ 0 ∧ ((∃ s, mnF = f1^[s] lb) ∨ ∃ s, mnF = f0^[s] rb))) ∧
          (∀ x, x ∈ marked → x ∈ mkF) ∧ ∃ T, lbF = f1^[T] lb ∧ rbF = f0^[T] rb := by
        intro x hx
        obtain ⟨g1, g2, g3, T, g4, g5⟩ := ih _ _ _ _ _ _ _ _ hx
        have hu := upd_le mn (f1 lb) (f0 rb)
        refine ⟨Nat.le_trans g1 hu.1, ?_, fun y hy => g3 y (List.mem_append_left _ hy),
          T + 1, by rw [g4, Function.iterate_succ_apply], by rw [g5, Function.iterate_succ_apply]⟩
        rcases g2 with g2 | ⟨gn, g2⟩
        · rcases upd_mem mn (f1 lb) (f0 rb) with e | ⟨ea, e⟩ | ⟨eb, e⟩
          · exact Or.inl (g2.trans e)
          · exact Or.inr ⟨by rw [g2, e]; exact ea, Or.inl ⟨1, by rw [g2, e]; rfl⟩⟩
          · exact Or.inr ⟨by rw [g2, e]; exact eb, Or.inr ⟨1, by rw [g2, e]; rfl⟩⟩
        · refine Or.inr ⟨gn, ?_⟩
          rcases g2 with ⟨s, e⟩ | ⟨s, e⟩
          · exact Or.inl ⟨s + 1, by rw [e, Function.iterate_succ_apply]⟩
          · exact Or.inr ⟨s + 1, by rw [e, Function.iterate_succ_apply]⟩
      by_cases c1 : marked.contains lb = true
      · by_cases c2 : marked.contains rb = true
        · simp only [c1, c2, Bool.not_true, Bool.false_eq_true, if_false, Option.some.injEq,
            Prod.mk.injEq] at h
          obtain ⟨rfl, rfl, rfl, rfl⟩ := h
          exact ⟨Nat.le_refl _, Or.inl rfl, fun x hx => hx, 0, rfl, rfl⟩
        · simp only [c1, c2, Bool.not_true, Bool.false_eq_true, if_false, Bool.not_false, if_true,
            Bool.not_eq_true] at h
          exact stepCase _ h
      · simp only [c1, Bool.not_false, if_true, Bool.not_eq_true] at h
        exact stepCase _ h

/-- the running minimum after `t` plain steps -/
def mnAfter (f1 f0 : Nat → Nat) (lb rb mn : Nat) : Nat → Nat
  | 0 => mn
  | t + 1 => upd (mnAfter f1 f0 lb rb mn t) (f1^[t + 1] lb) (f0^[t + 1] rb)

theorem mnAfter_le (f1 f0 : Nat → Nat) (lb rb mn : Nat) : ∀ t,
    mnAfter f1 f0 lb rb mn t ≤ mn ∧
    ∀ s, 1 ≤ s → s ≤ t → (f1^[s] lb ≠ 0 → mnAfter f1 f0 lb rb mn t ≤ f1^[s] lb) ∧
      (f0^[s] rb ≠ 0 → mnAfter f1 f0 lb rb mn t ≤ f0^[s] rb) := by
  intro t
  induction t with
  | zero => exact ⟨Nat.le_refl _, fun s h1 h2 => by omega⟩
  | succ t ih =>
      have hu := upd_le (mnAfter f1 f0 lb rb mn t) (f1^[t + 1] lb) (f0^[t + 1] rb)
      refine ⟨Nat.le_trans hu.1 ih.1, ?_⟩
      intro s h1 h2
      by_cases e : s = t + 1
      · subst e; exact ⟨hu.2.1, hu.2.2⟩
      · have := ih.2 s h1 (by omega)
        exact ⟨fun h => Nat.le_trans hu.1 (this.1 h), fun h => Nat.le_trans hu.1 (this.2 h)⟩

theorem mnAfter_mem (f1 f0 : Nat → Nat) (lb rb mn : Nat) : ∀ t,
    mnAfter f1 f0 lb rb mn t = mn ∨ (mnAfter f1 f0 lb rb mn t ≠ 0 ∧
      ((∃ s, mnAfter f1 f0 lb rb mn t = f1^[s] lb) ∨ ∃ s, mnAfter f1 f0 lb rb mn t = f0^[s] rb)) := by
  intro t
  induction t with
  | zero => exact Or.inl rfl
  | succ t ih =>
      rcases upd_mem (mnAfter f1 f0 lb rb mn t) (f1^[t + 1] lb) (f0^[t + 1] rb) with e | ⟨ea, e⟩ | ⟨eb, e⟩
      · have e' : mnAfter f1 f0 lb rb mn (t + 1) = mnAfter f1 f0 lb rb mn t := e
        rw [e']; exact ih
      · exact Or.inr ⟨by show upd _ _ _ ≠ 0; rw [e]; exact ea, Or.inl ⟨t + 1, e⟩⟩
      · exact Or.inr ⟨by show upd _ _ _ ≠ 0; rw [e]; exact eb, Or.inr ⟨t + 1, e⟩⟩

/-- **phase 1**: as long as the left darts `lb, f1 lb, …, f1^(t-1) lb` are new (pairwise distinct and
    not marked at the start), the walk just steps `t` times, marking exactly these darts -/
theorem fw_phase1 {f1 f0 : Nat → Nat} (lb rb : Nat) (marked : List Nat) (mn : Nat) :
    ∀ (t fuel : Nat), (List.iterate f1 lb t).Nodup → (∀ x, x ∈ List.iterate f1 lb t → x ∉ marked) →
      fw f1 f0 (fuel + t) lb rb marked mn =
        fw f1 f0 fuel (f1^[t] lb) (f0^[t] rb) (marked ++ List.iterate f1 lb t) (mnAfter f1 f0 lb rb mn t) := by
  intro t
  induction t with
  | zero => intro fuel _ _; simp [List.iterate, mnAfter]
  | succ t ih =>
      intro fuel hnd hnm
      have hsplit : List.iterate f1 lb (t + 1) = List.iterate f1 lb t ++ [f1^[t] lb] := by
        rw [List.iterate_add f1 lb t 1]; rfl
      rw [hsplit] at hnd hnm
      have hnd' : (List.iterate f1 lb t).Nodup := (List.nodup_append.1 hnd).1
      rw [show fuel + (t + 1) = (fuel + 1) + t by omega, ih (fuel + 1) hnd'
        (fun x hx => hnm x (List.mem_append_left _ hx))]
      -- one more step: `f1^[t] lb` is not marked
      have hnew : (marked ++ List.iterate f1 lb t).contains (f1^[t] lb) = false := by
        rw [Bool.eq_false_iff]
        intro hc
        rw [List.contains_eq_mem, decide_eq_true_eq, List.mem_append] at hc
        rcases hc with hc | hc
        · exact hnm _ (List.mem_append_right _ (List.mem_singleton.2 rfl)) hc
        · exact (List.nodup_append.1 hnd).2.2 _ hc _ (List.mem_singleton.2 rfl) rfl
      conv_lhs => unfold fw
      simp only [hnew, Bool.not_false, if_true]
      rw [hsplit, List.append_assoc, ← Function.iterate_succ_apply' f1, ← Function.iterate_succ_apply' f0]
      rfl

/-! ## `popLoop` (`vertex_id` / `edge_id` / `volume_id` of `CMap3`) does not run out of fuel -/

/-- with at most six images per dart, all existing, the fuel `|pending| + 7·(#unmarked) + 1`
    suffices: a marked pop costs one pending entry, a new dart costs one unmarked dart and gains at
    most five pending entries -/
theorem popLoop_terminates {X : Type} {m : Map X} {n : Nat} {g : Nat → List Nat}
    {gen : Nat → P X (List Nat)}
    (hgen : ∀ x, x < n → run (gen x) m = (.ok (g x), m))
    (hlen : ∀ x, (g x).length ≤ 6) (hr : ∀ x, x < n → ∀ y, y ∈ g x → y < n) :
    ∀ (fuel : Nat) (pending marked : List Nat) (mn : Nat), (∀ x, x ∈ pending → x < n) →
      pending.length + 7 * phi n marked + 1 ≤ fuel →
      ∃ v, run (popLoop gen fuel pending marked mn) m = (.ok v, m) := by
  intro fuel
  induction fuel with
  | zero => intro p mk mn _ h; omega
  | succ f ih =>
      intro p mk mn hp hf
      cases p with
      | nil => exact ⟨mn, rfl⟩
      | cons d rest =>
          unfold popLoop
          have hrest : ∀ x, x ∈ rest → x < n := fun x hx => hp x (List.mem_cons_of_mem _ hx)
          have hd : d < n := hp d List.mem_cons_self
          by_cases c : mk.contains d = true
          · rw [if_pos c]
            exact ih rest mk mn hrest (by simp at hf; omega)
          · rw [if_neg c]
            show ∃ v, run ((gen d).bind _) m = _
            rw [run_bind, hgen d hd]
            have hdec := phi_dec (n := n) hd (by simpa using c)
            refine ih _ _ _ ?_ ?_
            · intro x hx
              rcases List.mem_append.1 hx with hx | hx
              · exact hrest x hx
              · exact hr d hd x hx
            · have := hlen d
              simp only [List.length_append, List.length_cons] at hf ⊢
              omega

theorem popLoop_start {X : Type} {m : Map X} {n : Nat} {g : Nat → List Nat}
    {gen : Nat → P X (List Nat)}
    (hgen : ∀ x, x < n → run (gen x) m = (.ok (g x), m))
    (hlen : ∀ x, (g x).length ≤ 6) (hr : ∀ x, x < n → ∀ y, y ∈ g x → y < n) {d : Nat} (hd : d < n) :
    ∃ v, run (popLoop gen (8 * n + 8) [d] [0] d) m = (.ok v, m) := by
  apply popLoop_terminates hgen hlen hr
  · intro x hx; simp only [List.mem_singleton] at hx; rw [hx]; exact hd
  · have := phi_le (n := n) (marked := [0]) (by omega) (by simp)
    simp only [List.length_singleton]
    omega

end HC.Face3
