/-
  Faces of the plain 2-D grid as computed by the code (`face_id`, `iter_faces`):
  `face_id` of local dart `k` of a cell is local dart 0 of that cell, and `iter_faces` yields exactly
  one identifier per cell — the `debug_assert_eq!(map.iter_faces().count(), nx * ny)` of
  `build_2d_grid` holds for every size.
-/
import Honeycomb.Lemmas.GridVertex

namespace HC.GridFace
open HC HC.Gen HC.GridBfs HC.GridVertex

variable {X : Type}

/-- the images `face_id` (2-D) examines -/
def gf2 (m : Map X) (d : Nat) : List Nat := [m.β 1 d, m.β 0 d]

theorem run_gen2_face {m : Map X} (wf : WF 3 m) {d : Nat} (hd : d < m.n) :
    run (gen2 (X := X) .face d) m = (.ok (gf2 m d), m) := by
  simp only [gen2, Prog.bind_eq, Prog.pure_eq, run_rB, okβ_of_wf wf (by decide : 1 < 3) hd,
    okβ_of_wf wf (by decide : 0 < 3) hd, if_true, run_ret, gf2]

theorem gf2_range {m : Map X} (wf : WF 3 m) {d : Nat} (hd : d < m.n) : ∀ y, y ∈ gf2 m d → y < m.n := by
  intro y hy
  simp only [gf2, List.mem_cons, List.not_mem_nil, or_false] at hy
  rcases hy with rfl | rfl
  · exact wf.range 1 (by decide) d hd
  · exact wf.range 0 (by decide) d hd

theorem run_faceId2 {m : Map X} (wf : WF 3 m) {d : Nat} (hd : d < m.n) :
    run (faceId2 (X := X) m.n d) m = (.ok (listMin (pbfs (gf2 m) (m.n + 1) [d] [0, d] []) d), m) := by
  simp only [faceId2, orbitWith, Prog.bind_eq, Prog.pure_eq]
  rw [run_bind, run_bfs m (gen2 .face) (gf2 m) m.n (fun d hd => run_gen2_face wf hd)
    (fun d hd => gf2_range wf hd) _ _ _ _ (by intro x hx; simp at hx; subst hx; exact hd)]
  simp

variable {nx ny : Nat} {m : Map Val}

/-- `face_id` of a dart of cell `(a, b)` is local dart 0 of the cell -/
theorem fid_spec (hnx : 0 < nx) (hny : 0 < ny) (st : SameTopo (G2 nx ny) m) {a b k : Nat}
    (ha : a < nx) (hb : b < ny) (hk : k < 4) :
    okVal (run (faceId2 m.n (D nx ny a b k)) m) 0 = D nx ny a b 0 := by
  have wf : WF 3 m := (G2_wf hnx hny).sameTopo st
  have hn : m.n = 4 * nx * ny + 1 := st.n
  have hdn : D nx ny a b k < m.n := by rw [hn]; exact D_lt ha hb hk
  rw [run_faceId2 wf hdn]
  show listMin _ _ = _
  let S := [D nx ny a b 0, D nx ny a b 1, D nx ny a b 2, D nx ny a b 3]
  have hstart : D nx ny a b k ∈ S := by
    have k4 : k = 0 ∨ k = 1 ∨ k = 2 ∨ k = 3 := by omega
    rcases k4 with rfl | rfl | rfl | rfl <;> simp [S]
  have hclosed : ∀ x, x ∈ S → ∀ y, y ∈ gf2 m x → y = 0 ∨ y ∈ S := by
    intro x hx y hy
    right
    simp only [S, List.mem_cons, List.not_mem_nil, or_false] at hx
    simp only [gf2, List.mem_cons, List.not_mem_nil, or_false] at hy
    rcases hx with rfl | rfl | rfl | rfl <;> rcases hy with rfl | rfl <;>
      first
        | (rw [β1_D st ha hb (by decide)]; simp [S])
        | (rw [β0_D st ha hb (by decide)]; simp [S])
  have hlen : S.length ≤ m.n := by
    have := D_pos (nx := nx) (ny := ny) (a := a) (b := b) (k := k)
    simp only [S, List.length_cons, List.length_nil]
    have h3 := D_lt ha hb (by decide : 3 < 4)
    have : D nx ny a b 3 = D nx ny a b 0 + 3 := by unfold D dartOf; omega
    have := D_pos (nx := nx) (ny := ny) (a := a) (b := b) (k := 0)
    omega
  obtain ⟨hsound, hmem, hcl⟩ := pbfs_spec (gf2 m) S (D nx ny a b k) m.n hstart hclosed hlen
  have h0 : D nx ny a b 0 ≠ 0 := by have := D_pos (nx := nx) (ny := ny) (a := a) (b := b) (k := 0); omega
  have h1 : D nx ny a b 1 ≠ 0 := by have := D_pos (nx := nx) (ny := ny) (a := a) (b := b) (k := 1); omega
  -- local dart 0 is reached
  have hreach : D nx ny a b 0 = D nx ny a b k ∨
      D nx ny a b 0 ∈ pbfs (gf2 m) (m.n + 1) [D nx ny a b k] [0, D nx ny a b k] [] := by
    have k4 : k = 0 ∨ k = 1 ∨ k = 2 ∨ k = 3 := by omega
    rcases k4 with rfl | rfl | rfl | rfl
    · exact Or.inl rfl
    · right
      rcases hcl _ hmem (m.β 0 (D nx ny a b 1)) (by simp [gf2]) with h | h
      · rw [β0_D st ha hb (by decide)] at h; exact absurd h h0
      · rw [β0_D st ha hb (by decide)] at h; exact h
    · right
      have s1 : D nx ny a b 1 ∈ pbfs (gf2 m) (m.n + 1) [D nx ny a b 2] [0, D nx ny a b 2] [] := by
        rcases hcl _ hmem (m.β 0 (D nx ny a b 2)) (by simp [gf2]) with h | h
        · rw [β0_D st ha hb (by decide)] at h; exact absurd h h1
        · rw [β0_D st ha hb (by decide)] at h; exact h
      rcases hcl _ s1 (m.β 0 (D nx ny a b 1)) (by simp [gf2]) with h | h
      · rw [β0_D st ha hb (by decide)] at h; exact absurd h h0
      · rw [β0_D st ha hb (by decide)] at h; exact h
    · right
      rcases hcl _ hmem (m.β 1 (D nx ny a b 3)) (by simp [gf2]) with h | h
      · rw [β1_D st ha hb (by decide)] at h; exact absurd h h0
      · rw [β1_D st ha hb (by decide)] at h; exact h
  apply listMin_eq _ _ _ hreach
  · unfold D dartOf; omega
  · intro x hx
    have := hsound x hx
    simp only [S, List.mem_cons, List.not_mem_nil, or_false] at this
    rcases this with rfl | rfl | rfl | rfl <;> unfold D dartOf <;> omega

theorem count4 (N : Nat) :
    ((List.range (4 * N + 1)).filter (fun d => decide (d ≠ 0 ∧ (d - 1) % 4 = 0))).length = N := by
  induction N with
  | zero => rfl
  | succ N ih =>
      have e : 4 * (N + 1) + 1 = 4 * N + 1 + 1 + 1 + 1 + 1 := by omega
      rw [e, List.range_succ, List.range_succ, List.range_succ, List.range_succ]
      simp only [List.filter_append, List.length_append, ih]
      simp

/-- `iter_faces` yields one identifier per cell -/
theorem iterFaces_length (hnx : 0 < nx) (hny : 0 < ny) (st : SameTopo (G2 nx ny) m) :
    (iterFaces2 m).length = nx * ny := by
  have hn : m.n = 4 * nx * ny + 1 := st.n
  unfold iterFaces2 iterCells
  have hcongr : (List.range m.n).filter (fun d => decide (d ≠ 0 ∧ (!m.unused d) = true ∧
        okVal (run (faceId2 m.n d) m) 0 = d)) =
      (List.range m.n).filter (fun d => decide (d ≠ 0 ∧ (d - 1) % 4 = 0)) := by
    apply List.filter_congr
    intro d hd
    have hd' : d < 4 * nx * ny + 1 := by rw [← hn]; exact List.mem_range.mp hd
    by_cases h0 : d = 0
    · simp [h0]
    · obtain ⟨a, b, k, ha, hb, hk, rfl⟩ := isDart_of_range (d := d) hnx hny (by omega) (by omega)
      rw [fid_spec hnx hny st ha hb hk]
      have hu : m.unused (D nx ny a b k) = false := by rw [st.unused]; exact gridMap_unused _ _ _ _
      have e1 : (D nx ny a b k - 1) % 4 = k := dartOf_local hk
      have e2 : D nx ny a b 0 = D nx ny a b k ↔ k = 0 := by unfold D dartOf; omega
      simp only [hu, e1, e2, h0, ne_eq, not_false_eq_true, Bool.not_false, true_and]
  rw [hcongr, hn, Nat.mul_assoc]
  exact count4 (nx * ny)

end HC.GridFace
