/-
  L1 — `CMap3`: links (dim3/links/{one,two,three}.rs), sews (dim3/sews/{one,two,three}.rs),
  cell identifiers and iterators (dim3/basic_ops.rs), orbits (dim3/orbits.rs).

  Every definition mirrors one Rust function, with the same reads in the same order.  The model
  describes what the code *does*; in particular `threeLink3` reproduces the missing check of the
  right-hand walk when the left-hand walk closes (DESIGN.md §8-D1).

  Loops of the Rust code are structural recursions on an explicit fuel; running out of fuel is
  `panic` (unreachable: see the comment at each loop).
-/
import Honeycomb.Model.Ops
import Honeycomb.Model.Ops2

namespace HC
variable {X : Type}

/-! ## orbits (`dim3/orbits.rs`) -/

/-- images examined for dart `d` under a 3-D policy, as in `CMap3::orbit_transac`
    (the non-transactional `orbit` computes the same images from the same cells) -/
def gen3 : Policy → Nat → P X (List Nat)
  | .vertex, d => do
      let b0 ← rB 0 d
      let b2 ← rB 2 d
      let b3 ← rB 3 d
      let i1 ← rB 3 b2
      let i2 ← rB 1 b3
      let i3 ← rB 1 b2
      let i4 ← rB 3 b0
      let i5 ← rB 2 b0
      -- inverse of `β3∘β2` (/repo e8bc83e, repair of D13): not derivable around an open face
      let i6 ← rB 2 b3
      pure [i1, i2, i3, i4, i5, i6]
  | .vertexLinear, d => do
      let b2 ← rB 2 d
      let b3 ← rB 3 d
      let i1 ← rB 3 b2
      let i2 ← rB 1 b3
      let i3 ← rB 1 b2
      pure [i1, i2, i3]
  | .edge, d => do
      let i1 ← rB 2 d
      let i2 ← rB 3 d
      pure [i1, i2]
  | .face, d => do
      let i1 ← rB 1 d
      let i2 ← rB 0 d
      let i3 ← rB 3 d
      pure [i1, i2, i3]
  | .faceLinear, d => do
      let i1 ← rB 1 d
      let i2 ← rB 3 d
      pure [i1, i2]
  | .volume, d => do
      let i1 ← rB 1 d
      let i2 ← rB 0 d
      let i3 ← rB 2 d
      pure [i1, i2, i3]
  | .volumeLinear, d => do
      let i1 ← rB 1 d
      let i2 ← rB 2 d
      pure [i1, i2]
  | .custom bs, d => do
      let rec go : List Nat → List Nat → P X (List Nat)
        | [], acc => pure acc
        | i :: is, acc => do
            -- `beta_rt_transac`: `assert!(i < 4)`
            if i < 4 then
              let im ← rB i d
              go is (acc ++ [im])
            else Prog.panic
      go bs []

/-- `orbit_transac` / `orbit` (3-D), collected.  Same BFS shape as the 2-D code: the marked set is
    seeded with the null dart and the start, images are marked when pushed. -/
def orbit3 (n : Nat) (pol : Policy) (d : Nat) : P X (List Nat) := orbitWith n (gen3 pol) d

/-! ## cell identifiers (`dim3/basic_ops.rs`) -/

/-- the traversal of `vertex_id_transac` / `edge_id_transac` / `volume_id_transac`: darts are
    marked when *popped* (the marked set is seeded with the null dart only), every image is pushed
    unconditionally, `min` is updated on every newly marked dart.

    Fuel: a dart is expanded at most once and every expansion pushes at most 6 images, so there
    are at most `1 + 6 * (n - 1)` pops; callers pass `8 * n + 8`. -/
def popLoop (gen : Nat → P X (List Nat)) : Nat → List Nat → List Nat → Nat → P X Nat
  | 0, _, _, _ => Prog.panic
  | _ + 1, [], _, mn => pure mn
  | f + 1, d :: rest, marked, mn =>
      if marked.contains d then popLoop gen f rest marked mn
      else do
        let ims ← gen d
        popLoop gen f (rest ++ ims) (marked ++ [d]) (min mn d)

/-- images pushed by `vertex_id_transac`, in push order:
    `β1∘β3, β3∘β2, β1∘β2, β3∘β0, β2∘β0, β2∘β3` (reads: `β0 d, β2 d, β3 d` first; the sixth image —
    the inverse of `β3∘β2`, /repo e8bc83e, repair of D13 — reuses the `β3 d` already read) -/
def genVid3 (d : Nat) : P X (List Nat) := do
  let b0 ← rB 0 d
  let b2 ← rB 2 d
  let b3 ← rB 3 d
  let i1 ← rB 1 b3
  let i2 ← rB 3 b2
  let i3 ← rB 1 b2
  let i4 ← rB 3 b0
  let i5 ← rB 2 b0
  let i6 ← rB 2 b3
  pure [i1, i2, i3, i4, i5, i6]

/-- `vertex_id_transac` (3-D).  `vertexId3 n 0 = 0` without any read. -/
def vertexId3 (n d : Nat) : P X Nat := popLoop genVid3 (8 * n + 8) [d] [0] d

/-- `edge_id_transac` (3-D): BFS over `β2, β3` -/
def edgeId3 (n d : Nat) : P X Nat :=
  popLoop (fun e => do
    let i1 ← rB 2 e
    let i2 ← rB 3 e
    pure [i1, i2]) (8 * n + 8) [d] [0] d

/-- `volume_id_transac`: BFS over `β1, β0, β2` -/
def volumeId3 (n d : Nat) : P X Nat :=
  popLoop (fun e => do
    let i1 ← rB 1 e
    let i2 ← rB 0 e
    let i3 ← rB 2 e
    pure [i1, i2, i3]) (8 * n + 8) [d] [0] d

/-- the `while marked.insert(lb) || marked.insert(rb)` loop of `face_id_transac`; `i`/`j` are the
    β used on the left / right side (`1, 0` forward, `0, 1` backward).  Note the short-circuit:
    when `lb` is newly inserted, `rb` is *not* inserted in that round.

    Fuel: every executed round inserts a new dart that is then read (hence `< n`), so there are
    at most `n - 1` rounds; callers pass `n + 1`. -/
def faceWalk3 (i j : Nat) : Nat → Nat → Nat → List Nat → Nat → P X (Nat × Nat × List Nat × Nat)
  | 0, _, _, _, _ => Prog.panic
  | f + 1, lb, rb, marked, mn =>
      let go (marked' : List Nat) : P X (Nat × Nat × List Nat × Nat) := do
        let lb' ← rB i lb
        let rb' ← rB j rb
        let mn1 := if lb' ≠ 0 then min mn lb' else mn
        let mn2 := if rb' ≠ 0 then min mn1 rb' else mn1
        faceWalk3 i j f lb' rb' marked' mn2
      if !marked.contains lb then go (marked ++ [lb])
      else if !marked.contains rb then go (marked ++ [rb])
      else pure (lb, rb, marked, mn)

/-- `face_id_transac` (3-D): two-sided lock-step walk (`β1` on the dart's side, `β0` on the
    `β3` side), then the other direction when either side ended on the null dart (this includes
    every 3-free dart, since then `rb = 0` throughout). -/
def faceId3 (n d : Nat) : P X Nat := do
  let b3 ← rB 3 d
  let mn0 := if b3 = 0 then d else min d b3
  let (lb, rb, marked, mn) ← faceWalk3 1 0 (n + 1) d b3 [0] mn0
  if lb = 0 ∨ rb = 0 then do
    let lb' ← rB 0 d
    let rb' ← rB 1 b3
    let mn1 := if lb' ≠ 0 then min mn lb' else mn
    let mn2 := if rb' ≠ 0 then min mn1 rb' else mn1
    let (_, _, _, mn') ← faceWalk3 0 1 (n + 1) lb' rb' marked mn2
    pure mn'
  else pure mn

/-! ## links (`dim3/links`) -/

/-- `one_link` (3-D): also 1-links the β3 images, in the opposite direction -/
def oneLink3 (l r : Nat) : P X Unit := do
  oneLinkCore l r
  let b3l ← rB 3 l
  let b3r ← rB 3 r
  if b3l ≠ 0 ∧ b3r ≠ 0 then oneLinkCore b3r b3l else pure ()

/-- `one_unlink` (3-D) -/
def oneUnlink3 (l : Nat) : P X Unit := do
  let r ← rB 1 l
  oneUnlinkCore l
  let b3l ← rB 3 l
  let b3r ← rB 3 r
  if b3l ≠ 0 ∧ b3r ≠ 0 then do
    let x ← rB 1 b3r
    if x ≠ b3l then abort (errAsym l r) else
    oneUnlinkCore b3r
  else pure ()

/-- one direction of the lock-step walk of `three_link`: `while lside != stop && lside != 0`
    (`stop = ld` forward, `stop = 0` backward); `i`/`j` = β followed on the left / right.
    Returns the final `(lside, rside)`.

    Fuel: every round 3-links a dart `lside` that was 3-free (`three_link_core` fails otherwise),
    so a dart is visited at most once: at most `n - 1` rounds; callers pass `n + 1`. -/
def threeLinkWalk (ld rd stop i j : Nat) : Nat → Nat → Nat → P X (Nat × Nat)
  | 0, _, _ => Prog.panic
  | f + 1, ls, rs =>
      if ls ≠ stop ∧ ls ≠ 0 then do
        if rs = 0 then abort (errAsym ld rd) else
        iLinkCore 3 ls rs
        let ls' ← rB i ls
        let rs' ← rB j rs
        threeLinkWalk ld rd stop i j f ls' rs'
      else pure (ls, rs)

/-- `three_link` (after the repair of D1/D1b in /repo): when the left walk closes
    (`lside == ld`) the right walk must close at the same step (`rside == rd`); when the left
    backward walk of an open face ends, the right one must have ended too. -/
def threeLink3 (n ld rd : Nat) : P X Unit := do
  iLinkCore 3 ld rd
  let ls0 ← rB 1 ld
  let rs0 ← rB 0 rd
  let (ls, rs) ← threeLinkWalk ld rd ld 1 0 (n + 1) ls0 rs0
  if ls = 0 then do
    if rs ≠ 0 then abort (errAsym ld rd) else
    let ls1 ← rB 0 ld
    let rs1 ← rB 1 rd
    let (_, rs2) ← threeLinkWalk ld rd 0 0 1 (n + 1) ls1 rs1
    if rs2 ≠ 0 then abort (errAsym ld rd) else
    pure ()
  else if rs ≠ rd then abort (errAsym ld rd)
  else pure ()

/-- one direction of the walk of `three_unlink`.  `again` = the backward loop re-reads
    `β3 rside` for its `assert_eq!` (never fails: same transaction).  Fuel as `threeLinkWalk`
    (`three_unlink_core` fails on a dart that is already 3-free). -/
def threeUnlinkWalk (ld rd stop i j : Nat) (again : Bool) : Nat → Nat → Nat → P X (Nat × Nat)
  | 0, _, _ => Prog.panic
  | f + 1, ls, rs =>
      if ls ≠ stop ∧ ls ≠ 0 then do
        let x ← rB 3 rs
        if ls ≠ x then abort (errAsym ld rd) else
        let y ← if again then rB 3 rs else pure ls
        if ls ≠ y then Prog.panic else
        iUnlinkCore 3 ls
        let ls' ← rB i ls
        let rs' ← rB j rs
        threeUnlinkWalk ld rd stop i j again f ls' rs'
      else pure (ls, rs)

/-- `three_unlink` -/
def threeUnlink3 (n ld : Nat) : P X Unit := do
  let rd ← rB 3 ld
  iUnlinkCore 3 ld
  let ls0 ← rB 1 ld
  let rs0 ← rB 0 rd
  let (ls, rs) ← threeUnlinkWalk ld rd ld 1 0 false (n + 1) ls0 rs0
  if ls = 0 then do
    if rs ≠ 0 then abort (errAsym ld rd) else
    let ls1 ← rB 0 ld
    let rs1 ← rB 1 rd
    let _ ← threeUnlinkWalk ld rd 0 0 1 true (n + 1) ls1 rs1
    pure ()
  else pure ()

/-! ## sews (`dim3/sews`) -/

/-- `one_sew` (3-D).  The new vertex id is `min` of the two old ids (not recomputed). -/
def oneSew3 (cfg : Cfg X) (n l r : Nat) : P X Unit := do
  let b3l ← rB 3 l
  let b2l ← rB 2 l
  let vl ← if b3l ≠ 0 then vertexId3 n b3l
           else if b2l ≠ 0 then vertexId3 n b2l
           else pure 0
  let vr ← vertexId3 n r
  oneLink3 l r
  if vl ≠ 0 then do
    let nv := min vr vl
    mergeS cfg 0 nv vl vr
    mergeAttrs cfg 0 nv vl vr
  else pure ()

/-- `one_unsew` (3-D) -/
def oneUnsew3 (cfg : Cfg X) (n l : Nat) : P X Unit := do
  let r ← rB 1 l
  let vold ← vertexId3 n r
  oneUnlink3 l
  let b2l ← rB 2 l
  let b3l ← rB 3 l
  if b2l = 0 ∧ b3l = 0 then pure () else
  let vl ← vertexId3 n (if b2l ≠ 0 then b2l else b3l)
  let vr ← vertexId3 n r
  if vl ≠ vr then do
    splitS cfg 0 vl vr vold
    splitAttrs cfg 0 vl vr vold
  else pure ()

/-- `two_sew` (3-D) -/
def twoSew3 (cfg : Cfg X) (n l r : Nat) : P X Unit := do
  let b1l ← rB 1 l
  let b1r ← rB 1 r
  if b1l = 0 ∧ b1r = 0 then do
    let el ← edgeId3 n l
    let er ← edgeId3 n r
    iLinkCore 2 l r
    let en ← edgeId3 n l
    mergeAttrs cfg 1 en el er
  else if b1l = 0 then do
    let el ← edgeId3 n l
    let er ← edgeId3 n r
    let lv ← vertexId3 n l
    let b1rv ← vertexId3 n b1r
    iLinkCore 2 l r
    let lvn ← vertexId3 n l
    let en ← edgeId3 n l
    mergeS cfg 0 lvn lv b1rv
    mergeAttrs cfg 0 lvn lv b1rv
    mergeAttrs cfg 1 en el er
  else if b1r = 0 then do
    let el ← edgeId3 n l
    let er ← edgeId3 n r
    let b1lv ← vertexId3 n b1l
    let rv ← vertexId3 n r
    iLinkCore 2 l r
    let rvn ← vertexId3 n r
    let en ← edgeId3 n l
    mergeS cfg 0 rvn b1lv rv
    mergeAttrs cfg 0 rvn b1lv rv
    mergeAttrs cfg 1 en el er
  else do
    let el ← edgeId3 n l
    let er ← edgeId3 n r
    let lv ← vertexId3 n l
    let b1rv ← vertexId3 n b1r
    let b1lv ← vertexId3 n b1l
    let rv ← vertexId3 n r
    let pl ← rA 0 lv
    let pb1r ← rA 0 b1rv
    let pb1l ← rA 0 b1lv
    let pr ← rA 0 rv
    let bad := match pl, pb1r, pb1l, pr with
      | some a, some b, some c, some d => cfg.badOrient a b c d
      | _, _, _, _ => false
    if bad then abort (errBadGeometry 2 l r) else
    iLinkCore 2 l r
    let lvn ← vertexId3 n l
    let rvn ← vertexId3 n r
    let en ← edgeId3 n l
    mergeS cfg 0 lvn lv b1rv
    mergeS cfg 0 rvn b1lv rv
    mergeAttrs cfg 0 lvn lv b1rv
    mergeAttrs cfg 0 rvn b1lv rv
    mergeAttrs cfg 1 en el er

/-- `two_unsew` (3-D) -/
def twoUnsew3 (cfg : Cfg X) (n l : Nat) : P X Unit := do
  let r ← rB 2 l
  let b1l ← rB 1 l
  let b1r ← rB 1 r
  if b1l = 0 ∧ b1r = 0 then do
    let eold ← edgeId3 n l
    iUnlinkCore 2 l
    let enl ← edgeId3 n l
    let enr ← edgeId3 n r
    splitAttrs cfg 1 enl enr eold
  else if b1l = 0 then do
    let eold ← edgeId3 n l
    let lvold ← vertexId3 n l
    iUnlinkCore 2 l
    let enl ← edgeId3 n l
    let enr ← edgeId3 n r
    splitAttrs cfg 1 enl enr eold
    let a ← vertexId3 n l
    let b ← vertexId3 n b1r
    splitS cfg 0 a b lvold
    splitAttrs cfg 0 a b lvold
  else if b1r = 0 then do
    let eold ← edgeId3 n l
    let rvold ← vertexId3 n r
    iUnlinkCore 2 l
    let enl ← edgeId3 n l
    let enr ← edgeId3 n r
    splitAttrs cfg 1 enl enr eold
    let a ← vertexId3 n b1l
    let b ← vertexId3 n r
    splitS cfg 0 a b rvold
    splitAttrs cfg 0 a b rvold
  else do
    let eold ← edgeId3 n l
    let lvold ← vertexId3 n l
    let rvold ← vertexId3 n r
    iUnlinkCore 2 l
    let enl ← edgeId3 n l
    let enr ← edgeId3 n r
    splitAttrs cfg 1 enl enr eold
    let a ← vertexId3 n l
    let b ← vertexId3 n b1r
    let c ← vertexId3 n b1l
    let d ← vertexId3 n r
    splitS cfg 0 a b lvold
    splitS cfg 0 c d rvold
    splitAttrs cfg 0 a b lvold
    splitAttrs cfg 0 c d rvold

/-- the two face walks used by `three_sew` / `three_unsew`:
    `self.orbit_transac(trans, Custom(&[1, 0]), ld)` and
    `self.orbit_transac(trans, Custom(&[0, 1]), rd)`, each collected into a `Vec` up front
    (first the left walk, then the right one), before any identifier is read.

    (Since /repo commit "fix: three_sew and three_unsew walk the two faces through the
    transaction" — DESIGN.md §8-D4 — both walks read the transaction's view, as this model always
    did; before it the code used the non-transactional `orbit`, which only agreed with the model
    when the enclosing transaction had not written β0/β1 before the call.) -/
def faceOrbits3 (n ld rd : Nat) : P X (List Nat × List Nat) := do
  let lo ← orbitWith n (gen3 (.custom [1, 0])) ld
  let ro ← orbitWith n (gen3 (.custom [0, 1])) rd
  pure (lo, ro)

/-- the collecting loop of `three_sew` over the zipped face walks -/
def threeSewCollect (n : Nat) :
    List (Nat × Nat) → List (Nat × Nat) → List (Nat × Nat) → P X (List (Nat × Nat) × List (Nat × Nat))
  | [], es, vs => pure (es, vs)
  | (l, r) :: rest, es, vs => do
      let el ← edgeId3 n l
      let er ← edgeId3 n r
      let b1l ← rB 1 l
      let b2l ← rB 2 l
      let v1 ← vertexId3 n (if b1l = 0 then b2l else b1l)
      let v2 ← vertexId3 n r
      let b0l ← rB 0 l
      if b0l = 0 then do
        let b1r ← rB 1 r
        let b2r ← rB 2 r
        let v3 ← vertexId3 n l
        let v4 ← vertexId3 n (if b1r = 0 then b2r else b1r)
        threeSewCollect n rest (es ++ [(el, er)]) (vs ++ [(v1, v2), (v3, v4)])
      else
        threeSewCollect n rest (es ++ [(el, er)]) (vs ++ [(v1, v2)])

/-- pairs kept by the `filter` of the merge loops -/
def keepPair (p : Nat × Nat) : Bool := p.1 ≠ p.2 ∧ p.1 ≠ 0 ∧ p.2 ≠ 0

/-- `three_sew` -/
def threeSew3 (cfg : Cfg X) (n ld rd : Nat) : P X Unit := do
  let (lo, ro) ← faceOrbits3 n ld rd
  let lface := listMin lo ld
  let rface := listMin ro rd
  let (edges, verts) ← threeSewCollect n (lo.zip ro) [] []
  -- orientation of the argument darts only
  let b1l ← rB 1 ld
  let b2l ← rB 2 ld
  let b1r ← rB 1 rd
  let b2r ← rB 2 rd
  let vl ← vertexId3 n ld
  let vr ← vertexId3 n rd
  let vb1l ← vertexId3 n (if b1l = 0 then b2l else b1l)
  let vb1r ← vertexId3 n (if b1r = 0 then b2r else b1r)
  let pl ← rA 0 vl
  let pb1r ← rA 0 vb1r
  let pb1l ← rA 0 vb1l
  let pr ← rA 0 vr
  let bad := match pl, pb1r, pb1l, pr with
    | some a, some b, some c, some d => cfg.badOrient a b c d
    | _, _, _, _ => false
  if bad then abort (errBadGeometry 3 ld rd) else
  threeLink3 n ld rd
  mergeAttrs cfg 2 (min lface rface) lface rface
  forM_ (edges.filter keepPair) (fun p => mergeAttrs cfg 1 (min p.1 p.2) p.1 p.2)
  forM_ (verts.filter keepPair) (fun p => do
    mergeS cfg 0 (min p.1 p.2) p.1 p.2
    mergeAttrs cfg 0 (min p.1 p.2) p.1 p.2)

/-- the splitting loop of `three_unsew` over the zipped face walks -/
def threeUnsewLoop (cfg : Cfg X) (n : Nat) : List (Nat × Nat) → P X Unit
  | [] => pure ()
  | (l, r) :: rest => do
      let el ← edgeId3 n l
      let er ← edgeId3 n r
      splitAttrs cfg 1 el er (min el er)
      let b1l ← rB 1 l
      let b2l ← rB 2 l
      let v1 ← vertexId3 n (if b1l = 0 then b2l else b1l)
      let v2 ← vertexId3 n r
      splitS cfg 0 v1 v2 (min v1 v2)
      splitAttrs cfg 0 v1 v2 (min v1 v2)
      let b0l ← rB 0 l
      if b0l = 0 then do
        let b1r ← rB 1 r
        let b2r ← rB 2 r
        let v3 ← vertexId3 n l
        let v4 ← vertexId3 n (if b1r = 0 then b2r else b1r)
        splitS cfg 0 v3 v4 (min v3 v4)
        splitAttrs cfg 0 v3 v4 (min v3 v4)
        threeUnsewLoop cfg n rest
      else threeUnsewLoop cfg n rest

/-- `three_unsew` -/
def threeUnsew3 (cfg : Cfg X) (n ld : Nat) : P X Unit := do
  let rd ← rB 3 ld
  threeUnlink3 n ld
  let (lo, ro) ← faceOrbits3 n ld rd
  let lface := listMin lo ld
  let rface := listMin ro rd
  splitAttrs cfg 2 lface rface (min lface rface)
  threeUnsewLoop cfg n (lo.zip ro)

/-! ## iterators (non-transactional: one `atomically` per id computation) -/

/-- like `iterCells`, but `none` when an id computation panics (out-of-range image on a malformed
    map: the Rust iterator panics as soon as it reaches that dart) -/
def iterCellsChk (m : Map X) (idf : Nat → P X Nat) : Option (List Nat) :=
  (List.range m.n).foldl (fun acc d =>
    match acc with
    | none => none
    | some l =>
      if d = 0 ∨ m.unused d then some l else
      match (run (idf d) m).1 with
      | .ok v => if v = d then some (l ++ [d]) else some l
      | _ => none) (some [])

def iterVertices3 (m : Map X) : List Nat := iterCells m (vertexId3 m.n)
def iterEdges3 (m : Map X) : List Nat := iterCells m (edgeId3 m.n)
def iterFaces3 (m : Map X) : List Nat := iterCells m (faceId3 m.n)
def iterVolumes3 (m : Map X) : List Nat := iterCells m (volumeId3 m.n)

end HC
