/-
  L2 — the grid builders (`honeycomb-core/src/cmap/builder/grid.rs`, dispatch in
  `builder/structure.rs`).

  Rust                                   model
  ----                                   -----
  GridDescriptor::parse_2d / parse_3d    parse2 / parse3          (over `Rat`: `/` and `ceil` exact)
  generate_*_beta_values                 Gen.squareRows / trisRows / hexRows   (GENERATED)
  zip(1..=K·cells, rows) + set_betas     squareβ / trisβ / hexβ   (dart d ↦ row (d-1) mod K of cell (d-1)/K)
  build_2d_grid / build_2d_splitgrid     buildGrid2 / buildSplit2 (placement blocks GENERATED)
  build_3d_grid + generate_hex_offset    buildHex3                (index decoding and arms GENERATED)
  Builder::build (grid branch)           build2 / build3          (ok / err / panic; zero-count guard GENERATED)

  Import-free apart from the model and the generated tables.
-/
import Honeycomb.Model.Ops2
import Honeycomb.Model.Ops3
import Honeycomb.Model.Val
import Honeycomb.Gen.GridTables

namespace HC
open Gen

/-! ## tabulated arrays -/

/-- the array `[f 0, …, f (n-1)]` -/
def tab {α : Type} (n : Nat) (f : Nat → α) : Array α := Array.ofFn (n := n) (fun i => f i.val)

theorem size_tab {α : Type} (n : Nat) (f : Nat → α) : (tab n f).size = n := by simp [tab]

theorem rd_tab {α : Type} [Inhabited α] (n : Nat) (f : Nat → α) (i : Nat) (h : i < n) :
    rd (tab n f) i = f i := by
  unfold rd tab
  rw [Array.getD_eq_getD_getElem?]
  simp [h]

/-! ## β tables -/

/-- entry `i` of row `j` -/
def tableAt (rows : List (List Nat)) (j i : Nat) : Nat := (rows.getD j []).getD i 0

/-- `β_i(d)` as set by `zip(1..=4·nx·ny, generate_square_beta_values(nx, ny))`: the iterator yields
    the rows of cell `(ix, iy)` at positions `4·(ix + nx·iy) ..`, left to right then bottom to top -/
def squareβ (nx ny i d : Nat) : Nat :=
  let c := (d - 1) / squareK
  tableAt (squareRows nx ny (c % nx) (c / nx)) ((d - 1) % squareK) i

/-- same for `generate_tris_beta_values` (6 darts per cell) -/
def trisβ (nx ny i d : Nat) : Nat :=
  let c := (d - 1) / trisK
  tableAt (trisRows nx ny (c % nx) (c / nx)) ((d - 1) % trisK) i

/-- same for `generate_hex_beta_values` (24 darts per cell; x fastest, then y, then z) -/
def hexβ (nx ny nz i d : Nat) : Nat :=
  let c := (d - 1) / hexK
  tableAt (hexRows nx ny nz (c % nx) (c / nx % ny) (c / (nx * ny))) ((d - 1) % hexK) i

/-- `CMapN::new_with_undefined_attributes(nd, manager)` followed by `set_betas(d, row)` for every
    `d ∈ 1..=nd`; the null dart keeps its zero images -/
def gridMap (nb nd : Nat) (β : Nat → Nat → Nat) : Map Val :=
  { (Map.empty nb 6 (nd + 1) : Map Val) with
    b := tab nb (fun i => tab (nd + 1) (fun d => if d = 0 then 0 else β i d)) }

/-! ## vertex placement -/

/-- non-transactional `vertex_id` (2-D) -/
def vid2 (m : Map Val) (d : Nat) : Nat := okVal (run (vertexId2 m.n d) m) 0
/-- non-transactional `vertex_id` (3-D) -/
def vid3 (m : Map Val) (d : Nat) : Nat := okVal (run (vertexId3 m.n d) m) 0

/-- `force_write_vertex(id, p)` -/
def writeVertex (m : Map Val) (id : Nat) (p : Val) : Map Val := m.setA 0 id (some p)

/-- the cells visited by a placement block (see `Gen.squarePlace`) -/
def placeCells (nx ny loop : Nat) : List (Nat × Nat) :=
  match loop with
  | 0 => (List.range ny).flatMap (fun y => (List.range nx).map (fun x => (x, y)))
  | 1 => (List.range nx).map (fun x => (x, ny - 1))
  | 2 => (List.range ny).map (fun y => (nx - 1, y))
  | _ => [(nx - 1, ny - 1)]

/-- one `vertex_id` + `force_write_vertex` statement -/
def placeOne (ox oy lx ly : Rat) (nx : Nat) (blk : Nat × Nat × Nat × Nat × Nat)
    (m : Map Val) (c : Nat × Nat) : Map Val :=
  let (_, k, s, dx, dy) := blk
  let id := vid2 m (k + c.1 * s + c.2 * s * nx)
  writeVertex m id (.pt (ox + ((c.1 + dx : Nat) : Rat) * lx) (oy + ((c.2 + dy : Nat) : Rat) * ly) 0)

/-- one placement block -/
def placeBlock (ox oy lx ly : Rat) (nx ny : Nat) (m : Map Val)
    (blk : Nat × Nat × Nat × Nat × Nat) : Map Val :=
  (placeCells nx ny blk.1).foldl (placeOne ox oy lx ly nx blk) m

/-- `build_2d_grid` (for `nx, ny ≥ 1`; the zero-count panic is in `build2`) -/
def buildGrid2 (ox oy : Rat) (nx ny : Nat) (lx ly : Rat) : Map Val :=
  squarePlace.foldl (placeBlock ox oy lx ly nx ny) (gridMap 3 (squareK * nx * ny) (squareβ nx ny))

/-- `build_2d_splitgrid` -/
def buildSplit2 (ox oy : Rat) (nx ny : Nat) (lx ly : Rat) : Map Val :=
  trisPlace.foldl (placeBlock ox oy lx ly nx ny) (gridMap 3 (trisK * nx * ny) (trisβ nx ny))

/-- `generate_hex_offset`; `none` = `unreachable!()` -/
def hexOffset (d nx ny : Nat) (lx ly lz : Rat) : Option (Rat × Rat × Rat) :=
  let (p, x, y, z) := hexOffsetIdx d nx ny
  match hexOffsetArms.find? (fun a => a.1.contains p) with
  | some (_, (ax, ay, az)) =>
      some (((x + ax : Nat) : Rat) * lx, ((y + ay : Nat) : Rat) * ly, ((z + az : Nat) : Rat) * lz)
  | none => none

/-- one step of the placement loop of `build_3d_grid`:
    `.filter(|d| d == vertex_id(d)).for_each(|d| force_write_vertex(d, origin + offset(d)))` -/
def placeHex (ox oy oz : Rat) (nx ny : Nat) (lx ly lz : Rat) (m : Map Val) (d : Nat) : Map Val :=
  if vid3 m d = d then
    match hexOffset d nx ny lx ly lz with
    | some (x, y, z) => writeVertex m d (.pt (ox + x) (oy + y) (oz + z))
    | none => m
  else m

/-- `build_3d_grid` -/
def buildHex3 (ox oy oz : Rat) (nx ny nz : Nat) (lx ly lz : Rat) : Map Val :=
  let nd := hexK * nx * ny * nz
  (List.range' 1 nd).foldl (placeHex ox oy oz nx ny lx ly lz) (gridMap 4 nd (hexβ nx ny nz))

/-! ## descriptor parsing -/

/-- `BuilderError::InvalidGridParameters(msg)`: `kind` 0 = "length per <axis> cell is null or
    negative", 1 = "grid length along <axis> is null or negative"; `axis` 0,1,2 = x,y,z -/
def errInvalidGrid (kind axis : Nat) : Err := ⟨"InvalidGridParameters", [kind, axis]⟩
def errMissingGrid : Err := ⟨"MissingGridParameters", []⟩

/-- `check_parameters!`: `is_sign_negative() | is_zero()` -/
def badLen (x : Rat) : Bool := decide (x ≤ 0)

/-- `(l / lp).ceil().to_usize().unwrap()` -/
def ceilCount (l lp : Rat) : Nat := (l / lp).ceil.toNat

/-- `GridDescriptor::<2, T>::parse_2d` -/
def parse2 (o : Rat × Rat) (n : Option (Nat × Nat)) (lpc lens : Option (Rat × Rat)) :
    Out Err ((Rat × Rat) × (Nat × Nat) × (Rat × Rat)) :=
  match n, lpc, lens with
  | some (nx, ny), some (lpx, lpy), _ =>
      if badLen lpx then .err (errInvalidGrid 0 0) else
      if badLen lpy then .err (errInvalidGrid 0 1) else
      .ok (o, (nx, ny), (lpx, lpy))
  | some (nx, ny), none, some (lx, ly) =>
      if badLen lx then .err (errInvalidGrid 1 0) else
      if badLen ly then .err (errInvalidGrid 1 1) else
      .ok (o, (nx, ny), (lx / (nx : Rat), ly / (ny : Rat)))
  | none, some (lpx, lpy), some (lx, ly) =>
      if badLen lpx then .err (errInvalidGrid 0 0) else
      if badLen lpy then .err (errInvalidGrid 0 1) else
      if badLen lx then .err (errInvalidGrid 1 0) else
      if badLen ly then .err (errInvalidGrid 1 1) else
      .ok (o, (ceilCount lx lpx, ceilCount ly lpy), (lpx, lpy))
  | _, _, _ => .err errMissingGrid

/-- `GridDescriptor::<3, T>::parse_3d` -/
def parse3 (o : Rat × Rat × Rat) (n : Option (Nat × Nat × Nat)) (lpc lens : Option (Rat × Rat × Rat)) :
    Out Err ((Rat × Rat × Rat) × (Nat × Nat × Nat) × (Rat × Rat × Rat)) :=
  match n, lpc, lens with
  | some (nx, ny, nz), some (lpx, lpy, lpz), _ =>
      if badLen lpx then .err (errInvalidGrid 0 0) else
      if badLen lpy then .err (errInvalidGrid 0 1) else
      if badLen lpz then .err (errInvalidGrid 0 2) else
      .ok (o, (nx, ny, nz), (lpx, lpy, lpz))
  | some (nx, ny, nz), none, some (lx, ly, lz) =>
      if badLen lx then .err (errInvalidGrid 1 0) else
      if badLen ly then .err (errInvalidGrid 1 1) else
      if badLen lz then .err (errInvalidGrid 1 2) else
      .ok (o, (nx, ny, nz), (lx / (nx : Rat), ly / (ny : Rat), lz / (nz : Rat)))
  | none, some (lpx, lpy, lpz), some (lx, ly, lz) =>
      if badLen lpx then .err (errInvalidGrid 0 0) else
      if badLen lpy then .err (errInvalidGrid 0 1) else
      if badLen lpz then .err (errInvalidGrid 0 2) else
      if badLen lx then .err (errInvalidGrid 1 0) else
      if badLen ly then .err (errInvalidGrid 1 1) else
      if badLen lz then .err (errInvalidGrid 1 2) else
      .ok (o, (ceilCount lx lpx, ceilCount ly lpy, ceilCount lz lpz), (lpx, lpy, lpz))
  | _, _, _ => .err errMissingGrid

/-! ## `CMapBuilder::build` on a grid descriptor -/

/-- 2-D.  Zero cell count: the builders create the map with `K·nx·ny = 0` darts and, when the
    GENERATED flag `squareZeroGuard` / `trisZeroGuard` says the source has the guard
    `if n_square_x == 0 || n_square_y == 0 { return map; }`, return it at once (no β, no vertex, the
    final `debug_assert_eq!` is not reached); without the guard they evaluate `n_square_x - 1` /
    `n_square_y - 1` on `usize` ("attempt to subtract with overflow" with overflow checks, which the
    harness enables) and panic.  For positive counts the final `debug_assert_eq!` on the number of
    faces is mirrored. -/
def build2 (split : Bool) (o : Rat × Rat) (n : Option (Nat × Nat)) (lpc lens : Option (Rat × Rat)) :
    Out Err (Map Val) :=
  match parse2 o n lpc lens with
  | .ok (o, (nx, ny), (lx, ly)) =>
      if nx = 0 ∨ ny = 0 then
        if (if split then trisZeroGuard else squareZeroGuard) then
          .ok (Map.empty 3 6 ((if split then trisK else squareK) * nx * ny + 1))
        else .panic
      else
      let m := if split then buildSplit2 o.1 o.2 nx ny lx ly else buildGrid2 o.1 o.2 nx ny lx ly
      if (iterFaces2 m).length ≠ (if split then 2 * nx * ny else nx * ny) then .panic else .ok m
  | .err e => .err e
  | .retry => .retry
  | .panic => .panic

/-- 3-D.  `split_cells` is `unimplemented!()` (after a successful parse); zero counts give the
    empty map. -/
def build3 (split : Bool) (o : Rat × Rat × Rat) (n : Option (Nat × Nat × Nat))
    (lpc lens : Option (Rat × Rat × Rat)) : Out Err (Map Val) :=
  match parse3 o n lpc lens with
  | .ok (o, (nx, ny, nz), (lx, ly, lz)) =>
      if split then .panic else
      let m := buildHex3 o.1 o.2.1 o.2.2 nx ny nz lx ly lz
      if (iterVolumes3 m).length ≠ nx * ny * nz then .panic else .ok m
  | .err e => .err e
  | .retry => .retry
  | .panic => .panic

end HC
