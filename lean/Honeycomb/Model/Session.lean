/-
  The line-protocol interpreter of the model (shared by the native driver `hcmodel`).
  One input line = one operation; one output line per input line (see DESIGN.md §3.3).
-/
import Honeycomb.Model.Val
import Honeycomb.Model.Ops2
import Honeycomb.Model.WF

namespace HC

structure Sess where
  dim : Nat := 2
  mask : Nat := 0
  cfg : Cfg Val := stdCfg 3 0
  m : Map Val := Map.empty 3 stdStorages 1
  inTx : Bool := false
  /-- `txi`: the block swallows the aborts of its operations -/
  txIgnore : Bool := false
  txOps : Array (P Val String) := #[]

def natsStr (l : List Nat) : String := " ".intercalate (l.map toString)

def optStr (v : Option Val) : String :=
  match v with
  | none => "none"
  | some x => x.toStr

def errStr (e : Err) : String :=
  if e.args.isEmpty then s!"err {e.tag}" else s!"err {e.tag} {natsStr e.args}"

def outStr (o : Out Err String) : String :=
  match o with
  | .ok s => if s.isEmpty then "ok" else s!"ok {s}"
  | .err e => errStr e
  | .retry => "retry"
  | .panic => "panic"

def parseRat (s : String) : Option Rat :=
  match s.splitOn "/" with
  | [a] => a.toInt?.map (fun i => (i : Rat))
  | [a, b] => do
      let i ← a.toInt?
      let j ← b.toNat?
      if j = 0 then none else some (mkRat i j)
  | _ => none

def parsePolicy (s : String) : Option Policy :=
  match s with
  | "v" => some .vertex
  | "vl" => some .vertexLinear
  | "e" => some .edge
  | "f" => some .face
  | "fl" => some .faceLinear
  | "vol" => some .volume
  | "voll" => some .volumeLinear
  | _ =>
    if s.startsWith "c" then
      some (.custom ((s.drop 1).toString.toList.map (fun c => c.toNat - '0'.toNat)))
    else none

def snapStr (s : Sess) : String :=
  let m := s.m
  let rows := (List.range s.cfg.nb).map fun i =>
    s!"b{i}: " ++ natsStr ((List.range m.n).map (fun d => m.β i d))
  let u := "u: " ++ natsStr ((List.range m.n).map (fun d => if m.unused d then 1 else 0))
  let sts := (List.range s.cfg.kinds.length).filterMap fun st =>
    if s.cfg.kinds.getD st 9 = 9 then none else
    some (s!"a{st}: " ++ " ".intercalate ((List.range m.n).map (fun d => optStr (m.att st d))))
  s!"snap n={m.n} | " ++ " | ".intercalate (rows ++ [u] ++ sts)

def wfStr (s : Sess) : String :=
  let nb := s.cfg.nb
  let a := decide (WF nb s.m)
  let b := decide (NoImageOfUnused nb s.m)
  let c := if s.dim = 3 then decide (Mirror s.m) else true
  s!"wf {a} {b} {c}"

/-- transactional operations (usable inside `tx … endtx`); the result string is the payload
    after `ok` -/
def txOp (s : Sess) (toks : List String) : Option (P Val String) :=
  let n := s.m.n
  let unit (p : P Val Unit) : P Val String := do p; pure ""
  let num (p : P Val Nat) : P Val String := do let x ← p; pure (toString x)
  let lst (p : P Val (List Nat)) : P Val String := do let x ← p; pure (natsStr x)
  match toks with
  | ["link", i, l, r] => do
      let i ← i.toNat?; let l ← l.toNat?; let r ← r.toNat?
      if s.dim = 2 then
        match i with
        | 1 => some (unit (oneLinkCore l r))
        | 2 => some (unit (iLinkCore 2 l r))
        | _ => some Prog.panic
      else none
  | ["unlink", i, l] => do
      let i ← i.toNat?; let l ← l.toNat?
      if s.dim = 2 then
        match i with
        | 1 => some (unit (oneUnlinkCore l))
        | 2 => some (unit (iUnlinkCore 2 l))
        | _ => some Prog.panic
      else none
  | ["sew", i, l, r] => do
      let i ← i.toNat?; let l ← l.toNat?; let r ← r.toNat?
      if s.dim = 2 then
        match i with
        | 1 => some (unit (oneSew2 s.cfg n l r))
        | 2 => some (unit (twoSew2 s.cfg n l r))
        | _ => some Prog.panic
      else none
  | ["unsew", i, l] => do
      let i ← i.toNat?; let l ← l.toNat?
      if s.dim = 2 then
        match i with
        | 1 => some (unit (oneUnsew2 s.cfg n l))
        | 2 => some (unit (twoUnsew2 s.cfg n l))
        | _ => some Prog.panic
      else none
  | ["rmtx", d] => do
      let d ← d.toNat?
      some (do let b ← removeFreeDartTx d; pure (toString b))
  | ["vid", d] => do
      let d ← d.toNat?
      if s.dim = 2 then some (num (vertexId2 n d)) else none
  | ["eid", d] => do
      let d ← d.toNat?
      if s.dim = 2 then some (num (edgeId2 d)) else none
  | ["fid", d] => do
      let d ← d.toNat?
      if s.dim = 2 then some (num (faceId2 n d)) else none
  | ["orbit", pol, d] => do
      let pol ← parsePolicy pol; let d ← d.toNat?
      if s.dim = 2 then some (lst (orbit2 n pol d)) else none
  | ["beta", i, d] => do
      let i ← i.toNat?; let d ← d.toNat?
      if i < s.cfg.nb then some (num (rB i d)) else some Prog.panic
  | ["isun", d] => do
      let d ← d.toNat?
      some (do let b ← rU d; pure (toString b))
  | ["rv", d] => do
      let d ← d.toNat?
      some (do let v ← rA 0 d; pure (optStr v))
  | ["wv", d, x, y] => do
      let d ← d.toNat?; let x ← parseRat x; let y ← parseRat y
      some (do let v ← rA 0 d; wA 0 d (some (.pt x y 0)); pure (optStr v))
  | ["wv", d, x, y, z] => do
      let d ← d.toNat?; let x ← parseRat x; let y ← parseRat y; let z ← parseRat z
      some (do let v ← rA 0 d; wA 0 d (some (.pt x y z)); pure (optStr v))
  | ["xv", d] => do
      let d ← d.toNat?
      some (do let v ← rA 0 d; wA 0 d none; pure (optStr v))
  | ["ra", st, d] => do
      let st ← st.toNat?; let d ← d.toNat?
      if s.cfg.kinds.getD st 9 = 9 then some (pure "none") else
      some (do let v ← rA st d; pure (optStr v))
  | ["wa", st, d, t] => do
      let st ← st.toNat?; let d ← d.toNat?; let t ← t.toNat?
      if s.cfg.kinds.getD st 9 = 9 then some (pure "none") else
      some (do let v ← rA st d; wA st d (some (.tm (.leaf t))); pure (optStr v))
  | ["xa", st, d] => do
      let st ← st.toNat?; let d ← d.toNat?
      if s.cfg.kinds.getD st 9 = 9 then some (pure "none") else
      some (do let v ← rA st d; wA st d none; pure (optStr v))
  | _ => none

def resetFault (s : Sess) : Sess := { s with m := { s.m with fc := 0 } }

/-- extension hooks (3-D maps, builders, kernels …): a transactional-op parser and a top-level
    command handler, both returning `none` when the command is not theirs -/
structure Hooks where
  txOp : Sess → List String → Option (P Val String) := fun _ _ => none
  top : Sess → List String → Option (Sess × String) := fun _ _ => none

def txOpAll (h : Hooks) (s : Sess) (toks : List String) : Option (P Val String) :=
  match h.txOp s toks with
  | some p => some p
  | none => txOp s toks

def stepTop (h : Hooks) (s : Sess) (toks : List String) : Sess × String :=
  match h.top s toks with
  | some r => r
  | none =>
  match toks with
  | ["new", dim, n, mask] =>
      match dim.toNat?, n.toNat?, mask.toNat? with
      | some dim, some n, some mask =>
          let nb := dim + 1
          ({ dim := dim, mask := mask, cfg := stdCfg nb mask, m := Map.empty nb stdStorages (n + 1) }, "ok")
      | _, _, _ => (s, "bad-op")
  | "load" :: dim :: n :: mask :: rest =>
      match dim.toNat?, n.toNat?, mask.toNat? with
      | some dim, some n, some mask =>
          let nb := dim + 1
          let groups := (rest.splitBy (fun a b => a ≠ ";" ∧ b ≠ ";")).filter (· ≠ [";"])
          let nums := groups.map (fun g => g.filterMap String.toNat?)
          if nums.length ≠ nb + 1 ∨ nums.any (fun g => g.length ≠ n + 1) then (s, "bad-op") else
          let m0 : Map Val := Map.empty nb stdStorages (n + 1)
          let m1 := { m0 with
            b := ((nums.take nb).map List.toArray).toArray
            u := ((nums.getD nb []).map (fun x => decide (x ≠ 0))).toArray }
          ({ dim := dim, mask := mask, cfg := stdCfg nb mask, m := m1 }, "ok")
      | _, _, _ => (s, "bad-op")
  -- two orbits alive at once, consumed alternately / nested (C03): each orbit is its own traversal
  | ["orbitz", pa, a, pb, b] =>
      match txOpAll h s ["orbit", pa, a], txOpAll h s ["orbit", pb, b] with
      | some p, some q =>
          match (atomically p s.m).1, (atomically q s.m).1 with
          | .ok x, .ok y => (s, "ok " ++ x ++ " | " ++ y)
          | _, _ => (s, "panic")
      | _, _ => (s, "bad-op")
  | ["orbitn", pa, a, pb] =>
      match txOpAll h s ["orbit", pa, a] with
      | some p =>
          match (atomically p s.m).1 with
          | .ok x =>
              let ds := (x.splitOn " ").filter (· ≠ "")
              let parts := ds.map fun d =>
                match txOpAll h s ["orbit", pb, d] with
                | some q => (match (atomically q s.m).1 with | .ok y => some y | _ => none)
                | none => none
              if parts.any Option.isNone then (s, "panic")
              else (s, "ok " ++ " | ".intercalate (parts.filterMap id))
          | _ => (s, "panic")
      | none => (s, "bad-op")
  | ["setb", i, d, v] =>
      match i.toNat?, d.toNat?, v.toNat? with
      | some i, some d, some v =>
          if s.m.okβ i d then ({ s with m := s.m.setβ i d v }, "ok") else (s, "panic")
      | _, _, _ => (s, "bad-op")
  | "setbs" :: d :: imgs =>
      -- `set_betas(d, [b0, …])`: one raw write per image (C07: unit of work of a thread in the schedule explorer)
      match d.toNat?, imgs.mapM String.toNat? with
      | some d, some vs =>
          if vs.length ≠ s.cfg.nb then (s, "bad-op") else
          if (List.range vs.length).all (fun i => s.m.okβ i d) then
            ({ s with m := (List.range vs.length).foldl (fun m i => m.setβ i d (vs.getD i 0)) s.m }, "ok")
          else (s, "panic")
      | _, _ => (s, "bad-op")
  | ["fault", k] =>
      match k.toNat? with
      | some k => ({ s with m := { s.m with fc := k } }, "ok")
      | none => (s, "bad-op")
  | ["add", k] =>
      match k.toNat? with
      | some k =>
          let (id, m') := s.m.addFreeDarts k
          ({ s with m := m' }, s!"ok {id}")
      | none => (s, "bad-op")
  | ["ins"] =>
      let (id, m') := s.m.insertFreeDart
      ({ s with m := m' }, s!"ok {id}")
  | ["rm", d] =>
      match d.toNat? with
      | some d =>
          let (o, m') := s.m.removeFreeDart s.cfg.nb d
          ({ s with m := m' }, outStr (match o with | .ok _ => .ok "" | .err e => .err e | .retry => .retry | .panic => .panic))
      | none => (s, "bad-op")
  | ["iterv"] => (s, "ok " ++ natsStr (if s.dim = 2 then iterVertices2 s.m else []))
  | ["itere"] => (s, "ok " ++ natsStr (if s.dim = 2 then iterEdges2 s.m else []))
  | ["iterf"] => (s, "ok " ++ natsStr (if s.dim = 2 then iterFaces2 s.m else []))
  | ["snap"] => (s, snapStr s)
  | ["wf"] => (s, wfStr s)
  | ["ndarts"] => (s, s!"ok {s.m.n} {((List.range s.m.n).filter (fun d => s.m.unused d)).length}")
  | ["tx"] => ({ s with inTx := true, txIgnore := false, txOps := #[] }, "ok")
  | ["txi"] => ({ s with inTx := true, txIgnore := true, txOps := #[] }, "ok")
  -- `n_vertices()`: the number of defined slots of the vertex storage (not the number of vertex cells)
  | ["nvert"] => (s, s!"ok {((List.range s.m.n).filter (fun d => (s.m.att 0 d).isSome)).length}")
  -- `is_i_free::<I>(d)` / `is_free(d)` (`isfree all d`): plain reads of the images
  | ["isfree", i, d] =>
      match d.toNat?, (if i = "all" then some (List.range s.cfg.nb) else i.toNat?.map (fun i => [i])) with
      | some d, some is =>
          if is.all (· < s.cfg.nb) then
            let p : P Val String := do
              let vs ← is.mapM (fun i => rB i d)
              pure (toString (vs.all (· == 0)))
            (s, outStr (atomically p s.m).1)
          else (s, "panic")
      | _, _ => (s, "bad-op")
  | _ =>
    -- `f`-prefixed force variants behave like a single-op transaction
    let toks' := match toks with
      | t :: rest =>
          if t ∈ ["flink", "funlink", "fsew", "funsew"] then (t.drop 1).toString :: rest
          else if t ∈ ["orbitnt", "vidnt", "eidnt", "fidnt", "volidnt"] then (t.dropEnd 2).toString :: rest
          -- `i_cell::<I>(d)` is the orbit of the I-cell's policy (`assert!(I < dim + 1)`: handled below)
          else if t = "icell" then
            match rest with
            | [i, d] =>
                let pol := match i with
                  | "0" => "v" | "1" => "e" | "2" => "f"
                  | "3" => if s.dim = 3 then "vol" else ""
                  | _ => ""
                -- I out of range: the `assert!` panics (an out-of-range `beta` is the model's panic)
                if pol = "" then (if i.toNat?.isSome then ["beta", "9", d] else toks) else ["orbit", pol, d]
            | _ => toks
          else toks
      | [] => toks
    match txOpAll h s toks' with
    | some p =>
        let (o, m') := atomically p s.m
        (resetFault { s with m := m' }, outStr o)
    | none => (s, "bad-op")

def step (h : Hooks) (s : Sess) (line : String) : Sess × String :=
  let toks := (line.trimAscii.toString.splitOn " ").filter (· ≠ "")
  if s.inTx then
    match toks with
    | ["endtx"] =>
        let prog : P Val (Array String) :=
          if s.txIgnore then
            s.txOps.foldl (fun acc p => do
              let rs ← acc
              let r ← p.attempt
              pure (rs.push (match r with | .ok x => x | .error e => errStr e))) (pure #[])
          else
          s.txOps.foldl (fun acc p => do let rs ← acc; let r ← p; pure (rs.push r)) (pure #[])
        let (o, m') := atomically prog s.m
        let out := match o with
          | .ok rs => "tx ok " ++ " ; ".intercalate rs.toList
          | .err e => "tx " ++ errStr e
          | .retry => "tx retry"
          | .panic => "tx panic"
        (resetFault { s with m := m', inTx := false, txIgnore := false, txOps := #[] }, out)
    | _ =>
      match txOpAll h s toks with
      | some p => ({ s with txOps := s.txOps.push p }, "queued")
      | none => (s, "bad-op")
  else stepTop h s toks

end HC
