/-
  Protocol extension for 3-D maps (`CMap3`): the commands of `Session.lean` that depend on the
  dimension, for sessions with `dim = 3`.  Everything else (`wv d x y z`, `rv`, `ra/wa/xa`,
  `beta`, `rmtx`, `rm/ins/add`, `setb`, `load/new`, `snap`, `wf`, `ndarts`, `tx … endtx`) is
  generic in `cfg.nb` and handled by `Session.lean`.
-/
import Honeycomb.Model.Session
import Honeycomb.Model.Ops3

namespace HC

/-- transactional 3-D operations -/
def txOp3 (s : Sess) (toks : List String) : Option (P Val String) :=
  if s.dim ≠ 3 then none else
  let n := s.m.n
  let unit (p : P Val Unit) : P Val String := do p; pure ""
  let num (p : P Val Nat) : P Val String := do let x ← p; pure (toString x)
  let lst (p : P Val (List Nat)) : P Val String := do let x ← p; pure (natsStr x)
  match toks with
  | ["link", i, l, r] => do
      let i ← i.toNat?; let l ← l.toNat?; let r ← r.toNat?
      match i with
      | 1 => some (unit (oneLink3 l r))
      | 2 => some (unit (iLinkCore 2 l r))
      | 3 => some (unit (threeLink3 n l r))
      | _ => some Prog.panic
  | ["unlink", i, l] => do
      let i ← i.toNat?; let l ← l.toNat?
      match i with
      | 1 => some (unit (oneUnlink3 l))
      | 2 => some (unit (iUnlinkCore 2 l))
      | 3 => some (unit (threeUnlink3 n l))
      | _ => some Prog.panic
  | ["sew", i, l, r] => do
      let i ← i.toNat?; let l ← l.toNat?; let r ← r.toNat?
      match i with
      | 1 => some (unit (oneSew3 s.cfg n l r))
      | 2 => some (unit (twoSew3 s.cfg n l r))
      | 3 => some (unit (threeSew3 s.cfg n l r))
      | _ => some Prog.panic
  | ["unsew", i, l] => do
      let i ← i.toNat?; let l ← l.toNat?
      match i with
      | 1 => some (unit (oneUnsew3 s.cfg n l))
      | 2 => some (unit (twoUnsew3 s.cfg n l))
      | 3 => some (unit (threeUnsew3 s.cfg n l))
      | _ => some Prog.panic
  | ["vid", d] => do
      let d ← d.toNat?
      some (num (vertexId3 n d))
  | ["eid", d] => do
      let d ← d.toNat?
      some (num (edgeId3 n d))
  | ["fid", d] => do
      let d ← d.toNat?
      some (num (faceId3 n d))
  | ["volid", d] => do
      let d ← d.toNat?
      some (num (volumeId3 n d))
  | ["orbit", pol, d] => do
      let pol ← parsePolicy pol; let d ← d.toNat?
      some (lst (orbit3 n pol d))
  | _ => none

/-- top-level 3-D commands: the iterators -/
def top3 (s : Sess) (toks : List String) : Option (Sess × String) :=
  if s.dim ≠ 3 then none else
  let pr (r : Option (List Nat)) : Option (Sess × String) :=
    match r with
    | some l => some (s, "ok " ++ natsStr l)
    | none => some (s, "panic")
  match toks with
  | ["iterv"] => pr (iterCellsChk s.m (vertexId3 s.m.n))
  | ["itere"] => pr (iterCellsChk s.m (edgeId3 s.m.n))
  | ["iterf"] => pr (iterCellsChk s.m (faceId3 s.m.n))
  | ["itervol"] => pr (iterCellsChk s.m (volumeId3 s.m.n))
  | _ => none

end HC
