/-
  L3 — the discrete sub-algorithms of `grisubal` that an executable model can carry
  (`honeycomb-kernels/src/grisubal/routines/pre_processing.rs`).

  Modelled: `detect_orientation_issue`, the sizing formulas of `compute_overlapping_grid`, and step 1
  of the kernel for one segment (`generate_intersection_data`, `compute_intersecs.rs`): which grid darts
  the segment crosses, at which relative position `t` of the grid side and at which parameter `s` of
  the segment, in the order from the first to the second end point — over `Rat` (exact `/`, `floor`),
  with the `T::epsilon()` bands of the diagonal case as a parameter `eps`.
  Step 2 (`group_intersections_per_edge`, `compute_intersection_ids`) as pure functions of the slot vector, β2 and the
  iteration order of the `HashMap`; step 3 on a map: `Model/GrisubalInsert.lean`; clip: `Model/Clip.lean`.
  Steps 4-5 (edge data, edge insertion, boundary marking) are validated end-to-end by the exact oracle of
  `tools/props/c16.py` on the real implementation (DESIGN.md §7 C16).

  Import-free (core only).
-/

namespace HC

/-- `detect_orientation_issue`: the loop over `geometry.segments` with the two `HashSet`s
    `origins` / `endpoints` (here lists; only membership is used).  `true` = the function returns
    `Err(GrisubalError::InconsistentOrientation("in-boundary inconsistency"))`.

    `if !origins.insert(orig) || !endpoints.insert(endp)`: `insert` returns `false` when the value
    was already present; `||` short-circuits, so `endp` is not inserted when `orig` was present —
    irrelevant because the function returns at once. -/
def detectOrientationIssueFrom : List (Nat × Nat) → List Nat → List Nat → Bool
  | [], _, _ => false
  | (o, e) :: rest, origins, endpoints =>
      if origins.contains o then true
      else if endpoints.contains e then true
      else detectOrientationIssueFrom rest (o :: origins) (e :: endpoints)

def detectOrientationIssue (segments : List (Nat × Nat)) : Bool :=
  detectOrientationIssueFrom segments [] []

/-! `compute_overlapping_grid`, one axis, over `Rat` (exact `/` and `ceil`).  `shift` is the cumulated
    shift of the origin in cells (`0` when no geometry vertex lies on a grid line — general position —,
    otherwise the partial sum `1/4 + 1/8 + …` of the shift loop, always `< 1/2`). -/

/-- `og = min - len_cell * 1.5 (+ len_cell * shift)` -/
def gridOrigin (mn c shift : Rat) : Rat := mn - c * (3 / 2) + c * shift

/-- `n_cells = ((max - og) / len_cell).ceil().to_usize().unwrap() + 1` -/
def gridCells (mn mx c shift : Rat) : Nat := ((mx - gridOrigin mn c shift) / c).ceil.toNat + 1

/-! ### the origin-shift loop of `compute_overlapping_grid` and `detect_overlaps`

  `og = min - 1.5·cell`; `while on_corner | reflect { og += cell / 2^(i+1); i += 1; re-check }` with `i` from 1: after `k`
  iterations the origin has moved by `cell·(1/4 + … + 1/2^(k+1)) = cell·(1/2 - 1/2^(k+1))` on both axes.
  `detect_overlaps(.., overlap_only_corners)` is called with `!keep_all_poi` before the loop AND inside it:
  `grisubal` (`keep_all_poi = false`) looks for vertices on grid corners only, `capture_geometry` (`true`) for vertices on
  any grid line; both also look for "reflections" (a boundary vertex on a grid line whose two neighbours share a cell).
  Over `Rat` (exact `%`, `/`, `floor`); the loop on a fuel of `2·|V| + 1` checks (`Props/C16Grid.lean`: never exhausted). -/

/-- cumulated shift, in cells, after `k` iterations -/
def shiftAfter (k : Nat) : Rat := 1 / 2 - 1 / (2 : Rat) ^ (k + 1)

/-- `((v - origin) % cell).is_zero()` -/
def onLine (o c v : Rat) : Bool := ((v - o) / c).isInt

/-- `GridCellId(((v.x - ox) / cx).floor(), ((v.y - oy) / cy).floor())` -/
def cellAt (ox oy cx cy : Rat) (v : Rat × Rat) : Int × Int := (((v.1 - ox) / cx).floor, ((v.2 - oy) / cy).floor)

/-- the lazily evaluated chain `filter_map(on a line) . filter(belongs to the boundary) . map(c_in == c_out) . any()`;
    `none` = one of the two `.expect("E: found a vertex with no incident segment - is the geometry open?")` fires -/
def badReflection (verts : List (Rat × Rat)) (segs : List (Nat × Nat)) (ox oy cx cy : Rat) :
    List ((Rat × Rat) × Nat) → Option Bool
  | [] => some false
  | (v, id) :: rest =>
      if (onLine ox cx v.1 || onLine oy cy v.2) && segs.any (fun s => id = s.1 || id = s.2) then
        match segs.find? (fun s => id = s.2), segs.find? (fun s => id = s.1) with
        | some sin, some sout =>
            if cellAt ox oy cx cy (verts.getD sin.1 (0, 0)) = cellAt ox oy cx cy (verts.getD sout.2 (0, 0)) then some true
            else badReflection verts segs ox oy cx cy rest
        | _, _ => none
      else badReflection verts segs ox oy cx cy rest

/-- `detect_overlaps`: `(on_grid, bad_reflection)`; `on_grid` is computed first (it cannot panic) -/
def detectOverlaps (verts : List (Rat × Rat)) (segs : List (Nat × Nat)) (cx cy ox oy : Rat) (onlyCorners : Bool) :
    Option (Bool × Bool) :=
  let onGrid := verts.any fun v =>
    if onlyCorners then onLine ox cx v.1 && onLine oy cy v.2 else onLine ox cx v.1 || onLine oy cy v.2
  (badReflection verts segs ox oy cx cy verts.zipIdx).map fun r => (onGrid, r)

/-- the `while` loop on the check `bad k` (`none`: panic, `some true`: shift again) from iteration `k` on;
    `none` = fuel exhausted, `some none` = panic, `some (some k)` = the loop ends after `k` shifts -/
def shiftLoop (bad : Nat → Option Bool) : Nat → Nat → Option (Option Nat)
  | 0, _ => none
  | f + 1, k =>
      match bad k with
      | none => some none
      | some true => shiftLoop bad f (k + 1)
      | some false => some (some k)

/-- the check of the loop after `k` shifts -/
def gridBad (verts : List (Rat × Rat)) (segs : List (Nat × Nat)) (cx cy mnx mny : Rat) (keepAllPoi : Bool) (k : Nat) :
    Option Bool :=
  (detectOverlaps verts segs cx cy (gridOrigin mnx cx (shiftAfter k)) (gridOrigin mny cy (shiftAfter k)) (!keepAllPoi)).map
    fun r => r.1 || r.2

inductive GridOut where
  | ok (ox oy : Rat) (nx ny : Nat) (shifts : Nat)
  | invalidShape (msg : String)
  | panic
  | diverges
  deriving Repr

def listMinR (l : List Rat) (d : Rat) : Rat := l.foldl min d
def listMaxR (l : List Rat) (d : Rat) : Rat := l.foldl max d

/-- `compute_overlapping_grid(geometry, [cx, cy], keep_all_poi)` -/
def overlappingGrid (verts : List (Rat × Rat)) (segs : List (Nat × Nat)) (cx cy : Rat) (keepAllPoi : Bool) : GridOut :=
  match verts with
  | [] => .invalidShape "no vertex in shape"
  | v0 :: _ =>
    let mnx := listMinR (verts.map (·.1)) v0.1
    let mxx := listMaxR (verts.map (·.1)) v0.1
    let mny := listMinR (verts.map (·.2)) v0.2
    let mxy := listMaxR (verts.map (·.2)) v0.2
    if mxx ≤ mnx then .invalidShape "bounding values along X axis are equal"
    else if mxy ≤ mny then .invalidShape "bounding values along Y axis are equal"
    else
      match shiftLoop (gridBad verts segs cx cy mnx mny keepAllPoi) (2 * verts.length + 1) 0 with
      | none => .diverges
      | some none => .panic
      | some (some k) =>
          .ok (gridOrigin mnx cx (shiftAfter k)) (gridOrigin mny cy (shiftAfter k))
            (gridCells mnx mxx cx (shiftAfter k)) (gridCells mny mxy cy (shiftAfter k)) k

/-! ## step 1 for one segment: `generate_intersection_data` (`routines/compute_intersecs.rs`) -/

/-- the overlapping grid as the kernel sees it: origin, cell lengths, number of cells along x (the
    grid darts of cell `(x, y)` are `1 + 4x + 4·nx·y + {0 bottom, 1 right, 2 top, 3 left}`) -/
structure GGrid where
  ox : Rat
  oy : Rat
  cx : Rat
  cy : Rat
  nx : Nat
  deriving Repr

/-- a point / vertex `(x, y)` -/
abbrev Pt := Rat × Rat

/-- one intersection: the intersected grid dart, the relative position `t` on the grid side measured
    from the vertex of that dart, and the parameter `s` on the segment (the code keeps `s` only in the
    diagonal case, to sort; it is kept everywhere here — it does not influence `dart` and `t`).
    `t = 0` in the diagonal case is the code's `GeometryVertex::IntersecCorner(dart)`. -/
structure Cross where
  dart : Nat
  t : Rat
  s : Rat
  deriving Repr, DecidableEq

/-- `GridCellId(((v.x - ox) / cx).floor().to_usize().unwrap(), ((v.y - oy) / cy).floor().to_usize().unwrap())` -/
def gridCellOf (g : GGrid) (p : Pt) : Nat × Nat :=
  (((p.1 - g.ox) / g.cx).floor.toNat, ((p.2 - g.oy) / g.cy).floor.toNat)

/-- `d_base = 1 + 4 * x + nx * 4 * y` (computed in `isize` in the code; cells are non-negative) -/
def dBase (g : GGrid) (x y : Int) : Int := 1 + 4 * x + (g.nx : Int) * 4 * y

/-- `cmap.force_read_vertex(cmap.vertex_id(d_base + k))` on the freshly built grid: the corner the
    `k`-th dart of cell `(x, y)` starts from (0 bottom-left, 1 bottom-right, 2 top-right, 3 top-left;
    `Props/C12`: the builder puts `origin + (i·cx, j·cy)` there) -/
def cornerOf (g : GGrid) (x y : Int) (k : Nat) : Pt :=
  match k with
  | 0 => (g.ox + (x : Rat) * g.cx, g.oy + (y : Rat) * g.cy)
  | 1 => (g.ox + ((x : Rat) + 1) * g.cx, g.oy + (y : Rat) * g.cy)
  | 2 => (g.ox + ((x : Rat) + 1) * g.cx, g.oy + ((y : Rat) + 1) * g.cy)
  | _ => (g.ox + (x : Rat) * g.cx, g.oy + ((y : Rat) + 1) * g.cy)

/-- `left_intersec!`: `(s, t)` -/
def leftI (va vb vd : Pt) (cy : Rat) : Rat × Rat :=
  let s := (vd.1 - va.1) / (vb.1 - va.1)
  (s, (vd.2 - va.2 - (vb.2 - va.2) * s) / cy)

/-- `right_intersec!` -/
def rightI (va vb vd : Pt) (cy : Rat) : Rat × Rat :=
  let s := (vd.1 - va.1) / (vb.1 - va.1)
  (s, ((vb.2 - va.2) * s - (vd.2 - va.2)) / cy)

/-- `down_intersec!` -/
def downI (va vb vd : Pt) (cx : Rat) : Rat × Rat :=
  let s := (vd.2 - va.2) / (vb.2 - va.2)
  (s, ((vb.1 - va.1) * s - (vd.1 - va.1)) / cx)

/-- `up_intersec!` -/
def upI (va vb vd : Pt) (cx : Rat) : Rat × Rat :=
  let s := (vd.2 - va.2) / (vb.2 - va.2)
  (s, ((vd.1 - va.1) - (vb.1 - va.1) * s) / cx)

/-- the `Range<isize>` `lo..hi` -/
def irange (lo hi : Int) : List Int := (List.range (hi - lo).toNat).map (fun (k : Nat) => lo + (k : Int))

/-- vertical side of cell `(x, y)` in the direction of travel: right side (`d_base + 1`,
    `right_intersec!`) if `pos`, else left side (`d_base + 3`, `left_intersec!`) -/
def vCross (g : GGrid) (va vb : Pt) (pos : Bool) (x y : Int) : Cross :=
  let k := if pos then 1 else 3
  let st := if pos then rightI va vb (cornerOf g x y k) g.cy else leftI va vb (cornerOf g x y k) g.cy
  { dart := (dBase g x y + (k : Int)).toNat, t := st.2, s := st.1 }

/-- horizontal side of cell `(x, y)` in the direction of travel: top side (`d_base + 2`,
    `up_intersec!`) if `pos`, else bottom side (`d_base`, `down_intersec!`) -/
def hCross (g : GGrid) (va vb : Pt) (pos : Bool) (x y : Int) : Cross :=
  let k := if pos then 2 else 0
  let st := if pos then upI va vb (cornerOf g x y k) g.cx else downI va vb (cornerOf g x y k) g.cx
  { dart := (dBase g x y + (k : Int)).toNat, t := st.2, s := st.1 }

/-- the `filter_map` closure of the diagonal case: at most one intersection per cell of the sub-grid
    (`i`, `j` = the cell offsets) -/
def diagPick (eps : Rat) (i j : Int) (v h : Cross) : Option Cross :=
  let corner : Option Cross :=
    if decide (0 < i) = decide (0 < j) then
      -- (true, true) | (false, false)
      if (if v.t - 1 < 0 then -(v.t - 1) else v.t - 1) < eps ∧ (if h.t < 0 then -h.t else h.t) < eps then
        some { h with t := 0 }
      else none
    else
      if (if v.t < 0 then -v.t else v.t) < eps ∧ (if h.t - 1 < 0 then -(h.t - 1) else h.t - 1) < eps then
        some { v with t := 0 }
      else none
  match corner with
  | some c => some c
  | none =>
    if eps ≤ v.s ∧ v.s ≤ 1 - eps ∧ eps ≤ v.t ∧ v.t ≤ 1 - eps then some v
    else if eps < h.s ∧ h.s ≤ 1 - eps ∧ eps ≤ h.t ∧ h.t ≤ 1 - eps then some h
    else none

/-- stable insertion by `s` (`sort_by(|(s1, ..), (s2, ..)| s1.partial_cmp(s2))` is a stable sort) -/
def insertByS (c : Cross) : List Cross → List Cross
  | [] => [c]
  | d :: ds => if c.s < d.s then c :: d :: ds else d :: insertByS c ds

def sortByS (l : List Cross) : List Cross := l.foldl (fun acc c => insertByS c acc) []

/-- `generate_intersection_data` for the segment `va → vb`: the intersections in the order of the
    vertex chain the code builds (`vs`, the keys / values of `new_segments`), i.e. from `va` to `vb`;
    see `crossingsMeta` for the order of the identifiers -/
def crossingsOf (g : GGrid) (eps : Rat) (va vb : Pt) : List Cross :=
  let c1 := gridCellOf g va
  let c2 := gridCellOf g vb
  let i : Int := (c2.1 : Int) - (c1.1 : Int)
  let j : Int := (c2.2 : Int) - (c1.2 : Int)
  let dist := i.natAbs + j.natAbs
  let ib : Int := c1.1
  let jb : Int := c1.2
  match dist with
  | 0 => []
  | 1 =>
      -- `match diff { (-1, 0) => d_base + 3 / left, (1, 0) => d_base + 1 / right, (0, -1) => d_base / down,
      --               (0, 1) => d_base + 2 / up }`
      if j = 0 then [vCross g va vb (decide (0 < i)) ib jb]
      else [hCross g va vb (decide (0 < j)) ib jb]
  | _ =>
      if j = 0 then
        -- `(i, 0)`: `(min(i_base, i_base + 1 + i)..max(i_base + i, i_base + 1))`, reversed if `i < 0`
        let l := (irange (min ib (ib + 1 + i)) (max (ib + i) (ib + 1))).map
          (fun x => vCross g va vb (decide (0 < i)) x jb)
        if 0 < i then l else l.reverse
      else if i = 0 then
        let l := (irange (min jb (jb + 1 + j)) (max (jb + j) (jb + 1))).map
          (fun y => hCross g va vb (decide (0 < j)) ib y)
        if 0 < j then l else l.reverse
      else
        -- `(i, j)`: the cells of the sub-grid, `x` outer, `y` inner
        let xs := irange (min ib (ib + i)) (max (ib + i) ib + 1)
        let ys := irange (min jb (jb + j)) (max (jb + j) jb + 1)
        let cand := xs.flatMap (fun x => ys.filterMap (fun y =>
          diagPick eps i j (vCross g va vb (decide (0 < i)) x y) (hCross g va vb (decide (0 < j)) x y)))
        -- `intersec_data.iter_mut().zip(i_ids)`: at most `dist` of them receive an identifier
        (sortByS (cand.filter (fun c => decide (0 ≤ c.s ∧ c.s ≤ 1)))).take dist

/-- `intersection_metadata[start .. start + dist]` for the segment: the same intersections *indexed by
    their identifier*.  The identifiers are handed out with `range.zip(i_ids)` before `tmp.rev()`
    reverses the vertex chain, so in the two backward straight cases (`(i, 0)` with `i ≤ -2`, `(0, j)`
    with `j ≤ -2`) they run against the segment; everywhere else identifier order = segment order. -/
def crossingsMeta (g : GGrid) (eps : Rat) (va vb : Pt) : List Cross :=
  let c1 := gridCellOf g va
  let c2 := gridCellOf g vb
  let i : Int := (c2.1 : Int) - (c1.1 : Int)
  let j : Int := (c2.2 : Int) - (c1.2 : Int)
  if (j = 0 ∧ i < -1) ∨ (i = 0 ∧ j < -1) then (crossingsOf g eps va vb).reverse
  else crossingsOf g eps va vb

/-- one slot of `intersection_metadata`; `none` is the preallocated `(NULL_DART_ID, NaN)` -/
abbrev Slot := Option (Nat × Rat)

/-- the slots `intersection_metadata[start .. start + dist]` of the segment as the kernel leaves them:
    `dist = |Δi| + |Δj|` slots are preallocated with `(0, NaN)`; in the diagonal branch an entry with
    `t = 0` (the segment goes through a grid corner) becomes `GeometryVertex::IntersecCorner` and its slot
    is not written; the slots beyond the entries found are not written either (a corner is one entry
    for two grid lines).  For a segment in general position every slot is written
    (`C16_slots_genpos`). -/
def slotsOf (g : GGrid) (eps : Rat) (va vb : Pt) : List Slot :=
  let c1 := gridCellOf g va
  let c2 := gridCellOf g vb
  let i : Int := (c2.1 : Int) - (c1.1 : Int)
  let j : Int := (c2.2 : Int) - (c1.2 : Int)
  let l : List Slot := (crossingsMeta g eps va vb).map fun c =>
    if i ≠ 0 ∧ j ≠ 0 ∧ c.t = 0 then none else some (c.dart, c.t)
  l ++ List.replicate (i.natAbs + j.natAbs - l.length) none

/-! ## steps 2 and 3: `group_intersections_per_edge`, `compute_intersection_ids`
    (`routines/process_intersecs_data.rs`)

  Pure functions of the slot vector and of β2 of the grid.  The `HashMap<EdgeIdType, Vec<…>>` is iterated
  three times (`values_mut`, `values`, `iter`) without modification in between, hence in one and the same
  unspecified order: the model takes that order (`keys`) as an argument. -/

/-- `cmap.edge_id(d)` of a 2-map: the smaller dart of the edge -/
def edgeOf (b2 : Nat → Nat) (d : Nat) : Nat := if b2 d ≠ 0 ∧ b2 d < d then b2 d else d

/-- `(idx, t, dart_id)`: slot number, position relative to the edge's identifier dart, the dart that was hit -/
structure Hit where
  idx : Nat
  t : Rat
  dart : Nat
deriving DecidableEq, Repr

/-- `.into_iter().enumerate().filter(|(_, (_, t))| !t.is_nan())` with the side adjustment `t = 1 - t`: `idx` is the
    SLOT number (the identifier of `GeometryVertex::Intersec(idx)`); unwritten slots contribute nothing
    (/repo 2e893a8; before that commit the filter came first and `idx` was the rank among the written slots:
    finding D16c, fixed) -/
def hitsOf (b2 : Nat → Nat) (slots : List Slot) : List (Nat × Hit) :=
  slots.zipIdx.filterMap fun x =>
    x.1.map fun dt =>
      (edgeOf b2 dt.1, { idx := x.2, t := if edgeOf b2 dt.1 ≠ dt.1 then 1 - dt.2 else dt.2, dart := dt.1 })

/-- stable insertion by `t` (`sort_by` is a stable sort) -/
def insertHit (h : Hit) : List Hit → List Hit
  | [] => [h]
  | x :: xs => if h.t < x.t then h :: x :: xs else x :: insertHit h xs

def sortHits (l : List Hit) : List Hit := l.foldl (fun acc h => insertHit h acc) []

/-- the value stored under the key `e`: its hits in slot order, then sorted by `t` -/
def groupOf (hs : List (Nat × Hit)) (e : Nat) : List Hit :=
  sortHits ((hs.filter (fun x => x.1 = e)).map (·.2))

/-- the map in its iteration order -/
def groupsOf (hs : List (Nat × Hit)) (keys : List Nat) : List (Nat × List Hit) :=
  keys.map fun e => (e, groupOf hs e)

/-- `dart_slices`: consecutive blocks of `2 * len` new darts from `base = add_free_darts(n_tot)` on -/
def slicesFrom : Nat → List Nat → List (List Nat)
  | _, [] => []
  | base, k :: ks => List.range' base (2 * k) :: slicesFrom (base + 2 * k) ks

/-- the assignments `res[*id] = …` of `compute_intersection_ids`, in execution order:
    `fh[i]` on the side of the edge's identifier dart, `sh[hl - 1 - i]` on the other side -/
def idAssignments (gs : List (Nat × List Hit)) (sl : List (List Nat)) : List (Nat × Nat) :=
  (gs.zip sl).flatMap fun x =>
    let hl := x.2.length / 2
    x.1.2.zipIdx.map fun hi =>
      (hi.1.idx, if hi.1.dart = x.1.1 then x.2.getD hi.2 0 else x.2.getD (hl + (hl - 1 - hi.2)) 0)

/-- `compute_intersection_ids(n_intersec, …)`: `vec![NULL_DART_ID; n_intersec]` then the assignments -/
def intersectionIds (n : Nat) (gs : List (Nat × List Hit)) (sl : List (List Nat)) : List Nat :=
  (idAssignments gs sl).foldl (fun r a => r.set a.1 a.2) (List.replicate n 0)

/-- steps 2 together, for the iteration order `keys`: the dart of every SLOT (what step 4 reads with
    `intersection_darts[id]`, `id` being the slot number of `GeometryVertex::Intersec(id)`) -/
def intersectionDarts (b2 : Nat → Nat) (base : Nat) (slots : List Slot) (keys : List Nat) : List Nat :=
  let gs := groupsOf (hitsOf b2 slots) keys
  intersectionIds slots.length gs (slicesFrom base (gs.map (·.2.length)))

/-! ## step 1 for the whole geometry: `new_segments`; step 4: `generate_edge_data`
    (`routines/compute_intersecs.rs`, `routines/compute_new_edges.rs`) -/

/-- `GeometryVertex` -/
inductive GV where
  | regular (i : Nat)
  | poi (i : Nat)
  | intersec (i : Nat)
  | corner (d : Nat)
  deriving DecidableEq, Repr

/-- `make_geometry_vertex!` -/
def mkGV (poi : List Nat) (v : Nat) : GV := if poi.contains v then .poi v else .regular v

/-- `GridCellId::l1_dist` of the cells of the two ends: the number of slots / identifiers the segment receives -/
def segDist (g : GGrid) (va vb : Pt) : Nat :=
  (((gridCellOf g vb).1 : Int) - ((gridCellOf g va).1 : Int)).natAbs + (((gridCellOf g vb).2 : Int) - ((gridCellOf g va).2 : Int)).natAbs

/-- the vertex chain `v1, intersections …, v2` of one segment whose identifiers start at `start`: the intersection at
    position `p` of the chain is `Intersec(start + p)` — `start + (n - 1 - p)` in the two backward straight cases, where
    identifiers are handed out against the segment — or, in the diagonal branch with `t = 0`, `IntersecCorner(dart)` -/
def chainOf (g : GGrid) (eps : Rat) (poi : List Nat) (verts : List Pt) (start : Nat) (seg : Nat × Nat) : List GV :=
  let va := verts.getD seg.1 (0, 0)
  let vb := verts.getD seg.2 (0, 0)
  let i : Int := ((gridCellOf g vb).1 : Int) - ((gridCellOf g va).1 : Int)
  let j : Int := ((gridCellOf g vb).2 : Int) - ((gridCellOf g va).2 : Int)
  let cs := crossingsOf g eps va vb
  let mid := cs.zipIdx.map fun x =>
    if i ≠ 0 ∧ j ≠ 0 ∧ x.1.t = 0 then GV.corner x.1.dart
    else GV.intersec (start + (if (j = 0 ∧ i < -1) ∨ (i = 0 ∧ j < -1) then cs.length - 1 - x.2 else x.2))
  mkGV poi seg.1 :: (mid ++ [mkGV poi seg.2])

/-- `windows(2)` -/
def pairsOf {α : Type} : List α → List (α × α)
  | a :: b :: rest => (a, b) :: pairsOf (b :: rest)
  | _ => []

/-- every `(key, value)` the `flat_map` of step 1 yields, in order (collected into a `HashMap`: for equal keys the
    last one wins — `segNext`) -/
def segmentsFrom (g : GGrid) (eps : Rat) (poi : List Nat) (verts : List Pt) : Nat → List (Nat × Nat) → List (GV × GV)
  | _, [] => []
  | start, seg :: rest =>
      pairsOf (chainOf g eps poi verts start seg) ++
        segmentsFrom g eps poi verts (start + segDist g (verts.getD seg.1 (0, 0)) (verts.getD seg.2 (0, 0))) rest

def segmentsOf (g : GGrid) (eps : Rat) (poi : List Nat) (verts : List Pt) (segs : List (Nat × Nat)) : List (GV × GV) :=
  segmentsFrom g eps poi verts 0 segs

/-- `intersection_metadata` of the whole geometry -/
def slotsAll (g : GGrid) (eps : Rat) (verts : List Pt) (segs : List (Nat × Nat)) : List Slot :=
  segs.flatMap fun seg => slotsOf g eps (verts.getD seg.1 (0, 0)) (verts.getD seg.2 (0, 0))

/-- `new_segments[key]` -/
def segNext (segs : List (GV × GV)) (k : GV) : Option GV := (segs.reverse.find? (fun p => p.1 = k)).map (·.2)

def GV.isCross : GV → Bool
  | .intersec _ => true
  | .corner _ => true
  | _ => false

/-- outcome of a routine that may panic (`HashMap` index with a missing key) or, in the model only, run out of fuel -/
inductive Res (α : Type) where
  | ok (a : α)
  | panic
  | diverges
  deriving Repr, DecidableEq

/-- `MapEdge` -/
structure MEdge where
  start : Nat
  inter : List Pt
  stop : Nat
  deriving DecidableEq, Repr

/-- the `while !matches!(end, Intersec | IntersecCorner)` walk: points of interest are collected, regular vertices
    skipped -/
def walkEdge (segs : List (GV × GV)) (verts : List Pt) : Nat → GV → List Pt → Res (GV × List Pt)
  | 0, _, _ => .diverges
  | f + 1, e, acc =>
      match e with
      | .intersec _ => .ok (e, acc)
      | .corner _ => .ok (e, acc)
      | .poi v =>
          match segNext segs e with
          | none => .panic
          | some e' => walkEdge segs verts f e' (acc ++ [verts.getD v (0, 0)])
      | .regular _ =>
          match segNext segs e with
          | none => .panic
          | some e' => walkEdge segs verts f e' acc

/-- the `MapEdge` built for the key `k` (an `Intersec` / `IntersecCorner`): start dart on the far side of the start
    intersection, end dart at the end intersection -/
def edgeOfKey (b1 b2 : Nat → Nat) (verts : List Pt) (segs : List (GV × GV)) (darts : List Nat) (k : GV) : Res MEdge :=
  match segNext segs k with
  | none => .panic
  | some v =>
    match walkEdge segs verts (segs.length + 1) v [] with
    | .panic => .panic
    | .diverges => .diverges
    | .ok (e, inter) =>
        let dStart := match k with
          | .intersec i => b2 (darts.getD i 0)
          | .corner d => b2 (b1 (b2 d))
          | _ => 0
        let dEnd := match e with
          | .intersec i => darts.getD i 0
          | .corner d => d
          | _ => 0
        .ok { start := dStart, inter := inter, stop := dEnd }

/-- `generate_edge_data`: one edge per key, in the iteration order `keys` of the `HashMap` (its `Intersec` /
    `IntersecCorner` keys); the content of each edge does not depend on that order -/
def edgeData (b1 b2 : Nat → Nat) (verts : List Pt) (segs : List (GV × GV)) (darts : List Nat) : List GV → Res (List MEdge)
  | [] => .ok []
  | k :: ks =>
      match edgeOfKey b1 b2 verts segs darts k with
      | .panic => .panic
      | .diverges => .diverges
      | .ok e =>
          match edgeData b1 b2 verts segs darts ks with
          | .ok es => .ok (e :: es)
          | r => r

/-- the keys of the map that start an edge, in first-insertion order -/
def crossKeys (segs : List (GV × GV)) : List GV := ((segs.map (·.1)).filter GV.isCross).eraseDups

/-- `remove_redundant_poi` (grisubal only): points of interest on a grid line are dropped -/
def removeRedundantPoi (verts : List Pt) (poi : List Nat) (cx cy ox oy : Rat) : List Nat :=
  poi.filter fun i => !(onLine ox cx (verts.getD i (0, 0)).1 || onLine oy cy (verts.getD i (0, 0)).2)

/-- the point of the segment at parameter `s` -/
def segPoint (va vb : Pt) (s : Rat) : Pt := (va.1 + s * (vb.1 - va.1), va.2 + s * (vb.2 - va.2))

/-- `T::epsilon()` of `f64` -/
def epsF64 : Rat := 1 / 4503599627370496

end HC
