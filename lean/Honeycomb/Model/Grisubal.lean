/-
  L3 — the discrete sub-algorithms of `grisubal` that an executable model can carry
  (`honeycomb-kernels/src/grisubal/routines/pre_processing.rs`).

  Only `detect_orientation_issue` and the sizing formulas of `compute_overlapping_grid` are modelled:
  the rest of the pipeline mixes f64 formulas with
  `T::epsilon()` bands and `HashMap`-ordered dart numbering and is validated end-to-end by the exact
  oracle of `tools/props/c16.py` on the real implementation (DESIGN.md §7 C16).

  Import-free (core only).
-/

namespace HC

/-- `detect_orientation_issue`: the loop over `geometry.segments` with the two `HashSet`s
    `origins` / `endpoints` (here lists; only membership is used).  `true` = the function returns
    `Err(GrisubalError::InconsistentOrientation("in-boundary inconsistency"))`.

    `if !origins.insert(orig) || !endpoints.insert(endp)`: `insert` returns `false` when the value
    was already present; `||` short-circuits, so `endp` is not inserted when `orig` was present —
    irrelevant because the function returns at once. -/
def detectOrientationIssueFrom : List (Nat × Nat) → List Nat → List Nat → Bool
  | [], _, _ => false
  | (o, e) :: rest, origins, endpoints =>
      if origins.contains o then true
      else if endpoints.contains e then true
      else detectOrientationIssueFrom rest (o :: origins) (e :: endpoints)

def detectOrientationIssue (segments : List (Nat × Nat)) : Bool :=
  detectOrientationIssueFrom segments [] []

/-! `compute_overlapping_grid`, one axis, over `Rat` (exact `/` and `ceil`).  `shift` is the cumulated
    shift of the origin in cells (`0` when no geometry vertex lies on a grid line — general position —,
    otherwise the partial sum `1/4 + 1/8 + …` of the shift loop, always `< 1/2`). -/

/-- `og = min - len_cell * 1.5 (+ len_cell * shift)` -/
def gridOrigin (mn c shift : Rat) : Rat := mn - c * (3 / 2) + c * shift

/-- `n_cells = ((max - og) / len_cell).ceil().to_usize().unwrap() + 1` -/
def gridCells (mn mx c shift : Rat) : Nat := ((mx - gridOrigin mn c shift) / c).ceil.toNat + 1

end HC
