/-
  L3 — the discrete sub-algorithms of `grisubal` that an executable model can carry
  (`honeycomb-kernels/src/grisubal/routines/pre_processing.rs`).

  Only `detect_orientation_issue` is modelled: the rest of the pipeline mixes f64 formulas with
  `T::epsilon()` bands and `HashMap`-ordered dart numbering and is validated end-to-end by the exact
  oracle of `tools/props/c16.py` on the real implementation (DESIGN.md §7 C16).

  Import-free (core only).
-/

namespace HC

/-- `detect_orientation_issue`: the loop over `geometry.segments` with the two `HashSet`s
    `origins` / `endpoints` (here lists; only membership is used).  `true` = the function returns
    `Err(GrisubalError::InconsistentOrientation("in-boundary inconsistency"))`.

    `if !origins.insert(orig) || !endpoints.insert(endp)`: `insert` returns `false` when the value
    was already present; `||` short-circuits, so `endp` is not inserted when `orig` was present —
    irrelevant because the function returns at once. -/
def detectOrientationIssueFrom : List (Nat × Nat) → List Nat → List Nat → Bool
  | [], _, _ => false
  | (o, e) :: rest, origins, endpoints =>
      if origins.contains o then true
      else if endpoints.contains e then true
      else detectOrientationIssueFrom rest (o :: origins) (e :: endpoints)

def detectOrientationIssue (segments : List (Nat × Nat)) : Bool :=
  detectOrientationIssueFrom segments [] []

end HC
