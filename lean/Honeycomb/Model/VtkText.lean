/-
  L2 — the legacy ASCII rendering of the exported piece, at TOKEN level (C11, writer side).

  Rust                                                          model
  ----                                                          -----
  dim2/serialize.rs  `to_vtk_ascii`                             `asciiTokens`  (= `exportPiece` + `renderTokens`)
  vtkio writer.rs    `write_legacy_ascii` (UnstructuredGrid,    `renderTokens`
                     version 2.0, title "cmap", no attributes)
  (specification of the legacy format, NOT vtkio's parser)      `parseTokens`

  A text is the list of its tokens (maximal runs of non-blank characters): the header
  `# vtk DataFile Version 2.0 | cmap | ASCII | DATASET UNSTRUCTURED_GRID`, then `POINTS n double` and the `3n`
  coordinates, `CELLS num_cells size` and the `size` numbers of the flat legacy list, `CELL_TYPES k` and the `k`
  type codes, and the two empty attribute headers `POINT_DATA n`, `CELL_DATA num_cells` the writer always emits.
  NOT modelled: blanks and line breaks (vtkio puts all the coordinates, and all the cell numbers, on one line each;
  one type code per line), and the decimal printing of floats: coordinates are opaque tokens, the model prints the
  exact rational text `ratStr` and the harness rewrites the float tokens of the real output in the same notation.

  Import-free (core only).
-/
import Honeycomb.Model.Vtk
import Honeycomb.Model.CmapText

namespace HC
namespace VtkText
open Vtk CmapText

abbrev Tok := String

def header : List Tok :=
  ["#", "vtk", "DataFile", "Version", "2.0", "cmap", "ASCII", "DATASET", "UNSTRUCTURED_GRID"]

def ptToks : Val → List Tok
  | .pt x y z => [ratStr x, ratStr y, ratStr z]
  | .tm _ => ["?", "?", "?"]

def coordToks (pts : List Val) : List Tok := pts.flatMap ptToks

/-- the tokens of `write_legacy_ascii` for one inline unstructured-grid piece without attributes -/
def renderTokens (pts : List Val) (nc : Nat) (verts types : List Nat) : List Tok :=
  header ++ (["POINTS", natTok pts.length, "double"] ++ (coordToks pts ++
    (["CELLS", natTok nc, natTok verts.length] ++ (verts.map natTok ++
      (["CELL_TYPES", natTok types.length] ++ (types.map natTok ++
        ["POINT_DATA", natTok pts.length, "CELL_DATA", natTok nc]))))))

/-- the tokens of `to_vtk_ascii` -/
def asciiTokens (m : Map Val) : Out Err (List Tok) :=
  match exportPiece m with
  | .ok (pts, cells) =>
    let l := toLegacy cells
    .ok (renderTokens pts l.1 l.2.1 l.2.2)
  | .err e => .err e
  | .retry => .retry
  | .panic => .panic

/-! ## reading the tokens back (the legacy format as specified, independent of `vtkio`) -/

def stripPrefix : List Tok → List Tok → Option (List Tok)
  | [], l => some l
  | _ :: _, [] => none
  | p :: ps, x :: xs => if p = x then stripPrefix ps xs else none

def takeN (n : Nat) (l : List Tok) : Option (List Tok × List Tok) :=
  if n ≤ l.length then some (l.take n, l.drop n) else none

def parseAll {α : Type} (f : Tok → Option α) (l : List Tok) : Option (List α) := optAll (l.map f)

def triplesV : List Rat → Option (List Val)
  | [] => some []
  | x :: y :: z :: r =>
    match triplesV r with
    | some l => some (Val.pt x y z :: l)
    | none => none
  | _ => none

def parseTail (pts : List Val) (nc : Nat) (vs ts : List Nat) : List Tok → Option (List Val × Nat × List Nat × List Nat)
  | ["POINT_DATA", _, "CELL_DATA", _] => some (pts, nc, vs, ts)
  | _ => none

def parseTypes (pts : List Val) (nc : Nat) (vs : List Nat) : List Tok → Option (List Val × Nat × List Nat × List Nat)
  | "CELL_TYPES" :: k :: r =>
    match parseUsize k with
    | none => none
    | some k =>
      match takeN k r with
      | none => none
      | some (ts, r) =>
        match parseAll parseUsize ts with
        | none => none
        | some ts => parseTail pts nc vs ts r
  | _ => none

def parseCells (pts : List Val) : List Tok → Option (List Val × Nat × List Nat × List Nat)
  | "CELLS" :: nc :: sz :: r =>
    match parseUsize nc, parseUsize sz with
    | some nc, some sz =>
      match takeN sz r with
      | none => none
      | some (vs, r) =>
        match parseAll parseUsize vs with
        | none => none
        | some vs => parseTypes pts nc vs r
    | _, _ => none
  | _ => none

def parsePoints : List Tok → Option (List Val × Nat × List Nat × List Nat)
  | "POINTS" :: n :: ty :: r =>
    if ty ≠ "double" ∧ ty ≠ "float" then none else
    match parseUsize n with
    | none => none
    | some n =>
      match takeN (3 * n) r with
      | none => none
      | some (cs, r) =>
        match parseAll parseCoord cs with
        | none => none
        | some cs =>
          match triplesV cs with
          | none => none
          | some pts => parseCells pts r
  | _ => none

/-- the piece `(points, num_cells, flat list, types)` a legacy ASCII token list denotes -/
def parseTokens (toks : List Tok) : Option (List Val × Nat × List Nat × List Nat) :=
  match stripPrefix header toks with
  | none => none
  | some r => parsePoints r

end VtkText
end HC
