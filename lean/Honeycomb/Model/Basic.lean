/-
  Basic array calculus used by every model file.

  All accesses to the flat vectors of the Rust code (`Vec<TVar<_>>`) go through
  `rd` / `wr`.  They are total; the *model semantics* (`Stm.lean`) checks the
  index range separately and yields `panic` exactly where Rust's `Index` impl
  would panic.
-/

namespace HC

/-- read with a default (the default is never observed: the semantics guards the range) -/
def rd {α : Type} [Inhabited α] (a : Array α) (i : Nat) : α := a.getD i default

/-- in-bounds write (no-op out of bounds; the semantics panics before) -/
def wr {α : Type} (a : Array α) (i : Nat) (v : α) : Array α := a.setIfInBounds i v

theorem size_wr {α : Type} (a : Array α) (i : Nat) (v : α) : (wr a i v).size = a.size := by
  simp [wr]

theorem rd_wr {α : Type} [Inhabited α] (a : Array α) (i j : Nat) (v : α) :
    rd (wr a i v) j = if i = j ∧ i < a.size then v else rd a j := by
  unfold rd wr
  rw [Array.getD_eq_getD_getElem?, Array.getD_eq_getD_getElem?, Array.getElem?_setIfInBounds]
  by_cases h : i = j
  · subst h
    by_cases h2 : i < a.size
    · simp [h2]
    · simp [h2]
  · simp [h]

theorem rd_wr_same {α : Type} [Inhabited α] (a : Array α) (i : Nat) (v : α) (h : i < a.size) :
    rd (wr a i v) i = v := by simp [rd_wr, h]

theorem rd_wr_ne {α : Type} [Inhabited α] (a : Array α) (i j : Nat) (v : α) (h : i ≠ j) :
    rd (wr a i v) j = rd a j := by simp [rd_wr, h]

theorem rd_oob {α : Type} [Inhabited α] (a : Array α) (i : Nat) (h : a.size ≤ i) :
    rd a i = default := by
  unfold rd; rw [Array.getD_eq_getD_getElem?]
  have : a[i]? = none := by simp; omega
  simp [this]

theorem wr_oob {α : Type} (a : Array α) (i : Nat) (v : α) (h : a.size ≤ i) : wr a i v = a := by
  unfold wr
  apply Array.ext
  · simp
  · intro j h1 h2
    rw [Array.getElem_setIfInBounds h2]
    have : i ≠ j := by omega
    simp [this]

theorem rd_push_lt {α : Type} [Inhabited α] (a : Array α) (x : α) (i : Nat) (h : i < a.size) :
    rd (a.push x) i = rd a i := by
  unfold rd
  have : i ≠ a.size := by omega
  simp [Array.getD_eq_getD_getElem?, Array.getElem?_push, this]

theorem rd_push_eq {α : Type} [Inhabited α] (a : Array α) (x : α) :
    rd (a.push x) a.size = x := by
  unfold rd; simp [Array.getD_eq_getD_getElem?]

/-- extend an array with `k` copies of `x` (Rust: `Vec::extend((0..k).map(|_| new))`) -/
def ext {α : Type} (a : Array α) (k : Nat) (x : α) : Array α := a ++ Array.replicate k x

theorem size_ext {α : Type} (a : Array α) (k : Nat) (x : α) : (ext a k x).size = a.size + k := by
  simp [ext]

theorem rd_ext_lt {α : Type} [Inhabited α] (a : Array α) (k : Nat) (x : α) (i : Nat)
    (h : i < a.size) : rd (ext a k x) i = rd a i := by
  unfold rd ext
  simp [Array.getD_eq_getD_getElem?, Array.getElem?_append, h]

theorem rd_ext_ge {α : Type} [Inhabited α] (a : Array α) (k : Nat) (x : α) (i : Nat)
    (h1 : a.size ≤ i) (h2 : i < a.size + k) : rd (ext a k x) i = x := by
  unfold rd ext
  have h3 : ¬ i < a.size := by omega
  have h4 : i - a.size < k := by omega
  simp [Array.getD_eq_getD_getElem?, Array.getElem?_append, h3, h4]

end HC
