/-
  `honeycomb-kernels/src/remeshing/swap.rs`: `swap_edge`, composed from the core operations exactly
  as the Rust composes them (same reads, same order; `||` short-circuits).

  Also the small helpers shared by the three remeshing kernels (`Swap`, `Cut`, `Collapse`):
  error values and the `AttrStorageManager::{read,write,remove}_attribute` accessors, which answer
  `Ok(None)` without touching anything when the attribute kind has no storage.
-/
import Honeycomb.Model.Ops2

namespace HC
variable {X : Type}

def errNullEdge : Err := ⟨"NullEdge", []⟩
def errIncompleteEdge : Err := ⟨"IncompleteEdge", []⟩
def errBadTopology : Err := ⟨"BadTopology", []⟩

/-- `swap_edge(t, map, e)` -/
def swapEdge (cfg : Cfg X) (n e : Nat) : P X Unit := do
  if e = 0 then abort errNullEdge else
  let l := e
  let r ← rB 2 e
  if r = 0 then abort errIncompleteEdge else
  let b1l ← rB 1 l
  let b1r ← rB 1 r
  let b0l ← rB 0 l
  let b0r ← rB 0 r
  let b1b1l ← rB 1 b1l
  -- `a != b0l || b != b0r`: the second β1 is only read when the first comparison is false
  let bad ← (if b1b1l ≠ b0l then pure true else do
    let b1b1r ← rB 1 b1r
    pure (decide (b1b1r ≠ b0r)) : P X Bool)
  if bad then abort errBadTopology else
  oneUnsew2 cfg n l
  oneUnsew2 cfg n r
  oneUnsew2 cfg n b0l
  oneUnsew2 cfg n b0r
  oneUnsew2 cfg n b1l
  oneUnsew2 cfg n b1r
  oneSew2 cfg n l b0r
  oneSew2 cfg n b0r b1l
  oneSew2 cfg n b1l l
  oneSew2 cfg n r b0l
  oneSew2 cfg n b0l b1r
  oneSew2 cfg n b1r r

/-! ## attribute accessors of `CMap2` (`contains_attribute`, `read/write/remove_attribute`) -/

/-- `contains_attribute::<A>()` for the attribute kind stored in storage `s` -/
def regd (cfg : Cfg X) (s : Nat) : Bool := decide (cfg.kinds.getD s 9 < 4)

/-- `read_attribute::<A>(t, id)`: `Ok(None)` when the storage does not exist -/
def readAttr (cfg : Cfg X) (s id : Nat) : P X (Option X) :=
  if regd cfg s then rA s id else pure none

/-- `write_attribute::<A>(t, id, v)` (`TVar::replace`: read, then write; returns the old value) -/
def writeAttr (cfg : Cfg X) (s id : Nat) (v : X) : P X (Option X) :=
  if regd cfg s then do
    let old ← rA s id
    wA s id (some v)
    pure old
  else pure none

/-- `remove_attribute::<A>(t, id)` -/
def removeAttr (cfg : Cfg X) (s id : Nat) : P X (Option X) :=
  if regd cfg s then do
    let old ← rA s id
    wA s id none
    pure old
  else pure none

/-- storages of the three anchor kinds in the session configuration -/
def stVA : Nat := 6
def stEA : Nat := 7
def stFA : Nat := 8

end HC
