/-
  `honeycomb-kernels/src/remeshing/cut.rs`: `cut_outer_edge`, `cut_inner_edge`, composed from the
  core operations exactly as the Rust composes them.

  Anchors are `Val.tm (.leaf code)` (see `Val.lean`); the `From` conversions come from the generated
  table.  `retry()` (an end point without coordinates) is `Prog.retry`.
-/
import Honeycomb.Model.Ops2
import Honeycomb.Model.Kernels.Geom2
import Honeycomb.Model.Kernels.Swap

namespace HC

open Gen.Anchors

/-- `EdgeAnchor::from(a: FaceAnchor)` on stored values -/
def faceToEdgeVal (v : Val) : Val :=
  match v with
  | .tm (.leaf c) =>
      match FaceAnchor.ofCode c with
      | some a => .tm (.leaf a.toEdgeAnchor.code)
      | none => v
  | _ => v

/-- `VertexAnchor::from(a: EdgeAnchor)` on stored values -/
def edgeToVertexVal (v : Val) : Val :=
  match v with
  | .tm (.leaf c) =>
      match EdgeAnchor.ofCode c with
      | some a => .tm (.leaf a.toVertexAnchor.code)
      | none => v
  | _ => v

/-- `Vertex2::average(&v1, &v2)` on stored values -/
def avgVal (v1 v2 : Val) : Val := (P2.avg v1.p2 v2.p2).toVal

/-- `if map.contains_attribute::<FaceAnchor>() { let fid = face_id(d); remove_attribute(fid) } else { None }` -/
def takeFaceAnchor (cfg : Cfg Val) (n d : Nat) : P Val (Option Val) :=
  if regd cfg stFA then do
    let fid ← faceId2 n d
    removeAttr cfg stFA fid
  else pure none

/-- `if map.contains_attribute::<EdgeAnchor>() { read_attribute(e) } else { None }` -/
def peekEdgeAnchor (cfg : Cfg Val) (e : Nat) : P Val (Option Val) :=
  if regd cfg stEA then readAttr cfg stEA e else pure none

/-- `match (read_vertex(vid1)?, read_vertex(vid2)?) { (Some, Some) => average, _ => retry()? }` -/
def midpointOrRetry (vid1 vid2 : Nat) : P Val Val := do
  let v1 ← rA 0 vid1
  let v2 ← rA 0 vid2
  match v1, v2 with
  | some v1, some v2 => pure (avgVal v1 v2)
  | _, _ => Prog.retry

/-- `if let Some(a) = f_anchor { … }`: both new faces and the new inner edge get the face anchor -/
def spreadFaceAnchor (cfg : Cfg Val) (n : Nat) (fa : Option Val) (nda ndb : Nat) : P Val Unit :=
  match fa with
  | none => pure ()
  | some a => do
      let fid1 ← faceId2 n nda
      let fid2 ← faceId2 n ndb
      let _ ← writeAttr cfg stFA fid1 a
      let _ ← writeAttr cfg stFA fid2 a
      if regd cfg stEA then do
        let eid ← edgeId2 nda
        let _ ← writeAttr cfg stEA eid (faceToEdgeVal a)
        pure ()
      else pure ()

/-- `if let Some(a) = e_anchor { vid = vertex_id(nd1); write_attribute(vid, VertexAnchor::from(a)) }` -/
def spreadEdgeAnchor (cfg : Cfg Val) (n : Nat) (ea : Option Val) (nd1 : Nat) : P Val Unit :=
  match ea with
  | none => pure ()
  | some a => do
      let vid ← vertexId2 n nd1
      let _ ← writeAttr cfg stVA vid (edgeToVertexVal a)
      pure ()

/-- the `if let Some(a) = e_anchor { … }` block of `cut_outer_edge` (/repo 27a7433): the new vertex gets
    `VertexAnchor::from(a)` and the second half of the cut edge (the new dart `nd3`) gets `a` itself -/
def spreadEdgeAnchorOuter (cfg : Cfg Val) (n : Nat) (ea : Option Val) (nd1 nd3 : Nat) : P Val Unit :=
  match ea with
  | none => pure ()
  | some a => do
      let vid ← vertexId2 n nd1
      let _ ← writeAttr cfg stVA vid (edgeToVertexVal a)
      let eid ← edgeId2 nd3
      let _ ← writeAttr cfg stEA eid a
      pure ()

/-- `cut_outer_edge(t, map, e, [nd1, nd2, nd3])` -/
def cutOuterEdge (cfg : Cfg Val) (n e nd1 nd2 nd3 : Nat) : P Val Unit := do
  iLinkCore 2 nd1 nd2
  oneLinkCore nd2 nd3
  let fAnchor ← takeFaceAnchor cfg n e
  let eAnchor ← peekEdgeAnchor cfg e
  let ld := e
  let b0ld ← rB 0 ld
  let b1ld ← rB 1 ld
  let vid1 ← vertexId2 n ld
  let vid2 ← vertexId2 n b1ld
  let newV ← midpointOrRetry vid1 vid2
  -- /repo aac3ec9: the midpoint is stored under the identifier of the new vertex (`nd1`, `nd3` already share it)
  let newVid ← vertexId2 n nd1
  let _ ← writeVtx newVid newV
  oneUnsew2 cfg n ld
  oneUnsew2 cfg n b1ld
  oneSew2 cfg n ld nd1
  oneSew2 cfg n nd1 b0ld
  oneSew2 cfg n nd3 b1ld
  oneSew2 cfg n b1ld nd2
  spreadFaceAnchor cfg n fAnchor nd1 nd2
  spreadEdgeAnchorOuter cfg n eAnchor nd1 nd3

/-- `cut_inner_edge(t, map, e, [nd1, nd2, nd3, nd4, nd5, nd6])` -/
def cutInnerEdge (cfg : Cfg Val) (n e nd1 nd2 nd3 nd4 nd5 nd6 : Nat) : P Val Unit := do
  iLinkCore 2 nd1 nd2
  oneLinkCore nd2 nd3
  iLinkCore 2 nd4 nd5
  oneLinkCore nd5 nd6
  let ld := e
  let rd ← rB 2 e
  let lfAnchor ← takeFaceAnchor cfg n ld
  let rfAnchor ← takeFaceAnchor cfg n rd
  let eAnchor ← peekEdgeAnchor cfg e
  let b0ld ← rB 0 ld
  let b1ld ← rB 1 ld
  let b0rd ← rB 0 rd
  let b1rd ← rB 1 rd
  let vid1 ← vertexId2 n ld
  let vid2 ← vertexId2 n b1ld
  let newV ← midpointOrRetry vid1 vid2
  -- /repo aac3ec9: the midpoint is stored under the identifier of the new vertex (`nd1`, `nd3` already share it)
  let newVid ← vertexId2 n nd1
  let _ ← writeVtx newVid newV
  twoUnsew2 cfg n ld
  oneUnsew2 cfg n ld
  oneUnsew2 cfg n b1ld
  oneUnsew2 cfg n rd
  oneUnsew2 cfg n b1rd
  twoSew2 cfg n ld nd6
  twoSew2 cfg n rd nd3
  oneSew2 cfg n ld nd1
  oneSew2 cfg n nd1 b0ld
  oneSew2 cfg n nd3 b1ld
  oneSew2 cfg n b1ld nd2
  oneSew2 cfg n rd nd4
  oneSew2 cfg n nd4 b0rd
  oneSew2 cfg n nd6 b1rd
  oneSew2 cfg n b1rd nd5
  spreadFaceAnchor cfg n lfAnchor nd1 nd2
  spreadFaceAnchor cfg n rfAnchor nd4 nd5
  spreadEdgeAnchor cfg n eAnchor nd1

end HC
