/-
  `honeycomb-kernels/src/remeshing/collapse.rs` (`collapse_edge`, `is_collapsible`,
  `collapse_edge_to_midpoint`, `collapse_halfcell_to_midpoint`, `collapse_edge_to_base`,
  `collapse_halfcell_to_base`) and `honeycomb-kernels/src/utils/routines.rs`
  (`is_orbit_orientation_consistent`), composed from the core operations exactly as the Rust
  composes them.  `retry()` is `Prog.retry`; `unreachable!()` is `Prog.panic`.
-/
import Honeycomb.Model.Ops2
import Honeycomb.Model.Kernels.Geom2
import Honeycomb.Model.Kernels.Swap

namespace HC

open Gen.Anchors

/-- `NonCollapsibleEdge(&'static str)`: the message is kept (blanks replaced by `-`) -/
def errNonCollapsible (msg : String) : Err := ⟨"NonCollapsibleEdge " ++ msg, []⟩
def errInvertedOrientation : Err := ⟨"InvertedOrientation", []⟩

inductive Collapsible where
  | average | left | right
  deriving DecidableEq, Repr

/-- the pure decision of `is_collapsible` once the three anchors are read:
    `none` = `unreachable!()` -/
def collapseChoice (la ra : VertexAnchor) (ea : EdgeAnchor) : Option (Except Err Collapsible) :=
  match VertexAnchor.merge la ra with
  | some val =>
      if ea.dim = la.dim ∨ ea.dim = ra.dim then
        match decide (val = la), decide (val = ra) with
        | true, true => some (.ok .average)
        | true, false => some (.ok .left)
        | false, true => some (.ok .right)
        | false, false => none
      else some (.error (errNonCollapsible "collapsing-along-this-edge-is-impossible"))
  | none => some (.error (errNonCollapsible "vertex-have-incompatible-anchors"))

def vAnchorOf (v : Val) : Option VertexAnchor :=
  match v with
  | .tm (.leaf c) => VertexAnchor.ofCode c
  | _ => none

def eAnchorOf (v : Val) : Option EdgeAnchor :=
  match v with
  | .tm (.leaf c) => EdgeAnchor.ofCode c
  | _ => none

/-- `is_collapsible(t, map, e)` -/
def isCollapsible (cfg : Cfg Val) (n e : Nat) : P Val Collapsible := do
  if !regd cfg stVA then pure .average else
  let l := e
  let b1l ← rB 1 e
  let lVid ← vertexId2 n l
  let rVid ← vertexId2 n b1l
  let a1 ← readAttr cfg stVA lVid
  let a2 ← readAttr cfg stVA rVid
  let a3 ← readAttr cfg stEA e
  match a1, a2, a3 with
  | some a1, some a2, some a3 =>
      -- values of the anchor storages are always anchor codes; anything else cannot be read back
      match vAnchorOf a1, vAnchorOf a2, eAnchorOf a3 with
      | some la, some ra, some ea =>
          match collapseChoice la ra ea with
          | some (.ok c) => pure c
          | some (.error err) => abort err
          | none => Prog.panic
      | _, _, _ => Prog.panic
  | _, _, _ => Prog.retry

/-- `collapse_halfcell_to_midpoint(t, map, (b0d, d, b1d))` -/
def collapseHalfMid (cfg : Cfg Val) (n b0d d b1d : Nat) : P Val Unit := do
  oneUnsew2 cfg n d
  oneUnsew2 cfg n b1d
  oneUnsew2 cfg n b0d
  let b2b0d ← rB 2 b0d
  let b2b1d ← rB 2 b1d
  twoUnsew2 cfg n b0d
  twoUnsew2 cfg n b1d
  twoSew2 cfg n b2b0d b2b1d
  let _ ← removeFreeDartTx d
  let _ ← removeFreeDartTx b0d
  let _ ← removeFreeDartTx b1d
  pure ()

/-- the identifier returned by both collapse variants -/
def collapsedVid (n b2b0l r b1r : Nat) : P Val Nat :=
  if b2b0l ≠ 0 then vertexId2 n b2b0l
  else if r ≠ 0 then vertexId2 n b1r
  else pure 0

/-- `collapse_edge_to_midpoint(t, map, (b0l, l, b1l), (b0r, r, b1r))` -/
def collapseEdgeToMidpoint (cfg : Cfg Val) (n b0l l b1l b0r r b1r : Nat) : P Val Nat := do
  if r ≠ 0 then do
    twoUnsew2 cfg n r
    collapseHalfMid cfg n b0r r b1r
  else pure ()
  let b2b0l ← rB 2 b0l
  collapseHalfMid cfg n b0l l b1l
  collapsedVid n b2b0l r b1r

/-- `collapse_halfcell_to_base(t, map, (d_pe, d_e, d_ne))` -/
def collapseHalfBase (cfg : Cfg Val) (n dPe dE dNe : Nat) : P Val Unit := do
  let b2dNe ← rB 2 dNe
  let b0b2dNe ← rB 0 b2dNe
  let b1b2dNe ← rB 1 b2dNe
  oneUnsew2 cfg n dE
  oneUnsew2 cfg n dPe
  oneUnsew2 cfg n dNe
  if b2dNe ≠ 0 then do
    oneUnsew2 cfg n b2dNe
    oneUnsew2 cfg n b0b2dNe
    iUnlinkCore 2 dNe
    let _ ← removeFreeDartTx dE
    let _ ← removeFreeDartTx dNe
    let _ ← removeFreeDartTx b2dNe
    oneSew2 cfg n dPe b1b2dNe
    oneSew2 cfg n b0b2dNe dPe
  else pure ()

/-- `collapse_edge_to_base(t, map, (b0l, l, b1l), (b0r, r, b1r))` (base = `l`) -/
def collapseEdgeToBase (cfg : Cfg Val) (n b0l l b1l b0r r b1r : Nat) : P Val Nat := do
  let lVid ← vertexId2 n l
  let tmpVertex ← rA 0 lVid
  let tmpAnchor ← readAttr cfg stVA lVid
  if r ≠ 0 then do
    twoUnsew2 cfg n l
    collapseHalfBase cfg n b1r r b0r
  else pure ()
  let b2b0l ← rB 2 b0l
  collapseHalfBase cfg n b0l l b1l
  let newVid ← collapsedVid n b2b0l r b1r
  if newVid ≠ 0 then do
    match tmpVertex with
    | some v => do let _ ← writeVtx newVid v; pure ()
    | none => pure ()
    match tmpAnchor with
    | some a => do let _ ← writeAttr cfg stVA newVid a; pure ()
    | none => pure ()
  else pure ()
  pure newVid

/-- `let crossp = cross_product_from_vertices(&new_v, &v1, &v2)` for the face of dart `d`, as the two facts the check
    uses: `crossp.is_zero()` and `crossp.signum()` (the two reads of `is_orbit_orientation_consistent` retry when a vertex
    is undefined) -/
def fanSign (n : Nat) (newV : Val) (d : Nat) : P Val (Bool × Int) := do
  let b1d ← rB 1 d
  let b1b1d ← rB 1 b1d
  let vid1 ← vertexId2 n b1d
  let vid2 ← vertexId2 n b1b1d
  let v1 ← rA 0 vid1
  match v1 with
  | none => Prog.retry
  | some v1 => do
      let v2 ← rA 0 vid2
      match v2 with
      | none => Prog.retry
      | some v2 => pure (decide (cross newV.p2 v1.p2 v2.p2 = 0), crossSignum newV.p2 v1.p2 v2.p2)

/-- `for &d in &tmp[1..] { … if crossp.is_zero() || ref_sign != crossp.signum() { return Ok(false) } }`
    (/repo 94962f9: a flat triangle is refused) -/
def fanAllSame (n : Nat) (newV : Val) (ref : Int) : List Nat → P Val Bool
  | [] => pure true
  | d :: ds => do
      let zs ← fanSign n newV d
      if zs.1 = true ∨ ref ≠ zs.2 then pure false else fanAllSame n newV ref ds

/-- `is_orbit_orientation_consistent(t, map, vid)`; /repo 94962f9: the reference triangle answers `Ok(false)` when its
    cross product `is_zero()` (before `signum`, which reports `+0.0` as positive) -/
def isOrbitOrientationConsistent (n vid : Nat) : P Val Bool := do
  let nv ← rA 0 vid
  match nv with
  | none => Prog.retry
  | some newV => do
      let tmp ← orbit2 n .vertex vid
      match tmp with
      | [] => Prog.panic          -- `tmp[0]` (the orbit always yields its start)
      | d :: ds => do
          let zr ← fanSign n newV d
          if zr.1 = true then pure false else fanAllSame n newV zr.2 ds

/-- `collapse_edge(t, map, e)` -/
def collapseEdge (cfg : Cfg Val) (n e : Nat) : P Val Nat := do
  if e = 0 then abort errNullEdge else
  let l := e
  let r ← rB 2 e
  let b0l ← rB 0 l
  let b1l ← rB 1 l
  let b0r ← rB 0 r
  let b1r ← rB 1 r
  let b1b1l ← rB 1 b1l
  if b1b1l ≠ b0l then abort errBadTopology else
  -- `r != NULL && β1(b1r) != b0r`: the β1 is only read when `r` is not null
  let bad ← (if r ≠ 0 then do
    let b1b1r ← rB 1 b1r
    pure (decide (b1b1r ≠ b0r)) else pure false : P Val Bool)
  if bad then abort errBadTopology else
  let c ← isCollapsible cfg n e
  let newVid ← (match c with
    | .average => collapseEdgeToMidpoint cfg n b0l l b1l b0r r b1r
    | .left => collapseEdgeToBase cfg n b0l l b1l b0r r b1r
    | .right => collapseEdgeToBase cfg n b0r r b1r b0l l b1l)
  let ok ← isOrbitOrientationConsistent n newVid
  if !ok then abort errInvertedOrientation else
  pure newVid

end HC
