/-
  `honeycomb-kernels/src/triangulation/{mod,fan}.rs`: `check_requirements`, `fan_cell`
  (`fan::process_cell`), `fan_convex_cell` (`fan::process_convex_cell`).
-/
import Honeycomb.Model.Ops2
import Honeycomb.Model.Kernels.Geom2

namespace HC

def errAlreadyTriangulated : Err := ⟨"AlreadyTriangulated", []⟩
def errNoEar : Err := ⟨"NoEar", []⟩
def errNonFannable : Err := ⟨"NonFannable", []⟩
def errNotEnoughDarts (k : Nat) : Err := ⟨"NotEnoughDarts", [k]⟩
def errTooManyDarts (k : Nat) : Err := ⟨"TooManyDarts", [k]⟩
/-- `UndefinedFace(&'static str)`: the message is kept (blanks replaced by `-`) -/
def errUndefinedFace (msg : String) : Err := ⟨"UndefinedFace " ++ msg, []⟩

/-- `check_requirements(n_darts_face, n_darts_allocated)` -/
def checkRequirements (nFace nAlloc : Nat) : Except Err Unit :=
  if nFace = 1 ∨ nFace = 2 then .error (errUndefinedFace "less-than-3-vertices")
  else if nFace = 3 then .error errAlreadyTriangulated
  else
    let diff : Int := (nAlloc : Int) - ((nFace : Int) - 3) * 2
    if diff < 0 then .error (errNotEnoughDarts diff.natAbs)
    else if diff = 0 then .ok ()
    else .error (errTooManyDarts diff.toNat)

/-- the vertices of the face darts: `for &d in &darts { vid = vertex_id(d); read_vertex(vid) or abort }` -/
def faceVertices (n : Nat) : List Nat → P Val (List Val)
  | [] => pure []
  | d :: ds => do
      let vid ← vertexId2 n d
      let v ← rA 0 vid
      match v with
      | none => abort (errUndefinedFace "one-or-more-undefined-vertices")
      | some v => do
          let rest ← faceVertices n ds
          pure (v :: rest)

/-! ## star search (pure) -/

/-- indices of the sides kept by the filter for candidate `id` (since /repo 00af791: every side `0..n`, the
    closing one included, minus the two incident ones): `!(i_seg == id || (i_seg + 1) % n == id)` -/
def fanSegs (n id : Nat) : List Nat :=
  (List.range n).filter (fun i => !(i = id || (i + 1) % n = id))

/-- the star test of candidate `id`: `none` = `unwrap` on an empty iterator (panic).  Side `i` is
    `(v_i, v_{(i+1) % n})`; the first kept side only gives the reference `signum`, the others must have the same
    `signum` and a cross product of magnitude `≥ ε` -/
def fanTest (vs : List P2) (id : Nat) : Option Bool :=
  let n := vs.length
  let v0 := vs.getD id default
  let cr := (fanSegs n id).map (fun i => (cross v0 (vs.getD i default) (vs.getD ((i + 1) % n) default),
                                           crossNegZero v0 (vs.getD i default) (vs.getD ((i + 1) % n) default)))
  match cr with
  | [] => none
  | (c0, z0) :: rest =>
      let s := signumF c0 z0
      some (rest.all (fun cz => signumF cz.1 cz.2 = s && !(decide (ratAbs cz.1 < eps))))

/-- `find_map` over the candidates in order: `none` = panic, `some none` = no star -/
def fanStarFrom (vs : List P2) : List Nat → Option (Option Nat)
  | [] => some none
  | id :: ids =>
      match fanTest vs id with
      | none => none
      | some true => some (some id)
      | some false => fanStarFrom vs ids

def fanStar (vs : List P2) : Option (Option Nat) := fanStarFrom vs (List.range vs.length)

/-! ## the fan itself -/

/-- `new_darts.chunks_exact(2)` -/
def chunks2 : List Nat → List (Nat × Nat)
  | a :: b :: rest => (a, b) :: chunks2 rest
  | _ => []

/-- the loop over the spare dart pairs; returns the last `d0` -/
def fanLoop (cfg : Cfg Val) (n : Nat) : Nat → List (Nat × Nat) → P Val Nat
  | d0, [] => pure d0
  | d0, (d1, d2) :: rest => do
      let b1d0 ← rB 1 d0
      let b1b1d0 ← rB 1 b1d0
      oneUnsew2 cfg n b1d0
      twoSew2 cfg n d1 d2
      oneSew2 cfg n d2 b1b1d0
      oneSew2 cfg n b1d0 d1
      oneSew2 cfg n d1 d0
      fanLoop cfg n d2 rest

/-- common tail of both fan kernels, from the apex dart `sdart` -/
def fanFrom (cfg : Cfg Val) (n sdart : Nat) (nds : List Nat) : P Val Unit := do
  let b0s ← rB 0 sdart
  let vid ← vertexId2 n sdart
  let v0 ← rA 0 vid
  match v0 with
  | none => Prog.panic   -- `.unwrap()`
  | some v0 => do
      oneUnsew2 cfg n b0s
      let d0 ← fanLoop cfg n sdart (chunks2 nds)
      let b1d0 ← rB 1 d0
      let b1b1d0 ← rB 1 b1d0
      oneSew2 cfg n b1b1d0 d0
      let vid ← vertexId2 n sdart
      let _ ← writeVtx vid v0
      pure ()

/-- `fan_cell` = `fan::process_cell(t, cmap, face_id, new_darts)` -/
def fanCell (cfg : Cfg Val) (n face : Nat) (nds : List Nat) : P Val Unit := do
  let darts ← orbit2 n .faceLinear face
  let vs ← faceVertices n darts
  match checkRequirements darts.length nds.length with
  | .error e => abort e
  | .ok () =>
    match fanStar (vs.map Val.p2) with
    | none => Prog.panic
    | some none => abort errNonFannable
    | some (some id) => fanFrom cfg n (darts.getD id 0) nds

/-- `fan_convex_cell` = `fan::process_convex_cell` -/
def fanConvexCell (cfg : Cfg Val) (n face : Nat) (nds : List Nat) : P Val Unit := do
  let darts ← orbit2 n .faceLinear face
  match checkRequirements darts.length nds.length with
  | .error e => abort e
  | .ok () => fanFrom cfg n face nds

end HC
